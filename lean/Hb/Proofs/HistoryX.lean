/-
Extended history SAFETY theorems about the `HashMap` model (`Hb/Model/MapOpsX.lean`: `MapOpX`,
`Map.stepX`, `Map.runX`, `Map.runXFaults`): the basic calls of `MapOp` plus `entry`, `entry_ref`,
`rustc_entry`, `raw_entry_mut` (+ one complete chain each), `raw_entry`, `try_insert`, `extend`,
`get_many_mut`, `Index`.

For EVERY environment (arbitrary, call-number dependent, possibly panicking `Hash` / `Eq` / predicate
/ `Drop`, an allocator that may refuse), `CfgOk cfg`, `GuardRuns cfg`:
  `stepX_safe`        one extended call from any valid table: never `.fault`; `TInv` and
                      `items = elems.length` on return and after an unwind; `.abort` only if the
                      allocator refuses some request (`∃ j, env.allocOk j = false`);
  `stepX_abort_exact` for every call except `extend`, `.abort` only if `env.allocOk w.ac = false`
                      (the very next request is refused), exactly as in `step_safe`;
  `stepX_no_fault`    corollary: `Map.stepX … ≠ .fault f`;
  `runX_safe`         histories from `new()`; `runX_safe_from` / `hx_runX_inv` histories from any
                      valid table;
  `hx_example`, `hx_example_full_load`, `hx_example_returns`, `hx_example_abort`: evaluated
                      non-vacuity histories.

Per-operation facts, every environment: `hx_Safe cfg A proj r` (like `en_Safe` of `EntrySpec.lean`,
but `.abort` must satisfy `A`), `hx_rawInsert_abort`, `hx_reserve_safe`, `hx_insOwned_safe`,
`hx_chainOcc_safe`, `hx_chainVac_safe`, `hx_entry_safe`, `hx_tryInsert_safe`, `hx_entryRef_safe`,
`hx_rustcLook_abort`, `hx_rustcEntry_safe`, `hx_rawEntry_safe`, `hx_rawGet_safe`,
`hx_insertMany_safe`, `hx_extend_safe`, `hx_getManyMut_safe`, `hx_index_safe`; look-ups leave the
allocation counter alone: `hx_find_ac`, `hx_makeHash_ac`, `hx_dropKeyR_ac`, `hx_search_ac`,
`hx_entryLook_ac`, `hx_rawLook_ac`.
-/
import Hb.Model.MapOpsX
import Hb.Proofs.History
import Hb.Proofs.EntrySpec
import Hb.Proofs.TableSpec
namespace Hb

variable {cfg : Cfg}

/-! ## 0. outcome predicate with the reason for `.abort` -/

/-- No fault, the table invariant holds afterwards (normal return and unwinding), and
    `handle_alloc_error` only if the allocator refuses some request. -/
def hx_Safe (cfg : Cfg) (A : Prop) {α : Type} (proj : α → World) (r : Res α) : Prop :=
  match r with
  | .ok a => TInv cfg (proj a).t
  | .panic _ w' => TInv cfg w'.t
  | .abort => A
  | .fault _ => False

variable {A : Prop}

theorem hx_Safe.bind {α β : Type} {pa : α → World} {pb : β → World} {r : Res α}
    {f : α → Res β} (hr : hx_Safe cfg A pa r)
    (hf : ∀ a, TInv cfg (pa a).t → hx_Safe cfg A pb (f a)) :
    hx_Safe cfg A pb (r.bind f) := by
  cases r with
  | ok a => exact hf a hr
  | panic c w => exact hr
  | abort => exact hr
  | fault f => exact hr.elim

theorem hx_Safe.onPanic {α : Type} {pa : α → World} {r : Res α} {g : World → World}
    (hr : hx_Safe cfg A pa r) (hg : ∀ w, (g w).t = w.t) : hx_Safe cfg A pa (r.onPanic g) := by
  cases r with
  | ok a => exact hr
  | panic c w => show TInv cfg (g w).t; rw [hg]; exact hr
  | abort => exact hr
  | fault f => exact hr.elim

/-- From the `en_Safe` facts of `EntrySpec.lean` plus the reason for an abort. -/
theorem hx_Safe.mono {B : Prop} {α : Type} {pa : α → World} {r : Res α} (hr : hx_Safe cfg A pa r)
    (hab : A → B) : hx_Safe cfg B pa r := by
  cases r with
  | ok a => exact hr
  | panic c w => exact hr
  | abort => exact hab hr
  | fault f => exact hr.elim

theorem hx_of_en {α : Type} {pa : α → World} {r : Res α} (h : en_Safe cfg pa r)
    (ha : r = .abort → A) : hx_Safe cfg A pa r := by
  cases r with
  | ok a => exact h
  | panic c w => exact h
  | abort => exact ha rfl
  | fault f => exact h.elim

theorem hx_dropKeyR_safe (env : Env) (kid : Nat) (w : World) (h : TInv cfg w.t) :
    hx_Safe cfg A id (dropKeyR cfg env kid w) := by
  rcases ag_dropKeyR (cfg := cfg) env kid w with ⟨w', d1, d2, _⟩ | ⟨w', d1, d2, _⟩
  · rw [d1]; show TInv cfg w'.t; rw [d2]; exact h
  · rw [d1]; show TInv cfg w'.t; rw [d2]; exact h

theorem hx_makeHash_safe (env : Env) (k : Nat) (w : World) (h : TInv cfg w.t) :
    hx_Safe cfg A (·.2) (makeHash env k w) := by
  cases hh : env.hash w.hc k with
  | none => rw [ag_makeHash_none hh]; exact h
  | some hv => rw [ag_makeHash_some hh]; exact h

/-! ## 1. the growth path is the only source of `.abort` -/

/-- `RawTable::insert` aborts only inside its `reserve(1)`. -/
theorem hx_rawInsert_abort {env : Env} {hash : Nat} {e : Elem} {w : World}
    (h : rawInsert cfg env hash e w = .abort) : reserve cfg env 1 w = .abort := by
  unfold rawInsert at h
  cases hr : reserve cfg env 1 w with
  | abort => rfl
  | ok w' =>
    rw [hr] at h
    exfalso
    revert h
    repeat' split
    all_goals (intro h; first | (cases h; done) | (simp only at h; split at h <;> cases h) | (rename_i hq; cases hq))
  | panic c w' =>
    rw [hr] at h
    exfalso
    revert h
    repeat' split
    all_goals (intro h; first | (cases h; done) | (simp only at h; split at h <;> cases h) | (rename_i hq; cases hq))
  | fault f =>
    rw [hr] at h
    exfalso
    revert h
    repeat' split
    all_goals (intro h; first | (cases h; done) | (simp only at h; split at h <;> cases h) | (rename_i hq; cases hq))

theorem hx_reserve_safe (hc : CfgOk cfg) (hg : GuardRuns cfg) (env : Env) (n : Nat) (w : World)
    (h : TInv cfg w.t) : hx_Safe cfg (env.allocOk w.ac = false) id (Hb.reserve cfg env n w) := by
  have hres := reserve_spec hc hc.probe env n w h
  have hex := hs_reserve_exact hc hc.probe env n w h
  cases hr : Hb.reserve cfg env n w with
  | ok w1 => rw [hr] at hres; exact hres.1
  | panic c w' =>
    rw [hr] at hres
    rcases hres with ⟨_, rfl⟩ | ⟨_, _, hres⟩
    · exact h
    · exact (hres hg).1
  | abort => rw [hr] at hex; exact hex
  | fault f => rw [hr] at hres; exact hres.elim

theorem hx_insOwned_safe (hc : CfgOk cfg) (hg : GuardRuns cfg) (env : Env) (hash : Nat) (e : Elem)
    (w : World) (h : TInv cfg w.t) :
    hx_Safe cfg (env.allocOk w.ac = false) (·.2) (Map.insOwned cfg env hash e w) := by
  refine hx_of_en (en_insOwned_safe hc hg env hash e w h) ?_
  intro hab
  unfold Map.insOwned at hab
  cases hr : rawInsert cfg env hash e w with
  | abort =>
    have h2 := hs_reserve_exact hc hc.probe env 1 w h
    rw [hx_rawInsert_abort hr] at h2
    exact h2
  | ok x => rw [hr] at hab; cases hab
  | panic c w' => rw [hr] at hab; cases hab
  | fault f => rw [hr] at hab; cases hab

/-! ## 1b. look-ups do not talk to the allocator -/

theorem hx_find_ac (hc : CfgOk cfg) (env : Env) (hash q : Nat) (w : World) (h : Inv cfg w.t)
    {r : Option Nat} {w' : World} (hf : find cfg env hash q w = .ok (r, w')) : w'.ac = w.ac := by
  rcases find_run hc hc.probe env hash q w h with
    ⟨idx, w'', k1, ⟨n, k2⟩, _⟩ | ⟨w'', k1, ⟨n, k2⟩, _⟩ | ⟨w'', k1, _⟩
  · rw [k1] at hf; cases hf; rw [k2]
  · rw [k1] at hf; cases hf; rw [k2]
  · rw [k1] at hf; cases hf

theorem hx_makeHash_ac {env : Env} {k hv : Nat} {w w' : World}
    (hf : makeHash env k w = .ok (hv, w')) : w'.ac = w.ac := by
  cases hh : env.hash w.hc k with
  | none => rw [ag_makeHash_none hh] at hf; cases hf
  | some x => rw [ag_makeHash_some hh] at hf; cases hf; rfl

theorem hx_dropKeyR_ac {env : Env} {kid : Nat} {w w' : World}
    (hf : dropKeyR cfg env kid w = .ok w') : w'.ac = w.ac := by
  unfold dropKeyR dropKey at hf
  cases hn : cfg.needsDrop with
  | false => simp [hn] at hf; rw [← hf]
  | true =>
    simp only [hn, if_true] at hf
    split at hf
    · cases hf
    · cases hf; rfl

theorem hx_search_ac (hc : CfgOk cfg) (env : Env) (k : Nat) (w : World) (h : Inv cfg w.t)
    {hv : Nat} {r : Option Nat} {w' : World} (hf : en_search cfg env k w = .ok (hv, r, w')) :
    w'.ac = w.ac := by
  unfold en_search at hf
  cases hm : makeHash env k w with
  | ok p =>
    obtain ⟨hv1, w1⟩ := p
    have hac1 := hx_makeHash_ac hm
    have ht1 : w1.t = w.t := by
      cases hh : env.hash w.hc k with
      | none => rw [ag_makeHash_none hh] at hm; cases hm
      | some x => rw [ag_makeHash_some hh] at hm; cases hm; rfl
    rw [hm] at hf
    simp only [Res.bind] at hf
    cases hfd : find cfg env hv1 k w1 with
    | ok q =>
      obtain ⟨r', w2⟩ := q
      rw [hfd] at hf
      cases hf
      rw [hx_find_ac hc env _ k w1 (by rw [ht1]; exact h) hfd, hac1]
    | panic c w2 => rw [hfd] at hf; cases hf
    | abort => rw [hfd] at hf; cases hf
    | fault f => rw [hfd] at hf; cases hf
  | panic c w1 => rw [hm] at hf; cases hf
  | abort => rw [hm] at hf; cases hf
  | fault f => rw [hm] at hf; cases hf

theorem hx_entryLook_ac (hc : CfgOk cfg) (env : Env) (k kid : Nat) (w : World) (h : Inv cfg w.t)
    {x : Nat × Option Nat} {w' : World} (hf : Map.entryLook cfg env k kid w = .ok (x, w')) :
    w'.ac = w.ac := by
  rw [en_entryLook_eq] at hf
  cases hs : en_search cfg env k w with
  | ok y =>
    obtain ⟨hv, r, w2⟩ := y
    have hac := hx_search_ac hc env k w h hs
    rw [hs] at hf
    simp only [Res.onPanic, Res.bind] at hf
    cases r with
    | none => simp only at hf; cases hf; exact hac
    | some idx =>
      simp only at hf
      cases hd : dropKeyR cfg env kid w2 with
      | ok w3 =>
        rw [hd] at hf
        cases hf
        rw [hx_dropKeyR_ac hd, hac]
      | panic c w3 => rw [hd] at hf; cases hf
      | abort => rw [hd] at hf; cases hf
      | fault f => rw [hd] at hf; cases hf
  | panic c w2 => rw [hs] at hf; cases hf
  | abort => rw [hs] at hf; cases hf
  | fault f => rw [hs] at hf; cases hf

theorem hx_rawLook_ac (hc : CfgOk cfg) (env : Env) (mode : Map.RawMode) (ph k : Nat) (w : World)
    (h : Inv cfg w.t) {r : Option Nat} {w' : World}
    (hf : Map.rawLook cfg env mode ph k w = .ok (r, w')) : w'.ac = w.ac := by
  unfold Map.rawLook at hf
  by_cases hm : mode = .fromKey
  · simp only [hm, if_true] at hf
    cases hh : env.hash w.hc k with
    | none => simp only [ag_makeHash_none hh, rf_bind_panic] at hf; cases hf
    | some hv =>
      simp only [ag_makeHash_some hh, rf_bind_ok] at hf
      exact hx_find_ac hc env hv k { w with hc := w.hc + 1 } h hf
  · simp only [hm, if_false, rf_pure, rf_bind_ok] at hf
    exact hx_find_ac hc env ph k w h hf

/-! ## 2. chains -/

theorem hx_chainOcc_safe (hc : CfgOk cfg) (env : Env) (idx : Nat) (c : Map.EChain) (w : World)
    (h : TInv cfg w.t) {old : Elem} (he : w.t.slots[idx]?.join = some old) :
    hx_Safe cfg A (·.2) (Map.chainOcc cfg env idx c w) := by
  obtain ⟨hi, hf⟩ := en_live h.1 he
  have hsz : idx < w.t.ctrl.size := by have := h.1.buckets_le_size hc; omega
  obtain ⟨t', hr, hT', _, _⟩ := en_removeAt_TInv hc h he
  have hset : ∀ e' : Elem, TInv cfg (Map.slotSet w.t idx e') := fun e' => en_slotSet_TInv h he e'
  unfold Map.chainOcc
  simp only [slotGet_ok he, liftE, rf_bind_ok]
  cases c with
  | insert vid v => show TInv cfg (Map.dropVal cfg _ _).t; rw [en_dropVal_t]; exact hset _
  | orInsert vid v => show TInv cfg (Map.dropVal cfg _ _).t; rw [en_dropVal_t]; exact h
  | orInsertWithKey vid v => show TInv cfg (Map.dropVal cfg _ _).t; rw [en_dropVal_t]; exact h
  | andModifyOrInsert nv vid v => show TInv cfg (Map.dropVal cfg _ _).t; rw [en_dropVal_t]; exact hset _
  | key => exact h
  | drop => exact h
  | occRemove =>
    simp only [hr, rf_bind_ok]
    exact (hx_dropKeyR_safe env _ _ hT').bind (fun a ha => ha)
  | occRemoveEntry =>
    simp only [hr, rf_bind_ok]
    exact hT'
  | occInsert vid v => exact hset _
  | occGetMut nv => exact hset _
  | replaceEntryWith keep nv =>
    cases keep with
    | true =>
      simp only [↓reduceIte, en_replace_keep hc h.1 he (fun it => { it with v := nv }), rf_bind_ok]
      exact hset _
    | false =>
      simp only [Bool.false_eq_true, ↓reduceIte, en_replace_none hsz hr, rf_bind_ok]
      refine (hx_dropKeyR_safe env _ _ ?_).bind (fun a ha => ha)
      rw [en_dropVal_t]; exact hT'
  | andReplaceEntryWith keep nv =>
    cases keep with
    | true =>
      simp only [↓reduceIte, en_replace_keep hc h.1 he (fun it => { it with v := nv }), rf_bind_ok]
      exact hset _
    | false =>
      simp only [Bool.false_eq_true, ↓reduceIte, en_replace_none hsz hr, rf_bind_ok]
      refine (hx_dropKeyR_safe env _ _ ?_).bind (fun a ha => ha)
      rw [en_dropVal_t]; exact hT'
  | vacInsert vid v => show TInv cfg (Map.dropVal cfg _ _).t; rw [en_dropVal_t]; exact h
  | vacInsertEntry vid v => show TInv cfg (Map.dropVal cfg _ _).t; rw [en_dropVal_t]; exact h
  | vacIntoKey => exact h

theorem hx_chainVac_safe (env : Env) (ins : Elem → World → Res (Nat × World)) (k kid : Nat)
    (c : Map.EChain) (w : World) (h : TInv cfg w.t)
    (hins : ∀ e, hx_Safe cfg A (·.2) (ins e w)) :
    hx_Safe cfg A (·.2) (Map.chainVac cfg env ins k kid c w) := by
  have hput : ∀ (e : Elem) (out : Map.EOut),
      hx_Safe cfg A (·.2) ((ins e w).bind fun x => (.ok ((false, out), x.2) : Map.EntRes)) :=
    fun e out => (hins e).bind (fun a ha => ha)
  have hdrop : ∀ (out : Map.EOut) (w0 : World), w0.t = w.t →
      hx_Safe cfg A (·.2)
        ((dropKeyR cfg env kid w0).bind fun w' => (.ok ((false, out), w') : Map.EntRes)) :=
    fun out w0 h0 => (hx_dropKeyR_safe env kid w0 (by rw [h0]; exact h)).bind (fun a ha => ha)
  cases c <;> simp only [Map.chainVac]
  all_goals first
    | exact hput _ _
    | exact hdrop _ _ rfl
    | exact hdrop _ _ (en_dropVal_t _ _)
    | exact h

/-! ## 3. `entry`, `try_insert`, `entry_ref` -/

theorem hx_entry_safe (hc : CfgOk cfg) (hg : GuardRuns cfg) (env : Env) (k kid : Nat)
    (c : Map.EChain) (w : World) (h : TInv cfg w.t) :
    hx_Safe cfg (env.allocOk w.ac = false) (·.2) (Map.entry cfg env k kid c w) := by
  have hl := en_entryLook_total hc env k kid w h.1
  unfold Map.entry
  cases hr : Map.entryLook cfg env k kid w with
  | ok x =>
    obtain ⟨⟨hv, r⟩, w1⟩ := x
    rw [hr] at hl
    simp only [Res.onPanic, Res.bind]
    cases r with
    | none =>
      have a1 : TInv cfg w1.t := by rw [hl.1]; exact h
      have hac : w1.ac = w.ac := hx_entryLook_ac hc env k kid w h.1 hr
      exact hx_chainVac_safe env _ k kid c w1 a1
        (fun e => by rw [← hac]; exact hx_insOwned_safe hc hg env hv e w1 a1)
    | some idx =>
      obtain ⟨a1, e, a2⟩ := hl
      exact hx_chainOcc_safe hc env idx c w1 (by rw [a1]; exact h) (by rw [a1]; exact a2)
  | panic c' w' =>
    rw [hr] at hl
    simp only [Res.onPanic, Res.bind]
    show TInv cfg (Map.dropValOpt cfg _ w').t
    rw [en_dropValOpt_t, hl]; exact h
  | abort => rw [hr] at hl; exact hl.elim
  | fault f => rw [hr] at hl; exact hl.elim

theorem hx_tryInsert_safe (hc : CfgOk cfg) (hg : GuardRuns cfg) (env : Env) (e : Elem) (w : World)
    (h : TInv cfg w.t) : hx_Safe cfg (env.allocOk w.ac = false) (·.2) (Map.tryInsert cfg env e w) := by
  have hl := en_entryLook_total hc env e.k e.kid w h.1
  unfold Map.tryInsert
  cases hr : Map.entryLook cfg env e.k e.kid w with
  | ok x =>
    obtain ⟨⟨hv, r⟩, w1⟩ := x
    rw [hr] at hl
    simp only [Res.onPanic, Res.bind]
    cases r with
    | none =>
      have a1 : TInv cfg w1.t := by rw [hl.1]; exact h
      have hac : w1.ac = w.ac := hx_entryLook_ac hc env e.k e.kid w h.1 hr
      rw [← hac]
      exact (hx_insOwned_safe hc hg env hv e w1 a1).bind (fun a ha => ha)
    | some idx =>
      obtain ⟨a1, x, a2⟩ := hl
      have a2' : w1.t.slots[idx]?.join = some x := by rw [a1]; exact a2
      simp only [slotGet_ok a2', liftE]
      show TInv cfg w1.t
      rw [a1]; exact h
  | panic c' w' =>
    rw [hr] at hl
    simp only [Res.onPanic, Res.bind]
    show TInv cfg (Map.dropVal cfg _ w').t
    rw [en_dropVal_t, hl]; exact h
  | abort => rw [hr] at hl; exact hl.elim
  | fault f => rw [hr] at hl; exact hl.elim

theorem hx_entryRef_safe (hc : CfgOk cfg) (hg : GuardRuns cfg) (env : Env) (k newkid : Nat)
    (c : Map.EChain) (w : World) (h : TInv cfg w.t) :
    hx_Safe cfg (env.allocOk w.ac = false) (·.2) (Map.entryRef cfg env k newkid c w) := by
  rw [en_entryRef_eq]
  rcases en_search_total hc env k w h.1 with ⟨hv, r, w1, k1, k2, _, k4⟩ | ⟨c', w', k1, k2, _⟩
  · rw [k1]
    simp only [Res.onPanic, en_bind_ok]
    have a1 : TInv cfg w1.t := by rw [k2]; exact h
    have hac : w1.ac = w.ac := hx_search_ac hc env k w h.1 k1
    have hins : ∀ (e : Elem) (out : Map.EOut), hx_Safe cfg (env.allocOk w.ac = false) (·.2)
        ((Map.insOwned cfg env hv e w1).bind fun x => (.ok ((false, out), x.2) : Map.EntRes)) :=
      fun e out => by
        rw [← hac]; exact (hx_insOwned_safe hc hg env hv e w1 a1).bind (fun a ha => ha)
    cases r with
    | some idx =>
      obtain ⟨x, hx⟩ := k4 idx rfl
      have hx1 : w1.t.slots[idx]?.join = some x := by rw [k2]; exact hx
      have hocc := hx_chainOcc_safe (A := env.allocOk w.ac = false) hc env idx c w1 a1 hx1
      cases c
      case key =>
        simp only [en_refCont, slotGet_ok hx1, liftE, en_bind_ok]
        exact a1
      all_goals exact hocc
    | none =>
      cases c
      case key => exact a1
      case insert vid v => exact hins _ _
      case orInsert vid v => exact hins _ _
      case andModifyOrInsert nv vid v => exact hins _ _
      all_goals
        show TInv cfg (Map.dropValOpt cfg _ w1).t
        rw [en_dropValOpt_t]; exact a1
  · rw [k1]
    show TInv cfg (Map.dropValOpt cfg _ w').t
    rw [en_dropValOpt_t, k2]; exact h

/-! ## 4. `rustc_entry` -/

/-- `rustc_entry()`'s look-up aborts only inside its `reserve(1)`. -/
theorem hx_rustcLook_abort (hc : CfgOk cfg) (env : Env) (k kid : Nat) (w : World)
    (h : TInv cfg w.t) (hab : Map.rustcLook cfg env k kid w = .abort) :
    env.allocOk w.ac = false := by
  rw [en_rustcLook_eq] at hab
  rcases en_search_total hc env k w h.1 with ⟨hv, r, w2, k1, k2, k3, k4⟩ | ⟨c, w', k1, k2, _⟩
  · rw [k1] at hab
    cases r with
    | none =>
      simp only [Res.bind] at hab
      have hex := hs_reserve_exact hc hc.probe env 1 w2 (by rw [k2]; exact h)
      cases hr : Hb.reserve cfg env 1 w2 with
      | abort => rw [hr] at hex; rw [← hx_search_ac hc env k w h.1 k1]; exact hex
      | ok w3 => rw [hr] at hab; cases hab
      | panic c w' => rw [hr] at hab; cases hab
      | fault f => rw [hr] at hab; cases hab
    | some idx =>
      simp only [Res.onPanic, Res.bind] at hab
      rcases ag_dropKeyR (cfg := cfg) env kid w2 with ⟨w3, d1, d2, _⟩ | ⟨w3, d1, d2, _⟩
      · rw [d1] at hab; cases hab
      · rw [d1] at hab; cases hab
  · rw [k1] at hab
    cases hab

theorem hx_insNoGrow_safe (hc : CfgOk cfg) (hash : Nat) (e : Elem) (w : World)
    (h : TInv cfg w.t) (hgl : 0 < w.t.gl) : hx_Safe cfg A (·.2) (Map.insNoGrow cfg hash e w) := by
  obtain ⟨idx, t', hr, hT, _⟩ := insertNoGrow_spec hc hc.probe h hgl hash e
  simp only [Map.insNoGrow, hr]
  exact hT

theorem hx_rustcEntry_safe (hc : CfgOk cfg) (hg : GuardRuns cfg) (env : Env) (k kid : Nat)
    (c : Map.EChain) (w : World) (h : TInv cfg w.t) :
    hx_Safe cfg (env.allocOk w.ac = false) (·.2) (Map.rustcEntry cfg env k kid c w) := by
  have hl := en_rustcLook_total hc env k kid w h
  have hab := hx_rustcLook_abort hc env k kid w h
  unfold Map.rustcEntry
  cases hr : Map.rustcLook cfg env k kid w with
  | ok x =>
    obtain ⟨⟨hv, r⟩, w1⟩ := x
    rw [hr] at hl
    simp only [Res.onPanic, Res.bind]
    cases r with
    | none =>
      obtain ⟨a1, a2, _, _⟩ := hl
      exact hx_chainVac_safe env _ k kid c w1 a1 (fun e => hx_insNoGrow_safe hc hv e w1 a1 a2)
    | some idx =>
      obtain ⟨a1, e, a2⟩ := hl
      exact hx_chainOcc_safe hc env idx c w1 (by rw [a1]; exact h) (by rw [a1]; exact a2)
  | panic c' w' =>
    rw [hr] at hl
    simp only [Res.onPanic, Res.bind]
    show TInv cfg (Map.dropValOpt cfg _ w').t
    rw [en_dropValOpt_t]; exact hl hg
  | abort => exact hab hr
  | fault f => rw [hr] at hl; exact hl.elim

/-! ## 5. `raw_entry_mut`, `raw_entry` -/

theorem hx_rawEntry_safe (hc : CfgOk cfg) (hg : GuardRuns cfg) (env : Env) (mode : Map.RawMode)
    (ph k : Nat) (c : Map.RawChain) (w : World) (h : TInv cfg w.t) :
    hx_Safe cfg (env.allocOk w.ac = false) (·.2) (Map.rawEntry cfg env mode ph k c w) := by
  have hl := en_rawLook_total hc env mode ph k w h.1
  unfold Map.rawEntry
  cases hr : Map.rawLook cfg env mode ph k w with
  | ok x =>
    obtain ⟨r, w1⟩ := x
    rw [hr] at hl
    simp only [Res.onPanic, en_bind_ok]
    cases r with
    | some idx =>
      obtain ⟨a1, old, a2⟩ := hl
      have hT : TInv cfg w1.t := by rw [a1]; exact h
      have he : w1.t.slots[idx]?.join = some old := by rw [a1]; exact a2
      obtain ⟨hi, hf⟩ := en_live hT.1 he
      have hsz : idx < w1.t.ctrl.size := by have := hT.1.buckets_le_size hc; omega
      obtain ⟨t', hrm, hT', _, _⟩ := en_removeAt_TInv hc hT he
      have hset : ∀ e' : Elem, TInv cfg (Map.slotSet w1.t idx e') := fun e' => en_slotSet_TInv hT he e'
      have hdk : ∀ (kid : Nat) (w0 : World) (out : Map.EOut), TInv cfg w0.t →
          hx_Safe cfg (env.allocOk w.ac = false) (·.2) ((dropKeyR cfg env kid w0).bind fun w2 =>
            (.ok ((true, out), w2) : Map.EntRes)) :=
        fun kid w0 out h0 => (hx_dropKeyR_safe env kid w0 h0).bind (fun a ha => ha)
      simp only [slotGet_ok he, liftE, rf_bind_ok]
      cases c with
      | insert kid vid v => exact hdk _ _ _ (by rw [en_dropVal_t]; exact hset _)
      | orInsert kid vid v => exact hdk _ _ _ (by rw [en_dropVal_t]; exact hT)
      | vacInsert kid vid v => exact hdk _ _ _ (by rw [en_dropVal_t]; exact hT)
      | vacInsertHashed kid vid v => exact hdk _ _ _ (by rw [en_dropVal_t]; exact hT)
      | occRemove =>
        simp only [hrm, rf_bind_ok]
        exact hdk _ _ _ hT'
      | occRemoveEntry =>
        simp only [hrm, rf_bind_ok]
        exact hT'
      | occInsert vid v => exact hset _
      | occInsertKey kid => exact hset _
      | andModify nv => exact hset _
      | replaceEntryWith keep nv =>
        cases keep with
        | true =>
          simp only [↓reduceIte, en_replace_keep hc hT.1 he (fun it => { it with v := nv }), rf_bind_ok]
          exact hset _
        | false =>
          simp only [Bool.false_eq_true, ↓reduceIte, en_replace_none hsz hrm, rf_bind_ok]
          exact hdk _ _ _ (by rw [en_dropVal_t]; exact hT')
      | drop => exact hT
    | none =>
      have hT : TInv cfg w1.t := by rw [hl]; exact h
      have hac : w1.ac = w.ac := hx_rawLook_ac hc env mode ph k w h.1 hr
      have hhash : ∀ (e : Elem), hx_Safe cfg (env.allocOk w.ac = false) (·.2)
          (((makeHash env k w1).onPanic (·.dropElemQuiet cfg e)).bind fun x =>
            (Map.insOwned cfg env x.1 e x.2).bind fun y =>
              (.ok ((false, .elem e), y.2) : Map.EntRes)) := by
        intro e
        cases hh : env.hash w1.hc k with
        | none =>
          rw [ag_makeHash_none hh]
          show TInv cfg (World.dropElemQuiet cfg _ e).t
          rw [dropElemQuiet_t]; exact hT
        | some hv =>
          rw [ag_makeHash_some hh]
          simp only [Res.onPanic, en_bind_ok]
          have hi := hx_insOwned_safe hc hg env hv e { w1 with hc := w1.hc + 1 } hT
          rw [← hac]
          exact hi.bind (fun a ha => ha)
      cases c with
      | insert kid vid v => exact hhash _
      | orInsert kid vid v => exact hhash _
      | vacInsert kid vid v => exact hhash _
      | vacInsertHashed kid vid v =>
        rw [← hac]; exact (hx_insOwned_safe hc hg env ph _ w1 hT).bind (fun a ha => ha)
      | occInsert vid v => show TInv cfg (Map.dropVal cfg _ w1).t; rw [en_dropVal_t]; exact hT
      | occInsertKey kid => exact (hx_dropKeyR_safe env kid w1 hT).bind (fun a ha => ha)
      | occRemove => exact hT
      | occRemoveEntry => exact hT
      | andModify nv => exact hT
      | replaceEntryWith keep nv => exact hT
      | drop => exact hT
  | panic c' w' =>
    rw [hr] at hl
    simp only [Res.onPanic, Res.bind]
    show TInv cfg (Map.dropHeldQuiet cfg _ w').t
    rw [en_dropHeldQuiet_t, hl]; exact h
  | abort => rw [hr] at hl; exact hl.elim
  | fault f => rw [hr] at hl; exact hl.elim

/-- `raw_entry().from_*(..)`: a pure look-up (may unwind in `Hash` / `Eq`), never aborts. -/
theorem hx_rawGet_safe (hc : CfgOk cfg) (env : Env) (mode : Map.RawMode) (ph k : Nat) (w : World)
    (h : TInv cfg w.t) : hx_Safe cfg A (·.2) (Map.rawGet cfg env mode ph k w) := by
  have hl := en_rawLook_total hc env mode ph k w h.1
  unfold Map.rawGet
  cases hr : Map.rawLook cfg env mode ph k w with
  | ok x =>
    obtain ⟨r, w1⟩ := x
    rw [hr] at hl
    simp only [bind, Res.bind]
    cases r with
    | none => show TInv cfg w1.t; rw [hl]; exact h
    | some idx =>
      obtain ⟨a1, e, a2⟩ := hl
      have he : w1.t.slots[idx]?.join = some e := by rw [a1]; exact a2
      simp only [slotGet_ok he, liftE]
      show TInv cfg w1.t
      rw [a1]; exact h
  | panic c' w' =>
    rw [hr] at hl
    simp only [bind, Res.bind]
    show TInv cfg w'.t
    rw [hl]; exact h
  | abort => rw [hr] at hl; exact hl.elim
  | fault f => rw [hr] at hl; exact hl.elim

/-! ## 6. `extend` -/

theorem hx_insertMany_safe (hc : CfgOk cfg) (hg : GuardRuns cfg) (env : Env) :
    ∀ (items : List Elem) (w : World), TInv cfg w.t →
      hx_Safe cfg (∃ j, env.allocOk j = false) id (Map.insertMany cfg env items w) := by
  intro items
  induction items with
  | nil => intro w h; exact h
  | cons e rest ih =>
    intro w h
    have hins := Map.insert_inv hc hc.probe env e w h
    have hex := hs_insert_exact hc hc.probe env e w h
    rw [Map.insertMany]
    cases hr : Map.insert cfg env e w with
    | ok x =>
      obtain ⟨old, w1⟩ := x
      rw [hr] at hins
      simp only
      apply ih
      rw [en_dropValOpt_t]
      cases old with
      | none => exact hins.1
      | some p => obtain ⟨a, b⟩ := p; exact hins.1
    | panic c w' =>
      rw [hr] at hins
      show TInv cfg (Map.dropAllQuiet cfg rest w').t
      rw [en_dropAllQuiet_t]
      exact hins.2 (fun _ => hg)
    | abort => rw [hr] at hex; exact ⟨_, hex⟩
    | fault f => rw [hr] at hins; exact hins.elim

theorem hx_extend_safe (hc : CfgOk cfg) (hg : GuardRuns cfg) (env : Env) (items : List Elem)
    (w : World) (h : TInv cfg w.t) : hx_Safe cfg (∃ j, env.allocOk j = false) id (Map.extend cfg env items w) := by
  unfold Map.extend
  exact (((hx_reserve_safe hc hg env _ w h).mono (fun ha => ⟨_, ha⟩)).onPanic
    (en_dropAllQuiet_t items)).bind
    (fun w1 h1 => hx_insertMany_safe hc hg env items w1 h1)

/-! ## 7. `get_many_mut`, `Index` -/

theorem hx_getManyMut_safe (hc : CfgOk cfg) (env : Env) (ks : List Nat) (w : World)
    (h : TInv cfg w.t) : hx_Safe cfg A (·.2) (Map.getManyMut cfg env ks w) := by
  rcases Map.getManyMut_spec hc hc.probe env ks w h.1 with
    ⟨c, w', a1, _, a3, _⟩ | ⟨hs, idxs, w1, _, _, _, _, b5, _, b7⟩
  · rw [a1]; show TInv cfg w'.t; rw [a3]; exact h
  · rcases b7 with ⟨_, c1⟩ | ⟨_, rs, s', c1, _, _, c4⟩
    · rw [c1]; show TInv cfg w1.t; rw [b5]; exact h
    · rw [c1]; exact h.of_inv c4 rfl

theorem hx_index_safe (hc : CfgOk cfg) (env : Env) (k : Nat) (w : World) (h : TInv cfg w.t) :
    hx_Safe cfg A (·.2) (Map.index cfg env k w) := by
  have h1 := Map.get_inv hc hc.probe env k w h
  unfold Map.index
  cases hr : Map.get cfg env k w with
  | ok pr =>
    obtain ⟨r, w'⟩ := pr
    rw [hr] at h1
    simp only [bind, Res.bind]
    cases r with
    | none => exact h1.2.2.1
    | some e => exact h1.2.2.1
  | panic c w' => rw [hr] at h1; simp only [bind, Res.bind]; exact h1.2.2.2
  | abort => rw [hr] at h1; exact h1.elim
  | fault f => rw [hr] at h1; exact h1.elim

/-! ## 8. one extended call -/

/-- What every extended call guarantees, whatever the environment does: never `.fault`; the table
    is valid and `len` is the number of stored elements on return and after an unwind; `.abort` only
    when the allocator refuses some request. -/
def hx_SafeX (cfg : Cfg) (A : Prop) : Res (RetX × World) → Prop
  | .ok (_, w') => TInv cfg w'.t ∧ w'.t.items = w'.t.elems.length
  | .panic _ w' => TInv cfg w'.t ∧ w'.t.items = w'.t.elems.length
  | .abort => A
  | .fault _ => False

theorem hx_SafeX.mono {B : Prop} {r : Res (RetX × World)} (hr : hx_SafeX cfg A r) (hab : A → B) :
    hx_SafeX cfg B r := by
  cases r with
  | ok a => exact hr
  | panic c w => exact hr
  | abort => exact hab hr
  | fault f => exact hr.elim

theorem hx_safeX_base (hc : CfgOk cfg) (hg : GuardRuns cfg) (env : Env) (op : MapOp) (w : World)
    (h : TInv cfg w.t) : hx_SafeX cfg (env.allocOk w.ac = false) (Map.stepX cfg env (.base op) w) := by
  have hs := hs_step_safe hc hg env op w h
  simp only [Map.stepX]
  cases hr : Map.step cfg env op w with
  | ok pr => obtain ⟨r, w'⟩ := pr; rw [hr] at hs; exact hs
  | panic c w' => rw [hr] at hs; exact hs
  | abort => rw [hr] at hs; exact hs
  | fault f => rw [hr] at hs; exact hs.elim

theorem hx_safeX_entry (hc : CfgOk cfg) (hg : GuardRuns cfg) (env : Env) (k kid : Nat)
    (c : Map.EChain) (w : World) (h : TInv cfg w.t) :
    hx_SafeX cfg (env.allocOk w.ac = false) (Map.stepX cfg env (.entry k kid c) w) := by
  have hs := hx_entry_safe hc hg env k kid c w h
  simp only [Map.stepX]
  cases hr : Map.entry cfg env k kid c w with
  | ok pr => obtain ⟨⟨b, o⟩, w'⟩ := pr; rw [hr] at hs; exact hs_good hc hs
  | panic c w' => rw [hr] at hs; exact hs_good hc hs
  | abort => rw [hr] at hs; exact hs
  | fault f => rw [hr] at hs; exact hs.elim

theorem hx_safeX_entryRef (hc : CfgOk cfg) (hg : GuardRuns cfg) (env : Env) (k newkid : Nat)
    (c : Map.EChain) (w : World) (h : TInv cfg w.t) :
    hx_SafeX cfg (env.allocOk w.ac = false) (Map.stepX cfg env (.entryRef k newkid c) w) := by
  have hs := hx_entryRef_safe hc hg env k newkid c w h
  simp only [Map.stepX]
  cases hr : Map.entryRef cfg env k newkid c w with
  | ok pr => obtain ⟨⟨b, o⟩, w'⟩ := pr; rw [hr] at hs; exact hs_good hc hs
  | panic c w' => rw [hr] at hs; exact hs_good hc hs
  | abort => rw [hr] at hs; exact hs
  | fault f => rw [hr] at hs; exact hs.elim

theorem hx_safeX_rustcEntry (hc : CfgOk cfg) (hg : GuardRuns cfg) (env : Env) (k kid : Nat)
    (c : Map.EChain) (w : World) (h : TInv cfg w.t) :
    hx_SafeX cfg (env.allocOk w.ac = false) (Map.stepX cfg env (.rustcEntry k kid c) w) := by
  have hs := hx_rustcEntry_safe hc hg env k kid c w h
  simp only [Map.stepX]
  cases hr : Map.rustcEntry cfg env k kid c w with
  | ok pr => obtain ⟨⟨b, o⟩, w'⟩ := pr; rw [hr] at hs; exact hs_good hc hs
  | panic c w' => rw [hr] at hs; exact hs_good hc hs
  | abort => rw [hr] at hs; exact hs
  | fault f => rw [hr] at hs; exact hs.elim

theorem hx_safeX_rawEntry (hc : CfgOk cfg) (hg : GuardRuns cfg) (env : Env) (mode : Map.RawMode)
    (ph k : Nat) (c : Map.RawChain) (w : World) (h : TInv cfg w.t) :
    hx_SafeX cfg (env.allocOk w.ac = false) (Map.stepX cfg env (.rawEntry mode ph k c) w) := by
  have hs := hx_rawEntry_safe hc hg env mode ph k c w h
  simp only [Map.stepX]
  cases hr : Map.rawEntry cfg env mode ph k c w with
  | ok pr => obtain ⟨⟨b, o⟩, w'⟩ := pr; rw [hr] at hs; exact hs_good hc hs
  | panic c w' => rw [hr] at hs; exact hs_good hc hs
  | abort => rw [hr] at hs; exact hs
  | fault f => rw [hr] at hs; exact hs.elim

theorem hx_safeX_rawGet (hc : CfgOk cfg) (env : Env) (mode : Map.RawMode)
    (ph k : Nat) (w : World) (h : TInv cfg w.t) :
    hx_SafeX cfg A (Map.stepX cfg env (.rawGet mode ph k) w) := by
  have hs := hx_rawGet_safe (A := A) hc env mode ph k w h
  simp only [Map.stepX]
  cases hr : Map.rawGet cfg env mode ph k w with
  | ok pr => obtain ⟨r, w'⟩ := pr; rw [hr] at hs; exact hs_good hc hs
  | panic c w' => rw [hr] at hs; exact hs_good hc hs
  | abort => rw [hr] at hs; exact hs
  | fault f => rw [hr] at hs; exact hs.elim

theorem hx_safeX_tryInsert (hc : CfgOk cfg) (hg : GuardRuns cfg) (env : Env) (e : Elem)
    (w : World) (h : TInv cfg w.t) :
    hx_SafeX cfg (env.allocOk w.ac = false) (Map.stepX cfg env (.tryInsert e) w) := by
  have hs := hx_tryInsert_safe hc hg env e w h
  simp only [Map.stepX]
  cases hr : Map.tryInsert cfg env e w with
  | ok pr => obtain ⟨⟨b, o⟩, w'⟩ := pr; rw [hr] at hs; exact hs_good hc hs
  | panic c w' => rw [hr] at hs; exact hs_good hc hs
  | abort => rw [hr] at hs; exact hs
  | fault f => rw [hr] at hs; exact hs.elim

theorem hx_safeX_extend (hc : CfgOk cfg) (hg : GuardRuns cfg) (env : Env) (items : List Elem)
    (w : World) (h : TInv cfg w.t) :
    hx_SafeX cfg (∃ j, env.allocOk j = false) (Map.stepX cfg env (.extend items) w) := by
  have hs := hx_extend_safe hc hg env items w h
  simp only [Map.stepX]
  cases hr : Map.extend cfg env items w with
  | ok w' => rw [hr] at hs; exact hs_good hc hs
  | panic c w' => rw [hr] at hs; exact hs_good hc hs
  | abort => rw [hr] at hs; exact hs
  | fault f => rw [hr] at hs; exact hs.elim

theorem hx_safeX_getManyMut (hc : CfgOk cfg) (env : Env) (ks : List Nat)
    (w : World) (h : TInv cfg w.t) :
    hx_SafeX cfg A (Map.stepX cfg env (.getManyMut ks) w) := by
  have hs := hx_getManyMut_safe (A := A) hc env ks w h
  simp only [Map.stepX]
  cases hr : Map.getManyMut cfg env ks w with
  | ok pr => obtain ⟨l, w'⟩ := pr; rw [hr] at hs; exact hs_good hc hs
  | panic c w' => rw [hr] at hs; exact hs_good hc hs
  | abort => rw [hr] at hs; exact hs
  | fault f => rw [hr] at hs; exact hs.elim

theorem hx_safeX_index (hc : CfgOk cfg) (env : Env) (k : Nat)
    (w : World) (h : TInv cfg w.t) :
    hx_SafeX cfg A (Map.stepX cfg env (.index k) w) := by
  have hs := hx_index_safe (A := A) hc env k w h
  simp only [Map.stepX]
  cases hr : Map.index cfg env k w with
  | ok pr => obtain ⟨⟨vid, v⟩, w'⟩ := pr; rw [hr] at hs; exact hs_good hc hs
  | panic c w' => rw [hr] at hs; exact hs_good hc hs
  | abort => rw [hr] at hs; exact hs
  | fault f => rw [hr] at hs; exact hs.elim

/-- Every call except `extend`: `handle_alloc_error` only if the allocator refuses exactly the
    next request (number `w.ac`), as in `step_safe`. -/
theorem hx_stepX_exact (hc : CfgOk cfg) (hg : GuardRuns cfg) (env : Env) (op : MapOpX) (w : World)
    (h : TInv cfg w.t) (hne : ∀ items, op ≠ .extend items) :
    hx_SafeX cfg (env.allocOk w.ac = false) (Map.stepX cfg env op w) := by
  cases op with
  | base op => exact hx_safeX_base hc hg env op w h
  | entry k kid c => exact hx_safeX_entry hc hg env k kid c w h
  | entryRef k newkid c => exact hx_safeX_entryRef hc hg env k newkid c w h
  | rustcEntry k kid c => exact hx_safeX_rustcEntry hc hg env k kid c w h
  | rawEntry mode ph k c => exact hx_safeX_rawEntry hc hg env mode ph k c w h
  | rawGet mode ph k => exact hx_safeX_rawGet hc env mode ph k w h
  | tryInsert e => exact hx_safeX_tryInsert hc hg env e w h
  | extend items => exact absurd rfl (hne items)
  | getManyMut ks => exact hx_safeX_getManyMut hc env ks w h
  | index k => exact hx_safeX_index hc env k w h

theorem hx_stepX_safe (hc : CfgOk cfg) (hg : GuardRuns cfg) (env : Env) (op : MapOpX) (w : World)
    (h : TInv cfg w.t) : hx_SafeX cfg (∃ j, env.allocOk j = false) (Map.stepX cfg env op w) := by
  by_cases hne : ∀ items, op ≠ .extend items
  · exact (hx_stepX_exact hc hg env op w h hne).mono (fun ha => ⟨_, ha⟩)
  · have : ∃ items, op = .extend items := by
      by_contra hn
      exact hne (fun items he => hn ⟨items, he⟩)
    obtain ⟨items, rfl⟩ := this
    exact hx_safeX_extend hc hg env items w h

/-- **X1.** One call of the extended safe API (`MapOpX`: the basic calls, `entry` / `entry_ref` /
    `rustc_entry` / `raw_entry_mut` with one complete chain, `raw_entry`, `try_insert`, `extend`,
    `get_many_mut`, `Index`), from any valid table, for EVERY environment (`Hash`/`Eq`/predicate
    answers arbitrary and call-number dependent, any callback or destructor may panic, the allocator
    may refuse): never `.fault`; on return AND after an unwind the table is valid and `len` is the
    number of stored elements; `.abort` (`handle_alloc_error`) only if the allocator refuses some
    request. -/
theorem stepX_safe (hc : CfgOk cfg) (hg : GuardRuns cfg) (env : Env) (op : MapOpX) (w : World)
    (h : TInv cfg w.t) :
    match Map.stepX cfg env op w with
    | .ok (_, w') => TInv cfg w'.t ∧ w'.t.items = w'.t.elems.length
    | .panic _ w' => TInv cfg w'.t ∧ w'.t.items = w'.t.elems.length
    | .abort => ∃ j, env.allocOk j = false
    | .fault _ => False := by
  have := hx_stepX_safe hc hg env op w h
  generalize Map.stepX cfg env op w = r at this ⊢
  match r, this with
  | .ok (_, _), h => exact h
  | .panic _ _, h => exact h
  | .abort, h => exact h
  | .fault _, h => exact h

/-- **X1'.** For every extended call except `extend` the reason for `.abort` is exactly that of
    `step_safe`: the allocator refused the very next request (`extend` may abort at a later one). -/
theorem stepX_abort_exact (hc : CfgOk cfg) (hg : GuardRuns cfg) (env : Env) (op : MapOpX) (w : World)
    (h : TInv cfg w.t) (hne : ∀ items, op ≠ .extend items)
    (hab : Map.stepX cfg env op w = .abort) : env.allocOk w.ac = false := by
  have := hx_stepX_exact hc hg env op w h hne
  rw [hab] at this
  exact this

/-! ## 9. extended histories -/

/-- Extended histories from any valid table. -/
theorem hx_runX_inv (hc : CfgOk cfg) (hg : GuardRuns cfg) (env : Env) :
    ∀ (ops : List MapOpX) (w : World), TInv cfg w.t →
      Map.runXFaults cfg env ops w = false ∧
      (∀ obs wf, Map.runX cfg env ops w = some (obs, wf) →
        TInv cfg wf.t ∧ wf.t.items = wf.t.elems.length) ∧
      ((∀ j, env.allocOk j = true) → ∃ obs wf, Map.runX cfg env ops w = some (obs, wf)) := by
  intro ops
  induction ops with
  | nil =>
    intro w h
    refine ⟨rfl, ?_, fun _ => ⟨[], w, rfl⟩⟩
    intro obs wf hr
    simp only [Map.runX, Option.some.injEq, Prod.mk.injEq] at hr
    rw [← hr.2]; exact hs_good hc h
  | cons op rest ih =>
    intro w h
    have hs := hx_stepX_safe hc hg env op w h
    cases hr : Map.stepX cfg env op w with
    | ok pr =>
      obtain ⟨r, w'⟩ := pr
      rw [hr] at hs
      obtain ⟨i1, i2, i3⟩ := ih w' hs.1
      simp only [Map.runX, Map.runXFaults, hr]
      refine ⟨i1, ?_, ?_⟩
      · intro obs wf hrun
        obtain ⟨⟨os, wf'⟩, h1, h2⟩ := Option.map_eq_some_iff.1 hrun
        simp only [Prod.mk.injEq] at h2
        rw [← h2.2]; exact i2 os wf' h1
      · intro ha
        obtain ⟨os, wf, h1⟩ := i3 ha
        exact ⟨_, _, by rw [h1]; rfl⟩
    | panic c w' =>
      rw [hr] at hs
      obtain ⟨i1, i2, i3⟩ := ih w' hs.1
      simp only [Map.runX, Map.runXFaults, hr]
      refine ⟨i1, ?_, ?_⟩
      · intro obs wf hrun
        obtain ⟨⟨os, wf'⟩, h1, h2⟩ := Option.map_eq_some_iff.1 hrun
        simp only [Prod.mk.injEq] at h2
        rw [← h2.2]; exact i2 os wf' h1
      · intro ha
        obtain ⟨os, wf, h1⟩ := i3 ha
        exact ⟨_, _, by rw [h1]; rfl⟩
    | abort =>
      rw [hr] at hs
      obtain ⟨j, hj⟩ : ∃ j, env.allocOk j = false := hs
      refine ⟨by simp only [Map.runXFaults, hr], fun obs wf hn => ?_, fun ha => ?_⟩
      · simp [Map.runX, hr] at hn
      · rw [ha] at hj; cases hj
    | fault f => rw [hr] at hs; exact hs.elim

/-- **X2.** Every history of extended safe-API calls on a fresh collection, for EVERY environment:
    no call reaches undefined behaviour; whenever the history runs to its end (panics are caught and
    the history goes on) the table is valid and `len` is the number of stored elements; the history
    is cut short only by `handle_alloc_error`, i.e. never if the allocator never refuses. -/
theorem runX_safe (hc : CfgOk cfg) (hg : GuardRuns cfg) (env : Env) (ops : List MapOpX) (w0 : World)
    (h0 : w0.t = Raw.new cfg.W) :
    Map.runXFaults cfg env ops w0 = false ∧
    (∀ obs w, Map.runX cfg env ops w0 = some (obs, w) →
      TInv cfg w.t ∧ w.t.items = w.t.elems.length) ∧
    ((∀ j, env.allocOk j = true) → ∃ obs w, Map.runX cfg env ops w0 = some (obs, w)) :=
  hx_runX_inv hc hg env ops w0 (by rw [h0]; exact TInv.new hc)

/-- **X2'.** The same from any valid starting table. -/
theorem runX_safe_from (hc : CfgOk cfg) (hg : GuardRuns cfg) (env : Env) (ops : List MapOpX)
    (w0 : World) (h0 : TInv cfg w0.t) :
    Map.runXFaults cfg env ops w0 = false ∧
    (∀ obs w, Map.runX cfg env ops w0 = some (obs, w) →
      TInv cfg w.t ∧ w.t.items = w.t.elems.length) ∧
    ((∀ j, env.allocOk j = true) → ∃ obs w, Map.runX cfg env ops w0 = some (obs, w)) :=
  hx_runX_inv hc hg env ops w0 h0

/-- No extended call ever reports a fault (corollary in the shape of `every_call_terminates`). -/
theorem stepX_no_fault (hc : CfgOk cfg) (hg : GuardRuns cfg) (env : Env) (op : MapOpX) (w : World)
    (h : TInv cfg w.t) (f : String) : Map.stepX cfg env op w ≠ .fault f := by
  intro hf
  have := hx_stepX_safe hc hg env op w h
  rw [hf] at this
  exact this

/-! ### non-vacuity: an evaluated extended history (SSE2 scanner, `hsExEnv` of `History.lean`) -/

/-- insert, `entry().or_insert`, `entry_ref().insert` (3 elements in 4 buckets: `growth_left = 0`),
    `rustc_entry` + `VacantEntry::insert` at full load (its `reserve(1)` grows the table),
    `rustc_entry` + `OccupiedEntry::insert`, `get_many_mut` with a duplicate request (panics "dup"),
    `get_many_mut` with a miss, `map[&9]` (absent: panics "nokey"), `map[&2]`, `raw_entry_mut`,
    `raw_entry`, `try_insert` of a present key, `extend` (one new, one present key),
    `entry().remove()`, `get`. -/
def hxExOps : List MapOpX :=
  [ .base (.insert ⟨1, 10, 100, 0⟩),
    .entry 2 20 (.orInsert 200 7),
    .entryRef 3 30 (.insert 300 9),
    .rustcEntry 4 40 (.vacInsert 400 1),
    .rustcEntry 1 11 (.occInsert 101 5),
    .getManyMut [1, 2, 1],
    .getManyMut [1, 9, 3],
    .index 9,
    .index 2,
    .rawEntry .fromKey 0 5 (.insert 50 500 3),
    .rawGet .fromKey 0 5,
    .tryInsert ⟨2, 21, 201, 8⟩,
    .extend [⟨6, 60, 600, 0⟩, ⟨1, 12, 102, 4⟩],
    .entry 3 31 .occRemove,
    .base (.get 4) ]

/-- (per call: "ret" or the class of the caught panic; `len`; bucket mask; `growth_left`). -/
def hxExSummary (ops : List MapOpX) : Option (List String × Nat × Nat × Nat) :=
  match Map.runX { ops := Sse2.ops } hsExEnv ops { t := Raw.new 16 } with
  | some (obs, wf) =>
    some (obs.map (fun o => match o with | Map.ObsX.ret _ => "ret" | Map.ObsX.panic c => c),
      wf.t.items, wf.t.mask, wf.t.gl)
  | none => none

/-- The history runs to its end (no fault, no abort); the two panics are the expected ones. -/
theorem hx_example :
    hxExSummary hxExOps =
      some (["ret", "ret", "ret", "ret", "ret", "dup", "ret", "nokey", "ret", "ret", "ret", "ret",
        "ret", "ret", "ret"], 5, 7, 2) := by rfl

/-- `rustc_entry` really was called at full load: before it 3 elements fill the 4-bucket table
    (`growth_left = 0`), after it 4 elements sit in 8 buckets. -/
theorem hx_example_full_load :
    hxExSummary (hxExOps.take 3) = some (["ret", "ret", "ret"], 3, 3, 0) ∧
    hxExSummary (hxExOps.take 4) = some (["ret", "ret", "ret", "ret"], 4, 7, 3) := ⟨by rfl, by rfl⟩

/-- What the fifth to ninth calls returned. -/
theorem hx_example_returns :
    (Map.runX { ops := Sse2.ops } hsExEnv hxExOps { t := Raw.new 16 }).map
        (fun x => (x.1.drop 4).take 5) =
      some [.ret (.ent true (.val 100 0)), .panic "dup",
        .ret (.many [some ⟨1, 10, 101, 5⟩, none, some ⟨3, 30, 300, 9⟩]), .panic "nokey",
        .ret (.val 200 7)] := by rfl

/-- The same history with an allocator that refuses everything: cut short by `handle_alloc_error`
    at the first call, and that is not a fault. -/
theorem hx_example_abort :
    Map.runX { ops := Sse2.ops } { hsExEnv with allocOk := fun _ => false } hxExOps
      { t := Raw.new 16 } = none ∧
    Map.runXFaults { ops := Sse2.ops } { hsExEnv with allocOk := fun _ => false } hxExOps
      { t := Raw.new 16 } = false := ⟨by rfl, by rfl⟩

#print axioms stepX_safe
#print axioms stepX_abort_exact
#print axioms runX_safe
#print axioms runX_safe_from
#print axioms hx_example
#print axioms hx_example_full_load
#print axioms hx_example_returns
#print axioms hx_example_abort

end Hb
