/-
`find_insert_slot` under the structural invariant: group loads are in range, the loaded group is
the cyclic window (or real bytes + EMPTY padding for tables smaller than a group), an EMPTY bucket
exists, `fix_insert_slot` and the probe loop terminate with a valid special bucket.
-/
import Hb.Proofs.Defs
namespace Hb

/-! ### basic facts -/

theorem validCtrl_tri {b : Nat} (h : ValidCtrl b) :
    (isFull b = true ∧ (b == DELETED) = false ∧ (b == EMPTY) = false) ∨
    (isFull b = false ∧ (b == DELETED) = true ∧ (b == EMPTY) = false) ∨
    (isFull b = false ∧ (b == DELETED) = false ∧ (b == EMPTY) = true) := by
  unfold ValidCtrl at h
  simp only [isFull, DELETED, EMPTY] at *
  rcases h with h | h | h
  · left; simp; omega
  · right; left; subst h; simp
  · right; right; subst h; simp

theorem isSpecial_EMPTY : isSpecial EMPTY = true := by decide

theorem Inv.W_cases (hc : CfgOk cfg) : cfg.W = 8 ∨ cfg.W = 16 := hc.spec.width

/-- Every control byte the model can read (in range or not) is a valid byte. -/
theorem Inv.validAt (h : Inv cfg t) (i : Nat) : ValidCtrl (t.ctrlAt i) := by
  by_cases hi : i < t.ctrl.size
  · exact h.valid i hi
  · have : t.ctrlAt i = 0 := by
      simp only [Raw.ctrlAt, Array.getD_eq_getD_getElem?]
      rw [Array.getElem?_eq_none (by omega)]; rfl
    rw [this]; left; omega

/-- Uniform geometry: `buckets = 2^k` (`k = 0` for the singleton). -/
theorem Inv.pow (h : Inv cfg t) : ∃ k, t.buckets = 2 ^ k := by
  rcases h.geom with hs | ha
  · exact ⟨0, by simp [Raw.buckets, hs.2.1]⟩
  · obtain ⟨k, _, hk⟩ := ha.2.1; exact ⟨k, hk⟩

theorem Inv.and_mask (h : Inv cfg t) (x : Nat) : x &&& t.mask = x % t.buckets := by
  obtain ⟨k, hk⟩ := h.pow
  have : t.mask = 2 ^ k - 1 := by simp only [Raw.buckets] at hk; omega
  rw [this, Nat.and_two_pow_sub_one_eq_mod, hk]

theorem Inv.size_ge (h : Inv cfg t) : t.buckets + cfg.W ≤ t.ctrl.size + (if t.alloc then 0 else 1) := by
  rcases h.geom with hs | ha
  · obtain ⟨h1, h2, h3, _⟩ := hs
    simp [h1, h3, Raw.buckets, h2]; omega
  · simp [ha.1, ha.2.2.1]

/-- Singleton: every byte of the (only) group is EMPTY. -/
theorem Inv.singleton_ctrl (h : Inv cfg t) (ha : t.alloc = false) (hj : j < cfg.W) :
    t.ctrlAt j = EMPTY ∧ t.buckets = 1 ∧ t.ctrl.size = cfg.W := by
  rcases h.geom with hs | hal
  · obtain ⟨_, h2, h3, _⟩ := hs
    refine ⟨?_, by simp [Raw.buckets, h2], by simp [h3]⟩
    simp only [Raw.ctrlAt, Array.getD_eq_getD_getElem?, h3, Array.getElem?_replicate, hj, if_true]
    rfl
  · rw [hal.1] at ha; cases ha

theorem probePos_lt (W bits mask hash s : Nat) : (probePos W bits mask hash s).pos < mask + 1 := by
  cases s with
  | zero => simp only [probePos, probeSeq]; exact Nat.lt_succ_of_le Nat.and_le_right
  | succ s => simp only [probePos, ProbeSeq.moveNext]; exact Nat.lt_succ_of_le Nat.and_le_right

/-! ### 1. group loads -/

theorem loadGroup_ok (hc : CfgOk cfg) (h : Inv cfg t) (hp : pos < t.buckets) :
    ∃ g, loadGroup cfg.W t pos = .ok g ∧ ValidGroup cfg.W g ∧
      ∀ j, j < cfg.W → g.getD j 0 = t.ctrlAt (pos + j) := by
  have hsz : pos + cfg.W ≤ t.ctrl.size := by
    have := Inv.size_ge h
    cases hal : t.alloc
    · have := (h.singleton_ctrl hal (j := 0) (by rcases Inv.W_cases hc with h | h <;> omega)).2
      omega
    · simp [hal] at this; omega
  refine ⟨(List.range cfg.W).map fun j => t.ctrl.getD (pos + j) 0, ?_, ⟨by simp, ?_⟩, ?_⟩
  · simp only [loadGroup, hsz, if_true]
  · intro b hb
    simp only [List.mem_map, List.mem_range] at hb
    obtain ⟨j, _, rfl⟩ := hb
    exact h.validAt (pos + j)
  · intro j hj
    simp [List.getD_eq_getElem?_getD, hj, Raw.ctrlAt]

/-! ### 2. what a loaded group shows -/

theorem Inv.alloc_geom (hc : CfgOk cfg) (h : Inv cfg t) (ha : t.alloc = true) :
    (cfg.W = 8 ∨ cfg.W = 16) ∧ ((cfg.W ≤ t.buckets ∧ cfg.W ∣ t.buckets) ∨ t.buckets = 4 ∨ (t.buckets = 8 ∧ cfg.W = 16)) ∧
      t.ctrl.size = t.buckets + cfg.W := by
  rcases h.geom with hs | hal
  · rw [hs.1] at ha; cases ha
  · obtain ⟨_, ⟨k, hk2, hk⟩, hsz, _⟩ := hal
    refine ⟨Inv.W_cases hc, ?_, hsz⟩
    rw [hk]
    have hW := Inv.W_cases hc
    by_cases h4 : 4 ≤ k
    · left
      obtain ⟨d, rfl⟩ : ∃ d, k = d + 4 := ⟨k - 4, by omega⟩
      have : 2 ^ (d + 4) = 16 * 2 ^ d := by rw [Nat.pow_add]; omega
      rw [this]
      have := Nat.two_pow_pos d
      rcases hW with hW | hW <;> rw [hW]
      · exact ⟨by omega, ⟨2 * 2 ^ d, by omega⟩⟩
      · exact ⟨by omega, ⟨2 ^ d, by omega⟩⟩
    · have : k = 2 ∨ k = 3 := by omega
      rcases this with rfl | rfl
      · right; left; rfl
      · rcases hW with hW | hW
        · left; rw [hW]; exact ⟨by decide, ⟨1, by decide⟩⟩
        · right; right; exact ⟨rfl, hW⟩

theorem load_view (hc : CfgOk cfg) (h : Inv cfg t) (ha : t.alloc = true) (hp : pos < t.buckets)
    (hj : j < cfg.W) :
    (cfg.W ≤ t.buckets → t.ctrlAt (pos + j) = t.ctrlAt ((pos + j) &&& t.mask)) ∧
    (t.buckets < cfg.W →
      (pos + j < t.buckets → (pos + j) &&& t.mask = pos + j) ∧
      (t.buckets ≤ pos + j → pos + j < cfg.W → t.ctrlAt (pos + j) = EMPTY) ∧
      (cfg.W ≤ pos + j → t.ctrlAt (pos + j) = t.ctrlAt (pos + j - cfg.W) ∧
        (pos + j) &&& t.mask = pos + j - cfg.W)) := by
  obtain ⟨hW, hg, _⟩ := Inv.alloc_geom hc h ha
  have hm := h.mirror ha
  simp only [h.and_mask]
  refine ⟨fun hle => ?_, fun hlt => ⟨fun h1 => Nat.mod_eq_of_lt h1, fun h1 h2 => (hm.2 hlt).1 _ h1 h2, fun h1 => ?_⟩⟩
  · by_cases hlt : pos + j < t.buckets
    · rw [Nat.mod_eq_of_lt hlt]
    · have e : pos + j = t.buckets + (pos + j - t.buckets) := by omega
      have hm' : (pos + j) % t.buckets = pos + j - t.buckets := by
        rw [Nat.mod_eq_sub_mod (by omega), Nat.mod_eq_of_lt (by omega)]
      rw [hm', e, (hm.1 hle) _ (by omega)]; congr 1; omega
  · have hsub : pos + j - cfg.W < t.buckets := by omega
    have e : pos + j = cfg.W + (pos + j - cfg.W) := by omega
    refine ⟨?_, ?_⟩
    · conv => lhs; rw [e]
      exact (hm.2 hlt).2 _ hsub
    · generalize t.buckets = n at *
      generalize cfg.W = W at *
      rcases hg with hg | hg | ⟨hg, hW'⟩
      · omega
      · subst hg; rcases hW with hW | hW <;> subst hW <;> omega
      · subst hg; subst hW'; omega

/-- Uniform view (singleton included): a loaded byte is the byte of the bucket the code decodes
    with `& mask`, or EMPTY. -/
theorem load_view' (hc : CfgOk cfg) (h : Inv cfg t) (hp : pos < t.buckets) (hj : j < cfg.W) :
    t.ctrlAt (pos + j) = t.ctrlAt ((pos + j) &&& t.mask) ∨ t.ctrlAt (pos + j) = EMPTY := by
  cases ha : t.alloc
  · have h1 := h.singleton_ctrl ha hj
    have : pos = 0 := by omega
    subst this; right; simpa using h1.1
  · have hv := load_view hc h ha hp hj
    by_cases hle : cfg.W ≤ t.buckets
    · left; exact hv.1 hle
    · obtain ⟨h1, h2, h3⟩ := hv.2 (by omega)
      by_cases c1 : pos + j < t.buckets
      · left; rw [h1 c1]
      · by_cases c2 : pos + j < cfg.W
        · right; exact h2 (by omega) c2
        · left; obtain ⟨e1, e2⟩ := h3 (by omega); rw [e2, e1]

/-! ### 3./4. counting -/

theorem countP_partition3 (p q r : Nat → Bool) (l : List Nat)
    (hx : ∀ a ∈ l, (p a = true ∧ q a = false ∧ r a = false) ∨ (p a = false ∧ q a = true ∧ r a = false) ∨
      (p a = false ∧ q a = false ∧ r a = true)) :
    l.countP p + l.countP q + l.countP r = l.length := by
  induction l with
  | nil => rfl
  | cons a l ih =>
    have ih := ih (fun b hb => hx b (List.mem_cons_of_mem _ hb))
    have ha := hx a List.mem_cons_self
    simp only [List.countP_cons, List.length_cons]
    rcases ha with ⟨h1, h2, h3⟩ | ⟨h1, h2, h3⟩ | ⟨h1, h2, h3⟩ <;> simp [h1, h2, h3] <;> omega

theorem count_partition (h : Inv cfg t) :
    t.countCtrl isFull + t.countCtrl (· == DELETED) + t.countCtrl (· == EMPTY) = t.buckets := by
  have := countP_partition3 (fun i => isFull (t.ctrlAt i)) (fun i => t.ctrlAt i == DELETED)
    (fun i => t.ctrlAt i == EMPTY) (List.range t.buckets) (fun a _ => validCtrl_tri (h.validAt a))
  simpa [Raw.countCtrl] using this

theorem bucketMaskToCapacity_lt_buckets (m : Nat) : bucketMaskToCapacity m < m + 1 := by
  unfold bucketMaskToCapacity; split <;> omega

theorem has_empty (hc : CfgOk cfg) (h : Inv cfg t) : ∃ i, i < t.buckets ∧ t.ctrlAt i = EMPTY := by
  cases ha : t.alloc
  · have := h.singleton_ctrl ha (j := 0) (by rcases Inv.W_cases hc with h | h <;> omega)
    exact ⟨0, by omega, this.1⟩
  · have h1 := h.count ha
    have h2 := count_partition h
    have h3 := bucketMaskToCapacity_lt_buckets t.mask
    have : 0 < t.countCtrl (· == EMPTY) := by simp only [Raw.buckets] at h2; omega
    simp only [Raw.countCtrl, List.countP_pos_iff, List.mem_range] at this
    obtain ⟨i, hi, he⟩ := this
    exact ⟨i, hi, by simpa using he⟩

/-! ### 5. `fix_insert_slot` -/

theorem ctrlRd_ok {t : Raw} (hi : i < t.ctrl.size) : ctrlRd t i = .ok (t.ctrlAt i) := by
  simp [ctrlRd, Raw.ctrlAt, hi]

theorem Inv.buckets_le_size (hc : CfgOk cfg) (h : Inv cfg t) : t.buckets ≤ t.ctrl.size := by
  have := Inv.size_ge h
  have := Inv.W_cases hc
  split at * <;> omega

theorem Inv.and_mask_lt (h : Inv cfg t) (x : Nat) : x &&& t.mask < t.buckets := by
  rw [h.and_mask]; exact Nat.mod_lt _ (by simp [Raw.buckets])

/-- The lowest special lane of a valid group, as a search over lane numbers. -/
theorem matchSpecial_head (hc : CfgOk cfg) (hv : ValidGroup cfg.W g) :
    (cfg.ops.matchSpecial g).head? = (List.range cfg.W).find? fun i => isSpecial (g.getD i 0) := by
  rw [hc.spec.matchSpecial g hv]
  simp only [Spec.matchSpecial, Spec.lanesWhere, List.head?_filter, hv.1]

theorem fixInsertSlot_ok (hc : CfgOk cfg) (h : Inv cfg t) (hp : pos < t.buckets) (hj : j < cfg.W)
    (hs : isSpecial (t.ctrlAt (pos + j)) = true) :
    ∃ idx, fixInsertSlot cfg t ((pos + j) &&& t.mask) = .ok idx ∧ idx < t.buckets ∧
      isSpecial (t.ctrlAt idx) = true ∧ (cfg.W ≤ t.buckets → idx = (pos + j) &&& t.mask) := by
  have hlt := h.and_mask_lt (pos + j)
  have hrd := ctrlRd_ok (t := t) (i := (pos + j) &&& t.mask) (by have := h.buckets_le_size hc; omega)
  by_cases hf : isFull (t.ctrlAt ((pos + j) &&& t.mask)) = true
  · -- only possible for a table smaller than a group
    have hsmall : t.buckets < cfg.W := by
      refine Nat.lt_of_not_le fun hle => ?_
      cases ha : t.alloc
      · have := (h.singleton_ctrl ha hj).2.1
        have := Inv.W_cases hc
        omega
      · have := (load_view hc h ha hp hj).1 hle
        rw [this] at hs; simp [isSpecial, hf] at hs
    obtain ⟨i0, hi0, he0⟩ := has_empty hc h
    obtain ⟨g, hg, hv, hget⟩ := loadGroup_ok hc h (pos := 0) (by simp [Raw.buckets])
    have hhead := matchSpecial_head hc hv
    cases hfind : (List.range cfg.W).find? fun i => isSpecial (g.getD i 0) with
    | none =>
      rw [List.find?_range_eq_none] at hfind
      have := hfind i0 (by omega)
      rw [hget i0 (by omega), Nat.zero_add, he0] at this
      simp [isSpecial_EMPTY] at this
    | some b =>
      have hfind' := hfind
      rw [List.find?_range_eq_some] at hfind
      obtain ⟨hb, hbW, hmin⟩ := hfind
      simp only [List.mem_range] at hbW
      have hbi : b ≤ i0 := by
        refine Nat.le_of_not_lt fun hlt' => ?_
        have := hmin i0 hlt'
        rw [hget i0 (by omega), Nat.zero_add, he0] at this
        simp [isSpecial_EMPTY] at this
      rw [hget b hbW, Nat.zero_add] at hb
      refine ⟨b, ?_, by omega, hb, fun hle => by omega⟩
      rw [hfind'] at hhead
      simp only [fixInsertSlot, hrd, hf, if_true, hg, hhead]
  · refine ⟨(pos + j) &&& t.mask, ?_, hlt, by simp [isSpecial, hf], fun _ => rfl⟩
    simp only [fixInsertSlot, hrd, hf]
    rfl

/-! ### 6./7. the probe loop -/

theorem mem_window_iff : i ∈ window cfg t pos ↔ ∃ j, j < cfg.W ∧ (pos + j) &&& t.mask = i := by
  simp [window]

/-- For a table no larger than a group, every window covers every bucket. -/
theorem window_small (h : Inv cfg t) (hn : t.buckets ≤ cfg.W) (hp : pos < t.buckets)
    (hi : i < t.buckets) : i ∈ window cfg t pos := by
  rw [mem_window_iff]
  by_cases hle : pos ≤ i
  · refine ⟨i - pos, by omega, ?_⟩
    rw [h.and_mask, show pos + (i - pos) = i by omega, Nat.mod_eq_of_lt hi]
  · refine ⟨i + t.buckets - pos, by omega, ?_⟩
    rw [h.and_mask, show pos + (i + t.buckets - pos) = i + t.buckets by omega, Nat.add_mod_right,
      Nat.mod_eq_of_lt hi]

/-- One iteration that finds a special lane `b` in the loaded group: the loop returns a special
    bucket of the current window. -/
theorem findInsertSlotLoop_stop (hc : CfgOk cfg) (h : Inv cfg t) {p : ProbeSeq}
    (hp : p.pos < t.buckets) (hg : loadGroup cfg.W t p.pos = .ok g) (hv : ValidGroup cfg.W g)
    (hget : ∀ j, j < cfg.W → g.getD j 0 = t.ctrlAt (p.pos + j))
    (hfind : ((List.range cfg.W).find? fun i => isSpecial (g.getD i 0)) = some b) (fuel : Nat) :
    ∃ idx, findInsertSlotLoop cfg t (fuel + 1) p = .ok idx ∧ idx ∈ window cfg t p.pos ∧
      idx < t.buckets ∧ isSpecial (t.ctrlAt idx) = true := by
  have hhead := matchSpecial_head hc hv
  rw [hfind] at hhead
  rw [List.find?_range_eq_some] at hfind
  obtain ⟨hb, hbW, _⟩ := hfind
  simp only [List.mem_range] at hbW
  rw [hget b hbW] at hb
  obtain ⟨idx, hfix, hlt, hsp, hbig⟩ := fixInsertSlot_ok hc h hp hbW hb
  refine ⟨idx, ?_, ?_, hlt, hsp⟩
  · simp only [findInsertSlotLoop, hg, findInsertSlotInGroup, hhead, hfix]
  · by_cases hle : cfg.W ≤ t.buckets
    · rw [mem_window_iff]; exact ⟨b, hbW, (hbig hle).symm⟩
    · exact window_small h (by omega) hp hlt

/-- Loop invariant of `find_insert_slot`: started at step `s` with more than `d` units of fuel,
    where step `s + d` is known to load a special byte, the loop stops at the first step `s' ≥ s`
    whose group has a special byte. -/
theorem findInsertSlotLoop_first (hc : CfgOk cfg) (h : Inv cfg t) (hash : Nat) :
    ∀ d s fuel, d < fuel →
      (∃ j, j < cfg.W ∧
        isSpecial (t.ctrlAt ((probePos cfg.W cfg.bits t.mask hash (s + d)).pos + j)) = true) →
      ∃ idx s', findInsertSlotLoop cfg t fuel (probePos cfg.W cfg.bits t.mask hash s) = .ok idx ∧
        s ≤ s' ∧ s' ≤ s + d ∧
        (∀ s'', s ≤ s'' → s'' < s' → ∀ j, j < cfg.W →
          isFull (t.ctrlAt ((probePos cfg.W cfg.bits t.mask hash s'').pos + j)) = true) ∧
        idx ∈ window cfg t (probePos cfg.W cfg.bits t.mask hash s').pos ∧
        idx < t.buckets ∧ isSpecial (t.ctrlAt idx) = true := by
  intro d
  induction d with
  | zero =>
    intro s fuel hfuel hex
    obtain ⟨fuel, rfl⟩ : ∃ f, fuel = f + 1 := ⟨fuel - 1, by omega⟩
    have hp : (probePos cfg.W cfg.bits t.mask hash s).pos < t.buckets := probePos_lt ..
    obtain ⟨g, hg, hv, hget⟩ := loadGroup_ok hc h hp
    have hhead := matchSpecial_head hc hv
    cases hfind : (List.range cfg.W).find? fun i => isSpecial (g.getD i 0) with
    | none =>
      exfalso
      rw [List.find?_range_eq_none] at hfind
      obtain ⟨j, hj, hsj⟩ := hex
      have := hfind j hj
      rw [hget j hj] at this
      rw [Nat.add_zero] at hsj
      simp [hsj] at this
    | some b =>
      obtain ⟨idx, hrun, hw, hlt, hsp⟩ := findInsertSlotLoop_stop hc h hp hg hv hget hfind fuel
      exact ⟨idx, s, hrun, Nat.le_refl _, by omega, fun s'' h1 h2 => by omega, hw, hlt, hsp⟩
  | succ d ih =>
    intro s fuel hfuel hex
    obtain ⟨fuel, rfl⟩ : ∃ f, fuel = f + 1 := ⟨fuel - 1, by omega⟩
    have hp : (probePos cfg.W cfg.bits t.mask hash s).pos < t.buckets := probePos_lt ..
    obtain ⟨g, hg, hv, hget⟩ := loadGroup_ok hc h hp
    have hhead := matchSpecial_head hc hv
    cases hfind : (List.range cfg.W).find? fun i => isSpecial (g.getD i 0) with
    | none =>
      rw [List.find?_range_eq_none] at hfind
      have hfull : ∀ j, j < cfg.W →
          isFull (t.ctrlAt ((probePos cfg.W cfg.bits t.mask hash s).pos + j)) = true := by
        intro j hj
        have := hfind j hj
        rw [hget j hj] at this
        simpa [isSpecial] using this
      have hex' : ∃ j, j < cfg.W ∧
          isSpecial (t.ctrlAt ((probePos cfg.W cfg.bits t.mask hash (s + 1 + d)).pos + j)) = true := by
        rw [show s + 1 + d = s + (d + 1) by omega]; exact hex
      obtain ⟨idx, s', hrun, h1, h2, h3, h4, h5, h6⟩ := ih (s + 1) fuel (by omega) hex'
      refine ⟨idx, s', ?_, by omega, by omega, ?_, h4, h5, h6⟩
      · rw [List.find?_range_eq_none.mpr hfind] at hhead
        simp only [findInsertSlotLoop, hg, findInsertSlotInGroup, hhead]
        exact hrun
      · intro s'' ha hb j hj
        by_cases hs : s'' = s
        · subst hs; exact hfull j hj
        · exact h3 s'' (by omega) hb j hj
    | some b =>
      obtain ⟨idx, hrun, hw, hlt, hsp⟩ := findInsertSlotLoop_stop hc h hp hg hv hget hfind fuel
      exact ⟨idx, s, hrun, Nat.le_refl _, by omega, fun s'' h1 h2 => by omega, hw, hlt, hsp⟩

/-- Some probe step within the first `max 1 (n / W)` loads a special (indeed EMPTY) byte. -/
theorem exists_special_step (hc : CfgOk cfg) (hpc : ProbeCovers cfg) (h : Inv cfg t) (hash : Nat) :
    ∃ s, s < t.buckets ∧ ∃ j, j < cfg.W ∧
      isSpecial (t.ctrlAt ((probePos cfg.W cfg.bits t.mask hash s).pos + j)) = true := by
  obtain ⟨i0, hi0, he0⟩ := has_empty hc h
  obtain ⟨s, hs, hmem⟩ := hpc t hash i0 h.pow hi0
  rw [mem_window_iff] at hmem
  obtain ⟨j, hj, hji⟩ := hmem
  have hn : 0 < t.buckets := by simp [Raw.buckets]
  have := Nat.div_le_self t.buckets cfg.W
  refine ⟨s, by omega, j, hj, ?_⟩
  have hp : (probePos cfg.W cfg.bits t.mask hash s).pos < t.buckets := probePos_lt ..
  rcases load_view' hc h hp hj with hv | hv
  · rw [hv, hji, he0]; exact isSpecial_EMPTY
  · rw [hv]; exact isSpecial_EMPTY

theorem findInsertSlot_first (hc : CfgOk cfg) (hp : ProbeCovers cfg) (h : Inv cfg t) (hash : Nat) :
    ∃ idx s, findInsertSlot cfg t hash = .ok idx ∧ s < t.buckets ∧
      (∀ s', s' < s → ∀ j, j < cfg.W →
        isFull (t.ctrlAt ((probePos cfg.W cfg.bits t.mask hash s').pos + j)) = true) ∧
      idx ∈ window cfg t (probePos cfg.W cfg.bits t.mask hash s).pos ∧ idx < t.buckets ∧
      isSpecial (t.ctrlAt idx) = true := by
  obtain ⟨s0, hs0, hex⟩ := exists_special_step hc hp h hash
  have hex' : ∃ j, j < cfg.W ∧
      isSpecial (t.ctrlAt ((probePos cfg.W cfg.bits t.mask hash (0 + s0)).pos + j)) = true := by
    rw [Nat.zero_add]; exact hex
  obtain ⟨idx, s, hrun, _, h2, h3, h4, h5, h6⟩ :=
    findInsertSlotLoop_first hc h hash s0 0 (probeFuel t)
      (by simp only [probeFuel, Raw.buckets] at *; omega) hex'
  exact ⟨idx, s, hrun, by omega, fun s' hs' => h3 s' (Nat.zero_le _) hs', h4, h5, h6⟩

theorem findInsertSlot_ok (hc : CfgOk cfg) (hp : ProbeCovers cfg) (h : Inv cfg t) (hash : Nat) :
    ∃ idx, findInsertSlot cfg t hash = .ok idx ∧ idx < t.buckets ∧
      isSpecial (t.ctrlAt idx) = true := by
  obtain ⟨idx, _, h1, _, _, _, h5, h6⟩ := findInsertSlot_first hc hp h hash
  exact ⟨idx, h1, h5, h6⟩

/-! ### 8. non-vacuity: concrete 4-bucket tables with the SSE2 scanner (`W = 16`) -/

/-- 4 buckets, bucket 3 EMPTY; hash 2 starts probing at bucket 2 and lane 1 hits bucket 3. -/
def exTableA : Raw :=
  { mask := 3
    ctrl := #[0x11, 0x12, 0x22, 255, 255, 255, 255, 255, 255, 255, 255, 255, 255, 255, 255, 255,
              0x11, 0x12, 0x22, 255]
    slots := #[some ⟨1, 1, 1, 1⟩, some ⟨2, 2, 2, 2⟩, some ⟨3, 3, 3, 3⟩, none]
    items := 3, gl := 0, alloc := true }

/-- 4 buckets, bucket 1 EMPTY; hash 2 starts at bucket 2, the first special lane is padding byte 4,
    which decodes to the full bucket 0, so `fix_insert_slot` rescans group 0 and returns 1. -/
def exTableB : Raw :=
  { mask := 3
    ctrl := #[0x11, 255, 0x22, 0x33, 255, 255, 255, 255, 255, 255, 255, 255, 255, 255, 255, 255,
              0x11, 255, 0x22, 0x33]
    slots := #[some ⟨1, 1, 1, 1⟩, none, some ⟨3, 3, 3, 3⟩, some ⟨4, 4, 4, 4⟩]
    items := 3, gl := 0, alloc := true }

example : invB { ops := Sse2.ops } exTableA = true ∧
    findInsertSlot { ops := Sse2.ops } exTableA 2 = .ok 3 := ⟨by decide, by rfl⟩

example : invB { ops := Sse2.ops } exTableB = true ∧
    findInsertSlot { ops := Sse2.ops } exTableB 2 = .ok 1 := ⟨by decide, by rfl⟩

#print axioms loadGroup_ok
#print axioms load_view
#print axioms count_partition
#print axioms has_empty
#print axioms fixInsertSlot_ok
#print axioms findInsertSlot_ok
#print axioms findInsertSlot_first

end Hb
