/-
The two control-byte scanner back-ends (`Sse2.ops`, `Generic.ops`) meet the byte-wise
specification `GroupSpec` (Hb/Proofs/Defs.lean).

Structure
* §1  general facts about `BitMask.tz/lz/lanes` (lowest-set-bit iteration = ascending set bits)
* §2  SSE2 back-end (lane-wise, no carries): general list lemmas
* §3  portable back-end: the word is 8 packed `BitVec 8` bytes; every word trick is characterised
      by `bv_decide`; the strided 64-bit masks are reduced to 8-bit masks by brute force
      (`decide +kernel` over the 256 possible lane sets)
* §4  the two `GroupSpec` structures and the `matchTag` false-positive theorem (C18)

Main results: `sse2_groupSpec`, `generic_groupSpec`, `generic_matchTag_false_positive`; per-field
stand-alone versions `Sse2.matchTag_spec`, `Sse2.matchSpecial_spec`, `Sse2.matchFull_spec`,
`Sse2.convert_spec`, `Sse2.lz_spec`, `Sse2.tz_spec`, `generic_matchEmpty_spec`,
`generic_matchSpecial_spec`, `generic_matchFull_spec`, `generic_lz_spec`, `generic_tz_spec`,
`generic_convert_spec`, `generic_tagSorted`, `generic_tagComplete`, `generic_tagSound`; and
`BitMask.lanes_eq` (iteration = ascending set bits / stride, for any width and stride).
`bv_decide` is used only for the portable word tricks (axioms `…_native.bv_decide.ax_*`).
-/
import Hb.Proofs.Defs
import Std.Tactic.BVDecide
namespace Hb

/-! ## §1 `BitMask`: lowest-set-bit iteration, `tz`, `lz` -/

namespace BitMask

/-- `x & (x - 1)` clears exactly the lowest set bit. -/
theorem testBit_removeLowestBit (k : Nat) : ∀ x : Nat, x.testBit k = true →
    (∀ j, j < k → x.testBit j = false) →
    ∀ j, (removeLowestBit x).testBit j = (x.testBit j && j != k) := by
  induction k with
  | zero =>
    intro x hk _ j
    simp only [removeLowestBit, Nat.testBit_and]
    have hodd : x % 2 = 1 := by simpa using hk
    cases j with
    | zero =>
      have : (x - 1) % 2 = 0 := by omega
      simp [Nat.testBit_zero, this]
    | succ j =>
      rw [Nat.testBit_succ, Nat.testBit_succ]
      have : (x - 1) / 2 = x / 2 := by omega
      rw [this]; simp
  | succ k ih =>
    intro x hk hlow j
    have h0 : x % 2 = 0 := by
      have := hlow 0 (Nat.succ_pos k)
      simp only [Nat.testBit_zero, decide_eq_false_iff_not] at this
      omega
    have hx : x ≠ 0 := by intro h; subst h; simp at hk
    cases j with
    | zero => simp [removeLowestBit, Nat.testBit_zero, h0]
    | succ j =>
      have e : (x - 1) / 2 = x / 2 - 1 := by omega
      have := ih (x / 2) (by rwa [Nat.testBit_succ] at hk)
        (fun j hj => by have := hlow (j + 1) (by omega); rwa [Nat.testBit_succ] at this) j
      simp only [removeLowestBit, Nat.testBit_and] at this ⊢
      rw [Nat.testBit_succ, Nat.testBit_succ, e, this]
      simp

theorem tz_spec {w x : Nat} (hx : x ≠ 0) (hw : x < 2 ^ w) :
    tz w x < w ∧ x.testBit (tz w x) = true ∧ ∀ j, j < tz w x → x.testBit j = false := by
  obtain ⟨i, hi⟩ := Nat.exists_testBit_of_ne_zero hx
  have hiw : i < w := by
    apply Nat.lt_of_not_le; intro hle
    have : x < 2 ^ i := Nat.lt_of_lt_of_le hw (Nat.pow_le_pow_right (by decide) hle)
    rw [Nat.testBit_lt_two_pow this] at hi; exact Bool.false_ne_true hi
  unfold tz
  cases h : (List.range w).find? (fun i => x.testBit i) with
  | none =>
    rw [List.find?_range_eq_none] at h
    have := h i hiw
    simp [hi] at this
  | some k =>
    rw [List.find?_range_eq_some] at h
    obtain ⟨h1, h2, h3⟩ := h
    refine ⟨List.mem_range.1 h2, h1, fun j hj => ?_⟩
    have := h3 j hj
    simpa using this

theorem filter_range_lowest (p : Nat → Bool) (k : Nat) : ∀ w, k < w → p k = true →
    (∀ j, j < k → p j = false) →
    (List.range w).filter p = k :: (List.range w).filter (fun j => p j && j != k) := by
  intro w
  induction w with
  | zero => intro h; omega
  | succ w ih =>
    intro hk hp hlow
    rw [List.range_succ, List.filter_append, List.filter_append]
    by_cases hkw : k < w
    · rw [ih hkw hp hlow]
      have : (w != k) = true := by simp; omega
      simp [List.filter_cons, this]
    · have : k = w := by omega
      subst this
      have e1 : (List.range k).filter p = [] := by
        rw [List.filter_eq_nil_iff]; intro a ha; simp [hlow a (List.mem_range.1 ha)]
      have e2 : (List.range k).filter (fun j => p j && j != k) = [] := by
        rw [List.filter_eq_nil_iff]; intro a ha; simp [hlow a (List.mem_range.1 ha)]
      rw [e1, e2]
      simp [hp]

theorem iter_eq (w stride : Nat) : ∀ fuel x, x < 2 ^ w →
    ((List.range w).filter x.testBit).length ≤ fuel →
    iter w stride fuel x = ((List.range w).filter x.testBit).map (· / stride) := by
  intro fuel
  induction fuel with
  | zero =>
    intro x _ hl
    have : (List.range w).filter x.testBit = [] := List.eq_nil_of_length_eq_zero (by omega)
    rw [this]; rfl
  | succ fuel ih =>
    intro x hw hl
    by_cases hx : x = 0
    · subst hx
      have : (List.range w).filter (Nat.testBit 0) = [] := by
        rw [List.filter_eq_nil_iff]; intro a _; simp
      rw [this]; simp [iter, lowestSetBit]
    · obtain ⟨h1, h2, h3⟩ := tz_spec hx hw
      have hf := filter_range_lowest x.testBit (tz w x) w h1 h2 h3
      have hfun : (fun j => x.testBit j && j != tz w x) = (removeLowestBit x).testBit := by
        funext j; exact (testBit_removeLowestBit _ x h2 h3 j).symm
      rw [hfun] at hf
      have hw' : removeLowestBit x < 2 ^ w := Nat.lt_of_le_of_lt Nat.and_le_left hw
      have hl' : ((List.range w).filter (removeLowestBit x).testBit).length ≤ fuel := by
        rw [hf] at hl; simpa using hl
      rw [hf]
      simp only [iter, lowestSetBit, hx, if_false, List.map_cons]
      rw [ih _ hw' hl']

/-- Iterating a `BitMask` yields the set bits in ascending order, divided by the stride. -/
theorem lanes_eq (w stride x : Nat) (hw : x < 2 ^ w) :
    lanes w stride x = ((List.range w).filter x.testBit).map (· / stride) := by
  apply iter_eq _ _ _ _ hw
  have := List.length_filter_le x.testBit (List.range w)
  simpa using this

theorem lanes_one (w x : Nat) (hw : x < 2 ^ w) :
    lanes w 1 x = (List.range w).filter x.testBit := by
  rw [lanes_eq w 1 x hw]; simp

/-- `trailing_zeros` against the first selected lane. -/
theorem tz_eq (w : Nat) (p : Nat → Bool) :
    ((List.range w).find? p).getD w =
      match ((List.range w).filter p).head? with
      | none => w
      | some i => i := by
  rw [List.head?_filter]
  cases (List.range w).find? p <;> rfl

theorem lz_step (w : Nat) : ∀ A B : Option Nat,
    (A.getD w = match B with | none => w | some i => w - 1 - i) →
    (∀ i, B = some i → i < w) →
    (A.map Nat.succ).getD (w + 1) = match B with | none => w + 1 | some i => w + 1 - 1 - i := by
  intro A B ih hmem
  cases A with
  | none =>
    cases B with
    | none => rfl
    | some b => have := hmem b rfl; simp at ih ⊢; omega
  | some a =>
    cases B with
    | none => simp at ih ⊢; omega
    | some b => have := hmem b rfl; simp at ih ⊢; omega

/-- `leading_zeros` against the last selected lane. -/
theorem lz_eq (p : Nat → Bool) : ∀ w,
    ((List.range w).find? (fun i => p (w - 1 - i))).getD w =
      match ((List.range w).filter p).getLast? with
      | none => w
      | some i => w - 1 - i := by
  intro w
  induction w with
  | zero => rfl
  | succ w ih =>
    conv => lhs; rw [List.range_succ_eq_map]
    conv => rhs; rw [List.range_succ, List.filter_append]
    by_cases hp : p w = true
    · have h1 : (0 :: List.map Nat.succ (List.range w)).find? (fun i => p (w + 1 - 1 - i)) =
          some 0 := by
        rw [List.find?_cons]
        have : p (w + 1 - 1 - 0) = true := by simpa using hp
        rw [this]
      have h2 : ((List.range w).filter p ++ [w].filter p).getLast? = some w := by
        have : [w].filter p = [w] := by simp [hp]
        rw [this, List.getLast?_concat]
      rw [h1, h2]; simp
    · have hp' : p w = false := by simpa using hp
      have hfun : ((fun i => p (w + 1 - 1 - i)) ∘ Nat.succ) = fun i => p (w - 1 - i) := by
        funext i; simp only [Function.comp]; congr 1; omega
      have h1 : (0 :: List.map Nat.succ (List.range w)).find? (fun i => p (w + 1 - 1 - i)) =
          ((List.range w).find? (fun i => p (w - 1 - i))).map Nat.succ := by
        rw [List.find?_cons]
        have : p (w + 1 - 1 - 0) = false := by simpa using hp'
        rw [this, List.find?_map, hfun]
      have h2 : (List.range w).filter p ++ [w].filter p = (List.range w).filter p := by
        simp [hp']
      rw [h1, h2]
      apply lz_step _ _ _ ih
      intro i hi
      have := List.mem_of_getLast? hi
      rw [List.mem_filter] at this
      exact List.mem_range.1 this.1

end BitMask

/-! ### helpers shared by both back-ends -/

theorem getD_map_lt {α β} (f : α → β) (l : List α) (i : Nat) (h : i < l.length) (d : β) (d' : α) :
    (l.map f).getD i d = f (l.getD i d') := by
  simp [List.getD_eq_getElem?_getD, List.getElem?_map, List.getElem?_eq_getElem h]

theorem lz_of_lanes (w m : Nat) (g : List Nat) (hg : g.length = w)
    (h : (List.range w).filter m.testBit = Spec.matchEmpty g) :
    BitMask.lz w m = Spec.emptyLeadingZeros g := by
  unfold BitMask.lz Spec.emptyLeadingZeros
  rw [BitMask.lz_eq m.testBit w, h, hg]
  rfl

theorem tz_of_lanes (w m : Nat) (g : List Nat) (hg : g.length = w)
    (h : (List.range w).filter m.testBit = Spec.matchEmpty g) :
    BitMask.tz w m = Spec.emptyTrailingZeros g := by
  unfold BitMask.tz Spec.emptyTrailingZeros
  rw [BitMask.tz_eq w m.testBit, h, hg]
  rfl

/-! ## §2 SSE2 back-end -/

namespace Sse2

theorem movemask_aux (v : List Nat) : ∀ n i,
    ((List.range n).foldl
      (fun acc i => if v.getD i 0 % 256 ≥ 128 then acc ||| (1 <<< i) else acc) 0).testBit i =
    (decide (i < n) && decide (v.getD i 0 % 256 ≥ 128)) := by
  intro n
  induction n with
  | zero => intro i; simp
  | succ n ih =>
    intro i
    rw [List.range_succ, List.foldl_append]
    simp only [List.foldl_cons, List.foldl_nil]
    split
    · rename_i hc
      rw [Nat.testBit_or, ih, Nat.one_shiftLeft, Nat.testBit_two_pow]
      rcases Nat.lt_trichotomy i n with h | h | h
      · have h1 : i < n + 1 := by omega
        have h2 : ¬ n = i := by omega
        simp [h, h1, h2]
      · subst h; simp [hc, -List.getD_eq_getElem?_getD]
      · have h1 : ¬ i < n + 1 := by omega
        have h2 : ¬ n = i := by omega
        have h3 : ¬ i < n := by omega
        simp [h1, h2, h3]
    · rename_i hc
      rw [ih]
      rcases Nat.lt_trichotomy i n with h | h | h
      · have h1 : i < n + 1 := by omega
        simp [h, h1]
      · subst h; simp [hc, -List.getD_eq_getElem?_getD]
      · have h1 : ¬ i < n + 1 := by omega
        have h3 : ¬ i < n := by omega
        simp [h1, h3]

theorem movemask_testBit (v : List Nat) (i : Nat) :
    (movemask v).testBit i = (decide (i < v.length) && decide (v.getD i 0 % 256 ≥ 128)) :=
  movemask_aux v v.length i

theorem movemask_lt (v : List Nat) : movemask v < 2 ^ v.length := by
  apply Nat.lt_pow_two_of_testBit
  intro i hi
  rw [movemask_testBit]
  have : ¬ i < v.length := by omega
  simp [this]

/-- The lanes of a movemask are the lanes whose top bit is set. -/
theorem lanes_movemask (q : Nat → Bool) (v g : List Nat) (hg : g.length = 16)
    (hv : v.length = 16) (h : ∀ i, i < 16 → decide (v.getD i 0 % 256 ≥ 128) = q (g.getD i 0)) :
    (List.range 16).filter (movemask v).testBit = Spec.lanesWhere q g ∧
    BitMask.lanes 16 1 (movemask v) = Spec.lanesWhere q g := by
  have hlt : movemask v < 2 ^ 16 := by have := movemask_lt v; rwa [hv] at this
  have e : (List.range 16).filter (movemask v).testBit = Spec.lanesWhere q g := by
    unfold Spec.lanesWhere
    rw [hg]
    apply List.filter_congr
    intro i hi
    have hi' := List.mem_range.1 hi
    rw [movemask_testBit, hv, ← h i hi']
    simp [hi']
  exact ⟨e, by rw [BitMask.lanes_one 16 _ hlt, e]⟩

theorem cmpeq_lane (g : List Nat) (t i : Nat) (hi : i < g.length) :
    decide ((cmpeq g t).getD i 0 % 256 ≥ 128) = (g.getD i 0 == t) := by
  unfold cmpeq
  rw [getD_map_lt _ _ _ hi 0 0]
  by_cases h : g.getD i 0 = t <;> simp [h, -List.getD_eq_getElem?_getD]

theorem matchTag_spec (g : List Nat) (t : Nat) (hg : g.length = 16) :
    (List.range 16).filter (matchTagMask g t).testBit = Spec.matchTag g t ∧
    ops.matchTag g t = Spec.matchTag g t :=
  lanes_movemask (· == t) (cmpeq g t) g hg (by simp [cmpeq, hg])
    (fun i hi => cmpeq_lane g t i (by omega))

theorem matchSpecial_spec (g : List Nat) (hg : g.length = 16) :
    ops.matchSpecial g = Spec.matchSpecial g :=
  (lanes_movemask isSpecial g g hg hg (fun i _ => by
    simp only [isSpecial, isFull]
    by_cases h : g.getD i 0 % 256 < 128 <;> simp [h, -List.getD_eq_getElem?_getD] <;> omega)).2

theorem matchFull_spec (g : List Nat) (hg : g.length = 16) :
    ops.matchFull g = Spec.matchFull g := by
  have hlt : movemask g < 2 ^ 16 := by have := movemask_lt g; rwa [hg] at this
  have hff : (0xffff : Nat) = 2 ^ 16 - 1 := by decide
  have hlt' : matchFullMask g < 2 ^ 16 := by
    unfold matchFullMask matchSpecialMask
    exact Nat.xor_lt_two_pow hlt (by decide)
  show BitMask.lanes 16 1 (matchFullMask g) = Spec.lanesWhere isFull g
  rw [BitMask.lanes_one 16 _ hlt']
  unfold Spec.lanesWhere
  rw [hg]
  apply List.filter_congr
  intro i hi
  have hi' := List.mem_range.1 hi
  unfold matchFullMask matchSpecialMask
  rw [Nat.testBit_xor, movemask_testBit, hg, hff, Nat.testBit_two_pow_sub_one]
  simp only [isFull]
  by_cases h : g.getD i 0 % 256 < 128 <;> simp [h, hi', -List.getD_eq_getElem?_getD] <;> omega

theorem convert_spec (g : List Nat) : ops.convert g = Spec.convert g := by
  show Sse2.convert g = Spec.convert g
  unfold Sse2.convert cmpgtZero Spec.convert
  rw [List.map_map]
  apply List.map_congr_left
  intro b _
  simp only [Function.comp, isSpecial, isFull, DELETED, EMPTY]
  by_cases h : b % 256 < 128
  · have : ¬ b % 256 ≥ 128 := by omega
    simp [h, this]
  · have : b % 256 ≥ 128 := by omega
    simp [h, this]

theorem lz_spec (g : List Nat) (hg : g.length = 16) :
    ops.emptyLeadingZeros g = Spec.emptyLeadingZeros g := by
  show BitMask.lz 16 (matchTagMask g EMPTY) / 1 = _
  rw [Nat.div_one]
  exact lz_of_lanes 16 _ g hg (matchTag_spec g EMPTY hg).1

theorem tz_spec (g : List Nat) (hg : g.length = 16) :
    ops.emptyTrailingZeros g = Spec.emptyTrailingZeros g := by
  show BitMask.tz 16 (matchTagMask g EMPTY) / 1 = _
  rw [Nat.div_one]
  exact tz_of_lanes 16 _ g hg (matchTag_spec g EMPTY hg).1

end Sse2


/-! ## §3 portable back-end -/

/-! ### packing 8 bytes into a word -/

/-- Little-endian packing of 8 bytes (lane 0 = low byte). -/
def pack (c0 c1 c2 c3 c4 c5 c6 c7 : BitVec 8) : BitVec 64 :=
  c0.zeroExtend 64 + (c1.zeroExtend 64 <<< 8) + (c2.zeroExtend 64 <<< 16) +
  (c3.zeroExtend 64 <<< 24) + (c4.zeroExtend 64 <<< 32) + (c5.zeroExtend 64 <<< 40) +
  (c6.zeroExtend 64 <<< 48) + (c7.zeroExtend 64 <<< 56)

theorem pack_step (a : BitVec 64) (c : BitVec 8) (k : Nat) (hk : k + 8 ≤ 64)
    (h : a.toNat < 2 ^ k) :
    (a + (c.zeroExtend 64 <<< k)).toNat = a.toNat + c.toNat * 2 ^ k ∧
    (a + (c.zeroExtend 64 <<< k)).toNat < 2 ^ (k + 8) := by
  have hc := c.isLt
  have h1 : c.toNat * 2 ^ k < 2 ^ (k + 8) := by
    rw [Nat.pow_add, Nat.mul_comm]; exact Nat.mul_lt_mul_of_pos_left hc (Nat.two_pow_pos k)
  have h2 : a.toNat + c.toNat * 2 ^ k < 2 ^ (k + 8) := by
    have : (c.toNat + 1) * 2 ^ k ≤ 2 ^ 8 * 2 ^ k := Nat.mul_le_mul_right _ hc
    rw [Nat.pow_add, Nat.mul_comm (2 ^ k)]
    rw [Nat.add_mul] at this; omega
  have h3 : 2 ^ (k + 8) ≤ 2 ^ 64 := Nat.pow_le_pow_right (by decide) hk
  simp only [BitVec.toNat_add, BitVec.toNat_shiftLeft, BitVec.toNat_setWidth,
    Nat.shiftLeft_eq, BitVec.zeroExtend]
  rw [Nat.mod_eq_of_lt (a := c.toNat) (by omega),
    Nat.mod_eq_of_lt (a := c.toNat * 2 ^ k) (by omega), Nat.mod_eq_of_lt (by omega)]
  exact ⟨rfl, h2⟩

theorem pack_toNat (c0 c1 c2 c3 c4 c5 c6 c7 : BitVec 8) :
    (pack c0 c1 c2 c3 c4 c5 c6 c7).toNat =
      c0.toNat + c1.toNat * 2 ^ 8 + c2.toNat * 2 ^ 16 + c3.toNat * 2 ^ 24 + c4.toNat * 2 ^ 32 +
      c5.toNat * 2 ^ 40 + c6.toNat * 2 ^ 48 + c7.toNat * 2 ^ 56 := by
  have e0 : (c0.zeroExtend 64).toNat = c0.toNat := by
    have := c0.isLt
    simp only [BitVec.zeroExtend, BitVec.toNat_setWidth]; omega
  have l0 : (c0.zeroExtend 64).toNat < 2 ^ 8 := by rw [e0]; exact c0.isLt
  obtain ⟨e1, l1⟩ := pack_step _ c1 8 (by decide) l0
  obtain ⟨e2, l2⟩ := pack_step _ c2 16 (by decide) l1
  obtain ⟨e3, l3⟩ := pack_step _ c3 24 (by decide) l2
  obtain ⟨e4, l4⟩ := pack_step _ c4 32 (by decide) l3
  obtain ⟨e5, l5⟩ := pack_step _ c5 40 (by decide) l4
  obtain ⟨e6, l6⟩ := pack_step _ c6 48 (by decide) l5
  obtain ⟨e7, _⟩ := pack_step _ c7 56 (by decide) l6
  unfold pack
  rw [e7, e6, e5, e4, e3, e2, e1, e0]

theorem range8 : List.range 8 = [0, 1, 2, 3, 4, 5, 6, 7] := by decide

theorem foldl8 (h : Nat → Nat) : (List.range 8).foldl (fun acc i => acc + h i) 0 =
    h 0 + h 1 + h 2 + h 3 + h 4 + h 5 + h 6 + h 7 := by
  rw [range8]; simp only [List.foldl_cons, List.foldl_nil, Nat.zero_add]

/-- `Generic.load` as a sum (the function under the fold is kept opaque while unfolding: the
    kernel is slow on `256 ^ i` literals otherwise). -/
theorem load_nat (b0 b1 b2 b3 b4 b5 b6 b7 : Nat) :
    Generic.load [b0, b1, b2, b3, b4, b5, b6, b7] = BitVec.ofNat 64
      (b0 % 256 + b1 % 256 * 2 ^ 8 + b2 % 256 * 2 ^ 16 + b3 % 256 * 2 ^ 24 + b4 % 256 * 2 ^ 32 +
       b5 % 256 * 2 ^ 40 + b6 % 256 * 2 ^ 48 + b7 % 256 * 2 ^ 56) := by
  have e : Generic.load [b0, b1, b2, b3, b4, b5, b6, b7] = BitVec.ofNat 64
      ((List.range 8).foldl (fun acc i => acc +
        (fun i => [b0, b1, b2, b3, b4, b5, b6, b7].getD i 0 % 256 * 256 ^ i) i) 0) := rfl
  rw [e, foldl8]
  have p0 : 256 ^ 0 = 1 := rfl
  have p1 : 256 ^ 1 = 2 ^ 8 := by decide
  have p2 : 256 ^ 2 = 2 ^ 16 := by decide
  have p3 : 256 ^ 3 = 2 ^ 24 := by decide
  have p4 : 256 ^ 4 = 2 ^ 32 := by decide
  have p5 : 256 ^ 5 = 2 ^ 40 := by decide
  have p6 : 256 ^ 6 = 2 ^ 48 := by decide
  have p7 : 256 ^ 7 = 2 ^ 56 := by decide
  simp only [List.getD_cons_zero, List.getD_cons_succ, p0, p1, p2, p3, p4, p5, p6, p7, Nat.mul_one]

/-- The byte of a control value. -/
abbrev byte (b : Nat) : BitVec 8 := BitVec.ofNat 8 b

theorem sum8_lt (a0 a1 a2 a3 a4 a5 a6 a7 : Nat) (h0 : a0 < 256) (h1 : a1 < 256) (h2 : a2 < 256)
    (h3 : a3 < 256) (h4 : a4 < 256) (h5 : a5 < 256) (h6 : a6 < 256) (h7 : a7 < 256) :
    (a0 + a1 * 256 + a2 * 65536 + a3 * 16777216 + a4 * 4294967296 + a5 * 1099511627776 +
      a6 * 281474976710656 + a7 * 72057594037927936) % 18446744073709551616 =
    a0 + a1 * 256 + a2 * 65536 + a3 * 16777216 + a4 * 4294967296 + a5 * 1099511627776 +
      a6 * 281474976710656 + a7 * 72057594037927936 := by
  omega

theorem load_eq (b0 b1 b2 b3 b4 b5 b6 b7 : Nat) :
    Generic.load [b0, b1, b2, b3, b4, b5, b6, b7] =
      pack (byte b0) (byte b1) (byte b2) (byte b3) (byte b4) (byte b5) (byte b6) (byte b7) := by
  rw [load_nat]
  apply BitVec.eq_of_toNat_eq
  rw [pack_toNat]
  simp only [BitVec.toNat_ofNat, Nat.reducePow]
  exact sum8_lt _ _ _ _ _ _ _ _ (Nat.mod_lt _ (by decide)) (Nat.mod_lt _ (by decide))
    (Nat.mod_lt _ (by decide)) (Nat.mod_lt _ (by decide)) (Nat.mod_lt _ (by decide))
    (Nat.mod_lt _ (by decide)) (Nat.mod_lt _ (by decide)) (Nat.mod_lt _ (by decide))

theorem rep_eq (t : Nat) :
    Generic.rep t = pack (byte t) (byte t) (byte t) (byte t) (byte t) (byte t) (byte t)
      (byte t) := by
  apply BitVec.eq_of_toNat_eq
  rw [pack_toNat]
  simp only [Generic.rep, BitVec.toNat_ofNat, Nat.reducePow]
  have := Nat.mod_lt t (show 256 > 0 by decide)
  generalize t % 256 = a at *
  omega

/-! ### the word tricks, characterised on packed bytes by `bv_decide` -/

/-- A lane of a `BitMask` word: `0x80` if selected. -/
def hi (e : Bool) : BitVec 8 := if e then 0x80#8 else 0#8

/-- The mask word selecting the lanes `e0 … e7`. -/
def maskOf (e0 e1 e2 e3 e4 e5 e6 e7 : Bool) : BitVec 64 :=
  pack (hi e0) (hi e1) (hi e2) (hi e3) (hi e4) (hi e5) (hi e6) (hi e7)

/-- `ValidCtrl` on a byte. -/
def VB (c : BitVec 8) : Prop := c < 128#8 ∨ c = 128#8 ∨ c = 255#8

theorem rep128 : Generic.rep 128 = 0x8080808080808080#64 := by decide
theorem rep1 : Generic.rep 1 = 0x0101010101010101#64 := by decide

theorem bv_matchEmpty (c0 c1 c2 c3 c4 c5 c6 c7 : BitVec 8)
    (h0 : VB c0) (h1 : VB c1) (h2 : VB c2) (h3 : VB c3) (h4 : VB c4) (h5 : VB c5) (h6 : VB c6)
    (h7 : VB c7) :
    Generic.matchEmptyWord (pack c0 c1 c2 c3 c4 c5 c6 c7) =
      maskOf (c0 == 255#8) (c1 == 255#8) (c2 == 255#8) (c3 == 255#8) (c4 == 255#8) (c5 == 255#8)
        (c6 == 255#8) (c7 == 255#8) := by
  unfold Generic.matchEmptyWord maskOf pack hi VB at *
  rw [rep128]
  bv_decide

theorem bv_matchSpecial (c0 c1 c2 c3 c4 c5 c6 c7 : BitVec 8) :
    Generic.matchSpecialWord (pack c0 c1 c2 c3 c4 c5 c6 c7) =
      maskOf c0.msb c1.msb c2.msb c3.msb c4.msb c5.msb c6.msb c7.msb := by
  unfold Generic.matchSpecialWord maskOf pack hi
  rw [rep128]
  bv_decide

theorem bv_matchFull (c0 c1 c2 c3 c4 c5 c6 c7 : BitVec 8) :
    Generic.matchFullWord (pack c0 c1 c2 c3 c4 c5 c6 c7) =
      maskOf (!c0.msb) (!c1.msb) (!c2.msb) (!c3.msb) (!c4.msb) (!c5.msb) (!c6.msb) (!c7.msb) := by
  unfold Generic.matchFullWord Generic.matchSpecialWord maskOf pack hi
  rw [rep128]
  bv_decide

theorem bv_convert (c0 c1 c2 c3 c4 c5 c6 c7 : BitVec 8) :
    Generic.convertWord (pack c0 c1 c2 c3 c4 c5 c6 c7) =
      pack (if c0.msb then 255#8 else 128#8) (if c1.msb then 255#8 else 128#8)
        (if c2.msb then 255#8 else 128#8) (if c3.msb then 255#8 else 128#8)
        (if c4.msb then 255#8 else 128#8) (if c5.msb then 255#8 else 128#8)
        (if c6.msb then 255#8 else 128#8) (if c7.msb then 255#8 else 128#8) := by
  unfold Generic.convertWord pack
  rw [rep128]
  bv_decide

/-- Any word inside `BITMASK_MASK` is the mask of its lane bits. -/
theorem mask_form (m : BitVec 64) (h : m &&& ~~~0x8080808080808080#64 = 0#64) :
    m = maskOf (m.getLsbD 7) (m.getLsbD 15) (m.getLsbD 23) (m.getLsbD 31) (m.getLsbD 39)
      (m.getLsbD 47) (m.getLsbD 55) (m.getLsbD 63) := by
  unfold maskOf pack hi
  bv_decide

/-- The tag-match word on packed bytes. -/
def tagWord (c0 c1 c2 c3 c4 c5 c6 c7 t : BitVec 8) : BitVec 64 :=
  let cmp := pack c0 c1 c2 c3 c4 c5 c6 c7 ^^^ pack t t t t t t t t
  (cmp - 0x0101010101010101#64) &&& ~~~cmp &&& 0x8080808080808080#64

theorem bv_tag_inMask (c0 c1 c2 c3 c4 c5 c6 c7 t : BitVec 8) :
    tagWord c0 c1 c2 c3 c4 c5 c6 c7 t &&& ~~~0x8080808080808080#64 = 0#64 := by
  unfold tagWord
  bv_decide

theorem bv_tag_complete (c0 c1 c2 c3 c4 c5 c6 c7 t : BitVec 8) :
    (c0 = t → (tagWord c0 c1 c2 c3 c4 c5 c6 c7 t).getLsbD 7 = true) ∧
    (c1 = t → (tagWord c0 c1 c2 c3 c4 c5 c6 c7 t).getLsbD 15 = true) ∧
    (c2 = t → (tagWord c0 c1 c2 c3 c4 c5 c6 c7 t).getLsbD 23 = true) ∧
    (c3 = t → (tagWord c0 c1 c2 c3 c4 c5 c6 c7 t).getLsbD 31 = true) ∧
    (c4 = t → (tagWord c0 c1 c2 c3 c4 c5 c6 c7 t).getLsbD 39 = true) ∧
    (c5 = t → (tagWord c0 c1 c2 c3 c4 c5 c6 c7 t).getLsbD 47 = true) ∧
    (c6 = t → (tagWord c0 c1 c2 c3 c4 c5 c6 c7 t).getLsbD 55 = true) ∧
    (c7 = t → (tagWord c0 c1 c2 c3 c4 c5 c6 c7 t).getLsbD 63 = true) := by
  unfold tagWord pack
  bv_decide

/-- Soundness up to the borrow caveat: a reported lane holds the tag, or holds `tag ^ 1` and a
    lower lane holds the tag. (No validity assumption is needed.) -/
theorem bv_tag_sound (c0 c1 c2 c3 c4 c5 c6 c7 t : BitVec 8) :
    ((tagWord c0 c1 c2 c3 c4 c5 c6 c7 t).getLsbD 7 = true → c0 = t) ∧
    ((tagWord c0 c1 c2 c3 c4 c5 c6 c7 t).getLsbD 15 = true →
      c1 = t ∨ (c1 = t ^^^ 1#8 ∧ c0 = t)) ∧
    ((tagWord c0 c1 c2 c3 c4 c5 c6 c7 t).getLsbD 23 = true →
      c2 = t ∨ (c2 = t ^^^ 1#8 ∧ (c0 = t ∨ c1 = t))) ∧
    ((tagWord c0 c1 c2 c3 c4 c5 c6 c7 t).getLsbD 31 = true →
      c3 = t ∨ (c3 = t ^^^ 1#8 ∧ (c0 = t ∨ c1 = t ∨ c2 = t))) ∧
    ((tagWord c0 c1 c2 c3 c4 c5 c6 c7 t).getLsbD 39 = true →
      c4 = t ∨ (c4 = t ^^^ 1#8 ∧ (c0 = t ∨ c1 = t ∨ c2 = t ∨ c3 = t))) ∧
    ((tagWord c0 c1 c2 c3 c4 c5 c6 c7 t).getLsbD 47 = true →
      c5 = t ∨ (c5 = t ^^^ 1#8 ∧ (c0 = t ∨ c1 = t ∨ c2 = t ∨ c3 = t ∨ c4 = t))) ∧
    ((tagWord c0 c1 c2 c3 c4 c5 c6 c7 t).getLsbD 55 = true →
      c6 = t ∨ (c6 = t ^^^ 1#8 ∧ (c0 = t ∨ c1 = t ∨ c2 = t ∨ c3 = t ∨ c4 = t ∨ c5 = t))) ∧
    ((tagWord c0 c1 c2 c3 c4 c5 c6 c7 t).getLsbD 63 = true →
      c7 = t ∨ (c7 = t ^^^ 1#8 ∧
        (c0 = t ∨ c1 = t ∨ c2 = t ∨ c3 = t ∨ c4 = t ∨ c5 = t ∨ c6 = t))) := by
  unfold tagWord pack
  bv_decide


/-! ### strided 64-bit masks reduced to 8-bit masks (brute force over the 256 lane sets) -/

/-- The word with bit `8*i+7` set for every set bit `i` of `k`. -/
def spread (k : Nat) : Nat :=
  (List.range 8).foldl (fun acc i => if k.testBit i then acc + 2 ^ (8 * i + 7) else acc) 0

theorem lanes_spread : ∀ k, k < 256 →
    BitMask.lanes 64 8 (spread k) = (List.range 8).filter (fun i => k.testBit i) := by
  decide +kernel

theorem lz_spread : ∀ k, k < 256 → BitMask.lz 64 (spread k) / 8 = BitMask.lz 8 k := by
  decide +kernel

theorem tz_spread : ∀ k, k < 256 → BitMask.tz 64 (spread k) / 8 = BitMask.tz 8 k := by
  decide +kernel

/-- The 8-bit number with bit `i` = `eᵢ`. -/
def natOf (e0 e1 e2 e3 e4 e5 e6 e7 : Bool) : Nat :=
  e0.toNat + 2 * e1.toNat + 4 * e2.toNat + 8 * e3.toNat + 16 * e4.toNat + 32 * e5.toNat +
    64 * e6.toNat + 128 * e7.toNat

theorem maskOf_toNat : ∀ e0 e1 e2 e3 e4 e5 e6 e7 : Bool,
    (maskOf e0 e1 e2 e3 e4 e5 e6 e7).toNat = spread (natOf e0 e1 e2 e3 e4 e5 e6 e7) := by
  decide +kernel

theorem natOf_lt : ∀ e0 e1 e2 e3 e4 e5 e6 e7 : Bool, natOf e0 e1 e2 e3 e4 e5 e6 e7 < 256 := by
  decide +kernel

theorem natOf_testBit : ∀ e0 e1 e2 e3 e4 e5 e6 e7 : Bool, ∀ i, i < 8 →
    (natOf e0 e1 e2 e3 e4 e5 e6 e7).testBit i = [e0, e1, e2, e3, e4, e5, e6, e7].getD i false := by
  decide +kernel

theorem filter_natOf (e0 e1 e2 e3 e4 e5 e6 e7 : Bool) :
    (List.range 8).filter (natOf e0 e1 e2 e3 e4 e5 e6 e7).testBit =
      (List.range 8).filter (fun i => [e0, e1, e2, e3, e4, e5, e6, e7].getD i false) := by
  apply List.filter_congr
  intro i hi
  exact natOf_testBit _ _ _ _ _ _ _ _ i (List.mem_range.1 hi)

theorem lanes_maskOf (e0 e1 e2 e3 e4 e5 e6 e7 : Bool) :
    BitMask.lanes 64 8 (maskOf e0 e1 e2 e3 e4 e5 e6 e7).toNat =
      (List.range 8).filter (fun i => [e0, e1, e2, e3, e4, e5, e6, e7].getD i false) := by
  rw [maskOf_toNat, lanes_spread _ (natOf_lt _ _ _ _ _ _ _ _), ← filter_natOf]

/-- A lane-wise mask yields the byte-wise lane list. -/
theorem generic_mask (q : Nat → Bool) (b0 b1 b2 b3 b4 b5 b6 b7 : Nat) :
    (List.range 8).filter (natOf (q b0) (q b1) (q b2) (q b3) (q b4) (q b5) (q b6) (q b7)).testBit =
      Spec.lanesWhere q [b0, b1, b2, b3, b4, b5, b6, b7] ∧
    BitMask.lanes 64 8 (maskOf (q b0) (q b1) (q b2) (q b3) (q b4) (q b5) (q b6) (q b7)).toNat =
      Spec.lanesWhere q [b0, b1, b2, b3, b4, b5, b6, b7] := by
  have e : (List.range 8).filter
      (fun i => [q b0, q b1, q b2, q b3, q b4, q b5, q b6, q b7].getD i false) =
      Spec.lanesWhere q [b0, b1, b2, b3, b4, b5, b6, b7] := by
    unfold Spec.lanesWhere
    apply List.filter_congr
    intro i hi
    exact getD_map_lt q [b0, b1, b2, b3, b4, b5, b6, b7] i (List.mem_range.1 hi) false 0
  exact ⟨by rw [filter_natOf, e], by rw [lanes_maskOf, e]⟩

/-! ### bytes of control values -/

theorem valid_lt {b : Nat} (h : ValidCtrl b) : b < 256 := by
  unfold ValidCtrl DELETED EMPTY at h; omega

theorem vb_of_valid {b : Nat} (h : ValidCtrl b) : VB (byte b) := by
  unfold ValidCtrl DELETED EMPTY at h
  unfold VB
  rcases h with h | h | h
  · left; rw [BitVec.lt_def]; simp only [byte, BitVec.toNat_ofNat]; omega
  · right; left; subst h; rfl
  · right; right; subst h; rfl

theorem byte_inj {a b : Nat} (ha : a < 256) (hb : b < 256) (h : byte a = byte b) : a = b := by
  have := congrArg BitVec.toNat h
  simp only [byte, BitVec.toNat_ofNat] at this
  omega

theorem byte_beq_empty {b : Nat} (hb : b < 256) : (byte b == 255#8) = (b == EMPTY) := by
  by_cases h : b = 255
  · subst h; rfl
  · have h1 : (b == EMPTY) = false := by simp [EMPTY, h]
    have h2 : byte b ≠ 255#8 := fun e => h (byte_inj hb (by decide) e)
    rw [h1]; simpa using h2

theorem byte_msb {b : Nat} (hb : b < 256) : (byte b).msb = isSpecial b := by
  rw [BitVec.msb_eq_decide]
  simp only [byte, BitVec.toNat_ofNat, isSpecial, isFull]
  by_cases h : b < 128
  · have h1 : b % 256 < 128 := by omega
    have h2 : ¬ 2 ^ (8 - 1) ≤ b % 2 ^ 8 := by omega
    simp [h1, h2]
  · have h1 : ¬ b % 256 < 128 := by omega
    have h2 : 2 ^ (8 - 1) ≤ b % 2 ^ 8 := by omega
    simp [h1, h2]

theorem byte_not_msb {b : Nat} (hb : b < 256) : (!(byte b).msb) = isFull b := by
  rw [byte_msb hb]; simp [isSpecial]

theorem list8 (g : List Nat) (h : g.length = 8) :
    ∃ b0 b1 b2 b3 b4 b5 b6 b7, g = [b0, b1, b2, b3, b4, b5, b6, b7] := by
  match g, h with
  | [b0, b1, b2, b3, b4, b5, b6, b7], _ => exact ⟨b0, b1, b2, b3, b4, b5, b6, b7, rfl⟩

/-! ### the portable scanner against the specification -/

namespace Generic

theorem matchEmptyWord_load (b0 b1 b2 b3 b4 b5 b6 b7 : Nat)
    (h : ∀ b ∈ [b0, b1, b2, b3, b4, b5, b6, b7], ValidCtrl b) :
    matchEmptyWord (load [b0, b1, b2, b3, b4, b5, b6, b7]) =
      maskOf (b0 == EMPTY) (b1 == EMPTY) (b2 == EMPTY) (b3 == EMPTY) (b4 == EMPTY) (b5 == EMPTY)
        (b6 == EMPTY) (b7 == EMPTY) := by
  have h0 := h b0 (by simp); have h1 := h b1 (by simp); have h2 := h b2 (by simp)
  have h3 := h b3 (by simp); have h4 := h b4 (by simp); have h5 := h b5 (by simp)
  have h6 := h b6 (by simp); have h7 := h b7 (by simp)
  rw [load_eq, bv_matchEmpty _ _ _ _ _ _ _ _ (vb_of_valid h0) (vb_of_valid h1) (vb_of_valid h2)
    (vb_of_valid h3) (vb_of_valid h4) (vb_of_valid h5) (vb_of_valid h6) (vb_of_valid h7),
    byte_beq_empty (valid_lt h0), byte_beq_empty (valid_lt h1), byte_beq_empty (valid_lt h2),
    byte_beq_empty (valid_lt h3), byte_beq_empty (valid_lt h4), byte_beq_empty (valid_lt h5),
    byte_beq_empty (valid_lt h6), byte_beq_empty (valid_lt h7)]

end Generic

theorem generic_matchEmpty_spec (g : List Nat) (h : ValidGroup 8 g) :
    Generic.ops.matchEmpty g = Spec.matchEmpty g := by
  obtain ⟨b0, b1, b2, b3, b4, b5, b6, b7, rfl⟩ := list8 g h.1
  show BitMask.lanes 64 8 (Generic.matchEmptyWord (Generic.load _)).toNat = _
  rw [Generic.matchEmptyWord_load _ _ _ _ _ _ _ _ h.2]
  exact (generic_mask (· == EMPTY) b0 b1 b2 b3 b4 b5 b6 b7).2

theorem generic_lz_spec (g : List Nat) (h : ValidGroup 8 g) :
    Generic.ops.emptyLeadingZeros g = Spec.emptyLeadingZeros g := by
  obtain ⟨b0, b1, b2, b3, b4, b5, b6, b7, rfl⟩ := list8 g h.1
  show BitMask.lz 64 (Generic.matchEmptyWord (Generic.load _)).toNat / 8 = _
  rw [Generic.matchEmptyWord_load _ _ _ _ _ _ _ _ h.2, maskOf_toNat,
    lz_spread _ (natOf_lt _ _ _ _ _ _ _ _)]
  exact lz_of_lanes 8 _ _ rfl (generic_mask (· == EMPTY) b0 b1 b2 b3 b4 b5 b6 b7).1

theorem generic_tz_spec (g : List Nat) (h : ValidGroup 8 g) :
    Generic.ops.emptyTrailingZeros g = Spec.emptyTrailingZeros g := by
  obtain ⟨b0, b1, b2, b3, b4, b5, b6, b7, rfl⟩ := list8 g h.1
  show BitMask.tz 64 (Generic.matchEmptyWord (Generic.load _)).toNat / 8 = _
  rw [Generic.matchEmptyWord_load _ _ _ _ _ _ _ _ h.2, maskOf_toNat,
    tz_spread _ (natOf_lt _ _ _ _ _ _ _ _)]
  exact tz_of_lanes 8 _ _ rfl (generic_mask (· == EMPTY) b0 b1 b2 b3 b4 b5 b6 b7).1

theorem generic_matchSpecial_spec (g : List Nat) (h : ValidGroup 8 g) :
    Generic.ops.matchSpecial g = Spec.matchSpecial g := by
  obtain ⟨b0, b1, b2, b3, b4, b5, b6, b7, rfl⟩ := list8 g h.1
  have h0 := valid_lt (h.2 b0 (by simp)); have h1 := valid_lt (h.2 b1 (by simp))
  have h2 := valid_lt (h.2 b2 (by simp)); have h3 := valid_lt (h.2 b3 (by simp))
  have h4 := valid_lt (h.2 b4 (by simp)); have h5 := valid_lt (h.2 b5 (by simp))
  have h6 := valid_lt (h.2 b6 (by simp)); have h7 := valid_lt (h.2 b7 (by simp))
  show BitMask.lanes 64 8 (Generic.matchSpecialWord (Generic.load _)).toNat = _
  rw [load_eq, bv_matchSpecial, byte_msb h0, byte_msb h1, byte_msb h2, byte_msb h3, byte_msb h4,
    byte_msb h5, byte_msb h6, byte_msb h7]
  exact (generic_mask isSpecial b0 b1 b2 b3 b4 b5 b6 b7).2

theorem generic_matchFull_spec (g : List Nat) (h : ValidGroup 8 g) :
    Generic.ops.matchFull g = Spec.matchFull g := by
  obtain ⟨b0, b1, b2, b3, b4, b5, b6, b7, rfl⟩ := list8 g h.1
  have h0 := valid_lt (h.2 b0 (by simp)); have h1 := valid_lt (h.2 b1 (by simp))
  have h2 := valid_lt (h.2 b2 (by simp)); have h3 := valid_lt (h.2 b3 (by simp))
  have h4 := valid_lt (h.2 b4 (by simp)); have h5 := valid_lt (h.2 b5 (by simp))
  have h6 := valid_lt (h.2 b6 (by simp)); have h7 := valid_lt (h.2 b7 (by simp))
  show BitMask.lanes 64 8 (Generic.matchFullWord (Generic.load _)).toNat = _
  rw [load_eq, bv_matchFull, byte_not_msb h0, byte_not_msb h1, byte_not_msb h2, byte_not_msb h3,
    byte_not_msb h4, byte_not_msb h5, byte_not_msb h6, byte_not_msb h7]
  exact (generic_mask isFull b0 b1 b2 b3 b4 b5 b6 b7).2

/-! ### convert -/

theorem map8 {α} (h : Nat → α) : (List.range 8).map h =
    [h 0, h 1, h 2, h 3, h 4, h 5, h 6, h 7] := by
  rw [range8]; rfl

theorem bytes_of_sum (a0 a1 a2 a3 a4 a5 a6 a7 : Nat) (h0 : a0 < 256) (h1 : a1 < 256)
    (h2 : a2 < 256) (h3 : a3 < 256) (h4 : a4 < 256) (h5 : a5 < 256) (h6 : a6 < 256)
    (h7 : a7 < 256) (x : Nat)
    (hx : x = a0 + a1 * 256 + a2 * 65536 + a3 * 16777216 + a4 * 4294967296 + a5 * 1099511627776 +
      a6 * 281474976710656 + a7 * 72057594037927936) :
    x / 1 % 256 = a0 ∧ x / 256 % 256 = a1 ∧ x / 65536 % 256 = a2 ∧ x / 16777216 % 256 = a3 ∧
    x / 4294967296 % 256 = a4 ∧ x / 1099511627776 % 256 = a5 ∧
    x / 281474976710656 % 256 = a6 ∧ x / 72057594037927936 % 256 = a7 := by
  subst hx
  refine ⟨?_, ?_, ?_, ?_, ?_, ?_, ?_, ?_⟩ <;> omega

theorem store_pack (d0 d1 d2 d3 d4 d5 d6 d7 : BitVec 8) :
    Generic.store (pack d0 d1 d2 d3 d4 d5 d6 d7) =
      [d0.toNat, d1.toNat, d2.toNat, d3.toNat, d4.toNat, d5.toNat, d6.toNat, d7.toNat] := by
  have e : Generic.store (pack d0 d1 d2 d3 d4 d5 d6 d7) =
      (List.range 8).map (fun i => (pack d0 d1 d2 d3 d4 d5 d6 d7).toNat / 256 ^ i % 256) := rfl
  rw [e, map8]
  have p0 : 256 ^ 0 = 1 := rfl
  have p1 : 256 ^ 1 = 256 := by decide
  have p2 : 256 ^ 2 = 65536 := by decide
  have p3 : 256 ^ 3 = 16777216 := by decide
  have p4 : 256 ^ 4 = 4294967296 := by decide
  have p5 : 256 ^ 5 = 1099511627776 := by decide
  have p6 : 256 ^ 6 = 281474976710656 := by decide
  have p7 : 256 ^ 7 = 72057594037927936 := by decide
  have hs := pack_toNat d0 d1 d2 d3 d4 d5 d6 d7
  simp only [Nat.reducePow] at hs
  obtain ⟨e0, e1, e2, e3, e4, e5, e6, e7⟩ := bytes_of_sum _ _ _ _ _ _ _ _ d0.isLt d1.isLt d2.isLt
    d3.isLt d4.isLt d5.isLt d6.isLt d7.isLt _ hs
  simp only [p0, p1, p2, p3, p4, p5, p6, p7]
  rw [e0, e1, e2, e3, e4, e5, e6, e7]

theorem conv_byte {b : Nat} (hb : b < 256) :
    (if (byte b).msb then 255#8 else 128#8).toNat = if isSpecial b then EMPTY else DELETED := by
  rw [byte_msb hb]
  cases isSpecial b <;> rfl

theorem generic_convert_spec (g : List Nat) (h : ValidGroup 8 g) :
    Generic.ops.convert g = Spec.convert g := by
  obtain ⟨b0, b1, b2, b3, b4, b5, b6, b7, rfl⟩ := list8 g h.1
  have h0 := valid_lt (h.2 b0 (by simp)); have h1 := valid_lt (h.2 b1 (by simp))
  have h2 := valid_lt (h.2 b2 (by simp)); have h3 := valid_lt (h.2 b3 (by simp))
  have h4 := valid_lt (h.2 b4 (by simp)); have h5 := valid_lt (h.2 b5 (by simp))
  have h6 := valid_lt (h.2 b6 (by simp)); have h7 := valid_lt (h.2 b7 (by simp))
  show Generic.store (Generic.convertWord (Generic.load _)) = _
  rw [load_eq, bv_convert, store_pack, conv_byte h0, conv_byte h1, conv_byte h2, conv_byte h3,
    conv_byte h4, conv_byte h5, conv_byte h6, conv_byte h7]
  rfl

/-! ### matchTag -/

theorem matchTagWord_pack (c0 c1 c2 c3 c4 c5 c6 c7 : BitVec 8) (t : Nat) :
    Generic.matchTagWord (pack c0 c1 c2 c3 c4 c5 c6 c7) t =
      tagWord c0 c1 c2 c3 c4 c5 c6 c7 (byte t) := by
  simp only [Generic.matchTagWord, tagWord, rep_eq t, rep1, rep128]

/-- The lane bits of the tag-match word. -/
def tagBits (c0 c1 c2 c3 c4 c5 c6 c7 t : BitVec 8) : List Bool :=
  [(tagWord c0 c1 c2 c3 c4 c5 c6 c7 t).getLsbD 7, (tagWord c0 c1 c2 c3 c4 c5 c6 c7 t).getLsbD 15,
   (tagWord c0 c1 c2 c3 c4 c5 c6 c7 t).getLsbD 23, (tagWord c0 c1 c2 c3 c4 c5 c6 c7 t).getLsbD 31,
   (tagWord c0 c1 c2 c3 c4 c5 c6 c7 t).getLsbD 39, (tagWord c0 c1 c2 c3 c4 c5 c6 c7 t).getLsbD 47,
   (tagWord c0 c1 c2 c3 c4 c5 c6 c7 t).getLsbD 55, (tagWord c0 c1 c2 c3 c4 c5 c6 c7 t).getLsbD 63]

theorem lanes_tagWord (c0 c1 c2 c3 c4 c5 c6 c7 t : BitVec 8) :
    BitMask.lanes 64 8 (tagWord c0 c1 c2 c3 c4 c5 c6 c7 t).toNat =
      (List.range 8).filter (fun i => (tagBits c0 c1 c2 c3 c4 c5 c6 c7 t).getD i false) := by
  have hm := mask_form _ (bv_tag_inMask c0 c1 c2 c3 c4 c5 c6 c7 t)
  have := lanes_maskOf ((tagWord c0 c1 c2 c3 c4 c5 c6 c7 t).getLsbD 7)
    ((tagWord c0 c1 c2 c3 c4 c5 c6 c7 t).getLsbD 15) ((tagWord c0 c1 c2 c3 c4 c5 c6 c7 t).getLsbD 23)
    ((tagWord c0 c1 c2 c3 c4 c5 c6 c7 t).getLsbD 31) ((tagWord c0 c1 c2 c3 c4 c5 c6 c7 t).getLsbD 39)
    ((tagWord c0 c1 c2 c3 c4 c5 c6 c7 t).getLsbD 47) ((tagWord c0 c1 c2 c3 c4 c5 c6 c7 t).getLsbD 55)
    ((tagWord c0 c1 c2 c3 c4 c5 c6 c7 t).getLsbD 63)
  rw [← hm] at this
  exact this

theorem tag_complete_list (c0 c1 c2 c3 c4 c5 c6 c7 t : BitVec 8) : ∀ i, i < 8 →
    [c0, c1, c2, c3, c4, c5, c6, c7].getD i 0#8 = t →
    (tagBits c0 c1 c2 c3 c4 c5 c6 c7 t).getD i false = true := by
  obtain ⟨h0, h1, h2, h3, h4, h5, h6, h7⟩ := bv_tag_complete c0 c1 c2 c3 c4 c5 c6 c7 t
  intro i hi
  match i, hi with
  | 0, _ => exact h0
  | 1, _ => exact h1
  | 2, _ => exact h2
  | 3, _ => exact h3
  | 4, _ => exact h4
  | 5, _ => exact h5
  | 6, _ => exact h6
  | 7, _ => exact h7

theorem tag_sound_list (c0 c1 c2 c3 c4 c5 c6 c7 t : BitVec 8) : ∀ i, i < 8 →
    (tagBits c0 c1 c2 c3 c4 c5 c6 c7 t).getD i false = true →
    [c0, c1, c2, c3, c4, c5, c6, c7].getD i 0#8 = t ∨
    ([c0, c1, c2, c3, c4, c5, c6, c7].getD i 0#8 = t ^^^ 1#8 ∧
      ∃ j, j < i ∧ [c0, c1, c2, c3, c4, c5, c6, c7].getD j 0#8 = t) := by
  obtain ⟨h0, h1, h2, h3, h4, h5, h6, h7⟩ := bv_tag_sound c0 c1 c2 c3 c4 c5 c6 c7 t
  intro i hi
  match i, hi with
  | 0, _ => exact fun hs => Or.inl (h0 hs)
  | 1, _ =>
    intro hs
    rcases h1 hs with h | ⟨a, h⟩
    · exact Or.inl h
    · exact Or.inr ⟨a, 0, by omega, h⟩
  | 2, _ =>
    intro hs
    rcases h2 hs with h | ⟨a, h | h⟩
    · exact Or.inl h
    · exact Or.inr ⟨a, 0, by omega, h⟩
    · exact Or.inr ⟨a, 1, by omega, h⟩
  | 3, _ =>
    intro hs
    rcases h3 hs with h | ⟨a, h | h | h⟩
    · exact Or.inl h
    · exact Or.inr ⟨a, 0, by omega, h⟩
    · exact Or.inr ⟨a, 1, by omega, h⟩
    · exact Or.inr ⟨a, 2, by omega, h⟩
  | 4, _ =>
    intro hs
    rcases h4 hs with h | ⟨a, h | h | h | h⟩
    · exact Or.inl h
    · exact Or.inr ⟨a, 0, by omega, h⟩
    · exact Or.inr ⟨a, 1, by omega, h⟩
    · exact Or.inr ⟨a, 2, by omega, h⟩
    · exact Or.inr ⟨a, 3, by omega, h⟩
  | 5, _ =>
    intro hs
    rcases h5 hs with h | ⟨a, h | h | h | h | h⟩
    · exact Or.inl h
    · exact Or.inr ⟨a, 0, by omega, h⟩
    · exact Or.inr ⟨a, 1, by omega, h⟩
    · exact Or.inr ⟨a, 2, by omega, h⟩
    · exact Or.inr ⟨a, 3, by omega, h⟩
    · exact Or.inr ⟨a, 4, by omega, h⟩
  | 6, _ =>
    intro hs
    rcases h6 hs with h | ⟨a, h | h | h | h | h | h⟩
    · exact Or.inl h
    · exact Or.inr ⟨a, 0, by omega, h⟩
    · exact Or.inr ⟨a, 1, by omega, h⟩
    · exact Or.inr ⟨a, 2, by omega, h⟩
    · exact Or.inr ⟨a, 3, by omega, h⟩
    · exact Or.inr ⟨a, 4, by omega, h⟩
    · exact Or.inr ⟨a, 5, by omega, h⟩
  | 7, _ =>
    intro hs
    rcases h7 hs with h | ⟨a, h | h | h | h | h | h | h⟩
    · exact Or.inl h
    · exact Or.inr ⟨a, 0, by omega, h⟩
    · exact Or.inr ⟨a, 1, by omega, h⟩
    · exact Or.inr ⟨a, 2, by omega, h⟩
    · exact Or.inr ⟨a, 3, by omega, h⟩
    · exact Or.inr ⟨a, 4, by omega, h⟩
    · exact Or.inr ⟨a, 5, by omega, h⟩
    · exact Or.inr ⟨a, 6, by omega, h⟩

theorem valid_getD {g : List Nat} (h : ValidGroup 8 g) (i : Nat) (hi : i < 8) :
    ValidCtrl (g.getD i 0) := by
  have hl : i < g.length := by rw [h.1]; exact hi
  apply h.2
  rw [List.getD_eq_getElem?_getD, List.getElem?_eq_getElem hl]
  exact List.getElem_mem hl

theorem byte_xor_one (t : Nat) : byte (t ^^^ 1) = byte t ^^^ 1#8 := by
  show BitVec.ofNat 8 (t ^^^ 1) = BitVec.ofNat 8 t ^^^ BitVec.ofNat 8 1
  exact BitVec.ofNat_xor

/-- The lanes reported by the portable `match_tag`, as a filter on the lane bits. -/
theorem generic_matchTag_eq (b0 b1 b2 b3 b4 b5 b6 b7 t : Nat) :
    Generic.ops.matchTag [b0, b1, b2, b3, b4, b5, b6, b7] t =
      (List.range 8).filter (fun i => (tagBits (byte b0) (byte b1) (byte b2) (byte b3) (byte b4)
        (byte b5) (byte b6) (byte b7) (byte t)).getD i false) := by
  show BitMask.lanes 64 8 (Generic.matchTagWord (Generic.load _) t).toNat = _
  rw [load_eq, matchTagWord_pack, lanes_tagWord]

theorem bytes_getD (b0 b1 b2 b3 b4 b5 b6 b7 i : Nat) (hi : i < 8) :
    [byte b0, byte b1, byte b2, byte b3, byte b4, byte b5, byte b6, byte b7].getD i 0#8 =
      byte ([b0, b1, b2, b3, b4, b5, b6, b7].getD i 0) :=
  getD_map_lt byte [b0, b1, b2, b3, b4, b5, b6, b7] i hi 0#8 0

theorem generic_tagSorted (g : List Nat) (t : Nat) (h : ValidGroup 8 g) :
    (Generic.ops.matchTag g t).Pairwise (· < ·) := by
  obtain ⟨b0, b1, b2, b3, b4, b5, b6, b7, rfl⟩ := list8 g h.1
  rw [generic_matchTag_eq]
  exact List.Pairwise.filter _ List.pairwise_lt_range

theorem generic_tagComplete (g : List Nat) (t : Nat) (h : ValidGroup 8 g) :
    ∀ i, i < 8 → g.getD i 0 = t → i ∈ Generic.ops.matchTag g t := by
  obtain ⟨b0, b1, b2, b3, b4, b5, b6, b7, rfl⟩ := list8 g h.1
  intro i hi hb
  rw [generic_matchTag_eq, List.mem_filter]
  refine ⟨List.mem_range.2 hi, ?_⟩
  apply tag_complete_list _ _ _ _ _ _ _ _ _ i hi
  rw [bytes_getD _ _ _ _ _ _ _ _ i hi, hb]

theorem generic_tagSound (g : List Nat) (t : Nat) (h : ValidGroup 8 g) (ht : t < 128) :
    ∀ i ∈ Generic.ops.matchTag g t, i < 8 ∧
      (g.getD i 0 = t ∨ (g.getD i 0 = t ^^^ 1 ∧ ∃ j, j < i ∧ g.getD j 0 = t)) := by
  have hx : t ^^^ 1 < 256 :=
    Nat.lt_trans (Nat.xor_lt_two_pow (n := 7) ht (by decide)) (by decide)
  have hv := valid_getD h
  obtain ⟨b0, b1, b2, b3, b4, b5, b6, b7, rfl⟩ := list8 g h.1
  intro i hi
  rw [generic_matchTag_eq, List.mem_filter] at hi
  have hi8 := List.mem_range.1 hi.1
  refine ⟨hi8, ?_⟩
  rcases tag_sound_list _ _ _ _ _ _ _ _ _ i hi8 hi.2 with hc | ⟨hc, j, hj, hcj⟩
  · rw [bytes_getD _ _ _ _ _ _ _ _ i hi8] at hc
    exact Or.inl (byte_inj (valid_lt (hv i hi8)) (by omega) hc)
  · rw [bytes_getD _ _ _ _ _ _ _ _ i hi8, ← byte_xor_one] at hc
    rw [bytes_getD _ _ _ _ _ _ _ _ j (by omega)] at hcj
    exact Or.inr ⟨byte_inj (valid_lt (hv i hi8)) hx hc, j, hj,
      byte_inj (valid_lt (hv j (by omega))) (by omega) hcj⟩

/-! ## §4 the `GroupSpec` structures -/

theorem lanesWhere_pairwise (q : Nat → Bool) (g : List Nat) :
    (Spec.lanesWhere q g).Pairwise (· < ·) :=
  List.Pairwise.filter _ List.pairwise_lt_range

theorem mem_lanesWhere (q : Nat → Bool) (g : List Nat) (i : Nat) :
    i ∈ Spec.lanesWhere q g ↔ i < g.length ∧ q (g.getD i 0) = true := by
  simp [Spec.lanesWhere]

theorem sse2_groupSpec : GroupSpec Sse2.ops where
  width := Or.inr rfl
  matchEmpty := fun g h => (Sse2.matchTag_spec g EMPTY h.1).2
  matchSpecial := fun g h => Sse2.matchSpecial_spec g h.1
  matchFull := fun g h => Sse2.matchFull_spec g h.1
  lz := fun g h => Sse2.lz_spec g h.1
  tz := fun g h => Sse2.tz_spec g h.1
  convert := fun g _ => Sse2.convert_spec g
  tagSorted := fun g t h _ => by
    rw [(Sse2.matchTag_spec g t h.1).2]; exact lanesWhere_pairwise _ g
  tagComplete := fun g t h _ i hi hb => by
    rw [(Sse2.matchTag_spec g t h.1).2]
    have hW : Sse2.ops.W = 16 := rfl
    exact (mem_lanesWhere _ g i).2 ⟨by rw [h.1]; omega, by simp [hb, -List.getD_eq_getElem?_getD]⟩
  tagSound := fun g t h _ i hi => by
    rw [(Sse2.matchTag_spec g t h.1).2] at hi
    have := (mem_lanesWhere _ g i).1 hi
    have hW : Sse2.ops.W = 16 := rfl
    refine ⟨by rw [← h.1]; exact this.1, Or.inl ?_⟩
    simpa [-List.getD_eq_getElem?_getD] using this.2

/-- The false positives of the portable `match_tag` (property C18): a reported lane that does not
    hold the tag holds `tag ^ 1`, and some lower lane holds the tag. -/
theorem generic_matchTag_false_positive : ∀ g t, ValidGroup 8 g → t < 128 →
    ∀ i ∈ Generic.ops.matchTag g t, g.getD i 0 ≠ t →
      (g.getD i 0 = t ^^^ 1 ∧ ∃ j, j < i ∧ g.getD j 0 = t) := by
  intro g t h ht i hi hne
  rcases (generic_tagSound g t h ht i hi).2 with h1 | h1
  · exact absurd h1 hne
  · exact h1

theorem generic_groupSpec : GroupSpec Generic.ops where
  width := Or.inl rfl
  matchEmpty := generic_matchEmpty_spec
  matchSpecial := generic_matchSpecial_spec
  matchFull := generic_matchFull_spec
  lz := generic_lz_spec
  tz := generic_tz_spec
  convert := generic_convert_spec
  tagSorted := fun g t h _ => generic_tagSorted g t h
  tagComplete := fun g t h _ => generic_tagComplete g t h
  tagSound := fun g t h ht => generic_tagSound g t h ht

/-! ### the false positive really occurs (and not with SSE2) -/

example : Generic.ops.matchTag [0x10, 0x11, 255, 255, 255, 255, 255, 255] 0x10 = [0, 1] := by
  decide +kernel

example : Sse2.ops.matchTag
    [0x10, 0x11, 255, 255, 255, 255, 255, 255, 255, 255, 255, 255, 255, 255, 255, 255] 0x10 =
    [0] := by
  decide +kernel

end Hb

#print axioms Hb.sse2_groupSpec
#print axioms Hb.generic_groupSpec
#print axioms Hb.generic_matchTag_false_positive
