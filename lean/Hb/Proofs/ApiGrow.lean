/-
Capacity / growth layer (`reserve_rehash`, `reserve`, `try_reserve`, `insert`,
`find_or_find_insert_slot`, `shrink_to`, `with_capacity`, `allocation_size`) and the single-element
operations of the `HashMap` model (`Map.insert/get/getMut/removeEntry/remove`): for EVERY
environment (arbitrary, call-number dependent, possibly panicking callbacks; an allocator that may
refuse) they preserve the table-level invariant `TInv` and never reach `.fault`.
-/
import Hb.Proofs.Arith
import Hb.Proofs.Probe
import Hb.Proofs.InvStep
import Hb.Proofs.FindSlot
import Hb.Proofs.FindSpec
import Hb.Proofs.Resize
import Hb.Proofs.Rehash
namespace Hb

variable {cfg : Cfg}

/-- Invariant used at API level: the structural invariant plus "the layout of the table's own block
    is computable" (needed because freeing recomputes it). -/
def TInv (cfg : Cfg) (t : Raw) : Prop := Inv cfg t ∧ t.LayoutOk cfg

/-- The unwind guard of `rehash_in_place` actually runs (drop glue, or the F1 repair). -/
def GuardRuns (cfg : Cfg) : Prop := cfg.needsDrop = true ∨ cfg.guardAlways = true

/-- `ev` is already in `log`, or it is an allocator event. -/
def AllocOnly (log : List Ev) (ev : Ev) : Prop :=
  ev ∈ log ∨ ∃ s a, ev = .alloc s a ∨ ev = .free s a

theorem TInv.new (hc : CfgOk cfg) : TInv cfg (Raw.new cfg.W) :=
  ⟨Raw.new_inv hc, Raw.new_layoutOk cfg⟩

/-! ### small facts about `Inv` -/

theorem ag_alloc_eq {t t' : Raw} (h : Inv cfg t) (h' : Inv cfg t') (hm : t'.mask = t.mask) :
    t'.alloc = t.alloc := by
  have h1 := h.isEmptySingleton_eq
  have h2 := h'.isEmptySingleton_eq
  simp only [Raw.isEmptySingleton, hm] at h1 h2
  rw [h1] at h2
  cases ha : t.alloc <;> cases hb : t'.alloc <;> simp_all

theorem ag_alloc_of_gl {t : Raw} (h : Inv cfg t) (hg : 0 < t.gl) : t.alloc = true := by
  rcases h.geom with hs | ha
  · have := hs.2.2.2.2.2; omega
  · exact ha.1

theorem ag_singleton_of_not_alloc {t : Raw} (h : Inv cfg t) (ha : t.alloc = false) :
    t.IsSingleton cfg := by
  rcases h.geom with hs | hal
  · exact hs
  · rw [hal.1] at ha; cases ha

theorem TInv.of_inv {t t' : Raw} (h : TInv cfg t) (h' : Inv cfg t') (hm : t'.mask = t.mask) :
    TInv cfg t' :=
  ⟨h', h.2.of_eq hm (ag_alloc_eq h.1 h' hm)⟩

theorem ag_items_eq_length (hc : CfgOk cfg) {t : Raw} (h : Inv cfg t) :
    t.items = t.elems.length := by
  rw [h.items_eq, Raw.elems, Raw.countCtrl,
    length_filterMap_range t.slots.toList (fun i => isFull (t.ctrlAt i))]
  · rw [Array.length_toList]
    rcases h.geom with hs | ha
    · obtain ⟨_, hm, hct, hsl, _⟩ := hs
      have hW : 0 < cfg.W := by rcases hc.W_cases with hW | hW <;> omega
      simp [hsl, Raw.buckets, hm, Raw.ctrlAt, hct, hW, isFull, EMPTY]
    · rw [ha.2.2.2.1]
  · intro i hi
    rw [Array.length_toList] at hi
    rw [Array.getElem?_toList]
    have := h.live i hi
    cases h1 : (t.slots[i]?.join).isSome <;> cases h2 : isFull (t.ctrlAt i) <;> simp_all

/-! ### 1. `reserve_rehash_inner` -/

/-- Without `hadd` the statement "never `.fault`" is false: `reserve_rehash(0)` on the static
    singleton takes the in-place branch (`0 ≤ 0 / 2`) and `prepare_rehash_in_place` writes to the
    static control bytes. The real `reserve`/`try_reserve` only call it with
    `additional > growth_left`, hence `0 < additional`. -/
theorem reserveRehash_fault_singleton_zero :
    (match reserveRehash { ops := Sse2.ops } (resizeExEnv 0) 0 .fallible { t := Raw.new 16 } with
     | .fault _ => true
     | _ => false) = true ∧ invB { ops := Sse2.ops } (Raw.new 16) = true := ⟨by rfl, by decide⟩

theorem ag_checkedAdd_some {bits a b n : Nat} (h : checkedAdd bits a b = some n) : n = a + b := by
  unfold checkedAdd at h
  split at h
  · exact (Option.some.inj h).symm
  · cases h

/-- `reserve_rehash_inner`. ONE added hypothesis w.r.t. the requested statement: `hadd`
    (see `reserveRehash_fault_singleton_zero`). The `"hash"` panic clause needs the guard to run
    (`GuardRuns`, defect F1) only to re-establish the invariant. -/
theorem reserveRehash_spec_partial (hc : CfgOk cfg) (hp : ProbeCovers cfg) (env : Env)
    (additional : Nat) (fb : Fallibility) (w : World) (h : TInv cfg w.t)
    (hadd : w.t.alloc = true ∨ 0 < additional) :
    match reserveRehash cfg env additional fb w with
    | .ok (.ok (), w') =>
      TInv cfg w'.t ∧ w'.t.items = w.t.items ∧ List.Perm w'.t.elems w.t.elems ∧
      w.t.items + additional ≤ w'.t.items + w'.t.gl ∧ w'.t.alloc = true ∧
      (∀ ev ∈ w'.log, AllocOnly w.log ev)
    | .ok (.error e, w') =>
      fb = .fallible ∧ w'.t = w.t ∧ w'.log = w.log ∧
      (e = .capacityOverflow ∨
       ∃ b, capacityToBuckets cfg.bits cfg.W cfg.size
              (max (w.t.items + additional) (bucketMaskToCapacity w.t.mask + 1)) = some b ∧
         e = .allocError (layoutOf cfg b).size (layoutOf cfg b).align ∧ env.allocOk w.ac = false)
    | .panic c w' =>
      (c = "capacity" ∧ fb = .infallible ∧ w' = w) ∨
      (c = "hash" ∧ w'.t.mask = w.t.mask ∧
        (GuardRuns cfg → TInv cfg w'.t ∧ ∃ ds, List.Perm (w'.t.elems ++ ds) w.t.elems ∧
          ∀ ev ∈ w'.log, AllocOnly w.log ev ∨ ev ∈ dropEvs cfg ds))
    | .abort => fb = .infallible
    | .fault _ => False := by
  obtain ⟨hinv, hlo⟩ := h
  unfold reserveRehash
  cases hca : checkedAdd cfg.bits w.t.items additional with
  | none => cases fb <;> simp [capacityOverflow]
  | some newItems =>
    have hn := ag_checkedAdd_some hca
    simp only
    by_cases hbr : newItems ≤ bucketMaskToCapacity w.t.mask / 2
    · rw [if_pos hbr]
      have ha : w.t.alloc = true := by
        rcases hadd with ha | hpos
        · exact ha
        · cases hal : w.t.alloc with
          | true => rfl
          | false =>
            have hs := ag_singleton_of_not_alloc hinv hal
            rw [hs.2.1] at hbr
            simp [bucketMaskToCapacity] at hbr
            omega
      have hsp := rehashInPlace_spec hc hp env w hinv ha
      cases hr : rehashInPlace cfg env w with
      | ok w' =>
        rw [hr] at hsp
        obtain ⟨a1, a2, a3, a4, a5, a6, a7⟩ := hsp
        have hal' := ag_alloc_eq hinv a1 a2
        refine ⟨⟨a1, hlo.of_eq a2 hal'⟩, a3, a6, by omega, by rw [hal', ha], ?_⟩
        intro ev hev; rw [a7] at hev; exact Or.inl hev
      | panic c w' =>
        rw [hr] at hsp
        obtain ⟨a1, a2, a3, _⟩ := hsp
        refine Or.inr ⟨a1, a2, fun hg => ?_⟩
        obtain ⟨b1, _, _, _, ds, b5, b6⟩ := a3 hg
        refine ⟨⟨b1, hlo.of_eq a2 (ag_alloc_eq hinv b1 a2)⟩, ds, b5, ?_⟩
        intro ev hev
        rw [b6] at hev
        rcases List.mem_append.mp hev with hev | hev
        · exact Or.inr hev
        · exact Or.inl (Or.inl hev)
      | abort => rw [hr] at hsp; exact hsp.elim
      | fault f => rw [hr] at hsp; exact hsp.elim
    · rw [if_neg hbr]
      have hcap0 : max newItems (bucketMaskToCapacity w.t.mask + 1) ≠ 0 := by omega
      have hsp := resizeInner_post hc hp env (max newItems (bucketMaskToCapacity w.t.mask + 1)) fb w
        hinv hlo (by omega)
      cases hr : resizeInner cfg env (max newItems (bucketMaskToCapacity w.t.mask + 1)) fb w with
      | ok pr =>
        obtain ⟨r, w'⟩ := pr
        rw [hr] at hsp
        cases r with
        | ok u =>
          cases u
          obtain ⟨a1, a2, a3, _, a5, a6, a7, a8, _⟩ := hsp
          rw [if_neg hcap0] at a6
          refine ⟨⟨a1, a2⟩, a3, a7, ?_, a6.1, a8⟩
          rcases a5 with a5 | a5
          · exact absurd a5 hcap0
          · omega
        | error e =>
          obtain ⟨a1, a2, a3, _, a5⟩ := hsp
          refine ⟨a1, a2, a3, ?_⟩
          rcases a5 with ⟨a5, _⟩ | ⟨b, a4, a5, a6, _⟩
          · exact Or.inl a5
          · exact Or.inr ⟨b, by rw [← hn]; exact a4, a5, a6⟩
      | panic c w' =>
        rw [hr] at hsp
        rcases hsp with hsp | ⟨a1, _, a3, b, k, _, _, a6, _⟩
        · exact Or.inl hsp
        · refine Or.inr ⟨a1, by rw [a3], fun _ => ⟨by rw [a3]; exact ⟨hinv, hlo⟩, [], by rw [a3]; simp, ?_⟩⟩
          intro ev hev
          rw [a6] at hev
          rcases List.mem_cons.mp hev with rfl | hev
          · exact Or.inl (Or.inr ⟨_, _, Or.inr rfl⟩)
          rcases List.mem_cons.mp hev with rfl | hev
          · exact Or.inl (Or.inr ⟨_, _, Or.inl rfl⟩)
          · exact Or.inl (Or.inl hev)
      | abort => rw [hr] at hsp; exact hsp.1
      | fault f => rw [hr] at hsp; exact hsp.elim

/-! ### 2. `reserve`, `try_reserve` -/

/-- `RawTable::reserve`: never the `unreachable_unchecked` fault; on success the capacity covers the
    request, `growth_left ≥ additional`, same elements, only allocator events. -/
theorem reserve_spec (hc : CfgOk cfg) (hp : ProbeCovers cfg) (env : Env) (additional : Nat)
    (w : World) (h : TInv cfg w.t) :
    match reserve cfg env additional w with
    | .ok w' =>
      TInv cfg w'.t ∧ w'.t.items = w.t.items ∧ List.Perm w'.t.elems w.t.elems ∧
      w.t.items + additional ≤ w'.t.items + w'.t.gl ∧ additional ≤ w'.t.gl ∧
      (0 < additional → w'.t.alloc = true) ∧
      (∀ ev ∈ w'.log, AllocOnly w.log ev) ∧ (additional ≤ w.t.gl → w' = w)
    | .panic c w' =>
      (c = "capacity" ∧ w' = w) ∨
      (c = "hash" ∧ w'.t.mask = w.t.mask ∧
        (GuardRuns cfg → TInv cfg w'.t ∧ ∃ ds, List.Perm (w'.t.elems ++ ds) w.t.elems ∧
          ∀ ev ∈ w'.log, AllocOnly w.log ev ∨ ev ∈ dropEvs cfg ds))
    | .abort => True
    | .fault _ => False := by
  unfold reserve
  by_cases hgt : additional > w.t.gl
  · rw [if_pos hgt]
    have hsp := reserveRehash_spec_partial hc hp env additional .infallible w h (Or.inr (by omega))
    cases hr : reserveRehash cfg env additional .infallible w with
    | ok pr =>
      obtain ⟨r, w'⟩ := pr
      rw [hr] at hsp
      cases r with
      | ok u =>
        cases u
        obtain ⟨a1, a2, a3, a4, a5, a6⟩ := hsp
        exact ⟨a1, a2, a3, a4, by omega, fun _ => a5, a6, fun hle => by omega⟩
      | error e => exact absurd hsp.1 (by decide)
    | panic c w' =>
      rw [hr] at hsp
      rcases hsp with ⟨a1, _, a3⟩ | hsp
      · exact Or.inl ⟨a1, a3⟩
      · exact Or.inr hsp
    | abort => trivial
    | fault f => rw [hr] at hsp; exact hsp.elim
  · rw [if_neg hgt]
    exact ⟨h, rfl, List.Perm.refl _, by omega, by omega, fun hpos => ag_alloc_of_gl h.1 (by omega),
      fun ev hev => Or.inl hev, fun _ => rfl⟩

/-- `RawTable::try_reserve` (core of C12): `Ok` ⇒ `len + additional ≤ capacity'`; `Err` ⇒ table and
    log (hence contents, `len`, the allocation) unchanged; the only way to unwind is a panicking
    *hasher* (a user callback); never `"capacity"`, never abort, never a fault. -/
theorem tryReserve_spec (hc : CfgOk cfg) (hp : ProbeCovers cfg) (env : Env) (additional : Nat)
    (w : World) (h : TInv cfg w.t) :
    match tryReserve cfg env additional w with
    | .ok (.ok (), w') =>
      TInv cfg w'.t ∧ w'.t.items = w.t.items ∧ List.Perm w'.t.elems w.t.elems ∧
      w.t.items + additional ≤ w'.t.items + w'.t.gl ∧ additional ≤ w'.t.gl ∧
      (∀ ev ∈ w'.log, AllocOnly w.log ev) ∧ (additional ≤ w.t.gl → w' = w)
    | .ok (.error e, w') =>
      w'.t = w.t ∧ w'.log = w.log ∧ w.t.gl < additional ∧
      (e = .capacityOverflow ∨
       ∃ b, capacityToBuckets cfg.bits cfg.W cfg.size
              (max (w.t.items + additional) (bucketMaskToCapacity w.t.mask + 1)) = some b ∧
         e = .allocError (layoutOf cfg b).size (layoutOf cfg b).align ∧ env.allocOk w.ac = false)
    | .panic c w' =>
      c = "hash" ∧ w'.t.mask = w.t.mask ∧
        (GuardRuns cfg → TInv cfg w'.t ∧ ∃ ds, List.Perm (w'.t.elems ++ ds) w.t.elems ∧
          ∀ ev ∈ w'.log, AllocOnly w.log ev ∨ ev ∈ dropEvs cfg ds)
    | .abort => False
    | .fault _ => False := by
  unfold tryReserve
  by_cases hgt : additional > w.t.gl
  · rw [if_pos hgt]
    have hsp := reserveRehash_spec_partial hc hp env additional .fallible w h (Or.inr (by omega))
    cases hr : reserveRehash cfg env additional .fallible w with
    | ok pr =>
      obtain ⟨r, w'⟩ := pr
      rw [hr] at hsp
      cases r with
      | ok u =>
        cases u
        obtain ⟨a1, a2, a3, a4, a5, a6⟩ := hsp
        exact ⟨a1, a2, a3, a4, by omega, a6, fun hle => by omega⟩
      | error e =>
        obtain ⟨_, a2, a3, a4⟩ := hsp
        exact ⟨a2, a3, hgt, a4⟩
    | panic c w' =>
      rw [hr] at hsp
      rcases hsp with ⟨_, a2, _⟩ | hsp
      · exact absurd a2 (by decide)
      · exact hsp
    | abort =>
      rw [hr] at hsp
      have hsp' : Fallibility.fallible = Fallibility.infallible := hsp
      cases hsp'
    | fault f => rw [hr] at hsp; exact hsp.elim
  · rw [if_neg hgt]
    exact ⟨h, rfl, List.Perm.refl _, by omega, by omega, fun ev hev => Or.inl hev, fun _ => rfl⟩

/-- C08: within the current capacity (`additional ≤ capacity() - len() = growth_left`) `reserve` and
    `try_reserve` return immediately: same world, no allocator event. Needs no invariant. -/
theorem no_alloc_within_capacity (env : Env) (additional : Nat) (w : World)
    (hle : additional ≤ w.t.gl) :
    reserve cfg env additional w = .ok w ∧ tryReserve cfg env additional w = .ok (.ok (), w) := by
  unfold reserve tryReserve
  rw [if_neg (by omega), if_neg (by omega)]
  exact ⟨rfl, rfl⟩

/-! ### 4. `RawTable::insert` -/

/-- `insert_in_slot` at a special bucket, at `TInv` level, with the element accounting. -/
theorem ag_insertInSlot (hc : CfgOk cfg) {t : Raw} (h : TInv cfg t) (ha : t.alloc = true)
    {idx : Nat} (hi : idx < t.buckets) (hs : isSpecial (t.ctrlAt idx) = true)
    (hg : t.ctrlAt idx = EMPTY → 0 < t.gl) (e : Elem) (hash : Nat) :
    ∃ t', insertInSlot cfg t hash idx e = .ok t' ∧ TInv cfg t' ∧ t'.mask = t.mask ∧
      t'.alloc = true ∧ t'.items = t.items + 1 ∧ List.Perm t'.elems (e :: t.elems) ∧
      t'.slots[idx]? = some (some e) ∧
      t'.gl = (if t.ctrlAt idx = EMPTY then t.gl - 1 else t.gl) := by
  obtain ⟨t', h1, h2, h3, h4, h5, h6, _, h8⟩ := insertInSlot_inv hc h.1 ha hi hs hg e hash
  have hall := h.1.allocated ha
  have hssz : idx < t.slots.size := by have := hall.2.2.2.1; omega
  have hslot : t.slots[idx]? = some none :=
    (slot_of_live h.1 hssz).1 (isFull_false_of_special hs)
  refine ⟨t', h1, ⟨h2, h.2.of_eq h3 (by rw [h4, ha])⟩, h3, h4, h5, ?_, ?_, h8⟩
  · have := elems_put (t := t) e hslot
    simpa only [Raw.elems, h6] using this
  · rw [h6, Array.getElem?_setIfInBounds, if_pos rfl, if_pos hssz]

/-- `RawTable::insert(hash, e, hasher)`: never a fault; on success the element is stored (the
    multiset of elements grows by exactly `e`), only allocator events are logged; on a panic or
    abort the element was not stored (the caller still owns it). -/
theorem rawInsert_spec (hc : CfgOk cfg) (hp : ProbeCovers cfg) (env : Env) (hash : Nat) (e : Elem)
    (w : World) (h : TInv cfg w.t) :
    match rawInsert cfg env hash e w with
    | .ok (idx, w') =>
      TInv cfg w'.t ∧ w'.t.items = w.t.items + 1 ∧ List.Perm w'.t.elems (e :: w.t.elems) ∧
      idx < w'.t.buckets ∧ w'.t.slots[idx]? = some (some e) ∧
      (∀ ev ∈ w'.log, AllocOnly w.log ev)
    | .panic c w' =>
      (c = "capacity" ∧ w' = w) ∨
      (c = "hash" ∧ w'.t.mask = w.t.mask ∧
        (GuardRuns cfg → TInv cfg w'.t ∧ ∃ ds, List.Perm (w'.t.elems ++ ds) w.t.elems ∧
          ∀ ev ∈ w'.log, AllocOnly w.log ev ∨ ev ∈ dropEvs cfg ds))
    | .abort => True
    | .fault _ => False := by
  obtain ⟨slot, hfs, hlt, hsp⟩ := findInsertSlot_ok hc hp h.1 hash
  have hsz : slot < w.t.ctrl.size := by have := h.1.buckets_le_size hc; omega
  unfold rawInsert
  simp only [hfs, ctrlRd_ok hsz]
  by_cases hbr : w.t.gl = 0 ∧ specialIsEmpty (w.t.ctrlAt slot) = true
  · rw [if_pos hbr]
    have hres := reserve_spec hc hp env 1 w h
    cases hr : reserve cfg env 1 w with
    | ok w1 =>
      rw [hr] at hres
      obtain ⟨a1, a2, a3, _, a5, a6, a7, _⟩ := hres
      obtain ⟨slot', hfs', hlt', hsp'⟩ := findInsertSlot_ok hc hp a1.1 hash
      obtain ⟨t', b1, b2, b3, _, b5, b6, b7, _⟩ :=
        ag_insertInSlot hc a1 (a6 (by omega)) hlt' hsp' (fun _ => by omega) e hash
      simp only [hfs', b1]
      refine ⟨b2, by rw [b5, a2], b6.trans (List.Perm.cons e a3), ?_, b7, a7⟩
      show slot' < t'.mask + 1
      rw [b3]; exact hlt'
    | panic c w' => rw [hr] at hres; exact hres
    | abort => trivial
    | fault f => rw [hr] at hres; exact hres.elim
  · rw [if_neg hbr]
    have hold := special_cases (h.1.validAt slot) hsp
    have hge : w.t.ctrlAt slot = EMPTY → 0 < w.t.gl := by
      intro he
      have : specialIsEmpty (w.t.ctrlAt slot) = true := by rw [he]; decide
      by_contra hn
      exact hbr ⟨by omega, this⟩
    have ha : w.t.alloc = true := by
      cases hal : w.t.alloc with
      | true => rfl
      | false =>
        exfalso
        have hs := ag_singleton_of_not_alloc h.1 hal
        have h0 : slot = 0 := by have := hs.2.1; simp only [Raw.buckets] at hlt; omega
        have hW : 0 < cfg.W := by rcases hc.W_cases with hW | hW <;> omega
        have hE : w.t.ctrlAt slot = EMPTY := by
          rw [h0]; simp [Raw.ctrlAt, hs.2.2.1, hW]
        have := hge hE
        have := hs.2.2.2.2.2
        omega
    obtain ⟨t', b1, b2, b3, _, b5, b6, b7, _⟩ := ag_insertInSlot hc h ha hlt hsp hge e hash
    simp only [b1]
    refine ⟨b2, b5, b6, ?_, b7, fun ev hev => Or.inl hev⟩
    show slot < t'.mask + 1
    rw [b3]; exact hlt

/-- C08: inserting while `growth_left > 0` (i.e. `len() < capacity()`) never touches the allocator,
    never calls the hasher, cannot panic: the result is `.ok` with the same log / counters, the same
    bucket count, and `growth_left` decreases by at most one. -/
theorem rawInsert_no_alloc (hc : CfgOk cfg) (hp : ProbeCovers cfg) (env : Env) (hash : Nat)
    (e : Elem) (w : World) (h : TInv cfg w.t) (hgl : 0 < w.t.gl) :
    ∃ idx t', rawInsert cfg env hash e w = .ok (idx, { w with t := t' }) ∧
      t'.mask = w.t.mask ∧ t'.alloc = w.t.alloc ∧ w.t.gl ≤ t'.gl + 1 ∧ t'.gl ≤ w.t.gl ∧
      t'.items = w.t.items + 1 ∧ TInv cfg t' := by
  obtain ⟨slot, hfs, hlt, hsp⟩ := findInsertSlot_ok hc hp h.1 hash
  have hsz : slot < w.t.ctrl.size := by have := h.1.buckets_le_size hc; omega
  have ha := ag_alloc_of_gl h.1 hgl
  obtain ⟨t', b1, b2, b3, b4, b5, _, _, b8⟩ :=
    ag_insertInSlot hc h ha hlt hsp (fun _ => hgl) e hash
  refine ⟨slot, t', ?_, b3, by rw [b4, ha], ?_, ?_, b5, b2⟩
  · unfold rawInsert
    simp only [hfs, ctrlRd_ok hsz]
    rw [if_neg (by omega)]
    simp only [b1]
  · rw [b8]; split <;> omega
  · rw [b8]; split <;> omega

/-! ### `insert_no_grow` -/

theorem ag_setCtrl_gl (t : Raw) (g i c : Nat) :
    setCtrl cfg { t with gl := g } i c =
      match setCtrl cfg t i c with
      | .ok t1 => .ok { t1 with gl := g }
      | .error f => .error f := by
  simp only [setCtrl, ctrlWr]
  by_cases ha : t.alloc = true
  · by_cases h1 : i < t.ctrl.size
    · by_cases h2 : index2 cfg.bits cfg.W t.mask i < t.ctrl.size <;> simp [ha, h1, h2]
    · simp [ha, h1]
  · simp [ha]

/-- `insert_no_grow` does exactly what `insert_in_slot` does at the slot `find_insert_slot`
    returns. -/
theorem ag_insertNoGrow_eq (hc : CfgOk cfg) (hp : ProbeCovers cfg) {t : Raw} (h : Inv cfg t)
    (hgl : 0 < t.gl) (hash : Nat) (e : Elem) :
    ∃ idx, findInsertSlot cfg t hash = .ok idx ∧ idx < t.buckets ∧
      isSpecial (t.ctrlAt idx) = true ∧
      insertNoGrow cfg hash e t =
        match insertInSlot cfg t hash idx e with
        | .ok t' => .ok (idx, t')
        | .error f => .error f := by
  obtain ⟨idx, hfs, hlt, hsp⟩ := findInsertSlot_ok hc hp h hash
  refine ⟨idx, hfs, hlt, hsp, ?_⟩
  have ha := ag_alloc_of_gl h hgl
  have hall := h.allocated ha
  have hsz : idx < t.ctrl.size := by have := hall.2.2.1; omega
  obtain ⟨t1, he, _, h2, _, h4, _⟩ := setCtrl_ok hc hall hlt (tagFull cfg.bits hash)
  simp only [insertNoGrow, prepareInsertSlot, hfs, ctrlRd_ok hsz, setCtrlHash, he, insertInSlot,
    recordItemInsertAt, ag_setCtrl_gl, h4]
  by_cases hd : t.gl < (if specialIsEmpty (t.ctrlAt idx) = true then 1 else 0)
  · exfalso
    split at hd <;> omega
  · simp only [hd, if_false, slotPut]
    cases hs : t1.slots[idx]? with
    | none => simp
    | some o => cases o <;> simp

/-- `insert_no_grow` (feature `rustc-internal-api`) with spare capacity (`growth_left > 0`, the
    safety contract of the real function): never a fault, the element is stored. -/
theorem insertNoGrow_spec (hc : CfgOk cfg) (hp : ProbeCovers cfg) {t : Raw} (h : TInv cfg t)
    (hgl : 0 < t.gl) (hash : Nat) (e : Elem) :
    ∃ idx t', insertNoGrow cfg hash e t = .ok (idx, t') ∧ TInv cfg t' ∧ t'.mask = t.mask ∧
      t'.items = t.items + 1 ∧ List.Perm t'.elems (e :: t.elems) ∧ idx < t'.buckets ∧
      t'.slots[idx]? = some (some e) ∧ t.gl ≤ t'.gl + 1 ∧ t'.gl ≤ t.gl := by
  have ha := ag_alloc_of_gl h.1 hgl
  obtain ⟨idx, _, hlt, hsp, heq⟩ := ag_insertNoGrow_eq hc hp h.1 hgl hash e
  obtain ⟨t', b1, b2, b3, _, b5, b6, b7, b8⟩ :=
    ag_insertInSlot hc h ha hlt hsp (fun _ => hgl) e hash
  rw [b1] at heq
  refine ⟨idx, t', heq, b2, b3, b5, b6, ?_, b7, ?_, ?_⟩
  · show idx < t'.mask + 1
    rw [b3]; exact hlt
  · rw [b8]; split <;> omega
  · rw [b8]; split <;> omega

/-! ### 5. `find_or_find_insert_slot` -/

/-- `reserve(1)` then search. A found bucket is live; a returned insert slot is special and, because
    `reserve(1)` succeeded, `growth_left ≥ 1` (so `insert_in_slot` cannot underflow). -/
theorem findOrFindInsertSlot_spec (hc : CfgOk cfg) (hp : ProbeCovers cfg) (env : Env)
    (hash q : Nat) (w : World) (h : TInv cfg w.t) :
    match findOrFindInsertSlot cfg env hash q w with
    | .ok (.ok idx, w') =>
      TInv cfg w'.t ∧ idx < w'.t.buckets ∧ isFull (w'.t.ctrlAt idx) = true ∧
      (∃ x, w'.t.slots[idx]?.join = some x) ∧ List.Perm w'.t.elems w.t.elems ∧
      w'.t.items = w.t.items ∧ (∀ ev ∈ w'.log, AllocOnly w.log ev)
    | .ok (.error slot, w') =>
      TInv cfg w'.t ∧ slot < w'.t.buckets ∧ isSpecial (w'.t.ctrlAt slot) = true ∧
      (w'.t.ctrlAt slot = EMPTY → 0 < w'.t.gl) ∧ 0 < w'.t.gl ∧ w'.t.alloc = true ∧
      List.Perm w'.t.elems w.t.elems ∧ w'.t.items = w.t.items ∧
      (∀ ev ∈ w'.log, AllocOnly w.log ev)
    | .panic c w' =>
      (c = "capacity" ∧ w' = w) ∨
      (c = "hash" ∧ w'.t.mask = w.t.mask ∧
        (GuardRuns cfg → TInv cfg w'.t ∧ ∃ ds, List.Perm (w'.t.elems ++ ds) w.t.elems ∧
          ∀ ev ∈ w'.log, AllocOnly w.log ev ∨ ev ∈ dropEvs cfg ds)) ∨
      (c = "eq" ∧ TInv cfg w'.t ∧ List.Perm w'.t.elems w.t.elems ∧ w'.t.items = w.t.items ∧
        ∀ ev ∈ w'.log, AllocOnly w.log ev)
    | .abort => True
    | .fault _ => False := by
  unfold findOrFindInsertSlot
  have hres := reserve_spec hc hp env 1 w h
  cases hr : reserve cfg env 1 w with
  | ok w1 =>
    rw [hr] at hres
    obtain ⟨a1, a2, a3, _, a5, a6, a7, _⟩ := hres
    simp only
    rcases fofis_total hc hp env hash q (tagFull cfg.bits hash) (tagFull_lt_128 cfg.bits hash) w1 a1.1
      with ⟨idx, w', k1, k2, k3, _, k5, k6, k7⟩ | ⟨slot, w', k1, k2, k3, _, k5, k6, _⟩ |
        ⟨w', k1, k2, k3, _⟩
    · rw [k1]
      simp only [k2, k3]
      exact ⟨a1, k5, k6, k7, a3, a2, a7⟩
    · rw [k1]
      simp only [k2, k3]
      exact ⟨a1, k5, k6, fun _ => by omega, by omega, a6 (by omega), a3, a2, a7⟩
    · rw [k1]
      refine Or.inr (Or.inr ⟨rfl, ?_⟩)
      rw [k2, k3]
      exact ⟨a1, a3, a2, a7⟩
  | panic c w' =>
    rw [hr] at hres
    rcases hres with hres | hres
    · exact Or.inl hres
    · exact Or.inr (Or.inl hres)
  | abort => trivial
  | fault f => rw [hr] at hres; exact hres.elim

/-! ### 6. single-element operations of `HashMap` -/

theorem ag_makeHash_none {env : Env} {k : Nat} {w : World} (hh : env.hash w.hc k = none) :
    makeHash env k w = .panic "hash" { w with hc := w.hc + 1 } := by
  simp only [makeHash, World.hashCall, hh]

theorem ag_makeHash_some {env : Env} {k hv : Nat} {w : World} (hh : env.hash w.hc k = some hv) :
    makeHash env k w = .ok (hv, { w with hc := w.hc + 1 }) := by
  simp only [makeHash, World.hashCall, hh]

/-- Overwriting a live slot with another element keeps `Inv`. -/
theorem ag_inv_slot_replace {t : Raw} (h : Inv cfg t) {idx : Nat} {old : Elem}
    (ho : t.slots[idx]?.join = some old) (e' : Elem) :
    Inv cfg { t with slots := t.slots.setIfInBounds idx (some e') } := by
  have hidx : idx < t.slots.size := by
    by_contra hn
    rw [Array.getElem?_eq_none (by omega)] at ho
    cases ho
  have hal : t.IsAllocated cfg := by
    rcases h.geom with hs | ha
    · rw [hs.2.2.2.1] at hidx; simp at hidx
    · exact ha
  refine ⟨Or.inr ⟨hal.1, hal.2.1, hal.2.2.1, ?_, hal.2.2.2.2⟩, h.valid, h.mirror, h.items_eq,
    h.count, ?_, h.smallClean⟩
  · show (t.slots.setIfInBounds idx (some e')).size = t.buckets
    rw [Array.size_setIfInBounds]; exact hal.2.2.2.1
  · intro i hi
    show ((t.slots.setIfInBounds idx (some e'))[i]?.join).isSome ↔ isFull (t.ctrlAt i) = true
    have hi' : i < t.slots.size := by simpa using hi
    rw [Array.getElem?_setIfInBounds]
    by_cases hii : idx = i
    · subst hii
      rw [if_pos rfl, if_pos hidx]
      have := h.live idx hidx
      rw [ho] at this
      simpa using this
    · rw [if_neg hii]; exact h.live i hi'

theorem ag_mem_elems {t : Raw} {i : Nat} {e : Elem} (h : t.slots[i]?.join = some e) :
    e ∈ t.elems := by
  have hi : i < t.slots.size := by
    by_contra hn
    rw [Array.getElem?_eq_none (by omega)] at h
    cases h
  rw [Raw.elems, List.mem_filterMap]
  refine ⟨some e, ?_, rfl⟩
  rw [Array.getElem?_eq_getElem hi] at h
  have : t.slots[i] = some e := by simpa using h
  rw [← this]
  exact Array.getElem_mem_toList hi

theorem ag_dropKeyR (env : Env) (kid : Nat) (w : World) :
    (∃ w', dropKeyR cfg env kid w = .ok w' ∧ w'.t = w.t ∧
        w'.log = (if cfg.needsDrop then [Ev.dropK kid] else []) ++ w.log) ∨
    (∃ w', dropKeyR cfg env kid w = .panic "drop" w' ∧ w'.t = w.t ∧
        w'.log = (if cfg.needsDrop then [Ev.dropK kid] else []) ++ w.log) := by
  unfold dropKeyR dropKey
  cases hn : cfg.needsDrop with
  | false => left; exact ⟨w, by simp, rfl, by simp⟩
  | true =>
    cases hd : env.dropPanics w.dc ⟨0, kid, 0, 0⟩ with
    | false =>
      left
      exact ⟨{ w with dc := w.dc + 1, log := .dropK kid :: w.log }, by simp, rfl, by simp⟩
    | true =>
      right
      exact ⟨{ w with dc := w.dc + 1, log := .dropK kid :: w.log }, by simp, rfl, by simp⟩

/-- `HashMap::insert`. -/
theorem Map.insert_inv (hc : CfgOk cfg) (hp : ProbeCovers cfg) (env : Env) (e : Elem) (w : World)
    (h : TInv cfg w.t) :
    match Map.insert cfg env e w with
    | .ok (none, w') =>
      TInv cfg w'.t ∧ w'.t.items = w.t.items + 1 ∧ List.Perm w'.t.elems (e :: w.t.elems) ∧
      (∀ ev ∈ w'.log, AllocOnly w.log ev)
    | .ok (some (_, _), w') =>
      TInv cfg w'.t ∧ w'.t.items = w.t.items ∧ w'.t.elems.length = w.t.elems.length ∧
      ∃ l, w'.log = (if cfg.needsDrop then [Ev.dropK e.kid] else []) ++ l ∧
        ∀ ev ∈ l, AllocOnly w.log ev
    | .panic c w' =>
      (c = "hash" ∨ c = "eq" ∨ c = "capacity" ∨ c = "drop") ∧
      ((c = "hash" → GuardRuns cfg) → TInv cfg w'.t)
    | .abort => True
    | .fault _ => False := by
  unfold Map.insert
  cases hh : env.hash w.hc e.k with
  | none =>
    simp only [ag_makeHash_none hh, bind, Res.bind, Res.onPanic]
    exact ⟨by simp, fun _ => by rw [dropElemQuiet_t]; exact h⟩
  | some hv =>
    simp only [ag_makeHash_some hh, bind, Res.bind]
    have hf := findOrFindInsertSlot_spec hc hp env hv e.k { w with hc := w.hc + 1 } h
    cases hr : findOrFindInsertSlot cfg env hv e.k { w with hc := w.hc + 1 } with
    | ok pr =>
      obtain ⟨r, w2⟩ := pr
      rw [hr] at hf
      cases r with
      | ok idx =>
        obtain ⟨a1, a2, a3, ⟨old, a4⟩, a5, a6, a7⟩ := hf
        simp only [pure, Res.onPanic, slotGet_ok a4]
        obtain ⟨e', he'⟩ : ∃ e' : Elem, e' = { old with vid := e.vid, v := e.v } := ⟨_, rfl⟩
        rw [← he']
        have hinv' := ag_inv_slot_replace a1.1 a4 e'
        obtain ⟨t2, ht2⟩ : ∃ t2 : Raw, t2 = { w2.t with slots := w2.t.slots.setIfInBounds idx (some e') } := ⟨_, rfl⟩
        rw [← ht2] at hinv' ⊢
        have hm2 : t2.mask = w2.t.mask := by rw [ht2]
        have hi2 : t2.items = w2.t.items := by rw [ht2]
        have ht' : TInv cfg t2 := a1.of_inv hinv' hm2
        have hlen : w2.t.elems.length = w.t.elems.length := a5.length_eq
        rcases ag_dropKeyR (cfg := cfg) env e.kid { w2 with t := t2 } with
          ⟨w3, d1, d2, d3⟩ | ⟨w3, d1, d2, d3⟩
        · rw [d1]
          refine ⟨by rw [d2]; exact ht', by rw [d2]; exact hi2.trans a6, ?_, w2.log, d3, a7⟩
          rw [d2]
          show t2.elems.length = _
          rw [← ag_items_eq_length hc hinv', hi2, ← hlen, ← ag_items_eq_length hc a1.1]
        · rw [d1]
          exact ⟨by simp, fun _ => by rw [d2]; exact ht'⟩
      | error slot =>
        obtain ⟨a1, a2, a3, a4, _, a6, a7, a8, a9⟩ := hf
        simp only [pure, Res.onPanic]
        obtain ⟨t', b1, b2, _, _, b5, b6, _, _⟩ := ag_insertInSlot hc a1 a6 a2 a3 a4 e hv
        simp only [b1]
        exact ⟨b2, by rw [b5, a8], b6.trans (List.Perm.cons e a7), a9⟩
    | panic c w' =>
      rw [hr] at hf
      simp only [Res.onPanic]
      rw [dropElemQuiet_t]
      rcases hf with ⟨f1, f2⟩ | ⟨f1, _, f3⟩ | ⟨f1, f2, _⟩
      · exact ⟨Or.inr (Or.inr (Or.inl f1)), fun _ => by rw [f2]; exact h⟩
      · exact ⟨Or.inl f1, fun hg => (f3 (hg f1)).1⟩
      · exact ⟨Or.inr (Or.inl f1), fun _ => f2⟩
    | abort => simp only [Res.onPanic]
    | fault f => rw [hr] at hf; exact hf.elim

/-- `get_inner`: a pure look-up. -/
theorem ag_getInner (hc : CfgOk cfg) (hp : ProbeCovers cfg) (env : Env) (k : Nat) (w : World)
    (h : Inv cfg w.t) :
    (∃ r w', Map.getInner cfg env k w = .ok (r, w') ∧ w'.t = w.t ∧ w'.log = w.log ∧
      ∀ idx, r = some idx → idx < w.t.buckets ∧ isFull (w.t.ctrlAt idx) = true ∧
        ∃ x, w.t.slots[idx]?.join = some x) ∨
    (∃ c w', Map.getInner cfg env k w = .panic c w' ∧ w'.t = w.t ∧ w'.log = w.log ∧
      (c = "hash" ∨ c = "eq")) := by
  unfold Map.getInner
  by_cases h0 : w.t.items = 0
  · rw [if_pos h0]
    exact Or.inl ⟨none, w, rfl, rfl, rfl, fun _ hn => by cases hn⟩
  · rw [if_neg h0]
    cases hh : env.hash w.hc k with
    | none =>
      simp only [ag_makeHash_none hh, bind, Res.bind]
      exact Or.inr ⟨_, _, rfl, rfl, rfl, Or.inl rfl⟩
    | some hv =>
      simp only [ag_makeHash_some hh, bind, Res.bind]
      rcases find_total hc hp env hv k { w with hc := w.hc + 1 } h with
        ⟨r, w', k1, k2, k3, _, k5⟩ | ⟨w', k1, k2, k3⟩
      · exact Or.inl ⟨r, w', k1, k2, k3, k5⟩
      · exact Or.inr ⟨_, w', k1, k2, k3, Or.inr rfl⟩

/-- `HashMap::get` / `get_key_value` / `contains_key`: the table is untouched whatever happens; a
    returned element is one of the stored elements. -/
theorem Map.get_inv (hc : CfgOk cfg) (hp : ProbeCovers cfg) (env : Env) (k : Nat) (w : World)
    (h : TInv cfg w.t) :
    match Map.get cfg env k w with
    | .ok (r, w') => w'.t = w.t ∧ w'.log = w.log ∧ TInv cfg w'.t ∧ ∀ x, r = some x → x ∈ w.t.elems
    | .panic c w' => (c = "hash" ∨ c = "eq") ∧ w'.t = w.t ∧ w'.log = w.log ∧ TInv cfg w'.t
    | .abort => False
    | .fault _ => False := by
  unfold Map.get
  rcases ag_getInner hc hp env k w h.1 with ⟨r, w', k1, k2, k3, k4⟩ | ⟨c, w', k1, k2, k3, k4⟩
  · simp only [k1, bind, Res.bind]
    cases r with
    | none => exact ⟨k2, k3, by rw [k2]; exact h, fun _ hn => by cases hn⟩
    | some idx =>
      obtain ⟨_, _, x, hx⟩ := k4 idx rfl
      rw [← k2] at hx
      simp only [slotGet_ok hx, liftE, pure]
      refine ⟨k2, k3, by rw [k2]; exact h, fun y hy => ?_⟩
      cases hy
      rw [k2] at hx
      exact ag_mem_elems hx
  · simp only [k1, bind, Res.bind]
    exact ⟨k4, k2, k3, by rw [k2]; exact h⟩

/-- `get_mut(k).map(|v| *v = nv)`: only a payload is overwritten. -/
theorem Map.getMut_inv (hc : CfgOk cfg) (hp : ProbeCovers cfg) (env : Env) (k nv : Nat) (w : World)
    (h : TInv cfg w.t) :
    match Map.getMut cfg env k nv w with
    | .ok (r, w') =>
      TInv cfg w'.t ∧ w'.log = w.log ∧ w'.t.items = w.t.items ∧
      w'.t.elems.length = w.t.elems.length ∧ (r = none → w'.t = w.t)
    | .panic c w' => (c = "hash" ∨ c = "eq") ∧ w'.t = w.t ∧ w'.log = w.log ∧ TInv cfg w'.t
    | .abort => False
    | .fault _ => False := by
  unfold Map.getMut
  rcases ag_getInner hc hp env k w h.1 with ⟨r, w', k1, k2, k3, k4⟩ | ⟨c, w', k1, k2, k3, k4⟩
  · simp only [k1, bind, Res.bind]
    cases r with
    | none => exact ⟨by rw [k2]; exact h, k3, by rw [k2], by rw [k2], fun _ => k2⟩
    | some idx =>
      obtain ⟨_, _, x, hx⟩ := k4 idx rfl
      rw [← k2] at hx
      simp only [slotGet_ok hx, liftE, pure]
      obtain ⟨e', he'⟩ : ∃ e' : Elem, e' = { x with v := nv } := ⟨_, rfl⟩
      rw [← he']
      have h1 : Inv cfg w'.t := by rw [k2]; exact h.1
      have hinv' := ag_inv_slot_replace h1 hx e'
      refine ⟨?_, k3, by rw [← k2], ?_, fun hn => by cases hn⟩
      · exact (show TInv cfg w'.t by rw [k2]; exact h).of_inv hinv' rfl
      · show (Raw.elems { w'.t with slots := w'.t.slots.setIfInBounds idx (some e') }).length = _
        rw [← ag_items_eq_length hc hinv', ← ag_items_eq_length hc h.1, ← k2]
  · simp only [k1, bind, Res.bind]
    exact ⟨k4, k2, k3, by rw [k2]; exact h⟩

/-- `remove_entry`. -/
theorem Map.removeEntry_inv (hc : CfgOk cfg) (hp : ProbeCovers cfg) (env : Env) (k : Nat)
    (w : World) (h : TInv cfg w.t) :
    match Map.removeEntry cfg env k w with
    | .ok (none, w') => w'.t = w.t ∧ w'.log = w.log ∧ TInv cfg w'.t
    | .ok (some x, w') =>
      TInv cfg w'.t ∧ w'.log = w.log ∧ w'.t.items + 1 = w.t.items ∧
      List.Perm (x :: w'.t.elems) w.t.elems ∧ w'.t.mask = w.t.mask
    | .panic c w' => (c = "hash" ∨ c = "eq") ∧ w'.t = w.t ∧ w'.log = w.log ∧ TInv cfg w'.t
    | .abort => False
    | .fault _ => False := by
  unfold Map.removeEntry
  cases hh : env.hash w.hc k with
  | none =>
    simp only [ag_makeHash_none hh, bind, Res.bind]
    exact ⟨by simp, trivial, trivial, h⟩
  | some hv =>
    simp only [ag_makeHash_some hh, bind, Res.bind]
    rcases find_total hc hp env hv k { w with hc := w.hc + 1 } h.1 with
      ⟨r, w', k1, k2, k3, _, k5⟩ | ⟨w', k1, k2, k3⟩
    · rw [k1]
      cases r with
      | none => exact ⟨k2, k3, by rw [k2]; exact h⟩
      | some idx =>
        obtain ⟨b1, b2, _⟩ := k5 idx rfl
        obtain ⟨x, t', r1, r2, r3, r4, _, r6, r7, _⟩ := removeAt_inv hc h.1 b1 b2
        have k2' : w'.t = w.t := k2
        simp only [k2', r1, liftE, pure]
        have hslot : w.t.slots[idx]? = some (some x) := by
          have hi : idx < w.t.slots.size := by
            by_contra hn
            rw [Array.getElem?_eq_none (by omega)] at r2
            cases r2
          rw [Array.getElem?_eq_getElem hi] at r2 ⊢
          simpa using r2
        exact ⟨h.of_inv r3 r4, k3, r6, elems_take_perm hslot r7, r4⟩
    · rw [k1]
      exact ⟨by simp, k2, k3, by rw [k2]; exact h⟩

/-- `remove`: `remove_entry`, then the stored key is dropped. -/
theorem Map.remove_inv (hc : CfgOk cfg) (hp : ProbeCovers cfg) (env : Env) (k : Nat)
    (w : World) (h : TInv cfg w.t) :
    match Map.remove cfg env k w with
    | .ok (none, w') => w'.t = w.t ∧ w'.log = w.log ∧ TInv cfg w'.t
    | .ok (some _, w') =>
      TInv cfg w'.t ∧ w'.t.items + 1 = w.t.items ∧
      ∃ x, List.Perm (x :: w'.t.elems) w.t.elems ∧
        w'.log = (if cfg.needsDrop then [Ev.dropK x.kid] else []) ++ w.log
    | .panic c w' =>
      ((c = "hash" ∨ c = "eq") ∧ w'.t = w.t ∧ w'.log = w.log ∧ TInv cfg w'.t) ∨
      (c = "drop" ∧ TInv cfg w'.t ∧ w'.t.items + 1 = w.t.items ∧
        ∃ x, List.Perm (x :: w'.t.elems) w.t.elems ∧
          w'.log = (if cfg.needsDrop then [Ev.dropK x.kid] else []) ++ w.log)
    | .abort => False
    | .fault _ => False := by
  unfold Map.remove
  have hre := Map.removeEntry_inv hc hp env k w h
  cases hr : Map.removeEntry cfg env k w with
  | ok pr =>
    obtain ⟨r, w1⟩ := pr
    rw [hr] at hre
    simp only [bind, Res.bind]
    cases r with
    | none => exact hre
    | some x =>
      obtain ⟨a1, a2, a3, a4, _⟩ := hre
      rcases ag_dropKeyR (cfg := cfg) env x.kid w1 with ⟨w2, d1, d2, d3⟩ | ⟨w2, d1, d2, d3⟩
      · simp only [d1, pure]
        exact ⟨by rw [d2]; exact a1, by rw [d2]; exact a3, x, by rw [d2]; exact a4, by rw [d3, a2]⟩
      · simp only [d1]
        refine Or.inr ⟨by simp, by rw [d2]; exact a1, by rw [d2]; exact a3, x, by rw [d2]; exact a4,
          by rw [d3, a2]⟩
  | panic c w' =>
    rw [hr] at hre
    simp only [bind, Res.bind]
    exact Or.inl hre
  | abort => rw [hr] at hre; exact hre.elim
  | fault f => rw [hr] at hre; exact hre.elim

/-! ### 7. `shrink_to` -/

/-- Log entry written when the block of `t` is released. -/
def freeEvs (cfg : Cfg) (t : Raw) : List Ev :=
  if t.alloc = true then
    [Ev.free (layoutOf cfg t.buckets).size (layoutOf cfg t.buckets).align] else []

/-- `drop_inner_table` of a detached table without elements: only the block is freed. -/
theorem ag_dropInnerTable_empty {old : Raw} (h : TInv cfg old) (hit : old.items = 0) (env : Env)
    (w : World) :
    dropInnerTable cfg env old w = .ok { w with log := freeEvs cfg old ++ w.log } := by
  have hse := h.1.isEmptySingleton_eq
  unfold dropInnerTable freeEvs
  cases ha : old.alloc with
  | false =>
    rw [ha] at hse
    simp [hse]
  | true =>
    rw [ha] at hse
    have hfb := freeBuckets_ok h.2 ha w
    simp only [hse, Bool.not_true, Bool.false_eq_true, if_false, dropElements, hit, ne_eq,
      not_true_eq_false, and_false, if_true]
    exact hfb

theorem ag_elems_nil (hc : CfgOk cfg) {t : Raw} (h : Inv cfg t) (hit : t.items = 0) :
    t.elems = [] :=
  List.eq_nil_of_length_eq_zero (by rw [← ag_items_eq_length hc h, hit])

theorem ag_mem_freeEvs {t : Raw} {ev : Ev} (h : ev ∈ freeEvs cfg t) :
    ∃ s a, ev = .alloc s a ∨ ev = .free s a := by
  unfold freeEvs at h
  split at h
  · rw [List.mem_singleton] at h
    exact ⟨_, _, Or.inr h⟩
  · cases h

/-- `RawTable::shrink_to(m)` (C08, shrink clause): never a fault; the elements and `len` are kept,
    the bucket count never grows, the capacity afterwards still covers
    `max(len, min(m, old capacity))`; with `len = 0` and `m = 0` the table becomes the unallocated
    singleton and the old block is freed; whenever the result is allocated its bucket count is at
    most `capacity_to_buckets(max(len, m))` (it shrinks as far as possible). -/
theorem shrinkTo_spec (hc : CfgOk cfg) (hp : ProbeCovers cfg) (env : Env) (m : Nat) (w : World)
    (h : TInv cfg w.t) :
    match shrinkTo cfg env m w with
    | .ok w' =>
      TInv cfg w'.t ∧ List.Perm w'.t.elems w.t.elems ∧ w'.t.items = w.t.items ∧
      w'.t.buckets ≤ w.t.buckets ∧
      max w.t.items (min m (w.t.items + w.t.gl)) ≤ w'.t.items + w'.t.gl ∧
      (w' = w ∨ max w.t.items m ≤ w'.t.items + w'.t.gl) ∧
      ((w.t.items = 0 ∧ m = 0) → w'.t = Raw.new cfg.W ∧ w'.log = freeEvs cfg w.t ++ w.log) ∧
      (w'.t.alloc = true → ∀ b,
        capacityToBuckets cfg.bits cfg.W cfg.size (max w.t.items m) = some b → w'.t.buckets ≤ b) ∧
      (∀ ev ∈ w'.log, AllocOnly w.log ev)
    | .panic c w' => ((c = "capacity" ∧ w' = w) ∨ c = "hash") ∧ w'.t = w.t ∧ TInv cfg w'.t
    | .abort => True
    | .fault _ => False := by
  unfold shrinkTo
  simp only
  by_cases hz : max w.t.items m = 0
  · rw [if_pos hz]
    have hit : w.t.items = 0 := by omega
    have hm0 : m = 0 := by omega
    rw [ag_dropInnerTable_empty h hit]
    have hel := ag_elems_nil hc h.1 hit
    refine ⟨TInv.new hc, by rw [hel]; exact List.Perm.refl _, hit.symm, ?_, by omega, Or.inr (by omega),
      fun _ => ⟨rfl, rfl⟩, fun ha => (by cases ha), ?_⟩
    · show (0 : Nat) + 1 ≤ w.t.mask + 1
      omega
    · intro ev hev
      rcases List.mem_append.mp hev with hev | hev
      · exact Or.inr (ag_mem_freeEvs hev)
      · exact Or.inl hev
  · rw [if_neg hz]
    have hsame : TInv cfg w.t ∧ List.Perm w.t.elems w.t.elems ∧ w.t.items = w.t.items ∧
        w.t.buckets ≤ w.t.buckets ∧
        max w.t.items (min m (w.t.items + w.t.gl)) ≤ w.t.items + w.t.gl ∧
        (w = w ∨ max w.t.items m ≤ w.t.items + w.t.gl) ∧
        ((w.t.items = 0 ∧ m = 0) → w.t = Raw.new cfg.W ∧ w.log = freeEvs cfg w.t ++ w.log) :=
      ⟨h, List.Perm.refl _, rfl, Nat.le_refl _, by omega, Or.inl rfl, fun hx => by omega⟩
    cases hcb : capacityToBuckets cfg.bits cfg.W cfg.size (max w.t.items m) with
    | none =>
      obtain ⟨s1, s2, s3, s4, s5, s6, s7⟩ := hsame
      exact ⟨s1, s2, s3, s4, s5, s6, s7, fun _ b hb => (by cases hb), fun ev hev => Or.inl hev⟩
    | some mb =>
      simp only
      by_cases hlt : mb < w.t.buckets
      · rw [if_pos hlt]
        by_cases hit : w.t.items = 0
        · rw [if_pos hit]
          have hel := ag_elems_nil hc h.1 hit
          have hfw := fallibleWithCapacity_spec hc env (max w.t.items m) .infallible w
          cases hr : fallibleWithCapacity cfg env (max w.t.items m) .infallible w with
          | ok pr =>
            obtain ⟨r, w1⟩ := pr
            rw [hr] at hfw
            cases r with
            | ok new =>
              have hlo := fallibleWithCapacity_layoutOk hc hr
              obtain ⟨a1, a2, a3, _, a5⟩ := hfw
              rw [if_neg hz] at a5
              obtain ⟨b1, b2, _, _, b5, _, l, _, b8⟩ := a5
              have ht1 : w1.t = w.t := by rw [b8]
              simp only [ht1]
              rw [ag_dropInnerTable_empty h hit]
              rw [hcb] at b5
              have hnb : new.buckets = mb := (Option.some.inj b5).symm
              refine ⟨⟨a1, hlo⟩, by rw [hel]; exact a3 ▸ List.Perm.refl _, by rw [hit]; exact a2,
                by show new.buckets ≤ _; omega, ?_, Or.inr ?_, fun hx => by omega,
                fun _ b hb => ?_, ?_⟩
              · show _ ≤ new.items + new.gl
                omega
              · show _ ≤ new.items + new.gl
                omega
              · cases hb
                show new.buckets ≤ _
                omega
              · intro ev hev
                rcases List.mem_append.mp hev with hev | hev
                · exact Or.inr (ag_mem_freeEvs hev)
                · rw [b8] at hev
                  rcases List.mem_cons.mp hev with rfl | hev
                  · exact Or.inr ⟨_, _, Or.inl rfl⟩
                  · exact Or.inl hev
            | error e => exact absurd hfw.1 (by decide)
          | panic c w' =>
            rw [hr] at hfw
            obtain ⟨a1, a2, _⟩ := hfw
            exact ⟨Or.inl ⟨a1, a2⟩, by rw [a2], by rw [a2]; exact h⟩
          | abort => trivial
          | fault f => rw [hr] at hfw; exact hfw.elim
        · rw [if_neg hit]
          have hsp := resizeInner_post hc hp env (max w.t.items m) .infallible w h.1 h.2 (by omega)
          cases hr : resizeInner cfg env (max w.t.items m) .infallible w with
          | ok pr =>
            obtain ⟨r, w'⟩ := pr
            rw [hr] at hsp
            cases r with
            | ok u =>
              cases u
              obtain ⟨a1, a2, a3, _, a5, a6, a7, a8, _⟩ := hsp
              rw [if_neg hz] at a6
              obtain ⟨_, b2, _⟩ := a6
              rw [hcb] at b2
              have hnb : w'.t.buckets = mb := (Option.some.inj b2).symm
              have hcap : max w.t.items m ≤ w'.t.items + w'.t.gl := by
                rcases a5 with a5 | a5
                · exact absurd a5 hz
                · exact a5
              refine ⟨⟨a1, a2⟩, a7, a3, by omega, by omega, Or.inr hcap, fun hx => by omega,
                fun _ b hb => ?_, a8⟩
              cases hb
              omega
            | error e => exact absurd hsp.1 (by decide)
          | panic c w' =>
            rw [hr] at hsp
            rcases hsp with ⟨a1, _, a3⟩ | ⟨a1, _, a3, _⟩
            · exact ⟨Or.inl ⟨a1, a3⟩, by rw [a3], by rw [a3]; exact h⟩
            · exact ⟨Or.inr a1, a3, by rw [a3]; exact h⟩
          | abort => trivial
          | fault f => rw [hr] at hsp; exact hsp.elim
      · rw [if_neg hlt]
        obtain ⟨s1, s2, s3, s4, s5, s6, s7⟩ := hsame
        refine ⟨s1, s2, s3, s4, s5, s6, s7, fun _ b hb => ?_, fun ev hev => Or.inl hev⟩
        cases hb
        omega

/-! ### 8. `with_capacity` -/

/-- `RawTable::with_capacity(n)` (whatever table the world held before): the new table satisfies
    `TInv`, is empty, has capacity `≥ n`; `n = 0` allocates nothing. -/
theorem withCapacity_spec (hc : CfgOk cfg) (env : Env) (n : Nat) (w : World) :
    match withCapacity cfg env n w with
    | .ok w' =>
      TInv cfg w'.t ∧ n ≤ w'.t.items + w'.t.gl ∧ w'.t.items = 0 ∧ w'.t.elems = [] ∧
      (n = 0 → w'.t = Raw.new cfg.W ∧ w'.log = w.log) ∧ (∀ ev ∈ w'.log, AllocOnly w.log ev)
    | .panic c w' => c = "capacity" ∧ w' = w
    | .abort => env.allocOk w.ac = false
    | .fault _ => False := by
  unfold withCapacity
  have hfw := fallibleWithCapacity_spec hc env n .infallible w
  cases hr : fallibleWithCapacity cfg env n .infallible w with
  | ok pr =>
    obtain ⟨r, w1⟩ := pr
    rw [hr] at hfw
    cases r with
    | ok new =>
      have hlo := fallibleWithCapacity_layoutOk hc hr
      obtain ⟨a1, a2, a3, _, a5⟩ := hfw
      by_cases h0 : n = 0
      · rw [if_pos h0] at a5
        obtain ⟨b1, b2⟩ := a5
        refine ⟨⟨a1, hlo⟩, by show n ≤ new.items + new.gl; omega, a2, a3, fun _ => ⟨b1, by rw [b2]⟩, ?_⟩
        intro ev hev
        rw [b2] at hev
        exact Or.inl hev
      · rw [if_neg h0] at a5
        obtain ⟨_, b2, _, _, _, _, l, _, b8⟩ := a5
        refine ⟨⟨a1, hlo⟩, by show n ≤ new.items + new.gl; omega, a2, a3, fun hx => absurd hx h0, ?_⟩
        intro ev hev
        rw [b8] at hev
        rcases List.mem_cons.mp hev with rfl | hev
        · exact Or.inr ⟨_, _, Or.inl rfl⟩
        · exact Or.inl hev
    | error e => exact absurd hfw.1 (by decide)
  | panic c w' => rw [hr] at hfw; exact ⟨hfw.1, hfw.2.1⟩
  | abort => rw [hr] at hfw; exact hfw.2.1
  | fault f => rw [hr] at hfw; exact hfw.elim

/-! ### 9. `capacity`, `allocation_size` -/

theorem capacity_ge_len (t : Raw) : t.capacity = t.items + t.gl ∧ t.items ≤ t.capacity :=
  ⟨rfl, Nat.le_add_right _ _⟩

/-- `allocation_size`: `0` for the singleton, otherwise the size of the layout of the table's own
    bucket count (the `unreachable_unchecked` arm is never taken). -/
theorem allocationSize_spec {t : Raw} (h : TInv cfg t) :
    allocationSize cfg t = .ok (if t.alloc then (layoutOf cfg t.buckets).size else 0) := by
  have hse := h.1.isEmptySingleton_eq
  unfold allocationSize
  cases ha : t.alloc with
  | false =>
    rw [ha] at hse
    simp [hse]
  | true =>
    rw [ha] at hse
    have hl := h.2 ha
    cases hcl : calculateLayoutFor cfg.bits cfg.W cfg.size (ctrlAlignOf cfg) t.buckets with
    | none => rw [hcl] at hl; cases hl
    | some l => simp [hse, layoutOf_eq hcl]

/-! ### `HashMap::reserve` / `try_reserve` wrappers -/

theorem Map.reserve_eq (env : Env) (n : Nat) (w : World) :
    Map.reserve cfg env n w = Hb.reserve cfg env n w := rfl

/-- `HashMap::try_reserve` (C12): `None` ⇒ capacity covers the request; `Some err` ⇒ table and log
    unchanged; only a hasher panic can unwind. -/
theorem Map.tryReserve_spec (hc : CfgOk cfg) (hp : ProbeCovers cfg) (env : Env) (n : Nat)
    (w : World) (h : TInv cfg w.t) :
    match Map.tryReserve cfg env n w with
    | .ok (none, w') =>
      TInv cfg w'.t ∧ w'.t.items = w.t.items ∧ List.Perm w'.t.elems w.t.elems ∧
      w.t.items + n ≤ w'.t.items + w'.t.gl ∧ (∀ ev ∈ w'.log, AllocOnly w.log ev) ∧
      (n ≤ w.t.gl → w' = w)
    | .ok (some e, w') =>
      w'.t = w.t ∧ w'.log = w.log ∧ w.t.gl < n ∧
      (e = .capacityOverflow ∨
       ∃ b, capacityToBuckets cfg.bits cfg.W cfg.size
              (max (w.t.items + n) (bucketMaskToCapacity w.t.mask + 1)) = some b ∧
         e = .allocError (layoutOf cfg b).size (layoutOf cfg b).align ∧ env.allocOk w.ac = false)
    | .panic c w' =>
      c = "hash" ∧ w'.t.mask = w.t.mask ∧
        (GuardRuns cfg → TInv cfg w'.t ∧ ∃ ds, List.Perm (w'.t.elems ++ ds) w.t.elems ∧
          ∀ ev ∈ w'.log, AllocOnly w.log ev ∨ ev ∈ dropEvs cfg ds)
    | .abort => False
    | .fault _ => False := by
  unfold Map.tryReserve
  have hsp := Hb.tryReserve_spec hc hp env n w h
  cases hr : Hb.tryReserve cfg env n w with
  | ok pr =>
    obtain ⟨r, w'⟩ := pr
    rw [hr] at hsp
    simp only [bind, Res.bind]
    cases r with
    | ok u =>
      cases u
      obtain ⟨a1, a2, a3, a4, _, a6, a7⟩ := hsp
      exact ⟨a1, a2, a3, a4, a6, a7⟩
    | error e => exact hsp
  | panic c w' => rw [hr] at hsp; exact hsp
  | abort => rw [hr] at hsp; exact hsp.elim
  | fault f => rw [hr] at hsp; exact hsp.elim

#print axioms reserveRehash_fault_singleton_zero
#print axioms reserveRehash_spec_partial
#print axioms reserve_spec
#print axioms tryReserve_spec
#print axioms no_alloc_within_capacity
#print axioms rawInsert_spec
#print axioms rawInsert_no_alloc
#print axioms insertNoGrow_spec
#print axioms findOrFindInsertSlot_spec
#print axioms Map.insert_inv
#print axioms Map.get_inv
#print axioms Map.getMut_inv
#print axioms Map.removeEntry_inv
#print axioms Map.remove_inv
#print axioms shrinkTo_spec
#print axioms withCapacity_spec
#print axioms capacity_ge_len
#print axioms allocationSize_spec
#print axioms Map.tryReserve_spec

end Hb
