/-
History theorem for `HashTable<T>` (property C06): every history of `TableOp`s
(`Hb/Model/TableOpsH.lean`) run from `HashTable::new()` is related, call by call, to a reference
MULTISET of elements (`List Elem` up to `List.Perm`), for arbitrary equality closures / predicates /
destructors / allocators and every hash function `H` that the re-hash closure implements.

  §0  `th_reserve_panic` …      under `hh` growth unwinds only with "capacity", world untouched
  §1  `TRef.Core/Step/Trace`    the reference; `TableOp.contract` the side conditions
  §2  `th_find` … `th_lenOp`    one lemma per call: every outcome (`.ok`, every caught panic, `.abort`
                                only when the allocator refuses, never `.fault`) against `TRef.Core`
  §3  `stepH_refines`, `runH_refines_from`
  §4  `table_history_refines`;  `TRef.Step.find_lawful` (lawful closures: fully determined)
  §5  the four corollaries in the words of the property
  §6  non-vacuity: concrete histories evaluated through `Table.runH` on both scanners

Abort: `Table.runH` ends a history at `handle_alloc_error` (`none`, like `Map.runX`). No hypothesis on
the allocator is needed for the refinement (it is stated for every prefix that ran to its end);
`(∀ j, env.allocOk j = true)` is only the premise of "every history runs to its end".
-/
import Hb.Model.TableOpsH
import Hb.Proofs.TableSpec
import Hb.Proofs.ApiBulk
import Hb.Proofs.Probe
import Hb.Proofs.Refine
import Mathlib.Data.List.Perm.Subperm
namespace Hb

variable {cfg : Cfg}

/-! ## 0. the re-hash closure never panics (`hh`) ⇒ growth only panics with "capacity" -/

theorem th_resizeLoop_no_panic {env : Env} {H : Nat → Nat} (hh : ∀ c k, env.hash c k = some (H k))
    (old : Raw) : ∀ (idxs : List Nat) (new : Raw) (w : World) (c : String) (w' : World),
      resizeLoop cfg env old idxs new w ≠ .panic c w' := by
  intro idxs
  induction idxs with
  | nil => intro new w c w' h; simp [resizeLoop] at h
  | cons i rest ih =>
    intro new w c w' h
    rw [resizeLoop] at h
    simp only [World.hashCall, hh] at h
    repeat' split at h
    all_goals first
      | cases h
      | exact ih _ _ _ _ h

theorem th_resizeInner_panic_src {env : Env} {H : Nat → Nat} (hh : ∀ c k, env.hash c k = some (H k))
    {capacity : Nat} {fb : Fallibility} {w : World} {c : String} {w' : World}
    (h : resizeInner cfg env capacity fb w = .panic c w') :
    fallibleWithCapacity cfg env capacity fb w = .panic c w' := by
  unfold resizeInner at h
  split at h
  · rename_i c0 w0 hr
    cases h
    exact hr
  · cases h
  · cases h
  · cases h
  · rename_i new w1 hr
    simp only at h
    split at h
    · cases h
    · split at h
      · rename_i c1 w1' hrl
        exact absurd hrl (th_resizeLoop_no_panic hh _ _ _ _ _ _)
      · cases h
      · cases h
      · split at h
        · cases h
        · split at h
          · cases h
          · have hfree : ∀ m w0, freeBuckets cfg m w0 ≠ .panic c w' := by
              intro m w0 hfb
              simp only [freeBuckets] at hfb
              split at hfb <;> cases hfb
            split at h
            all_goals first
              | (cases h; done)
              | (rename_i hfb; cases h; exact absurd hfb (hfree _ _))

theorem th_resizeInner_panic (hc : CfgOk cfg) {env : Env} {H : Nat → Nat}
    (hh : ∀ c k, env.hash c k = some (H k))
    {capacity : Nat} {fb : Fallibility} {w : World} {c : String} {w' : World}
    (h : resizeInner cfg env capacity fb w = .panic c w') :
    c = "capacity" ∧ w' = w := by
  have hfw := fallibleWithCapacity_spec hc env capacity fb w
  rw [th_resizeInner_panic_src hh h] at hfw
  exact ⟨hfw.1, hfw.2.1⟩

theorem th_rehashInner_no_panic {env : Env} {H : Nat → Nat} (hh : ∀ c k, env.hash c k = some (H k))
    (i : Nat) : ∀ (fuel : Nat) (w : World) (c : String) (w' : World),
      rehashInner cfg env i fuel w ≠ .panic c w' := by
  intro fuel
  induction fuel with
  | zero => intro w c w' h; simp [rehashInner] at h
  | succ n ih =>
    intro w c w' h
    rw [rehashInner] at h
    simp only [World.hashCall, hh] at h
    repeat' split at h
    all_goals first
      | cases h
      | exact ih _ _ _ h

theorem th_rehashOuter_no_panic {env : Env} {H : Nat → Nat} (hh : ∀ c k, env.hash c k = some (H k)) :
    ∀ (fuel i : Nat) (w : World) (c : String) (w' : World),
      rehashOuter cfg env fuel i w ≠ .panic c w' := by
  intro fuel
  induction fuel with
  | zero => intro i w c w' h; simp [rehashOuter] at h
  | succ n ih =>
    intro i w c w' h
    rw [rehashOuter] at h
    split at h
    · cases h
    · split at h
      · split at h
        · exact ih _ _ _ _ h
        · exact th_rehashInner_no_panic hh _ _ _ _ _ h
      · exact ih _ _ _ _ h

theorem th_rehashInPlace_no_panic {env : Env} {H : Nat → Nat}
    (hh : ∀ c k, env.hash c k = some (H k)) (w : World)
    (c : String) (w' : World) : rehashInPlace cfg env w ≠ .panic c w' := by
  intro h
  unfold rehashInPlace at h
  split at h
  · cases h
  · split at h
    · simp only at h
      split at h <;> cases h
    · exact th_rehashOuter_no_panic hh _ _ _ _ _ h

theorem th_reserveRehash_panic (hc : CfgOk cfg) {env : Env} {H : Nat → Nat}
    (hh : ∀ c k, env.hash c k = some (H k)) {n : Nat} {fb : Fallibility} {w : World} {c : String}
    {w' : World} (h : reserveRehash cfg env n fb w = .panic c w') : c = "capacity" ∧ w' = w := by
  unfold reserveRehash at h
  cases hca : checkedAdd cfg.bits w.t.items n with
  | none =>
    rw [hca] at h
    cases fb <;> simp [capacityOverflow] at h
    exact ⟨h.1.symm, h.2.symm⟩
  | some newItems =>
    rw [hca] at h
    simp only at h
    split at h
    · split at h
      · cases h
      · rename_i hr
        cases h
        exact absurd hr (th_rehashInPlace_no_panic hh _ _ _)
      · cases h
      · cases h
    · exact th_resizeInner_panic hc hh h

/-- Under `hh`, `reserve` unwinds only with the capacity-overflow panic, world untouched. -/
theorem th_reserve_panic (hc : CfgOk cfg) {env : Env} {H : Nat → Nat}
    (hh : ∀ c k, env.hash c k = some (H k)) {n : Nat} {w : World} {c : String} {w' : World}
    (h : reserve cfg env n w = .panic c w') : c = "capacity" ∧ w' = w := by
  unfold reserve at h
  split at h
  · split at h
    · cases h
    · cases h
    · rename_i hr
      cases h
      exact th_reserveRehash_panic hc hh hr
    · cases h
    · cases h
  · cases h

/-! ## 1. the reference: a multiset of elements -/

namespace TRef

/-- The closure `|x| eq(q, x)` answered `true` on `x` at some call. -/
def Acc (ev : Env) (q : Nat) (x : Elem) : Prop := ∃ c, ev.eq c q x = some true

/-- A look-up may answer "absent" only if no stored element inserted with `hash` is accepted by the
    closure at every call. -/
def NoneOk (H : Nat → Nat) (ev : Env) (hash q : Nat) (l : List Elem) : Prop :=
  ∀ x ∈ l, H x.k = hash → ¬ ∀ c, ev.eq c q x = some true

/-- The closure can panic. -/
def CanPanic (ev : Env) (q : Nat) : Prop := ∃ x c, ev.eq c q x = none

/-- `Core cfg H ev l op o l'`: on the stored elements `l` (in the order in which the bulk calls
    visit them) call `op` may be observed as `o` and leave `l'`. `ev` supplies the closures
    (`ev.eq call probe element`, `ev.pred call element`), `cfg` only says whether `T` is zero-sized
    (`Table.setV`). Look-ups with arbitrary closures are under-determined: they return SOME stored
    element the closure accepted, or `None` only if `NoneOk`. -/
inductive Core (cfg : Cfg) (H : Nat → Nat) (ev : Env) : List Elem → TableOp → Table.TObs → List Elem → Prop
  | find_some {l hash q x} : x ∈ l → Acc ev q x → Core cfg H ev l (.find hash q) (.ret (.elem (some x))) l
  | find_none {l hash q} : NoneOk H ev hash q l → Core cfg H ev l (.find hash q) (.ret (.elem none)) l
  | find_panic {l hash q} : CanPanic ev q → Core cfg H ev l (.find hash q) (.panic "eq") l
  | findMut_some {l l' hash q nv old} : old ∈ l → Acc ev q old →
      List.Perm (old :: l') (Table.setV cfg old nv :: l) →
      Core cfg H ev l (.findMut hash q nv) (.ret (.elem (some (Table.setV cfg old nv)))) l'
  | findMut_none {l hash q nv} : NoneOk H ev hash q l →
      Core cfg H ev l (.findMut hash q nv) (.ret (.elem none)) l
  | findMut_panic {l hash q nv} : CanPanic ev q → Core cfg H ev l (.findMut hash q nv) (.panic "eq") l
  | insert_ok {l hash e} : Core cfg H ev l (.insertUnique hash e) (.ret .unit) (e :: l)
  | insert_capacity {l hash e} : Core cfg H ev l (.insertUnique hash e) (.panic "capacity") l
  | fer_none {l hash q re} : NoneOk H ev hash q l →
      Core cfg H ev l (.findEntryRemove hash q re) (.ret (.elem none)) l
  | fer_remove {l l' hash q old} : old ∈ l → Acc ev q old → List.Perm (old :: l') l →
      Core cfg H ev l (.findEntryRemove hash q none) (.ret (.elem (some old))) l'
  | fer_reinsert {l l' hash q old ne} : old ∈ l → Acc ev q old → List.Perm (old :: l') (ne :: l) →
      Core cfg H ev l (.findEntryRemove hash q (some ne)) (.ret (.elem (some old))) l'
  | fer_panic_eq {l hash q re} : CanPanic ev q →
      Core cfg H ev l (.findEntryRemove hash q re) (.panic "eq") l
  | fer_panic_drop {l hash q ne} : NoneOk H ev hash q l →
      Core cfg H ev l (.findEntryRemove hash q (some ne)) (.panic "drop") l
  | entryInsert_occ {l l' hash q ne old} : old ∈ l → Acc ev q old → List.Perm (old :: l') (ne :: l) →
      Core cfg H ev l (.entryInsert hash q ne) (.ret (.occ true)) l'
  | entryInsert_vac {l hash q ne} : NoneOk H ev hash q l →
      Core cfg H ev l (.entryInsert hash q ne) (.ret (.occ false)) (ne :: l)
  | entryInsert_drop {l l' hash q ne old} : old ∈ l → Acc ev q old → List.Perm (old :: l') (ne :: l) →
      Core cfg H ev l (.entryInsert hash q ne) (.panic "drop") l'
  | entryInsert_eq {l hash q ne} : CanPanic ev q → Core cfg H ev l (.entryInsert hash q ne) (.panic "eq") l
  | entryInsert_capacity {l hash q ne} : Core cfg H ev l (.entryInsert hash q ne) (.panic "capacity") l
  | entryOrInsert_occ {l hash q ne x} : x ∈ l → Acc ev q x →
      Core cfg H ev l (.entryOrInsert hash q ne) (.ret (.occ true)) l
  | entryOrInsert_vac {l hash q ne} : NoneOk H ev hash q l →
      Core cfg H ev l (.entryOrInsert hash q ne) (.ret (.occ false)) (ne :: l)
  | entryOrInsert_drop {l hash q ne x} : x ∈ l → Acc ev q x →
      Core cfg H ev l (.entryOrInsert hash q ne) (.panic "drop") l
  | entryOrInsert_eq {l hash q ne} : CanPanic ev q →
      Core cfg H ev l (.entryOrInsert hash q ne) (.panic "eq") l
  | entryOrInsert_capacity {l hash q ne} : Core cfg H ev l (.entryOrInsert hash q ne) (.panic "capacity") l
  | entryAndModify_occ {l l' hash q nv old} : old ∈ l → Acc ev q old →
      List.Perm (old :: l') (Table.setV cfg old nv :: l) →
      Core cfg H ev l (.entryAndModify hash q nv) (.ret (.occ true)) l'
  | entryAndModify_vac {l hash q nv} : NoneOk H ev hash q l →
      Core cfg H ev l (.entryAndModify hash q nv) (.ret (.occ false)) l
  | entryAndModify_eq {l hash q nv} : CanPanic ev q →
      Core cfg H ev l (.entryAndModify hash q nv) (.panic "eq") l
  | entryAndModify_capacity {l hash q nv} : Core cfg H ev l (.entryAndModify hash q nv) (.panic "capacity") l
  /-- `retain`: the predicate is called once per element, call numbers `c, c+1, …` in visiting order. -/
  | retain_ok {l c} : Core cfg H ev l .retain (.ret .unit) (retainKept ev c l)
  | retain_pred {pre x post c} : ev.pred (c + pre.length) x = none →
      Core cfg H ev (pre ++ x :: post) .retain (.panic "pred") (retainKept ev c pre ++ x :: post)
  | retain_drop {pre x post c nv} : ev.pred (c + pre.length) x = some (false, nv) →
      Core cfg H ev (pre ++ x :: post) .retain (.panic "drop") (retainKept ev c pre ++ post)
  /-- `extract_if`, `next` × `k`: `n` elements visited; those answered `true` are handed out. -/
  | extractIf_ok {l k n c} : n ≤ l.length → (retainKept ev c (l.take n)).length ≤ k →
      ((retainKept ev c (l.take n)).length < k → n = l.length) →
      Core cfg H ev l (.extractIf k) (.ret (.elems (retainKept ev c (l.take n))))
        (retainDropped ev c (l.take n) ++ l.drop n)
  | extractIf_pred {l k n c x} : l[n]? = some x → ev.pred (c + n) x = none →
      Core cfg H ev l (.extractIf k) (.panic "pred") (retainDropped ev c (l.take n) ++ l.drop n)
  | drain_ok {l k fg} : Core cfg H ev l (.drain k fg) (.ret (.elems (l.take k))) []
  | drain_drop {l k} : Core cfg H ev l (.drain k false) (.panic "drop") []
  | clear_ok {l} : Core cfg H ev l .clear (.ret .unit) []
  | clear_drop {l} : Core cfg H ev l .clear (.panic "drop") []
  | reserve_ok {l n} : Core cfg H ev l (.reserve n) (.ret .unit) l
  | reserve_capacity {l n} : Core cfg H ev l (.reserve n) (.panic "capacity") l
  | shrink_ok {l m} : Core cfg H ev l (.shrinkTo m) (.ret .unit) l
  | shrink_capacity {l m} : Core cfg H ev l (.shrinkTo m) (.panic "capacity") l
  /-- `get_many_mut`: one result per request; the returned elements (`rs.filterMap id`) are stored,
      each was accepted by its request's closure, and each gets a new payload (`news`); a request
      answered `None` had no always-accepted stored element with its hash. -/
  | getMany_ok {l l' any reqs rs rest news} : rs.length = reqs.length →
      List.Perm l (rs.filterMap id ++ rest) → List.Perm l' (news ++ rest) →
      news.length = (rs.filterMap id).length →
      (∀ (i : Nat) (o n : Elem), (rs.filterMap id)[i]? = some o → news[i]? = some n →
        ∃ nv, n = Table.setV cfg o nv) →
      (∀ (j : Nat) (hq : Nat × Nat) (e : Elem), reqs[j]? = some hq → rs[j]? = some (some e) →
        any = true ∨ Acc ev hq.2 e) →
      (∀ (j : Nat) (hq : Nat × Nat), reqs[j]? = some hq → rs[j]? = some none → any = false →
        NoneOk H ev hq.1 hq.2 l) →
      Core cfg H ev l (.getManyMut any reqs) (.ret (.many rs)) l'
  /-- `"eq"`: a closure unwound; `"dup"`: two requests resolved to the same element. -/
  | getMany_panic {l any reqs c} : c = "eq" ∨ c = "dup" →
      Core cfg H ev l (.getManyMut any reqs) (.panic c) l
  /-- `iter_hash(hash)`: distinct buckets; the yielded elements are a sub-multiset of the stored
      ones and contain every stored element inserted with `hash`, with multiplicity. -/
  | iterHash {l hash idxs es} : idxs.Nodup → es.length = idxs.length → List.Subperm es l →
      List.Subperm (l.filter fun x => H x.k == hash) es →
      Core cfg H ev l (.iterHash hash) (.ret (.hits idxs es)) l
  | iter {l p} : Core cfg H ev l (.iter p) (.ret (.elems (l.take p))) l
  | len {l} : Core cfg H ev l .len (.ret (.nat l.length)) l

/-- The reference step on multisets: `Core` up to permutation of the stored elements before and
    after (the order in which bulk calls visit the elements is unspecified). -/
def Step (cfg : Cfg) (H : Nat → Nat) (ev : Env) (l : List Elem) (op : TableOp) (o : Table.TObs)
    (l' : List Elem) : Prop :=
  ∃ l₀ l₀', List.Perm l₀ l ∧ List.Perm l₀' l' ∧ Core cfg H ev l₀ op o l₀'

theorem Step.perm {H : Nat → Nat} {ev : Env} {l l2 l' l2' : List Elem} {op : TableOp}
    {o : Table.TObs} (h : Step cfg H ev l op o l') (h1 : List.Perm l l2) (h2 : List.Perm l' l2') :
    Step cfg H ev l2 op o l2' := by
  obtain ⟨a, b, ha, hb, hcore⟩ := h
  exact ⟨a, b, ha.trans h1, hb.trans h2, hcore⟩

/-- A reference trace: the observations of a history, call by call. -/
inductive Trace (cfg : Cfg) (H : Nat → Nat) (ev : Env) :
    List TableOp → List Elem → List Table.TObs → List Elem → Prop
  | nil {l} : Trace cfg H ev [] l [] l
  | cons {op ops o os l l1 l2} : Step cfg H ev l op o l1 → Trace cfg H ev ops l1 os l2 →
      Trace cfg H ev (op :: ops) l (o :: os) l2

end TRef

/-- Side conditions of the inserting calls: a new element is inserted under its own hash `H e.k`;
    for `entry(..).insert` the closure accepts only elements inserted with the entry's hash. -/
def TableOp.contract (H : Nat → Nat) (ev : Env) : TableOp → Prop
  | .insertUnique hash e => hash = H e.k
  | .findEntryRemove hash _ re => ∀ ne, re = some ne → H ne.k = hash
  | .entryInsert hash q ne => H ne.k = hash ∧ ∀ c x, ev.eq c q x = some true → H x.k = hash
  | .entryOrInsert hash _ ne => H ne.k = hash
  | _ => True


open TRef

/-- `find` against the reference. -/
theorem th_find_raw (hc : CfgOk cfg) (hp : ProbeCovers cfg) (ev : Env) (H : Nat → Nat)
    (hash q : Nat) (w : World) (h : TblInv cfg H w.t) :
    (∃ idx w' e, find cfg ev hash q w = .ok (some idx, w') ∧ w'.t = w.t ∧
      w.t.slots[idx]?.join = some e ∧ Acc ev q e) ∨
    (∃ w', find cfg ev hash q w = .ok (none, w') ∧ w'.t = w.t ∧ NoneOk H ev hash q w.t.elems) ∨
    (∃ w', find cfg ev hash q w = .panic "eq" w' ∧ w'.t = w.t ∧ CanPanic ev q) := by
  rcases find_run hc hp ev hash q w h.inv with
    ⟨idx, w', k1, k2, _, _, e', c, k5, k6⟩ | ⟨w', k1, k2, s', k4, k5⟩ | ⟨w', k1, k2, x, c, k3⟩
  · exact .inl ⟨idx, w', e', k1, k2.t, k5, c, k6⟩
  · refine .inr (.inl ⟨w', k1, k2.t, ?_⟩)
    intro x hx hk hyes
    obtain ⟨i, hi⟩ := ts_mem_elems_iff.mp hx
    subst hk
    exact ts_no_miss hc h hi hyes k4 k5
  · exact .inr (.inr ⟨w', k1, k2.t, x, c, k3⟩)

/-! ## 2. one lemma per call -/

/-- What one call leaves behind, against the reference (shape shared by all per-call lemmas). -/
def Refines (cfg : Cfg) (H : Nat → Nat) (ev : Env) (op : TableOp) (w : World) :
    Res (TRet × World) → Prop
  | .ok (r, w') => TblInv cfg H w'.t ∧ ∃ l', List.Perm w'.t.elems l' ∧
      Core cfg H ev w.t.elems op (.ret r) l'
  | .panic c w' => TblInv cfg H w'.t ∧ ∃ l', List.Perm w'.t.elems l' ∧
      Core cfg H ev w.t.elems op (.panic c) l'
  | .abort => ∃ j, ev.allocOk j = false
  | .fault _ => False

theorem th_find (hc : CfgOk cfg) (hp : ProbeCovers cfg) (ev : Env) (H : Nat → Nat)
    (hash q : Nat) (w : World) (h : TblInv cfg H w.t) :
    Refines cfg H ev (.find hash q) w
      (match Table.findElem cfg ev hash q w with
       | .ok (r, w') => .ok (.elem r, w')
       | .panic c w' => .panic c w'
       | .abort => .abort
       | .fault f => .fault f) := by
  rcases th_find_raw hc hp ev H hash q w h with
    ⟨idx, w', e, k1, k2, k3, k4⟩ | ⟨w', k1, k2, k3⟩ | ⟨w', k1, k2, k3⟩
  · have k3' : w'.t.slots[idx]?.join = some e := by rw [k2]; exact k3
    simp only [Table.findElem, k1, bind, Res.bind, slotGet_ok k3', liftE, pure]
    exact ⟨by rw [k2]; exact h, _, by rw [k2], .find_some (ag_mem_elems k3) k4⟩
  · simp only [Table.findElem, k1, bind, Res.bind, pure]
    exact ⟨by rw [k2]; exact h, _, by rw [k2], .find_none k3⟩
  · simp only [Table.findElem, k1, bind, Res.bind]
    exact ⟨by rw [k2]; exact h, _, by rw [k2], .find_panic k3⟩

theorem th_findMut (hc : CfgOk cfg) (hp : ProbeCovers cfg) (ev : Env) (H : Nat → Nat)
    (hash q nv : Nat) (w : World) (h : TblInv cfg H w.t) :
    Refines cfg H ev (.findMut hash q nv) w
      (match Table.findMut cfg ev hash q nv w with
       | .ok (r, w') => .ok (.elem r, w')
       | .panic c w' => .panic c w'
       | .abort => .abort
       | .fault f => .fault f) := by
  rcases th_find_raw hc hp ev H hash q w h with
    ⟨idx, w', e, k1, k2, k3, k4⟩ | ⟨w', k1, k2, k3⟩ | ⟨w', k1, k2, k3⟩
  · have k3' : w'.t.slots[idx]?.join = some e := by rw [k2]; exact k3
    simp only [Table.findMut, k1, bind, Res.bind, slotGet_ok k3', liftE, pure]
    have hupd := slot_update_tblInv h k3 (e' := Table.setV cfg e nv) (by rw [ts_setV_k])
    refine ⟨by rw [k2]; exact hupd, _, List.Perm.refl _, .findMut_some (ag_mem_elems k3) k4 ?_⟩
    rw [k2]
    exact ts_elems_replace _ (ts_slot_of_join k3)
  · simp only [Table.findMut, k1, bind, Res.bind, pure]
    exact ⟨by rw [k2]; exact h, _, by rw [k2], .findMut_none k3⟩
  · simp only [Table.findMut, k1, bind, Res.bind]
    exact ⟨by rw [k2]; exact h, _, by rw [k2], .findMut_panic k3⟩


theorem th_reserveRehash_abort (hc : CfgOk cfg) (hp : ProbeCovers cfg) {env : Env} {n : Nat}
    {fb : Fallibility} {w : World} (h : TInv cfg w.t) (hn : 0 < n)
    (hr : reserveRehash cfg env n fb w = .abort) : ∃ j, env.allocOk j = false := by
  unfold reserveRehash at hr
  cases hca : checkedAdd cfg.bits w.t.items n with
  | none => rw [hca] at hr; cases fb <;> simp [capacityOverflow] at hr
  | some newItems =>
    have hni := rf_checkedAdd_some hca
    rw [hca] at hr
    simp only at hr
    by_cases hle : newItems ≤ bucketMaskToCapacity w.t.mask / 2
    · rw [if_pos hle] at hr
      have ha : w.t.alloc = true := by
        rcases h.1.geom with hs | hal
        · exfalso
          have hm := hs.2.1
          rw [hm] at hle
          simp [bucketMaskToCapacity] at hle
          have := hs.2.2.2.2.1
          omega
        · exact hal.1
      have hsp := rehashInPlace_spec hc hp env w h.1 ha
      cases hrr : rehashInPlace cfg env w with
      | ok w' => rw [hrr] at hr; cases hr
      | panic c w' => rw [hrr] at hr; cases hr
      | abort => rw [hrr] at hsp; exact hsp.elim
      | fault f => rw [hrr] at hr; cases hr
    · rw [if_neg hle] at hr
      have hcap0 : w.t.items ≤ max newItems (bucketMaskToCapacity w.t.mask + 1) := by omega
      have hsp := resizeInner_spec_partial hc hp env
        (max newItems (bucketMaskToCapacity w.t.mask + 1)) fb w h.1 h.2 hcap0
      rw [hr] at hsp
      exact ⟨_, hsp.2⟩

/-- `reserve(n, hasher)` under the re-hash contract. -/
theorem th_reserve (hc : CfgOk cfg) (hp : ProbeCovers cfg) (ev : Env) (H : Nat → Nat)
    (hh : ∀ c k, ev.hash c k = some (H k)) (n : Nat) (w : World) (h : TblInv cfg H w.t) :
    match reserve cfg ev n w with
    | .ok w' => TblInv cfg H w'.t ∧ List.Perm w'.t.elems w.t.elems ∧ w'.t.items = w.t.items ∧
        n ≤ w'.t.gl ∧ (0 < n → w'.t.alloc = true)
    | .panic c w' => c = "capacity" ∧ w' = w
    | .abort => ∃ j, ev.allocOk j = false
    | .fault _ => False := by
  have h1 := reserve_spec hc hp ev n w h.tinv
  cases hr : reserve cfg ev n w with
  | ok w' =>
    rw [hr] at h1
    exact ⟨reserve_tblInv hc hp ev H hh n w w' h hr, h1.2.2.1, h1.2.1, h1.2.2.2.2.1, h1.2.2.2.2.2.1⟩
  | panic c w' => exact th_reserve_panic hc hh hr
  | abort =>
    unfold reserve at hr
    split at hr
    · rename_i hgt
      split at hr
      · cases hr
      · cases hr
      · cases hr
      · rename_i hrr
        exact th_reserveRehash_abort hc hp h.tinv (by omega) hrr
      · cases hr
    · cases hr
  | fault f => rw [hr] at h1; exact h1


theorem th_rawInsert_panic {ev : Env} {hash : Nat} {e : Elem} {w : World} {c : String} {w' : World}
    (h : rawInsert cfg ev hash e w = .panic c w') : reserve cfg ev 1 w = .panic c w' := by
  unfold rawInsert at h
  repeat' split at h
  all_goals first
    | (cases h; done)
    | (cases h; assumption)
    | (simp only at h; split at h <;> cases h)

theorem th_rawInsert_abort {ev : Env} {hash : Nat} {e : Elem} {w : World}
    (h : rawInsert cfg ev hash e w = .abort) : reserve cfg ev 1 w = .abort := by
  unfold rawInsert at h
  repeat' split at h
  all_goals first
    | (cases h; done)
    | assumption
    | (simp only at h; split at h <;> cases h)

theorem th_insertUnique (hc : CfgOk cfg) (hp : ProbeCovers cfg) (ev : Env) (H : Nat → Nat)
    (hh : ∀ c k, ev.hash c k = some (H k)) (e : Elem) (w : World) (h : TblInv cfg H w.t) :
    Refines cfg H ev (.insertUnique (H e.k) e) w
      (match Table.insertUnique cfg ev (H e.k) e w with
       | .ok w' => .ok (.unit, w')
       | .panic c w' => .panic c w'
       | .abort => .abort
       | .fault f => .fault f) := by
  have hspec := rawInsert_spec hc hp ev (H e.k) e w h.tinv
  have hres := th_reserve hc hp ev H hh 1 w h
  unfold Table.insertUnique
  cases hr : rawInsert cfg ev (H e.k) e w with
  | ok pr =>
    obtain ⟨idx, w'⟩ := pr
    obtain ⟨a1, a2, a3, _, _⟩ := rawInsert_tblInv hc hp ev H hh e w h hr
    simp only [Res.onPanic]
    exact ⟨a1, _, a3, .insert_ok⟩
  | panic c w' =>
    rw [th_rawInsert_panic hr] at hres
    obtain ⟨rfl, rfl⟩ := hres
    simp only [Res.onPanic]
    refine ⟨by rw [dropElemQuiet_t]; exact h, _, by rw [dropElemQuiet_t], .insert_capacity⟩
  | abort =>
    rw [th_rawInsert_abort hr] at hres
    simp only [Res.onPanic]
    exact hres
  | fault f => rw [hr] at hspec; exact hspec.elim


theorem th_findEntryRemove (hc : CfgOk cfg) (hp : ProbeCovers cfg) (ev : Env) (H : Nat → Nat)
    (hash q : Nat) (re : Option Elem) (w : World) (h : TblInv cfg H w.t)
    (hre : ∀ ne, re = some ne → H ne.k = hash) :
    Refines cfg H ev (.findEntryRemove hash q re) w
      (match Table.findEntryRemove cfg ev hash q re w with
       | .ok (r, w') => .ok (.elem r, w')
       | .panic c w' => .panic c w'
       | .abort => .abort
       | .fault f => .fault f) := by
  have hspec := Table.findEntryRemove_spec hc hp ev H hash q re w h hre
  rcases th_find_raw hc hp ev H hash q w h with
    ⟨idx, w1, e, k1, k2, k3, k4⟩ | ⟨w1, k1, k2, k3⟩ | ⟨w1, k1, k2, k3⟩
  · -- occupied: the existing specification gives everything
    cases hr : Table.findEntryRemove cfg ev hash q re w with
    | ok pr =>
      obtain ⟨r, w'⟩ := pr
      rw [hr] at hspec
      cases r with
      | none =>
        exfalso
        simp only [Table.findEntryRemove, k1, Res.onPanic] at hr
        repeat' split at hr
        all_goals cases hr
      | some old =>
        obtain ⟨i, a1, a2, a3, _, a5, a6⟩ := hspec
        cases re with
        | none => exact ⟨a3, _, List.Perm.refl _, .fer_remove (ag_mem_elems a1) a2 (a5 rfl).2.2⟩
        | some ne =>
          exact ⟨a3, _, List.Perm.refl _, .fer_reinsert (ag_mem_elems a1) a2 (a6 ne rfl).2.2⟩
    | panic c w' =>
      exfalso
      simp only [Table.findEntryRemove, k1, Res.onPanic] at hr
      repeat' split at hr
      all_goals cases hr
    | abort => rw [hr] at hspec; exact hspec.elim
    | fault f => rw [hr] at hspec; exact hspec.elim
  · -- vacant
    cases re with
    | none =>
      simp only [Table.findEntryRemove, k1, Res.onPanic]
      exact ⟨by rw [k2]; exact h, _, by rw [k2], .fer_none k3⟩
    | some ne =>
      rcases ts_dropElemR (cfg := cfg) ev ne w1 with ⟨w2, d1, d2⟩ | ⟨w2, d1, d2⟩
      · simp only [Table.findEntryRemove, k1, Res.onPanic, d1]
        exact ⟨by rw [d2, k2]; exact h, _, by rw [d2, k2], .fer_none k3⟩
      · simp only [Table.findEntryRemove, k1, Res.onPanic, d1]
        exact ⟨by rw [d2, k2]; exact h, _, by rw [d2, k2], .fer_panic_drop k3⟩
  · -- the closure unwound
    cases re with
    | none =>
      simp only [Table.findEntryRemove, k1, Res.onPanic]
      exact ⟨by rw [k2]; exact h, _, by rw [k2], .fer_panic_eq k3⟩
    | some ne =>
      simp only [Table.findEntryRemove, k1, Res.onPanic]
      exact ⟨by rw [dropElemQuiet_t, k2]; exact h, _, by rw [dropElemQuiet_t, k2], .fer_panic_eq k3⟩


/-- `entry(hash, eq, hasher)` = `reserve(1)`, then the search — every outcome, under the re-hash
    contract. -/
theorem th_entry (hc : CfgOk cfg) (hp : ProbeCovers cfg) (ev : Env) (H : Nat → Nat)
    (hh : ∀ c k, ev.hash c k = some (H k)) (hash q : Nat) (w : World) (h : TblInv cfg H w.t) :
    match Table.entry cfg ev hash q w with
    | .ok (.ok idx, w') =>
      TblInv cfg H w'.t ∧ List.Perm w'.t.elems w.t.elems ∧
      ∃ x, w'.t.slots[idx]?.join = some x ∧ Acc ev q x
    | .ok (.error slot, w') =>
      TblInv cfg H w'.t ∧ List.Perm w'.t.elems w.t.elems ∧
      findInsertSlot cfg w'.t hash = .ok slot ∧ 0 < w'.t.gl ∧ w'.t.alloc = true ∧
      NoneOk H ev hash q w.t.elems
    | .panic c w' => TblInv cfg H w'.t ∧ List.Perm w'.t.elems w.t.elems ∧
        (c = "capacity" ∨ (c = "eq" ∧ CanPanic ev q))
    | .abort => ∃ j, ev.allocOk j = false
    | .fault _ => False := by
  unfold Table.entry findOrFindInsertSlot
  have hres := th_reserve hc hp ev H hh 1 w h
  cases hr : reserve cfg ev 1 w with
  | ok w1 =>
    rw [hr] at hres
    obtain ⟨h1, a3, a2, a5, a6⟩ := hres
    simp only
    rcases fofis_run hc hp ev hash q (tagFull cfg.bits hash) (tagFull_lt_128 _ _) w1 h1.inv with
      ⟨idx, w', k1, k2, k3, _, x, c, k5, k6⟩ | ⟨slot, w', k1, k2, k3, s', k4, k5⟩ | ⟨w', k1, k2, x, c, k3⟩
    · rw [k1]
      simp only [k2.t]
      exact ⟨h1, a3, x, k5, c, k6⟩
    · rw [k1]
      simp only [k2.t]
      refine ⟨h1, a3, k3, by omega, a6 (by omega), ?_⟩
      intro x hx hk hyes
      obtain ⟨i, hi⟩ := ts_mem_elems_iff.mp (a3.mem_iff.mpr hx)
      subst hk
      exact ts_no_miss hc h1 hi hyes k4 k5
    · rw [k1]
      simp only [k2.t]
      exact ⟨h1, a3, .inr ⟨by first | rfl | trivial, x, c, k3⟩⟩
  | panic c w' =>
    rw [hr] at hres
    obtain ⟨rfl, rfl⟩ := hres
    exact ⟨h, List.Perm.refl _, .inl rfl⟩
  | abort => rw [hr] at hres; exact hres
  | fault f => rw [hr] at hres; exact hres.elim

theorem th_entryInsert (hc : CfgOk cfg) (hp : ProbeCovers cfg) (ev : Env) (H : Nat → Nat)
    (hh : ∀ c k, ev.hash c k = some (H k)) (hash q : Nat) (ne : Elem) (w : World)
    (h : TblInv cfg H w.t) (hne : H ne.k = hash)
    (hcl : ∀ c x, ev.eq c q x = some true → H x.k = hash) :
    Refines cfg H ev (.entryInsert hash q ne) w
      (match Table.entryInsert cfg ev hash q ne w with
       | .ok (b, w') => .ok (.occ b, w')
       | .panic c w' => .panic c w'
       | .abort => .abort
       | .fault f => .fault f) := by
  have hspec := th_entry hc hp ev H hh hash q w h
  unfold Table.entryInsert
  cases hr : Table.entry cfg ev hash q w with
  | ok pr =>
    obtain ⟨r, w1⟩ := pr
    rw [hr] at hspec
    cases r with
    | ok idx =>
      obtain ⟨a1, a2, x, a5, c, a6⟩ := hspec
      simp only [Res.onPanic, slotGet_ok a5]
      have hupd := slot_update_tblInv a1 a5 (e' := ne) (by rw [hne, hcl c x a6])
      have hperm : List.Perm
          (x :: Raw.elems { w1.t with slots := w1.t.slots.setIfInBounds idx (some ne) })
          (ne :: w.t.elems) :=
        (ts_elems_replace ne (ts_slot_of_join a5)).trans (List.Perm.cons ne a2)
      have hx : x ∈ w.t.elems := a2.mem_iff.mp (ag_mem_elems a5)
      have hdt := ts_dropElem_t (cfg := cfg) ev x
        { w1 with t := { w1.t with slots := w1.t.slots.setIfInBounds idx (some ne) } }
      cases hd : dropElem cfg ev x
          { w1 with t := { w1.t with slots := w1.t.slots.setIfInBounds idx (some ne) } } with
      | mk p w2 =>
        rw [hd] at hdt
        simp only at hdt
        cases p with
        | true =>
          simp only [if_true]
          exact ⟨by rw [hdt]; exact hupd, _, by rw [hdt], .entryInsert_drop hx ⟨c, a6⟩ hperm⟩
        | false =>
          simp only [Bool.false_eq_true, if_false]
          exact ⟨by rw [hdt]; exact hupd, _, by rw [hdt], .entryInsert_occ hx ⟨c, a6⟩ hperm⟩
    | error slot =>
      obtain ⟨a1, a2, a4, a5, a6, a7⟩ := hspec
      simp only [Res.onPanic]
      rw [← hne] at a4
      obtain ⟨t', b1, b2, _, _, b5, b6⟩ := insertInSlot_tblInv hc hp H a1 a6 ne a4 (fun _ => a5)
      rw [hne] at b1
      simp only [b1]
      exact ⟨b2, _, b6.trans (List.Perm.cons ne a2), .entryInsert_vac a7⟩
  | panic c w' =>
    rw [hr] at hspec
    obtain ⟨a1, a2, a3⟩ := hspec
    simp only [Res.onPanic]
    refine ⟨by rw [dropElemQuiet_t]; exact a1, w.t.elems, by rw [dropElemQuiet_t]; exact a2, ?_⟩
    rcases a3 with rfl | ⟨rfl, a3⟩
    · exact .entryInsert_capacity
    · exact .entryInsert_eq a3
  | abort => rw [hr] at hspec; simp only [Res.onPanic]; exact hspec
  | fault f => rw [hr] at hspec; exact hspec.elim

theorem th_entryOrInsert (hc : CfgOk cfg) (hp : ProbeCovers cfg) (ev : Env) (H : Nat → Nat)
    (hh : ∀ c k, ev.hash c k = some (H k)) (hash q : Nat) (ne : Elem) (w : World)
    (h : TblInv cfg H w.t) (hne : H ne.k = hash) :
    Refines cfg H ev (.entryOrInsert hash q ne) w
      (match Table.entryOrInsert cfg ev hash q ne w with
       | .ok (b, w') => .ok (.occ b, w')
       | .panic c w' => .panic c w'
       | .abort => .abort
       | .fault f => .fault f) := by
  have hspec := th_entry hc hp ev H hh hash q w h
  unfold Table.entryOrInsert
  cases hr : Table.entry cfg ev hash q w with
  | ok pr =>
    obtain ⟨r, w1⟩ := pr
    rw [hr] at hspec
    cases r with
    | ok idx =>
      obtain ⟨a1, a2, x, a5, a6⟩ := hspec
      have hx : x ∈ w.t.elems := a2.mem_iff.mp (ag_mem_elems a5)
      simp only [Res.onPanic]
      rcases ts_dropElemR (cfg := cfg) ev ne w1 with ⟨w2, d1, d2⟩ | ⟨w2, d1, d2⟩
      · simp only [d1]
        exact ⟨by rw [d2]; exact a1, _, by rw [d2]; exact a2, .entryOrInsert_occ hx a6⟩
      · simp only [d1]
        exact ⟨by rw [d2]; exact a1, _, by rw [d2]; exact a2, .entryOrInsert_drop hx a6⟩
    | error slot =>
      obtain ⟨a1, a2, a4, a5, a6, a7⟩ := hspec
      simp only [Res.onPanic]
      rw [← hne] at a4
      obtain ⟨t', b1, b2, _, _, b5, b6⟩ := insertInSlot_tblInv hc hp H a1 a6 ne a4 (fun _ => a5)
      rw [hne] at b1
      simp only [b1]
      exact ⟨b2, _, b6.trans (List.Perm.cons ne a2), .entryOrInsert_vac a7⟩
  | panic c w' =>
    rw [hr] at hspec
    obtain ⟨a1, a2, a3⟩ := hspec
    simp only [Res.onPanic]
    refine ⟨by rw [dropElemQuiet_t]; exact a1, w.t.elems, by rw [dropElemQuiet_t]; exact a2, ?_⟩
    rcases a3 with rfl | ⟨rfl, a3⟩
    · exact .entryOrInsert_capacity
    · exact .entryOrInsert_eq a3
  | abort => rw [hr] at hspec; simp only [Res.onPanic]; exact hspec
  | fault f => rw [hr] at hspec; exact hspec.elim

theorem th_entryAndModify (hc : CfgOk cfg) (hp : ProbeCovers cfg) (ev : Env) (H : Nat → Nat)
    (hh : ∀ c k, ev.hash c k = some (H k)) (hash q nv : Nat) (w : World)
    (h : TblInv cfg H w.t) :
    Refines cfg H ev (.entryAndModify hash q nv) w
      (match Table.entryAndModify cfg ev hash q nv w with
       | .ok (b, w') => .ok (.occ b, w')
       | .panic c w' => .panic c w'
       | .abort => .abort
       | .fault f => .fault f) := by
  have hspec := th_entry hc hp ev H hh hash q w h
  unfold Table.entryAndModify
  cases hr : Table.entry cfg ev hash q w with
  | ok pr =>
    obtain ⟨r, w1⟩ := pr
    rw [hr] at hspec
    cases r with
    | ok idx =>
      obtain ⟨a1, a2, x, a5, a6⟩ := hspec
      have hx : x ∈ w.t.elems := a2.mem_iff.mp (ag_mem_elems a5)
      simp only [bind, Res.bind, slotGet_ok a5, liftE, pure]
      have hupd := slot_update_tblInv a1 a5 (e' := Table.setV cfg x nv) (by rw [ts_setV_k])
      exact ⟨hupd, _, List.Perm.refl _, .entryAndModify_occ hx a6
        ((ts_elems_replace _ (ts_slot_of_join a5)).trans (List.Perm.cons _ a2))⟩
    | error slot =>
      obtain ⟨a1, a2, _, _, _, a7⟩ := hspec
      simp only [bind, Res.bind, pure]
      exact ⟨a1, _, a2, .entryAndModify_vac a7⟩
  | panic c w' =>
    rw [hr] at hspec
    obtain ⟨a1, a2, a3⟩ := hspec
    simp only [bind, Res.bind]
    refine ⟨a1, w.t.elems, a2, ?_⟩
    rcases a3 with rfl | ⟨rfl, a3⟩
    · exact .entryAndModify_capacity
    · exact .entryAndModify_eq a3
  | abort => rw [hr] at hspec; simp only [bind, Res.bind]; exact hspec
  | fault f => rw [hr] at hspec; exact hspec.elim


/-- Under `hh`, `shrink_to` unwinds only with the capacity-overflow panic; it aborts only when the
    allocator refuses. -/
theorem th_shrinkTo_unwind (hc : CfgOk cfg) (hp : ProbeCovers cfg) {ev : Env} {H : Nat → Nat}
    (hh : ∀ c k, ev.hash c k = some (H k)) (m : Nat) (w : World) (h : TInv cfg w.t) :
    (∀ c w', shrinkTo cfg ev m w = .panic c w' → c = "capacity") ∧
    (shrinkTo cfg ev m w = .abort → ∃ j, ev.allocOk j = false) := by
  unfold shrinkTo
  simp only
  by_cases hz : max w.t.items m = 0
  · rw [if_pos hz]
    have hit : w.t.items = 0 := by omega
    rw [ag_dropInnerTable_empty h hit]
    refine ⟨fun c w' hr => ?_, fun hr => ?_⟩ <;> cases hr
  · rw [if_neg hz]
    cases hcb : capacityToBuckets cfg.bits cfg.W cfg.size (max w.t.items m) with
    | none => refine ⟨fun c w' hr => ?_, fun hr => ?_⟩ <;> cases hr
    | some mb =>
      simp only
      by_cases hlt : mb < w.t.buckets
      · rw [if_pos hlt]
        by_cases hit : w.t.items = 0
        · rw [if_pos hit]
          have hfw := fallibleWithCapacity_spec hc ev (max w.t.items m) .infallible w
          cases hr : fallibleWithCapacity cfg ev (max w.t.items m) .infallible w with
          | ok pr =>
            obtain ⟨r, w1⟩ := pr
            rw [hr] at hfw
            cases r with
            | ok new =>
              obtain ⟨a1, a2, a3, _, a5⟩ := hfw
              rw [if_neg hz] at a5
              obtain ⟨b1, b2, _, _, b5, _, l, _, b8⟩ := a5
              have ht1 : w1.t = w.t := by rw [b8]
              simp only [ht1]
              rw [ag_dropInnerTable_empty h hit]
              refine ⟨fun c w' hr => ?_, fun hr => ?_⟩ <;> cases hr
            | error e => exact absurd hfw.1 (by decide)
          | panic c w' =>
            rw [hr] at hfw
            refine ⟨fun c' w'' hr' => ?_, fun hr' => (by cases hr')⟩
            cases hr'
            exact hfw.1
          | abort =>
            rw [hr] at hfw
            exact ⟨fun c w' hr' => (by cases hr'), fun _ => ⟨_, hfw.2.1⟩⟩
          | fault f => rw [hr] at hfw; exact hfw.elim
        · rw [if_neg hit]
          have hsp := resizeInner_spec_partial hc hp ev (max w.t.items m) .infallible w h.1 h.2
            (by omega)
          cases hr : resizeInner cfg ev (max w.t.items m) .infallible w with
          | ok pr =>
            obtain ⟨r, w'⟩ := pr
            cases r with
            | ok u => cases u; refine ⟨fun c w' hr => ?_, fun hr => ?_⟩ <;> cases hr
            | error e => refine ⟨fun c w' hr => ?_, fun hr => ?_⟩ <;> cases hr
          | panic c w' =>
            refine ⟨fun c' w'' hr' => ?_, fun hr' => (by cases hr')⟩
            cases hr'
            exact (th_resizeInner_panic hc hh hr).1
          | abort =>
            rw [hr] at hsp
            exact ⟨fun c w' hr' => (by cases hr'), fun _ => ⟨_, hsp.2⟩⟩
          | fault f => refine ⟨fun c w' hr => ?_, fun hr => ?_⟩ <;> cases hr
      · rw [if_neg hlt]
        refine ⟨fun c w' hr => ?_, fun hr => ?_⟩ <;> cases hr

theorem th_reserveOp (hc : CfgOk cfg) (hp : ProbeCovers cfg) (ev : Env) (H : Nat → Nat)
    (hh : ∀ c k, ev.hash c k = some (H k)) (n : Nat) (w : World) (h : TblInv cfg H w.t) :
    Refines cfg H ev (.reserve n) w
      (match reserve cfg ev n w with
       | .ok w' => .ok (.unit, w')
       | .panic c w' => .panic c w'
       | .abort => .abort
       | .fault f => .fault f) := by
  have h1 := th_reserve hc hp ev H hh n w h
  cases hr : reserve cfg ev n w with
  | ok w' => rw [hr] at h1; exact ⟨h1.1, w.t.elems, h1.2.1, .reserve_ok⟩
  | panic c w' =>
    rw [hr] at h1
    obtain ⟨rfl, rfl⟩ := h1
    exact ⟨h, w'.t.elems, List.Perm.refl _, .reserve_capacity⟩
  | abort => rw [hr] at h1; exact h1
  | fault f => rw [hr] at h1; exact h1.elim

theorem th_shrinkOp (hc : CfgOk cfg) (hp : ProbeCovers cfg) (ev : Env) (H : Nat → Nat)
    (hh : ∀ c k, ev.hash c k = some (H k)) (m : Nat) (w : World) (h : TblInv cfg H w.t) :
    Refines cfg H ev (.shrinkTo m) w
      (match shrinkTo cfg ev m w with
       | .ok w' => .ok (.unit, w')
       | .panic c w' => .panic c w'
       | .abort => .abort
       | .fault f => .fault f) := by
  have h1 := shrinkTo_spec hc hp ev m w h.tinv
  have h2 := th_shrinkTo_unwind hc hp hh m w h.tinv
  cases hr : shrinkTo cfg ev m w with
  | ok w' =>
    rw [hr] at h1
    exact ⟨shrinkTo_tblInv hc hp ev H hh m w w' h hr, w.t.elems, h1.2.1, .shrink_ok⟩
  | panic c w' =>
    rw [hr] at h1
    have hc' := h2.1 c w' hr
    subst hc'
    obtain ⟨_, a2, _⟩ := h1
    exact ⟨by rw [a2]; exact h, w.t.elems, by rw [a2], .shrink_capacity⟩
  | abort => exact h2.2 hr
  | fault f => rw [hr] at h1; exact h1.elim

theorem th_clearOp (hc : CfgOk cfg) (ev : Env) (H : Nat → Nat) (w : World) (h : TblInv cfg H w.t) :
    Refines cfg H ev .clear w
      (match clear cfg ev w with
       | .ok w' => .ok (.unit, w')
       | .panic c w' => .panic c w'
       | .abort => .abort
       | .fault f => .fault f) := by
  have h1 := clear_spec hc ev w h.tinv
  cases hr : clear cfg ev w with
  | ok w' =>
    rw [hr] at h1
    obtain ⟨⟨a1, a2, a3, _⟩, _⟩ := h1
    exact ⟨TblInv.of_elems_nil a1 a3, [], by rw [a3], .clear_ok⟩
  | panic c w' =>
    rw [hr] at h1
    obtain ⟨rfl, ⟨a1, a2, a3, _⟩, _⟩ := h1
    exact ⟨TblInv.of_elems_nil a1 a3, [], by rw [a3], .clear_drop⟩
  | abort => rw [hr] at h1; exact h1.elim
  | fault f => rw [hr] at h1; exact h1.elim

theorem th_drainOp (hc : CfgOk cfg) (ev : Env) (H : Nat → Nat) (k : Nat) (forget : Bool) (w : World)
    (h : TblInv cfg H w.t) :
    Refines cfg H ev (.drain k forget) w
      (match Map.drain cfg ev k forget w with
       | .ok (l, w') => .ok (.elems l, w')
       | .panic c w' => .panic c w'
       | .abort => .abort
       | .fault f => .fault f) := by
  have h1 := drain_spec hc ev k forget w h.tinv
  have hnew : TblInv cfg H (Raw.new cfg.W) ∧ (Raw.new cfg.W).elems = [] :=
    ⟨TblInv.new hc H, by simp [Raw.elems, Raw.new]⟩
  cases hr : Map.drain cfg ev k forget w with
  | ok pr =>
    obtain ⟨out, w'⟩ := pr
    rw [hr] at h1
    obtain ⟨a1, _, a3, a4⟩ := h1
    subst a1
    have hw' : TblInv cfg H w'.t ∧ w'.t.elems = [] := by
      cases forget with
      | true => rw [a3 rfl]; exact hnew
      | false =>
        obtain ⟨⟨_, b2, _, b4, _⟩, _⟩ := a4 rfl
        exact ⟨TblInv.of_elems_nil b2 b4, b4⟩
    exact ⟨hw'.1, [], by rw [hw'.2], .drain_ok⟩
  | panic c w' =>
    rw [hr] at h1
    obtain ⟨rfl, rfl, a3, _⟩ := h1
    refine ⟨by rw [a3]; exact hnew.1, [], by rw [a3, hnew.2], .drain_drop⟩
  | abort => rw [hr] at h1; exact h1.elim
  | fault f => rw [hr] at h1; exact h1.elim

theorem th_retainOp (hc : CfgOk cfg) (ev : Env) (H : Nat → Nat) (w : World) (h : TblInv cfg H w.t) :
    Refines cfg H ev .retain w
      (match Map.retain cfg ev w with
       | .ok w' => .ok (.unit, w')
       | .panic c w' => .panic c w'
       | .abort => .abort
       | .fault f => .fault f) := by
  have h1 := retain_spec hc ev w h.tinv
  have h2 := retain_tblInv hc ev H w h
  cases hr : Map.retain cfg ev w with
  | ok w' =>
    rw [hr] at h1 h2
    exact ⟨h2, _, by rw [h1.2.1], .retain_ok (c := w.pc)⟩
  | panic c w' =>
    rw [hr] at h1 h2
    obtain ⟨_, pre, x, post, b1, _, _, b4⟩ := h1
    refine ⟨h2, ?_⟩
    rcases b4 with ⟨rfl, b5, b6, _⟩ | ⟨rfl, _, nv, b5, b6, _⟩
    · exact ⟨_, by rw [b6], by rw [b1]; exact .retain_pred b5⟩
    · exact ⟨_, by rw [b6], by rw [b1]; exact .retain_drop b5⟩
  | abort => rw [hr] at h1; exact h1.elim
  | fault f => rw [hr] at h1; exact h1.elim

theorem th_extractIfOp (hc : CfgOk cfg) (ev : Env) (H : Nat → Nat) (k : Nat) (w : World)
    (h : TblInv cfg H w.t) :
    Refines cfg H ev (.extractIf k) w
      (match Map.extractIf cfg ev k w with
       | .ok (l, w') => .ok (.elems l, w')
       | .panic c w' => .panic c w'
       | .abort => .abort
       | .fault f => .fault f) := by
  have h1 := extractIf_spec hc ev k w h.tinv
  have h2 := extractIf_tblInv hc ev H k w h
  have hlen := ab_elems_length hc h.inv
  cases hr : Map.extractIf cfg ev k w with
  | ok pr =>
    obtain ⟨out, w'⟩ := pr
    rw [hr] at h1 h2
    obtain ⟨_, _, n, a3, a4, a5, _, _, a8, a9⟩ := h1
    subst a4
    exact ⟨h2, _, by rw [a5], .extractIf_ok (c := w.pc) (by omega) a8 (fun hlt => by rw [hlen]; exact a9 hlt)⟩
  | panic c w' =>
    rw [hr] at h1 h2
    obtain ⟨rfl, _, _, n, x, a3, a4, a5, _⟩ := h1
    exact ⟨h2, _, by rw [a5], .extractIf_pred (c := w.pc) a3 a4⟩
  | abort => rw [hr] at h1; exact h1.elim
  | fault f => rw [hr] at h1; exact h1.elim


theorem th_filter_filterMap {α β} (f : α → Option β) (p : β → Bool) (L : List α) :
    (L.filterMap f).filter p = (L.filter fun a => (f a).any p).filterMap f := by
  induction L with
  | nil => rfl
  | cons a L ih =>
    cases hfa : f a with
    | none => simp [hfa, ih]
    | some b =>
      cases hp : p b <;> simp [hfa, hp, ih]

theorem th_subperm_filterMap {α β} (f : α → Option β) {l1 l2 : List α} (h : List.Subperm l1 l2) :
    List.Subperm (l1.filterMap f) (l2.filterMap f) := by
  obtain ⟨l, hp, hs⟩ := h
  exact ⟨l.filterMap f, hp.filterMap f, hs.filterMap f⟩

theorem th_iterOp (hc : CfgOk cfg) (ev : Env) (H : Nat → Nat) (p : Nat) (w : World)
    (h : TblInv cfg H w.t) :
    Refines cfg H ev (.iter p) w
      (match Map.iterObserve cfg w.t p with
       | .ok (pre, _, _, _) => .ok (.elems (pre.filterMap fun i => w.t.slots[i]?.join), w)
       | .error f => .fault f) := by
  rw [iterObserve_spec hc h.inv p]
  simp only
  have he : ((w.t.fullList.take p).filterMap fun i => w.t.slots[i]?.join) = w.t.elems.take p := by
    rw [ab_elems_map hc h.inv, ← List.map_take]
    exact ab_filterMap_eq_map _ _ _ (fun i hi => h.inv.ab_full hc (List.mem_of_mem_take hi))
  rw [he]
  exact ⟨h, _, List.Perm.refl _, .iter⟩

theorem th_iterHashOp (hc : CfgOk cfg) (hp : ProbeCovers cfg) (ev : Env) (H : Nat → Nat)
    (hash : Nat) (w : World) (h : TblInv cfg H w.t) :
    Refines cfg H ev (.iterHash hash) w
      (match Table.iterHash cfg w.t hash with
       | .ok l => .ok (.hits l (l.filterMap fun i => w.t.slots[i]?.join), w)
       | .error f => .fault f) := by
  obtain ⟨l, a1, a2, a3, a4⟩ := Table.iterHash_spec hc hp h.inv hash
  rw [a1]
  simp only
  have hel := ab_elems_of w.t h.inv.ab_slots_le (fun i _ hf => h.inv.ab_dead hf)
  have hsub : l ⊆ w.t.fullList := fun i hi => (mem_fullList _ _).2 ⟨(a3 i hi).1, (a3 i hi).2.1⟩
  have hlen : (l.filterMap fun i => w.t.slots[i]?.join).length = l.length := by
    rw [ab_filterMap_eq_map (fun i => w.t.slots[i]?.join) (ab_elem w.t) l
      (fun i hi => h.inv.ab_full hc (hsub hi)), List.length_map]
  refine ⟨h, _, List.Perm.refl _, .iterHash a2 hlen ?_ ?_⟩
  · rw [hel]
    exact th_subperm_filterMap _ (a2.subperm hsub)
  · rw [hel, th_filter_filterMap]
    refine th_subperm_filterMap _ (List.Nodup.subperm ((ab_nodup_fullList _).filter _) ?_)
    intro i hi
    obtain ⟨hif, hpi⟩ := List.mem_filter.mp hi
    obtain ⟨hib, hfull⟩ := (mem_fullList _ _).1 hif
    have hsl := h.inv.ab_full hc hif
    rw [hsl] at hpi
    simp only [Option.any_some, beq_iff_eq] at hpi
    have hsl' : w.t.slots[i]?.join = some (ab_elem w.t i) := hsl
    exact a4 i hib (hpi ▸ h.tag i _ hsl') (hpi ▸ h.reach i _ hsl')

theorem th_lenOp (hc : CfgOk cfg) (ev : Env) (H : Nat → Nat) (w : World) (h : TblInv cfg H w.t) :
    Refines cfg H ev .len w (.ok (.nat w.t.items, w)) := by
  rw [← ab_elems_length hc h.inv]
  exact ⟨h, _, List.Perm.refl _, .len⟩


theorem th_perm_split {L J : List Nat} (hL : L.Nodup) (hJ : J.Nodup) (hsub : J ⊆ L) :
    List.Perm L (J ++ L.filter fun x => decide (x ∉ J)) := by
  refine (List.perm_ext_iff_of_nodup hL ?_).2 ?_
  · refine List.nodup_append.2 ⟨hJ, hL.filter _, ?_⟩
    intro a ha b hb hab
    subst hab
    simp only [List.mem_filter, decide_eq_true_eq] at hb
    exact hb.2 ha
  · intro a
    simp only [List.mem_append, List.mem_filter, decide_eq_true_eq]
    constructor
    · intro ha
      by_cases h : a ∈ J
      · exact .inl h
      · exact .inr ⟨ha, h⟩
    · rintro (h | h)
      · exact hsub h
      · exact h.1

theorem th_hits_eq (f : Nat → Option Elem) :
    ∀ (idxs : List (Option Nat)) (rs : List (Option Elem)), rs.length = idxs.length →
    (∀ (j x : Nat), idxs[j]? = some (some x) → ∃ e, f x = some e ∧ rs[j]? = some (some e)) →
    (∀ j : Nat, idxs[j]? = some none → rs[j]? = some none) →
    (idxs.filterMap id).filterMap f = rs.filterMap id := by
  intro idxs
  induction idxs with
  | nil => intro rs hl _ _; cases rs <;> simp_all
  | cons o idxs ih =>
    intro rs hl hhit hmiss
    cases rs with
    | nil => simp at hl
    | cons r rs =>
      have hl' : rs.length = idxs.length := by simpa using hl
      have ih' := ih rs hl' (fun j x hj => hhit (j + 1) x (by simpa using hj))
        (fun j hj => hmiss (j + 1) (by simpa using hj))
      cases o with
      | none =>
        have := hmiss 0 (by simp)
        simp only [List.getElem?_cons_zero, Option.some.injEq] at this
        subst this
        simpa using ih'
      | some x =>
        obtain ⟨e, he, hr⟩ := hhit 0 x (by simp)
        simp only [List.getElem?_cons_zero, Option.some.injEq] at hr
        subst hr
        simp [he]
        simpa using ih'

/-- What a successful `get_many_mut` does to the multiset: the returned elements are taken out
    and put back with a new payload each; everything else is untouched. -/
theorem th_manyOk_perm {t : Raw} {idxs : List (Option Nat)} {rs : List (Option Elem)}
    {s' : Array (Option Elem)} (h : Inv cfg t) (h' : Inv cfg { t with slots := s' })
    (hlive : ts_AllLive t idxs) (hnd : (idxs.filterMap id).Nodup)
    (hm : ts_ManyOk (Table.setV cfg) t idxs rs s') :
    ∃ rest news, List.Perm t.elems (rs.filterMap id ++ rest) ∧
      List.Perm (Raw.elems { t with slots := s' }) (news ++ rest) ∧
      news.length = (rs.filterMap id).length ∧
      ∀ (i : Nat) (o n : Elem), (rs.filterMap id)[i]? = some o → news[i]? = some n →
        ∃ nv, n = Table.setV cfg o nv := by
  have hel := ab_elems_of t h.ab_slots_le (fun i _ hf => h.ab_dead hf)
  have hel' := ab_elems_of { t with slots := s' } h'.ab_slots_le (fun i _ hf => h'.ab_dead hf)
  have hfl : Raw.fullList { t with slots := s' } = t.fullList := rfl
  rw [hfl] at hel'
  have hsub : idxs.filterMap id ⊆ t.fullList :=
    fun i hi => (mem_fullList _ _).2 ⟨(hlive i hi).1, (hlive i hi).2.1⟩
  have hsplit := th_perm_split (ab_nodup_fullList t) hnd hsub
  have hJ : ∀ x ∈ idxs.filterMap id, ∃ j : Nat, idxs[j]? = some (some x) := by
    intro x hx
    obtain ⟨o, ho, hox⟩ := List.mem_filterMap.mp hx
    simp only [id] at hox
    subst hox
    exact List.getElem?_of_mem ho
  have hold : (idxs.filterMap id).filterMap (ab_slot t) = rs.filterMap id := by
    refine th_hits_eq (ab_slot t) idxs rs hm.len ?_ hm.miss
    intro j x hj
    obtain ⟨e, a1, a2, _⟩ := hm.hit j x hj
    exact ⟨e, a1, a2⟩
  have hframe : (t.fullList.filter fun x => decide (x ∉ idxs.filterMap id)).filterMap
        (ab_slot { t with slots := s' }) =
      (t.fullList.filter fun x => decide (x ∉ idxs.filterMap id)).filterMap (ab_slot t) := by
    apply List.filterMap_congr
    intro x hx
    simp only [List.mem_filter, decide_eq_true_eq] at hx
    show s'[x]?.join = t.slots[x]?.join
    rw [hm.frame x hx.2]
  have hmapO : (idxs.filterMap id).filterMap (ab_slot t) = (idxs.filterMap id).map (ab_elem t) :=
    ab_filterMap_eq_map (ab_slot t) (ab_elem t) _ (fun x hx => by
      obtain ⟨j, hj⟩ := hJ x hx
      obtain ⟨e, a1, _, _⟩ := hm.hit j x hj
      have a1' : ab_slot t x = some e := a1
      rw [a1']; simp [ab_elem, a1'])
  have hmapN : (idxs.filterMap id).filterMap (ab_slot { t with slots := s' }) =
      (idxs.filterMap id).map (ab_elem { t with slots := s' }) :=
    ab_filterMap_eq_map _ _ _ (fun x hx => by
      obtain ⟨j, hj⟩ := hJ x hx
      obtain ⟨e, _, _, a3⟩ := hm.hit j x hj
      have a3' : ab_slot { t with slots := s' } x = some (Table.setV cfg e (e.v + 1000 * (j + 1))) := a3
      rw [a3']; simp [ab_elem, a3'])
  refine ⟨(t.fullList.filter fun x => decide (x ∉ idxs.filterMap id)).filterMap (ab_slot t),
    (idxs.filterMap id).filterMap (ab_slot { t with slots := s' }), ?_, ?_, ?_, ?_⟩
  · rw [hel, ← hold, ← List.filterMap_append]
    exact hsplit.filterMap _
  · rw [hel', ← hframe, ← List.filterMap_append]
    exact hsplit.filterMap _
  · rw [← hold, hmapO, hmapN]
    simp
  · intro i o n ho hn
    rw [← hold, hmapO, List.getElem?_map] at ho
    rw [hmapN, List.getElem?_map] at hn
    cases hx : (idxs.filterMap id)[i]? with
    | none => rw [hx] at ho; cases ho
    | some x =>
      rw [hx] at ho hn
      simp only [Option.map_some, Option.some.injEq] at ho hn
      obtain ⟨j, hj⟩ := hJ x (List.mem_of_getElem? hx)
      obtain ⟨e, a1, _, a3⟩ := hm.hit j x hj
      have a1' : ab_slot t x = some e := a1
      have a3' : ab_slot { t with slots := s' } x = some (Table.setV cfg e (e.v + 1000 * (j + 1))) := a3
      refine ⟨e.v + 1000 * (j + 1), ?_⟩
      rw [← ho, ← hn]
      simp [ab_elem, a1', a3']


theorem th_getManyMutOp (hc : CfgOk cfg) (hp : ProbeCovers cfg) (ev : Env) (H : Nat → Nat)
    (any : Bool) (reqs : List (Nat × Nat)) (w : World) (h : TblInv cfg H w.t)
    (hsz : cfg.size ≠ 0 ∨ cfg.zstDupFixed = true) :
    Refines cfg H ev (.getManyMut any reqs) w
      (match Table.getManyMut cfg ev any reqs w with
       | .ok (l, w') => .ok (.many l, w')
       | .panic c w' => .panic c w'
       | .abort => .abort
       | .fault f => .fault f) := by
  rcases Table.getManyMut_spec_partial hc hp ev any reqs w h.inv hsz with
    ⟨w', a1, _, a3, _⟩ | ⟨idxs, w1, b1, b2, b3, _, (⟨_, b5⟩ | ⟨hnd, rs, s', b5, b6, b7, b8⟩)⟩
  · rw [a1]
    exact ⟨by rw [a3]; exact h, w.t.elems, by rw [a3], .getMany_panic (.inl rfl)⟩
  · rw [b5]
    exact ⟨by rw [b3]; exact h, w.t.elems, by rw [b3], .getMany_panic (.inr rfl)⟩
  · rw [b5]
    obtain ⟨rest, news, p1, p2, p3, p4⟩ := th_manyOk_perm h.inv b8 b2 hnd b7
    have hidx : ∀ (j : Nat) (hq : Nat × Nat), reqs[j]? = some hq → ∃ r, idxs[j]? = some r := by
      intro j hq hj
      have hlt : j < idxs.length := by
        rw [b1.1]
        exact (List.getElem?_eq_some_iff.mp hj).1
      exact ⟨idxs[j], List.getElem?_eq_getElem hlt⟩
    refine ⟨Table.getManyMut_tblInv h b7 b8, _, p2, .getMany_ok b6 p1 (List.Perm.refl _) p3 p4 ?_ ?_⟩
    · intro j hq e hj hr
      obtain ⟨r, hrj⟩ := hidx j hq hj
      cases r with
      | none => rw [b7.miss j hrj] at hr; cases hr
      | some x =>
        obtain ⟨e', c1, c2, _⟩ := b7.hit j x hrj
        rw [c2] at hr
        simp only [Option.some.injEq] at hr
        subst hr
        cases any with
        | true => exact .inl rfl
        | false =>
          right
          obtain ⟨wj, wj', hwj, hfind⟩ := b1.2 j hq (some x) hj hrj
          simp only [ts_findReq, Bool.false_eq_true, if_false] at hfind
          rcases th_find_raw hc hp ev H hq.1 hq.2 wj (by rw [hwj]; exact h) with
            ⟨idx, w2, e2, k1, _, k3, k4⟩ | ⟨w2, k1, _, _⟩ | ⟨w2, k1, _, _⟩
          · rw [k1] at hfind
            simp only [Res.ok.injEq, Prod.mk.injEq, Option.some.injEq] at hfind
            rw [hfind.1, hwj, c1] at k3
            simp only [Option.some.injEq] at k3
            rw [k3]; exact k4
          · rw [k1] at hfind; simp at hfind
          · rw [k1] at hfind; cases hfind
    · intro j hq hj hr hany
      subst hany
      obtain ⟨r, hrj⟩ := hidx j hq hj
      cases r with
      | some x =>
        obtain ⟨e', _, c2, _⟩ := b7.hit j x hrj
        rw [c2] at hr; simp at hr
      | none =>
        obtain ⟨wj, wj', hwj, hfind⟩ := b1.2 j hq none hj hrj
        simp only [ts_findReq, Bool.false_eq_true, if_false] at hfind
        rcases th_find_raw hc hp ev H hq.1 hq.2 wj (by rw [hwj]; exact h) with
          ⟨idx, w2, e2, k1, _, k3, k4⟩ | ⟨w2, k1, _, k3⟩ | ⟨w2, k1, _, _⟩
        · rw [k1] at hfind; simp at hfind
        · rw [hwj] at k3; exact k3
        · rw [k1] at hfind; cases hfind


/-! ## 3. one call, every call -/

/-- One call of the API from any state satisfying the table invariant, against the reference. -/
theorem stepH_refines (hc : CfgOk cfg) (env : Env) (H : Nat → Nat)
    (hh : ∀ c k, env.hash c k = some (H k)) (hsz : cfg.size ≠ 0 ∨ cfg.zstDupFixed = true)
    (op : TableOp) (hct : op.contract H (Table.envFor cfg env)) (w : World)
    (h : TblInv cfg H w.t) :
    Refines cfg H (Table.envFor cfg env) op w (Table.stepH cfg env op w) := by
  have hp := probe_covers cfg hc.spec.width
  have hh' : ∀ c k, (Table.envFor cfg env).hash c k = some (H k) := hh
  cases op with
  | find hash q => exact th_find hc hp _ H hash q w h
  | findMut hash q nv => exact th_findMut hc hp _ H hash q nv w h
  | insertUnique hash e =>
    have hct' : hash = H e.k := hct
    subst hct'
    exact th_insertUnique hc hp _ H hh' e w h
  | findEntryRemove hash q re => exact th_findEntryRemove hc hp _ H hash q re w h hct
  | entryInsert hash q ne => exact th_entryInsert hc hp _ H hh' hash q ne w h hct.1 hct.2
  | entryOrInsert hash q ne => exact th_entryOrInsert hc hp _ H hh' hash q ne w h hct
  | entryAndModify hash q nv => exact th_entryAndModify hc hp _ H hh' hash q nv w h
  | retain => exact th_retainOp hc _ H w h
  | extractIf n => exact th_extractIfOp hc _ H n w h
  | drain n fg => exact th_drainOp hc _ H n fg w h
  | clear => exact th_clearOp hc _ H w h
  | reserve n => exact th_reserveOp hc hp _ H hh' n w h
  | shrinkTo m => exact th_shrinkOp hc hp _ H hh' m w h
  | getManyMut any reqs => exact th_getManyMutOp hc hp _ H any reqs w h hsz
  | iterHash hash => exact th_iterHashOp hc hp _ H hash w h
  | iter p => exact th_iterOp hc _ H p w h
  | len => exact th_lenOp hc _ H w h

/-- Histories from any state satisfying the invariant. `runH` never faults; an abort (only possible
    when the allocator refuses) ends the history (`runH = none`); otherwise the observations are a
    reference trace and the final table holds a permutation of the final reference multiset. -/
theorem runH_refines_from (hc : CfgOk cfg) (env : Env) (H : Nat → Nat)
    (hh : ∀ c k, env.hash c k = some (H k)) (hsz : cfg.size ≠ 0 ∨ cfg.zstDupFixed = true) :
    ∀ (ops : List TableOp) (w : World) (l : List Elem), TblInv cfg H w.t → List.Perm w.t.elems l →
    (∀ op ∈ ops, op.contract H (Table.envFor cfg env)) →
    Table.runHFaults cfg env ops w = false ∧
    ((∀ j, env.allocOk j = true) → (Table.runH cfg env ops w).isSome = true) ∧
    ∀ os wf, Table.runH cfg env ops w = some (os, wf) →
      ∃ lf, Trace cfg H (Table.envFor cfg env) ops l os lf ∧ TblInv cfg H wf.t ∧
        List.Perm wf.t.elems lf ∧ wf.t.items = lf.length := by
  intro ops
  induction ops with
  | nil =>
    intro w l h hperm _
    refine ⟨rfl, fun _ => rfl, fun os wf hr => ?_⟩
    simp only [Table.runH, Option.some.injEq, Prod.mk.injEq] at hr
    obtain ⟨rfl, rfl⟩ := hr
    exact ⟨l, .nil, h, hperm, by rw [Table.len_eq_length hc h.inv, hperm.length_eq]⟩
  | cons op ops ih =>
    intro w l h hperm hct
    have hstep := stepH_refines hc env H hh hsz op (hct op (List.mem_cons_self ..)) w h
    have hct' : ∀ op' ∈ ops, op'.contract H (Table.envFor cfg env) :=
      fun op' hop => hct op' (List.mem_cons_of_mem _ hop)
    cases hs : Table.stepH cfg env op w with
    | ok pr =>
      obtain ⟨r, w'⟩ := pr
      rw [hs] at hstep
      obtain ⟨hinv', l', hp', hcore⟩ := hstep
      obtain ⟨i1, i2, i3⟩ := ih w' l' hinv' hp' hct'
      refine ⟨by simp only [Table.runHFaults, hs]; exact i1,
        fun ha => by simp only [Table.runH, hs, Option.isSome_map]; exact i2 ha, fun os wf hr => ?_⟩
      simp only [Table.runH, hs] at hr
      cases hrest : Table.runH cfg env ops w' with
      | none => rw [hrest] at hr; cases hr
      | some pr2 =>
        obtain ⟨os2, wf2⟩ := pr2
        rw [hrest] at hr
        simp only [Option.map_some, Option.some.injEq, Prod.mk.injEq] at hr
        obtain ⟨rfl, rfl⟩ := hr
        obtain ⟨lf, t1, t2, t3, t4⟩ := i3 os2 wf2 hrest
        exact ⟨lf, .cons ⟨w.t.elems, l', hperm, List.Perm.refl _, hcore⟩ t1, t2, t3, t4⟩
    | panic c w' =>
      rw [hs] at hstep
      obtain ⟨hinv', l', hp', hcore⟩ := hstep
      obtain ⟨i1, i2, i3⟩ := ih w' l' hinv' hp' hct'
      refine ⟨by simp only [Table.runHFaults, hs]; exact i1,
        fun ha => by simp only [Table.runH, hs, Option.isSome_map]; exact i2 ha, fun os wf hr => ?_⟩
      simp only [Table.runH, hs] at hr
      cases hrest : Table.runH cfg env ops w' with
      | none => rw [hrest] at hr; cases hr
      | some pr2 =>
        obtain ⟨os2, wf2⟩ := pr2
        rw [hrest] at hr
        simp only [Option.map_some, Option.some.injEq, Prod.mk.injEq] at hr
        obtain ⟨rfl, rfl⟩ := hr
        obtain ⟨lf, t1, t2, t3, t4⟩ := i3 os2 wf2 hrest
        exact ⟨lf, .cons ⟨w.t.elems, l', hperm, List.Perm.refl _, hcore⟩ t1, t2, t3, t4⟩
    | abort =>
      rw [hs] at hstep
      obtain ⟨j, hj⟩ := hstep
      refine ⟨by simp only [Table.runHFaults, hs], fun ha => ?_, fun os wf hr => ?_⟩
      · have : (Table.envFor cfg env).allocOk j = env.allocOk j := rfl
        rw [this, ha j] at hj; cases hj
      · simp only [Table.runH, hs] at hr; cases hr
    | fault f => rw [hs] at hstep; exact hstep.elim


/-! ## 4. the history theorem -/

/-- The side conditions only look at the equality closure, which the table's view of the oracles
    (`Table.envFor`) does not change. -/
theorem TableOp.contract_envFor (H : Nat → Nat) (env : Env) (op : TableOp) :
    op.contract H (Table.envFor cfg env) ↔ op.contract H env := by
  cases op <;> exact Iff.rfl

/-- **History theorem for `HashTable`.** For every configuration (`CfgOk`: both scanners, every
    `usize` width), every hash function `H`, every environment whose re-hash closure implements `H`
    (`hh`; equality closures, predicates, destructors and the allocator are ARBITRARY oracles —
    stateful, unlawful, panicking, refusing), sized elements or the F2 repair (`hsz`), and every
    history `ops` whose inserting calls insert a new element under its own hash (`contract`), run
    from `HashTable::new()`:

    * the run never reaches undefined behaviour (`runHFaults = false`);
    * the only way it ends early is `handle_alloc_error` (`runH = none` ⇒ the allocator refused):
      with a never-refusing allocator every history runs to the end;
    * after EVERY prefix `pre` that ran to its end, the observations (return values and caught panic
      classes) are a trace of the reference multiset from `[]`, the table satisfies `TblInv`, holds
      exactly the reference's elements (`List.Perm`, duplicates counted), and `len()` is their
      number. -/
theorem table_history_refines (hc : CfgOk cfg) (env : Env) (H : Nat → Nat)
    (hh : ∀ c k, env.hash c k = some (H k)) (hsz : cfg.size ≠ 0 ∨ cfg.zstDupFixed = true)
    (ops : List TableOp) (hct : ∀ op ∈ ops, op.contract H env) (w0 : World)
    (h0 : w0.t = Raw.new cfg.W) :
    Table.runHFaults cfg env ops w0 = false ∧
    ((∀ j, env.allocOk j = true) → ∃ os wf, Table.runH cfg env ops w0 = some (os, wf)) ∧
    ∀ pre post, ops = pre ++ post → ∀ os w, Table.runH cfg env pre w0 = some (os, w) →
      ∃ ref, Trace cfg H (Table.envFor cfg env) pre [] os ref ∧ TblInv cfg H w.t ∧
        List.Perm w.t.elems ref ∧ w.t.items = ref.length := by
  have hinv0 : TblInv cfg H w0.t := by rw [h0]; exact TblInv.new hc H
  have hel0 : List.Perm w0.t.elems [] := by rw [h0]; simp [Raw.elems, Raw.new]
  have hct' : ∀ op ∈ ops, op.contract H (Table.envFor cfg env) :=
    fun op hop => (TableOp.contract_envFor H env op).2 (hct op hop)
  obtain ⟨a1, a2, _⟩ := runH_refines_from hc env H hh hsz ops w0 [] hinv0 hel0 hct'
  refine ⟨a1, fun ha => ?_, fun pre post hpp os w hr => ?_⟩
  · have := a2 ha
    cases hr : Table.runH cfg env ops w0 with
    | none => rw [hr] at this; cases this
    | some pr => exact ⟨pr.1, pr.2, rfl⟩
  · have hctp : ∀ op ∈ pre, op.contract H (Table.envFor cfg env) :=
      fun op hop => hct' op (by rw [hpp]; exact List.mem_append_left _ hop)
    exact (runH_refines_from hc env H hh hsz pre w0 [] hinv0 hel0 hctp).2.2 os w hr

/-! ### the reference is pinned down where the closures are lawful -/

theorem TRef.Core.find_some_inv {H : Nat → Nat} {ev : Env} {l l' : List Elem} {hash q : Nat} {x : Elem}
    (h : Core cfg H ev l (.find hash q) (.ret (.elem (some x))) l') : x ∈ l ∧ Acc ev q x := by
  cases h with
  | find_some hx hacc => exact ⟨hx, hacc⟩

theorem TRef.Core.iterHash_inv {H : Nat → Nat} {ev : Env} {l l' : List Elem} {hash : Nat}
    {idxs : List Nat} {es : List Elem}
    (h : Core cfg H ev l (.iterHash hash) (.ret (.hits idxs es)) l') :
    idxs.Nodup ∧ es.length = idxs.length ∧ List.Subperm es l ∧
      List.Subperm (l.filter fun x => H x.k == hash) es := by
  cases h with
  | iterHash b1 b2 b3 b4 => exact ⟨b1, b2, b3, b4⟩

/-- Whatever a look-up returns is in the reference multiset at that time, and was accepted. -/
theorem TRef.Step.find_sound {H : Nat → Nat} {ev : Env} {l l' : List Elem} {hash q : Nat} {x : Elem}
    (h : Step cfg H ev l (.find hash q) (.ret (.elem (some x))) l') :
    x ∈ l ∧ List.Perm l l' ∧ ∃ c, ev.eq c q x = some true := by
  obtain ⟨a, b, ha, hb, hcore⟩ := h
  cases hcore with
  | find_some hx hacc => exact ⟨ha.mem_iff.mp hx, ha.symm.trans hb, hacc⟩

/-- With the lawful closure `|x| x.key == q` and the hash of `q`, `find` is fully determined:
    `Some` stored element with key `q` iff there is one — never a panic, state unchanged. -/
theorem TRef.Step.find_lawful {H : Nat → Nat} {ev : Env} (hl : Lawful ev H) {l l' : List Elem}
    {q : Nat} {o : Table.TObs} (h : Step cfg H ev l (.find (H q) q) o l') :
    List.Perm l l' ∧
    ((∃ x, o = .ret (.elem (some x)) ∧ x ∈ l ∧ x.k = q) ∨
     (o = .ret (.elem none) ∧ ∀ x ∈ l, x.k ≠ q)) := by
  obtain ⟨a, b, ha, hb, hcore⟩ := h
  cases hcore with
  | find_some hx hacc =>
    obtain ⟨c, hc'⟩ := hacc
    exact ⟨ha.symm.trans hb, .inl ⟨_, rfl, ha.mem_iff.mp hx, hl.eq_true hc'⟩⟩
  | find_none hno =>
    refine ⟨ha.symm.trans hb, .inr ⟨rfl, fun x hx hk => ?_⟩⟩
    subst hk
    exact hno x (ha.mem_iff.mpr hx) rfl (fun c => by rw [hl.eq]; simp)
  | find_panic hp =>
    obtain ⟨x, c, hp⟩ := hp
    exact absurd hp hl.eq_ne_none

/-- `insert_unique` adds exactly the new element, also when an equal one is stored. -/
theorem TRef.Step.insert_ok {H : Nat → Nat} {ev : Env} {l l' : List Elem} {hash : Nat} {e : Elem}
    (h : Step cfg H ev l (.insertUnique hash e) (.ret .unit) l') : List.Perm l' (e :: l) := by
  obtain ⟨a, b, ha, hb, hcore⟩ := h
  cases hcore with
  | insert_ok => exact hb.symm.trans (List.Perm.cons e ha)

/-- `find_entry(..).remove()` takes exactly the returned element out. -/
theorem TRef.Step.remove_ok {H : Nat → Nat} {ev : Env} {l l' : List Elem} {hash q : Nat} {old : Elem}
    (h : Step cfg H ev l (.findEntryRemove hash q none) (.ret (.elem (some old))) l') :
    old ∈ l ∧ List.Perm (old :: l') l := by
  obtain ⟨a, b, ha, hb, hcore⟩ := h
  cases hcore with
  | fer_remove hx _ hperm =>
    exact ⟨ha.mem_iff.mp hx, ((List.Perm.cons old hb).symm.trans hperm).trans ha⟩

/-! ## 5. the property, in its own words -/

/-- (a) **Every element inserted and not since removed is found.** After any history, for every
    element `e` of the reference multiset: `find(H e.k, eq)` with a closure that accepts `e` (and
    never panics) returns `Some` stored element that the closure accepted; with the lawful closure
    `|x| x.key == e.k` it returns an element with key `e.k`. The table is untouched. -/
theorem inserted_and_not_removed_is_found (hc : CfgOk cfg) (env : Env) (H : Nat → Nat)
    (hh : ∀ c k, env.hash c k = some (H k)) (hsz : cfg.size ≠ 0 ∨ cfg.zstDupFixed = true)
    (ops : List TableOp) (hct : ∀ op ∈ ops, op.contract H env) (w0 : World)
    (h0 : w0.t = Raw.new cfg.W) (os : List Table.TObs) (wf : World)
    (hrun : Table.runH cfg env ops w0 = some (os, wf)) :
    ∃ ref, Trace cfg H (Table.envFor cfg env) ops [] os ref ∧ List.Perm wf.t.elems ref ∧
      ∀ e ∈ ref,
        (∀ q, (∀ c, env.eq c q e = some true) → (∀ c x, env.eq c q x ≠ none) →
          ∃ e' w', Table.stepH cfg env (.find (H e.k) q) wf = .ok (.elem (some e'), w') ∧
            e' ∈ ref ∧ (∃ c, env.eq c q e' = some true) ∧ w'.t = wf.t) ∧
        (Lawful env H →
          ∃ e' w', Table.stepH cfg env (.find (H e.k) e.k) wf = .ok (.elem (some e'), w') ∧
            e' ∈ ref ∧ e'.k = e.k ∧ w'.t = wf.t) := by
  have hp := probe_covers cfg hc.spec.width
  obtain ⟨ref, t1, t2, t3, _⟩ :=
    (table_history_refines hc env H hh hsz ops hct w0 h0).2.2 ops [] (by simp) os wf hrun
  refine ⟨ref, t1, t3, fun e he => ?_⟩
  obtain ⟨i, hi⟩ := ts_mem_elems_iff.mp (t3.mem_iff.mpr he)
  constructor
  · intro q hyes htot
    obtain ⟨e', w', k1, k2, _, k4, k5, _⟩ :=
      Table.find_finds_stored hc hp (Table.envFor cfg env) H wf t2 hi q hyes htot
    refine ⟨e', w', ?_, t3.mem_iff.mp k4, k5, k2⟩
    simp only [Table.stepH, k1]
  · intro hl
    have hl' : Lawful (Table.envFor cfg env) H := ⟨hl.hash, hl.eq⟩
    obtain ⟨r, w', k1, k2, _, k4, k5⟩ := Table.find_lawful hc hp (Table.envFor cfg env) H hl' e.k wf t2
    cases r with
    | none => exact absurd rfl (k5.mp rfl e (t3.mem_iff.mpr he))
    | some e' =>
      obtain ⟨m1, m2⟩ := k4 e' rfl
      refine ⟨e', w', ?_, t3.mem_iff.mp m1, m2, k2⟩
      simp only [Table.stepH, k1]

/-- (b) **Nothing that was removed is ever returned.** After any history, whatever a look-up
    `find(hash, eq)` returns — any hash, any closure — is an element of the reference multiset at
    that time. (Inside a history the same is part of the reference step: `TRef.Step.find_sound`.) -/
theorem removed_is_never_returned (hc : CfgOk cfg) (env : Env) (H : Nat → Nat)
    (hh : ∀ c k, env.hash c k = some (H k)) (hsz : cfg.size ≠ 0 ∨ cfg.zstDupFixed = true)
    (ops : List TableOp) (hct : ∀ op ∈ ops, op.contract H env) (w0 : World)
    (h0 : w0.t = Raw.new cfg.W) (os : List Table.TObs) (wf : World)
    (hrun : Table.runH cfg env ops w0 = some (os, wf)) :
    ∃ ref, Trace cfg H (Table.envFor cfg env) ops [] os ref ∧ List.Perm wf.t.elems ref ∧
      ∀ hash q x w', Table.stepH cfg env (.find hash q) wf = .ok (.elem (some x), w') →
        x ∈ ref ∧ (∃ c, env.eq c q x = some true) ∧ w'.t = wf.t := by
  have hp := probe_covers cfg hc.spec.width
  obtain ⟨ref, t1, t2, t3, _⟩ :=
    (table_history_refines hc env H hh hsz ops hct w0 h0).2.2 ops [] (by simp) os wf hrun
  refine ⟨ref, t1, t3, fun hash q x w' hs => ?_⟩
  have hstep := th_find hc hp (Table.envFor cfg env) H hash q wf t2
  have hfr := Table.find_returns_stored hc hp (Table.envFor cfg env) hash q wf t2.inv
  simp only [Table.stepH] at hs
  cases hf : Table.findElem cfg (Table.envFor cfg env) hash q wf with
  | ok pr =>
    obtain ⟨r, w2⟩ := pr
    rw [hf] at hs hstep hfr
    simp only [Res.ok.injEq, Prod.mk.injEq, TRet.elem.injEq] at hs
    obtain ⟨rfl, rfl⟩ := hs
    obtain ⟨_, l', _, hcore⟩ := hstep
    obtain ⟨hx, hacc⟩ := hcore.find_some_inv
    exact ⟨t3.mem_iff.mp hx, hacc, hfr.1⟩
  | panic c w2 => rw [hf] at hs; cases hs
  | abort => rw [hf] at hs; cases hs
  | fault f => rw [hf] at hs; cases hs

/-- (c) **`len()` counts the stored elements, duplicates included**, after any history. -/
theorem len_counts_duplicates_history (hc : CfgOk cfg) (env : Env) (H : Nat → Nat)
    (hh : ∀ c k, env.hash c k = some (H k)) (hsz : cfg.size ≠ 0 ∨ cfg.zstDupFixed = true)
    (ops : List TableOp) (hct : ∀ op ∈ ops, op.contract H env) (w0 : World)
    (h0 : w0.t = Raw.new cfg.W) (os : List Table.TObs) (wf : World)
    (hrun : Table.runH cfg env ops w0 = some (os, wf)) :
    ∃ ref, Trace cfg H (Table.envFor cfg env) ops [] os ref ∧ List.Perm wf.t.elems ref ∧
      Table.stepH cfg env .len wf = .ok (.nat ref.length, wf) := by
  obtain ⟨ref, t1, _, t3, t4⟩ :=
    (table_history_refines hc env H hh hsz ops hct w0 h0).2.2 ops [] (by simp) os wf hrun
  exact ⟨ref, t1, t3, by simp only [Table.stepH, t4]⟩

/-- (d) **`iter_hash(h)`** after any history: it yields pairwise distinct buckets, the yielded
    elements are stored elements (a sub-multiset of the reference), and every stored element that
    was inserted with hash `h` is among them, as often as it is stored. -/
theorem iter_hash_history (hc : CfgOk cfg) (env : Env) (H : Nat → Nat)
    (hh : ∀ c k, env.hash c k = some (H k)) (hsz : cfg.size ≠ 0 ∨ cfg.zstDupFixed = true)
    (ops : List TableOp) (hct : ∀ op ∈ ops, op.contract H env) (w0 : World)
    (h0 : w0.t = Raw.new cfg.W) (os : List Table.TObs) (wf : World)
    (hrun : Table.runH cfg env ops w0 = some (os, wf)) (hash : Nat) :
    ∃ ref idxs es, Trace cfg H (Table.envFor cfg env) ops [] os ref ∧ List.Perm wf.t.elems ref ∧
      Table.stepH cfg env (.iterHash hash) wf = .ok (.hits idxs es, wf) ∧
      idxs.Nodup ∧ es.length = idxs.length ∧ List.Subperm es ref ∧
      List.Subperm (ref.filter fun x => H x.k == hash) es := by
  have hp := probe_covers cfg hc.spec.width
  obtain ⟨ref, t1, t2, t3, _⟩ :=
    (table_history_refines hc env H hh hsz ops hct w0 h0).2.2 ops [] (by simp) os wf hrun
  have hstep := th_iterHashOp hc hp (Table.envFor cfg env) H hash wf t2
  cases hi : Table.iterHash cfg wf.t hash with
  | error f => rw [hi] at hstep; exact hstep.elim
  | ok l =>
    rw [hi] at hstep
    obtain ⟨_, l', _, hcore⟩ := hstep
    obtain ⟨b1, b2, b3, b4⟩ := hcore.iterHash_inv
    refine ⟨ref, l, _, t1, t3, by simp only [Table.stepH, hi], b1, b2, b3.trans t3.subperm, ?_⟩
    exact ((t3.filter _).symm.subperm).trans b4


/-! ## 6. non-vacuity: a concrete history with duplicates

`rfEnv` / `rfH` (Hb/Proofs/Refine.lean): hash `H k = k * 2^57 + k`, closure `|x| x.key == q`,
`retain` predicate "keep odd payloads, bump every payload by one". The history inserts two EQUAL
elements with `insert_unique` (and a third one with another key), removes one of the duplicates
through `find_entry(..).remove()`, and runs `retain`. -/

def thOps : List TableOp :=
  [.insertUnique (rfH 1) ⟨1, 10, 0, 7⟩, .insertUnique (rfH 1) ⟨1, 10, 0, 7⟩,
   .insertUnique (rfH 2) ⟨2, 20, 0, 8⟩, .len, .find (rfH 1) 1,
   .findEntryRemove (rfH 1) 1 none, .len, .find (rfH 1) 1, .retain, .iterHash (rfH 1), .len,
   .find (rfH 2) 2]

/-- `len()` is 3 with the duplicate, 2 after removing one copy — the other copy is still found —
    and 1 after `retain` dropped the element with the even payload. -/
def thObs : List Table.TObs :=
  [.ret .unit, .ret .unit, .ret .unit, .ret (.nat 3), .ret (.elem (some ⟨1, 10, 0, 7⟩)),
   .ret (.elem (some ⟨1, 10, 0, 7⟩)), .ret (.nat 2), .ret (.elem (some ⟨1, 10, 0, 7⟩)), .ret .unit,
   .ret (.hits [2] [⟨1, 10, 0, 8⟩]), .ret (.nat 1), .ret (.elem none)]

/-- The history meets the side conditions of the theorem … -/
theorem thOps_contract : ∀ op ∈ thOps, op.contract rfH rfEnv := by
  intro op hop
  simp only [thOps, List.mem_cons, List.not_mem_nil, or_false] at hop
  rcases hop with rfl | rfl | rfl | rfl | rfl | rfl | rfl | rfl | rfl | rfl | rfl | rfl
  all_goals first
    | trivial
    | rfl
    | (intro ne hne; cases hne)

/-- … the environment meets the re-hash contract … -/
example : ∀ c k, rfEnv.hash c k = some (rfH k) := fun _ _ => rfl

/-- … and the model runs it (SSE2 scanner): these observations, one element left. -/
example :
    (match Table.runH { ops := Sse2.ops } rfEnv thOps { t := Raw.new 16 } with
     | some (os, wf) => some (os, wf.t.elems, wf.t.items)
     | none => none) = some (thObs, [⟨1, 10, 0, 8⟩], 1) := by
  decide +kernel

/-- The same with the portable scanner. -/
example :
    (match Table.runH { ops := Generic.ops } rfEnv thOps { t := Raw.new 8 } with
     | some (os, wf) => some (os, wf.t.elems, wf.t.items)
     | none => none) = some (thObs, [⟨1, 10, 0, 8⟩], 1) := by
  decide +kernel

/-- The theorem applied to it: `thObs` is a reference trace from `[]` ending in the one-element
    multiset. (`GroupSpec Sse2.ops` is `sse2_groupSpec`, Hb/Proofs/Group.lean; taken as a hypothesis
    only to keep `bv_decide`'s axioms out of this file.) -/
theorem th_example_refines (hs : GroupSpec Sse2.ops) :
    ∃ ref, Trace { ops := Sse2.ops } rfH (Table.envFor { ops := Sse2.ops } rfEnv) thOps [] thObs ref ∧
      List.Perm [⟨1, 10, 0, 8⟩] ref := by
  have hc : CfgOk { ops := Sse2.ops } := ⟨hs, by decide⟩
  have hall := table_history_refines hc rfEnv rfH (fun _ _ => rfl) (.inl (by decide)) thOps
    thOps_contract { t := Raw.new 16 } rfl
  obtain ⟨os, wf, hr⟩ := hall.2.1 (fun _ => rfl)
  have hev : (match Table.runH { ops := Sse2.ops } rfEnv thOps { t := Raw.new 16 } with
     | some (os, wf) => some (os, wf.t.elems)
     | none => none) = some (thObs, [⟨1, 10, 0, 8⟩]) := by decide +kernel
  rw [hr] at hev
  simp only [Option.some.injEq, Prod.mk.injEq] at hev
  obtain ⟨rfl, hel⟩ := hev
  obtain ⟨ref, t1, _, t3, _⟩ := hall.2.2 thOps [] (by simp) _ wf hr
  exact ⟨ref, t1, hel ▸ t3⟩



/-! ### a history with caught panics

The closure panics when probed with `99`; `get_many_mut` names one element twice. Both calls unwind,
the history goes on, and every later observation is still related to the reference. -/

def thEnvP : Env :=
  { rfEnv with eq := fun _ q e => if q == 99 then none else some (q == e.k) }

def thOpsP : List TableOp :=
  [.insertUnique (rfH 1) ⟨1, 10, 0, 7⟩, .find (rfH 1) 99, .entryOrInsert (rfH 1) 1 ⟨1, 11, 0, 9⟩,
   .entryInsert (rfH 3) 3 ⟨3, 30, 0, 5⟩, .getManyMut false [(rfH 1, 1), (rfH 1, 1)],
   .getManyMut false [(rfH 1, 1), (rfH 3, 3), (rfH 2, 2)], .findMut (rfH 3) 3 6,
   .findEntryRemove (rfH 3) 3 (some ⟨3, 31, 0, 1⟩), .extractIf 1, .iter 5, .drain 1 false, .len]

def thObsP : List Table.TObs :=
  [.ret .unit, .panic "eq", .ret (.occ true), .ret (.occ false), .panic "dup",
   .ret (.many [some ⟨1, 10, 0, 7⟩, some ⟨3, 30, 0, 5⟩, none]), .ret (.elem (some ⟨3, 30, 0, 6⟩)),
   .ret (.elem (some ⟨3, 30, 0, 6⟩)), .ret (.elems [⟨1, 10, 0, 1008⟩]), .ret (.elems [⟨3, 31, 0, 1⟩]),
   .ret (.elems [⟨3, 31, 0, 1⟩]), .ret (.nat 0)]

theorem thOpsP_contract : ∀ op ∈ thOpsP, op.contract rfH thEnvP := by
  intro op hop
  simp only [thOpsP, List.mem_cons, List.not_mem_nil, or_false] at hop
  rcases hop with rfl | rfl | rfl | rfl | rfl | rfl | rfl | rfl | rfl | rfl | rfl | rfl
  all_goals first
    | trivial
    | rfl
    | (intro ne hne; cases hne; rfl)
    | (refine ⟨rfl, fun c x h => ?_⟩
       simp [thEnvP] at h
       rw [← h])

example : ∀ c k, thEnvP.hash c k = some (rfH k) := fun _ _ => rfl

example :
    (match Table.runH { ops := Sse2.ops } thEnvP thOpsP { t := Raw.new 16 } with
     | some (os, wf) => some (os, wf.t.elems, wf.t.items)
     | none => none) = some (thObsP, [], 0) := by
  decide +kernel

#print axioms table_history_refines
#print axioms inserted_and_not_removed_is_found
#print axioms removed_is_never_returned
#print axioms len_counts_duplicates_history
#print axioms iter_hash_history
#print axioms TRef.Step.find_lawful
#print axioms th_example_refines
#print axioms runH_refines_from
#print axioms stepH_refines

end Hb
