/-
Look-ups (`find`, `find_or_find_insert_slot`):

* Part A — under the structural invariant `Inv` only, for EVERY environment (arbitrary,
  call-number-dependent, possibly panicking `eq`): the look-up terminates, never faults, leaves
  the table untouched, and any returned bucket is a live full bucket.
* Part B — for lawful environments under `InvL`: the look-up finds exactly the bucket holding the
  key, and reports absence exactly when the key is absent.
-/
import Hb.Proofs.FindSlot
namespace Hb

/-! ### worlds differing only in the `eq` call counter -/

/-- `w'` is `w` with `n` more `eq` calls made. -/
def EcOnly (w w' : World) : Prop := ∃ n, w' = { w with ec := w.ec + n }

theorem EcOnly.refl (w : World) : EcOnly w w := ⟨0, rfl⟩

theorem EcOnly.trans {a b c : World} (h1 : EcOnly a b) (h2 : EcOnly b c) : EcOnly a c := by
  obtain ⟨n, rfl⟩ := h1; obtain ⟨m, rfl⟩ := h2; exact ⟨n + m, by simp [Nat.add_assoc]⟩

theorem EcOnly.step (w : World) : EcOnly w { w with ec := w.ec + 1 } := ⟨1, rfl⟩

theorem EcOnly.t {w w' : World} (h : EcOnly w w') : w'.t = w.t := by obtain ⟨n, rfl⟩ := h; rfl
theorem EcOnly.log {w w' : World} (h : EcOnly w w') : w'.log = w.log := by obtain ⟨n, rfl⟩ := h; rfl
theorem EcOnly.hc {w w' : World} (h : EcOnly w w') : w'.hc = w.hc := by obtain ⟨n, rfl⟩ := h; rfl
theorem EcOnly.ec_le {w w' : World} (h : EcOnly w w') : w.ec ≤ w'.ec := by
  obtain ⟨n, rfl⟩ := h; exact Nat.le_add_right _ _

/-! ### a full loaded byte is the control byte of a live bucket -/

theorem isFull_EMPTY : isFull EMPTY = false := by decide

theorem slotGet_ok {t : Raw} {i : Nat} {e : Elem} (h : t.slots[i]?.join = some e) :
    slotGet t i = .ok e := by
  unfold slotGet
  cases hs : t.slots[i]? with
  | none => rw [hs] at h; simp at h
  | some o =>
    cases o with
    | none => rw [hs] at h; simp at h
    | some e' => rw [hs] at h; simp at h; subst h; rfl

theorem Inv.slots_size (h : Inv cfg t) (ha : t.alloc = true) : t.slots.size = t.buckets := by
  rcases h.geom with hs | hal
  · rw [hs.1] at ha; cases ha
  · exact hal.2.2.2.1

/-- A full byte in a loaded group is the control byte of the bucket it decodes to (never padding),
    and that bucket holds a live element. -/
theorem full_lane (hc : CfgOk cfg) (h : Inv cfg t) (hp : pos < t.buckets) (hj : j < cfg.W)
    (hf : isFull (t.ctrlAt (pos + j)) = true) :
    t.ctrlAt ((pos + j) &&& t.mask) = t.ctrlAt (pos + j) ∧ (pos + j) &&& t.mask < t.buckets ∧
      ∃ e, t.slots[(pos + j) &&& t.mask]?.join = some e := by
  have hne : t.ctrlAt (pos + j) ≠ EMPTY := by
    intro he; rw [he, isFull_EMPTY] at hf; cases hf
  have heq : t.ctrlAt (pos + j) = t.ctrlAt ((pos + j) &&& t.mask) := by
    rcases load_view' hc h hp hj with hv | hv
    · exact hv
    · exact absurd hv hne
  have hlt := h.and_mask_lt (pos + j)
  have hsz : t.slots.size = t.buckets := by
    cases ha : t.alloc
    · exfalso
      have h1 := h.singleton_ctrl ha hj
      have : pos = 0 := by omega
      subst this; rw [Nat.zero_add] at hne; exact hne h1.1
    · exact h.slots_size ha
  have := (h.live _ (by omega)).2 (heq ▸ hf)
  exact ⟨heq.symm, hlt, Option.isSome_iff_exists.mp this⟩

/-! ### A1. `scanTag` -/

/-- Core form of `scanTag_total` over a fixed table `t`. -/
theorem scanTag_run (hc : CfgOk cfg) (env : Env) (q pos : Nat) (t : Raw) (h : Inv cfg t)
    (hp : pos < t.buckets) :
    ∀ (lanes : List Nat) (w : World), w.t = t →
    (∀ b ∈ lanes, b < cfg.W ∧ isFull (t.ctrlAt (pos + b)) = true) →
    (∃ idx w', scanTag env q pos lanes w = .ok (some idx, w') ∧ EcOnly w w' ∧
        (∃ b ∈ lanes, idx = (pos + b) &&& t.mask) ∧ idx < t.buckets ∧
        isFull (t.ctrlAt idx) = true ∧
        ∃ e c, t.slots[idx]?.join = some e ∧ w.ec ≤ c ∧ c < w'.ec ∧ env.eq c q e = some true) ∨
    (∃ w', scanTag env q pos lanes w = .ok (none, w') ∧ EcOnly w w' ∧
        ∀ b ∈ lanes, ∃ e c, t.slots[(pos + b) &&& t.mask]?.join = some e ∧ w.ec ≤ c ∧ c < w'.ec ∧
          env.eq c q e = some false) ∨
    (∃ w', scanTag env q pos lanes w = .panic "eq" w' ∧ EcOnly w w' ∧
        ∃ e c, env.eq c q e = none) := by
  intro lanes
  induction lanes with
  | nil =>
    intro w _ _
    exact .inr (.inl ⟨w, rfl, EcOnly.refl w, fun b hb => by cases hb⟩)
  | cons b rest ih =>
    intro w hw hl
    obtain ⟨hbW, hbf⟩ := hl b List.mem_cons_self
    obtain ⟨hce, hlt, e, he⟩ := full_lane hc h hp hbW hbf
    have hget := slotGet_ok he
    have hstep := EcOnly.step w
    cases heq : env.eq w.ec q e with
    | none =>
      refine .inr (.inr ⟨{ w with ec := w.ec + 1 }, ?_, hstep, e, w.ec, heq⟩)
      simp only [scanTag, hw, hget, heq]
    | some ans =>
      cases ans with
      | true =>
        refine .inl ⟨(pos + b) &&& t.mask, { w with ec := w.ec + 1 }, ?_, hstep,
          ⟨b, List.mem_cons_self, rfl⟩, hlt, by rw [hce]; exact hbf,
          e, w.ec, he, Nat.le_refl _, Nat.lt_succ_self _, heq⟩
        simp only [scanTag, hw, hget, heq]
      | false =>
        have hrun : scanTag env q pos (b :: rest) w = scanTag env q pos rest { w with ec := w.ec + 1 } := by
          simp only [scanTag, hw, hget, heq]
        rw [hrun]
        rcases ih { w with ec := w.ec + 1 } hw (fun b' hb' => hl b' (List.mem_cons_of_mem _ hb')) with
          ⟨idx, w', h1, h2, ⟨b', hb', hidx⟩, h4, h5, e', c, h6, h7, h8, h9⟩ | ⟨w', h1, h2, h3⟩ | ⟨w', h1, h2, h3⟩
        · exact .inl ⟨idx, w', h1, hstep.trans h2, ⟨b', List.mem_cons_of_mem _ hb', hidx⟩, h4, h5,
            e', c, h6, by simp only at h7; omega, h8, h9⟩
        · refine .inr (.inl ⟨w', h1, hstep.trans h2, ?_⟩)
          intro b' hb'
          rcases List.mem_cons.mp hb' with rfl | hb'
          · exact ⟨e, w.ec, he, Nat.le_refl _, by have := h2.ec_le; simp only at this; omega, heq⟩
          · obtain ⟨e', c, h6, h7, h8, h9⟩ := h3 b' hb'
            exact ⟨e', c, h6, by simp only at h7; omega, h8, h9⟩
        · exact .inr (.inr ⟨w', h1, hstep.trans h2, h3⟩)

/-- **A1.** `scanTag` over lanes that are all full bytes of the group loaded at `pos` never faults
    or aborts, whatever `eq` does; it only advances the `eq` call counter; a returned bucket is a
    live full bucket whose element answered `true`; `none` means every lane answered `false`. -/
theorem scanTag_total (hc : CfgOk cfg) (env : Env) (q pos : Nat) (lanes : List Nat) (w : World)
    (h : Inv cfg w.t) (hp : pos < w.t.buckets)
    (hl : ∀ b ∈ lanes, b < cfg.W ∧ isFull (w.t.ctrlAt (pos + b)) = true) :
    (∃ r w', scanTag env q pos lanes w = .ok (r, w') ∧ w'.t = w.t ∧ w'.log = w.log ∧ w'.hc = w.hc ∧
      w.ec ≤ w'.ec ∧
      (∀ idx, r = some idx → (∃ b ∈ lanes, idx = (pos + b) &&& w.t.mask) ∧ idx < w.t.buckets ∧
        isFull (w.t.ctrlAt idx) = true ∧
        ∃ e c, w.t.slots[idx]?.join = some e ∧ w.ec ≤ c ∧ c < w'.ec ∧ env.eq c q e = some true) ∧
      (r = none → ∀ b ∈ lanes, ∃ e c, w.t.slots[(pos + b) &&& w.t.mask]?.join = some e ∧
        w.ec ≤ c ∧ c < w'.ec ∧ env.eq c q e = some false)) ∨
    (∃ w', scanTag env q pos lanes w = .panic "eq" w' ∧ w'.t = w.t ∧ w'.log = w.log ∧
      w'.hc = w.hc ∧ w.ec ≤ w'.ec) := by
  rcases scanTag_run hc env q pos w.t h hp lanes w rfl hl with
    ⟨idx, w', h1, h2, h3⟩ | ⟨w', h1, h2, h3⟩ | ⟨w', h1, h2, _⟩
  · refine .inl ⟨some idx, w', h1, h2.t, h2.log, h2.hc, h2.ec_le, ?_, fun hn => by cases hn⟩
    intro idx' hi; cases hi; exact h3
  · exact .inl ⟨none, w', h1, h2.t, h2.log, h2.hc, h2.ec_le, fun _ hn => (by cases hn), fun _ => h3⟩
  · exact .inr ⟨w', h1, h2.t, h2.log, h2.hc, h2.ec_le⟩

/-! ### one probe step -/

/-- Bucket `idx` is a live full bucket whose element answered `true` to some `eq` call. -/
def FoundOk (env : Env) (q : Nat) (t : Raw) (idx : Nat) : Prop :=
  idx < t.buckets ∧ isFull (t.ctrlAt idx) = true ∧
    ∃ e c, t.slots[idx]?.join = some e ∧ env.eq c q e = some true

/-- Every lane of the group at `pos` that carries `tag` decodes to a bucket whose element answered
    `false` to some `eq` call. -/
def MissAt (cfg : Cfg) (env : Env) (q tag : Nat) (t : Raw) (pos : Nat) : Prop :=
  ∀ j, j < cfg.W → t.ctrlAt (pos + j) = tag →
    ∃ e c, t.slots[(pos + j) &&& t.mask]?.join = some e ∧ env.eq c q e = some false

theorem xor_one_lt_128 {tag : Nat} (h : tag < 128) : tag ^^^ 1 < 128 :=
  Nat.xor_lt_two_pow (n := 7) h (by decide)

theorem matchEmpty_isEmpty (hc : CfgOk cfg) (hv : ValidGroup cfg.W g)
    (hget : ∀ j, j < cfg.W → g.getD j 0 = t.ctrlAt (pos + j)) :
    (cfg.ops.matchEmpty g).isEmpty = !windowHasEmpty cfg t pos := by
  rw [hc.spec.matchEmpty g hv, Bool.eq_iff_iff]
  simp only [Spec.matchEmpty, Spec.lanesWhere, hv.1, windowHasEmpty, List.isEmpty_iff,
    List.filter_eq_nil_iff, List.mem_range, Bool.not_eq_true', List.any_eq_false]
  constructor
  · intro hx j hj; rw [← hget j hj]; exact hx j hj
  · intro hx j hj; rw [hget j hj]; exact hx j hj

theorem windowHasEmpty_iff :
    windowHasEmpty cfg t pos = true ↔ ∃ j, j < cfg.W ∧ t.ctrlAt (pos + j) = EMPTY := by
  simp [windowHasEmpty]

theorem step_scan (hc : CfgOk cfg) (env : Env) (q tag : Nat) (htag : tag < 128) (t : Raw)
    (h : Inv cfg t) (pos : Nat) (hp : pos < t.buckets) (w : World) (hw : w.t = t) :
    ∃ g, loadGroup cfg.W t pos = .ok g ∧ ValidGroup cfg.W g ∧
      (∀ j, j < cfg.W → g.getD j 0 = t.ctrlAt (pos + j)) ∧
      ((cfg.ops.matchEmpty g).isEmpty = !windowHasEmpty cfg t pos) ∧
      ((∃ idx w', scanTag env q pos (cfg.ops.matchTag g tag) w = .ok (some idx, w') ∧ EcOnly w w' ∧
          FoundOk env q t idx) ∨
       (∃ w', scanTag env q pos (cfg.ops.matchTag g tag) w = .ok (none, w') ∧ EcOnly w w' ∧
          MissAt cfg env q tag t pos) ∨
       (∃ w', scanTag env q pos (cfg.ops.matchTag g tag) w = .panic "eq" w' ∧ EcOnly w w' ∧
          ∃ e c, env.eq c q e = none)) := by
  obtain ⟨g, hg, hv, hget⟩ := loadGroup_ok hc h hp
  refine ⟨g, hg, hv, hget, matchEmpty_isEmpty hc hv hget, ?_⟩
  have hl : ∀ b ∈ cfg.ops.matchTag g tag, b < cfg.W ∧ isFull (t.ctrlAt (pos + b)) = true := by
    intro b hb
    obtain ⟨hbW, hbv⟩ := hc.spec.tagSound g tag hv htag b hb
    refine ⟨hbW, ?_⟩
    rw [← hget b hbW]
    have h1 := xor_one_lt_128 htag
    rcases hbv with hbv | ⟨hbv, _⟩ <;> rw [hbv] <;> simp only [isFull, decide_eq_true_eq] <;> omega
  rcases scanTag_run hc env q pos t h hp _ w hw hl with
    ⟨idx, w', h1, h2, _, h4, h5, e, c, h6, _, _, h9⟩ | ⟨w', h1, h2, h3⟩ | ⟨w', h1, h2, h3⟩
  · exact .inl ⟨idx, w', h1, h2, h4, h5, e, c, h6, h9⟩
  · refine .inr (.inl ⟨w', h1, h2, ?_⟩)
    intro j hj hjt
    have := hc.spec.tagComplete g tag hv htag j hj (by rw [hget j hj, hjt])
    obtain ⟨e, c, h6, _, _, h9⟩ := h3 j this
    exact ⟨e, c, h6, h9⟩
  · exact .inr (.inr ⟨w', h1, h2, h3⟩)

/-! ### A3. the probe loop of `find_or_find_insert_slot` -/

/-- The insert slot remembered after a group has been inspected. -/
def insNext (cfg : Cfg) (t : Raw) (g : List Nat) (pos : Nat) : Option Nat → Option Nat
  | some s => some s
  | none => findInsertSlotInGroup cfg t g pos

theorem fofisLoop_succ (cfg : Cfg) (env : Env) (q tag fuel : Nat) (p : ProbeSeq) (ins : Option Nat)
    (w : World) :
    fofisLoop cfg env q tag (fuel + 1) p ins w =
      match loadGroup cfg.W w.t p.pos with
      | .error f => .fault f
      | .ok g =>
        match scanTag env q p.pos (cfg.ops.matchTag g tag) w with
        | .ok (some idx, w') => .ok (.ok idx, w')
        | .ok (none, w') =>
          if (cfg.ops.matchEmpty g).isEmpty then
            fofisLoop cfg env q tag fuel (p.moveNext cfg.W w'.t.mask) (insNext cfg w'.t g p.pos ins) w'
          else
            match insNext cfg w'.t g p.pos ins with
            | none => .fault "unwrap_unchecked(None) insert_slot"
            | some s =>
              match fixInsertSlot cfg w'.t s with
              | .error f => .fault f
              | .ok s' => .ok (.error s', w')
        | .panic c w' => .panic c w'
        | .abort => .abort
        | .fault f => .fault f := by
  cases ins <;> rfl

/-- Relation between the insert slot remembered by `fofisLoop` (with `fuel` left, about to inspect
    probe step `s`) and `find_insert_slot`. -/
def InsInv (cfg : Cfg) (t : Raw) (hash fuel s : Nat) : Option Nat → Prop
  | none => findInsertSlot cfg t hash =
      findInsertSlotLoop cfg t fuel (probePos cfg.W cfg.bits t.mask hash s)
  | some x => findInsertSlot cfg t hash = fixInsertSlot cfg t x

theorem insInv_step {hash fuel s : Nat} {ins : Option Nat} (hi : InsInv cfg t hash (fuel + 1) s ins)
    (hg : loadGroup cfg.W t (probePos cfg.W cfg.bits t.mask hash s).pos = .ok g) :
    InsInv cfg t hash fuel (s + 1)
      (insNext cfg t g (probePos cfg.W cfg.bits t.mask hash s).pos ins) := by
  cases ins with
  | some x => exact hi
  | none =>
    simp only [insNext]
    cases hfi : findInsertSlotInGroup cfg t g (probePos cfg.W cfg.bits t.mask hash s).pos with
    | none =>
      simp only [InsInv] at hi ⊢
      rw [hi]; simp only [findInsertSlotLoop, hg, hfi]; rfl
    | some x =>
      simp only [InsInv] at hi ⊢
      rw [hi]; simp only [findInsertSlotLoop, hg, hfi]

theorem insNext_isSome (hc : CfgOk cfg) (hv : ValidGroup cfg.W g)
    (hget : ∀ j, j < cfg.W → g.getD j 0 = t.ctrlAt (pos + j))
    (hE : windowHasEmpty cfg t pos = true) (ins : Option Nat) :
    ∃ x, insNext cfg t g pos ins = some x := by
  cases ins with
  | some x => exact ⟨x, rfl⟩
  | none =>
    obtain ⟨j, hj, hje⟩ := windowHasEmpty_iff.mp hE
    have hhead := matchSpecial_head hc hv
    cases hfind : (List.range cfg.W).find? fun i => isSpecial (g.getD i 0) with
    | none =>
      rw [List.find?_range_eq_none] at hfind
      have := hfind j hj
      rw [hget j hj, hje] at this
      simp [isSpecial_EMPTY] at this
    | some b =>
      rw [hfind] at hhead
      exact ⟨(pos + b) &&& t.mask, by simp only [insNext, findInsertSlotInGroup, hhead]⟩

/-- Loop invariant of `fofisLoop`, for every environment. -/
theorem fofisLoop_run (hc : CfgOk cfg) (hpc : ProbeCovers cfg) (env : Env) (q tag hash : Nat)
    (htag : tag < 128) (t : Raw) (h : Inv cfg t) :
    ∀ (fuel s : Nat) (ins : Option Nat) (w : World), w.t = t →
      (∃ d, d < fuel ∧
        windowHasEmpty cfg t (probePos cfg.W cfg.bits t.mask hash (s + d)).pos = true) →
      InsInv cfg t hash fuel s ins →
      (∃ idx w', fofisLoop cfg env q tag fuel (probePos cfg.W cfg.bits t.mask hash s) ins w =
          .ok (.ok idx, w') ∧ EcOnly w w' ∧ FoundOk env q t idx) ∨
      (∃ slot w', fofisLoop cfg env q tag fuel (probePos cfg.W cfg.bits t.mask hash s) ins w =
          .ok (.error slot, w') ∧ EcOnly w w' ∧ findInsertSlot cfg t hash = .ok slot ∧
          ∃ s', s ≤ s' ∧
            windowHasEmpty cfg t (probePos cfg.W cfg.bits t.mask hash s').pos = true ∧
            ∀ s'', s ≤ s'' → s'' ≤ s' →
              MissAt cfg env q tag t (probePos cfg.W cfg.bits t.mask hash s'').pos) ∨
      (∃ w', fofisLoop cfg env q tag fuel (probePos cfg.W cfg.bits t.mask hash s) ins w =
          .panic "eq" w' ∧ EcOnly w w' ∧ ∃ e c, env.eq c q e = none) := by
  intro fuel
  induction fuel with
  | zero => intro s ins w _ ⟨d, hd, _⟩; omega
  | succ fuel ih =>
    intro s ins w hw ⟨d, hd, hdE⟩ hins
    have hp : (probePos cfg.W cfg.bits t.mask hash s).pos < t.buckets := probePos_lt ..
    obtain ⟨g, hg, hv, hget, hemp, hscan⟩ := step_scan hc env q tag htag t h _ hp w hw
    rw [fofisLoop_succ]
    simp only [hw, hg]
    rcases hscan with ⟨idx, w', h1, h2, h3⟩ | ⟨w', h1, h2, h3⟩ | ⟨w', h1, h2, h3⟩
    · exact .inl ⟨idx, w', by simp only [h1], h2, h3⟩
    · have hw' := h2.t.trans hw
      have hi' := insInv_step hins hg
      simp only [h1, hw', hemp]
      cases hE : windowHasEmpty cfg t (probePos cfg.W cfg.bits t.mask hash s).pos with
      | true =>
        obtain ⟨x, hx⟩ := insNext_isSome hc hv hget hE ins
        rw [hx] at hi'
        obtain ⟨slot, hslot, _, _⟩ := findInsertSlot_ok hc hpc h hash
        simp only [InsInv] at hi'
        rw [hslot] at hi'
        refine .inr (.inl ⟨slot, w', ?_, h2, hslot, s, Nat.le_refl _, hE, ?_⟩)
        · simp [hx, ← hi']
        · intro s'' ha hb
          have : s'' = s := by omega
          subst this; exact h3
      | false =>
        have hd0 : d ≠ 0 := by
          rintro rfl; rw [Nat.add_zero, hE] at hdE; cases hdE
        simp only [Bool.not_false, if_true]
        have hnext : (probePos cfg.W cfg.bits t.mask hash s).moveNext cfg.W t.mask =
            probePos cfg.W cfg.bits t.mask hash (s + 1) := rfl
        rw [hnext]
        rcases ih (s + 1) _ w' hw'
            ⟨d - 1, by omega, by rw [show s + 1 + (d - 1) = s + d by omega]; exact hdE⟩ hi' with
          ⟨idx, w'', k1, k2, k3⟩ | ⟨slot, w'', k1, k2, k3, s', k4, k5, k6⟩ | ⟨w'', k1, k2, k3⟩
        · exact .inl ⟨idx, w'', k1, h2.trans k2, k3⟩
        · refine .inr (.inl ⟨slot, w'', k1, h2.trans k2, k3, s', by omega, k5, ?_⟩)
          intro s'' ha hb
          by_cases hs : s'' = s
          · subst hs; exact h3
          · exact k6 s'' (by omega) hb
        · exact .inr (.inr ⟨w'', k1, h2.trans k2, k3⟩)
    · exact .inr (.inr ⟨w', by simp only [h1], h2, h3⟩)

/-! ### `find` is the projection of `find_or_find_insert_slot`'s loop -/

theorem findLoop_of_fofis (cfg : Cfg) (env : Env) (q tag : Nat) :
    ∀ (fuel : Nat) (p : ProbeSeq) (ins : Option Nat) (w : World),
    (∀ idx w', fofisLoop cfg env q tag fuel p ins w = .ok (.ok idx, w') →
      findLoop cfg env q tag fuel p w = .ok (some idx, w')) ∧
    (∀ slot w', fofisLoop cfg env q tag fuel p ins w = .ok (.error slot, w') →
      findLoop cfg env q tag fuel p w = .ok (none, w')) ∧
    (∀ c w', fofisLoop cfg env q tag fuel p ins w = .panic c w' →
      findLoop cfg env q tag fuel p w = .panic c w') := by
  intro fuel
  induction fuel with
  | zero => intro p ins w; simp [fofisLoop]
  | succ fuel ih =>
    intro p ins w
    rw [fofisLoop_succ]
    simp only [findLoop]
    cases hg : loadGroup cfg.W w.t p.pos with
    | error f => simp
    | ok g =>
      simp only []
      cases hs : scanTag env q p.pos (cfg.ops.matchTag g tag) w with
      | fault f => simp
      | abort => simp
      | panic c w1 => simp
      | ok r =>
        obtain ⟨r, w1⟩ := r
        cases r with
        | some idx => simp
        | none =>
          simp only []
          cases hE : (cfg.ops.matchEmpty g).isEmpty with
          | true => simp only [if_true]; exact ih _ _ _
          | false =>
            simp only [Bool.false_eq_true, if_false]
            cases insNext cfg w1.t g p.pos ins with
            | none => simp
            | some x =>
              cases hfx : fixInsertSlot cfg w1.t x <;> simp [hfx]

/-! ### termination: some probe step loads an EMPTY byte -/

theorem exists_empty_step (hc : CfgOk cfg) (hpc : ProbeCovers cfg) (h : Inv cfg t) (hash : Nat) :
    ∃ s, s < t.buckets ∧
      windowHasEmpty cfg t (probePos cfg.W cfg.bits t.mask hash s).pos = true := by
  obtain ⟨i0, hi0, he0⟩ := has_empty hc h
  obtain ⟨s, hs, hmem⟩ := hpc t hash i0 h.pow hi0
  rw [mem_window_iff] at hmem
  obtain ⟨j, hj, hji⟩ := hmem
  have hn : 0 < t.buckets := by simp [Raw.buckets]
  have := Nat.div_le_self t.buckets cfg.W
  refine ⟨s, by omega, windowHasEmpty_iff.mpr ⟨j, hj, ?_⟩⟩
  have hp : (probePos cfg.W cfg.bits t.mask hash s).pos < t.buckets := probePos_lt ..
  rcases load_view' hc h hp hj with hv | hv
  · rw [hv, hji, he0]
  · exact hv

theorem tagFull_lt_128 (bits hash : Nat) : tagFull bits hash < 128 := by
  unfold tagFull; exact Nat.mod_lt _ (by decide)

/-- Core form of A3 (all the information the loop invariant carries). -/
theorem fofis_run (hc : CfgOk cfg) (hpc : ProbeCovers cfg) (env : Env) (hash q tag : Nat)
    (htag : tag < 128) (w1 : World) (h : Inv cfg w1.t) :
    (∃ idx w', fofisLoop cfg env q tag (probeFuel w1.t) (probeSeq cfg.bits w1.t.mask hash) none w1 =
        .ok (.ok idx, w') ∧ EcOnly w1 w' ∧ FoundOk env q w1.t idx) ∨
    (∃ slot w', fofisLoop cfg env q tag (probeFuel w1.t) (probeSeq cfg.bits w1.t.mask hash) none w1 =
        .ok (.error slot, w') ∧ EcOnly w1 w' ∧ findInsertSlot cfg w1.t hash = .ok slot ∧
        ∃ s', windowHasEmpty cfg w1.t (probePos cfg.W cfg.bits w1.t.mask hash s').pos = true ∧
          ∀ s'', s'' ≤ s' →
            MissAt cfg env q tag w1.t (probePos cfg.W cfg.bits w1.t.mask hash s'').pos) ∨
    (∃ w', fofisLoop cfg env q tag (probeFuel w1.t) (probeSeq cfg.bits w1.t.mask hash) none w1 =
        .panic "eq" w' ∧ EcOnly w1 w' ∧ ∃ e c, env.eq c q e = none) := by
  obtain ⟨s0, hs0, hE⟩ := exists_empty_step hc hpc h hash
  have hrun := fofisLoop_run hc hpc env q tag hash htag w1.t h (probeFuel w1.t) 0 none w1 rfl
    ⟨s0, by simp only [probeFuel, Raw.buckets] at *; omega, by rw [Nat.zero_add]; exact hE⟩ rfl
  rcases hrun with ⟨idx, w', k1, k2, k3⟩ | ⟨slot, w', k1, k2, k3, s', _, k5, k6⟩ | ⟨w', k1, k2, k3⟩
  · exact .inl ⟨idx, w', k1, k2, k3⟩
  · exact .inr (.inl ⟨slot, w', k1, k2, k3, s', k5, fun s'' hs => k6 s'' (Nat.zero_le _) hs⟩)
  · exact .inr (.inr ⟨w', k1, k2, k3⟩)

/-- **A3.** The probe loop of `find_or_find_insert_slot`, started with no remembered slot on a
    table satisfying `Inv`, for every environment: it never faults or aborts, leaves the table
    untouched, and returns a live full bucket, or the very insert slot `find_insert_slot` returns
    (a special bucket), or propagates a panic of `eq`. -/
theorem fofis_total (hc : CfgOk cfg) (hp : ProbeCovers cfg) (env : Env) (hash q tag : Nat)
    (htag : tag < 128) (w1 : World) (h : Inv cfg w1.t) :
    (∃ idx w', fofisLoop cfg env q tag (probeFuel w1.t) (probeSeq cfg.bits w1.t.mask hash) none w1 =
        .ok (.ok idx, w') ∧ w'.t = w1.t ∧ w'.log = w1.log ∧ w'.hc = w1.hc ∧
        idx < w1.t.buckets ∧ isFull (w1.t.ctrlAt idx) = true ∧
        ∃ e, w1.t.slots[idx]?.join = some e) ∨
    (∃ slot w', fofisLoop cfg env q tag (probeFuel w1.t) (probeSeq cfg.bits w1.t.mask hash) none w1 =
        .ok (.error slot, w') ∧ w'.t = w1.t ∧ w'.log = w1.log ∧ w'.hc = w1.hc ∧
        slot < w1.t.buckets ∧ isSpecial (w1.t.ctrlAt slot) = true ∧
        findInsertSlot cfg w1.t hash = .ok slot) ∨
    (∃ w', fofisLoop cfg env q tag (probeFuel w1.t) (probeSeq cfg.bits w1.t.mask hash) none w1 =
        .panic "eq" w' ∧ w'.t = w1.t ∧ w'.log = w1.log ∧ w'.hc = w1.hc) := by
  rcases fofis_run hc hp env hash q tag htag w1 h with
    ⟨idx, w', k1, k2, k3, k4, e, _, k5, _⟩ | ⟨slot, w', k1, k2, k3, _⟩ | ⟨w', k1, k2, _⟩
  · exact .inl ⟨idx, w', k1, k2.t, k2.log, k2.hc, k3, k4, e, k5⟩
  · obtain ⟨slot', hs, hlt, hsp⟩ := findInsertSlot_ok hc hp h hash
    rw [k3] at hs; cases hs
    exact .inr (.inl ⟨slot, w', k1, k2.t, k2.log, k2.hc, hlt, hsp, k3⟩)
  · exact .inr (.inr ⟨w', k1, k2.t, k2.log, k2.hc⟩)

/-! ### A2. `find` -/

/-- Core form of A2. -/
theorem find_run (hc : CfgOk cfg) (hpc : ProbeCovers cfg) (env : Env) (hash q : Nat) (w : World)
    (h : Inv cfg w.t) :
    (∃ idx w', find cfg env hash q w = .ok (some idx, w') ∧ EcOnly w w' ∧ FoundOk env q w.t idx) ∨
    (∃ w', find cfg env hash q w = .ok (none, w') ∧ EcOnly w w' ∧
        ∃ s', windowHasEmpty cfg w.t (probePos cfg.W cfg.bits w.t.mask hash s').pos = true ∧
          ∀ s'', s'' ≤ s' → MissAt cfg env q (tagFull cfg.bits hash) w.t
            (probePos cfg.W cfg.bits w.t.mask hash s'').pos) ∨
    (∃ w', find cfg env hash q w = .panic "eq" w' ∧ EcOnly w w' ∧ ∃ e c, env.eq c q e = none) := by
  have hsim := findLoop_of_fofis cfg env q (tagFull cfg.bits hash) (probeFuel w.t)
    (probeSeq cfg.bits w.t.mask hash) none w
  rcases fofis_run hc hpc env hash q _ (tagFull_lt_128 cfg.bits hash) w h with
    ⟨idx, w', k1, k2, k3⟩ | ⟨slot, w', k1, k2, _, k4⟩ | ⟨w', k1, k2, k3⟩
  · exact .inl ⟨idx, w', hsim.1 idx w' k1, k2, k3⟩
  · exact .inr (.inl ⟨w', hsim.2.1 slot w' k1, k2, k4⟩)
  · exact .inr (.inr ⟨w', hsim.2.2 _ w' k1, k2, k3⟩)

/-- **A2.** `find` under the structural invariant, for every environment: it terminates without
    fault or abort, leaves table, log and hash counter untouched, and a returned bucket is a live
    full bucket; the only other outcome is a propagated panic of `eq`. -/
theorem find_total (hc : CfgOk cfg) (hp : ProbeCovers cfg) (env : Env) (hash q : Nat) (w : World)
    (h : Inv cfg w.t) :
    (∃ r w', find cfg env hash q w = .ok (r, w') ∧ w'.t = w.t ∧ w'.log = w.log ∧ w'.hc = w.hc ∧
      ∀ idx, r = some idx → idx < w.t.buckets ∧ isFull (w.t.ctrlAt idx) = true ∧
        ∃ e, w.t.slots[idx]?.join = some e) ∨
    (∃ w', find cfg env hash q w = .panic "eq" w' ∧ w'.t = w.t ∧ w'.log = w.log) := by
  rcases find_run hc hp env hash q w h with
    ⟨idx, w', k1, k2, k3, k4, e, _, k5, _⟩ | ⟨w', k1, k2, _⟩ | ⟨w', k1, k2, _⟩
  · refine .inl ⟨some idx, w', k1, k2.t, k2.log, k2.hc, ?_⟩
    intro idx' hi; cases hi; exact ⟨k3, k4, e, k5⟩
  · exact .inl ⟨none, w', k1, k2.t, k2.log, k2.hc, fun _ hn => by cases hn⟩
  · exact .inr ⟨w', k1, k2.t, k2.log⟩

/-! ## Part B — lawful environments -/

/-- `Hash` is the function `H` and `Eq` is equality of keys, whatever the call number. -/
structure Lawful (env : Env) (H : Nat → Nat) : Prop where
  hash : ∀ c k, env.hash c k = some (H k)
  eq : ∀ c q e, env.eq c q e = some (q == e.k)

theorem Lawful.eq_true {env : Env} {H : Nat → Nat} (hl : Lawful env H) {c q : Nat} {e : Elem}
    (h : env.eq c q e = some true) : e.k = q := by
  rw [hl.eq] at h; simp at h; exact h.symm

theorem Lawful.eq_ne_none {env : Env} {H : Nat → Nat} (hl : Lawful env H) {c q : Nat} {e : Elem} :
    env.eq c q e ≠ none := by
  rw [hl.eq]; simp

theorem Inv.slot_lt (h : Inv cfg t) {i : Nat} {e : Elem} (he : t.slots[i]?.join = some e) :
    i < t.buckets := by
  have hi : i < t.slots.size := by
    refine Nat.lt_of_not_le fun hle => ?_
    rw [Array.getElem?_eq_none hle] at he; simp at he
  rcases h.geom with hs | ha
  · rw [hs.2.2.2.1] at hi; simp at hi
  · rw [ha.2.2.2.1] at hi; exact hi

/-- A bucket covered by the window at `pos` is shown by some lane of the group loaded at `pos`
    that carries the bucket's real control byte (for tables smaller than a group: the real byte or
    its mirror, never the padding). -/
theorem window_lane (hc : CfgOk cfg) (h : Inv cfg t) (hp : pos < t.buckets) (hi : i < t.buckets)
    (hm : i ∈ window cfg t pos) :
    ∃ j, j < cfg.W ∧ (pos + j) &&& t.mask = i ∧ t.ctrlAt (pos + j) = t.ctrlAt i := by
  have hW := Inv.W_cases hc
  cases ha : t.alloc
  · have h1 := h.singleton_ctrl ha (j := 0) (by omega)
    have hpi : pos = 0 ∧ i = 0 := by omega
    obtain ⟨rfl, rfl⟩ := hpi
    exact ⟨0, by omega, by rw [h.and_mask, h1.2.1], rfl⟩
  · by_cases hle : cfg.W ≤ t.buckets
    · obtain ⟨j, hj, hji⟩ := mem_window_iff.mp hm
      exact ⟨j, hj, hji, by rw [(load_view hc h ha hp hj).1 hle, hji]⟩
    · have hlt : t.buckets < cfg.W := by omega
      by_cases hpi : pos ≤ i
      · have e : pos + (i - pos) = i := by omega
        refine ⟨i - pos, by omega, ?_, ?_⟩
        · rw [e, h.and_mask, Nat.mod_eq_of_lt hi]
        · rw [e]
      · have hj : cfg.W + i - pos < cfg.W := by omega
        obtain ⟨_, _, h3⟩ := (load_view hc h ha hp hj).2 hlt
        have e : pos + (cfg.W + i - pos) = cfg.W + i := by omega
        obtain ⟨e1, e2⟩ := h3 (by omega)
        rw [e] at e1 e2
        refine ⟨cfg.W + i - pos, hj, ?_, ?_⟩
        · rw [e, e2]; omega
        · rw [e, e1]; congr 1; omega

/-- A stored key cannot be missed: if every tag-carrying lane of every window up to the first one
    with an EMPTY byte answered `false`, the key is not in the table. -/
theorem lawful_no_miss (hc : CfgOk cfg) {env : Env} {H : Nat → Nat} (hl : Lawful env H)
    (h : InvL cfg H t) {q i : Nat} {e : Elem} (he : t.slots[i]?.join = some e) (hk : e.k = q)
    {s' : Nat}
    (hE : windowHasEmpty cfg t (probePos cfg.W cfg.bits t.mask (H q) s').pos = true)
    (hmiss : ∀ s'', s'' ≤ s' → MissAt cfg env q (tagFull cfg.bits (H q)) t
      (probePos cfg.W cfg.bits t.mask (H q) s'').pos) : False := by
  obtain ⟨s, _, hmem, hno⟩ := h.reach i e he
  rw [hk] at hmem hno
  have hss : s ≤ s' := by
    refine Nat.le_of_not_lt fun hlt => ?_
    rw [hno s' hlt] at hE; cases hE
  have hi : i < t.buckets := h.toInv.slot_lt he
  have hp : (probePos cfg.W cfg.bits t.mask (H q) s).pos < t.buckets := probePos_lt ..
  obtain ⟨j, hj, hji, hjc⟩ := window_lane hc h.toInv hp hi hmem
  have htag := h.tag i e he
  rw [hk] at htag
  obtain ⟨e', c, he', hc'⟩ := hmiss s hss j hj (hjc.trans htag)
  rw [hji, he] at he'; cases he'
  rw [hl.eq, hk] at hc'; simp at hc'

/-- **B2.** Lawful `find_or_find_insert_slot` loop: it returns `ok idx` exactly for the bucket
    holding key `q`, and otherwise (key absent) `error slot` with the slot of `find_insert_slot`. -/
theorem fofis_spec (hc : CfgOk cfg) (hp : ProbeCovers cfg) (env : Env) (H : Nat → Nat)
    (hl : Lawful env H) (q : Nat) (w1 : World) (h : InvL cfg H w1.t) :
    ∃ r w', fofisLoop cfg env q (tagFull cfg.bits (H q)) (probeFuel w1.t)
        (probeSeq cfg.bits w1.t.mask (H q)) none w1 = .ok (r, w') ∧
      w'.t = w1.t ∧ w'.log = w1.log ∧ w'.hc = w1.hc ∧
      (∀ idx, r = .ok idx ↔ ∃ e, w1.t.slots[idx]?.join = some e ∧ e.k = q) ∧
      (∀ slot, r = .error slot ↔ (findInsertSlot cfg w1.t (H q) = .ok slot ∧
        ∀ (i : Nat) (e : Elem), w1.t.slots[i]?.join = some e → e.k ≠ q)) := by
  rcases fofis_run hc hp env (H q) q _ (tagFull_lt_128 cfg.bits (H q)) w1 h.toInv with
    ⟨idx, w', k1, k2, _, _, e, c, k5, k6⟩ | ⟨slot, w', k1, k2, k3, s', k4, k5⟩ | ⟨w', _, _, e, c, k3⟩
  · have hk := hl.eq_true k6
    refine ⟨.ok idx, w', k1, k2.t, k2.log, k2.hc, fun idx' => ⟨?_, ?_⟩, fun slot => ⟨?_, ?_⟩⟩
    · intro hi; cases hi; exact ⟨e, k5, hk⟩
    · rintro ⟨e', he', hk'⟩
      rw [h.nodup idx idx' e e' k5 he' (hk.trans hk'.symm)]
    · intro hi; cases hi
    · rintro ⟨_, habs⟩; exact absurd hk (habs idx e k5)
  · have habs : ∀ (i : Nat) (e : Elem), w1.t.slots[i]?.join = some e → e.k ≠ q :=
      fun i e he hk => lawful_no_miss hc hl h he hk k4 k5
    refine ⟨.error slot, w', k1, k2.t, k2.log, k2.hc, fun idx => ⟨?_, ?_⟩, fun slot' => ⟨?_, ?_⟩⟩
    · intro hi; cases hi
    · rintro ⟨e, he, hk⟩; exact absurd hk (habs idx e he)
    · intro hi; cases hi; exact ⟨k3, habs⟩
    · rintro ⟨hs, _⟩; rw [k3] at hs; cases hs; rfl
  · exact absurd k3 hl.eq_ne_none

/-- **B1.** Lawful `find`: it returns `some idx` exactly for the bucket holding key `q`, and
    `none` exactly when no bucket holds `q`; the table and the log are untouched. -/
theorem find_spec (hc : CfgOk cfg) (hp : ProbeCovers cfg) (env : Env) (H : Nat → Nat)
    (hl : Lawful env H) (q : Nat) (w : World) (h : InvL cfg H w.t) :
    ∃ r w', find cfg env (H q) q w = .ok (r, w') ∧ w'.t = w.t ∧ w'.log = w.log ∧
      (∀ idx, r = some idx ↔ ∃ e, w.t.slots[idx]?.join = some e ∧ e.k = q) ∧
      (r = none ↔ ∀ (i : Nat) (e : Elem), w.t.slots[i]?.join = some e → e.k ≠ q) := by
  rcases find_run hc hp env (H q) q w h.toInv with
    ⟨idx, w', k1, k2, _, _, e, c, k5, k6⟩ | ⟨w', k1, k2, s', k4, k5⟩ | ⟨w', _, _, e, c, k3⟩
  · have hk := hl.eq_true k6
    refine ⟨some idx, w', k1, k2.t, k2.log, fun idx' => ⟨?_, ?_⟩, ⟨?_, ?_⟩⟩
    · intro hi; cases hi; exact ⟨e, k5, hk⟩
    · rintro ⟨e', he', hk'⟩
      rw [h.nodup idx idx' e e' k5 he' (hk.trans hk'.symm)]
    · intro hi; cases hi
    · intro habs; exact absurd hk (habs idx e k5)
  · have habs : ∀ (i : Nat) (e : Elem), w.t.slots[i]?.join = some e → e.k ≠ q :=
      fun i e he hk => lawful_no_miss hc hl h he hk k4 k5
    refine ⟨none, w', k1, k2.t, k2.log, fun idx => ⟨?_, ?_⟩, ⟨fun _ => habs, fun _ => rfl⟩⟩
    · intro hi; cases hi
    · rintro ⟨e, he, hk⟩; exact absurd hk (habs idx e he)
  · exact absurd k3 hl.eq_ne_none

/-! ### B3. non-vacuity: an 8-bucket table with the SSE2 scanner and two colliding keys -/

/-- Every key hashes to start position 3 with tag 5. -/
def exH : Nat → Nat := fun _ => 5 * 2 ^ 57 + 3

def exEnv : Env :=
  { hash := fun _ k => some (exH k), eq := fun _ q e => some (q == e.k), clone := fun _ _ => none,
    pred := fun _ _ => none, allocOk := fun _ => true, dropPanics := fun _ _ => false }

theorem exEnv_lawful : Lawful exEnv exH := ⟨fun _ _ => rfl, fun _ _ _ => rfl⟩

/-- 8 buckets (`< W = 16`: real bytes, EMPTY padding, mirror); keys 10 and 20 collide (same start
    position, same tag) and sit in buckets 3 and 4. -/
def exTableC : Raw :=
  { mask := 7
    ctrl := #[255, 255, 255, 5, 5, 255, 255, 255, 255, 255, 255, 255, 255, 255, 255, 255,
              255, 255, 255, 5, 5, 255, 255, 255]
    slots := #[none, none, none, some ⟨10, 1, 1, 100⟩, some ⟨20, 2, 2, 200⟩, none, none, none]
    items := 2, gl := 5, alloc := true }

/-- Result and number of `eq` calls of a look-up (`none` if it did not return normally). -/
def findOutcome (r : Res (Option Nat × World)) : Option (Option Nat × Nat) :=
  match r with
  | .ok (r, w') => some (r, w'.ec)
  | _ => none

example : invLB { ops := Sse2.ops } exH exTableC = true := by decide

example : findOutcome (find { ops := Sse2.ops } exEnv (exH 10) 10 { t := exTableC }) =
    some (some 3, 1) := by rfl
example : findOutcome (find { ops := Sse2.ops } exEnv (exH 20) 20 { t := exTableC }) =
    some (some 4, 2) := by rfl
example : findOutcome (find { ops := Sse2.ops } exEnv (exH 30) 30 { t := exTableC }) =
    some (none, 2) := by decide

#print axioms scanTag_total
#print axioms find_total
#print axioms fofis_total
#print axioms find_spec
#print axioms fofis_spec

end Hb
