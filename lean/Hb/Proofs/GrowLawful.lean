/-
Growth re-establishes the hash-dependent invariant `InvL` (tags, reachability, distinct keys) for
lawful hashers: `resize_inner` (new allocation) and `rehash_in_place`.

Main results
  resizeInner_invL     `resize_inner` (success) : `InvL` of the old table ⇒ `InvL` of the new one
  rehashInPlace_invL   `rehash_in_place` (success) preserves `InvL`, all table sizes
  growthLawful         `GrowthLawful cfg` (both of the above, as a structure)
  reserve_invL, tryReserve_invL, reserveRehash_invL

Helpers of independent use
  LPart / InvL.lpart / InvL.of_lpart   the clauses `InvL` adds to `Inv`; depend on mask/ctrl/slots only
  Reachable_congr, windowHasEmpty_congr, LPart.congr, LPart.insert, resizeLoop_lpart
  AllFull, LR (invariant in the middle of a rehash), AllFull.mono, LR.step, LPart.of_lr
  SlotsNodup, SlotsNodup.swap
  gl_shadow, RInv.findInsertSlot_first  `find_insert_slot` stops in the first window with a special
                                        byte also in the middle of a rehash (`W ≤ buckets`)
  gl_sameGroup_window                   `is_in_same_group i ni` ⇒ `i`, `ni` in the same probe window
  gl_block_of_mem, gl_mem_of_block      probe windows are the `W`-blocks counted from the home bucket
-/
import Hb.Proofs.FindSpec
import Hb.Proofs.Resize
import Hb.Proofs.Rehash
import Hb.Proofs.InvLStep
namespace Hb

variable {cfg : Cfg}

/-! ### the hash-dependent part of `InvL`, as a predicate of `mask`, `ctrl`, `slots` only -/

/-- Keys of live slots are pairwise distinct. -/
def SlotsNodup (s : Array (Option Elem)) : Prop :=
  ∀ (i j : Nat) (e e2 : Elem), s[i]?.join = some e → s[j]?.join = some e2 → e.k = e2.k → i = j

/-- The clauses `InvL` adds to `Inv`. -/
structure LPart (cfg : Cfg) (H : Nat → Nat) (t : Raw) : Prop where
  tag : ∀ (i : Nat) (e : Elem), t.slots[i]?.join = some e → t.ctrlAt i = tagFull cfg.bits (H e.k)
  reach : ∀ (i : Nat) (e : Elem), t.slots[i]?.join = some e → Reachable cfg t (H e.k) i
  nodup : SlotsNodup t.slots

theorem InvL.lpart {H : Nat → Nat} {t : Raw} (h : InvL cfg H t) : LPart cfg H t :=
  ⟨h.tag, h.reach, h.nodup⟩

theorem InvL.of_lpart {H : Nat → Nat} {t : Raw} (h : Inv cfg t) (hl : LPart cfg H t) :
    InvL cfg H t := ⟨h, hl.tag, hl.reach, hl.nodup⟩

theorem windowHasEmpty_congr {t t' : Raw} (hct : t'.ctrl = t.ctrl) (pos : Nat) :
    windowHasEmpty cfg t' pos = windowHasEmpty cfg t pos := by
  simp only [windowHasEmpty, Raw.ctrlAt, hct]

/-- `Reachable` depends only on `mask` and `ctrl`. -/
theorem Reachable_congr {t t' : Raw} (hm : t'.mask = t.mask) (hct : t'.ctrl = t.ctrl)
    (hash i : Nat) : Reachable cfg t' hash i ↔ Reachable cfg t hash i := by
  simp only [Reachable, Raw.buckets_eq, hm, window_congr hm, windowHasEmpty_congr hct]

theorem LPart.congr {H : Nat → Nat} {t t' : Raw} (h : LPart cfg H t) (hm : t'.mask = t.mask)
    (hct : t'.ctrl = t.ctrl) (hs : t'.slots = t.slots) : LPart cfg H t' := by
  refine ⟨?_, ?_, ?_⟩
  · intro i e he
    rw [hs] at he
    simp only [Raw.ctrlAt, hct]
    exact h.tag i e he
  · intro i e he
    rw [hs] at he
    exact (Reachable_congr hm hct _ _).2 (h.reach i e he)
  · rw [hs]; exact h.nodup

/-! ### Part 1: `resize_inner` -/

/-- One insertion at the slot chosen by `find_insert_slot` keeps the hash-dependent clauses
    (the reasoning of `insertInSlot_invL`, with `items`/`growth_left` left out of the picture). -/
theorem LPart.insert (hc : CfgOk cfg) (hp : ProbeCovers cfg) {H : Nat → Nat} {t t' : Raw}
    (h : Inv cfg t) (h' : Inv cfg t') (ha : t.alloc = true) (ha' : t'.alloc = true)
    (hL : LPart cfg H t) (e : Elem)
    (hfresh : ∀ (i : Nat) (e' : Elem), t.slots[i]?.join = some e' → e'.k ≠ e.k) {idx : Nat}
    (hs : findInsertSlot cfg t (H e.k) = .ok idx) (hm : t'.mask = t.mask)
    (hsl : t'.slots = t.slots.setIfInBounds idx (some e))
    (hct : ∀ j, j < t.buckets →
      t'.ctrlAt j = if j = idx then tagFull cfg.bits (H e.k) else t.ctrlAt j) :
    LPart cfg H t' := by
  have hall := h.allocated ha
  obtain ⟨idx', s, hfs, hsn, hfull, hwin, hlt, hsp⟩ := findInsertSlot_first hc hp h (H e.k)
  rw [hs] at hfs
  cases hfs
  have hbk : t'.buckets = t.buckets := by simp only [Raw.buckets_eq, hm]
  have htag := tagFull_lt cfg.bits (H e.k)
  have hmono : ∀ pos, pos < t.buckets → windowHasEmpty cfg t pos = false →
      windowHasEmpty cfg t' pos = false := by
    intro pos hpos hw
    cases hw' : windowHasEmpty cfg t' pos
    · rfl
    · have := windowHasEmpty_mono h h' ha ha' hm (fun k hk he => ?_) hpos hw'
      · rw [hw] at this; cases this
      · rw [hct k hk] at he
        split at he
        · rw [EMPTY] at he; omega
        · exact he
  have hslt : ∀ i e', t.slots[i]?.join = some e' → i < t.buckets := by
    intro i e' hs'
    have := slot_some_lt hs'
    rw [hall.2.2.2.1] at this; exact this
  refine ⟨?_, ?_, ?_⟩
  · intro i e' hs'
    rw [hsl] at hs'
    rcases slots_set_some hs' with ⟨rfl, rfl, _⟩ | ⟨hne, hs''⟩
    · rw [hct i hlt, if_pos rfl]
    · rw [hct i (hslt i e' hs''), if_neg hne]
      exact hL.tag i e' hs''
  · intro i e' hs'
    rw [hsl] at hs'
    rcases slots_set_some hs' with ⟨rfl, rfl, _⟩ | ⟨hne, hs''⟩
    · refine ⟨s, by rw [hbk]; exact hsn, ?_, ?_⟩
      · rw [hm, window_congr hm]; exact hwin
      · intro s' hs'
        rw [hm]
        exact hmono _ (probePos_lt ..) (windowHasEmpty_false_of_full (hfull s' hs'))
    · obtain ⟨s2, hs1, hs2, hs3⟩ := hL.reach i e' hs''
      refine ⟨s2, by rw [hbk]; exact hs1, ?_, ?_⟩
      · rw [hm, window_congr hm]; exact hs2
      · intro s' hs'
        rw [hm]
        exact hmono _ (probePos_lt ..) (hs3 s' hs')
  · intro i j e1 e2 h1 h2 hk
    rw [hsl] at h1 h2
    rcases slots_set_some h1 with ⟨rfl, rfl, _⟩ | ⟨hne1, h1'⟩
    · rcases slots_set_some h2 with ⟨rfl, rfl, _⟩ | ⟨hne2, h2'⟩
      · rfl
      · exact absurd hk.symm (hfresh j e2 h2')
    · rcases slots_set_some h2 with ⟨rfl, rfl, _⟩ | ⟨hne2, h2'⟩
      · exact absurd hk (hfresh i e1 h1')
      · exact hL.nodup i j e1 e2 h1' h2' hk

theorem gl_ctrlWr_frame {t t' : Raw} {i c : Nat} (h : ctrlWr t i c = .ok t') :
    t'.slots = t.slots ∧ t'.mask = t.mask ∧ t'.alloc = t.alloc := by
  unfold ctrlWr at h
  split at h
  · cases h
  · split at h
    · cases h; exact ⟨rfl, rfl, rfl⟩
    · cases h

theorem gl_setCtrl_frame {t t' : Raw} {i c : Nat} (h : setCtrl cfg t i c = .ok t') :
    t'.slots = t.slots ∧ t'.mask = t.mask ∧ t'.alloc = t.alloc := by
  unfold setCtrl at h
  simp only at h
  cases h1 : ctrlWr t i c with
  | error f => rw [h1] at h; cases h
  | ok t1 =>
    rw [h1] at h
    obtain ⟨a1, a2, a3⟩ := gl_ctrlWr_frame h1
    obtain ⟨b1, b2, b3⟩ := gl_ctrlWr_frame h
    exact ⟨b1.trans a1, b2.trans a2, b3.trans a3⟩

theorem gl_slotPut_eq {t t' : Raw} {i : Nat} {e : Elem} (h : slotPut t i e = .ok t') :
    t.slots[i]? = some none ∧ t' = { t with slots := t.slots.setIfInBounds i (some e) } := by
  unfold slotPut at h
  split at h
  · rename_i hx; cases h; exact ⟨hx, rfl⟩
  · cases h
  · cases h

theorem gl_slotTake_eq {t t' : Raw} {i : Nat} {e : Elem} (h : slotTake t i = .ok (e, t')) :
    t.slots[i]? = some (some e) ∧ t' = { t with slots := t.slots.setIfInBounds i none } := by
  unfold slotTake at h
  split at h
  · rename_i e0 hx; cases h; exact ⟨hx, rfl⟩
  · cases h
  · cases h

theorem gl_slotGet_eq {t : Raw} {i : Nat} {e : Elem} (h : slotGet t i = .ok e) :
    t.slots[i]? = some (some e) := by
  unfold slotGet at h
  split at h
  · rename_i e0 hx; cases h; exact hx
  · cases h
  · cases h

/-- Decoding `prepare_insert_slot`. -/
theorem gl_prepareInsertSlot_eq {t t1 : Raw} {hash ni oc : Nat}
    (h : prepareInsertSlot cfg t hash = .ok (ni, oc, t1)) :
    findInsertSlot cfg t hash = .ok ni ∧ setCtrl cfg t ni (tagFull cfg.bits hash) = .ok t1 := by
  unfold prepareInsertSlot at h
  cases h1 : findInsertSlot cfg t hash with
  | error f => rw [h1] at h; cases h
  | ok idx =>
    rw [h1] at h
    simp only at h
    cases h2 : ctrlRd t idx with
    | error f => rw [h2] at h; cases h
    | ok old =>
      rw [h2] at h
      simp only at h
      cases h3 : setCtrlHash cfg t idx hash with
      | error f => rw [h3] at h; cases h
      | ok t' =>
        rw [h3] at h
        simp only [Except.ok.injEq, Prod.mk.injEq] at h
        obtain ⟨rfl, _, rfl⟩ := h
        exact ⟨rfl, h3⟩

theorem gl_slots_join {s : Array (Option Elem)} {i : Nat} {e : Elem} (h : s[i]? = some (some e)) :
    s[i]?.join = some e := by rw [h]; rfl

theorem fullList_nodup (t : Raw) : t.fullList.Nodup := by
  unfold Raw.fullList
  exact List.nodup_range.filter _

/-- The move loop of `resize_inner` keeps the hash-dependent clauses in the table under
    construction; every element in it comes from a bucket of `old` that is already processed. -/
theorem resizeLoop_lpart (hc : CfgOk cfg) (hp : ProbeCovers cfg) (env : Env) (H : Nat → Nat)
    (hl : Lawful env H) (old : Raw) (hold : SlotsNodup old.slots) :
    ∀ (idxs : List Nat) (new : Raw) (w : World) (n : Nat) (new' : Raw) (w' : World),
      ResizeInv cfg new n → n + idxs.length ≤ bucketMaskToCapacity new.mask → idxs.Nodup →
      LPart cfg H new →
      (∀ (j : Nat) (e' : Elem), new.slots[j]?.join = some e' →
        ∃ i : Nat, i ∉ idxs ∧ old.slots[i]?.join = some e') →
      resizeLoop cfg env old idxs new w = .ok (new', w') → LPart cfg H new' := by
  intro idxs
  induction idxs with
  | nil =>
    intro new w n new' w' _ _ _ hL _ hr
    simp only [resizeLoop, Res.ok.injEq, Prod.mk.injEq] at hr
    rw [← hr.1]; exact hL
  | cons i rest ih =>
    intro new w n new' w' h hle hnd hL horig hr
    rw [List.length_cons] at hle
    rw [List.nodup_cons] at hnd
    cases hget : slotGet old i with
    | error f => simp only [resizeLoop, hget] at hr; cases hr
    | ok e =>
      have he := gl_slots_join (gl_slotGet_eq hget)
      have hh := hl.hash w.hc e.k
      obtain ⟨ni, oc, new1, new2, hprep, hput, hinv2, hmask, _⟩ :=
        resizeStep hc hp h (by omega) (H e.k) e
      simp only [resizeLoop, hget, World.hashCall, hh, hprep, hput] at hr
      obtain ⟨hfind, hset⟩ := gl_prepareInsertSlot_eq hprep
      obtain ⟨_, hnew2⟩ := gl_slotPut_eq hput
      obtain ⟨f1, f2, f3⟩ := gl_setCtrl_frame hset
      have hall : new.IsAllocated cfg := h.inv.allocated h.alloc
      have hlt : ni < new.buckets := by
        obtain ⟨idx, hf, hlt, _⟩ := findInsertSlot_ok hc hp h.inv (H e.k)
        rw [findInsertSlot_patch, hfind] at hf
        cases hf; exact hlt
      obtain ⟨t1, he1, _, _, _, _, _, _, h7⟩ := setCtrl_ok hc hall hlt (tagFull cfg.bits (H e.k))
      rw [hset] at he1
      cases he1
      have hctn := ctrlAt_bucket hc hall hlt h7
      have hfresh : ∀ (j : Nat) (e' : Elem), new.slots[j]?.join = some e' → e'.k ≠ e.k := by
        intro j e' hj hk
        obtain ⟨i', hi', ho⟩ := horig j e' hj
        have := hold i' i e' e ho he hk
        exact hi' (this ▸ List.mem_cons_self)
      have hL2 : LPart cfg H new2 := by
        refine LPart.congr (t := new2.patch) ?_ rfl rfl rfl
        refine LPart.insert hc hp (t := new.patch) (t' := new2.patch) (idx := ni) h.inv hinv2.inv h.alloc
          hinv2.alloc (hL.congr rfl rfl rfl) e hfresh ?_ hmask ?_ ?_
        · rw [findInsertSlot_patch]; exact hfind
        · show new2.slots = new.slots.setIfInBounds ni (some e)
          rw [hnew2, ← f1]
        · intro j hj
          show new2.ctrlAt j = _
          rw [hnew2]
          exact hctn j hj
      refine ih new2 { w with hc := w.hc + 1 } (n + 1) new' w' hinv2 (by rw [hmask]; omega) hnd.2
        hL2 ?_ hr
      intro j e' hj
      rw [hnew2] at hj
      have hj' : (new1.slots.setIfInBounds ni (some e))[j]?.join = some e' := hj
      rcases slots_set_some hj' with ⟨_, rfl, _⟩ | ⟨_, hj''⟩
      · exact ⟨i, hnd.1, he⟩
      · rw [f1] at hj''
        obtain ⟨i', hi', ho⟩ := horig j e' hj''
        exact ⟨i', fun hmem => hi' (List.mem_cons_of_mem _ hmem), ho⟩

theorem gl_elems_nil {t : Raw} (h : t.elems = []) (i : Nat) : t.slots[i]?.join = none := by
  cases hx : t.slots[i]? with
  | none => rfl
  | some x =>
    cases x with
    | none => rfl
    | some e =>
      exfalso
      have hmem : some e ∈ t.slots.toList := by
        rw [← Array.getElem?_toList] at hx
        exact List.mem_of_getElem? hx
      have : e ∈ t.elems := by
        rw [Raw.elems, List.mem_filterMap]
        exact ⟨some e, hmem, rfl⟩
      rw [h] at this
      cases this

theorem LPart.of_elems_nil {H : Nat → Nat} {t : Raw} (h : t.elems = []) : LPart cfg H t := by
  refine ⟨?_, ?_, ?_⟩
  · intro i e he; rw [gl_elems_nil h] at he; cases he
  · intro i e he; rw [gl_elems_nil h] at he; cases he
  · intro i j e e2 he; rw [gl_elems_nil h] at he; cases he

theorem gl_freeBuckets_t {m : Nat} {w w' : World} (h : freeBuckets cfg m w = .ok w') :
    w'.t = w.t := by
  unfold freeBuckets at h
  split at h
  · cases h
  · cases h; rfl

/-- **`resize_inner` re-establishes `InvL`** (lawful hasher). -/
theorem resizeInner_invL (hc : CfgOk cfg) (hp : ProbeCovers cfg) (env : Env) (H : Nat → Nat)
    (hl : Lawful env H) (capacity : Nat) (fb : Fallibility) (w w' : World)
    (h : InvL cfg H w.t) (hlo : w.t.LayoutOk cfg) (hcap : w.t.items ≤ capacity)
    (hr : resizeInner cfg env capacity fb w = .ok (.ok (), w')) : InvL cfg H w'.t := by
  have hspec := resizeInner_spec_partial hc hp env capacity fb w h.toInv hlo hcap
  rw [hr] at hspec
  obtain ⟨hinv', _, _, _, _, _, hperm, _⟩ := hspec
  refine InvL.of_lpart hinv' ?_
  have hfs := fallibleWithCapacity_spec hc env capacity fb w
  cases hfw : fallibleWithCapacity cfg env capacity fb w with
  | panic c w1 => simp only [resizeInner, hfw] at hr; cases hr
  | abort => simp only [resizeInner, hfw] at hr; cases hr
  | fault f => simp only [resizeInner, hfw] at hr; cases hr
  | ok pr =>
    obtain ⟨r, w1⟩ := pr
    cases r with
    | error e => simp only [resizeInner, hfw] at hr; cases hr
    | ok new =>
      rw [hfw] at hfs
      obtain ⟨hinv, hit, hel, _, hrest⟩ := hfs
      have ht : w1.t = w.t := by
        by_cases h0 : capacity = 0
        · rw [if_pos h0] at hrest; rw [hrest.2]
        · rw [if_neg h0] at hrest
          obtain ⟨_, _, _, _, _, _, l, _, hw1⟩ := hrest
          rw [hw1]
      have hfi := fullIndices_spec hc h.toInv
      simp only [resizeInner, hfw, ht, hfi] at hr
      cases hrl : resizeLoop cfg env w.t w.t.fullList new w1 with
      | panic c w2 => rw [hrl] at hr; cases hr
      | abort => rw [hrl] at hr; cases hr
      | fault f => rw [hrl] at hr; cases hr
      | ok pr2 =>
        obtain ⟨new1, w2⟩ := pr2
        rw [hrl] at hr
        simp only at hr
        have hL1 : LPart cfg H new1 := by
          by_cases h0 : capacity = 0
          · -- nothing to move
            have hlen := fullList_length hc h.toInv
            have hnil : w.t.fullList = [] :=
              List.eq_nil_of_length_eq_zero (by rw [hlen]; omega)
            rw [hnil] at hrl
            simp only [resizeLoop, Res.ok.injEq, Prod.mk.injEq] at hrl
            rw [← hrl.1]
            exact LPart.of_elems_nil hel
          · rw [if_neg h0] at hrest
            obtain ⟨hal, hcg, hgl, _⟩ := hrest
            have hlen := fullList_length hc h.toInv
            refine resizeLoop_lpart hc hp env H hl w.t h.nodup w.t.fullList new w1 0 new1 w2
              (ResizeInv.init hinv hal hit hgl) (by omega) (fullList_nodup _)
              (LPart.of_elems_nil hel) ?_ hrl
            intro j e' hj
            rw [gl_elems_nil hel] at hj; cases hj
        have hfin : w'.t = { new1 with gl := new1.gl - w.t.items, items := w.t.items } := by
          split at hr
          · cases hr
          · split at hr
            · cases hr; rfl
            · cases hfb : freeBuckets cfg w.t.mask
                { w2 with t := { new1 with gl := new1.gl - w.t.items, items := w.t.items } } with
              | ok w4 =>
                rw [hfb] at hr
                cases hr
                exact gl_freeBuckets_t hfb
              | panic c w4 => rw [hfb] at hr; cases hr
              | abort => rw [hfb] at hr; cases hr
              | fault f => rw [hfb] at hr; cases hr
        rw [hfin]
        exact hL1.congr rfl rfl rfl

/-! ### Part 2: `rehash_in_place` -/

/-- Every byte of the group loaded at `pos` is FULL. -/
def AllFull (cfg : Cfg) (t : Raw) (pos : Nat) : Prop :=
  ∀ l, l < cfg.W → isFull (t.ctrlAt (pos + l)) = true

/-- Hash-dependent invariant in the middle of `rehash_in_place`: the clauses of `InvL` for the
    elements already placed (FULL byte); "no EMPTY byte in an earlier window" is strengthened to
    "every earlier window entirely FULL", which is stable because a FULL byte is never rewritten. -/
structure LR (cfg : Cfg) (H : Nat → Nat) (t : Raw) : Prop where
  tag : ∀ (i : Nat) (e : Elem), t.slots[i]?.join = some e → isFull (t.ctrlAt i) = true →
    t.ctrlAt i = tagFull cfg.bits (H e.k)
  reach : ∀ (i : Nat) (e : Elem), t.slots[i]?.join = some e → isFull (t.ctrlAt i) = true →
    ∃ s, s < t.buckets ∧ i ∈ window cfg t (probePos cfg.W cfg.bits t.mask (H e.k) s).pos ∧
      ∀ s', s' < s → AllFull cfg t (probePos cfg.W cfg.bits t.mask (H e.k) s').pos
  nodup : SlotsNodup t.slots

/-- FULL bytes that stay FULL keep entirely-FULL windows entirely FULL. -/
theorem AllFull.mono (hc : CfgOk cfg) {t t' : Raw} (h : FInv cfg t) (h' : FInv cfg t')
    (hm : t'.mask = t.mask)
    (hb : ∀ j, j < t.buckets → isFull (t.ctrlAt j) = true → isFull (t'.ctrlAt j) = true)
    {pos : Nat} (hp : pos < t.buckets) (hf : AllFull cfg t pos) : AllFull cfg t' pos := by
  intro l hl
  have hbk : t'.buckets = t.buckets := by simp only [Raw.buckets_eq, hm]
  have v := h.load_view hc hp hl
  have v' := h'.load_view hc (by rw [hbk]; exact hp) hl
  have hfl := hf l hl
  by_cases hWn : cfg.W ≤ t.buckets
  · rw [v'.1 (by rw [hbk]; exact hWn), hm]
    rw [v.1 hWn] at hfl
    exact hb _ (h.and_mask_lt _) hfl
  · obtain ⟨_, a2, a3⟩ := v.2 (by omega)
    obtain ⟨_, _, b3⟩ := v'.2 (by rw [hbk]; omega)
    by_cases c1 : pos + l < t.buckets
    · exact hb _ c1 hfl
    · by_cases c2 : pos + l < cfg.W
      · rw [a2 (by omega) c2] at hfl; exact absurd hfl (by decide)
      · rw [(a3 (by omega)).1] at hfl
        rw [(b3 (by omega)).1]
        exact hb _ (by omega) hfl

theorem LR.step {H : Nat → Nat} {t t' : Raw} (hL : LR cfg H t) (hm : t'.mask = t.mask)
    (hmono : ∀ pos, pos < t.buckets → AllFull cfg t pos → AllFull cfg t' pos)
    (hnd : SlotsNodup t'.slots) {d : Nat} {e : Elem}
    (hold : ∀ (j : Nat) (e' : Elem), t'.slots[j]?.join = some e' → isFull (t'.ctrlAt j) = true →
      (j = d ∧ e' = e) ∨
      (t.slots[j]?.join = some e' ∧ isFull (t.ctrlAt j) = true ∧ t'.ctrlAt j = t.ctrlAt j))
    (htag : t'.ctrlAt d = tagFull cfg.bits (H e.k))
    (hreach : ∃ s, s < t.buckets ∧
      d ∈ window cfg t (probePos cfg.W cfg.bits t.mask (H e.k) s).pos ∧
      ∀ s', s' < s → AllFull cfg t (probePos cfg.W cfg.bits t.mask (H e.k) s').pos) :
    LR cfg H t' := by
  have hbk : t'.buckets = t.buckets := by simp only [Raw.buckets_eq, hm]
  refine ⟨?_, ?_, hnd⟩
  · intro j e' hs hf
    rcases hold j e' hs hf with ⟨rfl, rfl⟩ | ⟨h1, h2, h3⟩
    · exact htag
    · rw [h3]; exact hL.tag j e' h1 h2
  · intro j e' hs hf
    rcases hold j e' hs hf with ⟨rfl, rfl⟩ | ⟨h1, h2, h3⟩
    · obtain ⟨s, hs1, hs2, hs3⟩ := hreach
      refine ⟨s, by rw [hbk]; exact hs1, by rw [hm, window_congr hm]; exact hs2, fun s' hs' => ?_⟩
      rw [hm]; exact hmono _ (probePos_lt ..) (hs3 s' hs')
    · obtain ⟨s, hs1, hs2, hs3⟩ := hL.reach j e' h1 h2
      refine ⟨s, by rw [hbk]; exact hs1, by rw [hm, window_congr hm]; exact hs2, fun s' hs' => ?_⟩
      rw [hm]; exact hmono _ (probePos_lt ..) (hs3 s' hs')

/-! #### distinct keys under a swap of two slots -/

theorem SlotsNodup.swap {s : Array (Option Elem)} {i j : Nat} {a b : Option Elem}
    (h : SlotsNodup s) (hi : s[i]? = some a) (hj : s[j]? = some b) (hij : i ≠ j) :
    SlotsNodup ((s.setIfInBounds i b).setIfInBounds j a) := by
  have hi' : i < s.size := by
    by_contra hn; rw [Array.getElem?_eq_none (by omega)] at hi; cases hi
  have hj' : j < s.size := by
    by_contra hn; rw [Array.getElem?_eq_none (by omega)] at hj; cases hj
  have key : ∀ x, ((s.setIfInBounds i b).setIfInBounds j a)[x]?.join =
      s[if x = j then i else if x = i then j else x]?.join := by
    intro x
    rw [Array.getElem?_setIfInBounds, Array.getElem?_setIfInBounds, Array.size_setIfInBounds]
    by_cases hxj : x = j
    · subst hxj
      rw [if_pos rfl, if_pos hj', if_pos rfl, hi]
    · rw [if_neg (Ne.symm hxj), if_neg hxj]
      by_cases hxi : x = i
      · subst hxi
        rw [if_pos rfl, if_pos hi', if_pos rfl, hj]
      · rw [if_neg (Ne.symm hxi), if_neg hxi]
  intro x y e1 e2 h1 h2 hk
  rw [key] at h1 h2
  have := h _ _ e1 e2 h1 h2 hk
  split_ifs at this <;> omega

/-! #### the first special window, in the middle of a rehash (`W ≤ buckets`) -/

/-- A table with the control bytes of `t` that satisfies `Inv` (slots and counters recomputed from
    the bytes): `find_insert_slot` cannot tell it from `t`. -/
def gl_shadow (t : Raw) : Raw :=
  { t with
    slots := (Array.range t.buckets).map fun i => if isFull (t.ctrlAt i) then some default else none
    items := t.countCtrl isFull
    gl := bucketMaskToCapacity t.mask - t.countCtrl isLive }

theorem gl_shadow_inv {t : Raw} (h : RInv cfg t) (hWn : cfg.W ≤ t.buckets) :
    Inv cfg (gl_shadow t) := by
  have hall := h.allocated
  refine ⟨Or.inr ⟨h.alloc, hall.2.1, hall.2.2.1, ?_, hall.2.2.2.2⟩, h.struct.valid, h.struct.mirror,
    rfl, fun _ => ?_, ?_, fun hlt => ?_⟩
  · show ((Array.range t.buckets).map _).size = t.buckets
    rw [Array.size_map, Array.size_range]
  · show bucketMaskToCapacity t.mask - t.countCtrl isLive + t.countCtrl isFull +
      t.countCtrl (· == DELETED) = bucketMaskToCapacity t.mask
    have := countCtrl_isLive t
    have := h.cap
    omega
  · intro i hi
    have hi' : i < t.buckets := by
      have : ((Array.range t.buckets).map fun i =>
          if isFull (t.ctrlAt i) then some (default : Elem) else none).size = t.buckets := by
        rw [Array.size_map, Array.size_range]
      rw [← this]; exact hi
    show (((Array.range t.buckets).map fun i =>
        if isFull (t.ctrlAt i) then some (default : Elem) else none)[i]?.join).isSome ↔
      isFull (t.ctrlAt i) = true
    rw [Array.getElem?_map, Array.getElem?_range, if_pos hi']
    cases hf : isFull (t.ctrlAt i) <;> simp [hf]
  · exfalso
    have : (gl_shadow t).buckets = t.buckets := rfl
    omega

theorem RInv.findInsertSlot_first {t : Raw} (hc : CfgOk cfg) (hp : ProbeCovers cfg)
    (h : RInv cfg t) (hWn : cfg.W ≤ t.buckets) (hash : Nat) :
    ∃ idx s, findInsertSlot cfg t hash = .ok idx ∧ s < t.buckets ∧
      (∀ s', s' < s → AllFull cfg t (probePos cfg.W cfg.bits t.mask hash s').pos) ∧
      idx ∈ window cfg t (probePos cfg.W cfg.bits t.mask hash s).pos ∧ idx < t.buckets ∧
      isSpecial (t.ctrlAt idx) = true := by
  obtain ⟨idx, s, h1, h2, h3, h4, h5, h6⟩ :=
    Hb.findInsertSlot_first hc hp (gl_shadow_inv h hWn) hash
  rw [findInsertSlot_congr (t := t) (t' := gl_shadow t) rfl rfl] at h1
  exact ⟨idx, s, h1, h2, h3, h4, h5, h6⟩

/-! #### `is_in_same_group`: for `W ≤ buckets` the probe windows are the `W`-blocks counted from the
    home position -/

theorem gl_shift_back {n i p : Nat} (hi : i < n) (hp : p < n) :
    (p + (i + n - p) % n) % n = i := by
  by_cases h : p ≤ i
  · have e : i + n - p = (i - p) + n := by omega
    rw [e, Nat.add_mod_right, Nat.mod_eq_of_lt (show i - p < n by omega),
      show p + (i - p) = i by omega, Nat.mod_eq_of_lt hi]
  · rw [Nat.mod_eq_of_lt (by omega : i + n - p < n), show p + (i + n - p) = i + n by omega,
      Nat.add_mod_right, Nat.mod_eq_of_lt hi]

theorem gl_mulT (W m T : Nat) : W * T = W * (T % m) + (W * m) * (T / m) := by
  conv_lhs => rw [← Nat.div_add_mod T m]
  rw [Nat.mul_add, Nat.mul_assoc, Nat.add_comm]

/-- The distance (mod `n`) from the home position `p` of a bucket in the window of triangular
    number `T` lies in block `T % m`. -/
theorem gl_block_of_mem {n W m p T l : Nat} (hn : n = W * m) (hW : 0 < W) (hp : p < n)
    (hl : l < W) : ((((p + W * T) % n + l) % n + n - p) % n) / W = T % m := by
  have hm : 0 < m := by
    rcases m with _ | m
    · simp at hn; omega
    · omega
  have hr : T % m < m := Nat.mod_lt _ hm
  have hy : W * (T % m) + l < n := by
    have : W * (T % m + 1) ≤ W * m := Nat.mul_le_mul_left _ hr
    rw [Nat.mul_succ] at this; omega
  have e : ((p + W * T) % n + l) % n = (p + (W * (T % m) + l)) % n := by
    rw [Nat.mod_add_mod, gl_mulT W m T, ← hn]
    have : p + (W * (T % m) + n * (T / m)) + l = p + (W * (T % m) + l) + n * (T / m) := by omega
    rw [this, Nat.add_mul_mod_self_left]
  have hq : (W * (T % m) + l) / W = T % m := by
    rw [Nat.mul_add_div hW, Nat.div_eq_of_lt hl, Nat.add_zero]
  rw [e]
  generalize W * (T % m) + l = y at hy hq
  have : ((p + y) % n + n - p) % n = y := by
    by_cases h : p + y < n
    · rw [Nat.mod_eq_of_lt h, show p + y + n - p = y + n by omega, Nat.add_mod_right,
        Nat.mod_eq_of_lt hy]
    · have h2 : (p + y) % n = p + y - n := by
        rw [Nat.mod_eq_sub_mod (show p + y ≥ n by omega),
          Nat.mod_eq_of_lt (show p + y - n < n by omega)]
      rw [h2, show p + y - n + n - p = y by omega, Nat.mod_eq_of_lt hy]
  rw [this, hq]

/-- Conversely a bucket whose distance from the home position lies in block `T % m` is in the
    window of triangular number `T`. -/
theorem gl_mem_of_block {n W m p T i : Nat} (hn : n = W * m) (hW : 0 < W) (hp : p < n)
    (hi : i < n) (hb : ((i + n - p) % n) / W = T % m) :
    ∃ l, l < W ∧ ((p + W * T) % n + l) % n = i := by
  refine ⟨(i + n - p) % n % W, Nat.mod_lt _ hW, ?_⟩
  have hd := Nat.div_add_mod ((i + n - p) % n) W
  rw [hb] at hd
  rw [Nat.mod_add_mod, gl_mulT W m T, ← hn]
  have : p + (W * (T % m) + n * (T / m)) + (i + n - p) % n % W =
      p + (W * (T % m) + (i + n - p) % n % W) + n * (T / m) := by omega
  rw [this, Nat.add_mul_mod_self_left, hd]
  exact gl_shift_back hi hp

theorem gl_wsub_mod {n k b i p : Nat} (hn : n = 2 ^ k) (hkb : k ≤ b) (hp : p < n) :
    ((i + 2 ^ b - p) % 2 ^ b) % n = (i + n - p) % n := by
  obtain ⟨d, rfl⟩ : ∃ d, b = k + d := ⟨b - k, by omega⟩
  have hP : 2 ^ (k + d) = n * 2 ^ d := by rw [Nat.pow_add, hn]
  rw [Nat.mod_mod_of_dvd _ ⟨2 ^ d, hP⟩, hP]
  have hdpos : 0 < 2 ^ d := Nat.two_pow_pos d
  obtain ⟨m', hm'⟩ : ∃ m', 2 ^ d = m' + 1 := ⟨2 ^ d - 1, by omega⟩
  rw [hm', Nat.mul_succ]
  have : i + (n * m' + n) - p = (i + n - p) + n * m' := by omega
  rw [this, Nat.add_mul_mod_self_left]

theorem gl_sameGroup_window {t : Raw} (hc : CfgOk cfg) (h : FInv cfg t) (hWn : cfg.W ≤ t.buckets)
    {i ni hash s : Nat} (hi : i < t.buckets)
    (hsame : isInSameGroup cfg.bits cfg.W t.mask i ni hash = true)
    (hwin : ni ∈ window cfg t (probePos cfg.W cfg.bits t.mask hash s).pos) :
    i ∈ window cfg t (probePos cfg.W cfg.bits t.mask hash s).pos := by
  obtain ⟨_, ⟨k, hk2, hk⟩, _, _, hbits⟩ := h.allocated
  have hmk : t.mask + 1 = 2 ^ k := hk
  have hkb : k ≤ cfg.bits := by
    apply Nat.le_of_lt
    apply (Nat.pow_lt_pow_iff_right (by omega : 1 < 2)).1
    omega
  obtain ⟨hWc, hgeo⟩ := h.alloc_geom hc
  have hW : 0 < cfg.W := by rcases hWc with h | h <;> omega
  obtain ⟨m, hm⟩ : cfg.W ∣ t.buckets := by
    rcases hgeo with ⟨_, hd⟩ | hg | ⟨hg, hW16⟩
    · exact hd
    · rcases hWc with h | h <;> omega
    · omega
  have hpos := (probePos_closed cfg.W cfg.bits t.mask hash s k hmk).2
  rw [← hk] at hpos
  have hpp : (h1 cfg.bits hash + cfg.W * (s * (s + 1) / 2)) % t.buckets =
      (h1 cfg.bits hash % t.buckets + cfg.W * (s * (s + 1) / 2)) % t.buckets := by
    rw [Nat.mod_add_mod]
  rw [hpp] at hpos
  have hplt : h1 cfg.bits hash % t.buckets < t.buckets := Nat.mod_lt _ (by omega)
  -- unfold the group test
  have hsame' : ((i + t.buckets - h1 cfg.bits hash % t.buckets) % t.buckets) / cfg.W =
      ((ni + t.buckets - h1 cfg.bits hash % t.buckets) % t.buckets) / cfg.W := by
    simp only [isInSameGroup, beq_iff_eq, h.and_mask, wrappingSub] at hsame
    rw [gl_wsub_mod hk hkb hplt, gl_wsub_mod hk hkb hplt] at hsame
    exact hsame
  rw [mem_window_iff] at hwin ⊢
  obtain ⟨l, hl, hlni⟩ := hwin
  rw [h.and_mask, hpos] at hlni
  have hblk := gl_block_of_mem (T := s * (s + 1) / 2) hm hW hplt hl
  rw [hlni, ← hsame'] at hblk
  obtain ⟨l', hl', hli⟩ := gl_mem_of_block hm hW hplt hi hblk
  exact ⟨l', hl', by rw [h.and_mask, hpos]; exact hli⟩

theorem FInv.window_small {t : Raw} (h : FInv cfg t) (hn : t.buckets ≤ cfg.W) {pos i : Nat}
    (hp : pos < t.buckets) (hi : i < t.buckets) : i ∈ window cfg t pos := by
  rw [mem_window_iff]
  by_cases hle : pos ≤ i
  · refine ⟨i - pos, by omega, ?_⟩
    rw [h.and_mask, show pos + (i - pos) = i by omega, Nat.mod_eq_of_lt hi]
  · refine ⟨i + t.buckets - pos, by omega, ?_⟩
    rw [h.and_mask, show pos + (i + t.buckets - pos) = i + t.buckets by omega, Nat.add_mod_right,
      Nat.mod_eq_of_lt hi]

/-- Where `rehash_in_place` puts the element of a pending bucket `i` (`ni`, or `i` itself if both
    are in the same group): covered by a probe window all of whose predecessors are entirely
    FULL. -/
theorem gl_dest_reach {t : Raw} (hc : CfgOk cfg) (hp : ProbeCovers cfg) (h : RInv cfg t)
    {i ni hash : Nat} (hi : i < t.buckets) (hfind : findInsertSlot cfg t hash = .ok ni)
    (hni : ni < t.buckets) :
    ∃ s, s < t.buckets ∧ ni ∈ window cfg t (probePos cfg.W cfg.bits t.mask hash s).pos ∧
      (isInSameGroup cfg.bits cfg.W t.mask i ni hash = true →
        i ∈ window cfg t (probePos cfg.W cfg.bits t.mask hash s).pos) ∧
      ∀ s', s' < s → AllFull cfg t (probePos cfg.W cfg.bits t.mask hash s').pos := by
  by_cases hWn : cfg.W ≤ t.buckets
  · obtain ⟨idx, s, h1, h2, h3, h4, _, _⟩ := h.findInsertSlot_first hc hp hWn hash
    rw [hfind] at h1
    cases h1
    exact ⟨s, h2, h4, fun hsame => gl_sameGroup_window hc h.finv hWn hi hsame h4, h3⟩
  · have hpos : (probePos cfg.W cfg.bits t.mask hash 0).pos < t.buckets := probePos_lt ..
    refine ⟨0, by omega, h.finv.window_small (by omega) hpos hni,
      fun _ => h.finv.window_small (by omega) hpos hi, fun s' hs' => by omega⟩

theorem gl_mono_of_bytes {t t' : Raw} (hc : CfgOk cfg) (h : RInv cfg t) (h' : RInv cfg t')
    (hm : t'.mask = t.mask)
    (hb : ∀ j, j < t.buckets → isFull (t.ctrlAt j) = true → t'.ctrlAt j = t.ctrlAt j) :
    ∀ pos, pos < t.buckets → AllFull cfg t pos → AllFull cfg t' pos := by
  intro pos hpos hf
  exact AllFull.mono hc h.finv h'.finv hm (fun j hj hfj => by rw [hb j hj hfj]; exact hfj) hpos hf

/-- The inner loop of `rehash_in_place` keeps `LR`. -/
theorem rehashInner_lr (hc : CfgOk cfg) (hp : ProbeCovers cfg) (env : Env) (H : Nat → Nat)
    (hl : Lawful env H) (i : Nat) :
    ∀ (fuel : Nat) (w w' : World), RInv cfg w.t → LR cfg H w.t → i < w.t.buckets →
      w.t.ctrlAt i = DELETED → rehashInner cfg env i fuel w = .ok w' → LR cfg H w'.t := by
  intro fuel
  induction fuel with
  | zero =>
    intro w w' _ _ _ _ hr
    simp only [rehashInner] at hr
    cases hr
  | succ fuel ih =>
    intro w w' h hL hi hd hr
    obtain ⟨e, hslot⟩ := h.slot_live hi (by rw [hd]; rfl)
    have hget : slotGet w.t i = .ok e := by simp only [slotGet, hslot]
    have hh := hl.hash w.hc e.k
    obtain ⟨ni, hfind, hni, hsp⟩ := h.finv.findInsertSlot_ok hc hp (H e.k)
    obtain ⟨s, hs, hwni, hwi, hfull⟩ := gl_dest_reach hc hp h hi hfind hni
    have hnfi : isFull (w.t.ctrlAt i) = false := by rw [hd]; rfl
    have hnfn : isFull (w.t.ctrlAt ni) = false := isFull_false_of_special hsp
    have hslt : ∀ (j : Nat) (x : Elem), w.t.slots[j]?.join = some x → j < w.t.buckets := by
      intro j x hj
      have := slot_some_lt hj
      rw [h.slots_size] at this; exact this
    by_cases hsame : isInSameGroup cfg.bits cfg.W w.t.mask i ni (H e.k) = true
    · obtain ⟨t', hset, hinv, hm, hit, hsl, hct⟩ := inner_same hc h hi hd (H e.k)
      simp only [rehashInner, hget, World.hashCall, hh, hfind, hsame, if_true, hset] at hr
      cases hr
      show LR cfg H t'
      refine hL.step (d := i) (e := e) hm ?_ (by rw [hsl]; exact hL.nodup) ?_ ?_
        ⟨s, hs, hwi hsame, hfull⟩
      · refine gl_mono_of_bytes hc h hinv hm (fun j hj hfj => ?_)
        rw [hct j hj, if_neg (by rintro rfl; rw [hnfi] at hfj; cases hfj)]
      · intro j x hsx hf
        rw [hsl] at hsx
        by_cases hji : j = i
        · left
          subst hji
          rw [hslot] at hsx
          simp only [Option.join_some, Option.some.injEq] at hsx
          exact ⟨rfl, hsx.symm⟩
        · right
          have hj := hslt j x hsx
          rw [hct j hj, if_neg hji] at hf ⊢
          exact ⟨hsx, hf, rfl⟩
      · rw [hct i hi, if_pos rfl]
    · have hne : ni ≠ i := by
        intro heq; rw [heq, isInSameGroup_self] at hsame; exact hsame rfl
      have hszn : ni < w.t.ctrl.size := by have := h.allocated.2.2.1; omega
      have hrd := ctrlRd_ok (t := w.t) hszn
      have hvn := h.struct.valid ni hszn
      rcases special_cases hvn hsp with hpe | hpd
      · obtain ⟨t1, t2, e', t3, t4, h1, h2, h3, h4, hinv, hm, hit, hperm, hct⟩ :=
          inner_move hc h hi hd hni hne hpe (H e.k)
        simp only [rehashInner, hget, World.hashCall, hh, hfind, hsame, Bool.false_eq_true,
          if_false, hrd, h1, hpe, if_true, h2, h3, h4] at hr
        cases hr
        show LR cfg H t4
        obtain ⟨f1, _, _⟩ := gl_setCtrl_frame h1
        obtain ⟨g1, _, _⟩ := gl_setCtrl_frame h2
        obtain ⟨hs3, ht3⟩ := gl_slotTake_eq h3
        obtain ⟨_, ht4⟩ := gl_slotPut_eq h4
        have hs2 : t2.slots = w.t.slots := g1.trans f1
        have hee : e' = e := by
          rw [hs2, hslot] at hs3
          simp only [Option.some.injEq] at hs3
          exact hs3.symm
        have hsl4 : t4.slots = (w.t.slots.setIfInBounds i none).setIfInBounds ni (some e) := by
          rw [ht4, ht3, hee]
          show (t2.slots.setIfInBounds i none).setIfInBounds ni (some e) = _
          rw [hs2]
        have hdead := h.slot_dead hni (by rw [hpe]; rfl)
        refine hL.step (d := ni) (e := e) hm ?_ ?_ ?_ ?_ ⟨s, hs, hwni, hfull⟩
        · refine gl_mono_of_bytes hc h hinv hm (fun j hj hfj => ?_)
          rw [hct j hj, if_neg (by rintro rfl; rw [hnfi] at hfj; cases hfj),
            if_neg (by rintro rfl; rw [hnfn] at hfj; cases hfj)]
        · rw [hsl4]; exact hL.nodup.swap hslot hdead (Ne.symm hne)
        · intro j x hsx hf
          rw [hsl4] at hsx
          rcases slots_set_some hsx with ⟨hjn, hxe, _⟩ | ⟨hjn, hs'⟩
          · left; exact ⟨hjn, hxe⟩
          · obtain ⟨hji, hs''⟩ := slots_set_none hs'
            right
            have hj := hslt j x hs''
            rw [hct j hj, if_neg hji, if_neg hjn] at hf ⊢
            exact ⟨hs'', hf, rfl⟩
        · rw [hct ni hni, if_neg hne, if_pos rfl]
      · obtain ⟨t1, en, ei, h1, h2, h3, hinv, hm, hit, hperm, hct, hcnt⟩ :=
          inner_swap hc h hi hd hni hpd (H e.k)
        have hpne : ¬ (w.t.ctrlAt ni = EMPTY) := by rw [hpd]; decide
        simp only [rehashInner, hget, World.hashCall, hh, hfind, hsame, Bool.false_eq_true,
          if_false, hrd, h1, hpne, h2, h3] at hr
        obtain ⟨f1, _, _⟩ := gl_setCtrl_frame h1
        have hsn : w.t.slots[ni]? = some (some en) := by rw [← f1]; exact gl_slotGet_eq h2
        have hee : ei = e := by
          have := gl_slotGet_eq h3
          rw [f1, hslot] at this
          simp only [Option.some.injEq] at this
          exact this.symm
        let t2 : Raw :=
          { t1 with slots := (t1.slots.setIfInBounds i (some en)).setIfInBounds ni (some ei) }
        have hsl2 : t2.slots = (w.t.slots.setIfInBounds i (some en)).setIfInBounds ni (some e) := by
          show (t1.slots.setIfInBounds i (some en)).setIfInBounds ni (some ei) = _
          rw [f1, hee]
        have hct2 : ∀ j, j < w.t.buckets → t2.ctrlAt j =
            if j = ni then tagFull cfg.bits (H e.k) else w.t.ctrlAt j := hct
        have hm2 : t2.mask = w.t.mask := hm
        have hb2 : t2.buckets = w.t.buckets := by simp only [Raw.buckets_eq, hm2]
        have hL2 : LR cfg H t2 := by
          refine hL.step (d := ni) (e := e) hm2 ?_ ?_ ?_ ?_ ⟨s, hs, hwni, hfull⟩
          · refine gl_mono_of_bytes hc h hinv hm2 (fun j hj hfj => ?_)
            rw [hct2 j hj, if_neg (by rintro rfl; rw [hnfn] at hfj; cases hfj)]
          · rw [hsl2]; exact hL.nodup.swap hslot hsn (Ne.symm hne)
          · intro j x hsx hf
            rw [hsl2] at hsx
            rcases slots_set_some hsx with ⟨hjn, hxe, _⟩ | ⟨hjn, hs'⟩
            · left; exact ⟨hjn, hxe⟩
            · rcases slots_set_some hs' with ⟨hji, _, _⟩ | ⟨hji, hs''⟩
              · exfalso
                rw [hct2 j (by rw [hji]; exact hi), if_neg hjn, hji, hnfi] at hf
                cases hf
              · right
                have hj := hslt j x hs''
                rw [hct2 j hj, if_neg hjn] at hf ⊢
                exact ⟨hs'', hf, rfl⟩
          · rw [hct2 ni hni, if_pos rfl]
        exact ih { w with hc := w.hc + 1, t := t2 } w' hinv hL2 (by rw [hb2]; exact hi)
          (by rw [hct2 i hi, if_neg (Ne.symm hne)]; exact hd) hr

/-- The outer loop of `rehash_in_place` keeps `LR`. -/
theorem rehashOuter_lr (hc : CfgOk cfg) (hp : ProbeCovers cfg) (env : Env) (H : Nat → Nat)
    (hl : Lawful env H) :
    ∀ (fuel i : Nat) (w w' : World), RInv cfg w.t → LR cfg H w.t → i + fuel = w.t.buckets →
      rehashOuter cfg env fuel i w = .ok w' → LR cfg H w'.t := by
  intro fuel
  induction fuel with
  | zero =>
    intro i w w' _ hL _ hr
    simp only [rehashOuter, Res.ok.injEq] at hr
    rw [← hr]; exact hL
  | succ fuel ih =>
    intro i w w' h hL hif hr
    have hi : i < w.t.buckets := by omega
    have hsz : i < w.t.ctrl.size := by have := h.allocated.2.2.1; omega
    have hrd := ctrlRd_ok (t := w.t) hsz
    by_cases hd : w.t.ctrlAt i = DELETED
    · have hin := rehashInner_spec hc hp env i (w.t.buckets + 1) w h hi hd
        (by have := countCtrl_le w.t (· == DELETED); omega)
      cases hr1 : rehashInner cfg env i (w.t.buckets + 1) w with
      | ok w1 =>
        rw [hr1] at hin
        obtain ⟨hstep, _⟩ := hin
        simp only [rehashOuter, hrd, hd, if_true, hr1] at hr
        exact ih (i + 1) w1 w' hstep.inv
          (rehashInner_lr hc hp env H hl i _ w w1 h hL hi hd hr1)
          (by rw [hstep.buckets]; omega) hr
      | panic c w2 => simp only [rehashOuter, hrd, hd, if_true, hr1] at hr; cases hr
      | abort => simp only [rehashOuter, hrd, hd, if_true, hr1] at hr; cases hr
      | fault f => simp only [rehashOuter, hrd, hd, if_true, hr1] at hr; cases hr
    · simp only [rehashOuter, hrd, hd, if_false] at hr
      exact ih (i + 1) w w' h hL (by omega) hr

/-- Once `Inv` holds again (no pending bucket), `LR` is the hash-dependent part of `InvL`. -/
theorem LPart.of_lr {H : Nat → Nat} {t : Raw} (h : Inv cfg t) (hL : LR cfg H t) :
    LPart cfg H t := by
  have hfull : ∀ (i : Nat) (e : Elem), t.slots[i]?.join = some e → isFull (t.ctrlAt i) = true := by
    intro i e he
    have := (h.live i (slot_some_lt he)).1 (by rw [he]; rfl)
    exact this
  refine ⟨fun i e he => hL.tag i e he (hfull i e he), fun i e he => ?_, hL.nodup⟩
  obtain ⟨s, hs1, hs2, hs3⟩ := hL.reach i e he (hfull i e he)
  exact ⟨s, hs1, hs2, fun s' hs' => windowHasEmpty_false_of_full (hs3 s' hs')⟩

/-- **`rehash_in_place` re-establishes `InvL`** (lawful hasher). -/
theorem rehashInPlace_invL (hc : CfgOk cfg) (hp : ProbeCovers cfg) (env : Env) (H : Nat → Nat)
    (hl : Lawful env H) (w w' : World) (h : InvL cfg H w.t) (ha : w.t.alloc = true)
    (hr : rehashInPlace cfg env w = .ok w') : InvL cfg H w'.t := by
  have hspec := rehashInPlace_spec hc hp env w h.toInv ha
  rw [hr] at hspec
  obtain ⟨hinv', _⟩ := hspec
  obtain ⟨t1, hprep, hm1, hs1, hi1, _, _, _, hct1, hinv1⟩ :=
    prepareRehashInPlace_spec hc h.toInv ha
  have hall := h.toInv.allocated ha
  have hL1 : LR cfg H t1 := by
    have hnf : ∀ (i : Nat) (e : Elem), t1.slots[i]?.join = some e →
        isFull (t1.ctrlAt i) = true → False := by
      intro i e he hf
      have hlt : i < w.t.buckets := by
        have := slot_some_lt he
        rw [hs1, hall.2.2.2.1] at this; exact this
      rw [hct1 i hlt] at hf
      split at hf <;> exact absurd hf (by decide)
    refine ⟨fun i e he hf => (hnf i e he hf).elim, fun i e he hf => (hnf i e he hf).elim, ?_⟩
    rw [hs1]; exact h.nodup
  cases hro : rehashOuter cfg env t1.buckets 0 { w with t := t1 } with
  | ok w2 =>
    have hL2 := rehashOuter_lr hc hp env H hl t1.buckets 0 { w with t := t1 } w2 hinv1 hL1
      (by simp) hro
    simp only [rehashInPlace, hprep, hro] at hr
    split at hr
    · cases hr
    · cases hr
      refine InvL.of_lpart hinv' (LPart.of_lr hinv' ⟨hL2.tag, hL2.reach, hL2.nodup⟩)
  | panic c w2 => simp only [rehashInPlace, hprep, hro] at hr; cases hr
  | abort => simp only [rehashInPlace, hprep, hro] at hr; cases hr
  | fault f => simp only [rehashInPlace, hprep, hro] at hr; cases hr

/-! ### Part 3: assembling -/

/-- Growing a table (new allocation, or rehash in place) re-establishes the hash-dependent
    invariant, for every lawful hasher. -/
structure GrowthLawful (cfg : Cfg) : Prop where
  resize : ∀ (env : Env) (H : Nat → Nat), Lawful env H → ∀ capacity fb (w w' : World),
    InvL cfg H w.t → w.t.LayoutOk cfg → w.t.items ≤ capacity →
    resizeInner cfg env capacity fb w = .ok (.ok (), w') → InvL cfg H w'.t
  rehash : ∀ (env : Env) (H : Nat → Nat), Lawful env H → ∀ (w w' : World),
    InvL cfg H w.t → w.t.alloc = true → rehashInPlace cfg env w = .ok w' → InvL cfg H w'.t

theorem growthLawful (hc : CfgOk cfg) (hp : ProbeCovers cfg) : GrowthLawful cfg :=
  ⟨fun env H hl capacity fb w w' h hlo hcap hr =>
      resizeInner_invL hc hp env H hl capacity fb w w' h hlo hcap hr,
   fun env H hl w w' h ha hr => rehashInPlace_invL hc hp env H hl w w' h ha hr⟩

theorem gl_checkedAdd_some {bits a b c : Nat} (h : checkedAdd bits a b = some c) : c = a + b := by
  unfold checkedAdd at h
  split at h
  · cases h; rfl
  · cases h

/-- `reserve_rehash_inner` (called with `additional ≥ 1`, as `reserve`/`try_reserve` do). -/
theorem reserveRehash_invL (hc : CfgOk cfg) (hp : ProbeCovers cfg) (env : Env) (H : Nat → Nat)
    (hl : Lawful env H) (additional : Nat) (fb : Fallibility) (w w' : World)
    (h : InvL cfg H w.t) (hlo : w.t.LayoutOk cfg) (hadd : 0 < additional)
    (hr : reserveRehash cfg env additional fb w = .ok (.ok (), w')) : InvL cfg H w'.t := by
  unfold reserveRehash at hr
  cases hca : checkedAdd cfg.bits w.t.items additional with
  | none =>
    rw [hca] at hr
    cases fb <;> simp [capacityOverflow] at hr
  | some newItems =>
    rw [hca] at hr
    simp only at hr
    have hni := gl_checkedAdd_some hca
    split at hr
    · rename_i hle
      have ha : w.t.alloc = true := by
        rcases h.toInv.geom with hsg | hal
        · exfalso
          rw [hsg.2.1] at hle
          simp [bucketMaskToCapacity] at hle
          omega
        · exact hal.1
      cases hrh : rehashInPlace cfg env w with
      | ok w1 =>
        rw [hrh] at hr
        simp only [Res.ok.injEq, Prod.mk.injEq, true_and] at hr
        rw [← hr]
        exact rehashInPlace_invL hc hp env H hl w w1 h ha hrh
      | panic c w1 => rw [hrh] at hr; cases hr
      | abort => rw [hrh] at hr; cases hr
      | fault f => rw [hrh] at hr; cases hr
    · exact resizeInner_invL hc hp env H hl _ fb w w' h hlo
        (by have := Nat.le_max_left newItems (bucketMaskToCapacity w.t.mask + 1); omega) hr

/-- **`reserve` preserves `InvL`** (lawful hasher). -/
theorem reserve_invL (hc : CfgOk cfg) (hp : ProbeCovers cfg) (env : Env) (H : Nat → Nat)
    (hl : Lawful env H) (additional : Nat) (w w' : World) (h : InvL cfg H w.t)
    (hlo : w.t.LayoutOk cfg) (hr : reserve cfg env additional w = .ok w') : InvL cfg H w'.t := by
  unfold reserve at hr
  split at hr
  · rename_i hgt
    cases hrr : reserveRehash cfg env additional .infallible w with
    | ok pr =>
      obtain ⟨r, w1⟩ := pr
      rw [hrr] at hr
      cases r with
      | error e => cases hr
      | ok u =>
        cases u
        simp only [Res.ok.injEq] at hr
        rw [← hr]
        exact reserveRehash_invL hc hp env H hl additional .infallible w w1 h hlo (by omega) hrr
    | panic c w1 => rw [hrr] at hr; cases hr
    | abort => rw [hrr] at hr; cases hr
    | fault f => rw [hrr] at hr; cases hr
  · cases hr; exact h

/-- **`try_reserve` preserves `InvL`** on success (lawful hasher). -/
theorem tryReserve_invL (hc : CfgOk cfg) (hp : ProbeCovers cfg) (env : Env) (H : Nat → Nat)
    (hl : Lawful env H) (additional : Nat) (w w' : World) (h : InvL cfg H w.t)
    (hlo : w.t.LayoutOk cfg) (hr : tryReserve cfg env additional w = .ok (.ok (), w')) :
    InvL cfg H w'.t := by
  unfold tryReserve at hr
  split at hr
  · rename_i hgt
    exact reserveRehash_invL hc hp env H hl additional .fallible w w' h hlo (by omega) hr
  · simp only [Res.ok.injEq, Prod.mk.injEq, true_and] at hr
    rw [← hr]; exact h

/-! ### non-vacuity -/

/-- A lawful environment for `H k = k`. -/
def glEnv : Env :=
  { hash := fun _ k => some k, eq := fun _ q e => some (q == e.k), clone := fun _ _ => none,
    pred := fun _ _ => none, allocOk := fun _ => true, dropPanics := fun _ _ => false }

theorem glEnv_lawful : Lawful glEnv (fun k => k) := ⟨fun _ _ => rfl, fun _ _ _ => rfl⟩

/-- `f1Table` (Rehash.lean): SSE2 width 16, 16 buckets, keys 0..5 in their home buckets, eight
    tombstones, `growth_left = 0`.  `invLB` holds before; `rehash_in_place` succeeds, reclaims the
    tombstones (`growth_left = 8`) and `invLB` holds after. -/
example :
    invLB f1CfgFixed (fun k => k) f1Table = true ∧
    (match rehashInPlace f1CfgFixed glEnv { t := f1Table } with
     | .ok w' => invLB f1CfgFixed (fun k => k) w'.t && w'.t.gl == 8 && w'.t.items == 6 && w'.hc == 6
     | _ => false) = true ∧
    -- `reserve(1)` takes the rehash-in-place branch (7 ≤ 14 / 2)
    (match reserve f1CfgFixed glEnv 1 { t := f1Table } with
     | .ok w' => invLB f1CfgFixed (fun k => k) w'.t && w'.t.buckets == 16 && w'.t.gl == 8
     | _ => false) = true := by
  refine ⟨by decide, by decide, by decide⟩

def glCfg8 : Cfg := { ops := Generic.ops }

/-- Portable width 8, 16 buckets (two groups), nine keys with home bucket 10 stored in buckets
    10..15, 0, 1, 2, five tombstones, `growth_left = 0`.  Rehashing bucket 2 (second probe window)
    swaps its element six times with pending elements of the first window. -/
def glTable8 : Raw :=
  { mask := 15
    ctrl := #[0, 0, 0, 128, 128, 128, 128, 128, 255, 255, 0, 0, 0, 0, 0, 0,
              0, 0, 0, 128, 128, 128, 128, 128]
    slots := #[f1Elem 106, f1Elem 122, f1Elem 138, none, none, none, none, none, none, none,
               f1Elem 10, f1Elem 26, f1Elem 42, f1Elem 58, f1Elem 74, f1Elem 90]
    items := 9, gl := 0, alloc := true }

example :
    invLB glCfg8 (fun k => k) glTable8 = true ∧
    (match rehashInPlace glCfg8 glEnv { t := glTable8 } with
     | .ok w' => invLB glCfg8 (fun k => k) w'.t && w'.t.gl == 5 && w'.t.items == 9 && w'.hc == 9 &&
        w'.t.slots[2]? == some (f1Elem 90) && w'.t.slots[10]? == some (f1Elem 138)
     | _ => false) = true := by
  refine ⟨by decide, by decide⟩

/-- The same table grown into a new allocation (capacity 15 ⇒ 32 buckets), and through
    `reserve`. -/
example :
    (match resizeInner glCfg8 glEnv 15 .infallible { t := glTable8 } with
     | .ok (.ok (), w') => invLB glCfg8 (fun k => k) w'.t && w'.t.buckets == 32 && w'.t.items == 9
     | _ => false) = true ∧
    (match reserve glCfg8 glEnv 1 { t := glTable8 } with
     | .ok w' => invLB glCfg8 (fun k => k) w'.t && w'.t.buckets == 32 && w'.t.items == 9
     | _ => false) = true := by
  refine ⟨by decide, by decide⟩

#print axioms resizeInner_invL
#print axioms rehashInPlace_invL
#print axioms growthLawful
#print axioms reserve_invL
#print axioms tryReserve_invL

end Hb
