/-
C14 / C04 — a raw entry filled with ANOTHER key (`Hb/Model/RawOther.lean`, `Map.rawEntryOther`):
`raw_entry_mut().from_*(kLook)` followed by `RawVacantEntryMut::insert(K(e.k), V)` /
`RawEntryMut::or_insert(K(e.k), V)` where `e.k` need not be `kLook`.

Part A (every environment, `TInv`): `ro_cases` (how the call continues after the look-up),
  `ro_rawInsert_panic` (`RawTable::insert` unwinds only inside its `reserve(1)`),
  `rawEntryOther_outcomes` (every outcome, with panic classes and logs; never a fault),
  `rawEntryOther_safe` (`en_Safe`).
Part B (lawful hasher): `rawEntryOther_vacant_spec` (the pair is filed under the hash of the STORED
  key: `RI` kept, contents `e :: l`, `items + 1`, `AL.find … e.k = some e`, `Map.get` finds it),
  `rawEntryOther_occupied_spec`, `rawEntryOther_spec` (totality form in the style of
  `rawEntry_chain_spec`), `rawEntryOther_panic_lawful` (only `"capacity"` / `"drop"`, table unchanged).
Part C (ledger, element types with drop glue, every environment): `ro_PanicLedger`,
  `rawEntryOther_ledger`.
Part D: evaluated example on the full 4-bucket table `enTable`.
-/
import Hb.Model.RawOther
import Hb.Proofs.EntryPanicSpec
import Hb.Proofs.LedgerX
namespace Hb

variable {cfg : Cfg}

/-! ## A. every environment -/

/-- How `rawEntryOther` continues after the look-up, for every environment and ANY caller-supplied
    hash: the look-up unwound (both caller objects dropped by the unwinding), it hit bucket `idx`
    (an element the user's `Eq` answered `true` for), or it missed. The look-up itself never touches
    table or log. -/
theorem ro_cases (hc : CfgOk cfg) (env : Env) (mode : Map.RawMode) (ph kLook : Nat) (orIns : Bool)
    (e : Elem) (w : World) (h : Inv cfg w.t) :
    (∃ c w1, (c = "eq" ∨ (c = "hash" ∧ mode = .fromKey)) ∧ w1.t = w.t ∧ w1.log = w.log ∧
      Map.rawEntryOther cfg env mode ph kLook orIns e w =
        .panic c (Map.dropHeldQuiet cfg (some e.kid, some e.vid) w1)) ∨
    (∃ (idx : Nat) (old : Elem) (cn : Nat) (w1 : World), w1.t = w.t ∧ w1.log = w.log ∧
      w.t.slots[idx]?.join = some old ∧ env.eq cn kLook old = some true ∧
      Map.rawEntryOther cfg env mode ph kLook orIns e w =
        (dropKeyR cfg env e.kid (Map.dropVal cfg e.vid w1)).bind fun w2 =>
          .ok ((true, if orIns then Map.EOut.elem old else Map.EOut.none), w2)) ∨
    (∃ w1, w1.t = w.t ∧ w1.log = w.log ∧
      Map.rawEntryOther cfg env mode ph kLook orIns e w =
        ((makeHash env e.k w1).onPanic (·.dropElemQuiet cfg e)).bind fun x =>
          (Map.insOwned cfg env x.1 e x.2).bind fun y =>
            (.ok ((false, Map.EOut.elem e), y.2) : Map.EntRes)) := by
  have hL := ep_rawLook hc env mode ph kLook w h
  unfold Map.rawEntryOther
  generalize Map.rawLook cfg env mode ph kLook w = r at hL
  cases hL with
  | occupied idx old cn w1 a1 a2 _ a3 a4 =>
    refine .inr (.inl ⟨idx, old, cn, w1, a1, a2, a3, a4, ?_⟩)
    have he1 : w1.t.slots[idx]?.join = some old := by rw [a1]; exact a3
    simp only [Res.onPanic, Res.bind, slotGet_ok he1]
  | vacant w1 a1 a2 _ =>
    refine .inr (.inr ⟨w1, a1, a2, ?_⟩)
    simp only [Res.onPanic, Res.bind]
  | unwound c w1 a0 a1 a2 _ =>
    refine .inl ⟨c, w1, a0, a1, a2, ?_⟩
    simp only [Res.onPanic, Res.bind]

/-- `RawTable::insert` unwinds only inside its `reserve(1)`. -/
theorem ro_rawInsert_panic {env : Env} {hash : Nat} {e : Elem} {w : World} {c : String} {w' : World}
    (h : rawInsert cfg env hash e w = .panic c w') : reserve cfg env 1 w = .panic c w' := by
  unfold rawInsert at h
  cases hr : reserve cfg env 1 w with
  | panic c1 w1 =>
    rw [hr] at h
    revert h
    repeat' split
    all_goals (intro h; first | (rename_i hq; cases hq; cases h; rfl) | (cases h) | (simp only at h; split at h <;> cases h))
  | ok w1 =>
    rw [hr] at h
    exfalso
    revert h
    repeat' split
    all_goals (intro h; first | (cases h; done) | (simp only at h; split at h <;> cases h) | (rename_i hq; cases hq))
  | abort =>
    rw [hr] at h
    exfalso
    revert h
    repeat' split
    all_goals (intro h; first | (cases h; done) | (simp only at h; split at h <;> cases h) | (rename_i hq; cases hq))
  | fault f =>
    rw [hr] at h
    exfalso
    revert h
    repeat' split
    all_goals (intro h; first | (cases h; done) | (simp only at h; split at h <;> cases h) | (rename_i hq; cases hq))

theorem ro_dropHeldQuiet_log (kid vid : Nat) (w : World) :
    (Map.dropHeldQuiet cfg (some kid, some vid) w).log =
      keyDropEv cfg kid ++ valDropEv cfg vid ++ w.log := by
  show ((Map.dropValOpt cfg (some vid) w).dropKeyQuiet cfg kid).log = _
  rw [en_dropKeyQuiet_log, en_dropValOpt_log, List.append_assoc]
  rfl

/-- **Every outcome of `rawEntryOther`, every environment, any caller-supplied hash.** Never a fault.
    * `.ok` Occupied: table literally unchanged, the caller's value then key object dropped, `out` is
      the stored pair of the hit bucket (`or_insert`) or nothing.
    * `.ok` Vacant: the result of `RawTable::insert(hv, e, hasher)` where `hv` is what `Hash` answered
      for the STORED key `e.k`, run from a world with the table and log of `w`.
    * `.panic`: `"eq"` / `"hash"` (look-up; `"hash"` only with `from_key`) or `"drop"` (the caller's key
      object, dropped unused at the end of the occupied path): table literally unchanged, both caller
      objects logged once; `"hash"` from hashing the stored key: table unchanged, `e` dropped quietly;
      otherwise the panic came out of `reserve(1)` inside `RawTable::insert` and `e` was dropped on top
      of what `reserve` left behind. -/
theorem rawEntryOther_outcomes (hc : CfgOk cfg) (env : Env) (mode : Map.RawMode) (ph kLook : Nat)
    (orIns : Bool) (e : Elem) (w : World) (h : TInv cfg w.t) :
    match Map.rawEntryOther cfg env mode ph kLook orIns e w with
    | .ok ((b, out), w') =>
      (b = true ∧ w'.t = w.t ∧ w'.log = keyDropEv cfg e.kid ++ valDropEv cfg e.vid ++ w.log ∧
        ∃ (idx : Nat) (old : Elem), w.t.slots[idx]?.join = some old ∧
          (∃ cn, env.eq cn kLook old = some true) ∧
          out = if orIns then Map.EOut.elem old else Map.EOut.none) ∨
      (b = false ∧ out = Map.EOut.elem e ∧ ∃ (hv idx : Nat) (w1 : World),
        (∃ cn, env.hash cn e.k = some hv) ∧ w1.t = w.t ∧ w1.log = w.log ∧
        rawInsert cfg env hv e w1 = .ok (idx, w'))
    | .panic c w' =>
      ((c = "eq" ∨ (c = "hash" ∧ mode = .fromKey) ∨ c = "drop") ∧ w'.t = w.t ∧
        w'.log = keyDropEv cfg e.kid ++ valDropEv cfg e.vid ++ w.log) ∨
      (c = "hash" ∧ w'.t = w.t ∧ w'.log = dropEvs cfg [e] ++ w.log) ∨
      (∃ (hv : Nat) (w1 w2 : World), (∃ cn, env.hash cn e.k = some hv) ∧ w1.t = w.t ∧
        w1.log = w.log ∧ reserve cfg env 1 w1 = .panic c w2 ∧ w'.t = w2.t ∧
        w'.log = dropEvs cfg [e] ++ w2.log)
    | .abort => True
    | .fault _ => False := by
  rcases ro_cases hc env mode ph kLook orIns e w h.1 with
    ⟨c, w1, a0, a1, a2, hr⟩ | ⟨idx, old, cn, w1, a1, a2, a3, a4, hr⟩ | ⟨w1, a1, a2, hr⟩
  · rw [hr]
    refine .inl ⟨?_, by rw [en_dropHeldQuiet_t, a1], by rw [ro_dropHeldQuiet_log, a2]⟩
    rcases a0 with a0 | a0
    · exact .inl a0
    · exact .inr (.inl a0)
  · rw [hr]
    rcases ag_dropKeyR (cfg := cfg) env e.kid (Map.dropVal cfg e.vid w1) with
      ⟨w2, d1, d2, d3⟩ | ⟨w2, d1, d2, d3⟩
    · rw [d1]
      refine .inl ⟨rfl, by rw [d2, en_dropVal_t, a1], ?_, idx, old, a3, ⟨cn, a4⟩, rfl⟩
      rw [d3, en_dropVal_log, a2, List.append_assoc]
      rfl
    · rw [d1]
      refine .inl ⟨.inr (.inr rfl), by rw [d2, en_dropVal_t, a1], ?_⟩
      rw [d3, en_dropVal_log, a2, List.append_assoc]
      rfl
  · rw [hr]
    cases hh : env.hash w1.hc e.k with
    | none =>
      simp only [ag_makeHash_none hh, Res.onPanic, Res.bind]
      exact .inr (.inl ⟨trivial, by rw [dropElemQuiet_t]; exact a1, by rw [dropElemQuiet_log]; exact congrArg _ a2⟩)
    | some hv =>
      simp only [ag_makeHash_some hh, Res.onPanic, Res.bind]
      have hT : TInv cfg ({ w1 with hc := w1.hc + 1 } : World).t := by
        show TInv cfg w1.t; rw [a1]; exact h
      have hsp := rawInsert_spec hc hc.probe env hv e { w1 with hc := w1.hc + 1 } hT
      unfold Map.insOwned
      cases hri : rawInsert cfg env hv e { w1 with hc := w1.hc + 1 } with
      | ok x =>
        obtain ⟨idx, w3⟩ := x
        exact .inr ⟨rfl, rfl, hv, idx, ({ w1 with hc := w1.hc + 1 } : World), ⟨_, hh⟩, a1, a2, hri⟩
      | panic c w2 =>
        exact .inr (.inr ⟨hv, ({ w1 with hc := w1.hc + 1 } : World), w2, ⟨_, hh⟩, a1, a2,
          ro_rawInsert_panic hri,
          dropElemQuiet_t _ _, dropElemQuiet_log _ _⟩)
      | abort => trivial
      | fault f => rw [hri] at hsp; exact hsp.elim

/-- Occupied, every environment: the table is literally unchanged, only the caller's value and key
    objects are dropped; `or_insert` hands back the stored pair of the hit bucket. -/
theorem rawEntryOther_occupied_any_env (hc : CfgOk cfg) (env : Env) (mode : Map.RawMode)
    (ph kLook : Nat) (orIns : Bool) (e : Elem) (w : World) (h : TInv cfg w.t) {out : Map.EOut}
    {w' : World} (hr : Map.rawEntryOther cfg env mode ph kLook orIns e w = .ok ((true, out), w')) :
    w'.t = w.t ∧ w'.log = keyDropEv cfg e.kid ++ valDropEv cfg e.vid ++ w.log ∧
      ∃ (idx : Nat) (old : Elem), w.t.slots[idx]?.join = some old ∧
        (∃ cn, env.eq cn kLook old = some true) ∧
        out = if orIns then Map.EOut.elem old else Map.EOut.none := by
  have hs := rawEntryOther_outcomes hc env mode ph kLook orIns e w h
  rw [hr] at hs
  rcases hs with ⟨_, a1, a2, a3⟩ | ⟨hb, _⟩
  · exact ⟨a1, a2, a3⟩
  · cases hb

/-- Robustness, every environment, any hash: never a fault; the structural invariant holds after
    return and after unwinding (for the hasher panic inside an in-place rehash: if the unwind guard
    runs, `GuardRuns`). -/
theorem rawEntryOther_safe (hc : CfgOk cfg) (hg : GuardRuns cfg) (env : Env) (mode : Map.RawMode)
    (ph kLook : Nat) (orIns : Bool) (e : Elem) (w : World) (h : TInv cfg w.t) :
    match Map.rawEntryOther cfg env mode ph kLook orIns e w with
    | .ok (_, w') => TInv cfg w'.t
    | .panic _ w' => TInv cfg w'.t
    | .abort => True
    | .fault _ => False := by
  have hs := rawEntryOther_outcomes hc env mode ph kLook orIns e w h
  generalize Map.rawEntryOther cfg env mode ph kLook orIns e w = r at hs
  match r, hs with
  | .ok ((_, _), w'), .inl ⟨_, a1, _⟩ => show TInv cfg w'.t; rw [a1]; exact h
  | .ok ((_, _), w'), .inr ⟨_, _, hv, idx, w1, _, b1, _, hri⟩ =>
    have hsp := rawInsert_spec hc hc.probe env hv e w1 (by rw [b1]; exact h)
    rw [hri] at hsp
    exact hsp.1
  | .panic _ w', .inl ⟨_, a1, _⟩ => show TInv cfg w'.t; rw [a1]; exact h
  | .panic _ w', .inr (.inl ⟨_, a1, _⟩) => show TInv cfg w'.t; rw [a1]; exact h
  | .panic _ w', .inr (.inr ⟨hv, w1, w2, _, b1, _, hres, c1, _⟩) =>
    have hsp := reserve_spec hc hc.probe env 1 w1 (by rw [b1]; exact h)
    rw [hres] at hsp
    show TInv cfg w'.t
    rw [c1]
    rcases hsp with ⟨_, rfl⟩ | ⟨_, _, hsp⟩
    · rw [b1]; exact h
    · exact (hsp hg).1
  | .abort, _ => trivial
  | .fault _, hs => exact hs

/-- `from_key`: `Hash` panics on the LOOK-UP key. Both caller objects are dropped by the unwinding
    (value, then key), the table is untouched. -/
theorem rawEntryOther_lookup_hash_panics (env : Env) (ph kLook : Nat) (orIns : Bool) (e : Elem)
    (w : World) (hh : env.hash w.hc kLook = none) :
    ∃ w', Map.rawEntryOther cfg env .fromKey ph kLook orIns e w = .panic "hash" w' ∧ w'.t = w.t ∧
      w'.log = keyDropEv cfg e.kid ++ valDropEv cfg e.vid ++ w.log := by
  refine ⟨Map.dropHeldQuiet cfg (some e.kid, some e.vid) { w with hc := w.hc + 1 }, ?_,
    en_dropHeldQuiet_t _ _, ro_dropHeldQuiet_log _ _ _⟩
  simp only [Map.rawEntryOther, Map.rawLook, ↓reduceIte, ag_makeHash_none hh, rf_bind_panic,
    Res.onPanic, Res.bind]

/-- The look-up was Vacant and `Hash` panics on the STORED key (`make_hash(hash_builder, &key)` inside
    `RawVacantEntryMut::insert`): the pair `e` is dropped quietly, the table is untouched. -/
theorem rawEntryOther_stored_hash_panics (hc : CfgOk cfg) (env : Env) (mode : Map.RawMode)
    (ph kLook : Nat) (orIns : Bool) (e : Elem) (w : World) (h : Inv cfg w.t) {w1 : World}
    (hlk : Map.rawLook cfg env mode ph kLook w = .ok (none, w1))
    (hh : env.hash w1.hc e.k = none) :
    ∃ w', Map.rawEntryOther cfg env mode ph kLook orIns e w = .panic "hash" w' ∧ w'.t = w.t ∧
      w'.log = dropEvs cfg [e] ++ w.log := by
  have hL := lx_rawLook hc env mode ph kLook w h
  rw [hlk] at hL
  obtain ⟨a1, a2⟩ := hL
  refine ⟨({ w1 with hc := w1.hc + 1 } : World).dropElemQuiet cfg e, ?_,
    by rw [dropElemQuiet_t]; exact a1, by rw [dropElemQuiet_log]; exact congrArg _ a2⟩
  simp only [Map.rawEntryOther, hlk, ag_makeHash_none hh, Res.onPanic, Res.bind]

/-! ## B. lawful hasher -/

theorem ro_find_cons_self (e : Elem) (l : AL) : AL.find (e :: l) e.k = some e := by
  simp [AL.find]

theorem ro_find_cons_ne (e : Elem) (l : AL) {k : Nat} (hk : k ≠ e.k) :
    AL.find (e :: l) k = AL.find l k := by
  have : (e.k == k) = false := by simpa using fun h => hk h.symm
  simp [AL.find, this]

/-- **(a) Vacant look-up, filled with the key `e.k`.** Lawful hasher, never-refusing allocator, ANY
    look-up key `kLook` (equal to `e.k` or not), ANY builder and caller-supplied hash `ph` (right or
    wrong): if the call returned Vacant-and-inserted and `e.k` was absent, the pair has been filed
    under the hash of the STORED key — the lawful invariant `RI` holds (every stored element is
    reachable from the hash of its own key), the contents are the old contents plus `e`, `len()`
    grew by one, nothing was dropped, `e.k ↦ e` in the abstract map, every other key is mapped as
    before, and `get(&e.k)` as well as a raw look-up of `e.k` find it. -/
theorem rawEntryOther_vacant_spec (hc : CfgOk cfg) {env : Env} {H : Nat → Nat} (hl : Lawful env H)
    (halloc : ∀ j, env.allocOk j = true) (mode : Map.RawMode) (ph kLook : Nat) (orIns : Bool)
    (e : Elem) (w : World) (h : RI cfg H w.t) (habs : AL.find w.t.elems e.k = none)
    {out : Map.EOut} {w' : World}
    (hr : Map.rawEntryOther cfg env mode ph kLook orIns e w = .ok ((false, out), w')) :
    out = Map.EOut.elem e ∧ RI cfg H w'.t ∧ List.Perm w'.t.elems (e :: w.t.elems) ∧
      w'.t.items = w.t.items + 1 ∧ dropsOf w'.log = dropsOf w.log ∧
      AL.find w'.t.elems e.k = some e ∧
      (∀ k, k ≠ e.k → AL.find w'.t.elems k = AL.find w.t.elems k) ∧
      (∃ w'', Map.get cfg env e.k w' = .ok (some e, w'') ∧ w''.t = w'.t ∧ w''.log = w'.log) ∧
      (∀ (mode' : Map.RawMode) (ph' : Nat), mode' = .fromKey ∨ ph' = H e.k →
        ∃ idx w'', Map.rawLook cfg env mode' ph' e.k w' = .ok (some idx, w'') ∧ w''.t = w'.t ∧
          w'.t.slots[idx]?.join = some e) := by
  have hs := rawEntryOther_outcomes hc env mode ph kLook orIns e w (ep_RI_TInv h)
  rw [hr] at hs
  rcases hs with ⟨hb, _⟩ | ⟨_, ho, hv, idx, w1, ⟨cn, hh⟩, b1, b2, hri⟩
  · cases hb
  · have hhv : hv = H e.k := by
      rw [hl.hash] at hh; exact (Option.some.inj hh).symm
    subst hhv
    have hRI1 : RI cfg H w1.t := by rw [b1]; exact h
    rcases en_rawInsert_RI hc hl halloc e w1 hRI1 (by rw [b1]; exact habs) with
      ⟨idx', w3, hi, r1, r2, r3, r4⟩ | hp
    · rw [hi] at hri
      cases hri
      have hnd' := elems_keysNodup r1.1
      have hfind : AL.find w'.t.elems e.k = some e := by
        rw [AL.perm_find r2 hnd', b1]; exact ro_find_cons_self e _
      refine ⟨ho, r1, by rw [← b1]; exact r2, by rw [r3, b1], by rw [r4, b2], hfind, ?_, ?_, ?_⟩
      · intro k hk
        rw [AL.perm_find r2 hnd', b1]; exact ro_find_cons_ne e _ hk
      · obtain ⟨w'', hg, ht, hlog⟩ := get_refines hc hl e.k w' r1
        rw [hfind] at hg
        exact ⟨w'', hg, ht, hlog⟩
      · intro mode' ph' hph'
        have hlook := rawLook_spec hc hl mode' ph' e.k hph' w' r1.1
        rw [hfind] at hlook
        obtain ⟨idx2, w'', hlk, ht, he, _, _⟩ := hlook
        exact ⟨idx2, w'', hlk, ht, he⟩
    · rw [hp] at hri
      cases hri

/-- **(b) Occupied look-up.** The table is literally unchanged (only the caller's value and key
    objects are dropped, in that order); `or_insert` hands back the pair stored under `kLook`
    (the element of the hit bucket, `AL.find … kLook`), the plain `insert` arm nothing. No hypothesis
    on the caller-supplied hash. -/
theorem rawEntryOther_occupied_spec (hc : CfgOk cfg) {env : Env} {H : Nat → Nat} (hl : Lawful env H)
    (mode : Map.RawMode) (ph kLook : Nat) (orIns : Bool) (e : Elem) (w : World) (h : RI cfg H w.t)
    {out : Map.EOut} {w' : World}
    (hr : Map.rawEntryOther cfg env mode ph kLook orIns e w = .ok ((true, out), w')) :
    w'.t = w.t ∧ w'.log = keyDropEv cfg e.kid ++ valDropEv cfg e.vid ++ w.log ∧
      ∃ (idx : Nat) (old : Elem), w.t.slots[idx]?.join = some old ∧ old.k = kLook ∧
        AL.find w.t.elems kLook = some old ∧
        out = if orIns then Map.EOut.elem old else Map.EOut.none := by
  obtain ⟨a1, a2, idx, old, a3, ⟨cn, a4⟩, a5⟩ :=
    rawEntryOther_occupied_any_env hc env mode ph kLook orIns e w (ep_RI_TInv h) hr
  have hk := hl.eq_true a4
  exact ⟨a1, a2, idx, old, a3, hk, (elems_find h.1).mpr ⟨idx, a3, hk⟩, a5⟩

/-- **Unwinding under a lawful hasher and a never-refusing allocator**: the table is literally
    unchanged and the two caller objects have been dropped exactly once each — as the pair
    (`dropEvs cfg [e]`: the `"capacity"` panic of `reserve(1)`) or one after the other (the caller's
    key object's own destructor panicked at the end of the occupied path). -/
theorem rawEntryOther_panic_lawful (hc : CfgOk cfg) {env : Env} {H : Nat → Nat} (hl : Lawful env H)
    (halloc : ∀ j, env.allocOk j = true) (mode : Map.RawMode) (ph kLook : Nat) (orIns : Bool)
    (e : Elem) (w : World) (h : RI cfg H w.t) {c : String} {w' : World}
    (hr : Map.rawEntryOther cfg env mode ph kLook orIns e w = .panic c w') :
    w'.t = w.t ∧ (w'.log = dropEvs cfg [e] ++ w.log ∨
      w'.log = keyDropEv cfg e.kid ++ valDropEv cfg e.vid ++ w.log) := by
  have hs := rawEntryOther_outcomes hc env mode ph kLook orIns e w (ep_RI_TInv h)
  rw [hr] at hs
  rcases hs with ⟨_, a1, a2⟩ | ⟨_, a1, a2⟩ | ⟨hv, w1, w2, _, b1, b2, hres, c1, c2⟩
  · exact ⟨a1, .inr a2⟩
  · exact ⟨a1, .inl a2⟩
  · rcases reserve_RI hc (growthLawful hc hc.probe) hl halloc 1 w1 (by rw [b1]; exact h) with
      ⟨w3, hr3, _⟩ | hp
    · rw [hr3] at hres; cases hres
    · rw [hp] at hres
      cases hres
      exact ⟨c1.trans b1, .inl (by rw [c2, b2])⟩

/-- **Totality form** (style of `rawEntry_chain_spec`): with the documented contract of the
    `…hash…` builders for the LOOK-UP key, non-panicking destructors. -/
theorem rawEntryOther_spec (hc : CfgOk cfg) {env : Env} {H : Nat → Nat} (hl : Lawful env H)
    (halloc : ∀ j, env.allocOk j = true) (hnd : ∀ c e, env.dropPanics c e = false)
    (mode : Map.RawMode) (ph kLook : Nat) (orIns : Bool) (e : Elem)
    (hph : mode = .fromKey ∨ ph = H kLook) (w : World) (h : RI cfg H w.t) :
    match AL.find w.t.elems kLook with
    | some old =>
      ∃ w', Map.rawEntryOther cfg env mode ph kLook orIns e w =
          .ok ((true, if orIns then Map.EOut.elem old else Map.EOut.none), w') ∧ w'.t = w.t ∧
        w'.log = keyDropEv cfg e.kid ++ valDropEv cfg e.vid ++ w.log
    | none =>
      AL.find w.t.elems e.k = none →
      (∃ w', Map.rawEntryOther cfg env mode ph kLook orIns e w = .ok ((false, .elem e), w') ∧
        RI cfg H w'.t ∧ List.Perm w'.t.elems (e :: w.t.elems) ∧ w'.t.items = w.t.items + 1 ∧
        dropsOf w'.log = dropsOf w.log ∧ AL.find w'.t.elems e.k = some e) ∨
      (∃ w', Map.rawEntryOther cfg env mode ph kLook orIns e w = .panic "capacity" w' ∧
        w'.t = w.t ∧ w'.log = dropEvs cfg [e] ++ w.log) := by
  have hlook := rawLook_spec hc hl mode ph kLook hph w h.1
  cases hfind : AL.find w.t.elems kLook with
  | some old =>
    rw [hfind] at hlook
    obtain ⟨idx, w1, hlk, ht, he, hk, hlog⟩ := hlook
    have he1 : w1.t.slots[idx]?.join = some old := by rw [ht]; exact he
    obtain ⟨w2, hdk, ht2, hlog2⟩ := en_dropKeyR_ok (cfg := cfg) hnd e.kid (Map.dropVal cfg e.vid w1)
    refine ⟨w2, ?_, by rw [ht2, en_dropVal_t, ht], by rw [hlog2, en_dropVal_log, hlog, List.append_assoc]⟩
    simp only [Map.rawEntryOther, hlk, Res.onPanic, Res.bind, slotGet_ok he1, hdk]
  | none =>
    rw [hfind] at hlook
    obtain ⟨w1, hlk, ht, hlog⟩ := hlook
    intro habs
    have hRI1 : RI cfg H ({ w1 with hc := w1.hc + 1 } : World).t := by
      show RI cfg H w1.t; rw [ht]; exact h
    have hfresh : AL.find ({ w1 with hc := w1.hc + 1 } : World).t.elems e.k = none := by
      show AL.find w1.t.elems e.k = none; rw [ht]; exact habs
    rcases en_insOwned_spec hc hl halloc e { w1 with hc := w1.hc + 1 } hRI1 hfresh with
      ⟨idx, w', hi, r1, r2, r3, r4⟩ | hp
    · left
      have r2' : List.Perm w'.t.elems (e :: w.t.elems) := by rw [← ht]; exact r2
      refine ⟨w', ?_, r1, r2', by rw [r3]; show w1.t.items + 1 = _; rw [ht],
        by rw [r4]; show dropsOf w1.log = _; rw [hlog], ?_⟩
      · simp only [Map.rawEntryOther, hlk, Res.onPanic, Res.bind, rf_makeHash_lawful hl, hi]
      · rw [AL.perm_find r2' (elems_keysNodup r1.1)]; exact ro_find_cons_self e _
    · right
      refine ⟨({ w1 with hc := w1.hc + 1 } : World).dropElemQuiet cfg e, ?_,
        by rw [dropElemQuiet_t]; exact ht, by rw [dropElemQuiet_log]; exact congrArg _ hlog⟩
      simp only [Map.rawEntryOther, hlk, Res.onPanic, Res.bind, rf_makeHash_lawful hl, hp]

/-! ## C. ledger (element types with drop glue, every environment) -/

/-- Ledger of an unwinding of `rawEntryOther`: `new` = the log entries written; every key (value)
    object that was stored before or is the caller's `e.kid` (`e.vid`) is afterwards stored or was
    dropped, exactly once (multiset equality: nothing lost, nothing dropped twice, nothing both
    stored and dropped); the allocator frame is kept (no block leaked or freed twice). -/
def ro_PanicLedger (cfg : Cfg) (e : Elem) (w w' : World) : Prop :=
  ∃ new, w'.log = new ++ w.log ∧
    List.Perm (kidsOf w'.t.elems ++ droppedK new) (kidsOf w.t.elems ++ [e.kid]) ∧
    List.Perm (vidsOf w'.t.elems ++ droppedV new) (vidsOf w.t.elems ++ [e.vid]) ∧
    (∀ L, hs_AllocInvL cfg w L → hs_AllocInvL cfg w' L)

theorem ro_panicLedger_of {e : Elem} {w w1 w' : World} {new : List Ev} {ds : List Elem}
    {D : List Ev} (he : lp_Eff cfg w w1 new ds) (ht : w'.t = w1.t) (hl : w'.log = D ++ w1.log)
    (hD : hs_DropOnly D) (hk : droppedK D = [e.kid]) (hv : droppedV D = [e.vid]) :
    ro_PanicLedger cfg e w w' := by
  refine ⟨D ++ new, by rw [hl, he.log, List.append_assoc], ?_, ?_, ?_⟩
  · rw [hs_droppedK_append, hk, ht]
    have h1 := List.perm_iff_count.1 he.permK
    refine List.perm_iff_count.2 fun x => ?_
    have h2 := h1 x
    simp only [List.count_append] at h2 ⊢
    omega
  · rw [hs_droppedV_append, hv, ht]
    have h1 := List.perm_iff_count.1 he.permV
    refine List.perm_iff_count.2 fun x => ?_
    have h2 := h1 x
    simp only [List.count_append] at h2 ⊢
    omega
  · intro L x
    exact lp_frame_drops (w := w1) he.inv.1 (by rw [ht]; exact he.inv.1) hl hD (by rw [ht])
      (he.frame L x)

theorem ro_keyVal_dropOnly (kid vid : Nat) : hs_DropOnly (keyDropEv cfg kid ++ valDropEv cfg vid) := by
  intro ev hev
  unfold keyDropEv valDropEv at hev
  split at hev
  · simp only [List.cons_append, List.nil_append, List.mem_cons, List.not_mem_nil, or_false] at hev
    rcases hev with rfl | rfl
    · exact ⟨kid, .inl rfl⟩
    · exact ⟨vid, .inr rfl⟩
  · simp at hev

theorem ro_keyVal_dropped (hnd : cfg.needsDrop = true) (kid vid : Nat) :
    droppedK (keyDropEv cfg kid ++ valDropEv cfg vid) = [kid] ∧
    droppedV (keyDropEv cfg kid ++ valDropEv cfg vid) = [vid] := by
  simp [keyDropEv, valDropEv, hnd, droppedK, droppedV]

/-- **(c) Ownership ledger of `rawEntryOther`**, every environment, any hash, drop glue.
    Return (Occupied or Vacant): `lx_Eff … [e.kid] [] [e.vid] []` — the caller's key and value object
    entered, nothing left by value; each object is afterwards stored or logged as dropped, once
    (Occupied: both dropped; Vacant: both stored); allocator invariant kept.
    Unwinding (look-up `Hash`/`Eq`, the hashing of the stored key, the caller's key destructor,
    `reserve(1)` — incl. a hasher panic inside an in-place rehash, whose guard drops the pending
    elements): `ro_PanicLedger`. Never a fault. -/
theorem rawEntryOther_ledger (hc : CfgOk cfg) (hnd : cfg.needsDrop = true) (env : Env)
    (mode : Map.RawMode) (ph kLook : Nat) (orIns : Bool) (e : Elem) (w : World) (h : TInv cfg w.t) :
    match Map.rawEntryOther cfg env mode ph kLook orIns e w with
    | .ok (_, w') => lx_Eff cfg w w' [e.kid] [] [e.vid] []
    | .panic _ w' => ro_PanicLedger cfg e w w'
    | .abort => True
    | .fault _ => False := by
  have hs := rawEntryOther_outcomes hc env mode ph kLook orIns e w h
  obtain ⟨dk, dv⟩ := ro_keyVal_dropped (cfg := cfg) hnd e.kid e.vid
  obtain ⟨dk2, dv2⟩ := hs_dropped_dropEvs (cfg := cfg) hnd [e]
  generalize Map.rawEntryOther cfg env mode ph kLook orIns e w = r at hs
  match r, hs with
  | .ok ((_, _), w'), .inl ⟨_, a1, a2, _⟩ =>
    have := lx_drops h.1 a1 a2 (ro_keyVal_dropOnly e.kid e.vid)
    rw [dk, dv] at this
    exact this
  | .ok ((_, _), w'), .inr ⟨_, _, hv, idx, w1, _, b1, b2, hri⟩ =>
    have := (lx_rawInsert hc env hv e w1 (by rw [b1]; exact h)).elim hri
    exact this.2.left b1.symm b2.symm
  | .panic _ w', .inl ⟨_, a1, a2⟩ =>
    exact ro_panicLedger_of (lp_Eff.refl h) a1 a2 (ro_keyVal_dropOnly e.kid e.vid) dk dv
  | .panic _ w', .inr (.inl ⟨_, a1, a2⟩) =>
    exact ro_panicLedger_of (lp_Eff.refl h) a1 a2 (hs_dropOnly_dropEvs [e]) dk2 dv2
  | .panic _ w', .inr (.inr ⟨hv, w1, w2, _, b1, b2, hres, c1, c2⟩) =>
    have he := lp_reserve_eff hc hc.probe hnd env 1 w1 (by rw [b1]; exact h)
    rw [hres] at he
    obtain ⟨new, ds, he⟩ := he
    exact ro_panicLedger_of (he.congr_left b1.symm b2.symm) c1 c2 (hs_dropOnly_dropEvs [e]) dk2 dv2
  | .abort, _ => trivial
  | .fault _, hs => exact hs

/-- No double drop on unwinding: if the stored key-object identities together with the caller's are
    pairwise distinct (and likewise the value objects), then after ANY unwinding the objects dropped by
    the call are pairwise distinct, none of them is still stored, and the stored ones are distinct. -/
theorem ro_PanicLedger.noDoubleDrop {e : Elem} {w w' : World} (h : ro_PanicLedger cfg e w w')
    (hK : (kidsOf w.t.elems ++ [e.kid]).Nodup) (hV : (vidsOf w.t.elems ++ [e.vid]).Nodup) :
    ep_NoDoubleDrop w w' := by
  obtain ⟨new, hl, pK, pV, _⟩ := h
  obtain ⟨k1, k2, k3⟩ := List.nodup_append.mp (pK.nodup_iff.mpr hK)
  obtain ⟨v1, v2, v3⟩ := List.nodup_append.mp (pV.nodup_iff.mpr hV)
  exact ⟨new, hl, k2, v2, fun i hi hm => k3 i hm i hi rfl, fun i hi hm => v3 i hm i hi rfl, k1, v1⟩

/-! ## D. evaluated examples -/

/-- `Hash` panics at its call number `n`; `Eq` is key equality. -/
def roPanicEnv (n : Nat) : Env :=
  { hash := fun c k => if c = n then none else some k
    eq := fun _ q e => some (q == e.k)
    clone := fun _ _ => none
    pred := fun _ _ => none
    allocOk := fun _ => true
    dropPanics := fun _ _ => false }

/-- Full 4-bucket table `enTable` (keys 1, 2, 3): `from_key(&5)` is Vacant, the entry is filled with
    key 6 (≠ 5): the table grows to 8 buckets, the lawful invariant holds (6 is filed under ITS hash),
    `get(&6)` finds the pair, `get(&5)` finds nothing, nothing was dropped. The same through
    `from_hash` with an arbitrary look-up hash and `or_insert`. -/
theorem rawEntryOther_vacant_example :
    (match Map.rawEntryOther enCfg glEnv .fromKey 0 5 false ⟨6, 16, 26, 600⟩ { t := enTable } with
     | .ok ((b, .elem e), w') =>
       !b && e == ⟨6, 16, 26, 600⟩ && w'.t.items == 4 && w'.t.buckets == 8 &&
         invLB enCfg (fun k => k) w'.t && dropsOf w'.log == [] &&
         (match Map.get enCfg glEnv 6 w' with
          | .ok (some x, _) => x == ⟨6, 16, 26, 600⟩
          | _ => false) &&
         (match Map.get enCfg glEnv 5 w' with
          | .ok (none, _) => true
          | _ => false)
     | _ => false) = true ∧
    (match Map.rawEntryOther enCfg glEnv .fromHash 12345 5 true ⟨6, 16, 26, 600⟩ { t := enTable } with
     | .ok ((b, .elem e), w') =>
       !b && e == ⟨6, 16, 26, 600⟩ && w'.t.items == 4 && invLB enCfg (fun k => k) w'.t &&
         (match Map.get enCfg glEnv 6 w' with
          | .ok (some x, _) => x == ⟨6, 16, 26, 600⟩
          | _ => false)
     | _ => false) = true := by decide

/-- Occupied: `from_key(&2).or_insert(K(6), V)` hands back the stored pair of key 2, the table is
    unchanged, the caller's value and key objects are dropped (log newest first). -/
theorem rawEntryOther_occupied_example :
    (match Map.rawEntryOther enCfg glEnv .fromKey 0 2 true ⟨6, 16, 26, 600⟩ { t := enTable } with
     | .ok ((b, .elem e), w') =>
       b && e == ⟨2, 12, 22, 200⟩ && w'.t.slots == enTable.slots && w'.t.ctrl == enTable.ctrl &&
         w'.t.items == 3 && w'.log == [Ev.dropK 16, Ev.dropV 26]
     | _ => false) = true := by decide

/-- COUNTEREXAMPLE to "on every `.panic` outcome the table is unchanged": tombstone-saturated table
    `f1Table` (16 buckets, keys 0..5, `growth_left = 0`), element type with drop glue. The vacant
    entry is filled with key 14 whose insert slot is EMPTY, so `RawTable::insert` runs `reserve(1)` =
    rehash in place; `Hash` panics at its call number 2 (the second element rehashed): the unwind
    guard drops the 5 elements whose bucket was still pending, then `e` is dropped. The table is valid
    (`invB`) with ONE element left — it is NOT the table before. (`rawEntryOther_ledger` covers
    this outcome; `rawEntryOther_panic_lawful` excludes it for lawful hashers.) -/
theorem rawEntryOther_panic_changes_table_example :
    (match Map.rawEntryOther enCfg (roPanicEnv 2) .fromHash 14 14 false ⟨14, 114, 214, 1400⟩
        { t := f1Table } with
     | .panic c w' =>
       c == "hash" && w'.t.items == 1 && w'.t.elems.length == 1 && invB enCfg w'.t &&
         w'.t.slots != f1Table.slots &&
         w'.log == [Ev.dropV 214, Ev.dropK 114, Ev.dropV 5, Ev.dropK 5, Ev.dropV 4, Ev.dropK 4,
           Ev.dropV 3, Ev.dropK 3, Ev.dropV 2, Ev.dropK 2, Ev.dropV 1, Ev.dropK 1]
     | _ => false) = true := by decide

#print axioms ro_cases
#print axioms ro_rawInsert_panic
#print axioms rawEntryOther_outcomes
#print axioms rawEntryOther_safe
#print axioms rawEntryOther_occupied_any_env
#print axioms rawEntryOther_lookup_hash_panics
#print axioms rawEntryOther_stored_hash_panics
#print axioms rawEntryOther_vacant_spec
#print axioms rawEntryOther_occupied_spec
#print axioms rawEntryOther_panic_lawful
#print axioms rawEntryOther_spec
#print axioms rawEntryOther_ledger
#print axioms ro_PanicLedger.noDoubleDrop
#print axioms rawEntryOther_vacant_example
#print axioms rawEntryOther_occupied_example
#print axioms rawEntryOther_panic_changes_table_example

end Hb
