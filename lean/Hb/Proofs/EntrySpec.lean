/-
C14 — entry-style APIs of `HashMap` / `HashSet` (`Hb/Model/Entry.lean`, `Hb/Model/Set.lean`):
`entry`, `entry_ref`, `raw_entry_mut`, `rustc_entry`, `HashSet::entry`, `try_insert`, `extend`,
`from_iter`.

Part A (every environment, hypothesis `TInv` = structural invariant + own layout computable):
  `en_Safe` (no fault, `TInv` after return / unwinding), `en_chainOcc_safe`, `en_chainVac_safe`,
  `en_entryLook_total`, `en_rustcLook_total` (vacant ⇒ `0 < growth_left`), `en_insNoGrow_safe`,
  `rustcEntry_no_grow_safe`, `en_entry_safe`, `en_entryRef_safe`, `en_rawEntry_safe`,
  `en_tryInsert_safe`, `en_insertMany_safe`, `en_extend_safe`, `en_fromIter_safe`, `entry_no_fault`.
  `en_replace_keep`: `replace_bucket_with` with a keeping closure only rewrites the slot.
Part B (lawful hasher `Lawful env H`, never-refusing allocator, non-panicking destructors,
  hypothesis `RI cfg H w.t` only — any load, tombstones, the singleton):
  look-ups `entryLook_spec`, `rustcLook_spec`, `rawLook_spec`, `setEntryFind_spec` (Occupied ⇔ present);
  chain tables `Map.EChain.occSpec/vacSpec/refOccSpec/refVacSpec`, `Map.RawChain.occSpec/vacSpec`
  and `entry_chain_spec`, `rustcEntry_chain_spec`, `entryRef_chain_spec`, `rawEntry_chain_spec`,
  `set_entry_spec`, `tryInsert_spec`, `entry_matches_plain`; `vacant_drop_noop_*`;
  `insertMany_spec`, `extend_spec`, `fromIter_spec` (`AL.insertOne/insertAll/insertDrops`);
  primitives `en_rawInsert_RI`, `en_insOwned_spec`, `en_insNoGrow_RI`, `en_insertInSlot_RI`,
  `en_slotSet_RI`, `en_slot_update_invL`, `en_removeAt_RI`, `en_chainOcc_spec`, `en_chainVac_spec`.
Part C: evaluated examples on a full 4-bucket table, a tombstone-saturated table, the singleton.
-/
import Hb.Model.Entry
import Hb.Model.Set
import Hb.Proofs.Refine
import Hb.Proofs.ApiGrow
import Hb.Proofs.ApiBulk
namespace Hb

variable {cfg : Cfg}

/-! ## 0. plumbing -/

/-- hash, then `find` (the common front part of every entry constructor). -/
def en_search (cfg : Cfg) (env : Env) (k : Nat) (w : World) : Res (Nat × Option Nat × World) :=
  (makeHash env k w).bind fun p => (find cfg env p.1 k p.2).bind fun q => .ok (p.1, q.1, q.2)

theorem en_entryLook_eq (env : Env) (k kid : Nat) (w : World) :
    Map.entryLook cfg env k kid w =
      ((en_search cfg env k w).onPanic (·.dropKeyQuiet cfg kid)).bind fun x =>
        match x.2.1 with
        | some idx => (dropKeyR cfg env kid x.2.2).bind fun w3 => .ok ((x.1, some idx), w3)
        | none => .ok ((x.1, none), x.2.2) := rfl

theorem en_rustcLook_eq (env : Env) (k kid : Nat) (w : World) :
    Map.rustcLook cfg env k kid w =
      (((en_search cfg env k w).bind fun x =>
          match x.2.1 with
          | some idx => .ok (x.1, some idx, x.2.2)
          | none => (Hb.reserve cfg env 1 x.2.2).bind fun w3 => .ok (x.1, none, w3)).onPanic
            (·.dropKeyQuiet cfg kid)).bind fun x =>
        match x.2.1 with
        | some idx => (dropKeyR cfg env kid x.2.2).bind fun w3 => .ok ((x.1, some idx), w3)
        | none => .ok ((x.1, none), x.2.2) := by
  unfold Map.rustcLook en_search
  simp only [bind, pure]
  cases makeHash env k w with
  | ok p =>
    simp only [Res.bind]
    cases find cfg env p.1 k p.2 with
    | ok q =>
      obtain ⟨r, w2⟩ := q
      cases r <;> rfl
    | _ => rfl
  | _ => rfl

/-- Outcome predicate of the robustness theorems: no fault, the table invariant holds afterwards
    (normal return and unwinding). -/
def en_Safe (cfg : Cfg) {α : Type} (proj : α → World) (r : Res α) : Prop :=
  match r with
  | .ok a => TInv cfg (proj a).t
  | .panic _ w' => TInv cfg w'.t
  | .abort => True
  | .fault _ => False

theorem en_Safe.bind {α β : Type} {pa : α → World} {pb : β → World} {r : Res α} {f : α → Res β}
    (hr : en_Safe cfg pa r) (hf : ∀ a, TInv cfg (pa a).t → en_Safe cfg pb (f a)) :
    en_Safe cfg pb (r.bind f) := by
  cases r with
  | ok a => exact hf a hr
  | panic c w => exact hr
  | abort => trivial
  | fault f => exact hr.elim

theorem en_Safe.onPanic {α : Type} {pa : α → World} {r : Res α} {g : World → World}
    (hr : en_Safe cfg pa r) (hg : ∀ w, (g w).t = w.t) : en_Safe cfg pa (r.onPanic g) := by
  cases r with
  | ok a => exact hr
  | panic c w => show TInv cfg (g w).t; rw [hg]; exact hr
  | abort => trivial
  | fault f => exact hr.elim

theorem en_bind_ok {α β : Type} (a : α) (f : α → Res β) : (Res.ok a).bind f = f a := rfl

theorem en_Safe.pair {α : Type} {r : Res (α × World)} :
    en_Safe cfg (·.2) r →
    match r with
    | .ok (_, w') => TInv cfg w'.t
    | .panic _ w' => TInv cfg w'.t
    | .abort => True
    | .fault _ => False := by
  intro h
  cases r with
  | ok a => obtain ⟨a, w'⟩ := a; exact h
  | panic c w => exact h
  | abort => trivial
  | fault f => exact h

theorem en_dropVal_t (vid : Nat) (w : World) : (Map.dropVal cfg vid w).t = w.t := by
  unfold Map.dropVal; split <;> rfl

theorem en_dropValOpt_t (vid : Option Nat) (w : World) : (Map.dropValOpt cfg vid w).t = w.t := by
  cases vid with
  | none => rfl
  | some v => exact en_dropVal_t v w

theorem en_dropKeyQuiet_t (w : World) (kid : Nat) : (w.dropKeyQuiet cfg kid).t = w.t := by
  unfold World.dropKeyQuiet; split <;> rfl

theorem en_dropAllQuiet_t (l : List Elem) : ∀ w : World, (Map.dropAllQuiet cfg l w).t = w.t := by
  induction l with
  | nil => intro w; rfl
  | cons e l ih =>
    intro w
    show (Map.dropAllQuiet cfg l (w.dropElemQuiet cfg e)).t = w.t
    rw [ih, dropElemQuiet_t]

theorem en_dropHeldQuiet_t (held : Option Nat × Option Nat) (w : World) :
    (Map.dropHeldQuiet cfg held w).t = w.t := by
  obtain ⟨a, b⟩ := held
  cases a with
  | none => exact en_dropValOpt_t b w
  | some kid =>
    show ((Map.dropValOpt cfg b w).dropKeyQuiet cfg kid).t = w.t
    rw [en_dropKeyQuiet_t, en_dropValOpt_t]

theorem en_dropKeyR_safe (env : Env) (kid : Nat) (w : World) (h : TInv cfg w.t) :
    en_Safe cfg id (dropKeyR cfg env kid w) := by
  rcases ag_dropKeyR (cfg := cfg) env kid w with ⟨w', d1, d2, _⟩ | ⟨w', d1, d2, _⟩
  · rw [d1]; show TInv cfg w'.t; rw [d2]; exact h
  · rw [d1]; show TInv cfg w'.t; rw [d2]; exact h

/-! ## 1. one-bucket facts -/

theorem en_live {t : Raw} (h : Inv cfg t) {idx : Nat} {e : Elem} (he : t.slots[idx]?.join = some e) :
    idx < t.buckets ∧ isFull (t.ctrlAt idx) = true :=
  ⟨h.slot_lt he, (h.live idx (slot_some_lt he)).mp (by rw [he]; rfl)⟩

theorem en_slotSet_TInv {t : Raw} (h : TInv cfg t) {idx : Nat} {old : Elem}
    (he : t.slots[idx]?.join = some old) (e' : Elem) : TInv cfg (Map.slotSet t idx e') :=
  h.of_inv (ag_inv_slot_replace h.1 he e') rfl

theorem en_removeAt_TInv (hc : CfgOk cfg) {t : Raw} (h : TInv cfg t) {idx : Nat} {old : Elem}
    (he : t.slots[idx]?.join = some old) :
    ∃ t', removeAt cfg t idx = .ok (old, t') ∧ TInv cfg t' ∧ t'.items + 1 = t.items ∧
      List.Perm (old :: t'.elems) t.elems := by
  obtain ⟨hi, hf⟩ := en_live h.1 he
  obtain ⟨x, t', r1, r2, r3, r4, _, r6, r7, _⟩ := removeAt_inv hc h.1 hi hf
  rw [he] at r2
  cases r2
  exact ⟨t', r1, h.of_inv r3 r4, r6, elems_take_perm (rf_join_some.mp he) r7⟩

theorem en_raw_ext {a b : Raw} (h1 : a.mask = b.mask) (h2 : a.ctrl = b.ctrl) (h3 : a.slots = b.slots)
    (h4 : a.items = b.items) (h5 : a.gl = b.gl) (h6 : a.alloc = b.alloc) : a = b := by
  cases a; cases b; simp_all

theorem en_ctrl_ext {a b : Array Nat} (hs : a.size = b.size) (h : ∀ j, a.getD j 0 = b.getD j 0) :
    a = b := by
  apply Array.ext hs
  intro i h1 h2
  have := h i
  simpa [Array.getD_eq_getD_getElem?, h1, h2] using this

/-- The mirror byte of a real bucket equals the bucket's byte. -/
theorem en_ctrlAt_index2 (hc : CfgOk cfg) {t : Raw} (h : Inv cfg t) (ha : t.alloc = true) {i : Nat}
    (hi : i < t.buckets) : t.ctrlAt (index2 cfg.bits cfg.W t.mask i) = t.ctrlAt i := by
  have hall := h.allocated ha
  have hm := h.mirror ha
  rw [index2_cases hc hall hi]
  by_cases hWn : cfg.W ≤ t.buckets
  · rw [if_pos hWn]
    by_cases hiW : i < cfg.W
    · rw [if_pos hiW]; exact hm.1 hWn i hiW
    · rw [if_neg hiW]
  · rw [if_neg hWn]
    exact (hm.2 (by omega)).2 i hi

/-- `replace_bucket_with` whose closure keeps the entry: the bucket is erased and re-inserted with
    its old control byte and the old `growth_left`, i.e. only the slot changes. -/
theorem en_replace_keep (hc : CfgOk cfg) {t : Raw} (h : Inv cfg t) {idx : Nat} {old : Elem}
    (he : t.slots[idx]?.join = some old) (g : Elem → Elem) :
    replaceBucketWith cfg t idx (fun it => some (g it)) = .ok (true, old, Map.slotSet t idx (g old)) := by
  obtain ⟨hi, hf⟩ := en_live h he
  have ha := h.alloc_of_full hc hi hf
  have hall := h.allocated ha
  have hsz : idx < t.ctrl.size := by have := hall.2.2.1; omega
  have hssz : idx < t.slots.size := slot_some_lt he
  have hslot : t.slots[idx]? = some (some old) := rf_join_some.mp he
  obtain ⟨t1, c, her, _, _, h1, h2, h3, _, h5, h6, h7⟩ := erase_branch hc h hi hf
  have hrem : removeAt cfg t idx = .ok (old, { t1 with slots := t1.slots.setIfInBounds idx none }) := by
    simp only [removeAt, ctrlRd_eq hsz, hf, Bool.not_true, Bool.false_eq_true, if_false, her,
      slotTake, h2, hslot]
  have hall1 : Raw.IsAllocated cfg
      { t1 with slots := t1.slots.setIfInBounds idx none, gl := t.gl } := by
    obtain ⟨_, b2, b3, b4, b5⟩ := hall
    refine ⟨by rw [← ha, ← h5], ?_, ?_, ?_, ?_⟩
    · simpa only [Raw.buckets, h1] using b2
    · show t1.ctrl.size = _; rw [h6]; simpa only [Raw.buckets, h1] using b3
    · show (t1.slots.setIfInBounds idx none).size = _
      rw [Array.size_setIfInBounds, h2]; simpa only [Raw.buckets, h1] using b4
    · simpa only [Raw.buckets, h1] using b5
  have hi1 : idx < Raw.buckets { t1 with slots := t1.slots.setIfInBounds idx none, gl := t.gl } := by
    simpa only [Raw.buckets, h1] using hi
  obtain ⟨t2, hs, s1, s2, s3, s4, s5, s6, s7⟩ := setCtrl_ok hc hall1 hi1 (t.ctrlAt idx)
  simp only at s1 s2 s3 s4 s5 s6 s7
  have hnone : t2.slots[idx]? = some none := by
    rw [s2, h2, Array.getElem?_setIfInBounds_self_of_lt hssz]
  have hfin : ({ t2 with items := t2.items + 1, slots := t2.slots.setIfInBounds idx (some (g old)) } : Raw) =
      Map.slotSet t idx (g old) := by
    apply en_raw_ext
    · show t2.mask = t.mask; rw [s1, h1]
    · show t2.ctrl = t.ctrl
      apply en_ctrl_ext
      · rw [s6, h6]
      · intro j
        show t2.ctrlAt j = t.ctrlAt j
        rw [s7 j]
        show (if j = idx ∨ j = index2 cfg.bits cfg.W t1.mask idx then t.ctrlAt idx else t1.ctrlAt j) = _
        rw [h1]
        by_cases hj : j = idx ∨ j = index2 cfg.bits cfg.W t.mask idx
        · rw [if_pos hj]
          rcases hj with hj | hj
          · rw [hj]
          · rw [hj]; exact (en_ctrlAt_index2 hc h ha hi).symm
        · rw [if_neg hj, h7 j, if_neg hj]
    · show t2.slots.setIfInBounds idx (some (g old)) = t.slots.setIfInBounds idx (some (g old))
      rw [s2, h2, Array.setIfInBounds_setIfInBounds]
    · show t2.items + 1 = t.items; rw [s3]; exact h3
    · show t2.gl = t.gl; rw [s4]
    · show t2.alloc = t.alloc; rw [s5, h5]
  simp only [replaceBucketWith, ctrlRd_eq hsz, hrem, hs, slotPut, hnone]
  rw [hfin]

/-- `replace_bucket_with` whose closure drops the entry is `remove`. -/
theorem en_replace_none {t : Raw} {idx : Nat} {old : Elem} {t' : Raw} (hsz : idx < t.ctrl.size)
    (hr : removeAt cfg t idx = .ok (old, t')) :
    replaceBucketWith cfg t idx (fun _ => none) = .ok (false, old, t') := by
  simp only [replaceBucketWith, ctrlRd_eq hsz, hr]

/-! ## 2. robustness: every environment -/

theorem en_chainOcc_safe (hc : CfgOk cfg) (env : Env) (idx : Nat) (c : Map.EChain) (w : World)
    (h : TInv cfg w.t) {old : Elem} (he : w.t.slots[idx]?.join = some old) :
    en_Safe cfg (·.2) (Map.chainOcc cfg env idx c w) := by
  obtain ⟨hi, hf⟩ := en_live h.1 he
  have hsz : idx < w.t.ctrl.size := by have := h.1.buckets_le_size hc; omega
  obtain ⟨t', hr, hT', _, _⟩ := en_removeAt_TInv hc h he
  have hset : ∀ e' : Elem, TInv cfg (Map.slotSet w.t idx e') := fun e' => en_slotSet_TInv h he e'
  unfold Map.chainOcc
  simp only [slotGet_ok he, liftE, rf_bind_ok]
  cases c with
  | insert vid v => show TInv cfg (Map.dropVal cfg _ _).t; rw [en_dropVal_t]; exact hset _
  | orInsert vid v => show TInv cfg (Map.dropVal cfg _ _).t; rw [en_dropVal_t]; exact h
  | orInsertWithKey vid v => show TInv cfg (Map.dropVal cfg _ _).t; rw [en_dropVal_t]; exact h
  | andModifyOrInsert nv vid v => show TInv cfg (Map.dropVal cfg _ _).t; rw [en_dropVal_t]; exact hset _
  | key => exact h
  | drop => exact h
  | occRemove =>
    simp only [hr, rf_bind_ok]
    exact (en_dropKeyR_safe env _ _ hT').bind (fun a ha => ha)
  | occRemoveEntry =>
    simp only [hr, rf_bind_ok]
    exact hT'
  | occInsert vid v => exact hset _
  | occGetMut nv => exact hset _
  | replaceEntryWith keep nv =>
    cases keep with
    | true =>
      simp only [↓reduceIte, en_replace_keep hc h.1 he (fun it => { it with v := nv }), rf_bind_ok]
      exact hset _
    | false =>
      simp only [Bool.false_eq_true, ↓reduceIte, en_replace_none hsz hr, rf_bind_ok]
      refine (en_dropKeyR_safe env _ _ ?_).bind (fun a ha => ha)
      rw [en_dropVal_t]; exact hT'
  | andReplaceEntryWith keep nv =>
    cases keep with
    | true =>
      simp only [↓reduceIte, en_replace_keep hc h.1 he (fun it => { it with v := nv }), rf_bind_ok]
      exact hset _
    | false =>
      simp only [Bool.false_eq_true, ↓reduceIte, en_replace_none hsz hr, rf_bind_ok]
      refine (en_dropKeyR_safe env _ _ ?_).bind (fun a ha => ha)
      rw [en_dropVal_t]; exact hT'
  | vacInsert vid v => show TInv cfg (Map.dropVal cfg _ _).t; rw [en_dropVal_t]; exact h
  | vacInsertEntry vid v => show TInv cfg (Map.dropVal cfg _ _).t; rw [en_dropVal_t]; exact h
  | vacIntoKey => exact h

theorem en_chainVac_safe (env : Env) (ins : Elem → World → Res (Nat × World)) (k kid : Nat)
    (c : Map.EChain) (w : World) (h : TInv cfg w.t)
    (hins : ∀ e, en_Safe cfg (·.2) (ins e w)) :
    en_Safe cfg (·.2) (Map.chainVac cfg env ins k kid c w) := by
  have hput : ∀ (e : Elem) (out : Map.EOut),
      en_Safe cfg (·.2) ((ins e w).bind fun x => (.ok ((false, out), x.2) : Map.EntRes)) :=
    fun e out => (hins e).bind (fun a ha => ha)
  have hdrop : ∀ (out : Map.EOut) (w0 : World), w0.t = w.t →
      en_Safe cfg (·.2) ((dropKeyR cfg env kid w0).bind fun w' => (.ok ((false, out), w') : Map.EntRes)) :=
    fun out w0 h0 => (en_dropKeyR_safe env kid w0 (by rw [h0]; exact h)).bind (fun a ha => ha)
  cases c <;> simp only [Map.chainVac]
  all_goals first
    | exact hput _ _
    | exact hdrop _ _ rfl
    | exact hdrop _ _ (en_dropVal_t _ _)
    | exact h

/-- hash + `find` for every environment: a pure look-up that may unwind (`Hash` or `Eq` panic). -/
theorem en_search_total (hc : CfgOk cfg) (env : Env) (k : Nat) (w : World) (h : Inv cfg w.t) :
    (∃ hv r w2, en_search cfg env k w = .ok (hv, r, w2) ∧ w2.t = w.t ∧ w2.log = w.log ∧
      ∀ idx, r = some idx → ∃ e, w.t.slots[idx]?.join = some e) ∨
    (∃ c w', en_search cfg env k w = .panic c w' ∧ w'.t = w.t ∧ w'.log = w.log) := by
  unfold en_search
  cases hh : env.hash w.hc k with
  | none =>
    simp only [ag_makeHash_none hh, Res.bind]
    exact Or.inr ⟨_, _, rfl, rfl, rfl⟩
  | some hv =>
    simp only [ag_makeHash_some hh, Res.bind]
    rcases find_total hc hc.probe env hv k { w with hc := w.hc + 1 } h with
      ⟨r, w', k1, k2, k3, _, k5⟩ | ⟨w', k1, k2, k3⟩
    · rw [k1]
      exact Or.inl ⟨hv, r, w', rfl, k2, k3, fun idx hi => (k5 idx hi).2.2⟩
    · rw [k1]
      exact Or.inr ⟨_, w', rfl, k2, k3⟩

/-- `entry()`'s look-up for every environment: the table is never touched. -/
theorem en_entryLook_total (hc : CfgOk cfg) (env : Env) (k kid : Nat) (w : World) (h : Inv cfg w.t) :
    match Map.entryLook cfg env k kid w with
    | .ok ((_, some idx), w') => w'.t = w.t ∧ ∃ e, w.t.slots[idx]?.join = some e
    | .ok ((_, none), w') => w'.t = w.t ∧ w'.log = w.log
    | .panic _ w' => w'.t = w.t
    | .abort => False
    | .fault _ => False := by
  rw [en_entryLook_eq]
  rcases en_search_total hc env k w h with ⟨hv, r, w2, k1, k2, k3, k4⟩ | ⟨c, w', k1, k2, _⟩
  · rw [k1]
    simp only [Res.onPanic, Res.bind]
    cases r with
    | none => exact ⟨k2, k3⟩
    | some idx =>
      simp only
      rcases ag_dropKeyR (cfg := cfg) env kid w2 with ⟨w3, d1, d2, _⟩ | ⟨w3, d1, d2, _⟩
      · rw [d1]; exact ⟨by rw [d2, k2], k4 idx rfl⟩
      · rw [d1]; show w3.t = w.t; rw [d2, k2]
  · rw [k1]
    simp only [Res.onPanic, Res.bind]
    rw [en_dropKeyQuiet_t]; exact k2

/-- `rustc_entry()`'s look-up for every environment: on the vacant side `reserve(1)` has run, so
    there is room for one more element. -/
theorem en_rustcLook_total (hc : CfgOk cfg) (env : Env) (k kid : Nat) (w : World)
    (h : TInv cfg w.t) :
    match Map.rustcLook cfg env k kid w with
    | .ok ((_, some idx), w') => w'.t = w.t ∧ ∃ e, w.t.slots[idx]?.join = some e
    | .ok ((_, none), w') =>
      TInv cfg w'.t ∧ 0 < w'.t.gl ∧ List.Perm w'.t.elems w.t.elems ∧ w'.t.items = w.t.items
    | .panic _ w' => GuardRuns cfg → TInv cfg w'.t
    | .abort => True
    | .fault _ => False := by
  rw [en_rustcLook_eq]
  rcases en_search_total hc env k w h.1 with ⟨hv, r, w2, k1, k2, k3, k4⟩ | ⟨c, w', k1, k2, _⟩
  · rw [k1]
    cases r with
    | none =>
      simp only [Res.bind]
      have hres := reserve_spec hc hc.probe env 1 w2 (by rw [k2]; exact h)
      cases hr : Hb.reserve cfg env 1 w2 with
      | ok w3 =>
        rw [hr] at hres
        obtain ⟨a1, a2, a3, _, a5, _⟩ := hres
        simp only [Res.onPanic]
        exact ⟨a1, by omega, by rw [← k2]; exact a3, by rw [a2, k2]⟩
      | panic c w' =>
        rw [hr] at hres
        simp only [Res.onPanic]
        intro hg
        rw [en_dropKeyQuiet_t]
        rcases hres with ⟨_, rfl⟩ | ⟨_, _, hres⟩
        · rw [k2]; exact h
        · exact (hres hg).1
      | abort => simp only [Res.onPanic]
      | fault f => rw [hr] at hres; exact hres.elim
    | some idx =>
      simp only [Res.onPanic, Res.bind]
      rcases ag_dropKeyR (cfg := cfg) env kid w2 with ⟨w3, d1, d2, _⟩ | ⟨w3, d1, d2, _⟩
      · rw [d1]; exact ⟨by rw [d2, k2], k4 idx rfl⟩
      · rw [d1]; intro _; show TInv cfg w3.t; rw [d2, k2]; exact h
  · rw [k1]
    simp only [Res.onPanic, Res.bind]
    intro _
    rw [en_dropKeyQuiet_t, k2]; exact h

/-- `insert_no_grow` as used by `RustcVacantEntry::insert`: safe whenever `growth_left > 0`. -/
theorem en_insNoGrow_safe (hc : CfgOk cfg) (hash : Nat) (e : Elem) (w : World) (h : TInv cfg w.t)
    (hgl : 0 < w.t.gl) : en_Safe cfg (·.2) (Map.insNoGrow cfg hash e w) := by
  obtain ⟨idx, t', hr, hT, _⟩ := insertNoGrow_spec hc hc.probe h hgl hash e
  simp only [Map.insNoGrow, hr]
  exact hT

theorem en_rustcEntry_safe (hc : CfgOk cfg) (hg : GuardRuns cfg) (env : Env) (k kid : Nat)
    (c : Map.EChain) (w : World) (h : TInv cfg w.t) :
    en_Safe cfg (·.2) (Map.rustcEntry cfg env k kid c w) := by
  have hl := en_rustcLook_total hc env k kid w h
  unfold Map.rustcEntry
  cases hr : Map.rustcLook cfg env k kid w with
  | ok x =>
    obtain ⟨⟨hv, r⟩, w1⟩ := x
    rw [hr] at hl
    simp only [Res.onPanic, Res.bind]
    cases r with
    | none =>
      obtain ⟨a1, a2, _, _⟩ := hl
      exact en_chainVac_safe env _ k kid c w1 a1 (fun e => en_insNoGrow_safe hc hv e w1 a1 a2)
    | some idx =>
      obtain ⟨a1, e, a2⟩ := hl
      exact en_chainOcc_safe hc env idx c w1 (by rw [a1]; exact h) (by rw [a1]; exact a2)
  | panic c' w' =>
    rw [hr] at hl
    simp only [Res.onPanic, Res.bind]
    show TInv cfg (Map.dropValOpt cfg _ w').t
    rw [en_dropValOpt_t]; exact hl hg
  | abort => trivial
  | fault f => rw [hr] at hl; exact hl.elim

/-- **`rustc_entry` is safe although its vacant entry inserts with `insert_no_grow`**: for every
    environment and every chain the call never reaches a fault, in particular when the table is
    full (`growth_left = 0`) at the moment the entry is created — `rustc_entry` has already run
    `reserve(1)`. The table invariant holds afterwards, also when a callback unwinds. -/
theorem rustcEntry_no_grow_safe (hc : CfgOk cfg) (hg : GuardRuns cfg) (env : Env) (k kid : Nat)
    (c : Map.EChain) (w : World) (h : TInv cfg w.t) :
    match Map.rustcEntry cfg env k kid c w with
    | .ok (_, w') => TInv cfg w'.t
    | .panic _ w' => TInv cfg w'.t
    | .abort => True
    | .fault _ => False := by
  have hs := en_rustcEntry_safe hc hg env k kid c w h
  split <;> rename_i heq <;> rw [heq] at hs <;> exact hs

/-! ## 3. lawful environments: the pieces -/

/-- Log entry of dropping one key object / one value object (nothing for types without drop glue). -/
def keyDropEv (cfg : Cfg) (kid : Nat) : List Ev := if cfg.needsDrop then [Ev.dropK kid] else []
def valDropEv (cfg : Cfg) (vid : Nat) : List Ev := if cfg.needsDrop then [Ev.dropV vid] else []

def valDropEvOpt (cfg : Cfg) : Option Nat → List Ev
  | some vid => valDropEv cfg vid
  | none => []

theorem en_dropVal_log (vid : Nat) (w : World) :
    (Map.dropVal cfg vid w).log = valDropEv cfg vid ++ w.log := by
  unfold Map.dropVal valDropEv; split <;> rfl

theorem en_dropValOpt_log (vid : Option Nat) (w : World) :
    (Map.dropValOpt cfg vid w).log = valDropEvOpt cfg vid ++ w.log := by
  cases vid with
  | none => rfl
  | some v => exact en_dropVal_log v w

theorem en_dropKeyQuiet_log (w : World) (kid : Nat) :
    (w.dropKeyQuiet cfg kid).log = keyDropEv cfg kid ++ w.log := by
  unfold World.dropKeyQuiet keyDropEv; split <;> rfl

theorem en_dropKeyR_ok {env : Env} (hnd : ∀ c e, env.dropPanics c e = false) (kid : Nat) (w : World) :
    ∃ w', dropKeyR cfg env kid w = .ok w' ∧ w'.t = w.t ∧ w'.log = keyDropEv cfg kid ++ w.log :=
  rf_dropKeyR_ok hnd kid w

theorem en_dropsOf_append (a b : List Ev) : dropsOf (a ++ b) = dropsOf a ++ dropsOf b := by
  unfold dropsOf; exact List.filter_append ..

theorem en_dropsOf_keyDropEv (kid : Nat) : dropsOf (keyDropEv cfg kid) = keyDropEv cfg kid := by
  unfold keyDropEv; split <;> simp [dropsOf]

theorem en_dropsOf_valDropEv (vid : Nat) : dropsOf (valDropEv cfg vid) = valDropEv cfg vid := by
  unfold valDropEv; split <;> simp [dropsOf]

theorem en_dropsOf_valDropEvOpt (vid : Option Nat) :
    dropsOf (valDropEvOpt cfg vid) = valDropEvOpt cfg vid := by
  cases vid with
  | none => rfl
  | some v => exact en_dropsOf_valDropEv v

/-- Overwriting a stored element by one with the same key keeps `InvL`. -/
theorem en_slot_update_invL {H : Nat → Nat} {t : Raw} (h : InvL cfg H t) {i : Nat} {e : Elem}
    (he : t.slots[i]?.join = some e) (n : Elem) (hk : n.k = e.k) :
    InvL cfg H { t with slots := t.slots.setIfInBounds i (some n) } := by
  have hinv := ag_inv_slot_replace h.toInv he n
  refine ⟨hinv, ?_, ?_, ?_⟩
  · intro j e' hs
    have hs' : (t.slots.setIfInBounds i (some n))[j]?.join = some e' := hs
    show t.ctrlAt j = _
    rcases slots_set_some hs' with ⟨rfl, rfl, _⟩ | ⟨_, hs''⟩
    · rw [hk]; exact h.tag j e he
    · exact h.tag j e' hs''
  · intro j e' hs
    have hs' : (t.slots.setIfInBounds i (some n))[j]?.join = some e' := hs
    show Reachable cfg t _ j
    rcases slots_set_some hs' with ⟨rfl, rfl, _⟩ | ⟨_, hs''⟩
    · rw [hk]; exact h.reach j e he
    · exact h.reach j e' hs''
  · intro j1 j2 e1 e2 h1 h2 hkk
    have h1' : (t.slots.setIfInBounds i (some n))[j1]?.join = some e1 := h1
    have h2' : (t.slots.setIfInBounds i (some n))[j2]?.join = some e2 := h2
    rcases slots_set_some h1' with ⟨rfl, rfl, _⟩ | ⟨_, h1''⟩
    · rcases slots_set_some h2' with ⟨rfl, rfl, _⟩ | ⟨_, h2''⟩
      · rfl
      · exact h.nodup j1 j2 e e2 he h2'' (hk.symm.trans hkk)
    · rcases slots_set_some h2' with ⟨rfl, rfl, _⟩ | ⟨_, h2''⟩
      · exact h.nodup j1 j2 e1 e h1'' he (hkk.trans hk)
      · exact h.nodup j1 j2 e1 e2 h1'' h2'' hkk

theorem en_slotSet_RI {H : Nat → Nat} {t : Raw} (h : RI cfg H t) {idx : Nat} {old : Elem}
    (he : t.slots[idx]?.join = some old) (n : Elem) (hk : n.k = old.k) :
    RI cfg H (Map.slotSet t idx n) :=
  ⟨en_slot_update_invL h.1 he n hk, Raw.LayoutOk.of_eq h.2 rfl rfl⟩

/-- Contents after overwriting the element of key `old.k` by `g old`, for a key-local `g`. -/
theorem en_slotSet_perm {H : Nat → Nat} {t : Raw} (h : RI cfg H t) {idx : Nat} {old : Elem}
    (he : t.slots[idx]?.join = some old) (g : Elem → Elem) (hg : ∀ x : Elem, x.k ≠ old.k → g x = x) :
    List.Perm (Map.slotSet t idx (g old)).elems (t.elems.map g) := by
  obtain ⟨l0, hp1, hp2⟩ := rf_update_perm (g old) he
  exact hp2.trans (rf_map_key_perm g hp1 (elems_keysNodup h.1) hg).symm

theorem en_setVal_perm {H : Nat → Nat} {t : Raw} (h : RI cfg H t) {idx : Nat} {old : Elem}
    (he : t.slots[idx]?.join = some old) (vid v : Nat) :
    List.Perm (Map.slotSet t idx { old with vid := vid, v := v }).elems
      (AL.setVal t.elems old.k vid v) := by
  have := en_slotSet_perm h he (fun x => if x.k == old.k then { x with vid := vid, v := v } else x)
    (fun x hx => by simp [hx])
  simp only [beq_self_eq_true, if_true] at this
  exact this

theorem en_setPayload_perm {H : Nat → Nat} {t : Raw} (h : RI cfg H t) {idx : Nat} {old : Elem}
    (he : t.slots[idx]?.join = some old) (nv : Nat) :
    List.Perm (Map.slotSet t idx { old with v := nv }).elems (AL.setPayload t.elems old.k nv) := by
  have := en_slotSet_perm h he (fun x => if x.k == old.k then { x with v := nv } else x)
    (fun x hx => by simp [hx])
  simp only [beq_self_eq_true, if_true] at this
  exact this

/-- Removing the element stored in a live bucket, at `RI` level. -/
theorem en_removeAt_RI (hc : CfgOk cfg) {H : Nat → Nat} {t : Raw} (h : RI cfg H t) {idx : Nat}
    {old : Elem} (he : t.slots[idx]?.join = some old) :
    ∃ t', removeAt cfg t idx = .ok (old, t') ∧ RI cfg H t' ∧
      List.Perm t'.elems (AL.erase t.elems old.k) ∧ t'.items + 1 = t.items := by
  obtain ⟨t', hr, hRI, hp, _, _, hit⟩ := rf_removeAt_RI hc h he
  exact ⟨t', hr, hRI, rf_erase_of_perm hp (elems_keysNodup h.1), hit⟩

/-! ## 4. what a chain does, on the abstract map -/

/-- Chain `c` applied to an OCCUPIED entry whose stored element is `old`, on the abstract map `l`:
    `(what is handed back, the map afterwards, the destructor events it logs — newest first)`.
    Each line is the plain call it is equivalent to. -/
def Map.EChain.occSpec (cfg : Cfg) (c : Map.EChain) (old : Elem) (l : AL) : Map.EOut × AL × List Ev :=
  match c with
  -- `insert(k, v)` on a present key: value replaced, stored key object kept, old value dropped
  | .insert vid v => (.elem { old with vid := vid, v := v }, l.setVal old.k vid v, valDropEv cfg old.vid)
  -- `get_mut` (the default is dropped unused)
  | .orInsert vid _ | .orInsertWithKey vid _ => (.val old.vid old.v, l, valDropEv cfg vid)
  -- `get_mut(k).map(|x| *x = nv)`
  | .andModifyOrInsert nv vid _ => (.val old.vid nv, l.setPayload old.k nv, valDropEv cfg vid)
  | .key => (.key old.k old.kid, l, [])
  | .drop => (.none, l, [])
  -- `remove(k)`: stored key object dropped, value returned
  | .occRemove => (.val old.vid old.v, l.erase old.k, keyDropEv cfg old.kid)
  -- `remove_entry(k)`
  | .occRemoveEntry => (.elem old, l.erase old.k, [])
  -- `insert(k, v)` returning the old value to the caller
  | .occInsert vid v => (.val old.vid old.v, l.setVal old.k vid v, [])
  | .occGetMut nv => (.val old.vid nv, l.setPayload old.k nv, [])
  -- closure keeps the entry = `get_mut` write; closure drops it = `remove_entry`, both halves dropped
  | .replaceEntryWith true nv | .andReplaceEntryWith true nv =>
    (.entOcc { old with v := nv }, l.setPayload old.k nv, [])
  | .replaceEntryWith false _ | .andReplaceEntryWith false _ =>
    (.entVac old.k old.kid, l.erase old.k, keyDropEv cfg old.kid ++ valDropEv cfg old.vid)
  -- vacant-only methods: not applicable, the unused value is dropped
  | .vacInsert vid _ | .vacInsertEntry vid _ => (.none, l, valDropEv cfg vid)
  | .vacIntoKey => (.none, l, [])

/-- Chain `c` applied to a VACANT entry holding the key object `(k, kid)`. -/
def Map.EChain.vacSpec (cfg : Cfg) (k kid : Nat) (c : Map.EChain) (l : AL) : Map.EOut × AL × List Ev :=
  match c with
  -- `insert(k, v)` of an absent key
  | .insert vid v | .vacInsertEntry vid v => (.elem ⟨k, kid, vid, v⟩, ⟨k, kid, vid, v⟩ :: l, [])
  | .orInsert vid v | .vacInsert vid v | .andModifyOrInsert _ vid v =>
    (.val vid v, ⟨k, kid, vid, v⟩ :: l, [])
  | .orInsertWithKey vid v => (.val vid (v + kid), ⟨k, kid, vid, v + kid⟩ :: l, [])
  -- unused vacant entry: dropped together with the key object it owns
  | .key => (.key k kid, l, keyDropEv cfg kid)
  | .drop | .occRemove | .occRemoveEntry | .occGetMut _ | .replaceEntryWith _ _ =>
    (.none, l, keyDropEv cfg kid)
  | .occInsert vid _ => (.none, l, keyDropEv cfg kid ++ valDropEv cfg vid)
  | .andReplaceEntryWith _ _ => (.entVac k kid, l, keyDropEv cfg kid)
  -- `into_key`: the key object goes back to the caller
  | .vacIntoKey => (.key k kid, l, [])

/-- The element a chain inserts through a vacant entry (if it inserts). -/
def Map.EChain.inserted (k kid : Nat) : Map.EChain → Option Elem
  | .insert vid v | .vacInsertEntry vid v | .orInsert vid v | .vacInsert vid v
  | .andModifyOrInsert _ vid v => some ⟨k, kid, vid, v⟩
  | .orInsertWithKey vid v => some ⟨k, kid, vid, v + kid⟩
  | _ => none

/-- Chains on an occupied entry (no growth, no hashing: needs only non-panicking destructors). -/
theorem en_chainOcc_spec (hc : CfgOk cfg) {env : Env} {H : Nat → Nat}
    (hnd : ∀ c e, env.dropPanics c e = false) (idx : Nat) (c : Map.EChain) (w : World)
    (h : RI cfg H w.t) {old : Elem} (he : w.t.slots[idx]?.join = some old) :
    ∃ w', Map.chainOcc cfg env idx c w = .ok ((true, (c.occSpec cfg old w.t.elems).1), w') ∧
      RI cfg H w'.t ∧ List.Perm w'.t.elems (c.occSpec cfg old w.t.elems).2.1 ∧
      w'.log = (c.occSpec cfg old w.t.elems).2.2 ++ w.log := by
  obtain ⟨hi, hf⟩ := en_live h.1.toInv he
  have hsz : idx < w.t.ctrl.size := by have := h.1.toInv.buckets_le_size hc; omega
  obtain ⟨t', hr, hRI', hp', _⟩ := en_removeAt_RI hc h he
  have hset : ∀ e' : Elem, e'.k = old.k → RI cfg H (Map.slotSet w.t idx e') :=
    fun e' hk => en_slotSet_RI h he e' hk
  unfold Map.chainOcc
  simp only [slotGet_ok he, liftE, rf_bind_ok]
  cases c with
  | insert vid v =>
    exact ⟨_, rfl, by rw [en_dropVal_t]; exact hset _ rfl,
      by rw [en_dropVal_t]; exact en_setVal_perm h he vid v, en_dropVal_log _ _⟩
  | orInsert vid v =>
    exact ⟨_, rfl, by rw [en_dropVal_t]; exact h, by rw [en_dropVal_t]; exact List.Perm.refl _,
      en_dropVal_log _ _⟩
  | orInsertWithKey vid v =>
    exact ⟨_, rfl, by rw [en_dropVal_t]; exact h, by rw [en_dropVal_t]; exact List.Perm.refl _,
      en_dropVal_log _ _⟩
  | andModifyOrInsert nv vid v =>
    exact ⟨_, rfl, by rw [en_dropVal_t]; exact hset _ rfl,
      by rw [en_dropVal_t]; exact en_setPayload_perm h he nv, en_dropVal_log _ _⟩
  | key => exact ⟨_, rfl, h, List.Perm.refl _, rfl⟩
  | drop => exact ⟨_, rfl, h, List.Perm.refl _, rfl⟩
  | occRemove =>
    obtain ⟨w2, hdk, ht2, hlog2⟩ := en_dropKeyR_ok (cfg := cfg) hnd old.kid { w with t := t' }
    simp only [hr, rf_bind_ok, hdk, rf_pure]
    exact ⟨_, rfl, by rw [ht2]; exact hRI', by rw [ht2]; exact hp', hlog2⟩
  | occRemoveEntry =>
    simp only [hr, rf_bind_ok, rf_pure]
    exact ⟨_, rfl, hRI', hp', rfl⟩
  | occInsert vid v => exact ⟨_, rfl, hset _ rfl, en_setVal_perm h he vid v, rfl⟩
  | occGetMut nv => exact ⟨_, rfl, hset _ rfl, en_setPayload_perm h he nv, rfl⟩
  | replaceEntryWith keep nv =>
    cases keep with
    | true =>
      simp only [↓reduceIte, en_replace_keep hc h.1.toInv he (fun it => { it with v := nv }),
        rf_bind_ok, rf_pure]
      exact ⟨_, rfl, hset _ rfl, en_setPayload_perm h he nv, rfl⟩
    | false =>
      obtain ⟨w2, hdk, ht2, hlog2⟩ := en_dropKeyR_ok (cfg := cfg) hnd old.kid
        (Map.dropVal cfg old.vid { w with t := t' })
      simp only [Bool.false_eq_true, ↓reduceIte, en_replace_none hsz hr, rf_bind_ok, hdk, rf_pure]
      refine ⟨_, rfl, by rw [ht2, en_dropVal_t]; exact hRI', by rw [ht2, en_dropVal_t]; exact hp', ?_⟩
      rw [hlog2, en_dropVal_log]
      simp only [Map.EChain.occSpec, List.append_assoc]
  | andReplaceEntryWith keep nv =>
    cases keep with
    | true =>
      simp only [↓reduceIte, en_replace_keep hc h.1.toInv he (fun it => { it with v := nv }),
        rf_bind_ok, rf_pure]
      exact ⟨_, rfl, hset _ rfl, en_setPayload_perm h he nv, rfl⟩
    | false =>
      obtain ⟨w2, hdk, ht2, hlog2⟩ := en_dropKeyR_ok (cfg := cfg) hnd old.kid
        (Map.dropVal cfg old.vid { w with t := t' })
      simp only [Bool.false_eq_true, ↓reduceIte, en_replace_none hsz hr, rf_bind_ok, hdk, rf_pure]
      refine ⟨_, rfl, by rw [ht2, en_dropVal_t]; exact hRI', by rw [ht2, en_dropVal_t]; exact hp', ?_⟩
      rw [hlog2, en_dropVal_log]
      simp only [Map.EChain.occSpec, List.append_assoc]
  | vacInsert vid v =>
    exact ⟨_, rfl, by rw [en_dropVal_t]; exact h, by rw [en_dropVal_t]; exact List.Perm.refl _,
      en_dropVal_log _ _⟩
  | vacInsertEntry vid v =>
    exact ⟨_, rfl, by rw [en_dropVal_t]; exact h, by rw [en_dropVal_t]; exact List.Perm.refl _,
      en_dropVal_log _ _⟩
  | vacIntoKey => exact ⟨_, rfl, h, List.Perm.refl _, rfl⟩

/-! ## 5. lawful insertion primitives -/

theorem en_fresh_of_find {t : Raw} {k : Nat} (h : AL.find t.elems k = none) :
    ∀ (i : Nat) (e' : Elem), t.slots[i]?.join = some e' → e'.k ≠ k :=
  elems_find_none.mp h

/-- `insert_in_slot` of an absent key at the slot chosen by `find_insert_slot`. -/
theorem en_insertInSlot_RI (hc : CfgOk cfg) {H : Nat → Nat} {t : Raw} (h : RI cfg H t)
    (ha : t.alloc = true) (e : Elem) (hfresh : AL.find t.elems e.k = none) {slot : Nat}
    (hs : findInsertSlot cfg t (H e.k) = .ok slot) (hg : t.ctrlAt slot = EMPTY → 0 < t.gl) :
    ∃ t', insertInSlot cfg t (H e.k) slot e = .ok t' ∧ RI cfg H t' ∧
      List.Perm t'.elems (e :: t.elems) ∧ t'.items = t.items + 1 ∧
      t'.gl = (if t.ctrlAt slot = EMPTY then t.gl - 1 else t.gl) := by
  obtain ⟨slot', hfis', hlt, hsp⟩ := findInsertSlot_ok hc hc.probe h.1.toInv (H e.k)
  rw [hs] at hfis'
  cases hfis'
  obtain ⟨t', hins, hI, hsl, hm, hit⟩ := insertInSlot_invL hc hc.probe H h.1 ha e
    (en_fresh_of_find hfresh) hs hg
  obtain ⟨t2, hins2, _, _, hal2, _, _, _, hgl2⟩ := insertInSlot_inv hc h.1.toInv ha hlt hsp hg e (H e.k)
  rw [hins] at hins2
  cases hins2
  have hssz : slot < t.slots.size := by
    have := (h.1.toInv.allocated ha).2.2.2.1; omega
  have hnone : t.slots[slot]? = some none :=
    (slot_of_live h.1.toInv hssz).1 (isFull_false_of_special hsp)
  refine ⟨t', hins, ⟨hI, h.2.of_eq hm (by rw [hal2, ha])⟩, ?_, hit, hgl2⟩
  have := elems_put e hnone
  unfold Raw.elems at this ⊢
  rw [hsl]
  exact this

/-- `RawTable::insert` of an absent key under a lawful hasher and a never-refusing allocator:
    the element is stored, nothing is dropped; the only other outcome is the capacity-overflow
    panic of `reserve(1)`, world untouched. -/
theorem en_rawInsert_RI (hc : CfgOk cfg) {env : Env} {H : Nat → Nat} (hl : Lawful env H)
    (halloc : ∀ j, env.allocOk j = true) (e : Elem) (w : World) (h : RI cfg H w.t)
    (hfresh : AL.find w.t.elems e.k = none) :
    (∃ idx w', rawInsert cfg env (H e.k) e w = .ok (idx, w') ∧ RI cfg H w'.t ∧
      List.Perm w'.t.elems (e :: w.t.elems) ∧ w'.t.items = w.t.items + 1 ∧
      dropsOf w'.log = dropsOf w.log) ∨
    rawInsert cfg env (H e.k) e w = .panic "capacity" w := by
  obtain ⟨slot, hfs, hlt, hsp⟩ := findInsertSlot_ok hc hc.probe h.1.toInv (H e.k)
  have hsz : slot < w.t.ctrl.size := by have := h.1.toInv.buckets_le_size hc; omega
  unfold rawInsert
  simp only [hfs, ctrlRd_eq hsz]
  by_cases hbr : w.t.gl = 0 ∧ specialIsEmpty (w.t.ctrlAt slot) = true
  · rw [if_pos hbr]
    rcases reserve_RI hc (growthLawful hc hc.probe) hl halloc 1 w h with
      ⟨w2, hr, hRI, hp, hgl, hd⟩ | hr
    · left
      have hfresh2 : AL.find w2.t.elems e.k = none := by
        rw [AL.perm_find hp (elems_keysNodup hRI.1)]; exact hfresh
      have ha : w2.t.alloc = true := ag_alloc_of_gl hRI.1.toInv (by omega)
      obtain ⟨slot', hfs', _, _⟩ := findInsertSlot_ok hc hc.probe hRI.1.toInv (H e.k)
      obtain ⟨t', hins, hRI', hp', hit, _⟩ := en_insertInSlot_RI hc hRI ha e hfresh2 hfs'
        (fun _ => by omega)
      refine ⟨slot', { w2 with t := t' }, ?_, hRI', hp'.trans (hp.cons e), ?_, hd⟩
      · simp only [hr, hfs', hins]
      · show t'.items = _
        rw [hit, ag_items_eq_length hc hRI.1.toInv, ag_items_eq_length hc h.1.toInv, hp.length_eq]
    · right
      simp only [hr]
  · rw [if_neg hbr]
    left
    have hge : w.t.ctrlAt slot = EMPTY → 0 < w.t.gl := by
      intro he
      have : specialIsEmpty (w.t.ctrlAt slot) = true := by rw [he]; decide
      by_contra hn
      exact hbr ⟨by omega, this⟩
    have ha : w.t.alloc = true := by
      cases hal : w.t.alloc with
      | true => rfl
      | false =>
        exfalso
        have hs := ag_singleton_of_not_alloc h.1.toInv hal
        have h0 : slot = 0 := by have := hs.2.1; simp only [Raw.buckets] at hlt; omega
        have hW : 0 < cfg.W := by rcases hc.W_cases with hW | hW <;> omega
        have hE : w.t.ctrlAt slot = EMPTY := by
          rw [h0]; simp [Raw.ctrlAt, hs.2.2.1, hW]
        have := hge hE
        have := hs.2.2.2.2.2
        omega
    obtain ⟨t', hins, hRI', hp', hit, _⟩ := en_insertInSlot_RI hc h ha e hfresh hfs hge
    refine ⟨slot, { w with t := t' }, ?_, hRI', hp', hit, rfl⟩
    simp only [hins]

/-- `RawTable::insert` as called by a vacant entry (`insOwned`): as above; on the capacity panic the
    pair owned by the call is dropped by unwinding. -/
theorem en_insOwned_spec (hc : CfgOk cfg) {env : Env} {H : Nat → Nat} (hl : Lawful env H)
    (halloc : ∀ j, env.allocOk j = true) (e : Elem) (w : World) (h : RI cfg H w.t)
    (hfresh : AL.find w.t.elems e.k = none) :
    (∃ idx w', Map.insOwned cfg env (H e.k) e w = .ok (idx, w') ∧ RI cfg H w'.t ∧
      List.Perm w'.t.elems (e :: w.t.elems) ∧ w'.t.items = w.t.items + 1 ∧
      dropsOf w'.log = dropsOf w.log) ∨
    Map.insOwned cfg env (H e.k) e w = .panic "capacity" (w.dropElemQuiet cfg e) := by
  unfold Map.insOwned
  rcases en_rawInsert_RI hc hl halloc e w h hfresh with ⟨idx, w', hr, rest⟩ | hr
  · left; exact ⟨idx, w', by rw [hr]; rfl, rest⟩
  · right; rw [hr]; rfl

/-- `insert_no_grow` of an absent key with `growth_left > 0`. -/
theorem en_insNoGrow_RI (hc : CfgOk cfg) {H : Nat → Nat} (e : Elem) (w : World) (h : RI cfg H w.t)
    (hgl : 0 < w.t.gl) (hfresh : AL.find w.t.elems e.k = none) :
    ∃ idx w', Map.insNoGrow cfg (H e.k) e w = .ok (idx, w') ∧ RI cfg H w'.t ∧
      List.Perm w'.t.elems (e :: w.t.elems) ∧ w'.t.items = w.t.items + 1 ∧ w'.log = w.log := by
  have ha := ag_alloc_of_gl h.1.toInv hgl
  obtain ⟨idx, hfs, _, _, heq⟩ := ag_insertNoGrow_eq hc hc.probe h.1.toInv hgl (H e.k) e
  obtain ⟨t', hins, hRI', hp', hit, _⟩ := en_insertInSlot_RI hc h ha e hfresh hfs (fun _ => hgl)
  rw [hins] at heq
  refine ⟨idx, { w with t := t' }, ?_, hRI', hp', hit, rfl⟩
  simp only [Map.insNoGrow, heq]

/-! ## 6. chains on a vacant entry -/

theorem en_dropsOf_key_log (kid : Nat) (l : List Ev) :
    dropsOf (keyDropEv cfg kid ++ l) = keyDropEv cfg kid ++ dropsOf l := by
  rw [en_dropsOf_append, en_dropsOf_keyDropEv]

theorem en_dropsOf_val_log (vid : Nat) (l : List Ev) :
    dropsOf (valDropEv cfg vid ++ l) = valDropEv cfg vid ++ dropsOf l := by
  rw [en_dropsOf_append, en_dropsOf_valDropEv]

/-- Chains on a vacant entry whose insertion primitive `ins` succeeds. -/
theorem en_chainVac_spec {env : Env} {H : Nat → Nat} (hnd : ∀ c e, env.dropPanics c e = false)
    (ins : Elem → World → Res (Nat × World)) (k kid : Nat) (c : Map.EChain) (w : World)
    (h : RI cfg H w.t)
    (hins : ∀ e, c.inserted k kid = some e → ∃ idx w', ins e w = .ok (idx, w') ∧ RI cfg H w'.t ∧
      List.Perm w'.t.elems (e :: w.t.elems) ∧ dropsOf w'.log = dropsOf w.log) :
    ∃ w', Map.chainVac cfg env ins k kid c w = .ok ((false, (c.vacSpec cfg k kid w.t.elems).1), w') ∧
      RI cfg H w'.t ∧ List.Perm w'.t.elems (c.vacSpec cfg k kid w.t.elems).2.1 ∧
      dropsOf w'.log = (c.vacSpec cfg k kid w.t.elems).2.2 ++ dropsOf w.log := by
  have hput : ∀ (e : Elem) (out : Map.EOut), c.inserted k kid = some e →
      ∃ w', ((ins e w).bind fun x => (.ok ((false, out), x.2) : Map.EntRes)) = .ok ((false, out), w') ∧
        RI cfg H w'.t ∧ List.Perm w'.t.elems (e :: w.t.elems) ∧
        dropsOf w'.log = [] ++ dropsOf w.log := by
    intro e out he
    obtain ⟨idx, w', hr, a1, a2, a3⟩ := hins e he
    exact ⟨w', by rw [hr]; rfl, a1, a2, a3⟩
  have hdrop : ∀ (out : Map.EOut),
      ∃ w', ((dropKeyR cfg env kid w).bind fun w' => (.ok ((false, out), w') : Map.EntRes)) =
          .ok ((false, out), w') ∧
        RI cfg H w'.t ∧ List.Perm w'.t.elems w.t.elems ∧
        dropsOf w'.log = keyDropEv cfg kid ++ dropsOf w.log := by
    intro out
    obtain ⟨w2, hdk, ht2, hlog2⟩ := en_dropKeyR_ok (cfg := cfg) hnd kid w
    exact ⟨w2, by rw [hdk]; rfl, by rw [ht2]; exact h, by rw [ht2],
      by rw [hlog2, en_dropsOf_key_log]⟩
  cases c with
  | insert vid v => exact hput _ _ rfl
  | vacInsertEntry vid v => exact hput _ _ rfl
  | orInsert vid v => exact hput _ _ rfl
  | vacInsert vid v => exact hput _ _ rfl
  | andModifyOrInsert nv vid v => exact hput _ _ rfl
  | orInsertWithKey vid v => exact hput _ _ rfl
  | key => exact hdrop _
  | drop => exact hdrop _
  | occRemove => exact hdrop _
  | occRemoveEntry => exact hdrop _
  | occGetMut nv => exact hdrop _
  | replaceEntryWith keep nv => exact hdrop _
  | andReplaceEntryWith keep nv => exact hdrop _
  | occInsert vid v =>
    obtain ⟨w2, hdk, ht2, hlog2⟩ := en_dropKeyR_ok (cfg := cfg) hnd kid (Map.dropVal cfg vid w)
    refine ⟨w2, ?_, by rw [ht2, en_dropVal_t]; exact h,
      by rw [ht2, en_dropVal_t]; exact List.Perm.refl _, ?_⟩
    · show (dropKeyR cfg env kid (Map.dropVal cfg vid w)).bind _ = _
      rw [hdk]; rfl
    · rw [hlog2, en_dropVal_log, en_dropsOf_key_log, en_dropsOf_val_log]
      simp only [Map.EChain.vacSpec, List.append_assoc]
  | vacIntoKey => exact ⟨w, rfl, h, List.Perm.refl _, rfl⟩

/-- … and when `ins` unwinds, the whole chain unwinds with the same world. -/
theorem en_chainVac_panic {env : Env} (ins : Elem → World → Res (Nat × World)) (k kid : Nat)
    (c : Map.EChain) (w : World) {e : Elem} (he : c.inserted k kid = some e) {cls : String}
    {wp : World} (hp : ins e w = .panic cls wp) :
    Map.chainVac cfg env ins k kid c w = .panic cls wp := by
  cases c <;> simp only [Map.EChain.inserted, reduceCtorEq] at he <;> cases he <;>
    simp only [Map.chainVac] <;> (show (ins _ w).bind _ = _) <;> rw [hp] <;> rfl

/-! ## 7. look-ups under a lawful hasher: Occupied ⇔ present -/

theorem en_search_spec (hc : CfgOk cfg) {env : Env} {H : Nat → Nat} (hl : Lawful env H) (k : Nat)
    (w : World) (h : InvL cfg H w.t) :
    ∃ r w2, en_search cfg env k w = .ok (H k, r, w2) ∧ w2.t = w.t ∧ w2.log = w.log ∧
      ((∃ idx e, r = some idx ∧ w.t.slots[idx]?.join = some e ∧ e.k = k ∧
          AL.find w.t.elems k = some e) ∨
       (r = none ∧ AL.find w.t.elems k = none)) := by
  obtain ⟨r, w2, hf, ht, hlog, h1, h2⟩ :=
    find_spec hc hc.probe env H hl k { w with hc := w.hc + 1 } h
  refine ⟨r, w2, ?_, ht, hlog, ?_⟩
  · simp only [en_search, rf_makeHash_lawful hl, Res.bind, hf]
  · cases r with
    | none => exact Or.inr ⟨rfl, elems_find_none.mpr (h2.mp rfl)⟩
    | some idx =>
      obtain ⟨e, he, hk⟩ := (h1 idx).mp rfl
      exact Or.inl ⟨idx, e, rfl, he, hk, (elems_find h).mpr ⟨idx, he, hk⟩⟩

/-- `find` with a caller-supplied hash that IS the key's hash (`raw_entry` builders). -/
theorem en_find_spec (hc : CfgOk cfg) {env : Env} {H : Nat → Nat} (hl : Lawful env H) (k : Nat)
    (w : World) (h : InvL cfg H w.t) :
    ∃ r w2, find cfg env (H k) k w = .ok (r, w2) ∧ w2.t = w.t ∧ w2.log = w.log ∧
      ((∃ idx e, r = some idx ∧ w.t.slots[idx]?.join = some e ∧ e.k = k ∧
          AL.find w.t.elems k = some e) ∨
       (r = none ∧ AL.find w.t.elems k = none)) := by
  obtain ⟨r, w2, hf, ht, hlog, h1, h2⟩ := find_spec hc hc.probe env H hl k w h
  refine ⟨r, w2, hf, ht, hlog, ?_⟩
  cases r with
  | none => exact Or.inr ⟨rfl, elems_find_none.mpr (h2.mp rfl)⟩
  | some idx =>
    obtain ⟨e, he, hk⟩ := (h1 idx).mp rfl
    exact Or.inl ⟨idx, e, rfl, he, hk, (elems_find h).mpr ⟨idx, he, hk⟩⟩

/-- **`HashMap::entry`: Occupied ⇔ present.** Occupied (bucket `idx` holds the element stored under
    `k`; the key object passed in has been dropped) exactly when the key is in the map, Vacant
    otherwise; the table is not touched, whatever its load (no `reserve`). -/
theorem entryLook_spec (hc : CfgOk cfg) {env : Env} {H : Nat → Nat} (hl : Lawful env H)
    (hnd : ∀ c e, env.dropPanics c e = false) (k kid : Nat) (w : World) (h : InvL cfg H w.t) :
    match AL.find w.t.elems k with
    | some e => ∃ idx w', Map.entryLook cfg env k kid w = .ok ((H k, some idx), w') ∧ w'.t = w.t ∧
        w.t.slots[idx]?.join = some e ∧ e.k = k ∧ w'.log = keyDropEv cfg kid ++ w.log
    | none => ∃ w', Map.entryLook cfg env k kid w = .ok ((H k, none), w') ∧ w'.t = w.t ∧
        w'.log = w.log := by
  obtain ⟨r, w2, hs, ht, hlog, hor⟩ := en_search_spec hc hl k w h
  rw [en_entryLook_eq, hs]
  rcases hor with ⟨idx, e, rfl, he, hk, hfind⟩ | ⟨rfl, hfind⟩
  · rw [hfind]
    obtain ⟨w3, hdk, ht3, hlog3⟩ := en_dropKeyR_ok (cfg := cfg) hnd kid w2
    refine ⟨idx, w3, ?_, by rw [ht3, ht], he, hk, by rw [hlog3, hlog]⟩
    simp only [Res.onPanic, Res.bind, hdk]
  · rw [hfind]
    exact ⟨w2, rfl, ht, hlog⟩

/-- **`rustc_entry`: Occupied ⇔ present**; on the vacant side `reserve(1)` has already happened:
    same contents, invariant kept, room for one more element (or the capacity-overflow panic with
    the table untouched and the key object dropped). -/
theorem rustcLook_spec (hc : CfgOk cfg) {env : Env} {H : Nat → Nat} (hl : Lawful env H)
    (halloc : ∀ j, env.allocOk j = true) (hnd : ∀ c e, env.dropPanics c e = false) (k kid : Nat)
    (w : World) (h : RI cfg H w.t) :
    match AL.find w.t.elems k with
    | some e => ∃ idx w', Map.rustcLook cfg env k kid w = .ok ((H k, some idx), w') ∧ w'.t = w.t ∧
        w.t.slots[idx]?.join = some e ∧ e.k = k ∧ w'.log = keyDropEv cfg kid ++ w.log
    | none =>
      (∃ w', Map.rustcLook cfg env k kid w = .ok ((H k, none), w') ∧ RI cfg H w'.t ∧
        List.Perm w'.t.elems w.t.elems ∧ w'.t.items = w.t.items ∧ 0 < w'.t.gl ∧
        dropsOf w'.log = dropsOf w.log) ∨
      (∃ w', Map.rustcLook cfg env k kid w = .panic "capacity" w' ∧ w'.t = w.t ∧
        w'.log = keyDropEv cfg kid ++ w.log) := by
  obtain ⟨r, w2, hs, ht, hlog, hor⟩ := en_search_spec hc hl k w h.1
  rw [en_rustcLook_eq, hs]
  rcases hor with ⟨idx, e, rfl, he, hk, hfind⟩ | ⟨rfl, hfind⟩
  · rw [hfind]
    obtain ⟨w3, hdk, ht3, hlog3⟩ := en_dropKeyR_ok (cfg := cfg) hnd kid w2
    refine ⟨idx, w3, ?_, by rw [ht3, ht], he, hk, by rw [hlog3, hlog]⟩
    simp only [Res.onPanic, Res.bind, hdk]
  · rw [hfind]
    rcases reserve_RI hc (growthLawful hc hc.probe) hl halloc 1 w2 (by rw [ht]; exact h) with
      ⟨w3, hr, hRI, hp, hgl, hd⟩ | hr
    · left
      refine ⟨w3, ?_, hRI, by rw [← ht]; exact hp, ?_, by omega, by rw [hd, hlog]⟩
      · simp only [Res.bind, hr, Res.onPanic]
      · rw [ag_items_eq_length hc hRI.1.toInv, ag_items_eq_length hc h.1.toInv, hp.length_eq, ht]
    · right
      refine ⟨w2.dropKeyQuiet cfg kid, ?_, by rw [en_dropKeyQuiet_t, ht],
        by rw [en_dropKeyQuiet_log, hlog]⟩
      simp only [Res.bind, hr, Res.onPanic]

/-- **`raw_entry_mut().from_key` / `from_key_hashed_nocheck` / `from_hash`: Occupied ⇔ present.**
    Added hypothesis (the documented contract of the two `…hash…` builders): the caller-supplied
    hash `ph` is the hash of the key (`rawLook_wrong_hash_misses` below shows it is needed). -/
theorem rawLook_spec (hc : CfgOk cfg) {env : Env} {H : Nat → Nat} (hl : Lawful env H)
    (mode : Map.RawMode) (ph k : Nat) (hph : mode = .fromKey ∨ ph = H k) (w : World)
    (h : InvL cfg H w.t) :
    match AL.find w.t.elems k with
    | some e => ∃ idx w', Map.rawLook cfg env mode ph k w = .ok (some idx, w') ∧ w'.t = w.t ∧
        w.t.slots[idx]?.join = some e ∧ e.k = k ∧ w'.log = w.log
    | none => ∃ w', Map.rawLook cfg env mode ph k w = .ok (none, w') ∧ w'.t = w.t ∧
        w'.log = w.log := by
  have key : ∃ r w2, Map.rawLook cfg env mode ph k w = .ok (r, w2) ∧ w2.t = w.t ∧ w2.log = w.log ∧
      ((∃ idx e, r = some idx ∧ w.t.slots[idx]?.join = some e ∧ e.k = k ∧
          AL.find w.t.elems k = some e) ∨
       (r = none ∧ AL.find w.t.elems k = none)) := by
    unfold Map.rawLook
    by_cases hm : mode = .fromKey
    · obtain ⟨r, w2, hf, ht, hlog, hor⟩ := en_find_spec hc hl k { w with hc := w.hc + 1 } h
      refine ⟨r, w2, ?_, ht, hlog, hor⟩
      simp only [hm, if_true, rf_makeHash_lawful hl, rf_bind_ok]
      exact hf
    · have hph' : ph = H k := hph.resolve_left hm
      obtain ⟨r, w2, hf, ht, hlog, hor⟩ := en_find_spec hc hl k w h
      refine ⟨r, w2, ?_, ht, hlog, hor⟩
      simp only [hm, if_false, rf_pure, rf_bind_ok, hph']
      exact hf
  obtain ⟨r, w2, hs, ht, hlog, hor⟩ := key
  rcases hor with ⟨idx, e, rfl, he, hk, hfind⟩ | ⟨rfl, hfind⟩
  · rw [hfind]; exact ⟨idx, w2, hs, ht, he, hk, hlog⟩
  · rw [hfind]; exact ⟨w2, hs, ht, hlog⟩

/-- **`HashSet::entry`: Occupied ⇔ present.** -/
theorem setEntryFind_spec (hc : CfgOk cfg) {env : Env} {H : Nat → Nat} (hl : Lawful env H)
    (e : Elem) (w : World) (h : InvL cfg H w.t) :
    match AL.find w.t.elems e.k with
    | some x => ∃ idx w', Set.entryFind cfg env e w = .ok (H e.k, some idx, w') ∧ w'.t = w.t ∧
        w.t.slots[idx]?.join = some x ∧ x.k = e.k ∧ w'.log = w.log
    | none => ∃ w', Set.entryFind cfg env e w = .ok (H e.k, none, w') ∧ w'.t = w.t ∧
        w'.log = w.log := by
  have heq : Set.entryFind cfg env e w = (en_search cfg env e.k w).onPanic (·.dropElemQuiet cfg e) := rfl
  obtain ⟨r, w2, hs, ht, hlog, hor⟩ := en_search_spec hc hl e.k w h
  rw [heq, hs]
  rcases hor with ⟨idx, x, rfl, he, hk, hfind⟩ | ⟨rfl, hfind⟩
  · rw [hfind]; exact ⟨idx, w2, rfl, ht, he, hk, hlog⟩
  · rw [hfind]; exact ⟨w2, rfl, ht, hlog⟩

/-! ## 8. `entry` / `rustc_entry` + chain ≡ the plain call sequence -/

theorem en_inserted_k {k kid : Nat} {c : Map.EChain} {e : Elem} (h : c.inserted k kid = some e) :
    e.k = k := by
  cases c <;> simp only [Map.EChain.inserted, reduceCtorEq, Option.some.injEq] at h <;>
    (subst h; rfl)

/-- **`map.entry(key)` followed by any chain of entry methods.** With `o = get(key)` on the abstract
    map: Occupied iff `o = some old`, and the chain's effect / return value / destructor log are
    those of the equivalent plain calls (`Map.EChain.occSpec` / `vacSpec`); the key object passed to
    `entry()` is dropped at once when the entry is Occupied. `RI` holds afterwards. The only other
    outcome: an inserting chain on a full table whose `reserve(1)` overflows `usize` (panic
    `"capacity"`, table untouched, the pair owned by the call dropped). No spare capacity is
    assumed anywhere: `h` is only the invariant. -/
theorem entry_chain_spec (hc : CfgOk cfg) {env : Env} {H : Nat → Nat} (hl : Lawful env H)
    (halloc : ∀ j, env.allocOk j = true) (hnd : ∀ c e, env.dropPanics c e = false) (k kid : Nat)
    (c : Map.EChain) (w : World) (h : RI cfg H w.t) :
    match AL.find w.t.elems k with
    | some old =>
      ∃ w', Map.entry cfg env k kid c w = .ok ((true, (c.occSpec cfg old w.t.elems).1), w') ∧
        RI cfg H w'.t ∧ List.Perm w'.t.elems (c.occSpec cfg old w.t.elems).2.1 ∧
        w'.log = (c.occSpec cfg old w.t.elems).2.2 ++ keyDropEv cfg kid ++ w.log
    | none =>
      (∃ w', Map.entry cfg env k kid c w = .ok ((false, (c.vacSpec cfg k kid w.t.elems).1), w') ∧
        RI cfg H w'.t ∧ List.Perm w'.t.elems (c.vacSpec cfg k kid w.t.elems).2.1 ∧
        dropsOf w'.log = (c.vacSpec cfg k kid w.t.elems).2.2 ++ dropsOf w.log) ∨
      (∃ e w', c.inserted k kid = some e ∧ Map.entry cfg env k kid c w = .panic "capacity" w' ∧
        w'.t = w.t ∧ w'.log = dropEvs cfg [e] ++ w.log) := by
  have hlook := entryLook_spec hc hl hnd k kid w h.1
  cases hfind : AL.find w.t.elems k with
  | some old =>
    rw [hfind] at hlook
    obtain ⟨idx, w1, hlk, ht, he, _, hlog⟩ := hlook
    obtain ⟨w', hch, hRI, hp, hlog'⟩ := en_chainOcc_spec hc hnd idx c w1 (by rw [ht]; exact h)
      (old := old) (by rw [ht]; exact he)
    rw [ht] at hch hp hlog'
    refine ⟨w', ?_, hRI, hp, by rw [hlog', hlog, List.append_assoc]⟩
    simp only [Map.entry, hlk, Res.onPanic, Res.bind]
    exact hch
  | none =>
    rw [hfind] at hlook
    obtain ⟨w1, hlk, ht, hlog⟩ := hlook
    have hRI1 : RI cfg H w1.t := by rw [ht]; exact h
    have hfind1 : AL.find w1.t.elems k = none := by rw [ht]; exact hfind
    have hentry : Map.entry cfg env k kid c w =
        Map.chainVac cfg env (Map.insOwned cfg env (H k)) k kid c w1 := by
      simp only [Map.entry, hlk, Res.onPanic, Res.bind]
    rw [hentry]
    by_cases hcap : ∃ e, c.inserted k kid = some e ∧
        Map.insOwned cfg env (H k) e w1 = .panic "capacity" (w1.dropElemQuiet cfg e)
    · right
      obtain ⟨e, he, hpan⟩ := hcap
      exact ⟨e, _, he, en_chainVac_panic _ k kid c w1 he hpan, by rw [dropElemQuiet_t, ht],
        by rw [dropElemQuiet_log, hlog]⟩
    · left
      obtain ⟨w', hch, hRI, hp, hd⟩ := en_chainVac_spec (cfg := cfg) hnd
        (Map.insOwned cfg env (H k)) k kid c w1 hRI1 (by
          intro e he
          have hk := en_inserted_k he
          rcases en_insOwned_spec hc hl halloc e w1 hRI1 (by rw [hk]; exact hfind1) with
            ⟨idx, w', hr, a1, a2, _, a4⟩ | hr
          · rw [hk] at hr; exact ⟨idx, w', hr, a1, a2, a4⟩
          · rw [hk] at hr; exact absurd ⟨e, he, hr⟩ hcap)
      rw [ht] at hch hp hd
      exact ⟨w', hch, hRI, hp, by rw [hd, hlog]⟩

/-- **`map.rustc_entry(key)` followed by any chain.** Same table as `entry_chain_spec`; the vacant
    entry inserts with `insert_no_grow`, which is fine because `rustc_entry` itself has run
    `reserve(1)` — so the capacity-overflow panic can only come from the look-up (any chain), with
    the key object and the chain's unused value dropped by unwinding. -/
theorem rustcEntry_chain_spec (hc : CfgOk cfg) {env : Env} {H : Nat → Nat} (hl : Lawful env H)
    (halloc : ∀ j, env.allocOk j = true) (hnd : ∀ c e, env.dropPanics c e = false) (k kid : Nat)
    (c : Map.EChain) (w : World) (h : RI cfg H w.t) :
    match AL.find w.t.elems k with
    | some old =>
      ∃ w', Map.rustcEntry cfg env k kid c w = .ok ((true, (c.occSpec cfg old w.t.elems).1), w') ∧
        RI cfg H w'.t ∧ List.Perm w'.t.elems (c.occSpec cfg old w.t.elems).2.1 ∧
        w'.log = (c.occSpec cfg old w.t.elems).2.2 ++ keyDropEv cfg kid ++ w.log
    | none =>
      (∃ w', Map.rustcEntry cfg env k kid c w =
          .ok ((false, (c.vacSpec cfg k kid w.t.elems).1), w') ∧
        RI cfg H w'.t ∧ List.Perm w'.t.elems (c.vacSpec cfg k kid w.t.elems).2.1 ∧
        dropsOf w'.log = (c.vacSpec cfg k kid w.t.elems).2.2 ++ dropsOf w.log) ∨
      (∃ w', Map.rustcEntry cfg env k kid c w = .panic "capacity" w' ∧ w'.t = w.t ∧
        w'.log = valDropEvOpt cfg c.heldVid ++ keyDropEv cfg kid ++ w.log) := by
  have hlook := rustcLook_spec hc hl halloc hnd k kid w h
  cases hfind : AL.find w.t.elems k with
  | some old =>
    rw [hfind] at hlook
    obtain ⟨idx, w1, hlk, ht, he, _, hlog⟩ := hlook
    obtain ⟨w', hch, hRI, hp, hlog'⟩ := en_chainOcc_spec hc hnd idx c w1 (by rw [ht]; exact h)
      (old := old) (by rw [ht]; exact he)
    rw [ht] at hch hp hlog'
    refine ⟨w', ?_, hRI, hp, by rw [hlog', hlog, List.append_assoc]⟩
    simp only [Map.rustcEntry, hlk, Res.onPanic, Res.bind]
    exact hch
  | none =>
    rw [hfind] at hlook
    rcases hlook with ⟨w1, hlk, hRI1, hp1, _, hgl, hd1⟩ | ⟨w1, hlk, ht, hlog⟩
    · left
      have hfind1 : AL.find w1.t.elems k = none := by
        rw [AL.perm_find hp1 (elems_keysNodup hRI1.1)]; exact hfind
      obtain ⟨w', hch, hRI, hp, hd⟩ := en_chainVac_spec (cfg := cfg) (env := env) hnd
        (Map.insNoGrow cfg (H k)) k kid c w1 hRI1 (by
          intro e he
          have hk := en_inserted_k he
          obtain ⟨idx, w', hr, a1, a2, _, a4⟩ := en_insNoGrow_RI hc e w1 hRI1 hgl
            (by rw [hk]; exact hfind1)
          rw [hk] at hr
          exact ⟨idx, w', hr, a1, a2, by rw [a4]⟩)
      have hspec1 : (c.vacSpec cfg k kid w1.t.elems).1 = (c.vacSpec cfg k kid w.t.elems).1 ∧
          List.Perm (c.vacSpec cfg k kid w1.t.elems).2.1 (c.vacSpec cfg k kid w.t.elems).2.1 ∧
          (c.vacSpec cfg k kid w1.t.elems).2.2 = (c.vacSpec cfg k kid w.t.elems).2.2 := by
        cases c <;>
          first
            | exact ⟨rfl, hp1, rfl⟩
            | exact ⟨rfl, hp1.cons _, rfl⟩
      refine ⟨w', ?_, hRI, hp.trans hspec1.2.1, by rw [hd, hspec1.2.2, hd1]⟩
      simp only [Map.rustcEntry, hlk, Res.onPanic, Res.bind]
      rw [← hspec1.1]
      exact hch
    · right
      refine ⟨Map.dropValOpt cfg c.heldVid w1, ?_, by rw [en_dropValOpt_t, ht],
        by rw [en_dropValOpt_log, hlog, List.append_assoc]⟩
      simp only [Map.rustcEntry, hlk, Res.onPanic, Res.bind]

/-! ## 9. a Vacant entry that is dropped unused -/

/-- The chains that do not use a vacant entry: plain drop, `key()`, `into_key()`. -/
def Map.EChain.Unused (c : Map.EChain) : Prop := c = .drop ∨ c = .key ∨ c = .vacIntoKey

/-- **`entry`**: creating a Vacant entry and dropping it unused leaves the whole table (contents,
    `len`, capacity, every control byte) exactly as it was. -/
theorem vacant_drop_noop_entry (hc : CfgOk cfg) {env : Env} {H : Nat → Nat} (hl : Lawful env H)
    (hnd : ∀ c e, env.dropPanics c e = false) (k kid : Nat) (c : Map.EChain) (w : World)
    (h : InvL cfg H w.t) (habs : AL.find w.t.elems k = none) (hu : c.Unused) :
    ∃ out w', Map.entry cfg env k kid c w = .ok ((false, out), w') ∧ w'.t = w.t := by
  have hlook := entryLook_spec hc hl hnd k kid w h
  rw [habs] at hlook
  obtain ⟨w1, hlk, ht, _⟩ := hlook
  obtain ⟨w2, hdk, ht2, _⟩ := en_dropKeyR_ok (cfg := cfg) hnd kid w1
  rcases hu with rfl | rfl | rfl
  · refine ⟨.none, w2, ?_, by rw [ht2, ht]⟩
    simp only [Map.entry, hlk, Res.onPanic, Res.bind, Map.chainVac, hdk, rf_bind_ok, rf_pure]
  · refine ⟨.key k kid, w2, ?_, by rw [ht2, ht]⟩
    simp only [Map.entry, hlk, Res.onPanic, Res.bind, Map.chainVac, hdk, rf_bind_ok, rf_pure]
  · refine ⟨.key k kid, w1, ?_, ht⟩
    simp only [Map.entry, hlk, Res.onPanic, Res.bind, Map.chainVac]

/-- **`rustc_entry`**: a Vacant entry dropped unused leaves contents and `len()` unchanged; the
    capacity may have grown (`reserve(1)` ran when the entry was created). -/
theorem vacant_drop_noop_rustcEntry (hc : CfgOk cfg) {env : Env} {H : Nat → Nat}
    (hl : Lawful env H) (halloc : ∀ j, env.allocOk j = true)
    (hnd : ∀ c e, env.dropPanics c e = false) (k kid : Nat) (c : Map.EChain) (w : World)
    (h : RI cfg H w.t) (habs : AL.find w.t.elems k = none) (hu : c.Unused) :
    (∃ out w', Map.rustcEntry cfg env k kid c w = .ok ((false, out), w') ∧
      List.Perm w'.t.elems w.t.elems ∧ w'.t.items = w.t.items ∧ RI cfg H w'.t) ∨
    (∃ w', Map.rustcEntry cfg env k kid c w = .panic "capacity" w' ∧ w'.t = w.t) := by
  have hsp := rustcEntry_chain_spec hc hl halloc hnd k kid c w h
  rw [habs] at hsp
  rcases hsp with ⟨w', hr, hRI, hp, _⟩ | ⟨w', hr, ht, _⟩
  · left
    have hp' : List.Perm w'.t.elems w.t.elems := by
      rcases hu with rfl | rfl | rfl <;> exact hp
    refine ⟨_, w', hr, hp', ?_, hRI⟩
    rw [ag_items_eq_length hc hRI.1.toInv, ag_items_eq_length hc h.1.toInv, hp'.length_eq]
  · right
    exact ⟨w', hr, ht⟩

/-! ## 10. `entry_ref` -/

/-- `entry_ref` on a present key: as `occSpec`, except that `key()` only reports the key value
    (`OccupiedEntry::key()` = the STORED key, whose `k` equals the probe `k` under a lawful `Eq`). -/
def Map.EChain.refOccSpec (cfg : Cfg) (k : Nat) (c : Map.EChain) (old : Elem) (l : AL) :
    Map.EOut × AL × List Ev :=
  match c with
  | .key => (.qkey k, l, [])
  | c => c.occSpec cfg old l

/-- `entry_ref` on an absent key: the key object `(k, newkid)` is created from `&Q` only when the
    chain inserts (`insert`, `or_insert*`, `and_modify().or_insert()`); every other chain just
    drops the value it was given. -/
def Map.EChain.refVacSpec (cfg : Cfg) (k newkid : Nat) (c : Map.EChain) (l : AL) :
    Map.EOut × AL × List Ev :=
  match c with
  | .key => (.qkey k, l, [])
  | .insert vid v => (.elem ⟨k, newkid, vid, v⟩, ⟨k, newkid, vid, v⟩ :: l, [])
  | .orInsert vid v | .andModifyOrInsert _ vid v => (.val vid v, ⟨k, newkid, vid, v⟩ :: l, [])
  | c => (.none, l, valDropEvOpt cfg c.heldVid)

def Map.EChain.refInserted (k newkid : Nat) : Map.EChain → Option Elem
  | .insert vid v | .orInsert vid v | .andModifyOrInsert _ vid v => some ⟨k, newkid, vid, v⟩
  | _ => none

/-- **`map.entry_ref(&key)` followed by any chain.** -/
theorem entryRef_chain_spec (hc : CfgOk cfg) {env : Env} {H : Nat → Nat} (hl : Lawful env H)
    (halloc : ∀ j, env.allocOk j = true) (hnd : ∀ c e, env.dropPanics c e = false)
    (k newkid : Nat) (c : Map.EChain) (w : World) (h : RI cfg H w.t) :
    match AL.find w.t.elems k with
    | some old =>
      ∃ w', Map.entryRef cfg env k newkid c w =
          .ok ((true, (c.refOccSpec cfg k old w.t.elems).1), w') ∧
        RI cfg H w'.t ∧ List.Perm w'.t.elems (c.refOccSpec cfg k old w.t.elems).2.1 ∧
        w'.log = (c.refOccSpec cfg k old w.t.elems).2.2 ++ w.log
    | none =>
      (∃ w', Map.entryRef cfg env k newkid c w =
          .ok ((false, (c.refVacSpec cfg k newkid w.t.elems).1), w') ∧
        RI cfg H w'.t ∧ List.Perm w'.t.elems (c.refVacSpec cfg k newkid w.t.elems).2.1 ∧
        dropsOf w'.log = (c.refVacSpec cfg k newkid w.t.elems).2.2 ++ dropsOf w.log) ∨
      (∃ e w', c.refInserted k newkid = some e ∧
        Map.entryRef cfg env k newkid c w = .panic "capacity" w' ∧ w'.t = w.t ∧
        w'.log = dropEvs cfg [e] ++ w.log) := by
  obtain ⟨r, w1, hf, ht, hlog, hor⟩ := en_find_spec hc hl k { w with hc := w.hc + 1 } h.1
  have ht : w1.t = w.t := ht
  have hlog : w1.log = w.log := hlog
  have hRI1 : RI cfg H w1.t := by rw [ht]; exact h
  rcases hor with ⟨idx, old, rfl, he, hk, hfind⟩ | ⟨rfl, hfind⟩
  · have hfind : AL.find w.t.elems k = some old := hfind
    have he : w.t.slots[idx]?.join = some old := he
    rw [hfind]
    have he1 : w1.t.slots[idx]?.join = some old := by rw [ht]; exact he
    have hocc := en_chainOcc_spec hc hnd idx c w1 hRI1 he1
    rw [ht, hlog] at hocc
    cases c
    case key =>
      refine ⟨w1, ?_, hRI1, by rw [ht]; exact List.Perm.refl _, hlog⟩
      simp only [Map.entryRef, rf_makeHash_lawful hl, rf_bind_ok, hf, rf_pure, Res.onPanic,
        Res.bind, slotGet_ok he1, liftE]
      have hk' : old.k = k := hk
      rw [hk']
      rfl
    all_goals
      obtain ⟨w', hch, hRI, hp, hlog'⟩ := hocc
      refine ⟨w', ?_, hRI, hp, hlog'⟩
      simp only [Map.entryRef, rf_makeHash_lawful hl, rf_bind_ok, hf, rf_pure, Res.onPanic, Res.bind]
      exact hch
  · have hfind : AL.find w.t.elems k = none := hfind
    rw [hfind]
    have hfind1 : AL.find w1.t.elems k = none := by rw [ht]; exact hfind
    have hput : ∀ (e : Elem) (out : Map.EOut), e.k = k →
        (∃ w', ((Map.insOwned cfg env (H k) e w1).bind
            fun x => (.ok ((false, out), x.2) : Map.EntRes)) = .ok ((false, out), w') ∧
          RI cfg H w'.t ∧ List.Perm w'.t.elems (e :: w.t.elems) ∧
          dropsOf w'.log = [] ++ dropsOf w.log) ∨
        (∃ w', ((Map.insOwned cfg env (H k) e w1).bind
            fun x => (.ok ((false, out), x.2) : Map.EntRes)) = .panic "capacity" w' ∧
          w'.t = w.t ∧ w'.log = dropEvs cfg [e] ++ w.log) := by
      intro e out hk
      rcases en_insOwned_spec hc hl halloc e w1 hRI1 (by rw [hk]; exact hfind1) with
        ⟨idx, w', hr, a1, a2, _, a4⟩ | hr
      · rw [hk] at hr
        exact Or.inl ⟨w', by rw [hr]; rfl, a1, by rw [← ht]; exact a2, by rw [a4, hlog]; rfl⟩
      · rw [hk] at hr
        exact Or.inr ⟨_, by rw [hr]; rfl, by rw [dropElemQuiet_t, ht],
          by rw [dropElemQuiet_log, hlog]⟩
    have hnone : ∀ (c' : Map.EChain), c'.heldVid = c.heldVid →
        RI cfg H (Map.dropValOpt cfg c'.heldVid w1).t ∧
        List.Perm (Map.dropValOpt cfg c'.heldVid w1).t.elems w.t.elems ∧
        dropsOf (Map.dropValOpt cfg c'.heldVid w1).log =
          valDropEvOpt cfg c'.heldVid ++ dropsOf w.log := by
      intro c' _
      refine ⟨by rw [en_dropValOpt_t]; exact hRI1, by rw [en_dropValOpt_t, ht], ?_⟩
      rw [en_dropValOpt_log, en_dropsOf_append, en_dropsOf_valDropEvOpt, hlog]
    cases c
    case key =>
      left
      refine ⟨w1, ?_, hRI1, by rw [ht]; exact List.Perm.refl _, by rw [hlog]; rfl⟩
      simp only [Map.entryRef, rf_makeHash_lawful hl, rf_bind_ok, hf, rf_pure, Res.onPanic, en_bind_ok]
      rfl
    case insert vid v =>
      rcases hput ⟨k, newkid, vid, v⟩ (.elem ⟨k, newkid, vid, v⟩) rfl with
        ⟨w', hr, a1, a2, a3⟩ | ⟨w', hr, a1, a2⟩
      · refine Or.inl ⟨w', ?_, a1, a2, a3⟩
        simp only [Map.entryRef, rf_makeHash_lawful hl, rf_bind_ok, hf, rf_pure, Res.onPanic, en_bind_ok]
        exact hr
      · refine Or.inr ⟨_, w', rfl, ?_, a1, a2⟩
        simp only [Map.entryRef, rf_makeHash_lawful hl, rf_bind_ok, hf, rf_pure, Res.onPanic, en_bind_ok]
        exact hr
    case orInsert vid v =>
      rcases hput ⟨k, newkid, vid, v⟩ (.val vid v) rfl with
        ⟨w', hr, a1, a2, a3⟩ | ⟨w', hr, a1, a2⟩
      · refine Or.inl ⟨w', ?_, a1, a2, a3⟩
        simp only [Map.entryRef, rf_makeHash_lawful hl, rf_bind_ok, hf, rf_pure, Res.onPanic, en_bind_ok]
        exact hr
      · refine Or.inr ⟨_, w', rfl, ?_, a1, a2⟩
        simp only [Map.entryRef, rf_makeHash_lawful hl, rf_bind_ok, hf, rf_pure, Res.onPanic, en_bind_ok]
        exact hr
    case andModifyOrInsert nv vid v =>
      rcases hput ⟨k, newkid, vid, v⟩ (.val vid v) rfl with
        ⟨w', hr, a1, a2, a3⟩ | ⟨w', hr, a1, a2⟩
      · refine Or.inl ⟨w', ?_, a1, a2, a3⟩
        simp only [Map.entryRef, rf_makeHash_lawful hl, rf_bind_ok, hf, rf_pure, Res.onPanic, en_bind_ok]
        exact hr
      · refine Or.inr ⟨_, w', rfl, ?_, a1, a2⟩
        simp only [Map.entryRef, rf_makeHash_lawful hl, rf_bind_ok, hf, rf_pure, Res.onPanic, en_bind_ok]
        exact hr
    all_goals
      left
      obtain ⟨a1, a2, a3⟩ := hnone _ rfl
      refine ⟨_, ?_, a1, a2, a3⟩
      simp only [Map.entryRef, rf_makeHash_lawful hl, rf_bind_ok, hf, rf_pure, Res.onPanic, en_bind_ok]
      rfl

/-! ## 11. `HashSet::entry`, `try_insert` -/

/-- **`HashSet::entry(value)`**: `insert()` / `or_insert()` ≡ `HashSet::insert` (present: the stored
    object stays and is returned, the argument is dropped; absent: the argument is stored);
    `Occupied::remove()` ≡ `take` (the stored object is handed back; the argument is dropped with
    the entry); a Vacant entry dropped by `entryRemove` only drops the argument. -/
theorem set_entry_spec (hc : CfgOk cfg) {env : Env} {H : Nat → Nat} (hl : Lawful env H)
    (halloc : ∀ j, env.allocOk j = true) (hnd : ∀ c e, env.dropPanics c e = false) (e : Elem)
    (w : World) (h : RI cfg H w.t) :
    match AL.find w.t.elems e.k with
    | some x =>
      (∃ w', Set.entryInsert cfg env e w = .ok (x, w') ∧ Set.entryOrInsert cfg env e w = .ok w' ∧
        w'.t = w.t ∧ w'.log = keyDropEv cfg e.kid ++ w.log) ∧
      (∃ w', Set.entryRemove cfg env e w = .ok (some x, w') ∧ RI cfg H w'.t ∧
        List.Perm w'.t.elems (AL.erase w.t.elems e.k) ∧ w'.log = keyDropEv cfg e.kid ++ w.log)
    | none =>
      ((∃ w', Set.entryInsert cfg env e w = .ok (e, w') ∧ Set.entryOrInsert cfg env e w = .ok w' ∧
          RI cfg H w'.t ∧ List.Perm w'.t.elems (e :: w.t.elems) ∧
          dropsOf w'.log = dropsOf w.log) ∨
       (∃ w', Set.entryInsert cfg env e w = .panic "capacity" w' ∧
          Set.entryOrInsert cfg env e w = .panic "capacity" w' ∧ w'.t = w.t ∧
          w'.log = dropEvs cfg [e] ++ w.log)) ∧
      (∃ w', Set.entryRemove cfg env e w = .ok (none, w') ∧ w'.t = w.t ∧
        w'.log = keyDropEv cfg e.kid ++ w.log) := by
  have hlook := setEntryFind_spec hc hl e w h.1
  cases hfind : AL.find w.t.elems e.k with
  | some x =>
    rw [hfind] at hlook
    obtain ⟨idx, w1, hlk, ht, he, hk, hlog⟩ := hlook
    obtain ⟨w2, hdk, ht2, hlog2⟩ := en_dropKeyR_ok (cfg := cfg) hnd e.kid w1
    have he2 : w2.t.slots[idx]?.join = some x := by rw [ht2, ht]; exact he
    refine ⟨⟨w2, ?_, ?_, by rw [ht2, ht], by rw [hlog2, hlog]⟩, ?_⟩
    · simp only [Set.entryInsert, hlk, rf_bind_ok, hdk, slotGet_ok he2, liftE, rf_pure]
    · simp only [Set.entryOrInsert, Set.entryInsert, hlk, rf_bind_ok, hdk, slotGet_ok he2, liftE,
        rf_pure]
    · obtain ⟨t', hr, hRI, hp, _⟩ := en_removeAt_RI hc (show RI cfg H w2.t by rw [ht2, ht]; exact h) he2
      refine ⟨{ w2 with t := t' }, ?_, hRI, ?_, by rw [hlog2, hlog]⟩
      · simp only [Set.entryRemove, hlk, rf_bind_ok, hdk, hr, liftE, rf_pure]
      · rw [ht2, ht, hk] at hp; exact hp
  | none =>
    rw [hfind] at hlook
    obtain ⟨w1, hlk, ht, hlog⟩ := hlook
    have hRI1 : RI cfg H w1.t := by rw [ht]; exact h
    refine ⟨?_, ?_⟩
    · rcases en_insOwned_spec hc hl halloc e w1 hRI1 (by rw [ht]; exact hfind) with
        ⟨idx, w', hr, a1, a2, _, a4⟩ | hr
      · left
        have hr' : Set.vacantInsert cfg env (H e.k) e w1 = .ok (idx, w') := hr
        refine ⟨w', ?_, ?_, a1, by rw [← ht]; exact a2, by rw [a4, hlog]⟩
        · simp only [Set.entryInsert, hlk, rf_bind_ok, hr', rf_pure]
        · simp only [Set.entryOrInsert, Set.entryInsert, hlk, rf_bind_ok, hr', rf_pure]
      · right
        have hr' : Set.vacantInsert cfg env (H e.k) e w1 = .panic "capacity" (w1.dropElemQuiet cfg e) := hr
        refine ⟨w1.dropElemQuiet cfg e, ?_, ?_, by rw [dropElemQuiet_t, ht],
          by rw [dropElemQuiet_log, hlog]⟩
        · simp only [Set.entryInsert, hlk, rf_bind_ok, hr', rf_bind_panic]
        · simp only [Set.entryOrInsert, Set.entryInsert, hlk, rf_bind_ok, hr', rf_bind_panic]
    · obtain ⟨w2, hdk, ht2, hlog2⟩ := en_dropKeyR_ok (cfg := cfg) hnd e.kid w1
      refine ⟨w2, ?_, by rw [ht2, ht], by rw [hlog2, hlog]⟩
      simp only [Set.entryRemove, hlk, rf_bind_ok, hdk, rf_pure]

/-- **`try_insert(key, value)`**: `Err(OccupiedError)` carrying the entry's current element when the
    key is present — map unchanged, the passed key object dropped (inside `entry()`), the rejected
    value handed back to the caller (nothing logged for it) — else the pair is inserted. -/
theorem tryInsert_spec (hc : CfgOk cfg) {env : Env} {H : Nat → Nat} (hl : Lawful env H)
    (halloc : ∀ j, env.allocOk j = true) (hnd : ∀ c e, env.dropPanics c e = false) (e : Elem)
    (w : World) (h : RI cfg H w.t) :
    match AL.find w.t.elems e.k with
    | some cur =>
      ∃ w', Map.tryInsert cfg env e w = .ok ((false, .elem cur), w') ∧ w'.t = w.t ∧
        w'.log = keyDropEv cfg e.kid ++ w.log
    | none =>
      (∃ w', Map.tryInsert cfg env e w = .ok ((true, .elem e), w') ∧ RI cfg H w'.t ∧
        List.Perm w'.t.elems (e :: w.t.elems) ∧ dropsOf w'.log = dropsOf w.log) ∨
      (∃ w', Map.tryInsert cfg env e w = .panic "capacity" w' ∧ w'.t = w.t ∧
        w'.log = dropEvs cfg [e] ++ w.log) := by
  have hlook := entryLook_spec hc hl hnd e.k e.kid w h.1
  cases hfind : AL.find w.t.elems e.k with
  | some cur =>
    rw [hfind] at hlook
    obtain ⟨idx, w1, hlk, ht, he, _, hlog⟩ := hlook
    have he1 : w1.t.slots[idx]?.join = some cur := by rw [ht]; exact he
    refine ⟨w1, ?_, ht, hlog⟩
    simp only [Map.tryInsert, hlk, Res.onPanic, en_bind_ok, slotGet_ok he1, liftE]
  | none =>
    rw [hfind] at hlook
    obtain ⟨w1, hlk, ht, hlog⟩ := hlook
    have hRI1 : RI cfg H w1.t := by rw [ht]; exact h
    rcases en_insOwned_spec hc hl halloc e w1 hRI1 (by rw [ht]; exact hfind) with
      ⟨idx, w', hr, a1, a2, _, a4⟩ | hr
    · left
      refine ⟨w', ?_, a1, by rw [← ht]; exact a2, by rw [a4, hlog]⟩
      simp only [Map.tryInsert, hlk, Res.onPanic, en_bind_ok, hr]
    · right
      refine ⟨w1.dropElemQuiet cfg e, ?_, by rw [dropElemQuiet_t, ht],
        by rw [dropElemQuiet_log, hlog]⟩
      simp only [Map.tryInsert, hlk, Res.onPanic, en_bind_ok, hr]
      rfl

/-! ## 12. `raw_entry_mut` -/

/-- Replace the stored KEY object under `k` (`RawOccupiedEntryMut::insert_key`). -/
def AL.setKid (l : AL) (k kid : Nat) : AL :=
  l.map fun x => if x.k == k then { x with kid := kid } else x

theorem en_setKid_perm {H : Nat → Nat} {t : Raw} (h : RI cfg H t) {idx : Nat} {old : Elem}
    (he : t.slots[idx]?.join = some old) (kid : Nat) :
    List.Perm (Map.slotSet t idx { old with kid := kid }).elems (AL.setKid t.elems old.k kid) := by
  have := en_slotSet_perm h he (fun x => if x.k == old.k then { x with kid := kid } else x)
    (fun x hx => by simp [hx])
  simp only [beq_self_eq_true, if_true] at this
  exact this

/-- Chain on an OCCUPIED raw entry holding `old`. -/
def Map.RawChain.occSpec (cfg : Cfg) (c : Map.RawChain) (old : Elem) (l : AL) :
    Map.EOut × AL × List Ev :=
  match c with
  -- `insert(k, v)` on a present key; the unused key argument is dropped last
  | .insert kid vid v =>
    (.elem { old with vid := vid, v := v }, l.setVal old.k vid v,
      keyDropEv cfg kid ++ valDropEv cfg old.vid)
  | .orInsert kid vid _ => (.elem old, l, keyDropEv cfg kid ++ valDropEv cfg vid)
  | .vacInsert kid vid _ | .vacInsertHashed kid vid _ =>
    (.none, l, keyDropEv cfg kid ++ valDropEv cfg vid)
  | .occRemove => (.val old.vid old.v, l.erase old.k, keyDropEv cfg old.kid)
  | .occRemoveEntry => (.elem old, l.erase old.k, [])
  | .occInsert vid v => (.val old.vid old.v, l.setVal old.k vid v, [])
  -- the stored KEY object is replaced, the old one handed back
  | .occInsertKey kid => (.key old.k old.kid, l.setKid old.k kid, [])
  | .andModify nv => (.elem { old with v := nv }, l.setPayload old.k nv, [])
  | .replaceEntryWith true nv => (.entOcc { old with v := nv }, l.setPayload old.k nv, [])
  | .replaceEntryWith false _ =>
    (.entVacRaw, l.erase old.k, keyDropEv cfg old.kid ++ valDropEv cfg old.vid)
  | .drop => (.none, l, [])

/-- Chain on a VACANT raw entry for key `k`. -/
def Map.RawChain.vacSpec (cfg : Cfg) (k : Nat) (c : Map.RawChain) (l : AL) :
    Map.EOut × AL × List Ev :=
  match c with
  | .insert kid vid v | .orInsert kid vid v | .vacInsert kid vid v | .vacInsertHashed kid vid v =>
    (.elem ⟨k, kid, vid, v⟩, ⟨k, kid, vid, v⟩ :: l, [])
  | .occInsert vid _ => (.none, l, valDropEv cfg vid)
  | .occInsertKey kid => (.none, l, keyDropEv cfg kid)
  | _ => (.none, l, [])

def Map.RawChain.inserted (k : Nat) : Map.RawChain → Option Elem
  | .insert kid vid v | .orInsert kid vid v | .vacInsert kid vid v | .vacInsertHashed kid vid v =>
    some ⟨k, kid, vid, v⟩
  | _ => none

/-- The chain stores with the caller-supplied hash (`insert_hashed_nocheck` / `insert_with_hasher`). -/
def Map.RawChain.UsesHash : Map.RawChain → Prop
  | .vacInsertHashed _ _ _ => True
  | _ => False

/-- **`raw_entry_mut()` builder + chain.** Added hypotheses = the documented contract of the
    `…hashed_nocheck` / `from_hash` / `insert_with_hasher` functions: a caller-supplied hash is the
    key's hash. -/
theorem rawEntry_chain_spec (hc : CfgOk cfg) {env : Env} {H : Nat → Nat} (hl : Lawful env H)
    (halloc : ∀ j, env.allocOk j = true) (hnd : ∀ c e, env.dropPanics c e = false)
    (mode : Map.RawMode) (ph k : Nat) (c : Map.RawChain) (hph : mode = .fromKey ∨ ph = H k)
    (hph2 : c.UsesHash → ph = H k) (w : World) (h : RI cfg H w.t) :
    match AL.find w.t.elems k with
    | some old =>
      ∃ w', Map.rawEntry cfg env mode ph k c w = .ok ((true, (c.occSpec cfg old w.t.elems).1), w') ∧
        RI cfg H w'.t ∧ List.Perm w'.t.elems (c.occSpec cfg old w.t.elems).2.1 ∧
        w'.log = (c.occSpec cfg old w.t.elems).2.2 ++ w.log
    | none =>
      (∃ w', Map.rawEntry cfg env mode ph k c w = .ok ((false, (c.vacSpec cfg k w.t.elems).1), w') ∧
        RI cfg H w'.t ∧ List.Perm w'.t.elems (c.vacSpec cfg k w.t.elems).2.1 ∧
        dropsOf w'.log = (c.vacSpec cfg k w.t.elems).2.2 ++ dropsOf w.log) ∨
      (∃ e w', c.inserted k = some e ∧ Map.rawEntry cfg env mode ph k c w = .panic "capacity" w' ∧
        w'.t = w.t ∧ w'.log = dropEvs cfg [e] ++ w.log) := by
  have hlook := rawLook_spec hc hl mode ph k hph w h.1
  cases hfind : AL.find w.t.elems k with
  | some old =>
    rw [hfind] at hlook
    obtain ⟨idx, w1, hlk, ht, he, hk, hlog⟩ := hlook
    have he1 : w1.t.slots[idx]?.join = some old := by rw [ht]; exact he
    have hRI1 : RI cfg H w1.t := by rw [ht]; exact h
    obtain ⟨hi, hf⟩ := en_live hRI1.1.toInv he1
    have hsz : idx < w1.t.ctrl.size := by have := hRI1.1.toInv.buckets_le_size hc; omega
    obtain ⟨t', hr, hRI', hp', _⟩ := en_removeAt_RI hc hRI1 he1
    have hset : ∀ e' : Elem, e'.k = old.k → RI cfg H (Map.slotSet w1.t idx e') :=
      fun e' hk => en_slotSet_RI hRI1 he1 e' hk
    rw [← ht, ← hlog]
    simp only [Map.rawEntry, hlk, Res.onPanic, en_bind_ok, slotGet_ok he1, liftE, rf_bind_ok]
    cases c with
    | insert kid vid v =>
      obtain ⟨w2, hdk, ht2, hlog2⟩ := en_dropKeyR_ok (cfg := cfg) hnd kid
        (Map.dropVal cfg old.vid { w1 with t := Map.slotSet w1.t idx { old with vid := vid, v := v } })
      simp only [hdk, rf_bind_ok, rf_pure]
      refine ⟨_, rfl, by rw [ht2, en_dropVal_t]; exact hset _ rfl,
        by rw [ht2, en_dropVal_t]; exact en_setVal_perm hRI1 he1 vid v, ?_⟩
      rw [hlog2, en_dropVal_log]
      simp only [Map.RawChain.occSpec, List.append_assoc]
    | orInsert kid vid v =>
      obtain ⟨w2, hdk, ht2, hlog2⟩ := en_dropKeyR_ok (cfg := cfg) hnd kid (Map.dropVal cfg vid w1)
      simp only [hdk, rf_bind_ok, rf_pure]
      refine ⟨_, rfl, by rw [ht2, en_dropVal_t]; exact hRI1,
        by rw [ht2, en_dropVal_t]; exact List.Perm.refl _, ?_⟩
      rw [hlog2, en_dropVal_log]
      simp only [Map.RawChain.occSpec, List.append_assoc]
    | vacInsert kid vid v =>
      obtain ⟨w2, hdk, ht2, hlog2⟩ := en_dropKeyR_ok (cfg := cfg) hnd kid (Map.dropVal cfg vid w1)
      simp only [hdk, rf_bind_ok, rf_pure]
      refine ⟨_, rfl, by rw [ht2, en_dropVal_t]; exact hRI1,
        by rw [ht2, en_dropVal_t]; exact List.Perm.refl _, ?_⟩
      rw [hlog2, en_dropVal_log]
      simp only [Map.RawChain.occSpec, List.append_assoc]
    | vacInsertHashed kid vid v =>
      obtain ⟨w2, hdk, ht2, hlog2⟩ := en_dropKeyR_ok (cfg := cfg) hnd kid (Map.dropVal cfg vid w1)
      simp only [hdk, rf_bind_ok, rf_pure]
      refine ⟨_, rfl, by rw [ht2, en_dropVal_t]; exact hRI1,
        by rw [ht2, en_dropVal_t]; exact List.Perm.refl _, ?_⟩
      rw [hlog2, en_dropVal_log]
      simp only [Map.RawChain.occSpec, List.append_assoc]
    | occRemove =>
      obtain ⟨w2, hdk, ht2, hlog2⟩ := en_dropKeyR_ok (cfg := cfg) hnd old.kid { w1 with t := t' }
      simp only [hr, rf_bind_ok, hdk, rf_pure]
      exact ⟨_, rfl, by rw [ht2]; exact hRI', by rw [ht2]; exact hp', hlog2⟩
    | occRemoveEntry =>
      simp only [hr, rf_bind_ok, rf_pure]
      exact ⟨_, rfl, hRI', hp', rfl⟩
    | occInsert vid v => exact ⟨_, rfl, hset _ rfl, en_setVal_perm hRI1 he1 vid v, rfl⟩
    | occInsertKey kid =>
      -- `insert_key` stores the caller's key object `(k, kid)`; under a lawful `Eq`, `k = old.k`
      have hke : ({ old with k := k, kid := kid } : Elem) = { old with kid := kid } := by rw [← hk]
      refine ⟨{ w1 with t := Map.slotSet w1.t idx { old with kid := kid } }, ?_, hset _ rfl,
        en_setKid_perm hRI1 he1 kid, rfl⟩
      show (Res.ok ((true, Map.EOut.key old.k old.kid),
        { w1 with t := Map.slotSet w1.t idx { old with k := k, kid := kid } }) : Map.EntRes) = _
      rw [hke]
      rfl
    | andModify nv => exact ⟨_, rfl, hset _ rfl, en_setPayload_perm hRI1 he1 nv, rfl⟩
    | replaceEntryWith keep nv =>
      cases keep with
      | true =>
        simp only [↓reduceIte, en_replace_keep hc hRI1.1.toInv he1 (fun it => { it with v := nv }),
          rf_bind_ok, rf_pure]
        exact ⟨_, rfl, hset _ rfl, en_setPayload_perm hRI1 he1 nv, rfl⟩
      | false =>
        obtain ⟨w2, hdk, ht2, hlog2⟩ := en_dropKeyR_ok (cfg := cfg) hnd old.kid
          (Map.dropVal cfg old.vid { w1 with t := t' })
        simp only [Bool.false_eq_true, ↓reduceIte, en_replace_none hsz hr, rf_bind_ok, hdk, rf_pure]
        refine ⟨_, rfl, by rw [ht2, en_dropVal_t]; exact hRI', by rw [ht2, en_dropVal_t]; exact hp', ?_⟩
        rw [hlog2, en_dropVal_log]
        simp only [Map.RawChain.occSpec, List.append_assoc]
    | drop => exact ⟨_, rfl, hRI1, List.Perm.refl _, rfl⟩
  | none =>
    rw [hfind] at hlook
    obtain ⟨w1, hlk, ht, hlog⟩ := hlook
    have hRI1 : RI cfg H w1.t := by rw [ht]; exact h
    have hfind1 : AL.find w1.t.elems k = none := by rw [ht]; exact hfind
    -- inserting with a hash that is `H k`, from a world with the same table and log as `w`
    have hput : ∀ (e : Elem) (w2 : World), e.k = k → w2.t = w.t → w2.log = w.log →
        (∃ w', ((Map.insOwned cfg env (H k) e w2).bind
            fun x => (.ok ((false, .elem e), x.2) : Map.EntRes)) = .ok ((false, .elem e), w') ∧
          RI cfg H w'.t ∧ List.Perm w'.t.elems (e :: w.t.elems) ∧
          dropsOf w'.log = [] ++ dropsOf w.log) ∨
        (∃ w', ((Map.insOwned cfg env (H k) e w2).bind
            fun x => (.ok ((false, .elem e), x.2) : Map.EntRes)) = .panic "capacity" w' ∧
          w'.t = w.t ∧ w'.log = dropEvs cfg [e] ++ w.log) := by
      intro e w2 hk ht2 hlog2
      rcases en_insOwned_spec hc hl halloc e w2 (by rw [ht2]; exact h)
          (by rw [hk, ht2]; exact hfind) with ⟨idx, w', hr, a1, a2, _, a4⟩ | hr
      · rw [hk] at hr
        exact Or.inl ⟨w', by rw [hr]; rfl, a1, by rw [← ht2]; exact a2, by rw [a4, hlog2]; rfl⟩
      · rw [hk] at hr
        exact Or.inr ⟨_, by rw [hr]; rfl, by rw [dropElemQuiet_t, ht2],
          by rw [dropElemQuiet_log, hlog2]⟩
    have hrehash : ∀ (kid vid v : Nat) (out : Map.EntRes),
        (((makeHash env k w1).onPanic (·.dropElemQuiet cfg ⟨k, kid, vid, v⟩)).bind fun x =>
          (Map.insOwned cfg env x.1 ⟨k, kid, vid, v⟩ x.2).bind fun y =>
            (.ok ((false, .elem ⟨k, kid, vid, v⟩), y.2) : Map.EntRes)) =
        (Map.insOwned cfg env (H k) ⟨k, kid, vid, v⟩ { w1 with hc := w1.hc + 1 }).bind fun y =>
            (.ok ((false, .elem ⟨k, kid, vid, v⟩), y.2) : Map.EntRes) := by
      intro kid vid v _
      rw [rf_makeHash_lawful hl]
      rfl
    simp only [Map.rawEntry, hlk, Res.onPanic, en_bind_ok]
    cases c with
    | insert kid vid v =>
      rcases hput ⟨k, kid, vid, v⟩ { w1 with hc := w1.hc + 1 } rfl ht hlog with
        ⟨w', hr, a1, a2, a3⟩ | ⟨w', hr, a1, a2⟩
      · exact Or.inl ⟨w', (hrehash kid vid v (.fault "")).trans hr, a1, a2, a3⟩
      · exact Or.inr ⟨_, w', rfl, (hrehash kid vid v (.fault "")).trans hr, a1, a2⟩
    | orInsert kid vid v =>
      rcases hput ⟨k, kid, vid, v⟩ { w1 with hc := w1.hc + 1 } rfl ht hlog with
        ⟨w', hr, a1, a2, a3⟩ | ⟨w', hr, a1, a2⟩
      · exact Or.inl ⟨w', (hrehash kid vid v (.fault "")).trans hr, a1, a2, a3⟩
      · exact Or.inr ⟨_, w', rfl, (hrehash kid vid v (.fault "")).trans hr, a1, a2⟩
    | vacInsert kid vid v =>
      rcases hput ⟨k, kid, vid, v⟩ { w1 with hc := w1.hc + 1 } rfl ht hlog with
        ⟨w', hr, a1, a2, a3⟩ | ⟨w', hr, a1, a2⟩
      · exact Or.inl ⟨w', (hrehash kid vid v (.fault "")).trans hr, a1, a2, a3⟩
      · exact Or.inr ⟨_, w', rfl, (hrehash kid vid v (.fault "")).trans hr, a1, a2⟩
    | vacInsertHashed kid vid v =>
      have hph' : ph = H k := hph2 trivial
      rw [hph']
      rcases hput ⟨k, kid, vid, v⟩ w1 rfl ht hlog with ⟨w', hr, a1, a2, a3⟩ | ⟨w', hr, a1, a2⟩
      · exact Or.inl ⟨w', hr, a1, a2, a3⟩
      · exact Or.inr ⟨_, w', rfl, hr, a1, a2⟩
    | occInsert vid v =>
      left
      refine ⟨_, rfl, by rw [en_dropVal_t]; exact hRI1, by rw [en_dropVal_t, ht]; exact List.Perm.refl _, ?_⟩
      rw [en_dropVal_log, en_dropsOf_val_log, hlog]; rfl
    | occInsertKey kid =>
      left
      obtain ⟨w2, hdk, ht2, hlog2⟩ := en_dropKeyR_ok (cfg := cfg) hnd kid w1
      refine ⟨w2, ?_, by rw [ht2]; exact hRI1, by rw [ht2, ht]; exact List.Perm.refl _, ?_⟩
      · show (dropKeyR cfg env kid w1).bind _ = _
        rw [hdk]; rfl
      · rw [hlog2, en_dropsOf_key_log, hlog]; rfl
    | occRemove => exact Or.inl ⟨w1, rfl, hRI1, by rw [ht]; exact List.Perm.refl _, by rw [hlog]; rfl⟩
    | occRemoveEntry => exact Or.inl ⟨w1, rfl, hRI1, by rw [ht]; exact List.Perm.refl _, by rw [hlog]; rfl⟩
    | andModify nv => exact Or.inl ⟨w1, rfl, hRI1, by rw [ht]; exact List.Perm.refl _, by rw [hlog]; rfl⟩
    | replaceEntryWith keep nv =>
      exact Or.inl ⟨w1, rfl, hRI1, by rw [ht]; exact List.Perm.refl _, by rw [hlog]; rfl⟩
    | drop => exact Or.inl ⟨w1, rfl, hRI1, by rw [ht]; exact List.Perm.refl _, by rw [hlog]; rfl⟩

/-! ## 13. unused Vacant `entry_ref` / raw entries -/

/-- **`entry_ref`**: a Vacant entry dropped unused leaves the whole table unchanged (and logs
    nothing: no key object was ever created). -/
theorem vacant_drop_noop_entryRef (hc : CfgOk cfg) {env : Env} {H : Nat → Nat} (hl : Lawful env H)
    (k newkid : Nat) (c : Map.EChain) (w : World) (h : InvL cfg H w.t)
    (habs : AL.find w.t.elems k = none) (hu : c.Unused) :
    ∃ out w', Map.entryRef cfg env k newkid c w = .ok ((false, out), w') ∧ w'.t = w.t ∧
      w'.log = w.log := by
  obtain ⟨r, w1, hf, ht, hlog, hor⟩ := en_find_spec hc hl k { w with hc := w.hc + 1 } h
  rcases hor with ⟨idx, old, rfl, he, hk, hfind⟩ | ⟨rfl, hfind⟩
  · have hfind : AL.find w.t.elems k = some old := hfind
    rw [habs] at hfind; cases hfind
  · rcases hu with rfl | rfl | rfl
    · refine ⟨.none, w1, ?_, ht, hlog⟩
      simp only [Map.entryRef, rf_makeHash_lawful hl, rf_bind_ok, hf, rf_pure, Res.onPanic, en_bind_ok]
      rfl
    · refine ⟨.qkey k, w1, ?_, ht, hlog⟩
      simp only [Map.entryRef, rf_makeHash_lawful hl, rf_bind_ok, hf, rf_pure, Res.onPanic, en_bind_ok]
    · refine ⟨.none, w1, ?_, ht, hlog⟩
      simp only [Map.entryRef, rf_makeHash_lawful hl, rf_bind_ok, hf, rf_pure, Res.onPanic, en_bind_ok]
      rfl

/-- **`raw_entry_mut`**: a Vacant raw entry dropped unused leaves the whole table unchanged. -/
theorem vacant_drop_noop_rawEntry (hc : CfgOk cfg) {env : Env} {H : Nat → Nat} (hl : Lawful env H)
    (mode : Map.RawMode) (ph k : Nat) (hph : mode = .fromKey ∨ ph = H k) (w : World)
    (h : InvL cfg H w.t) (habs : AL.find w.t.elems k = none) :
    ∃ w', Map.rawEntry cfg env mode ph k .drop w = .ok ((false, .none), w') ∧ w'.t = w.t ∧
      w'.log = w.log := by
  have hlook := rawLook_spec hc hl mode ph k hph w h
  rw [habs] at hlook
  obtain ⟨w1, hlk, ht, hlog⟩ := hlook
  refine ⟨w1, ?_, ht, hlog⟩
  simp only [Map.rawEntry, hlk, Res.onPanic, en_bind_ok]

/-! ## 14. robustness of the other entry points (every environment) -/

/-- Continuation of `entry_ref` after the look-up. -/
def en_refCont (cfg : Cfg) (env : Env) (k newkid : Nat) (c : Map.EChain) (h : Nat) (r : Option Nat)
    (w1 : World) : Map.EntRes :=
  match r, c with
  | some idx, .key => (liftE (slotGet w1.t idx)).bind fun old => .ok ((true, .qkey old.k), w1)
  | some idx, _ => Map.chainOcc cfg env idx c w1
  | none, .key => .ok ((false, .qkey k), w1)
  | none, .insert vid v =>
    (Map.insOwned cfg env h ⟨k, newkid, vid, v⟩ w1).bind fun (_, w2) => .ok ((false, .elem ⟨k, newkid, vid, v⟩), w2)
  | none, .orInsert vid v | none, .andModifyOrInsert _ vid v =>
    (Map.insOwned cfg env h ⟨k, newkid, vid, v⟩ w1).bind fun (_, w2) => .ok ((false, .val vid v), w2)
  | none, _ => .ok ((false, .none), Map.dropValOpt cfg c.heldVid w1)

theorem en_entryRef_eq (env : Env) (k newkid : Nat) (c : Map.EChain) (w : World) :
    Map.entryRef cfg env k newkid c w =
      ((en_search cfg env k w).onPanic (Map.dropValOpt cfg c.heldVid)).bind fun x =>
        en_refCont cfg env k newkid c x.1 x.2.1 x.2.2 := rfl

theorem en_insOwned_safe (hc : CfgOk cfg) (hg : GuardRuns cfg) (env : Env) (hash : Nat) (e : Elem)
    (w : World) (h : TInv cfg w.t) : en_Safe cfg (·.2) (Map.insOwned cfg env hash e w) := by
  unfold Map.insOwned
  have hsp := rawInsert_spec hc hc.probe env hash e w h
  cases hr : rawInsert cfg env hash e w with
  | ok x =>
    obtain ⟨idx, w'⟩ := x
    rw [hr] at hsp
    exact hsp.1
  | panic c w' =>
    rw [hr] at hsp
    show TInv cfg (w'.dropElemQuiet cfg e).t
    rw [dropElemQuiet_t]
    rcases hsp with ⟨_, rfl⟩ | ⟨_, _, hsp⟩
    · exact h
    · exact (hsp hg).1
  | abort => trivial
  | fault f => rw [hr] at hsp; exact hsp.elim

theorem en_makeHash_safe (env : Env) (k : Nat) (w : World) (h : TInv cfg w.t) :
    en_Safe cfg (·.2) (makeHash env k w) := by
  cases hh : env.hash w.hc k with
  | none => rw [ag_makeHash_none hh]; exact h
  | some hv => rw [ag_makeHash_some hh]; exact h

theorem en_search_safe (hc : CfgOk cfg) (env : Env) (k : Nat) (w : World) (h : TInv cfg w.t) :
    en_Safe cfg (·.2.2) (en_search cfg env k w) := by
  rcases en_search_total hc env k w h.1 with ⟨hv, r, w2, k1, k2, _⟩ | ⟨c, w', k1, k2, _⟩
  · rw [k1]; show TInv cfg w2.t; rw [k2]; exact h
  · rw [k1]; show TInv cfg w'.t; rw [k2]; exact h

/-- `entry` + chain, every environment. -/
theorem en_entry_safe (hc : CfgOk cfg) (hg : GuardRuns cfg) (env : Env) (k kid : Nat)
    (c : Map.EChain) (w : World) (h : TInv cfg w.t) :
    en_Safe cfg (·.2) (Map.entry cfg env k kid c w) := by
  have hl := en_entryLook_total hc env k kid w h.1
  unfold Map.entry
  cases hr : Map.entryLook cfg env k kid w with
  | ok x =>
    obtain ⟨⟨hv, r⟩, w1⟩ := x
    rw [hr] at hl
    simp only [Res.onPanic, Res.bind]
    cases r with
    | none =>
      have a1 : TInv cfg w1.t := by rw [hl.1]; exact h
      exact en_chainVac_safe env _ k kid c w1 a1 (fun e => en_insOwned_safe hc hg env hv e w1 a1)
    | some idx =>
      obtain ⟨a1, e, a2⟩ := hl
      exact en_chainOcc_safe hc env idx c w1 (by rw [a1]; exact h) (by rw [a1]; exact a2)
  | panic c' w' =>
    rw [hr] at hl
    simp only [Res.onPanic, Res.bind]
    show TInv cfg (Map.dropValOpt cfg _ w').t
    rw [en_dropValOpt_t, hl]; exact h
  | abort => rw [hr] at hl; exact hl.elim
  | fault f => rw [hr] at hl; exact hl.elim

/-- `try_insert`, every environment. -/
theorem en_tryInsert_safe (hc : CfgOk cfg) (hg : GuardRuns cfg) (env : Env) (e : Elem) (w : World)
    (h : TInv cfg w.t) : en_Safe cfg (·.2) (Map.tryInsert cfg env e w) := by
  have hl := en_entryLook_total hc env e.k e.kid w h.1
  unfold Map.tryInsert
  cases hr : Map.entryLook cfg env e.k e.kid w with
  | ok x =>
    obtain ⟨⟨hv, r⟩, w1⟩ := x
    rw [hr] at hl
    simp only [Res.onPanic, Res.bind]
    cases r with
    | none =>
      have a1 : TInv cfg w1.t := by rw [hl.1]; exact h
      exact (en_insOwned_safe hc hg env hv e w1 a1).bind (fun a ha => ha)
    | some idx =>
      obtain ⟨a1, x, a2⟩ := hl
      have a2' : w1.t.slots[idx]?.join = some x := by rw [a1]; exact a2
      simp only [slotGet_ok a2', liftE]
      show TInv cfg w1.t
      rw [a1]; exact h
  | panic c' w' =>
    rw [hr] at hl
    simp only [Res.onPanic, Res.bind]
    show TInv cfg (Map.dropVal cfg _ w').t
    rw [en_dropVal_t, hl]; exact h
  | abort => rw [hr] at hl; exact hl.elim
  | fault f => rw [hr] at hl; exact hl.elim

/-- `entry_ref` + chain, every environment. -/
theorem en_entryRef_safe (hc : CfgOk cfg) (hg : GuardRuns cfg) (env : Env) (k newkid : Nat)
    (c : Map.EChain) (w : World) (h : TInv cfg w.t) :
    en_Safe cfg (·.2) (Map.entryRef cfg env k newkid c w) := by
  rw [en_entryRef_eq]
  rcases en_search_total hc env k w h.1 with ⟨hv, r, w1, k1, k2, _, k4⟩ | ⟨c', w', k1, k2, _⟩
  · rw [k1]
    simp only [Res.onPanic, en_bind_ok]
    have a1 : TInv cfg w1.t := by rw [k2]; exact h
    have hins : ∀ (e : Elem) (out : Map.EOut), en_Safe cfg (·.2)
        ((Map.insOwned cfg env hv e w1).bind fun x => (.ok ((false, out), x.2) : Map.EntRes)) :=
      fun e out => (en_insOwned_safe hc hg env hv e w1 a1).bind (fun a ha => ha)
    cases r with
    | some idx =>
      obtain ⟨x, hx⟩ := k4 idx rfl
      have hx1 : w1.t.slots[idx]?.join = some x := by rw [k2]; exact hx
      have hocc := en_chainOcc_safe hc env idx c w1 a1 hx1
      cases c
      case key =>
        simp only [en_refCont, slotGet_ok hx1, liftE, en_bind_ok]
        exact a1
      all_goals exact hocc
    | none =>
      cases c
      case key => exact a1
      case insert vid v => exact hins _ _
      case orInsert vid v => exact hins _ _
      case andModifyOrInsert nv vid v => exact hins _ _
      all_goals
        show TInv cfg (Map.dropValOpt cfg _ w1).t
        rw [en_dropValOpt_t]; exact a1
  · rw [k1]
    show TInv cfg (Map.dropValOpt cfg _ w').t
    rw [en_dropValOpt_t, k2]; exact h

theorem en_rawLook_total (hc : CfgOk cfg) (env : Env) (mode : Map.RawMode) (ph k : Nat) (w : World)
    (h : Inv cfg w.t) :
    match Map.rawLook cfg env mode ph k w with
    | .ok (some idx, w') => w'.t = w.t ∧ ∃ e, w.t.slots[idx]?.join = some e
    | .ok (none, w') => w'.t = w.t
    | .panic _ w' => w'.t = w.t
    | .abort => False
    | .fault _ => False := by
  have key : ∀ (hv : Nat) (w0 : World), w0.t = w.t →
      match find cfg env hv k w0 with
      | .ok (some idx, w') => w'.t = w.t ∧ ∃ e, w.t.slots[idx]?.join = some e
      | .ok (none, w') => w'.t = w.t
      | .panic _ w' => w'.t = w.t
      | .abort => False
      | .fault _ => False := by
    intro hv w0 h0
    rcases find_total hc hc.probe env hv k w0 (by rw [h0]; exact h) with
      ⟨r, w', k1, k2, _, _, k5⟩ | ⟨w', k1, k2, _⟩
    · rw [k1]
      cases r with
      | none => exact k2.trans h0
      | some idx => exact ⟨k2.trans h0, by rw [← h0]; exact (k5 idx rfl).2.2⟩
    · rw [k1]; exact k2.trans h0
  unfold Map.rawLook
  by_cases hm : mode = .fromKey
  · simp only [hm, if_true]
    cases hh : env.hash w.hc k with
    | none => simp only [ag_makeHash_none hh, rf_bind_panic]
    | some hv =>
      simp only [ag_makeHash_some hh, rf_bind_ok]
      exact key hv _ rfl
  · simp only [hm, if_false, rf_pure, rf_bind_ok]
    exact key ph w rfl

/-- `raw_entry_mut` + chain, every environment (any caller-supplied hash, right or wrong). -/
theorem en_rawEntry_safe (hc : CfgOk cfg) (hg : GuardRuns cfg) (env : Env) (mode : Map.RawMode)
    (ph k : Nat) (c : Map.RawChain) (w : World) (h : TInv cfg w.t) :
    en_Safe cfg (·.2) (Map.rawEntry cfg env mode ph k c w) := by
  have hl := en_rawLook_total hc env mode ph k w h.1
  unfold Map.rawEntry
  cases hr : Map.rawLook cfg env mode ph k w with
  | ok x =>
    obtain ⟨r, w1⟩ := x
    rw [hr] at hl
    simp only [Res.onPanic, en_bind_ok]
    cases r with
    | some idx =>
      obtain ⟨a1, old, a2⟩ := hl
      have hT : TInv cfg w1.t := by rw [a1]; exact h
      have he : w1.t.slots[idx]?.join = some old := by rw [a1]; exact a2
      obtain ⟨hi, hf⟩ := en_live hT.1 he
      have hsz : idx < w1.t.ctrl.size := by have := hT.1.buckets_le_size hc; omega
      obtain ⟨t', hrm, hT', _, _⟩ := en_removeAt_TInv hc hT he
      have hset : ∀ e' : Elem, TInv cfg (Map.slotSet w1.t idx e') := fun e' => en_slotSet_TInv hT he e'
      have hdk : ∀ (kid : Nat) (w0 : World) (out : Map.EOut), TInv cfg w0.t →
          en_Safe cfg (·.2) ((dropKeyR cfg env kid w0).bind fun w2 =>
            (.ok ((true, out), w2) : Map.EntRes)) :=
        fun kid w0 out h0 => (en_dropKeyR_safe env kid w0 h0).bind (fun a ha => ha)
      simp only [slotGet_ok he, liftE, rf_bind_ok]
      cases c with
      | insert kid vid v => exact hdk _ _ _ (by rw [en_dropVal_t]; exact hset _)
      | orInsert kid vid v => exact hdk _ _ _ (by rw [en_dropVal_t]; exact hT)
      | vacInsert kid vid v => exact hdk _ _ _ (by rw [en_dropVal_t]; exact hT)
      | vacInsertHashed kid vid v => exact hdk _ _ _ (by rw [en_dropVal_t]; exact hT)
      | occRemove =>
        simp only [hrm, rf_bind_ok]
        exact hdk _ _ _ hT'
      | occRemoveEntry =>
        simp only [hrm, rf_bind_ok]
        exact hT'
      | occInsert vid v => exact hset _
      | occInsertKey kid => exact hset _
      | andModify nv => exact hset _
      | replaceEntryWith keep nv =>
        cases keep with
        | true =>
          simp only [↓reduceIte, en_replace_keep hc hT.1 he (fun it => { it with v := nv }), rf_bind_ok]
          exact hset _
        | false =>
          simp only [Bool.false_eq_true, ↓reduceIte, en_replace_none hsz hrm, rf_bind_ok]
          exact hdk _ _ _ (by rw [en_dropVal_t]; exact hT')
      | drop => exact hT
    | none =>
      have hT : TInv cfg w1.t := by rw [hl]; exact h
      have hhash : ∀ (e : Elem), en_Safe cfg (·.2)
          (((makeHash env k w1).onPanic (·.dropElemQuiet cfg e)).bind fun x =>
            (Map.insOwned cfg env x.1 e x.2).bind fun y =>
              (.ok ((false, .elem e), y.2) : Map.EntRes)) := by
        intro e
        refine ((en_makeHash_safe env k w1 hT).onPanic (fun w0 => dropElemQuiet_t w0 e)).bind ?_
        intro x hx
        exact (en_insOwned_safe hc hg env x.1 e x.2 hx).bind (fun a ha => ha)
      cases c with
      | insert kid vid v => exact hhash _
      | orInsert kid vid v => exact hhash _
      | vacInsert kid vid v => exact hhash _
      | vacInsertHashed kid vid v =>
        exact (en_insOwned_safe hc hg env ph _ w1 hT).bind (fun a ha => ha)
      | occInsert vid v => show TInv cfg (Map.dropVal cfg _ w1).t; rw [en_dropVal_t]; exact hT
      | occInsertKey kid => exact (en_dropKeyR_safe env kid w1 hT).bind (fun a ha => ha)
      | occRemove => exact hT
      | occRemoveEntry => exact hT
      | andModify nv => exact hT
      | replaceEntryWith keep nv => exact hT
      | drop => exact hT
  | panic c' w' =>
    rw [hr] at hl
    simp only [Res.onPanic, Res.bind]
    show TInv cfg (Map.dropHeldQuiet cfg _ w').t
    rw [en_dropHeldQuiet_t, hl]; exact h
  | abort => rw [hr] at hl; exact hl.elim
  | fault f => rw [hr] at hl; exact hl.elim

/-- The `insert` loop of `extend` / `from_iter`, every environment. -/
theorem en_insertMany_safe (hc : CfgOk cfg) (hg : GuardRuns cfg) (env : Env) :
    ∀ (items : List Elem) (w : World), TInv cfg w.t → en_Safe cfg id (Map.insertMany cfg env items w) := by
  intro items
  induction items with
  | nil => intro w h; exact h
  | cons e rest ih =>
    intro w h
    have hins := Map.insert_inv hc hc.probe env e w h
    rw [Map.insertMany]
    cases hr : Map.insert cfg env e w with
    | ok x =>
      obtain ⟨old, w1⟩ := x
      rw [hr] at hins
      simp only
      apply ih
      rw [en_dropValOpt_t]
      cases old with
      | none => exact hins.1
      | some p => obtain ⟨a, b⟩ := p; exact hins.1
    | panic c w' =>
      rw [hr] at hins
      show TInv cfg (Map.dropAllQuiet cfg rest w').t
      rw [en_dropAllQuiet_t]
      exact hins.2 (fun _ => hg)
    | abort => trivial
    | fault f => rw [hr] at hins; exact hins.elim

/-- `extend`, every environment. -/
theorem en_extend_safe (hc : CfgOk cfg) (hg : GuardRuns cfg) (env : Env) (items : List Elem)
    (w : World) (h : TInv cfg w.t) : en_Safe cfg id (Map.extend cfg env items w) := by
  unfold Map.extend
  have hres := reserve_spec hc hc.probe env
    (if w.t.items = 0 then items.length else (items.length + 1) / 2) w h
  have hsafe : en_Safe cfg id (Hb.reserve cfg env
      (if w.t.items = 0 then items.length else (items.length + 1) / 2) w) := by
    cases hr : Hb.reserve cfg env
        (if w.t.items = 0 then items.length else (items.length + 1) / 2) w with
    | ok w1 => rw [hr] at hres; exact hres.1
    | panic c w' =>
      rw [hr] at hres
      rcases hres with ⟨_, rfl⟩ | ⟨_, _, hres⟩
      · exact h
      · exact (hres hg).1
    | abort => trivial
    | fault f => rw [hr] at hres; exact hres.elim
  exact (hsafe.onPanic (en_dropAllQuiet_t items)).bind
    (fun w1 h1 => en_insertMany_safe hc hg env items w1 h1)

/-- Dropping a detached table leaves the collection's own table alone, whatever the destructors do. -/
theorem en_dropInnerTable_safe (hc : CfgOk cfg) (env : Env) (old : Raw) (w : World)
    (hold : TInv cfg old) (h : TInv cfg w.t) : en_Safe cfg id (dropInnerTable cfg env old w) := by
  have hsp := dropInnerTable_spec hc env old w hold
  cases hr : dropInnerTable cfg env old w with
  | ok w' => rw [hr] at hsp; show TInv cfg w'.t; rw [hsp.1]; exact h
  | panic c w' => rw [hr] at hsp; show TInv cfg w'.t; rw [hsp.2.1]; exact h
  | abort => trivial
  | fault f => rw [hr] at hsp; exact hsp.elim

theorem en_withCapacity_safe (hc : CfgOk cfg) (env : Env) (n : Nat) (w : World) (h : TInv cfg w.t) :
    en_Safe cfg id (withCapacity cfg env n w) := by
  have hsp := withCapacity_spec hc env n w
  cases hr : withCapacity cfg env n w with
  | ok w' => rw [hr] at hsp; exact hsp.1
  | panic c w' => rw [hr] at hsp; show TInv cfg w'.t; rw [hsp.2]; exact h
  | abort => trivial
  | fault f => rw [hr] at hsp; exact hsp.elim

/-- `*m = HashMap::from_iter(vec)`, every environment. -/
theorem en_fromIter_safe (hc : CfgOk cfg) (hg : GuardRuns cfg) (env : Env) (items : List Elem)
    (w : World) (h : TInv cfg w.t) : en_Safe cfg id (Map.fromIter cfg env items w) := by
  unfold Map.fromIter
  refine ((en_dropInnerTable_safe hc env w.t { w with t := Raw.new cfg.W } h (TInv.new hc)).onPanic
    (en_dropAllQuiet_t items)).bind ?_
  intro w1 h1
  refine ((en_withCapacity_safe hc env items.length w1 h1).onPanic (en_dropAllQuiet_t items)).bind ?_
  intro w2 h2
  have hm := en_insertMany_safe hc hg env items w2 h2
  cases hr : Map.insertMany cfg env items w2 with
  | ok w3 => rw [hr] at hm; exact hm
  | panic c w' =>
    rw [hr] at hm
    have hd := en_dropInnerTable_safe hc (Map.quietEnv env) w'.t { w' with t := Raw.new cfg.W } hm
      (TInv.new hc)
    simp only
    cases hr2 : dropInnerTable cfg (Map.quietEnv env) w'.t { w' with t := Raw.new cfg.W } with
    | ok w'' => rw [hr2] at hd; exact hd
    | panic c2 w'' => rw [hr2] at hd; exact hd
    | abort => trivial
    | fault f => rw [hr2] at hd; exact hd.elim
  | abort => trivial
  | fault f => rw [hr] at hm; exact hm.elim

/-- **No entry point ever reaches undefined behaviour, whatever the callbacks do.** For every
    environment (hashers and comparisons that answer inconsistently or panic, panicking
    destructors, a refusing allocator), every table satisfying the structural invariant — full,
    tombstone-saturated, or the unallocated singleton — and every chain: `entry`, `entry_ref`,
    `raw_entry_mut` (with ANY caller-supplied hash), `try_insert`, `extend`, `from_iter` never
    `.fault`, and the invariant holds after normal return and after unwinding. -/
theorem entry_no_fault (hc : CfgOk cfg) (hg : GuardRuns cfg) (env : Env) (w : World)
    (h : TInv cfg w.t) :
    (∀ k kid c, en_Safe cfg (·.2) (Map.entry cfg env k kid c w)) ∧
    (∀ k newkid c, en_Safe cfg (·.2) (Map.entryRef cfg env k newkid c w)) ∧
    (∀ mode ph k c, en_Safe cfg (·.2) (Map.rawEntry cfg env mode ph k c w)) ∧
    (∀ k kid c, en_Safe cfg (·.2) (Map.rustcEntry cfg env k kid c w)) ∧
    (∀ e, en_Safe cfg (·.2) (Map.tryInsert cfg env e w)) ∧
    (∀ items, en_Safe cfg id (Map.extend cfg env items w)) ∧
    (∀ items, en_Safe cfg id (Map.fromIter cfg env items w)) :=
  ⟨fun k kid c => en_entry_safe hc hg env k kid c w h,
   fun k newkid c => en_entryRef_safe hc hg env k newkid c w h,
   fun mode ph k c => en_rawEntry_safe hc hg env mode ph k c w h,
   fun k kid c => en_rustcEntry_safe hc hg env k kid c w h,
   fun e => en_tryInsert_safe hc hg env e w h,
   fun items => en_extend_safe hc hg env items w h,
   fun items => en_fromIter_safe hc hg env items w h⟩

/-! ## 15. `extend` / `from_iter` = folding `insert` -/

/-- `insert(e.k, e.v)` on the abstract map: a present key keeps its stored key object and gets the
    new value; an absent key is added. -/
def AL.insertOne (l : AL) (e : Elem) : AL :=
  match l.find e.k with
  | some _ => l.setVal e.k e.vid e.v
  | none => e :: l

/-- Folding `insert` over the items, in order (so for duplicate keys the LAST value wins and the
    FIRST key object is kept). -/
def AL.insertAll (l : AL) (items : List Elem) : AL := items.foldl AL.insertOne l

/-- Destructor events of that fold, newest first: each time a key was already present, the spare
    key object and then the replaced value are dropped. -/
def AL.insertDrops (cfg : Cfg) : AL → List Elem → List Ev
  | _, [] => []
  | l, e :: rest =>
    AL.insertDrops cfg (l.insertOne e) rest ++
      (match l.find e.k with
       | some old => valDropEv cfg old.vid ++ keyDropEv cfg e.kid
       | none => [])

theorem en_insertOne_perm {l l' : AL} (hp : List.Perm l l') (hn : l.keysNodup) (e : Elem) :
    List.Perm (l.insertOne e) (l'.insertOne e) := by
  unfold AL.insertOne
  rw [← AL.perm_find hp hn e.k]
  cases l.find e.k with
  | none => exact hp.cons e
  | some _ => exact AL.perm_setVal hp _ _ _

theorem en_insertOne_nodup {l : AL} (hn : l.keysNodup) (e : Elem) : (l.insertOne e).keysNodup := by
  unfold AL.insertOne
  cases hf : l.find e.k with
  | none => exact AL.keysNodup_cons hn hf
  | some _ => exact AL.keysNodup_setVal hn _ _ _

theorem en_insertAll_perm (items : List Elem) : ∀ {l l' : AL}, List.Perm l l' → l.keysNodup →
    List.Perm (l.insertAll items) (l'.insertAll items) ∧
      AL.insertDrops cfg l items = AL.insertDrops cfg l' items := by
  induction items with
  | nil => intro l l' hp _; exact ⟨hp, rfl⟩
  | cons e rest ih =>
    intro l l' hp hn
    have h1 := ih (en_insertOne_perm hp hn e) (en_insertOne_nodup hn e)
    refine ⟨h1.1, ?_⟩
    show AL.insertDrops cfg (l.insertOne e) rest ++ _ = AL.insertDrops cfg (l'.insertOne e) rest ++ _
    rw [h1.2, ← AL.perm_find hp hn e.k]

/-- The `insert` loop of `extend` / `from_iter` under a lawful environment. -/
theorem insertMany_spec (hc : CfgOk cfg) {env : Env} {H : Nat → Nat} (hl : Lawful env H)
    (halloc : ∀ j, env.allocOk j = true) (hnd : ∀ c e, env.dropPanics c e = false) :
    ∀ (items : List Elem) (w : World), RI cfg H w.t →
      (∃ w', Map.insertMany cfg env items w = .ok w' ∧ RI cfg H w'.t ∧
        List.Perm w'.t.elems (AL.insertAll w.t.elems items) ∧
        dropsOf w'.log = AL.insertDrops cfg w.t.elems items ++ dropsOf w.log) ∨
      (∃ w', Map.insertMany cfg env items w = .panic "capacity" w' ∧ RI cfg H w'.t) := by
  intro items
  induction items with
  | nil => intro w h; exact Or.inl ⟨w, rfl, h, List.Perm.refl _, rfl⟩
  | cons e rest ih =>
    intro w h
    have hn := elems_keysNodup h.1
    rw [Map.insertMany]
    rcases insert_refines hc (growthLawful hc hc.probe) hl halloc hnd e w h with
      ⟨r, w1, hr, hRI1, hm⟩ | ⟨w', hr, ht, _⟩
    · rw [hr]
      simp only
      -- the state after this `insert` (+ drop of the replaced value), against the abstract step
      have hstep : List.Perm (Map.dropValOpt cfg (r.map (·.1)) w1).t.elems (AL.insertOne w.t.elems e) ∧
          dropsOf (Map.dropValOpt cfg (r.map (·.1)) w1).log =
            (match AL.find w.t.elems e.k with
             | some old => valDropEv cfg old.vid ++ keyDropEv cfg e.kid
             | none => []) ++ dropsOf w.log := by
        rw [en_dropValOpt_t, en_dropValOpt_log, en_dropsOf_append, en_dropsOf_valDropEvOpt]
        unfold AL.insertOne
        cases hf : AL.find w.t.elems e.k with
        | none =>
          rw [hf] at hm
          obtain ⟨rfl, hp, hd⟩ := hm
          exact ⟨hp, by rw [hd]; rfl⟩
        | some old =>
          rw [hf] at hm
          obtain ⟨rfl, hp, hd⟩ := hm
          refine ⟨hp, ?_⟩
          rw [hd]
          show valDropEv cfg old.vid ++ (keyDropEv cfg e.kid ++ dropsOf w.log) = _
          rw [List.append_assoc]
      have hRI1' : RI cfg H (Map.dropValOpt cfg (r.map (·.1)) w1).t := by
        rw [en_dropValOpt_t]; exact hRI1
      rcases ih _ hRI1' with ⟨w', hr', hRI', hp', hd'⟩ | ⟨w', hr', hRI'⟩
      · left
        have htr := en_insertAll_perm (cfg := cfg) rest hstep.1 (elems_keysNodup hRI1'.1)
        refine ⟨w', hr', hRI', hp'.trans htr.1, ?_⟩
        rw [hd', hstep.2, htr.2, ← List.append_assoc]
        rfl
      · exact Or.inr ⟨w', hr', hRI'⟩
    · right
      rw [hr]
      exact ⟨_, rfl, by rw [en_dropAllQuiet_t, ht]; exact h⟩

theorem en_extend_eq (env : Env) (items : List Elem) (w : World) :
    Map.extend cfg env items w =
      ((Hb.reserve cfg env (extendReserve (w.t.items == 0) items.length) w).onPanic
        (Map.dropAllQuiet cfg items)).bind fun w1 => Map.insertMany cfg env items w1 := by
  unfold Map.extend extendReserve
  by_cases h0 : w.t.items = 0 <;> simp [h0]

/-- **`extend`** = folding `insert` over the items; the up-front `reserve(extendReserve …)` only
    affects the capacity. (Other outcome: capacity overflow of a `reserve`, invariant kept.) -/
theorem extend_spec (hc : CfgOk cfg) {env : Env} {H : Nat → Nat} (hl : Lawful env H)
    (halloc : ∀ j, env.allocOk j = true) (hnd : ∀ c e, env.dropPanics c e = false)
    (items : List Elem) (w : World) (h : RI cfg H w.t) :
    (∃ w', Map.extend cfg env items w = .ok w' ∧ RI cfg H w'.t ∧
      List.Perm w'.t.elems (AL.insertAll w.t.elems items) ∧
      dropsOf w'.log = AL.insertDrops cfg w.t.elems items ++ dropsOf w.log) ∨
    (∃ w', Map.extend cfg env items w = .panic "capacity" w' ∧ RI cfg H w'.t) := by
  rw [en_extend_eq]
  rcases reserve_RI hc (growthLawful hc hc.probe) hl halloc
      (extendReserve (w.t.items == 0) items.length) w h with ⟨w1, hr, hRI1, hp1, _, hd1⟩ | hr
  · rw [hr]
    simp only [Res.onPanic, en_bind_ok]
    rcases insertMany_spec hc hl halloc hnd items w1 hRI1 with ⟨w', hr', hRI', hp', hd'⟩ | ⟨w', hr', hRI'⟩
    · left
      have htr := en_insertAll_perm (cfg := cfg) items hp1 (elems_keysNodup hRI1.1)
      exact ⟨w', hr', hRI', hp'.trans htr.1, by rw [hd', htr.2, hd1]⟩
    · exact Or.inr ⟨w', hr', hRI'⟩
  · right
    rw [hr]
    exact ⟨_, rfl, by rw [en_dropAllQuiet_t]; exact h⟩

theorem en_withCapacity_lawful (hc : CfgOk cfg) {env : Env} (halloc : ∀ j, env.allocOk j = true)
    (n : Nat) (w : World) :
    (∃ w', withCapacity cfg env n w = .ok w' ∧ TInv cfg w'.t ∧ w'.t.elems = [] ∧
      dropsOf w'.log = dropsOf w.log) ∨
    withCapacity cfg env n w = .panic "capacity" w := by
  unfold withCapacity
  have hfw := fallibleWithCapacity_spec hc env n .infallible w
  cases hr : fallibleWithCapacity cfg env n .infallible w with
  | ok pr =>
    obtain ⟨r, w1⟩ := pr
    rw [hr] at hfw
    cases r with
    | ok new =>
      have hlo := fallibleWithCapacity_layoutOk hc hr
      obtain ⟨a1, _, a3, _, a5⟩ := hfw
      left
      refine ⟨{ w1 with t := new }, rfl, ⟨a1, hlo⟩, a3, ?_⟩
      by_cases h0 : n = 0
      · rw [if_pos h0] at a5; rw [a5.2]
      · rw [if_neg h0] at a5
        obtain ⟨_, _, _, _, _, _, l, _, b8⟩ := a5
        rw [b8]
        simp [dropsOf]
    | error e => exact absurd hfw.1 (by decide)
  | panic c w' =>
    rw [hr] at hfw
    obtain ⟨rfl, rfl, _⟩ := hfw
    exact Or.inr rfl
  | abort => rw [hr] at hfw; have := hfw.2.1; rw [halloc] at this; cases this
  | fault f => rw [hr] at hfw; exact hfw.elim

/-- **`from_iter`** (`*m = HashMap::from_iter(vec)`): the previous map is dropped (every element
    once, bucket order), then the result is the fold of `insert` over the items from the empty map;
    `with_capacity(len)` only affects the capacity. -/
theorem fromIter_spec (hc : CfgOk cfg) {env : Env} {H : Nat → Nat} (hl : Lawful env H)
    (halloc : ∀ j, env.allocOk j = true) (hnd : ∀ c e, env.dropPanics c e = false)
    (items : List Elem) (w : World) (h : RI cfg H w.t) :
    (∃ w', Map.fromIter cfg env items w = .ok w' ∧ RI cfg H w'.t ∧
      List.Perm w'.t.elems (AL.insertAll [] items) ∧
      dropsOf w'.log = AL.insertDrops cfg [] items ++ dropEvs cfg w.t.elems.reverse ++ dropsOf w.log) ∨
    (∃ w', Map.fromIter cfg env items w = .panic "capacity" w' ∧ w'.t = Raw.new cfg.W) := by
  simp only [Map.fromIter]
  have hsp := dropInnerTable_spec hc env w.t { w with t := Raw.new cfg.W } ⟨h.1.toInv, h.2⟩
  cases hr : dropInnerTable cfg env w.t { w with t := Raw.new cfg.W } with
  | ok w1 =>
    rw [hr] at hsp
    obtain ⟨ht1, hlog1, _⟩ := hsp
    have hd1 : dropsOf w1.log = dropEvs cfg w.t.elems.reverse ++ dropsOf w.log := by
      rw [hlog1]
      have hfree : ∀ l : List Ev, dropsOf ((if w.t.alloc = true then
          [Ev.free (layoutOf cfg w.t.buckets).size (layoutOf cfg w.t.buckets).align] else []) ++ l) =
          dropsOf l := by
        intro l; split <;> simp [dropsOf]
      rw [List.append_assoc, hfree, en_dropsOf_append]
      congr 1
      unfold dropEvs dropsOf
      split
      · rw [List.filter_eq_self]
        intro ev hev
        obtain ⟨x, _, hx⟩ := List.mem_flatMap.mp hev
        simp only [List.mem_cons, List.not_mem_nil, or_false] at hx
        rcases hx with rfl | rfl <;> rfl
      · rfl
    simp only [Res.onPanic, en_bind_ok]
    rcases en_withCapacity_lawful hc halloc items.length w1 with ⟨w2, hr2, hT2, hel2, hd2⟩ | hr2
    · rw [hr2]
      simp only [en_bind_ok]
      have hRI2 : RI cfg H w2.t := ⟨invL_of_empty H hT2.1 hel2, hT2.2⟩
      rcases insertMany_spec hc hl halloc hnd items w2 hRI2 with
        ⟨w', hr', hRI', hp', hd'⟩ | ⟨w', hr', hRI'⟩
      · left
        rw [hr']
        refine ⟨w', rfl, hRI', by rw [hel2] at hp'; exact hp', ?_⟩
        rw [hd', hel2, hd2, hd1, List.append_assoc]
      · right
        rw [hr']
        have hsp2 := dropInnerTable_spec hc (Map.quietEnv env) w'.t { w' with t := Raw.new cfg.W }
          ⟨hRI'.1.toInv, hRI'.2⟩
        cases hr3 : dropInnerTable cfg (Map.quietEnv env) w'.t { w' with t := Raw.new cfg.W } with
        | ok w'' =>
          rw [hr3] at hsp2
          refine ⟨w'', ?_, hsp2.1⟩
          simp only [hr3]
        | panic c w'' =>
          rw [hr3] at hsp2
          obtain ⟨_, _, _, _, ds, e, rest, _, _, hpan⟩ := hsp2
          simp [Map.quietEnv] at hpan
        | abort => rw [hr3] at hsp2; exact hsp2.elim
        | fault f => rw [hr3] at hsp2; exact hsp2.elim
    · right
      rw [hr2]
      exact ⟨_, rfl, by rw [en_dropAllQuiet_t]; exact ht1⟩
  | panic c w1 =>
    rw [hr] at hsp
    obtain ⟨_, _, _, _, ds, e, rest, _, _, hpan⟩ := hsp
    rw [hnd] at hpan; cases hpan
  | abort => rw [hr] at hsp; exact hsp.elim
  | fault f => rw [hr] at hsp; exact hsp.elim

/-! ## 15b. the same, directly against the plain `HashMap` calls of the model -/

/-- **Entry paths vs. the plain calls of the model**, run from the same state: the resulting maps
    have the same contents (same key AND value objects), Occupied ⇔ the plain call found the key,
    and the returned values agree — `entry(k).insert(v)` vs `insert(k, v)` (which hands the old
    value back instead of dropping it), `Occupied::remove()` vs `remove(k)`,
    `Occupied::remove_entry()` vs `remove_entry(k)`, `Occupied::get_mut()` write vs `get_mut(k)`. -/
theorem entry_matches_plain (hc : CfgOk cfg) {env : Env} {H : Nat → Nat} (hl : Lawful env H)
    (halloc : ∀ j, env.allocOk j = true) (hnd : ∀ c e, env.dropPanics c e = false) (k kid : Nat)
    (w : World) (h : RI cfg H w.t) :
    (∀ vid v b out w1 r w2, Map.entry cfg env k kid (.insert vid v) w = .ok ((b, out), w1) →
      Map.insert cfg env ⟨k, kid, vid, v⟩ w = .ok (r, w2) →
      List.Perm w1.t.elems w2.t.elems ∧ b = r.isSome ∧
        dropsOf w1.log = valDropEvOpt cfg (r.map (·.1)) ++ dropsOf w2.log) ∧
    (∀ b out w1 r w2, Map.entry cfg env k kid .occRemove w = .ok ((b, out), w1) →
      Map.remove cfg env k w = .ok (r, w2) →
      List.Perm w1.t.elems w2.t.elems ∧ b = r.isSome ∧ ∀ x, r = some x → out = .val x.1 x.2) ∧
    (∀ b out w1 r w2, Map.entry cfg env k kid .occRemoveEntry w = .ok ((b, out), w1) →
      Map.removeEntry cfg env k w = .ok (r, w2) →
      List.Perm w1.t.elems w2.t.elems ∧ b = r.isSome ∧ ∀ x, r = some x → out = .elem x) ∧
    (∀ nv b out w1 r w2, Map.entry cfg env k kid (.occGetMut nv) w = .ok ((b, out), w1) →
      Map.getMut cfg env k nv w = .ok (r, w2) →
      List.Perm w1.t.elems w2.t.elems ∧ b = r.isSome ∧ ∀ x, r = some x → out = .val x.vid x.v) := by
  refine ⟨?_, ?_, ?_, ?_⟩
  · intro vid v b out w1 r w2 h1 h2
    have hs := entry_chain_spec hc hl halloc hnd k kid (.insert vid v) w h
    rcases insert_refines hc (growthLawful hc hc.probe) hl halloc hnd ⟨k, kid, vid, v⟩ w h with
      ⟨r', w2', hr, _, hm⟩ | ⟨w2', hr, _⟩
    · rw [h2] at hr
      simp only [Res.ok.injEq, Prod.mk.injEq] at hr
      obtain ⟨rfl, rfl⟩ := hr
      cases hf : AL.find w.t.elems k with
      | some old =>
        rw [hf] at hs
        have hf' : AL.find w.t.elems (⟨k, kid, vid, v⟩ : Elem).k = some old := hf
        rw [hf'] at hm
        have hm' := hm
        obtain ⟨w', he, _, hp, hlog⟩ := hs
        rw [h1] at he
        simp only [Res.ok.injEq, Prod.mk.injEq] at he
        obtain ⟨⟨rfl, _⟩, rfl⟩ := he
        obtain ⟨rfl, hp2, hd2⟩ := hm'
        have hk : old.k = k := ((AL.find_some_iff (elems_keysNodup h.1)).mp hf).2
        refine ⟨?_, rfl, ?_⟩
        · have hp' : List.Perm w1.t.elems (AL.setVal w.t.elems old.k vid v) := hp
          rw [hk] at hp'
          exact hp'.trans hp2.symm
        · rw [hlog, hd2]
          show dropsOf (valDropEv cfg old.vid ++ keyDropEv cfg kid ++ w.log) =
            valDropEv cfg old.vid ++ (keyDropEv cfg kid ++ dropsOf w.log)
          rw [List.append_assoc, en_dropsOf_val_log, en_dropsOf_key_log]
      | none =>
        rw [hf] at hs
        have hf' : AL.find w.t.elems (⟨k, kid, vid, v⟩ : Elem).k = none := hf
        rw [hf'] at hm
        obtain ⟨rfl, hp2, hd2⟩ := hm
        rcases hs with ⟨w', he, _, hp, hd⟩ | ⟨e, w', _, he, _⟩
        · rw [h1] at he
          simp only [Res.ok.injEq, Prod.mk.injEq] at he
          obtain ⟨⟨rfl, _⟩, rfl⟩ := he
          refine ⟨hp.trans hp2.symm, rfl, ?_⟩
          rw [hd, hd2]; rfl
        · rw [h1] at he; cases he
    · rw [h2] at hr; cases hr
  · intro b out w1 r w2 h1 h2
    have hs := entry_chain_spec hc hl halloc hnd k kid .occRemove w h
    obtain ⟨w2', hr, hp2, _, _⟩ := remove_refines hc hl hnd k w h
    rw [h2] at hr
    simp only [Res.ok.injEq, Prod.mk.injEq] at hr
    obtain ⟨rfl, rfl⟩ := hr
    cases hf : AL.find w.t.elems k with
    | some old =>
      rw [hf] at hs
      obtain ⟨w', he, _, hp, _⟩ := hs
      rw [h1] at he
      simp only [Res.ok.injEq, Prod.mk.injEq] at he
      obtain ⟨⟨rfl, rfl⟩, rfl⟩ := he
      have hk : old.k = k := ((AL.find_some_iff (elems_keysNodup h.1)).mp hf).2
      refine ⟨?_, rfl, ?_⟩
      · have hp' : List.Perm w1.t.elems (AL.erase w.t.elems old.k) := hp
        rw [hk] at hp'
        exact hp'.trans hp2.symm
      · intro x hx
        simp only [Option.map_some, Option.some.injEq] at hx
        subst hx
        rfl
    | none =>
      rw [hf] at hs
      rcases hs with ⟨w', he, _, hp, _⟩ | ⟨e, w', hi, _⟩
      · rw [h1] at he
        simp only [Res.ok.injEq, Prod.mk.injEq] at he
        obtain ⟨⟨rfl, _⟩, rfl⟩ := he
        refine ⟨?_, rfl, fun x hx => by simp at hx⟩
        have hp' : List.Perm w1.t.elems w.t.elems := hp
        rw [rf_erase_absent hf] at hp2
        exact hp'.trans hp2.symm
      · cases hi
  · intro b out w1 r w2 h1 h2
    have hs := entry_chain_spec hc hl halloc hnd k kid .occRemoveEntry w h
    obtain ⟨w2', hr, hp2, _, _⟩ := removeEntry_refines hc hl k w h
    rw [h2] at hr
    simp only [Res.ok.injEq, Prod.mk.injEq] at hr
    obtain ⟨rfl, rfl⟩ := hr
    cases hf : AL.find w.t.elems k with
    | some old =>
      rw [hf] at hs
      obtain ⟨w', he, _, hp, _⟩ := hs
      rw [h1] at he
      simp only [Res.ok.injEq, Prod.mk.injEq] at he
      obtain ⟨⟨rfl, rfl⟩, rfl⟩ := he
      have hk : old.k = k := ((AL.find_some_iff (elems_keysNodup h.1)).mp hf).2
      refine ⟨?_, rfl, ?_⟩
      · have hp' : List.Perm w1.t.elems (AL.erase w.t.elems old.k) := hp
        rw [hk] at hp'
        exact hp'.trans hp2.symm
      · intro x hx
        cases hx
        rfl
    | none =>
      rw [hf] at hs
      rcases hs with ⟨w', he, _, hp, _⟩ | ⟨e, w', hi, _⟩
      · rw [h1] at he
        simp only [Res.ok.injEq, Prod.mk.injEq] at he
        obtain ⟨⟨rfl, _⟩, rfl⟩ := he
        refine ⟨?_, rfl, fun x hx => by cases hx⟩
        have hp' : List.Perm w1.t.elems w.t.elems := hp
        rw [rf_erase_absent hf] at hp2
        exact hp'.trans hp2.symm
      · cases hi
  · intro nv b out w1 r w2 h1 h2
    have hs := entry_chain_spec hc hl halloc hnd k kid (.occGetMut nv) w h
    obtain ⟨w2', hr, hp2, _, _⟩ := getMut_refines hc hl k nv w h
    rw [h2] at hr
    simp only [Res.ok.injEq, Prod.mk.injEq] at hr
    obtain ⟨rfl, rfl⟩ := hr
    cases hf : AL.find w.t.elems k with
    | some old =>
      rw [hf] at hs
      obtain ⟨w', he, _, hp, _⟩ := hs
      rw [h1] at he
      simp only [Res.ok.injEq, Prod.mk.injEq] at he
      obtain ⟨⟨rfl, rfl⟩, rfl⟩ := he
      have hk : old.k = k := ((AL.find_some_iff (elems_keysNodup h.1)).mp hf).2
      refine ⟨?_, rfl, ?_⟩
      · have hp' : List.Perm w1.t.elems (AL.setPayload w.t.elems old.k nv) := hp
        rw [hk] at hp'
        exact hp'.trans hp2.symm
      · intro x hx
        simp only [Option.map_some, Option.some.injEq] at hx
        subst hx
        rfl
    | none =>
      rw [hf] at hs
      rcases hs with ⟨w', he, _, hp, _⟩ | ⟨e, w', hi, _⟩
      · rw [h1] at he
        simp only [Res.ok.injEq, Prod.mk.injEq] at he
        obtain ⟨⟨rfl, _⟩, rfl⟩ := he
        refine ⟨?_, rfl, fun x hx => by simp at hx⟩
        have hp' : List.Perm w1.t.elems w.t.elems := hp
        have hsp : AL.setPayload w.t.elems k nv = w.t.elems := by
          unfold AL.setPayload
          conv => rhs; rw [← List.map_id w.t.elems]
          apply List.map_congr_left
          intro x hx
          have := AL.find_none_iff.mp hf x hx
          simp [this]
        rw [hsp] at hp2
        exact hp'.trans hp2.symm
      · cases hi

/-! ## 16. non-vacuity: a FULL 4-bucket table (3 elements, `growth_left = 0`), SSE2 scanner -/

def enCfg : Cfg := { ops := Sse2.ops }

/-- 4 buckets (`< W = 16`: real bytes, EMPTY padding, mirror), keys 1, 2, 3 (`H k = k`, tag 0) in
    their home buckets, bucket 0 EMPTY, `capacity() = len() = 3`. -/
def enTable : Raw :=
  { mask := 3
    ctrl := #[255, 0, 0, 0, 255, 255, 255, 255, 255, 255, 255, 255, 255, 255, 255, 255,
              255, 0, 0, 0]
    slots := #[none, some ⟨1, 11, 21, 100⟩, some ⟨2, 12, 22, 200⟩, some ⟨3, 13, 23, 300⟩]
    items := 3, gl := 0, alloc := true }

theorem enTable_full :
    invLB enCfg (fun k => k) enTable = true ∧ enTable.gl = 0 ∧ enTable.items = 3 := by decide

/-- `entry(5).insert(..)` on the full table: Vacant, `RawTable::insert` grows to 8 buckets. -/
theorem entry_insert_full_example :
    (match Map.entry enCfg glEnv 5 15 (.insert 25 500) { t := enTable } with
     | .ok ((b, .elem e), w') =>
       !b && e == ⟨5, 15, 25, 500⟩ && w'.t.items == 4 && w'.t.buckets == 8 &&
         invLB enCfg (fun k => k) w'.t && dropsOf w'.log == []
     | _ => false) = true := by decide

/-- `rustc_entry(5)` + `VacantEntry::insert` on the full table: `reserve(1)` inside `rustc_entry`
    grows the table, `insert_no_grow` then has room. -/
theorem rustcEntry_vacInsert_full_example :
    (match Map.rustcEntry enCfg glEnv 5 15 (.vacInsert 25 500) { t := enTable } with
     | .ok ((b, .val vid v), w') =>
       !b && vid == 25 && v == 500 && w'.t.items == 4 && w'.t.buckets == 8 &&
         invLB enCfg (fun k => k) w'.t && dropsOf w'.log == []
     | _ => false) = true := by decide

/-- A Vacant `rustc_entry` dropped unused on the full table: same contents and `len`, larger
    capacity; a Vacant `entry` dropped unused: nothing changes at all. -/
theorem vacant_drop_full_example :
    (match Map.rustcEntry enCfg glEnv 5 15 .drop { t := enTable } with
     | .ok ((b, .none), w') =>
       !b && w'.t.items == 3 && w'.t.buckets == 8 && w'.t.gl == 4 && w'.t.elems == enTable.elems &&
         dropsOf w'.log == [Ev.dropK 15]
     | _ => false) = true ∧
    (match Map.entry enCfg glEnv 5 15 .drop { t := enTable } with
     | .ok ((b, .none), w') =>
       !b && w'.t.items == 3 && w'.t.gl == 0 && w'.t.mask == 3 && w'.t.ctrl == enTable.ctrl &&
         w'.t.slots == enTable.slots && w'.log == [Ev.dropK 15]
     | _ => false) = true := by decide

/-- `raw_entry_mut().from_hash(h, eq)` + `insert_key`: the stored KEY object is replaced, the old
    one returned; no growth although the table is full. -/
theorem rawEntry_insertKey_full_example :
    (match Map.rawEntry enCfg glEnv .fromHash 2 2 (.occInsertKey 99) { t := enTable } with
     | .ok ((b, .key k kid), w') =>
       b && k == 2 && kid == 12 && w'.t.slots[2]? == some (some ⟨2, 99, 22, 200⟩) &&
         w'.t.items == 3 && w'.t.gl == 0 && w'.t.buckets == 4 && invLB enCfg (fun k => k) w'.t &&
         w'.log == []
     | _ => false) = true := by decide

/-- The hash hypothesis of `rawLook_spec` is needed: with a hash that is not the key's hash
    (different tag) `from_hash` reports Vacant for the PRESENT key 2. -/
theorem rawLook_wrong_hash_misses :
    (match Map.rawLook enCfg glEnv .fromHash (2 ^ 57) 2 { t := enTable } with
     | .ok (none, _) => true
     | _ => false) = true ∧
    (match Map.rawLook enCfg glEnv .fromHash 2 2 { t := enTable } with
     | .ok (some 2, _) => true
     | _ => false) = true ∧
    AL.find enTable.elems 2 = some ⟨2, 12, 22, 200⟩ := by decide

/-- Tombstone-saturated table (`f1Table`, Rehash.lean: 16 buckets, 6 elements, 8 tombstones,
    `growth_left = 0`): `entry(7).insert(..)` reuses a tombstone without growing (one hasher call);
    `rustc_entry(7)` runs `reserve(1)` = rehash in place (7 hasher calls), then `insert_no_grow`;
    `rustc_entry(3)` + `remove()` on a present key never reserves. -/
theorem entry_tombstone_saturated_example :
    invLB f1CfgFixed (fun k => k) f1Table = true ∧ f1Table.gl = 0 ∧
    (match Map.entry f1CfgFixed glEnv 7 15 (.insert 25 500) { t := f1Table } with
     | .ok ((b, .elem e), w') =>
       !b && e == ⟨7, 15, 25, 500⟩ && w'.t.items == 7 && w'.t.buckets == 16 && w'.t.gl == 0 &&
         invLB f1CfgFixed (fun k => k) w'.t && w'.hc == 1
     | _ => false) = true ∧
    (match Map.rustcEntry f1CfgFixed glEnv 7 15 (.insert 25 500) { t := f1Table } with
     | .ok ((b, .elem e), w') =>
       !b && e == ⟨7, 15, 25, 500⟩ && w'.t.items == 7 && w'.t.buckets == 16 && w'.t.gl == 7 &&
         invLB f1CfgFixed (fun k => k) w'.t && w'.hc == 7
     | _ => false) = true ∧
    (match Map.rustcEntry f1CfgFixed glEnv 3 15 .occRemove { t := f1Table } with
     | .ok ((b, .val vid v), w') =>
       b && vid == 3 && v == 3 && w'.t.items == 5 && invLB f1CfgFixed (fun k => k) w'.t && w'.hc == 1
     | _ => false) = true := by decide

/-- The unallocated singleton (`capacity() = len() = 0`). -/
theorem entry_singleton_example :
    (match Map.entry enCfg glEnv 5 15 (.orInsert 25 500) { t := Raw.new 16 } with
     | .ok ((b, .val vid v), w') =>
       !b && vid == 25 && v == 500 && w'.t.items == 1 && w'.t.buckets == 4 &&
         invLB enCfg (fun k => k) w'.t
     | _ => false) = true ∧
    (match Map.rustcEntry enCfg glEnv 5 15 (.insert 25 500) { t := Raw.new 16 } with
     | .ok ((b, .elem e), w') =>
       !b && e == ⟨5, 15, 25, 500⟩ && w'.t.items == 1 && invLB enCfg (fun k => k) w'.t
     | _ => false) = true ∧
    (match Map.entry enCfg glEnv 5 15 .drop { t := Raw.new 16 } with
     | .ok ((b, .none), w') => !b && w'.t.items == 0 && w'.t.mask == 0 && !w'.t.alloc
     | _ => false) = true := by decide

#print axioms rustcEntry_no_grow_safe
#print axioms entry_no_fault
#print axioms entryLook_spec
#print axioms rustcLook_spec
#print axioms rawLook_spec
#print axioms setEntryFind_spec
#print axioms entry_chain_spec
#print axioms rustcEntry_chain_spec
#print axioms entryRef_chain_spec
#print axioms rawEntry_chain_spec
#print axioms set_entry_spec
#print axioms tryInsert_spec
#print axioms vacant_drop_noop_entry
#print axioms vacant_drop_noop_rustcEntry
#print axioms vacant_drop_noop_entryRef
#print axioms vacant_drop_noop_rawEntry
#print axioms insertMany_spec
#print axioms extend_spec
#print axioms fromIter_spec
#print axioms entry_matches_plain
#print axioms entry_insert_full_example
#print axioms rustcEntry_vacInsert_full_example
#print axioms vacant_drop_full_example
#print axioms rawEntry_insertKey_full_example
#print axioms rawLook_wrong_hash_misses
#print axioms entry_tombstone_saturated_example
#print axioms entry_singleton_example

end Hb
