/-
The public iterator wrappers of `Hb/Model/IterWrap.lean` (property C09 for the PUBLIC types of
`src/map.rs`, `src/set.rs`, `src/table.rs`), for every table satisfying `Inv` under `CfgOk`.

Borrowing wrappers (`Wrap`, one constructor per Rust type; `Kind` names the type)
* `Wrap.next_eq`, `Wrap.fold_eq`, `Wrap.sizeHint_eq`, `Wrap.len_eq`, `Wrap.clone_eq`, `Wrap.new_eq`,
  `Wrap.default_eq`: the forwarding chain of every method collapses to the method of the innermost
  `RawIter` plus the projection `Kind.proj` (this is where "each impl forwards correctly" is checked).
* `wrapItems k t`      : what must be yielded: `t.fullList.map (proj k)`, one item per full bucket.
* `WrapOk cfg t w p`   : `w` has yielded the first `p` items.
* `wrap_next_all`, `wrap_fused`, `wrap_size_hint_exact`, `wrap_fold_eq_next`,
  `wrap_clone_independent`, `wrap_default_empty` (+ the state-level `wrap_next_ok`, `wrap_nextN_ok`,
  `wrap_fold_ok`).

Owning wrappers (`Own`, `OKind`)
* `OwnOk cfg t o p`    : the raw owning iterator has moved the first `p` elements out of `t`.
* `rawOwn_next_spec`, `own_next_none/some`, `intoKeys_next_drops`, `intoValues_next_drops` (steps),
  `own_nextN_spec` (n steps = the `takeLoop` of `Map.intoIter`/`Map.drain`),
* `own_run_eq` (step-wise model = monolithic `Map.intoIter` / `Map.drain`), `own_run_spec` (any cut
  point: yielded ++ dropped = stored, via `intoIter_spec` / `drain_spec`), `own_size_hint_exact`,
  `own_fold_spec` (total consumption), `own_default_empty`, `own_intoKeys_eq_entry` (cross-check with
  the monolithic `Map.intoKeys` of `Hb/Model/Entry.lean`).
  For `IntoValues` the run-level theorems assume `KeyDropsQuiet` (the key destructors that `next`
  runs do not panic); the step-level `intoValues_next_drops` covers the panicking case.
-/
import Hb.Proofs.ApiBulk
import Hb.Proofs.InvStep
import Hb.Model.IterWrap
namespace Hb
namespace IW

variable {cfg : Cfg} {t : Raw}

/-! ### every borrowing wrapper is its innermost `RawIter` plus a projection -/

/-- The `RawIter` at the bottom of the chain of `inner` fields. -/
def Wrap.raw : Wrap → RawIter
  | .mapIter x => x.inner
  | .mapIterMut x => x.inner
  | .mapKeys x => x.inner.inner
  | .mapValues x => x.inner.inner
  | .mapValuesMut x => x.inner.inner
  | .setIter x => x.iter.inner.inner
  | .tableIter x => x.inner
  | .tableIterMut x => x.inner

/-- Same wrapper type around another raw iterator. -/
def Wrap.setRaw : Wrap → RawIter → Wrap
  | .mapIter _, r => .mapIter ⟨r⟩
  | .mapIterMut _, r => .mapIterMut ⟨r⟩
  | .mapKeys _, r => .mapKeys ⟨⟨r⟩⟩
  | .mapValues _, r => .mapValues ⟨⟨r⟩⟩
  | .mapValuesMut _, r => .mapValuesMut ⟨⟨r⟩⟩
  | .setIter _, r => .setIter ⟨⟨⟨r⟩⟩⟩
  | .tableIter _, r => .tableIter ⟨r⟩
  | .tableIterMut _, r => .tableIterMut ⟨r⟩

/-- What a wrapper of this kind makes of the element `e` in bucket `i`. -/
def Kind.proj : Kind → Nat → Elem → Item
  | .mapIter, i, e => .pair i e
  | .mapIterMut, i, e => .pair i e
  | .mapKeys, i, e => .key i e.k e.kid
  | .mapValues, i, e => .val i e.vid e.v
  | .mapValuesMut, i, e => .val i e.vid e.v
  | .setIter, i, e => .key i e.k e.kid
  | .tableIter, i, e => .elem i e
  | .tableIterMut, i, e => .elem i e

/-- `RawIter::next` followed by reading the bucket and projecting. -/
def stepVia (mk : Nat → Elem → Item) (cfg : Cfg) (t : Raw) (r : RawIter) :
    Except String (Option Item × RawIter) :=
  match r.next cfg t with
  | .error f => .error f
  | .ok (none, r') => .ok (none, r')
  | .ok (some i, r') =>
    match slotGet t i with
    | .error f => .error f
    | .ok e => .ok (some (mk i e), r')

@[simp] theorem Wrap.setRaw_raw (w : Wrap) : w.setRaw w.raw = w := by cases w <;> rfl
@[simp] theorem Wrap.raw_setRaw (w : Wrap) (r : RawIter) : (w.setRaw r).raw = r := by cases w <;> rfl
@[simp] theorem Wrap.kind_setRaw (w : Wrap) (r : RawIter) : (w.setRaw r).kind = w.kind := by
  cases w <;> rfl
@[simp] theorem Wrap.setRaw_setRaw (w : Wrap) (r r' : RawIter) :
    (w.setRaw r).setRaw r' = w.setRaw r' := by cases w <;> rfl

/-- The forwarding chain of every `next` collapses to one `RawIter::next` plus the projection. -/
theorem Wrap.next_eq (w : Wrap) :
    w.next cfg t = nextMap id w.setRaw (stepVia w.kind.proj cfg t w.raw) := by
  cases w with
  | mapIter x | mapIterMut x | tableIter x | tableIterMut x =>
    simp only [Wrap.next, Wrap.raw, Wrap.kind, stepVia, MapIter.next, MapIterMut.next,
      TableIter.next, TableIterMut.next]
    cases hx : RawIter.next cfg t x.inner with
    | error f => rfl
    | ok p =>
      obtain ⟨o, r⟩ := p
      cases o with
      | none => rfl
      | some i =>
        simp only []
        cases slotGet t i <;> rfl
  | mapKeys x | mapValues x | mapValuesMut x =>
    simp only [Wrap.next, Wrap.raw, Wrap.kind, stepVia, Keys.next, Values.next,
      ValuesMut.next, MapIter.next, MapIterMut.next]
    cases hx : RawIter.next cfg t x.inner.inner with
    | error f => rfl
    | ok p =>
      obtain ⟨o, r⟩ := p
      cases o with
      | none => rfl
      | some i =>
        simp only []
        cases slotGet t i <;> rfl
  | setIter x =>
    simp only [Wrap.next, Wrap.raw, Wrap.kind, stepVia, SetIter.next, Keys.next,
      MapIter.next]
    cases hx : RawIter.next cfg t x.iter.inner.inner with
    | error f => rfl
    | ok p =>
      obtain ⟨o, r⟩ := p
      cases o with
      | none => rfl
      | some i =>
        simp only []
        cases slotGet t i <;> rfl

/-- A wrapper of the given kind around a raw iterator. -/
def Wrap.ofRaw : Kind → RawIter → Wrap
  | .mapIter, r => .mapIter ⟨r⟩
  | .mapIterMut, r => .mapIterMut ⟨r⟩
  | .mapKeys, r => .mapKeys ⟨⟨r⟩⟩
  | .mapValues, r => .mapValues ⟨⟨r⟩⟩
  | .mapValuesMut, r => .mapValuesMut ⟨⟨r⟩⟩
  | .setIter, r => .setIter ⟨⟨⟨r⟩⟩⟩
  | .tableIter, r => .tableIter ⟨r⟩
  | .tableIterMut, r => .tableIterMut ⟨r⟩

@[simp] theorem Wrap.kind_ofRaw (k : Kind) (r : RawIter) : (Wrap.ofRaw k r).kind = k := by
  cases k <;> rfl
@[simp] theorem Wrap.raw_ofRaw (k : Kind) (r : RawIter) : (Wrap.ofRaw k r).raw = r := by
  cases k <;> rfl
theorem Wrap.ofRaw_kind_raw (w : Wrap) : Wrap.ofRaw w.kind w.raw = w := by cases w <;> rfl

/-- The constructors forward to `RawTableInner::iter`. -/
theorem Wrap.new_eq (k : Kind) : Wrap.new cfg t k = (RawIter.new cfg t).map (Wrap.ofRaw k) := by
  cases k <;> simp only [Wrap.new, MapIter.new, MapIterMut.new, Keys.new, Values.new, ValuesMut.new,
    SetIter.new, TableIter.new, TableIterMut.new] <;> cases RawIter.new cfg t <;> rfl

/-- `Default` of every wrapper is the wrapper over `RawTableInner::NEW`. -/
theorem Wrap.default_eq (k : Kind) : Wrap.default cfg k = Wrap.new cfg (Raw.new cfg.W) k := by
  cases k <;> rfl

theorem Wrap.sizeHint_eq (w : Wrap) : w.sizeHint = (w.raw.items, some w.raw.items) := by
  cases w <;> rfl

theorem Wrap.len_eq (w : Wrap) : w.len = .ok w.raw.items := by
  cases w <;> simp [Wrap.len, MapIter.len, MapIterMut.len, Keys.len, Values.len, ValuesMut.len,
    SetIter.len, TableIter.len, TableIterMut.len, Wrap.raw, rawLen, exactLen, rawSizeHint]

/-- `Clone` copies the state (for the kinds that are `Clone`). -/
theorem Wrap.clone_eq (w : Wrap) : w.clone = if w.kind.isClone then some w else none := by
  cases w <;> rfl

/-- The forwarding chain of every `fold` collapses to one `RawIter::fold`, the bucket reads and the
    projection. -/
theorem Wrap.fold_eq (w : Wrap) :
    w.fold cfg t =
      match w.raw.fold cfg t with
      | .error f => .error f
      | .ok idxs => (readAll t idxs).map (·.map fun x => w.kind.proj x.1 x.2) := by
  cases w with
  | mapIter x | mapIterMut x | tableIter x | tableIterMut x =>
    simp only [Wrap.fold, Wrap.raw, Wrap.kind, MapIter.fold, MapIterMut.fold, TableIter.fold,
      TableIterMut.fold]
    cases RawIter.fold cfg t x.inner with
    | error f => rfl
    | ok idxs => rfl
  | mapKeys x | mapValues x | mapValuesMut x =>
    simp only [Wrap.fold, Wrap.raw, Wrap.kind, Keys.fold, Values.fold, ValuesMut.fold, MapIter.fold,
      MapIterMut.fold]
    cases RawIter.fold cfg t x.inner.inner with
    | error f => rfl
    | ok idxs =>
      simp only []
      cases readAll t idxs with
      | error f => rfl
      | ok l => simp [Except.map, keyItem, valItem, keyOf, valOf, Kind.proj]
  | setIter x =>
    simp only [Wrap.fold, Wrap.raw, Wrap.kind, SetIter.fold, Keys.fold, MapIter.fold]
    cases RawIter.fold cfg t x.iter.inner.inner with
    | error f => rfl
    | ok idxs =>
      simp only []
      cases readAll t idxs with
      | error f => rfl
      | ok l => simp [Except.map, keyItem, keyOf, Kind.proj]

/-! ### the engine: one step, under the table invariant -/

/-- What a wrapper of kind `k` over table `t` must yield, in order: the projection of every full
    bucket, ascending. -/
def wrapItems (k : Kind) (t : Raw) : List Item := t.fullList.map fun i => k.proj i (ab_elem t i)

theorem wrapItems_length (hc : CfgOk cfg) (h : Inv cfg t) (k : Kind) :
    (wrapItems k t).length = t.items := by
  rw [wrapItems, List.length_map, fullList_length hc h]

theorem stepVia_spec (hc : CfgOk cfg) (h : Inv cfg t) (mk : Nat → Elem → Item) (r : RawIter)
    (hok : IterOk cfg t r) :
    ∃ r', stepVia mk cfg t r = .ok (((r.rem t).head?).map (fun i => mk i (ab_elem t i)), r') ∧
      IterOk cfg t r' ∧ r'.rem t = (r.rem t).tail ∧ (r.rem t = [] → r' = r) := by
  obtain ⟨r', h1, h2, h3, h4⟩ := rawIter_next_spec' (iterGeo_of_inv hc h) r hok
  refine ⟨r', ?_, h2, h3, h4⟩
  unfold stepVia
  rw [h1]
  cases hrem : r.rem t with
  | nil => rfl
  | cons x xs =>
    have hx : x ∈ t.fullList := by
      obtain ⟨k, hk⟩ := hok.range.suffix
      have hm : x ∈ r.rem t := by rw [hrem]; exact List.mem_cons_self
      rw [RawIter.rem, hk] at hm
      exact List.mem_of_mem_drop hm
    simp only [List.head?_cons, Option.map_some]
    rw [ab_slotGet (h.ab_full hc hx)]

theorem readAll_spec (hc : CfgOk cfg) (h : Inv cfg t) :
    ∀ (l : List Nat), (∀ i ∈ l, i ∈ t.fullList) → readAll t l = .ok (l.map fun i => (i, ab_elem t i)) := by
  intro l
  induction l with
  | nil => intro _; rfl
  | cons x xs ih =>
    intro hl
    rw [readAll, ab_slotGet (h.ab_full hc (hl x List.mem_cons_self)),
      ih (fun i hi => hl i (List.mem_cons_of_mem _ hi))]
    rfl

/-- State of a wrapper that has yielded the first `p` items of table `t`. -/
structure WrapOk (cfg : Cfg) (t : Raw) (w : Wrap) (p : Nat) : Prop where
  ok : IterOk cfg t w.raw
  rem : w.raw.rem t = t.fullList.drop p

theorem wrap_new_ok (hc : CfgOk cfg) (h : Inv cfg t) (k : Kind) :
    ∃ w, Wrap.new cfg t k = .ok w ∧ w.kind = k ∧ WrapOk cfg t w 0 := by
  obtain ⟨it, h1, h2, h3⟩ := rawIter_new_spec hc h
  refine ⟨Wrap.ofRaw k it, by rw [Wrap.new_eq, h1]; rfl, by simp, ⟨by simpa using h2, by simpa using h3⟩⟩

/-- One `next` from a good state: the `p`-th item (or `None` when there is none, and then the state
    does not move), leaving a good state. -/
theorem wrap_next_ok (hc : CfgOk cfg) (h : Inv cfg t) {w : Wrap} {p : Nat} (hw : WrapOk cfg t w p) :
    ∃ w', w.next cfg t = .ok ((wrapItems w.kind t)[p]?, w') ∧ w'.kind = w.kind ∧
      WrapOk cfg t w' (p + 1) ∧ (t.items ≤ p → w' = w) := by
  obtain ⟨r', h1, h2, h3, h4⟩ := stepVia_spec hc h w.kind.proj w.raw hw.ok
  refine ⟨w.setRaw r', ?_, by simp, ⟨by simpa using h2, ?_⟩, ?_⟩
  · rw [Wrap.next_eq, h1, hw.rem, List.head?_drop, wrapItems, List.getElem?_map]
    cases t.fullList[p]? <;> rfl
  · simp only [Wrap.raw_setRaw]
    rw [h3, hw.rem, List.tail_drop]
  · intro hp
    have : w.raw.rem t = [] := by
      rw [hw.rem, List.drop_eq_nil_iff, fullList_length hc h]; exact hp
    rw [h4 this, Wrap.setRaw_raw]

/-- `n` calls of `next` from a good state: call `j` returns item `p + j` (or `None` if there is no such
    item), and the state stays good. -/
theorem wrap_nextN_ok (hc : CfgOk cfg) (h : Inv cfg t) :
    ∀ (n : Nat) {w : Wrap} {p : Nat}, WrapOk cfg t w p →
      ∃ w', w.nextN cfg t n = .ok ((List.range n).map (fun j => (wrapItems w.kind t)[p + j]?), w') ∧
        w'.kind = w.kind ∧ WrapOk cfg t w' (p + n) := by
  intro n
  induction n with
  | zero => intro w p hw; exact ⟨w, rfl, rfl, hw⟩
  | succ n ih =>
    intro w p hw
    obtain ⟨w1, a1, a2, a3, _⟩ := wrap_next_ok hc h hw
    obtain ⟨w', b1, b2, b3⟩ := ih a3
    refine ⟨w', ?_, b2.trans a2, by rw [← Nat.add_assoc, Nat.add_right_comm]; exact b3⟩
    rw [Wrap.nextN, a1]
    simp only []
    rw [b1, a2, List.range_succ_eq_map, List.map_cons, List.map_map]
    simp only [Nat.add_zero, Function.comp_def, Nat.succ_eq_add_one]
    congr 3
    apply List.map_congr_left
    intro j _
    rw [Nat.add_assoc, Nat.add_comm 1 j]

theorem range_map_getElem? {α} (L : List α) (n : Nat) :
    (List.range n).map (fun j => L[j]?) = (L.take n).map some ++ List.replicate (n - L.length) none := by
  apply List.ext_getElem?
  intro i
  by_cases hi : i < n
  · by_cases hl : i < L.length
    · rw [List.getElem?_append_left (by simp; omega)]
      simp [hi, hl]
    · rw [List.getElem?_append_right (by simp; omega)]
      simp only [List.length_map, List.length_take]
      rw [List.getElem?_replicate, if_pos (by omega)]
      simp [hi]
      omega
  · rw [List.getElem?_eq_none (by simp; omega), List.getElem?_eq_none (by simp; omega)]

/-- The bucket an item came from. -/
def Item.bucket : Item → Nat
  | .pair b _ => b | .key b _ _ => b | .val b _ _ => b | .elem b _ => b

/-- The expected items are one per full bucket, in ascending bucket order (so no bucket twice). -/
theorem wrapItems_buckets (k : Kind) (t : Raw) : (wrapItems k t).map Item.bucket = t.fullList := by
  rw [wrapItems, List.map_map]
  conv => rhs; rw [← List.map_id t.fullList]
  apply List.map_congr_left
  intro i _
  cases k <;> rfl

/-! ### the theorems of C09 for the borrowing wrappers (`iter`, `iter_mut`, `keys`, `values`,
    `values_mut`, `HashSet::iter`, `HashTable::iter`, `HashTable::iter_mut`) -/

/-- **`wrap_next_all`.** `n` calls of `next` on a fresh wrapper of ANY kind return exactly the
    projections of the full buckets (each once, ascending), then `None` for ever after. -/
theorem wrap_next_all (hc : CfgOk cfg) (h : Inv cfg t) (k : Kind) (n : Nat) :
    ∃ w w', Wrap.new cfg t k = .ok w ∧
      w.nextN cfg t n = .ok (((wrapItems k t).take n).map some ++ List.replicate (n - t.items) none, w') ∧
      (wrapItems k t).map Item.bucket = t.fullList ∧ t.fullList.Pairwise (· < ·) ∧
      (wrapItems k t).length = t.items := by
  obtain ⟨w, h1, h2, h3⟩ := wrap_new_ok hc h k
  obtain ⟨w', a1, _, _⟩ := wrap_nextN_ok hc h n h3
  refine ⟨w, w', h1, ?_, wrapItems_buckets k t, fullList_sorted t, wrapItems_length hc h k⟩
  rw [a1, h2]
  simp only [Nat.zero_add]
  rw [range_map_getElem?, wrapItems_length hc h]

/-- Fused: once `p ≥ items` calls were made, `next` returns `None` and the state does not change. -/
theorem wrap_fused (hc : CfgOk cfg) (h : Inv cfg t) {w : Wrap} {p : Nat} (hw : WrapOk cfg t w p)
    (hp : t.items ≤ p) : w.next cfg t = .ok (none, w) := by
  obtain ⟨w', a1, _, _, a4⟩ := wrap_next_ok hc h hw
  rw [a1, a4 hp, List.getElem?_eq_none (by rw [wrapItems_length hc h]; exact hp)]

theorem WrapOk.items (hc : CfgOk cfg) (h : Inv cfg t) {w : Wrap} {p : Nat} (hw : WrapOk cfg t w p) :
    w.raw.items = t.items - p := by
  rw [hw.ok.items, hw.rem, List.length_drop, fullList_length hc h]

/-- **`wrap_size_hint_exact`.** After `p` calls of `next` (any `p`), `size_hint()` is `(r, Some(r))`
    and `len()` is `r`, for `r = items - p` the true number of elements not yet yielded. -/
theorem wrap_size_hint_exact (hc : CfgOk cfg) (h : Inv cfg t) (k : Kind) (p : Nat) :
    ∃ w os w', Wrap.new cfg t k = .ok w ∧ w.nextN cfg t p = .ok (os, w') ∧
      w'.sizeHint = (t.items - p, some (t.items - p)) ∧ w'.len = .ok (t.items - p) := by
  obtain ⟨w, h1, _, h3⟩ := wrap_new_ok hc h k
  obtain ⟨w', a1, _, a3⟩ := wrap_nextN_ok hc h p h3
  refine ⟨w, _, w', h1, a1, ?_, ?_⟩
  · rw [Wrap.sizeHint_eq, a3.items hc h, Nat.zero_add]
  · rw [Wrap.len_eq, a3.items hc h, Nat.zero_add]

theorem wrap_fold_ok (hc : CfgOk cfg) (h : Inv cfg t) {w : Wrap} {p : Nat} (hw : WrapOk cfg t w p) :
    w.fold cfg t = .ok ((wrapItems w.kind t).drop p) := by
  rw [Wrap.fold_eq, rawIter_fold_rem hc h _ hw.ok, hw.rem]
  simp only []
  rw [readAll_spec hc h _ (fun i hi => List.mem_of_mem_drop hi), wrapItems, ← List.map_drop]
  simp [Except.map, Function.comp_def]

/-- **`wrap_fold_eq_next`.** Switching from `next` to `fold` after any number `p` of calls: the
    closure of `fold` is called with exactly the items `next` would still have returned. -/
theorem wrap_fold_eq_next (hc : CfgOk cfg) (h : Inv cfg t) (k : Kind) (p : Nat) :
    ∃ w os w', Wrap.new cfg t k = .ok w ∧ w.nextN cfg t p = .ok (os, w') ∧
      w'.fold cfg t = .ok ((wrapItems k t).drop p) ∧
      ∀ n, ∃ w'', w'.nextN cfg t n =
        .ok ((((wrapItems k t).drop p).take n).map some ++ List.replicate (n - (t.items - p)) none, w'') := by
  obtain ⟨w, h1, h2, h3⟩ := wrap_new_ok hc h k
  obtain ⟨w', a1, a2, a3⟩ := wrap_nextN_ok hc h p h3
  refine ⟨w, _, w', h1, a1, ?_, ?_⟩
  · rw [wrap_fold_ok hc h a3, a2, h2, Nat.zero_add]
  · intro n
    obtain ⟨w'', b1, _, _⟩ := wrap_nextN_ok hc h n a3
    refine ⟨w'', ?_⟩
    have e : (fun j => (wrapItems k t)[0 + p + j]?) = fun j => ((wrapItems k t).drop p)[j]? := by
      funext j; rw [List.getElem?_drop, Nat.zero_add]
    rw [b1, a2, h2, e, range_map_getElem?, List.length_drop, wrapItems_length hc h]

/-- What `n` further calls of `next` return once `p` items have been yielded. -/
def itemsFrom (k : Kind) (t : Raw) (p n : Nat) : List (Option Item) :=
  (((wrapItems k t).drop p).take n).map some ++ List.replicate (n - (t.items - p)) none

theorem wrap_nextN_from (hc : CfgOk cfg) (h : Inv cfg t) {w : Wrap} {p : Nat} (hw : WrapOk cfg t w p)
    (n : Nat) : ∃ w', w.nextN cfg t n = .ok (itemsFrom w.kind t p n, w') ∧ w'.kind = w.kind ∧
      WrapOk cfg t w' (p + n) := by
  obtain ⟨w', b1, b2, b3⟩ := wrap_nextN_ok hc h n hw
  refine ⟨w', ?_, b2, b3⟩
  have e : (fun j => (wrapItems w.kind t)[p + j]?) = fun j => ((wrapItems w.kind t).drop p)[j]? := by
    funext j; rw [List.getElem?_drop]
  rw [b1, e, range_map_getElem?, List.length_drop, wrapItems_length hc h, itemsFrom]

/-- **`wrap_clone_independent`.** After any number `p` of calls, `clone()` (which exists exactly for
    `Iter`, `Keys`, `Values`, `set::Iter`, `table::Iter`) produces an iterator in the same state: the
    next call on the clone and on the original return the same item, and however many calls `q` are
    made on the clone (they return the items from position `p` on), any number `n` of calls on the
    original still return the items from position `p` on. -/
theorem wrap_clone_independent (hc : CfgOk cfg) (h : Inv cfg t) (k : Kind) (p : Nat) :
    ∃ w os w1, Wrap.new cfg t k = .ok w ∧ w.nextN cfg t p = .ok (os, w1) ∧
      (k.isClone = false → w1.clone = none) ∧
      (k.isClone = true → ∃ c, w1.clone = some c ∧ c = w1 ∧
        (∃ x c1 w2, c.next cfg t = .ok (x, c1) ∧ w1.next cfg t = .ok (x, w2)) ∧
        ∀ q n, ∃ c' w', c.nextN cfg t q = .ok (itemsFrom k t p q, c') ∧
          w1.nextN cfg t n = .ok (itemsFrom k t p n, w')) := by
  obtain ⟨w, h1, h2, h3⟩ := wrap_new_ok hc h k
  obtain ⟨w1, a1, a2, a3⟩ := wrap_nextN_ok hc h p h3
  rw [Nat.zero_add] at a3
  have hk : w1.kind = k := a2.trans h2
  refine ⟨w, _, w1, h1, a1, ?_, ?_⟩
  · intro hf; rw [Wrap.clone_eq, hk, hf]; rfl
  · intro ht
    refine ⟨w1, by rw [Wrap.clone_eq, hk, ht]; rfl, rfl, ?_, ?_⟩
    · obtain ⟨w2, b1, _⟩ := wrap_next_ok hc h a3
      exact ⟨_, w2, w2, b1, b1⟩
    · intro q n
      obtain ⟨c', b1, _, _⟩ := wrap_nextN_from hc h a3 q
      obtain ⟨w', b2, _, _⟩ := wrap_nextN_from hc h a3 n
      rw [hk] at b1 b2
      exact ⟨c', w', b1, b2⟩

/-- **`wrap_default_empty`.** `Default::default()` of every wrapper kind is an empty iterator:
    `next` is `None` (against any table, without moving), `size_hint` is `(0, Some(0))`, `len` is `0`
    and `fold` (over the static empty table it points into) calls its closure never. -/
theorem wrap_default_empty (hc : CfgOk cfg) (k : Kind) :
    ∃ d, Wrap.default cfg k = .ok d ∧ d.kind = k ∧ (∀ t', d.next cfg t' = .ok (none, d)) ∧
      d.sizeHint = (0, some 0) ∧ d.len = .ok 0 ∧ d.fold cfg (Raw.new cfg.W) = .ok [] := by
  have hi : Inv cfg (Raw.new cfg.W) := Raw.new_inv hc
  obtain ⟨d, h1, h2, h3⟩ := wrap_new_ok hc hi k
  have h0 : d.raw.items = 0 := h3.items hc hi
  refine ⟨d, by rw [Wrap.default_eq]; exact h1, h2, ?_, ?_, ?_, ?_⟩
  · intro t'
    rw [Wrap.next_eq]
    simp [stepVia, RawIter.next, h0, nextMap]
  · rw [Wrap.sizeHint_eq, h0]
  · rw [Wrap.len_eq, h0]
  · rw [wrap_fold_ok hc hi h3, List.drop_zero]
    have : (wrapItems d.kind (Raw.new cfg.W)).length = 0 := wrapItems_length hc hi _
    rw [List.eq_nil_of_length_eq_zero this]

/-! ## owning wrappers (`into_iter`, `into_keys`, `into_values`, `drain` and the set / table
    counterparts) -/

/-- What an owning wrapper of this kind makes of the element `e` moved out of bucket `i`. -/
def OKind.oproj : OKind → Nat → Elem → Item
  | .mapIntoIter, i, e => .pair i e
  | .mapDrain, i, e => .pair i e
  | .tableIntoIter, i, e => .elem i e
  | .tableDrain, i, e => .elem i e
  | .setIntoIter, i, e => .key i e.k e.kid
  | .setDrain, i, e => .key i e.k e.kid
  | .mapIntoKeys, i, e => .key i e.k e.kid
  | .mapIntoValues, i, e => .val i e.vid e.v

/-- Everything an owning wrapper over table `t` can yield, in order. -/
def ownItems (k : OKind) (t : Raw) : List Item := t.fullList.map fun i => k.oproj i (ab_elem t i)

/-- What one `next` that moved `e` out does to the world when no destructor panics: `IntoKeys` drops
    the value object, `IntoValues` the key object, all the others nothing. -/
def stepWorld (cfg : Cfg) (env : Env) : OKind → Elem → World → World
  | .mapIntoKeys, e, w => Map.dropVal cfg e.vid w
  | .mapIntoValues, e, w => (dropKey cfg env e.kid w).2
  | .mapIntoIter, _, w => w
  | .mapDrain, _, w => w
  | .setIntoIter, _, w => w
  | .setDrain, _, w => w
  | .tableIntoIter, _, w => w
  | .tableDrain, _, w => w

/-- The world after the `next` calls that moved out `l`. -/
def preWorld (cfg : Cfg) (env : Env) (k : OKind) (l : List Elem) (w : World) : World :=
  l.foldl (fun w e => stepWorld cfg env k e w) w

/-- Hypothesis for `IntoValues`: the key destructors run by `next` do not panic. -/
def KeyDropsQuiet (env : Env) (k : OKind) : Prop :=
  k = .mapIntoValues → ∀ j e, env.dropPanics j e = false

theorem stepWorld_t (env : Env) (k : OKind) (e : Elem) (w : World) :
    (stepWorld cfg env k e w).t = w.t := by
  cases k <;> simp only [stepWorld, Map.dropVal, dropKey] <;> split <;> rfl

theorem stepWorld_set_t (env : Env) (k : OKind) (e : Elem) (w : World) (t' : Raw) :
    stepWorld cfg env k e { w with t := t' } = { stepWorld cfg env k e w with t := t' } := by
  cases k <;> simp only [stepWorld, Map.dropVal, dropKey] <;> split <;> rfl

theorem preWorld_t (env : Env) (k : OKind) (l : List Elem) (w : World) :
    (preWorld cfg env k l w).t = w.t := by
  induction l generalizing w with
  | nil => rfl
  | cons e es ih => rw [preWorld, List.foldl_cons, ← preWorld, ih, stepWorld_t]

theorem preWorld_set_t (env : Env) (k : OKind) (l : List Elem) (w : World) (t' : Raw) :
    preWorld cfg env k l { w with t := t' } = { preWorld cfg env k l w with t := t' } := by
  induction l generalizing w with
  | nil => rfl
  | cons e es ih =>
    rw [preWorld, List.foldl_cons, ← preWorld, stepWorld_set_t, ih]
    rfl

/-- One `next` of an owning wrapper, given what its raw iterator does. -/
theorem own_next_none {env : Env} {o : Own} {r : RawOwn} (w : World)
    (hr : o.raw.next cfg = .ok (none, r)) : o.next cfg env w = .ok (none, { o with raw := r }, w) := by
  simp only [Own.next, mapOwnNext, hr]

theorem own_next_some {env : Env} {o : Own} {r : RawOwn} {i : Nat} {e : Elem} (w : World)
    (hq : KeyDropsQuiet env o.kind) (hr : o.raw.next cfg = .ok (some (i, e), r)) :
    o.next cfg env w =
      .ok (some (o.kind.oproj i e), { o with raw := r }, stepWorld cfg env o.kind e w) := by
  obtain ⟨k, raw⟩ := o
  cases k <;> simp only [Own.next, mapOwnNext, hr, OKind.oproj, stepWorld]
  -- `IntoValues`: the key destructor
  have hq' := hq rfl
  by_cases hn : cfg.needsDrop = true <;> simp [dropKeyR, dropKey, hn, hq']

/-- `IntoKeys::next` drops exactly the value object of the pair it yields the key of (never panics). -/
theorem intoKeys_next_drops {env : Env} {o : Own} {r : RawOwn} {i : Nat} {e : Elem} (w : World)
    (hk : o.kind = .mapIntoKeys) (hr : o.raw.next cfg = .ok (some (i, e), r)) :
    o.next cfg env w = .ok (some (.key i e.k e.kid), { o with raw := r }, Map.dropVal cfg e.vid w) := by
  obtain ⟨k, raw⟩ := o
  subst hk
  simp only [Own.next, mapOwnNext, hr]

/-- `IntoValues::next` runs exactly the key destructor of the pair whose value it yields: either it
    returns the value with the key dropped, or — when that destructor panics — the call does not
    return (the panic propagates; the value is leaked). -/
theorem intoValues_next_drops {env : Env} {o : Own} {r : RawOwn} {i : Nat} {e : Elem} (w : World)
    (hk : o.kind = .mapIntoValues) (hr : o.raw.next cfg = .ok (some (i, e), r)) :
    (env.dropPanics w.dc ⟨0, e.kid, 0, 0⟩ = false ∨ cfg.needsDrop = false →
      o.next cfg env w = .ok (some (.val i e.vid e.v), { o with raw := r }, (dropKey cfg env e.kid w).2)) ∧
    (env.dropPanics w.dc ⟨0, e.kid, 0, 0⟩ = true ∧ cfg.needsDrop = true →
      ∀ x, o.next cfg env w ≠ .ok x) ∧
    (dropKey cfg env e.kid w).2.log = (if cfg.needsDrop then [Ev.dropK e.kid] else []) ++ w.log := by
  obtain ⟨k, raw⟩ := o
  subst hk
  refine ⟨?_, ?_, ?_⟩
  · intro hq
    rcases hq with hq | hq
    · by_cases hn : cfg.needsDrop = true <;>
        simp [Own.next, mapOwnNext, hr, dropKeyR, dropKey, hn, hq]
    · simp [Own.next, mapOwnNext, hr, dropKeyR, dropKey, hq]
  · intro ⟨h1, h2⟩ x
    simp only [Own.next, mapOwnNext, hr, dropKeyR, dropKey, h1, h2, if_true]
    generalize RawOwn.dropIntoIter cfg (Map.quietEnv env) r _ = y
    cases y <;> simp [Res.bind]
  · simp only [dropKey]
    split <;> simp

/-- State of a `RawIntoIter`/`RawDrain` that has moved the first `p` elements out of table `t0`. -/
structure OwnOk (cfg : Cfg) (t0 : Raw) (o : RawOwn) (p : Nat) : Prop where
  cleared : ClearedOn t0 o.held (t0.fullList.take p)
  ok : IterOk cfg o.held o.iter
  rem : o.iter.rem o.held = t0.fullList.drop p

theorem ownOk_new (hc : CfgOk cfg) (h : Inv cfg t) :
    ∃ it, RawIter.new cfg t = .ok it ∧ OwnOk cfg t ⟨it, t⟩ 0 := by
  obtain ⟨it, h1, h2, h3⟩ := rawIter_new_spec hc h
  exact ⟨it, h1, by simpa using ClearedOn.refl t, h2, by simpa using h3⟩

/-- One `RawIntoIter::next` / `RawDrain::next` from a good state: element `p` is moved out of its
    bucket (or `None`, and then nothing moves). -/
theorem rawOwn_next_spec (hc : CfgOk cfg) (h : Inv cfg t) {o : RawOwn} {p : Nat}
    (ho : OwnOk cfg t o p) :
    ∃ o', o.next cfg = .ok ((t.fullList[p]?).map (fun i => (i, ab_elem t i)), o') ∧
      OwnOk cfg t o' (p + 1) ∧ (t.items ≤ p → o' = o) := by
  have g : IterGeo cfg o.held :=
    (iterGeo_of_inv hc h).ab_congr ho.cleared.mask ho.cleared.ctrl ho.cleared.items
  obtain ⟨it1, h1, h2, h3, h4⟩ := rawIter_next_spec' g o.iter ho.ok
  unfold RawOwn.next
  rw [h1, ho.rem]
  cases hp : t.fullList[p]? with
  | none =>
    have hlen : t.fullList.length ≤ p := List.getElem?_eq_none_iff.1 hp
    have hnil : t.fullList.drop p = [] := List.drop_eq_nil_iff.2 hlen
    have hit : it1 = o.iter := h4 (by rw [ho.rem, hnil])
    refine ⟨o, by simp [hnil, hit], ⟨?_, ho.ok, ?_⟩, fun _ => rfl⟩
    · rw [List.take_of_length_le (by omega)]
      have := ho.cleared
      rwa [List.take_of_length_le hlen] at this
    · rw [ho.rem, hnil, List.drop_eq_nil_iff.2 (by omega)]
  | some x =>
    obtain ⟨hlt, hx⟩ := List.getElem?_eq_some_iff.1 hp
    have hdrop : t.fullList.drop p = x :: t.fullList.drop (p + 1) := by
      rw [List.drop_eq_getElem_cons hlt, hx]
    have hxm : x ∈ t.fullList := by rw [← hx]; exact List.getElem_mem hlt
    have hnd := ab_nodup_fullList t
    rw [← List.take_append_drop p t.fullList] at hnd
    have hdisj := (List.nodup_append.mp hnd).2.2
    have hnot : x ∉ t.fullList.take p := fun hm => hdisj x hm x (by rw [hdrop]; exact List.mem_cons_self) rfl
    have he : ab_slot o.held x = some (ab_elem t x) := by
      rw [ho.cleared.slot, if_neg hnot]; exact h.ab_full hc hxm
    have hcl1 := ClearedOn.take he
    simp only [hdrop, List.head?_cons, Option.map_some]
    rw [ab_slotTake he]
    refine ⟨_, rfl, ⟨?_, h2.ab_congr hcl1.mask hcl1.ctrl, ?_⟩, ?_⟩
    · have := ho.cleared.trans hcl1
      rwa [List.take_add_one, hp]
    · simp only []
      rw [ab_rem_congr hcl1.mask hcl1.ctrl, h3, ho.rem, hdrop, List.tail_cons]
    · intro hle
      have := fullList_length hc h
      omega

/-- `takeLoop` of the `Map.intoIter`/`Map.drain` model, one round, in terms of `RawOwn.next`. -/
theorem takeLoop_succ (n : Nat) (it : RawIter) (held : Raw) (acc : List Elem) :
    Map.takeLoop cfg (n + 1) it held acc =
      match RawOwn.next cfg ⟨it, held⟩ with
      | .error f => .error f
      | .ok (none, r) => .ok (acc.reverse, r.iter, r.held)
      | .ok (some (_, e), r) => Map.takeLoop cfg n r.iter r.held (e :: acc) := by
  rw [Map.takeLoop, RawOwn.next]
  simp only []
  cases RawIter.next cfg held it with
  | error f => rfl
  | ok q =>
    obtain ⟨x, it'⟩ := q
    cases x with
    | none => rfl
    | some idx =>
      simp only []
      cases slotTake held idx with
      | error f => rfl
      | ok q => rfl

/-- `n` calls of `next` on an owning wrapper in a good state (key destructors of `IntoValues` assumed
    not to panic): the items `p, p+1, …` are yielded, the world sees the per-step drops, and the
    `takeLoop` of the `Map.intoIter`/`Map.drain` model makes the same moves. -/
theorem own_nextN_spec (hc : CfgOk cfg) (h : Inv cfg t) (env : Env) :
    ∀ (n : Nat) (o : Own) (p : Nat) (w : World) (acc : List Elem), KeyDropsQuiet env o.kind →
      OwnOk cfg t o.raw p →
      ∃ r', Own.nextN cfg env n o w =
          .ok (((ownItems o.kind t).drop p).take n, { o with raw := r' },
            preWorld cfg env o.kind (((t.fullList.drop p).take n).map (ab_elem t)) w) ∧
        Map.takeLoop cfg n o.raw.iter o.raw.held acc =
          .ok (acc.reverse ++ ((t.fullList.drop p).take n).map (ab_elem t), r'.iter, r'.held) ∧
        OwnOk cfg t r' (p + n) := by
  intro n
  induction n with
  | zero =>
    intro o p w acc _ ho
    exact ⟨o.raw, by simp [Own.nextN, preWorld], by simp [Map.takeLoop], ho⟩
  | succ n ih =>
    intro o p w acc hq ho
    obtain ⟨o1, a1, a2, a3⟩ := rawOwn_next_spec hc h ho
    rw [takeLoop_succ, Own.nextN]
    cases hp : t.fullList[p]? with
    | none =>
      have hlen : t.fullList.length ≤ p := List.getElem?_eq_none_iff.1 hp
      have hnil : t.fullList.drop p = [] := List.drop_eq_nil_iff.2 hlen
      have hnil' : (ownItems o.kind t).drop p = [] :=
        List.drop_eq_nil_iff.2 (by rw [ownItems, List.length_map]; exact hlen)
      rw [hp] at a1
      simp only [Option.map_none] at a1
      have a1' : RawOwn.next cfg ⟨o.raw.iter, o.raw.held⟩ = .ok (none, o1) := a1
      rw [own_next_none w a1, a1']
      refine ⟨o1, by simp [hnil, hnil', preWorld], by simp [hnil], ?_⟩
      have : t.items ≤ p := by rw [← fullList_length hc h]; exact hlen
      rw [a3 this]
      refine ⟨?_, ho.ok, ?_⟩
      · rw [List.take_of_length_le (by omega)]
        have := ho.cleared
        rwa [List.take_of_length_le hlen] at this
      · rw [ho.rem, hnil, List.drop_eq_nil_iff.2 (by omega)]
    | some x =>
      obtain ⟨hlt, hx⟩ := List.getElem?_eq_some_iff.1 hp
      have hdrop : t.fullList.drop p = x :: t.fullList.drop (p + 1) := by
        rw [List.drop_eq_getElem_cons hlt, hx]
      have hdrop' : (ownItems o.kind t).drop p =
          o.kind.oproj x (ab_elem t x) :: (ownItems o.kind t).drop (p + 1) := by
        rw [ownItems, ← List.map_drop, hdrop, List.map_cons, List.map_drop]
      rw [hp] at a1
      simp only [Option.map_some] at a1
      have a1' : RawOwn.next cfg ⟨o.raw.iter, o.raw.held⟩ = .ok (some (x, ab_elem t x), o1) := a1
      obtain ⟨r', b1, b2, b3⟩ := ih { o with raw := o1 } (p + 1)
        (stepWorld cfg env o.kind (ab_elem t x) w) (ab_elem t x :: acc) hq a2
      rw [own_next_some w hq a1, a1']
      simp only []
      rw [b1, b2]
      refine ⟨r', ?_, ?_, by rw [Nat.add_assoc, Nat.add_comm 1 n] at b3; exact b3⟩
      · simp [hdrop, hdrop', preWorld]
      · simp [hdrop]

/-- A result of the monolithic `Map.intoIter` / `Map.drain` model, with the list of yielded elements
    replaced by the items the wrapper handed out. -/
def withItems (xs : List Item) : Res (List Elem × World) → Res (List Item × World)
  | .ok (_, w') => .ok (xs, w')
  | .panic c w' => .panic c w'
  | .abort => .abort
  | .fault f => .fault f

/-- The step-wise model of every owning wrapper (create, `next` × `n`, drop) agrees with the
    monolithic `Map.intoIter` / `Map.drain` of `Hb/Model/Api.lean`, run in the world that already
    contains the per-step drops of `IntoKeys` / `IntoValues`; and the items handed out are the first
    `n` projections of the full buckets. -/
theorem own_run_eq (hc : CfgOk cfg) (env : Env) (k : OKind) (n : Nat) (w : World) (h : Inv cfg w.t)
    (hq : KeyDropsQuiet env k) :
    Own.run cfg env k n w =
      withItems ((ownItems k w.t).take n)
        (if k.isDrain then Map.drain cfg env n false (preWorld cfg env k (w.t.elems.take n) w)
         else Map.intoIter cfg env n (preWorld cfg env k (w.t.elems.take n) w)) := by
  obtain ⟨it, h1, h2⟩ := ownOk_new hc h
  obtain ⟨r', b1, b2, b3⟩ := own_nextN_spec hc h env n ⟨k, ⟨it, w.t⟩⟩ 0 { w with t := Raw.new cfg.W } []
    hq h2
  have hel : ((w.t.fullList.drop 0).take n).map (ab_elem w.t) = w.t.elems.take n := by
    rw [ab_elems_map hc h, List.drop_zero, List.map_take]
  rw [hel] at b1 b2
  simp only [List.drop_zero, List.reverse_nil, List.nil_append] at b1 b2
  have hpt := preWorld_t (cfg := cfg) env k (w.t.elems.take n) w
  have hmask : r'.held.mask = w.t.mask := b3.cleared.mask
  rw [preWorld_set_t] at b1
  generalize preWorld cfg env k (w.t.elems.take n) w = pre at b1 hpt ⊢
  simp only [Own.run, Own.new, RawOwn.new, h1, b1, Own.drop]
  cases hd : k.isDrain with
  | true =>
    simp only [if_true, Map.drain, hpt, h1, b2, Bool.false_eq_true, if_false, RawOwn.dropDrain]
    cases Map.iterDropElements cfg env r'.iter r'.held { pre with t := Raw.new cfg.W } with
    | ok q =>
      obtain ⟨p, t'', w1⟩ := q
      cases p <;> rfl
    | panic c w' => rfl
    | abort => rfl
    | fault f => rfl
  | false =>
    simp only [Bool.false_eq_true, if_false, Map.intoIter, hpt, h1, b2, RawOwn.dropIntoIter,
      Map.intoIterFinish, Raw.isEmptySingleton, hmask]
    cases Map.iterDropElements cfg env r'.iter r'.held { pre with t := Raw.new cfg.W } with
    | ok q =>
      obtain ⟨p, t'', w1⟩ := q
      cases p with
      | true => rfl
      | false =>
        simp only [Bool.false_eq_true, if_false]
        by_cases hm : (w.t.mask == 0) = true
        · simp only [hm, if_true]; rfl
        · simp only [hm]
          cases freeBuckets cfg w.t.mask w1 <;> rfl
    | panic c w' => rfl
    | abort => rfl
    | fault f => rfl

/-- The destructor events of the `next` calls that yielded `l` (newest first): `IntoKeys` drops the
    value object of every pair it yields, `IntoValues` the key object; the other wrappers nothing. -/
def stepEvs (cfg : Cfg) : OKind → List Elem → List Ev
  | .mapIntoKeys, l => if cfg.needsDrop then (l.map fun e => Ev.dropV e.vid).reverse else []
  | .mapIntoValues, l => if cfg.needsDrop then (l.map fun e => Ev.dropK e.kid).reverse else []
  | .mapIntoIter, _ => []
  | .mapDrain, _ => []
  | .setIntoIter, _ => []
  | .setDrain, _ => []
  | .tableIntoIter, _ => []
  | .tableDrain, _ => []

theorem preWorld_log (env : Env) (k : OKind) (l : List Elem) (w : World) :
    (preWorld cfg env k l w).log = stepEvs cfg k l ++ w.log := by
  induction l generalizing w with
  | nil => cases k <;> simp [preWorld, stepEvs]
  | cons e es ih =>
    rw [preWorld, List.foldl_cons, ← preWorld, ih]
    cases k <;> simp only [stepEvs, stepWorld, Map.dropVal, dropKey] <;> split <;> simp

theorem ownItems_length (hc : CfgOk cfg) (h : Inv cfg t) (k : OKind) :
    (ownItems k t).length = t.items := by
  rw [ownItems, List.length_map, fullList_length hc h]

theorem ownItems_buckets (k : OKind) (t : Raw) : (ownItems k t).map Item.bucket = t.fullList := by
  rw [ownItems, List.map_map]
  conv => rhs; rw [← List.map_id t.fullList]
  apply List.map_congr_left
  intro i _
  cases k <;> rfl

/-- **Owning wrappers, any cut point `n`.** Create the iterator, call `next` `n` times, drop it
    (key destructors run by `IntoValues::next` assumed not to panic):
    * the calls yield the projections of the first `min n items` full buckets, in order;
    * afterwards the collection is a valid empty table (`drain`: same block, emptied; `into_*`: gone);
    * the destructor log gained exactly: for `IntoKeys`/`IntoValues` the other half of every yielded
      pair (once each), then every element NOT yielded (once each, in bucket order), then — for the
      `into_*` kinds over an allocated table — one `free` of the block;
    * the only other outcome is a panicking element destructor during the final drop. -/
theorem own_run_spec (hc : CfgOk cfg) (env : Env) (k : OKind) (n : Nat) (w : World)
    (h : TInvB cfg w.t) (hq : KeyDropsQuiet env k) :
    match Own.run cfg env k n w with
    | .ok (xs, w') =>
      xs = (ownItems k w.t).take n ∧ xs.length = min n w.t.items ∧
      (k.isDrain = true → EmptiedOf cfg w.t w'.t) ∧ (k.isDrain = false → w'.t = Raw.new cfg.W) ∧
      w'.log =
        (if k.isDrain = false ∧ w.t.alloc = true then
            [Ev.free (layoutOf cfg w.t.buckets).size (layoutOf cfg w.t.buckets).align] else []) ++
          dropEvs cfg (w.t.elems.drop n).reverse ++ stepEvs cfg k (w.t.elems.take n) ++ w.log
    | .panic c w' => c = "drop" ∧ cfg.needsDrop = true ∧
        ∃ ds e rest, w.t.elems.drop n = ds ++ e :: rest ∧
          w'.log = dropEvs cfg (ds ++ [e]).reverse ++ stepEvs cfg k (w.t.elems.take n) ++ w.log
    | .abort => False
    | .fault _ => False := by
  rw [own_run_eq hc env k n w h.1 hq]
  have hpt := preWorld_t (cfg := cfg) env k (w.t.elems.take n) w
  have hpl := preWorld_log (cfg := cfg) env k (w.t.elems.take n) w
  generalize preWorld cfg env k (w.t.elems.take n) w = pre at hpt hpl
  have hpre : TInvB cfg pre.t := by rw [hpt]; exact h
  have hlen : ((ownItems k w.t).take n).length = min n w.t.items := by
    rw [List.length_take, ownItems_length hc h.1]
  cases hd : k.isDrain with
  | true =>
    have hs := drain_spec hc env n false pre hpre
    rw [hpt] at hs
    simp only [if_true]
    generalize Map.drain cfg env n false pre = res at hs
    cases res with
    | ok q =>
      obtain ⟨out, w'⟩ := q
      obtain ⟨_, _, _, s4⟩ := hs
      obtain ⟨e1, e2⟩ := s4 rfl
      refine ⟨rfl, hlen, fun _ => e1, (fun hf => absurd hf (by simp)), ?_⟩
      rw [e2.log, hpl]
      simp
    | panic c w' =>
      obtain ⟨s1, _, _, s4, ds, e, rest, s5, s6, _⟩ := hs
      refine ⟨s1, s4, ds, e, rest, s5, ?_⟩
      rw [s6.log, hpl, List.append_assoc]
    | abort => exact hs
    | fault f => exact hs
  | false =>
    have hs := intoIter_spec hc env n pre hpre
    rw [hpt] at hs
    simp only [Bool.false_eq_true, if_false]
    generalize Map.intoIter cfg env n pre = res at hs
    cases res with
    | ok q =>
      obtain ⟨out, w'⟩ := q
      obtain ⟨_, _, s3, s4, _⟩ := hs
      refine ⟨rfl, hlen, (fun hf => absurd hf (by simp)), fun _ => s3, ?_⟩
      rw [s4, hpl]
      simp [List.append_assoc]
    | panic c w' =>
      obtain ⟨s1, _, s4, ds, e, rest, s5, s6, _⟩ := hs
      refine ⟨s1, s4, ds, e, rest, s5, ?_⟩
      rw [s6.log, hpl, List.append_assoc]
    | abort => exact hs
    | fault f => exact hs

theorem OwnOk.items (hc : CfgOk cfg) (h : Inv cfg t) {o : RawOwn} {p : Nat} (ho : OwnOk cfg t o p) :
    o.iter.items = t.items - p := by
  rw [ho.ok.items, ho.rem, List.length_drop, fullList_length hc h]

/-- **Owning wrappers: `size_hint`/`len` exact at every step, and fused.** After `n` calls of `next`
    (any `n`), `size_hint()` is `(r, Some(r))` and `len()` is `r` with `r = items - n`; and once
    `n ≥ items`, `next` keeps returning `None` without changing anything. -/
theorem own_size_hint_exact (hc : CfgOk cfg) (env : Env) (k : OKind) (n : Nat) (w : World)
    (h : Inv cfg w.t) (hq : KeyDropsQuiet env k) :
    ∃ o w0 o' w1, Own.new cfg k w = .ok (o, w0) ∧
      Own.nextN cfg env n o w0 = .ok ((ownItems k w.t).take n, o', w1) ∧
      o'.sizeHint = (w.t.items - n, some (w.t.items - n)) ∧ o'.len = .ok (w.t.items - n) ∧
      (w.t.items ≤ n → ∀ w2, o'.next cfg env w2 = .ok (none, o', w2)) := by
  obtain ⟨it, h1, h2⟩ := ownOk_new hc h
  obtain ⟨r', b1, _, b3⟩ := own_nextN_spec hc h env n ⟨k, ⟨it, w.t⟩⟩ 0 { w with t := Raw.new cfg.W } []
    hq h2
  rw [Nat.zero_add] at b3
  have hi := b3.items hc h
  refine ⟨⟨k, ⟨it, w.t⟩⟩, { w with t := Raw.new cfg.W }, ⟨k, r'⟩,
    preWorld cfg env k (((w.t.fullList.drop 0).take n).map (ab_elem w.t)) { w with t := Raw.new cfg.W },
    by simp only [Own.new, RawOwn.new, h1], by simpa using b1, ?_, ?_, ?_⟩
  · simp only [Own.sizeHint, RawOwn.sizeHint, rawSizeHint, hi]
  · simp [Own.len, RawOwn.len, RawOwn.sizeHint, rawSizeHint, exactLen, hi]
  · intro hle w2
    obtain ⟨o1, a1, _, a3⟩ := rawOwn_next_spec hc h b3
    rw [List.getElem?_eq_none (by rw [fullList_length hc h]; exact hle), Option.map_none] at a1
    have := own_next_none (cfg := cfg) (env := env) (o := ⟨k, r'⟩) w2 a1
    rw [this, a3 hle]

/-- **Owning wrappers: total consumption** (`fold`/`for_each`/`collect`: `next` until `None`, then the
    iterator is dropped). Every stored element is yielded exactly once (projection of every full
    bucket, ascending), nothing is left to drop, `IntoKeys`/`IntoValues` dropped the other half of
    every pair exactly once, and the block is freed once (`into_*`) or kept, emptied (`drain`). -/
theorem own_fold_spec (hc : CfgOk cfg) (env : Env) (k : OKind) (w : World) (h : TInvB cfg w.t)
    (hq : KeyDropsQuiet env k) :
    ∃ w', Own.fold cfg env k w = .ok (ownItems k w.t, w') ∧
      (ownItems k w.t).map Item.bucket = w.t.fullList ∧ (ownItems k w.t).length = w.t.items ∧
      (k.isDrain = true → EmptiedOf cfg w.t w'.t) ∧ (k.isDrain = false → w'.t = Raw.new cfg.W) ∧
      w'.log =
        (if k.isDrain = false ∧ w.t.alloc = true then
            [Ev.free (layoutOf cfg w.t.buckets).size (layoutOf cfg w.t.buckets).align] else []) ++
          stepEvs cfg k w.t.elems ++ w.log := by
  have hs := own_run_spec hc env k (w.t.buckets + 2) w h hq
  have hle : w.t.elems.length ≤ w.t.buckets + 2 := by
    rw [ab_elems_length hc h.1, ← fullList_length hc h.1]
    have := fullList_length_le w.t; omega
  have hle' : (ownItems k w.t).length ≤ w.t.buckets + 2 := by
    rw [ownItems_length hc h.1, ← ab_elems_length hc h.1]; exact hle
  rw [List.drop_eq_nil_iff.2 hle, List.take_of_length_le hle, List.take_of_length_le hle'] at hs
  unfold Own.fold
  generalize Own.run cfg env k (w.t.buckets + 2) w = res at hs
  cases res with
  | ok q =>
    obtain ⟨xs, w'⟩ := q
    obtain ⟨s1, _, s3, s4, s5⟩ := hs
    refine ⟨w', by rw [s1], ownItems_buckets k w.t, ownItems_length hc h.1 k, s3, s4, ?_⟩
    rw [s5]
    simp [dropEvs_nil]
  | panic c w' =>
    obtain ⟨_, _, ds, e, rest, s5, _⟩ := hs
    simp at s5
  | abort => exact hs.elim
  | fault f => exact hs.elim

/-- **Owning wrappers: `Default`.** `IntoIter`/`IntoKeys`/`IntoValues` (and the set/table `IntoIter`)
    have a `Default` that is empty; the `Drain` types have none (they borrow the collection). -/
theorem own_default_empty (hc : CfgOk cfg) (env : Env) (k : OKind) :
    (k.isDrain = true → Own.default cfg k = none) ∧
    (k.isDrain = false → ∃ d, Own.default cfg k = some (.ok d) ∧ d.kind = k ∧
      d.sizeHint = (0, some 0) ∧ d.len = .ok 0 ∧ ∀ w, d.next cfg env w = .ok (none, d, w)) := by
  refine ⟨fun hd => by simp [Own.default, hd], fun hd => ?_⟩
  obtain ⟨it, h1, h2⟩ := rawIter_new_ok hc (Raw.new_inv hc)
  have h0 : it.items = 0 := h2
  refine ⟨⟨k, ⟨it, Raw.new cfg.W⟩⟩, by simp [Own.default, hd, RawOwn.default, rawDefault, h1, Except.map],
    rfl, ?_, ?_, ?_⟩
  · simp [Own.sizeHint, RawOwn.sizeHint, rawSizeHint, h0]
  · simp [Own.len, RawOwn.len, RawOwn.sizeHint, rawSizeHint, exactLen, h0]
  · intro w
    apply own_next_none
    simp [RawOwn.next, RawIter.next, h0]

/-- Cross-check with the monolithic `into_keys` model of `Hb/Model/Entry.lean` (`Map.intoKeys`, the
    one exercised by the correspondence harness): the step-wise `IntoKeys` wrapper produces the same
    world; the items are the keys of the elements `Map.intoKeys` reports. -/
theorem own_intoKeys_eq_entry (hc : CfgOk cfg) (env : Env) (n : Nat) (w : World) (h : Inv cfg w.t) :
    Own.run cfg env .mapIntoKeys n w =
      withItems ((ownItems .mapIntoKeys w.t).take n) (Map.intoKeys cfg env n w) := by
  obtain ⟨it, h1, h2⟩ := ownOk_new hc h
  obtain ⟨r', b1, b2, b3⟩ := own_nextN_spec hc h env n ⟨.mapIntoKeys, ⟨it, w.t⟩⟩ 0
    { w with t := Raw.new cfg.W } [] (fun hk => by cases hk) h2
  have hel : ((w.t.fullList.drop 0).take n).map (ab_elem w.t) = w.t.elems.take n := by
    rw [ab_elems_map hc h, List.drop_zero, List.map_take]
  rw [hel] at b1 b2
  simp only [List.drop_zero, List.reverse_nil, List.nil_append] at b1 b2
  have hmask : r'.held.mask = w.t.mask := b3.cleared.mask
  have hpre : preWorld cfg env .mapIntoKeys (w.t.elems.take n) { w with t := Raw.new cfg.W } =
      (w.t.elems.take n).foldl (fun w e => Map.dropVal cfg e.vid w) { w with t := Raw.new cfg.W } := rfl
  rw [hpre] at b1
  simp only [Own.run, Own.new, RawOwn.new, h1, b1, Own.drop, OKind.isDrain, Bool.false_eq_true,
    if_false, Map.intoKeys, b2, RawOwn.dropIntoIter, Map.intoIterFinish, Raw.isEmptySingleton, hmask]
  generalize (w.t.elems.take n).foldl (fun w e => Map.dropVal cfg e.vid w)
    { w with t := Raw.new cfg.W } = w1
  cases Map.iterDropElements cfg env r'.iter r'.held w1 with
  | ok q =>
    obtain ⟨p, t'', w2⟩ := q
    cases p with
    | true => rfl
    | false =>
      simp only [Bool.false_eq_true, if_false]
      by_cases hm : (w.t.mask == 0) = true
      · simp only [hm, if_true]; rfl
      · simp only [hm]
        cases freeBuckets cfg w.t.mask w2 <;> rfl
  | panic c w' => rfl
  | abort => rfl
  | fault f => rfl

#print axioms Wrap.next_eq
#print axioms Wrap.fold_eq
#print axioms wrap_next_all
#print axioms wrap_fused
#print axioms wrap_size_hint_exact
#print axioms wrap_fold_eq_next
#print axioms wrap_clone_independent
#print axioms wrap_default_empty
#print axioms intoKeys_next_drops
#print axioms intoValues_next_drops
#print axioms own_run_eq
#print axioms own_run_spec
#print axioms own_intoKeys_eq_entry
#print axioms own_size_hint_exact
#print axioms own_fold_spec
#print axioms own_default_empty

end IW
end Hb
