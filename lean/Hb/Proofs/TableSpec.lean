/-
`HashTable` (caller-supplied hashes, arbitrary equality closures, a MULTISET of elements) and the
`get_many_mut` family.

Part A  `get_many_mut` (`Table.getManyMut`, `Map.getManyMut`) for EVERY environment under `Inv`:
        `Table.getManyMut_spec_partial` (`cfg.size ≠ 0`, defect F2), `Map.getManyMut_spec`
Part B  `iter_hash`: terminates, duplicate-free (all table sizes), complete: `Table.iterHash_spec`
Part C  `TPart` / `TblInv`: the hash-dependent invariant of a table WITHOUT "keys are distinct";
        `insertInSlot_tblInv(_at)`, `removeAt_tblInv`, `slot_update_tblInv`, resize / in-place
        rehash (`ts_resizeInner_tpart`, `ts_rehashInPlace_tpart`), `reserve_tblInv`,
        `tryReserve_tblInv`
Part D  `Table.find_finds_stored`, `Table.find_lawful`, `Table.find_returns_stored`,
        `Table.findMut_spec`, `Table.insertUnique_spec`, `Table.findEntryRemove_spec`,
        `Table.entry_spec`, `Table.entry_lawful`, `Table.entryInsert/OrInsert/AndModify_spec`,
        `Map.getManyMut_lawful`, `Table.getManyMut_tblInv`, `shrinkTo_tblInv`, `retain_tblInv`,
        `extractIf_tblInv`
Part E  non-vacuity examples, the zero-sized-element witness of defect F2
        (`getManyMut_zst_defect_witness`, `getManyMut_sized_twin`)
-/
import Hb.Model.Table
import Hb.Model.Entry
import Hb.Proofs.GrowLawful
import Hb.Proofs.ApiGrow
import Hb.Proofs.Probe
import Mathlib.Data.List.Perm.Subperm
import Mathlib.Data.List.Nodup
namespace Hb

variable {cfg : Cfg}

theorem ts_fm_none (l : List (Option Nat)) : (none :: l).filterMap id = l.filterMap id := rfl
theorem ts_fm_some (i : Nat) (l : List (Option Nat)) :
    (some i :: l).filterMap id = i :: l.filterMap id := rfl

/-! ## Part A — `get_many_mut` -/

/-- One request of `get_many_mut_pointers`: `find` with the caller's closure, or (`any`) with the
    closure `|_, _| true`, which consults no oracle (the `eq` call counter is restored). -/
def ts_findReq (cfg : Cfg) (env : Env) (any : Bool) (hq : Nat × Nat) (w : World) :
    Res (Option Nat × World) :=
  if any then
    match find cfg { env with eq := fun _ _ _ => some true } hq.1 hq.2 w with
    | .ok (r, w') => Res.ok (r, { w' with ec := w.ec })
    | .panic c w' => .panic c { w' with ec := w.ec }
    | .abort => .abort
    | .fault f => .fault f
  else find cfg env hq.1 hq.2 w

theorem ts_getManyLoop_cons (env : Env) (any : Bool) (hq : Nat × Nat) (rest : List (Nat × Nat))
    (w : World) (acc : List (Option Nat)) :
    Table.getManyLoop cfg env any (hq :: rest) w acc =
      match ts_findReq cfg env any hq w with
      | .ok (r, w') => Table.getManyLoop cfg env any rest w' (r :: acc)
      | .panic c w' => .panic c w'
      | .abort => .abort
      | .fault f => .fault f := by
  obtain ⟨hash, q⟩ := hq
  rfl

/-- A request never faults; it leaves table and log alone; a found bucket is live. It can only
    unwind through the caller's closure. -/
theorem ts_findReq_total (hc : CfgOk cfg) (hp : ProbeCovers cfg) (env : Env) (any : Bool)
    (hq : Nat × Nat) (w : World) (h : Inv cfg w.t) :
    (∃ r w', ts_findReq cfg env any hq w = .ok (r, w') ∧ w'.t = w.t ∧ w'.log = w.log ∧
      ∀ idx, r = some idx → idx < w.t.buckets ∧ isFull (w.t.ctrlAt idx) = true ∧
        ∃ e, w.t.slots[idx]?.join = some e) ∨
    (∃ w', ts_findReq cfg env any hq w = .panic "eq" w' ∧ w'.t = w.t ∧ w'.log = w.log ∧
      any = false ∧ ∃ c e, env.eq c hq.2 e = none) := by
  unfold ts_findReq
  cases any with
  | false =>
    simp only [Bool.false_eq_true, if_false]
    rcases find_run hc hp env hq.1 hq.2 w h with
      ⟨idx, w', k1, k2, k3, k4, e, _, k5, _⟩ | ⟨w', k1, k2, _⟩ | ⟨w', k1, k2, e, c, k3⟩
    · refine .inl ⟨some idx, w', k1, k2.t, k2.log, ?_⟩
      intro idx' hi; cases hi; exact ⟨k3, k4, e, k5⟩
    · exact .inl ⟨none, w', k1, k2.t, k2.log, fun _ hn => by cases hn⟩
    · exact .inr ⟨w', k1, k2.t, k2.log, by simp, c, e, k3⟩
  | true =>
    simp only [if_true]
    rcases find_run hc hp { env with eq := fun _ _ _ => some true } hq.1 hq.2 w h with
      ⟨idx, w', k1, k2, k3, k4, e, _, k5, _⟩ | ⟨w', k1, k2, _⟩ | ⟨w', _, _, e, c, k3⟩
    · refine .inl ⟨some idx, { w' with ec := w.ec }, by rw [k1], k2.t, k2.log, ?_⟩
      intro idx' hi; cases hi; exact ⟨k3, k4, e, k5⟩
    · exact .inl ⟨none, { w' with ec := w.ec }, by rw [k1], k2.t, k2.log, fun _ hn => by cases hn⟩
    · cases k3

/-- `idxs` are the per-request results of `find`, in request order, each computed against table
    `t` (the worlds of the individual look-ups differ from the caller's only in the `eq`-call
    counter). -/
def ts_FoundBy (cfg : Cfg) (env : Env) (any : Bool) (t : Raw) (reqs : List (Nat × Nat))
    (idxs : List (Option Nat)) : Prop :=
  idxs.length = reqs.length ∧
  ∀ (j : Nat) (hq : Nat × Nat) (r : Option Nat), reqs[j]? = some hq → idxs[j]? = some r →
    ∃ wj wj', wj.t = t ∧ ts_findReq cfg env any hq wj = .ok (r, wj')

/-- Every found bucket is a live bucket of `t`. -/
def ts_AllLive (t : Raw) (idxs : List (Option Nat)) : Prop :=
  ∀ idx ∈ idxs.filterMap id, idx < t.buckets ∧ isFull (t.ctrlAt idx) = true ∧
    ∃ e, t.slots[idx]?.join = some e

theorem ts_getManyLoop_spec (hc : CfgOk cfg) (hp : ProbeCovers cfg) (env : Env) (any : Bool)
    (t : Raw) (h : Inv cfg t) :
    ∀ (reqs : List (Nat × Nat)) (w : World) (acc : List (Option Nat)), w.t = t →
    (∃ idxs w1, Table.getManyLoop cfg env any reqs w acc = .ok (acc.reverse ++ idxs, w1) ∧
      w1.t = t ∧ w1.log = w.log ∧ ts_FoundBy cfg env any t reqs idxs ∧ ts_AllLive t idxs) ∨
    (∃ w', Table.getManyLoop cfg env any reqs w acc = .panic "eq" w' ∧ w'.t = t ∧
      w'.log = w.log ∧ any = false) := by
  intro reqs
  induction reqs with
  | nil =>
    intro w acc hw
    refine .inl ⟨[], w, by simp [Table.getManyLoop], hw, rfl, ⟨rfl, ?_⟩, ?_⟩
    · intro j hq r hj; simp at hj
    · intro idx hidx; simp at hidx
  | cons hq rest ih =>
    intro w acc hw
    rw [ts_getManyLoop_cons]
    rcases ts_findReq_total hc hp env any hq w (hw ▸ h) with
      ⟨r, w', k1, k2, k3, k4⟩ | ⟨w', k1, k2, k3, k4, _⟩
    · rw [k1]
      simp only
      have hw' : w'.t = t := k2.trans hw
      rcases ih w' (r :: acc) hw' with ⟨idxs, w1, a1, a2, a3, ⟨a4, a5⟩, a6⟩ | ⟨w2, a1, a2, a3, a4⟩
      · refine .inl ⟨r :: idxs, w1, ?_, a2, a3.trans k3, ⟨by simp [a4], ?_⟩, ?_⟩
        · rw [a1]; simp
        · intro j hq' r' hj hr
          cases j with
          | zero =>
            simp only [List.getElem?_cons_zero, Option.some.injEq] at hj hr
            subst hj; subst hr
            exact ⟨w, w', hw, k1⟩
          | succ j =>
            simp only [List.getElem?_cons_succ] at hj hr
            exact a5 j hq' r' hj hr
        · intro idx hidx
          cases r with
          | none => exact a6 idx hidx
          | some i0 =>
            rw [ts_fm_some] at hidx
            rcases List.mem_cons.mp hidx with rfl | hidx
            · have := k4 idx rfl
              rw [hw] at this; exact this
            · exact a6 idx hidx
      · exact .inr ⟨w2, a1, a2, a3.trans k3, a4⟩
    · rw [k1]
      exact .inr ⟨w', rfl, k2.trans hw, k3, k4⟩

/-! ### the duplicate check -/


theorem ts_any_iff (f : Option Nat → Bool) (i : Nat) (hf : ∀ o, f o = true ↔ o = some i)
    (rest : List (Option Nat)) : rest.any f = true ↔ i ∈ rest.filterMap id := by
  induction rest with
  | nil => simp
  | cons o rest ih =>
    rw [List.any_cons, Bool.or_eq_true, ih, hf]
    cases o with
    | none => rw [ts_fm_none]; simp
    | some j =>
      rw [ts_fm_some, List.mem_cons]
      constructor
      · rintro (h | h)
        · left; cases h; rfl
        · right; exact h
      · rintro (h | h)
        · left; rw [h]
        · right; exact h

/-- For a non-zero-sized element type the pointer comparison of `get_many_mut` is bucket
    identity: the check fires iff two requests resolved to the same bucket. -/
theorem ts_hasDup_iff (hsz : cfg.size ≠ 0 ∨ cfg.zstDupFixed = true) :
    ∀ l : List (Option Nat), Table.hasDup cfg l = true ↔ ¬ (l.filterMap id).Nodup := by
  intro l
  induction l with
  | nil => simp [Table.hasDup]
  | cons o rest ih =>
    cases o with
    | none => rw [ts_fm_none]; simpa [Table.hasDup] using ih
    | some i =>
      rw [ts_fm_some, List.nodup_cons]
      simp only [Table.hasDup, Bool.or_eq_true]
      have hz : (cfg.size == 0 && !cfg.zstDupFixed) = false := by
        rcases hsz with h | h
        · have : (cfg.size == 0) = false := by simpa using h
          simp [this]
        · simp [h]
      rw [ts_any_iff _ i ?hf, ih]
      case hf =>
        intro o
        cases o with
        | none => simp
        | some j =>
          simp only [hz, Bool.false_or, beq_iff_eq, Option.some.injEq]
          exact eq_comm
      constructor
      · rintro (h | h) ⟨h1, h2⟩
        · exact h1 h
        · exact h h2
      · intro h
        by_cases hm : i ∈ List.filterMap id rest
        · left; exact hm
        · right; intro h2; exact h ⟨hm, h2⟩

/-- Not `Nodup` = two different request positions hold the same bucket. -/
theorem ts_not_nodup_iff (l : List (Option Nat)) :
    ¬ (l.filterMap id).Nodup ↔ ∃ (j1 j2 i : Nat), j1 < j2 ∧ l[j1]? = some (some i) ∧ l[j2]? = some (some i) := by
  induction l with
  | nil => simp
  | cons o rest ih =>
    cases o with
    | none =>
      rw [ts_fm_none, ih]
      constructor
      · rintro ⟨j1, j2, i, h1, h2, h3⟩
        exact ⟨j1 + 1, j2 + 1, i, by omega, by simpa using h2, by simpa using h3⟩
      · rintro ⟨j1, j2, i, h1, h2, h3⟩
        cases j1 with
        | zero => simp at h2
        | succ j1 =>
          cases j2 with
          | zero => omega
          | succ j2 => exact ⟨j1, j2, i, by omega, by simpa using h2, by simpa using h3⟩
    | some i0 =>
      rw [ts_fm_some, List.nodup_cons, not_and_or, not_not, ih]
      constructor
      · rintro (hm | ⟨j1, j2, i, h1, h2, h3⟩)
        · rw [List.mem_filterMap] at hm
          obtain ⟨a, ha, rfl⟩ := hm
          obtain ⟨j, hj⟩ := List.getElem?_of_mem ha
          exact ⟨0, j + 1, i0, by omega, by simp, by simpa using hj⟩
        · exact ⟨j1 + 1, j2 + 1, i, by omega, by simpa using h2, by simpa using h3⟩
      · rintro ⟨j1, j2, i, h1, h2, h3⟩
        cases j2 with
        | zero => omega
        | succ j2 =>
          cases j1 with
          | zero =>
            left
            simp only [List.getElem?_cons_zero, Option.some.injEq] at h2
            simp only [List.getElem?_cons_succ] at h3
            subst h2
            rw [List.mem_filterMap]
            exact ⟨some i0, List.mem_of_getElem? h3, rfl⟩
          | succ j1 =>
            right
            exact ⟨j1, j2, i, by omega, by simpa using h2, by simpa using h3⟩

theorem ts_mem_filterMap_of_get {l : List (Option Nat)} {j x : Nat} (h : l[j]? = some (some x)) :
    x ∈ l.filterMap id := by
  rw [List.mem_filterMap]
  exact ⟨some x, List.mem_of_getElem? h, rfl⟩

/-! ### the writes -/

/-- The write loop of `Table.getManyMut` over pairwise distinct live buckets: request `j` sees the
    element of its bucket as it was, and `v += 1000 * (j + 1)` lands in exactly that bucket. -/
theorem ts_go_spec (cfg : Cfg) :
    ∀ (l : List (Option Nat)) (i : Nat) (t : Raw) (acc : List (Option Elem)),
    Inv cfg t → (∀ idx ∈ l.filterMap id, ∃ e, t.slots[idx]?.join = some e) →
    (l.filterMap id).Nodup →
    ∃ out s', Table.getManyMut.go cfg l i t acc = .ok (acc.reverse ++ out, { t with slots := s' }) ∧
      out.length = l.length ∧ Inv cfg { t with slots := s' } ∧
      (∀ x, x ∉ l.filterMap id → s'[x]? = t.slots[x]?) ∧
      (∀ (j x : Nat), l[j]? = some (some x) → ∃ e, t.slots[x]?.join = some e ∧ out[j]? = some (some e) ∧
        s'[x]?.join = some (Table.setV cfg e (e.v + 1000 * (i + j + 1)))) ∧
      (∀ j : Nat, l[j]? = some none → out[j]? = some none) := by
  intro l
  induction l with
  | nil =>
    intro i t acc h _ _
    exact ⟨[], t.slots, by simp [Table.getManyMut.go], rfl, h, fun _ _ => rfl,
      fun j x hj => by simp at hj, fun j hj => by simp at hj⟩
  | cons o rest ih =>
    intro i t acc h hlive hnd
    cases o with
    | none =>
      obtain ⟨out, s', a1, a2, a3, a4, a5, a6⟩ :=
        ih (i + 1) t (none :: acc) h hlive hnd
      refine ⟨none :: out, s', ?_, by simp [a2], a3, a4, ?_, ?_⟩
      · simp only [Table.getManyMut.go, a1]; simp
      · intro j x hj
        cases j with
        | zero => simp at hj
        | succ j =>
          obtain ⟨e, b1, b2, b3⟩ := a5 j x (by simpa using hj)
          exact ⟨e, b1, by simpa using b2, by rw [b3]; congr 3; omega⟩
      · intro j hj
        cases j with
        | zero => simp
        | succ j => simpa using a6 j (by simpa using hj)
    | some idx =>
      rw [ts_fm_some, List.nodup_cons] at hnd
      obtain ⟨e, he⟩ := hlive idx (by rw [ts_fm_some]; exact List.mem_cons_self)
      have hget := slotGet_ok he
      obtain ⟨e1, he1⟩ : ∃ e1 : Elem, e1 = Table.setV cfg e (e.v + 1000 * (i + 1)) := ⟨_, rfl⟩
      have hinv1 := ag_inv_slot_replace h he e1
      have hidx : idx < t.slots.size := slot_some_lt he
      have hother : ∀ x, x ≠ idx → (t.slots.setIfInBounds idx (some e1))[x]? = t.slots[x]? := by
        intro x hx
        rw [Array.getElem?_setIfInBounds, if_neg (Ne.symm hx)]
      have hlive1 : ∀ x ∈ rest.filterMap id,
          ∃ e', (t.slots.setIfInBounds idx (some e1))[x]?.join = some e' := by
        intro x hx
        have hne : x ≠ idx := by rintro rfl; exact hnd.1 hx
        rw [hother x hne]
        exact hlive x (by rw [ts_fm_some]; exact List.mem_cons_of_mem _ hx)
      obtain ⟨out, s', a1, a2, a3, a4, a5, a6⟩ :=
        ih (i + 1) { t with slots := t.slots.setIfInBounds idx (some e1) } (some e :: acc) hinv1
          hlive1 hnd.2
      refine ⟨some e :: out, s', ?_, by simp [a2], a3, ?_, ?_, ?_⟩
      · simp only [Table.getManyMut.go, hget, ← he1, a1]; simp
      · intro x hx
        rw [ts_fm_some, List.mem_cons, not_or] at hx
        rw [a4 x hx.2]
        exact hother x hx.1
      · intro j x hj
        cases j with
        | zero =>
          simp only [List.getElem?_cons_zero, Option.some.injEq] at hj
          subst hj
          refine ⟨e, he, by simp, ?_⟩
          rw [a4 idx hnd.1]
          show (t.slots.setIfInBounds idx (some e1))[idx]?.join = _
          rw [Array.getElem?_setIfInBounds, if_pos rfl, if_pos hidx, he1]
          rfl
        | succ j =>
          have hj' : rest[j]? = some (some x) := by simpa using hj
          obtain ⟨e', b1, b2, b3⟩ := a5 j x hj'
          have hne : x ≠ idx := by
            rintro rfl; exact hnd.1 (ts_mem_filterMap_of_get hj')
          refine ⟨e', ?_, by simpa using b2, by rw [b3]; congr 3; omega⟩
          have : (t.slots.setIfInBounds idx (some e1))[x]?.join = some e' := b1
          rw [hother x hne] at this
          exact this
      · intro j hj
        cases j with
        | zero => simp at hj
        | succ j => simpa using a6 j (by simpa using hj)

/-- What a successful `get_many_mut` (followed by the writes `v += 1000 * (j + 1)`) does to a table
    `t`, given the buckets `idxs` the requests resolved to: results `rs` in request order, slots
    `s'` afterwards; `upd e nv` is `e.v = nv` through a `&mut`. -/
structure ts_ManyOk (upd : Elem → Nat → Elem) (t : Raw) (idxs : List (Option Nat)) (rs : List (Option Elem))
    (s' : Array (Option Elem)) : Prop where
  len : rs.length = idxs.length
  /-- a request that found bucket `x` gets the element of `x`, and its write lands in `x` -/
  hit : ∀ (j x : Nat), idxs[j]? = some (some x) → ∃ e, t.slots[x]?.join = some e ∧ rs[j]? = some (some e) ∧
    s'[x]?.join = some (upd e (e.v + 1000 * (j + 1)))
  /-- a request that found nothing gets `None` -/
  miss : ∀ j : Nat, idxs[j]? = some none → rs[j]? = some none
  /-- every other slot is untouched -/
  frame : ∀ x, x ∉ idxs.filterMap id → s'[x]? = t.slots[x]?

/-- **`HashTable::get_many_mut`** (statement 8), for every environment — arbitrary, stateful,
    panicking closures included — under the structural invariant, for element types of non-zero
    size (`hsz`; for zero-sized elements see `getManyMut_zst_defect_witness`). -/
theorem Table.getManyMut_spec_partial (hc : CfgOk cfg) (hp : ProbeCovers cfg) (env : Env)
    (any : Bool) (reqs : List (Nat × Nat)) (w : World) (h : Inv cfg w.t)
    (hsz : cfg.size ≠ 0 ∨ cfg.zstDupFixed = true) :
    -- the caller's closure unwound: nothing changed
    (∃ w', Table.getManyMut cfg env any reqs w = .panic "eq" w' ∧ any = false ∧ w'.t = w.t ∧
      w'.log = w.log) ∨
    (∃ idxs w1, ts_FoundBy cfg env any w.t reqs idxs ∧ ts_AllLive w.t idxs ∧ w1.t = w.t ∧
      w1.log = w.log ∧
      -- two requests resolved to the same bucket: "duplicate keys found", nothing changed
      (((∃ (j1 j2 i : Nat), j1 < j2 ∧ idxs[j1]? = some (some i) ∧ idxs[j2]? = some (some i)) ∧
          Table.getManyMut cfg env any reqs w = .panic "dup" w1) ∨
       -- pairwise distinct buckets: one result per request, writes land where they belong
       ((idxs.filterMap id).Nodup ∧ ∃ rs s',
          Table.getManyMut cfg env any reqs w = .ok (rs, { w1 with t := { w.t with slots := s' } }) ∧
          rs.length = reqs.length ∧ ts_ManyOk (Table.setV cfg) w.t idxs rs s' ∧
          Inv cfg { w.t with slots := s' }))) := by
  unfold Table.getManyMut
  rcases ts_getManyLoop_spec hc hp env any w.t h reqs w [] rfl with
    ⟨idxs, w1, a1, a2, a3, a4, a5⟩ | ⟨w', a1, a2, a3, a4⟩
  · right
    simp only [List.reverse_nil, List.nil_append] at a1
    rw [a1]
    refine ⟨idxs, w1, a4, a5, a2, a3, ?_⟩
    by_cases hd : Table.hasDup cfg idxs = true
    · left
      simp only [hd, if_true]
      exact ⟨(ts_not_nodup_iff idxs).mp ((ts_hasDup_iff hsz idxs).mp hd), by first | rfl | trivial⟩
    · right
      have hnd : (idxs.filterMap id).Nodup := by
        by_contra hn; exact hd ((ts_hasDup_iff hsz idxs).mpr hn)
      simp only [hd]
      obtain ⟨out, s', b1, b2, b3, b4, b5, b6⟩ :=
        ts_go_spec cfg idxs 0 w.t [] h (fun idx hidx => (a5 idx hidx).2.2) hnd
      simp only [List.reverse_nil, List.nil_append] at b1
      rw [a2, b1]
      refine ⟨hnd, out, s', rfl, by rw [b2, a4.1], ⟨b2, ?_, b6, b4⟩, b3⟩
      intro j x hj
      obtain ⟨e, c1, c2, c3⟩ := b5 j x hj
      exact ⟨e, c1, c2, by rw [c3, Nat.zero_add]⟩
  · left
    rw [a1]
    exact ⟨w', rfl, a4, a2, a3⟩

/-! ### `HashMap::get_many_mut` / `get_many_key_value_mut` -/

/-- `build_hashes_inner`: every key is hashed once, in order; only the hasher can unwind. -/
theorem ts_hashAll_spec (env : Env) : ∀ (ks : List Nat) (w : World),
    (∃ hs w1, Map.hashAll env ks w = .ok (hs, w1) ∧ w1.t = w.t ∧ w1.log = w.log ∧
      hs.length = ks.length ∧
      ∀ (j k : Nat), ks[j]? = some k → env.hash (w.hc + j) k = hs[j]?) ∨
    (∃ w', Map.hashAll env ks w = .panic "hash" w' ∧ w'.t = w.t ∧ w'.log = w.log ∧
      ∃ c k, env.hash c k = none) := by
  intro ks
  induction ks with
  | nil =>
    intro w
    exact .inl ⟨[], w, rfl, rfl, rfl, rfl, fun j k hj => by simp at hj⟩
  | cons k rest ih =>
    intro w
    cases hh : env.hash w.hc k with
    | none =>
      right
      refine ⟨{ w with hc := w.hc + 1 }, ?_, rfl, rfl, w.hc, k, hh⟩
      simp only [Map.hashAll, ag_makeHash_none hh, bind, Res.bind]
    | some hv =>
      rcases ih { w with hc := w.hc + 1 } with ⟨hs, w1, a1, a2, a3, a4, a5⟩ | ⟨w', a1, a2, a3, a6⟩
      · left
        refine ⟨hv :: hs, w1, ?_, a2, a3, by simp [a4], ?_⟩
        · simp only [Map.hashAll, ag_makeHash_some hh, bind, Res.bind, a1, pure]
        · intro j k' hj
          cases j with
          | zero =>
            simp only [List.getElem?_cons_zero, Option.some.injEq] at hj
            subst hj
            simpa using hh
          | succ j =>
            have := a5 j k' (by simpa using hj)
            simp only [List.getElem?_cons_succ]
            rw [← this]
            show env.hash (w.hc + (j + 1)) k' = env.hash (w.hc + 1 + j) k'
            congr 1; omega
      · right
        refine ⟨w', ?_, a2, a3, a6⟩
        simp only [Map.hashAll, ag_makeHash_some hh, bind, Res.bind, a1]

theorem ts_findAll_spec (hc : CfgOk cfg) (hp : ProbeCovers cfg) (env : Env) (t : Raw)
    (h : Inv cfg t) :
    ∀ (reqs : List (Nat × Nat)) (w : World), w.t = t →
    (∃ idxs w1, Map.findAll cfg env reqs w = .ok (idxs, w1) ∧
      w1.t = t ∧ w1.log = w.log ∧ ts_FoundBy cfg env false t reqs idxs ∧ ts_AllLive t idxs) ∨
    (∃ w', Map.findAll cfg env reqs w = .panic "eq" w' ∧ w'.t = t ∧ w'.log = w.log ∧
      ∃ c q e, env.eq c q e = none) := by
  intro reqs
  induction reqs with
  | nil =>
    intro w hw
    refine .inl ⟨[], w, rfl, hw, rfl, ⟨rfl, ?_⟩, ?_⟩
    · intro j hq r hj; simp at hj
    · intro idx hidx; simp at hidx
  | cons hq rest ih =>
    intro w hw
    obtain ⟨hash, q⟩ := hq
    rcases ts_findReq_total hc hp env false (hash, q) w (hw ▸ h) with
      ⟨r, w', k1, k2, k3, k4⟩ | ⟨w', k1, k2, k3, _, c0, e0, k6⟩
    · have k1' : find cfg env hash q w = .ok (r, w') := k1
      have hw' : w'.t = t := k2.trans hw
      rcases ih w' hw' with ⟨idxs, w1, a1, a2, a3, ⟨a4, a5⟩, a6⟩ | ⟨w2, a1, a2, a3, a7⟩
      · refine .inl ⟨r :: idxs, w1, ?_, a2, a3.trans k3, ⟨by simp [a4], ?_⟩, ?_⟩
        · simp only [Map.findAll, k1', bind, Res.bind, a1, pure]
        · intro j hq' r' hj hr
          cases j with
          | zero =>
            simp only [List.getElem?_cons_zero, Option.some.injEq] at hj hr
            subst hj; subst hr
            exact ⟨w, w', hw, k1⟩
          | succ j =>
            simp only [List.getElem?_cons_succ] at hj hr
            exact a5 j hq' r' hj hr
        · intro idx hidx
          cases r with
          | none => exact a6 idx hidx
          | some i0 =>
            rw [ts_fm_some] at hidx
            rcases List.mem_cons.mp hidx with rfl | hidx
            · have := k4 idx rfl
              rw [hw] at this; exact this
            · exact a6 idx hidx
      · refine .inr ⟨w2, ?_, a2, a3.trans k3, a7⟩
        simp only [Map.findAll, k1', bind, Res.bind, a1]
    · have k1' : find cfg env hash q w = .panic "eq" w' := k1
      refine .inr ⟨w', ?_, k2.trans hw, k3, c0, q, e0, k6⟩
      simp only [Map.findAll, k1', bind, Res.bind]

/-- The map-level duplicate check is bucket identity. -/
theorem ts_mapHasDup_iff : ∀ (l : List (Option Nat)) (seen : List Nat),
    Map.hasDup l seen = true ↔ (∃ p ∈ l.filterMap id, p ∈ seen) ∨ ¬ (l.filterMap id).Nodup := by
  intro l
  induction l with
  | nil => intro seen; simp [Map.hasDup]
  | cons o rest ih =>
    intro seen
    cases o with
    | none => rw [ts_fm_none]; simpa [Map.hasDup] using ih seen
    | some p =>
      rw [ts_fm_some, List.nodup_cons]
      simp only [Map.hasDup, Bool.or_eq_true, List.contains_iff_mem, ih]
      constructor
      · rintro (h | ⟨q, hq, hqs⟩ | h)
        · exact .inl ⟨p, List.mem_cons_self, h⟩
        · rcases List.mem_cons.mp hqs with rfl | hqs
          · exact .inr fun hn => hn.1 hq
          · exact .inl ⟨q, List.mem_cons_of_mem _ hq, hqs⟩
        · exact .inr fun hn => h hn.2
      · rintro (⟨q, hq, hqs⟩ | h)
        · rcases List.mem_cons.mp hq with rfl | hq
          · exact .inl hqs
          · exact .inr (.inl ⟨q, hq, List.mem_cons_of_mem _ hqs⟩)
        · by_cases hm : p ∈ List.filterMap id rest
          · exact .inr (.inl ⟨p, hm, List.mem_cons_self⟩)
          · exact .inr (.inr fun hn => h ⟨hm, hn⟩)

theorem ts_bumpAll_spec (cfg : Cfg) :
    ∀ (l : List (Option Nat)) (i : Nat) (t : Raw),
    Inv cfg t → (∀ idx ∈ l.filterMap id, ∃ e, t.slots[idx]?.join = some e) →
    (l.filterMap id).Nodup →
    ∃ out s', Map.bumpAll t l i = .ok (out, { t with slots := s' }) ∧
      out.length = l.length ∧ Inv cfg { t with slots := s' } ∧
      (∀ x, x ∉ l.filterMap id → s'[x]? = t.slots[x]?) ∧
      (∀ (j x : Nat), l[j]? = some (some x) → ∃ e, t.slots[x]?.join = some e ∧
        out[j]? = some (some e) ∧ s'[x]?.join = some { e with v := e.v + 1000 * (i + j + 1) }) ∧
      (∀ j : Nat, l[j]? = some none → out[j]? = some none) := by
  intro l
  induction l with
  | nil =>
    intro i t h _ _
    exact ⟨[], t.slots, rfl, rfl, h, fun _ _ => rfl,
      fun j x hj => by simp at hj, fun j hj => by simp at hj⟩
  | cons o rest ih =>
    intro i t h hlive hnd
    cases o with
    | none =>
      obtain ⟨out, s', a1, a2, a3, a4, a5, a6⟩ := ih (i + 1) t h hlive hnd
      refine ⟨none :: out, s', ?_, by simp [a2], a3, a4, ?_, ?_⟩
      · simp only [Map.bumpAll, a1]
      · intro j x hj
        cases j with
        | zero => simp at hj
        | succ j =>
          obtain ⟨e, b1, b2, b3⟩ := a5 j x (by simpa using hj)
          refine ⟨e, b1, by simpa using b2, ?_⟩
          rw [b3, show i + 1 + j + 1 = i + (j + 1) + 1 by omega]
      · intro j hj
        cases j with
        | zero => simp
        | succ j => simpa using a6 j (by simpa using hj)
    | some idx =>
      rw [ts_fm_some, List.nodup_cons] at hnd
      obtain ⟨e, he⟩ := hlive idx (by rw [ts_fm_some]; exact List.mem_cons_self)
      have hget := slotGet_ok he
      obtain ⟨e1, he1⟩ : ∃ e1 : Elem, e1 = { e with v := e.v + 1000 * (i + 1) } := ⟨_, rfl⟩
      have hinv1 := ag_inv_slot_replace h he e1
      have hidx : idx < t.slots.size := slot_some_lt he
      have hother : ∀ x, x ≠ idx → (t.slots.setIfInBounds idx (some e1))[x]? = t.slots[x]? := by
        intro x hx
        rw [Array.getElem?_setIfInBounds, if_neg (Ne.symm hx)]
      have hlive1 : ∀ x ∈ rest.filterMap id,
          ∃ e', (t.slots.setIfInBounds idx (some e1))[x]?.join = some e' := by
        intro x hx
        have hne : x ≠ idx := by rintro rfl; exact hnd.1 hx
        rw [hother x hne]
        exact hlive x (by rw [ts_fm_some]; exact List.mem_cons_of_mem _ hx)
      obtain ⟨out, s', a1, a2, a3, a4, a5, a6⟩ :=
        ih (i + 1) { t with slots := t.slots.setIfInBounds idx (some e1) } hinv1 hlive1 hnd.2
      refine ⟨some e :: out, s', ?_, by simp [a2], a3, ?_, ?_, ?_⟩
      · simp only [Map.bumpAll, hget, Map.slotSet, ← he1, a1]
      · intro x hx
        rw [ts_fm_some, List.mem_cons, not_or] at hx
        rw [a4 x hx.2]
        exact hother x hx.1
      · intro j x hj
        cases j with
        | zero =>
          simp only [List.getElem?_cons_zero, Option.some.injEq] at hj
          subst hj
          refine ⟨e, he, by simp, ?_⟩
          rw [a4 idx hnd.1]
          show (t.slots.setIfInBounds idx (some e1))[idx]?.join = _
          rw [Array.getElem?_setIfInBounds, if_pos rfl, if_pos hidx, he1]
          rfl
        | succ j =>
          have hj' : rest[j]? = some (some x) := by simpa using hj
          obtain ⟨e', b1, b2, b3⟩ := a5 j x hj'
          have hne : x ≠ idx := by
            rintro rfl; exact hnd.1 (ts_mem_filterMap_of_get hj')
          refine ⟨e', ?_, by simpa using b2, ?_⟩
          · have : (t.slots.setIfInBounds idx (some e1))[x]?.join = some e' := b1
            rw [hother x hne] at this
            exact this
          · rw [b3, show i + 1 + j + 1 = i + (j + 1) + 1 by omega]
      · intro j hj
        cases j with
        | zero => simp at hj
        | succ j => simpa using a6 j (by simpa using hj)

/-- **`HashMap::get_many_mut` / `get_many_key_value_mut`** (statement 8), for every environment
    under the structural invariant. No hypothesis on the element size: a map entry `(K, V)` is
    compared by bucket (`Map.hasDup`). -/
theorem Map.getManyMut_spec (hc : CfgOk cfg) (hp : ProbeCovers cfg) (env : Env) (ks : List Nat)
    (w : World) (h : Inv cfg w.t) :
    -- a callback unwound: nothing changed
    (∃ c w', Map.getManyMut cfg env ks w = .panic c w' ∧
      ((c = "hash" ∧ ∃ c' k, env.hash c' k = none) ∨ (c = "eq" ∧ ∃ c' q e, env.eq c' q e = none)) ∧
      w'.t = w.t ∧ w'.log = w.log) ∨
    (∃ (hs : List Nat) (idxs : List (Option Nat)) (w1 : World), hs.length = ks.length ∧
      (∀ (j k : Nat), ks[j]? = some k → env.hash (w.hc + j) k = hs[j]?) ∧
      ts_FoundBy cfg env false w.t (hs.zip ks) idxs ∧ ts_AllLive w.t idxs ∧ w1.t = w.t ∧
      w1.log = w.log ∧
      (((∃ (j1 j2 i : Nat), j1 < j2 ∧ idxs[j1]? = some (some i) ∧ idxs[j2]? = some (some i)) ∧
          Map.getManyMut cfg env ks w = .panic "dup" w1) ∨
       ((idxs.filterMap id).Nodup ∧ ∃ rs s',
          Map.getManyMut cfg env ks w = .ok (rs, { w1 with t := { w.t with slots := s' } }) ∧
          rs.length = ks.length ∧ ts_ManyOk (fun e nv => { e with v := nv }) w.t idxs rs s' ∧
          Inv cfg { w.t with slots := s' }))) := by
  unfold Map.getManyMut
  rcases ts_hashAll_spec env ks w with ⟨hs, w0, a1, a2, a3, a4, a5⟩ | ⟨w', a1, a2, a3, a6⟩
  · simp only [a1, bind, Res.bind]
    rcases ts_findAll_spec hc hp env w.t h (hs.zip ks) w0 a2 with
      ⟨idxs, w1, b1, b2, b3, b4, b5⟩ | ⟨w', b1, b2, b3, b6⟩
    · right
      simp only [b1]
      refine ⟨hs, idxs, w1, a4, a5, b4, b5, b2, b3.trans a3, ?_⟩
      by_cases hd : Map.hasDup idxs [] = true
      · left
        simp only [hd, if_true]
        refine ⟨(ts_not_nodup_iff idxs).mp ?_, by first | rfl | trivial⟩
        rcases (ts_mapHasDup_iff idxs []).mp hd with ⟨p, _, hp'⟩ | hn
        · cases hp'
        · exact hn
      · right
        have hnd : (idxs.filterMap id).Nodup := by
          by_contra hn; exact hd ((ts_mapHasDup_iff idxs []).mpr (.inr hn))
        simp only [hd]
        obtain ⟨out, s', c1, c2, c3, c4, c5, c6⟩ :=
          ts_bumpAll_spec cfg idxs 0 w.t h (fun idx hidx => (b5 idx hidx).2.2) hnd
        rw [b2, c1]
        have hlen : idxs.length = ks.length := by
          rw [b4.1, List.length_zip, a4, Nat.min_self]
        refine ⟨hnd, out, s', by simp [liftE, pure], by rw [c2, hlen], ⟨c2, ?_, c6, c4⟩, c3⟩
        intro j x hj
        obtain ⟨e, d1, d2, d3⟩ := c5 j x hj
        exact ⟨e, d1, d2, by rw [d3, Nat.zero_add]⟩
    · left
      simp only [b1]
      exact ⟨"eq", w', rfl, .inr ⟨rfl, b6⟩, b2, b3.trans a3⟩
  · left
    simp only [a1, bind, Res.bind]
    exact ⟨"hash", w', rfl, .inl ⟨rfl, a6⟩, a2, a3⟩

/-! ## Part B — `iter_hash` -/

section IterHash
variable {t : Raw}

/-- The group `Group::load` returns at `pos`. -/
def ts_group (cfg : Cfg) (t : Raw) (pos : Nat) : List Nat :=
  (List.range cfg.W).map fun j => t.ctrl.getD (pos + j) 0

/-- Position of probe step `s`. -/
def ts_pos (cfg : Cfg) (t : Raw) (hash s : Nat) : Nat := (probePos cfg.W cfg.bits t.mask hash s).pos

/-- Lane `b` of the group of step `s` decodes to this bucket. -/
def ts_dec (cfg : Cfg) (t : Raw) (hash s b : Nat) : Nat := (ts_pos cfg t hash s + b) &&& t.mask

/-- Buckets yielded from the group of probe step `s`, in lane order. -/
def ts_lanes (cfg : Cfg) (t : Raw) (hash s : Nat) : List Nat :=
  (cfg.ops.matchTag (ts_group cfg t (ts_pos cfg t hash s)) (tagFull cfg.bits hash)).map
    (ts_dec cfg t hash s)

/-- Buckets yielded from the `d` groups after step `s`. -/
def ts_rest (cfg : Cfg) (t : Raw) (hash : Nat) : Nat → Nat → List Nat
  | 0, _ => []
  | d + 1, s => ts_lanes cfg t hash (s + 1) ++ ts_rest cfg t hash d (s + 1)

theorem ts_pos_lt (cfg : Cfg) (t : Raw) (hash s : Nat) : ts_pos cfg t hash s < t.buckets :=
  probePos_lt ..

theorem ts_load (hc : CfgOk cfg) (h : Inv cfg t) {pos : Nat} (hp : pos < t.buckets) :
    loadGroup cfg.W t pos = .ok (ts_group cfg t pos) ∧ ValidGroup cfg.W (ts_group cfg t pos) ∧
      ∀ j, j < cfg.W → (ts_group cfg t pos).getD j 0 = t.ctrlAt (pos + j) := by
  obtain ⟨g, hg, hv, hget⟩ := loadGroup_ok hc h hp
  have : g = ts_group cfg t pos := by
    simp only [loadGroup] at hg
    split at hg
    · cases hg; rfl
    · cases hg
  subst this
  exact ⟨hg, hv, hget⟩

/-- A lane reported by `match_tag` carries a FULL byte (the tag, or the tag with its lowest bit
    flipped — the over-report of the portable scanner, C18). -/
theorem ts_lane_full (hc : CfgOk cfg) (h : Inv cfg t) {pos tag b : Nat} (hp : pos < t.buckets)
    (htag : tag < 128) (hb : b ∈ cfg.ops.matchTag (ts_group cfg t pos) tag) :
    b < cfg.W ∧ isFull (t.ctrlAt (pos + b)) = true ∧
      (t.ctrlAt (pos + b) = tag ∨ t.ctrlAt (pos + b) = tag ^^^ 1) := by
  obtain ⟨_, hv, hget⟩ := ts_load hc h hp
  obtain ⟨hbW, hbv⟩ := hc.spec.tagSound _ tag hv htag b hb
  rw [hget b hbW] at hbv
  have h1 := xor_one_lt_128 htag
  refine ⟨hbW, ?_, ?_⟩
  · rcases hbv with hbv | ⟨hbv, _⟩ <;> rw [hbv] <;> simp only [isFull, decide_eq_true_eq] <;> omega
  · rcases hbv with hbv | ⟨hbv, _⟩
    · exact .inl hbv
    · exact .inr hbv

theorem ts_mod2 {x n : Nat} (h : x < 2 * n) : x % n = if x < n then x else x - n := by
  split
  · rename_i hlt; exact Nat.mod_eq_of_lt hlt
  · rw [Nat.mod_eq_sub_mod (by omega), Nat.mod_eq_of_lt (by omega)]

/-- Two FULL lanes of one loaded group decode to different buckets — also in a table smaller than
    a group, where the group holds real bytes, EMPTY padding and the mirror bytes: a bucket shows
    up FULL in exactly one of the two places. -/
theorem ts_dec_inj (hc : CfgOk cfg) (h : Inv cfg t) {pos b1 b2 : Nat} (hp : pos < t.buckets)
    (h1 : b1 < cfg.W) (h2 : b2 < cfg.W) (f1 : isFull (t.ctrlAt (pos + b1)) = true)
    (f2 : isFull (t.ctrlAt (pos + b2)) = true)
    (he : (pos + b1) &&& t.mask = (pos + b2) &&& t.mask) : b1 = b2 := by
  cases ha : t.alloc
  · exfalso
    have hs := h.singleton_ctrl ha h1
    have : pos = 0 := by omega
    subst this
    rw [Nat.zero_add, hs.1] at f1
    exact absurd f1 (by decide)
  · by_cases hle : cfg.W ≤ t.buckets
    · rw [h.and_mask, h.and_mask, ts_mod2 (by omega), ts_mod2 (by omega)] at he
      split at he <;> split at he <;> omega
    · have v1 := (load_view hc h ha hp h1).2 (by omega)
      have v2 := (load_view hc h ha hp h2).2 (by omega)
      have hne : ∀ b, isFull (t.ctrlAt (pos + b)) = true → t.ctrlAt (pos + b) ≠ EMPTY := by
        intro b hf he'; rw [he'] at hf; exact absurd hf (by decide)
      by_cases c1 : pos + b1 < t.buckets
      · rw [v1.1 c1] at he
        by_cases c2 : pos + b2 < t.buckets
        · rw [v2.1 c2] at he; omega
        · by_cases c2' : pos + b2 < cfg.W
          · exact absurd (v2.2.1 (by omega) c2') (hne b2 f2)
          · rw [(v2.2.2 (by omega)).2] at he; omega
      · by_cases c1' : pos + b1 < cfg.W
        · exact absurd (v1.2.1 (by omega) c1') (hne b1 f1)
        · rw [(v1.2.2 (by omega)).2] at he
          by_cases c2 : pos + b2 < t.buckets
          · rw [v2.1 c2] at he; omega
          · by_cases c2' : pos + b2 < cfg.W
            · exact absurd (v2.2.1 (by omega) c2') (hne b2 f2)
            · rw [(v2.2.2 (by omega)).2] at he; omega

theorem ts_mem_lanes (hc : CfgOk cfg) (h : Inv cfg t) {hash s x : Nat}
    (hx : x ∈ ts_lanes cfg t hash s) :
    ∃ b, b < cfg.W ∧ x = (ts_pos cfg t hash s + b) &&& t.mask ∧
      isFull (t.ctrlAt (ts_pos cfg t hash s + b)) = true ∧
      (t.ctrlAt (ts_pos cfg t hash s + b) = tagFull cfg.bits hash ∨
        t.ctrlAt (ts_pos cfg t hash s + b) = tagFull cfg.bits hash ^^^ 1) := by
  simp only [ts_lanes, List.mem_map] at hx
  obtain ⟨b, hb, rfl⟩ := hx
  obtain ⟨a1, a2, a3⟩ := ts_lane_full hc h (ts_pos_lt cfg t hash s) (tagFull_lt_128 _ _) hb
  exact ⟨b, a1, rfl, a2, a3⟩

theorem ts_lanes_nodup (hc : CfgOk cfg) (h : Inv cfg t) (hash s : Nat) :
    (ts_lanes cfg t hash s).Nodup := by
  have hp := ts_pos_lt cfg t hash s
  obtain ⟨_, hv, _⟩ := ts_load hc h hp
  have hsorted := hc.spec.tagSorted _ (tagFull cfg.bits hash) hv (tagFull_lt_128 _ _)
  have hnd : (cfg.ops.matchTag (ts_group cfg t (ts_pos cfg t hash s)) (tagFull cfg.bits hash)).Nodup :=
    hsorted.imp (fun hlt => Nat.ne_of_lt hlt)
  refine List.Nodup.map_on ?_ hnd
  intro b1 hb1 b2 hb2 he
  obtain ⟨a1, a2, _⟩ := ts_lane_full hc h hp (tagFull_lt_128 _ _) hb1
  obtain ⟨c1, c2, _⟩ := ts_lane_full hc h hp (tagFull_lt_128 _ _) hb2
  exact ts_dec_inj hc h hp a1 c1 a2 c2 he

/-- Every yielded bucket is a live FULL bucket carrying the tag (up to the C18 over-report). -/
theorem ts_lanes_full (hc : CfgOk cfg) (h : Inv cfg t) {hash s x : Nat}
    (hx : x ∈ ts_lanes cfg t hash s) :
    x < t.buckets ∧ isFull (t.ctrlAt x) = true ∧ (∃ e, t.slots[x]?.join = some e) ∧
      (t.ctrlAt x = tagFull cfg.bits hash ∨ t.ctrlAt x = tagFull cfg.bits hash ^^^ 1) ∧
      x ∈ window cfg t (ts_pos cfg t hash s) := by
  obtain ⟨b, hb, rfl, hf, htg⟩ := ts_mem_lanes hc h hx
  obtain ⟨e1, e2, e3⟩ := full_lane hc h (ts_pos_lt cfg t hash s) hb hf
  refine ⟨e2, by rw [e1]; exact hf, e3, by rw [e1]; exact htg, ?_⟩
  rw [mem_window_iff]
  exact ⟨b, hb, rfl⟩

theorem ts_mem_rest {hash : Nat} : ∀ (d s x : Nat), x ∈ ts_rest cfg t hash d s →
    ∃ s', s < s' ∧ s' ≤ s + d ∧ x ∈ ts_lanes cfg t hash s' := by
  intro d
  induction d with
  | zero => intro s x hx; simp [ts_rest] at hx
  | succ d ih =>
    intro s x hx
    simp only [ts_rest, List.mem_append] at hx
    rcases hx with hx | hx
    · exact ⟨s + 1, by omega, by omega, hx⟩
    · obtain ⟨s', a1, a2, a3⟩ := ih (s + 1) x hx
      exact ⟨s', by omega, by omega, a3⟩

theorem ts_lanes_sub_rest {hash : Nat} : ∀ (d s s' : Nat), s < s' → s' ≤ s + d →
    ∀ x ∈ ts_lanes cfg t hash s', x ∈ ts_rest cfg t hash d s := by
  intro d
  induction d with
  | zero => intro s s' h1 h2; omega
  | succ d ih =>
    intro s s' h1 h2 x hx
    simp only [ts_rest, List.mem_append]
    by_cases he : s' = s + 1
    · subst he; exact .inl hx
    · exact .inr (ih (s + 1) s' (by omega) (by omega) x hx)

/-- Lanes of two different probe steps among the first `buckets / W` are different buckets. -/
theorem ts_lanes_disjoint (hc : CfgOk cfg) (h : Inv cfg t) {hash s s' : Nat}
    (hs : s < t.buckets / cfg.W) (hs' : s' < t.buckets / cfg.W) (hne : s ≠ s') {x y : Nat}
    (hx : x ∈ ts_lanes cfg t hash s) (hy : y ∈ ts_lanes cfg t hash s') : x ≠ y := by
  rintro rfl
  have hW := hc.W_cases
  have hle : cfg.W ≤ t.buckets := by
    by_contra hn
    have : t.buckets / cfg.W = 0 := Nat.div_eq_of_lt (by omega)
    omega
  exact probe_windows_disjoint cfg hW t hash h.pow hle s s' hs hs' hne x
    (ts_lanes_full hc h hx).2.2.2.2 (ts_lanes_full hc h hy).2.2.2.2

theorem ts_rest_nodup (hc : CfgOk cfg) (h : Inv cfg t) (hash : Nat) : ∀ (d s : Nat),
    s + d < max 1 (t.buckets / cfg.W) → (ts_rest cfg t hash d s).Nodup := by
  intro d
  induction d with
  | zero => intro s _; simp [ts_rest]
  | succ d ih =>
    intro s hsd
    have hlt : s + (d + 1) < t.buckets / cfg.W := by omega
    simp only [ts_rest]
    rw [List.nodup_append]
    refine ⟨ts_lanes_nodup hc h hash (s + 1), ih (s + 1) (by omega), ?_⟩
    intro a ha b hb
    obtain ⟨s', a1, a2, a3⟩ := ts_mem_rest d (s + 1) b hb
    exact ts_lanes_disjoint hc h (by omega) (by omega) (by omega) ha a3

theorem ts_iterList_nodup (hc : CfgOk cfg) (h : Inv cfg t) (hash d : Nat)
    (hd : d < max 1 (t.buckets / cfg.W)) :
    (ts_lanes cfg t hash 0 ++ ts_rest cfg t hash d 0).Nodup := by
  rw [List.nodup_append]
  refine ⟨ts_lanes_nodup hc h hash 0, ts_rest_nodup hc h hash d 0 (by omega), ?_⟩
  intro a ha b hb
  obtain ⟨s', a1, a2, a3⟩ := ts_mem_rest d 0 b hb
  exact ts_lanes_disjoint hc h (by omega) (by omega) (by omega) ha a3

/-! ### running the iterator -/

/-- The iterator is inspecting probe step `s` with lanes `bs` still to yield. -/
structure ts_ItAt (cfg : Cfg) (t : Raw) (hash : Nat) (it : RawIterHash) (s : Nat) (bs : List Nat) :
    Prop where
  mask : it.mask = t.mask
  tag : it.tag = tagFull cfg.bits hash
  probe : it.probe = probePos cfg.W cfg.bits t.mask hash s
  group : it.group = ts_group cfg t (ts_pos cfg t hash s)
  bits : it.bits = bs

theorem ts_next_spec (hc : CfgOk cfg) (h : Inv cfg t) (hash : Nat) :
    ∀ (d s fuel : Nat) (it : RawIterHash) (bs : List Nat), ts_ItAt cfg t hash it s bs → d < fuel →
    (∀ s', s ≤ s' → s' < s + d → windowHasEmpty cfg t (ts_pos cfg t hash s') = false) →
    windowHasEmpty cfg t (ts_pos cfg t hash (s + d)) = true →
    (bs.map (ts_dec cfg t hash s) ++ ts_rest cfg t hash d s = [] ∧
      ∃ it', RawIterHash.next cfg t fuel it = .ok (none, it')) ∨
    (∃ x it' s' d' bs', RawIterHash.next cfg t fuel it = .ok (some x, it') ∧
      ts_ItAt cfg t hash it' s' bs' ∧ s' + d' = s + d ∧ s ≤ s' ∧
      bs.map (ts_dec cfg t hash s) ++ ts_rest cfg t hash d s =
        x :: (bs'.map (ts_dec cfg t hash s') ++ ts_rest cfg t hash d' s')) := by
  -- a pending lane is yielded at once
  have hcons : ∀ (d s fuel : Nat) (it : RawIterHash) (b : Nat) (r : List Nat),
      ts_ItAt cfg t hash it s (b :: r) → 0 < fuel →
      ∃ x it' s' d' bs', RawIterHash.next cfg t fuel it = .ok (some x, it') ∧
        ts_ItAt cfg t hash it' s' bs' ∧ s' + d' = s + d ∧ s ≤ s' ∧
        (b :: r).map (ts_dec cfg t hash s) ++ ts_rest cfg t hash d s =
          x :: (bs'.map (ts_dec cfg t hash s') ++ ts_rest cfg t hash d' s') := by
    intro d s fuel it b r hit hf
    obtain ⟨fuel, rfl⟩ : ∃ f, fuel = f + 1 := ⟨fuel - 1, by omega⟩
    refine ⟨ts_dec cfg t hash s b, { it with bits := r }, s, d, r, ?_,
      ⟨hit.mask, hit.tag, hit.probe, hit.group, rfl⟩, rfl, Nat.le_refl _, rfl⟩
    simp only [RawIterHash.next, hit.bits, ts_dec, ts_pos, hit.probe, hit.mask]
  intro d
  induction d with
  | zero =>
    intro s fuel it bs hit hf hno hE
    cases bs with
    | cons b r => exact .inr (hcons 0 s fuel it b r hit hf)
    | nil =>
      left
      obtain ⟨fuel, rfl⟩ : ∃ f, fuel = f + 1 := ⟨fuel - 1, by omega⟩
      refine ⟨by simp [ts_rest], it, ?_⟩
      obtain ⟨_, hv, hget⟩ := ts_load hc h (ts_pos_lt cfg t hash s)
      have hemp := matchEmpty_isEmpty hc hv hget
      rw [Nat.add_zero] at hE
      simp only [RawIterHash.next, hit.bits, hit.group, hemp, hE]
      rfl
  | succ d ih =>
    intro s fuel it bs hit hf hno hE
    cases bs with
    | cons b r => exact .inr (hcons (d + 1) s fuel it b r hit (by omega))
    | nil =>
      obtain ⟨fuel, rfl⟩ : ∃ f, fuel = f + 1 := ⟨fuel - 1, by omega⟩
      obtain ⟨_, hv, hget⟩ := ts_load hc h (ts_pos_lt cfg t hash s)
      have hemp := matchEmpty_isEmpty hc hv hget
      have hE0 := hno s (Nat.le_refl _) (by omega)
      obtain ⟨hld, _, _⟩ := ts_load hc h (ts_pos_lt cfg t hash (s + 1))
      have hnext : (probePos cfg.W cfg.bits t.mask hash s).moveNext cfg.W t.mask =
          probePos cfg.W cfg.bits t.mask hash (s + 1) := rfl
      have hld' : loadGroup cfg.W t ((probePos cfg.W cfg.bits t.mask hash (s + 1)).pos) =
          .ok (ts_group cfg t (ts_pos cfg t hash (s + 1))) := hld
      have hrun : RawIterHash.next cfg t (fuel + 1) it = RawIterHash.next cfg t fuel
          { it with probe := probePos cfg.W cfg.bits t.mask hash (s + 1),
                    group := ts_group cfg t (ts_pos cfg t hash (s + 1)),
                    bits := cfg.ops.matchTag (ts_group cfg t (ts_pos cfg t hash (s + 1)))
                      (tagFull cfg.bits hash) } := by
        simp only [RawIterHash.next, hit.bits, hit.group, hemp, hE0, hit.probe, hit.mask, hnext,
          hld', hit.tag]
        rfl
      rw [hrun]
      have hit1 : ts_ItAt cfg t hash
          { it with probe := probePos cfg.W cfg.bits t.mask hash (s + 1),
                    group := ts_group cfg t (ts_pos cfg t hash (s + 1)),
                    bits := cfg.ops.matchTag (ts_group cfg t (ts_pos cfg t hash (s + 1)))
                      (tagFull cfg.bits hash) } (s + 1)
          (cfg.ops.matchTag (ts_group cfg t (ts_pos cfg t hash (s + 1))) (tagFull cfg.bits hash)) :=
        ⟨hit.mask, hit.tag, rfl, rfl, rfl⟩
      rcases ih (s + 1) fuel _ _ hit1 (by omega) (fun s' h1 h2 => hno s' (by omega) (by omega))
          (by rw [show s + 1 + d = s + (d + 1) by omega]; exact hE) with
        ⟨a1, it', a2⟩ | ⟨x, it', s', d', bs', a1, a2, a3, a4, a5⟩
      · exact .inl ⟨by simpa [ts_rest, ts_lanes] using a1, it', a2⟩
      · refine .inr ⟨x, it', s', d', bs', a1, a2, by omega, by omega, ?_⟩
        rw [← a5]
        simp [ts_rest, ts_lanes]

theorem ts_all_spec (hc : CfgOk cfg) (h : Inv cfg t) (hash : Nat) :
    ∀ (n d s : Nat) (it : RawIterHash) (bs : List Nat) (fuelA : Nat) (acc : List Nat),
    (bs.map (ts_dec cfg t hash s) ++ ts_rest cfg t hash d s).length = n →
    ts_ItAt cfg t hash it s bs → d < probeFuel t → n < fuelA →
    (∀ s', s ≤ s' → s' < s + d → windowHasEmpty cfg t (ts_pos cfg t hash s') = false) →
    windowHasEmpty cfg t (ts_pos cfg t hash (s + d)) = true →
    RawIterHash.all cfg t fuelA it acc =
      .ok (acc.reverse ++ (bs.map (ts_dec cfg t hash s) ++ ts_rest cfg t hash d s)) := by
  intro n
  induction n with
  | zero =>
    intro d s it bs fuelA acc hlen hit hd hf hno hE
    obtain ⟨fuelA, rfl⟩ : ∃ f, fuelA = f + 1 := ⟨fuelA - 1, by omega⟩
    have hnil := List.eq_nil_of_length_eq_zero hlen
    rcases ts_next_spec hc h hash d s (probeFuel t) it bs hit hd hno hE with
      ⟨_, it', a2⟩ | ⟨x, it', s', d', bs', _, _, _, _, a5⟩
    · simp only [RawIterHash.all, a2, hnil, List.append_nil]
    · rw [hnil] at a5; cases a5
  | succ n ih =>
    intro d s it bs fuelA acc hlen hit hd hf hno hE
    obtain ⟨fuelA, rfl⟩ : ∃ f, fuelA = f + 1 := ⟨fuelA - 1, by omega⟩
    rcases ts_next_spec hc h hash d s (probeFuel t) it bs hit hd hno hE with
      ⟨a1, _, _⟩ | ⟨x, it', s', d', bs', a1, a2, a3, a4, a5⟩
    · rw [a1] at hlen; cases hlen
    · rw [a5] at hlen ⊢
      simp only [List.length_cons, Nat.add_right_cancel_iff] at hlen
      simp only [RawIterHash.all, a1]
      rw [ih d' s' it' bs' fuelA (x :: acc) hlen a2 (by omega) (by omega)
        (fun s'' h1 h2 => hno s'' (by omega) (by omega)) (by rw [a3]; exact hE)]
      simp

/-- First probe step whose window has an EMPTY byte; it is among the first `max 1 (n / W)`. -/
theorem ts_first_empty (hc : CfgOk cfg) (hpc : ProbeCovers cfg) (h : Inv cfg t) (hash : Nat) :
    ∃ d, d < max 1 (t.buckets / cfg.W) ∧ windowHasEmpty cfg t (ts_pos cfg t hash d) = true ∧
      ∀ s', s' < d → windowHasEmpty cfg t (ts_pos cfg t hash s') = false := by
  obtain ⟨i0, hi0, he0⟩ := has_empty hc h
  obtain ⟨s, hs, hmem⟩ := hpc t hash i0 h.pow hi0
  have hEs : windowHasEmpty cfg t (ts_pos cfg t hash s) = true := by
    rw [mem_window_iff] at hmem
    obtain ⟨j, hj, hji⟩ := hmem
    refine windowHasEmpty_iff.mpr ⟨j, hj, ?_⟩
    rcases load_view' hc h (ts_pos_lt cfg t hash s) hj with hv | hv
    · rw [hv]; show t.ctrlAt ((ts_pos cfg t hash s + j) &&& t.mask) = EMPTY
      rw [show (ts_pos cfg t hash s + j) &&& t.mask = i0 from hji, he0]
    · exact hv
  -- least such step
  have key : ∀ n, (∃ s, s ≤ n ∧ windowHasEmpty cfg t (ts_pos cfg t hash s) = true) →
      ∃ d, d ≤ n ∧ windowHasEmpty cfg t (ts_pos cfg t hash d) = true ∧
        ∀ s', s' < d → windowHasEmpty cfg t (ts_pos cfg t hash s') = false := by
    intro n
    induction n with
    | zero =>
      rintro ⟨s, hs, hE⟩
      have : s = 0 := by omega
      subst this
      exact ⟨0, Nat.le_refl _, hE, fun s' hs' => by omega⟩
    | succ n ih =>
      rintro ⟨s, hs, hE⟩
      by_cases hex : ∃ s, s ≤ n ∧ windowHasEmpty cfg t (ts_pos cfg t hash s) = true
      · obtain ⟨d, a1, a2, a3⟩ := ih hex
        exact ⟨d, by omega, a2, a3⟩
      · have hs' : s = n + 1 := by
          by_contra hne
          exact hex ⟨s, by omega, hE⟩
        subst hs'
        refine ⟨n + 1, Nat.le_refl _, hE, fun s' hs' => ?_⟩
        cases hw : windowHasEmpty cfg t (ts_pos cfg t hash s')
        · rfl
        · exact absurd ⟨s', by omega, hw⟩ hex
  obtain ⟨d, a1, a2, a3⟩ := key s ⟨s, Nat.le_refl _, hEs⟩
  exact ⟨d, by omega, a2, a3⟩

/-- **`iter_hash(hash)`** (statement 6) under the structural invariant alone: it terminates
    without fault; no bucket is yielded twice — for every table size, tables smaller than a group
    included; every yielded bucket is a live FULL bucket carrying the tag of `hash` (up to the
    lowest-bit over-report of the portable scanner, C18); and every bucket that carries the tag and
    is reachable by the probe sequence of `hash` is yielded. -/
theorem Table.iterHash_spec (hc : CfgOk cfg) (hpc : ProbeCovers cfg) (h : Inv cfg t) (hash : Nat) :
    ∃ l, Table.iterHash cfg t hash = .ok l ∧ l.Nodup ∧
      (∀ i ∈ l, i < t.buckets ∧ isFull (t.ctrlAt i) = true ∧ (∃ e, t.slots[i]?.join = some e) ∧
        (t.ctrlAt i = tagFull cfg.bits hash ∨ t.ctrlAt i = tagFull cfg.bits hash ^^^ 1)) ∧
      (∀ i, i < t.buckets → t.ctrlAt i = tagFull cfg.bits hash → Reachable cfg t hash i → i ∈ l) := by
  obtain ⟨d, hd, hE, hno⟩ := ts_first_empty hc hpc h hash
  have hnd := ts_iterList_nodup hc h hash d hd
  have hfull : ∀ i ∈ ts_lanes cfg t hash 0 ++ ts_rest cfg t hash d 0,
      i < t.buckets ∧ isFull (t.ctrlAt i) = true ∧ (∃ e, t.slots[i]?.join = some e) ∧
        (t.ctrlAt i = tagFull cfg.bits hash ∨ t.ctrlAt i = tagFull cfg.bits hash ^^^ 1) := by
    intro i hi
    rcases List.mem_append.mp hi with hi | hi
    · obtain ⟨a1, a2, a3, a4, _⟩ := ts_lanes_full hc h hi
      exact ⟨a1, a2, a3, a4⟩
    · obtain ⟨s', _, _, hs'⟩ := ts_mem_rest d 0 i hi
      obtain ⟨a1, a2, a3, a4, _⟩ := ts_lanes_full hc h hs'
      exact ⟨a1, a2, a3, a4⟩
  refine ⟨ts_lanes cfg t hash 0 ++ ts_rest cfg t hash d 0, ?_, hnd, hfull, ?_⟩
  · -- the run
    have hlen : (ts_lanes cfg t hash 0 ++ ts_rest cfg t hash d 0).length ≤ t.ctrl.size := by
      have hsub : ts_lanes cfg t hash 0 ++ ts_rest cfg t hash d 0 ⊆ List.range t.buckets := by
        intro i hi
        exact List.mem_range.mpr (hfull i hi).1
      have := (hnd.subperm hsub).length_le
      rw [List.length_range] at this
      have := h.buckets_le_size hc
      omega
    obtain ⟨hld, _, _⟩ := ts_load hc h (ts_pos_lt cfg t hash 0)
    have hld' : loadGroup cfg.W t (probeSeq cfg.bits t.mask hash).pos =
        .ok (ts_group cfg t (ts_pos cfg t hash 0)) := hld
    simp only [Table.iterHash, RawIterHash.new, hld']
    have hit : ts_ItAt cfg t hash
        { mask := t.mask, tag := tagFull cfg.bits hash, probe := probeSeq cfg.bits t.mask hash,
          group := ts_group cfg t (ts_pos cfg t hash 0),
          bits := cfg.ops.matchTag (ts_group cfg t (ts_pos cfg t hash 0)) (tagFull cfg.bits hash) }
        0 (cfg.ops.matchTag (ts_group cfg t (ts_pos cfg t hash 0)) (tagFull cfg.bits hash)) :=
      ⟨rfl, rfl, rfl, rfl, rfl⟩
    have hdf : d < probeFuel t := by
      have := Nat.div_le_self t.buckets cfg.W
      simp only [probeFuel, Raw.buckets] at *
      omega
    have := ts_all_spec hc h hash _ d 0 _ _ (2 * t.ctrl.size + 2) [] rfl hit hdf
      (by show (ts_lanes cfg t hash 0 ++ ts_rest cfg t hash d 0).length < _; omega)
      (fun s' h1 h2 => hno s' (by omega)) (by rw [Nat.zero_add]; exact hE)
    rw [this]
    rfl
  · -- completeness
    intro i hi htag ⟨s, _, hmem, hnoE⟩
    have hsd : s ≤ d := by
      by_contra hn
      have := hnoE d (by omega)
      rw [show (probePos cfg.W cfg.bits t.mask hash d).pos = ts_pos cfg t hash d from rfl, hE] at this
      cases this
    obtain ⟨j, hj, hji, hjc⟩ := window_lane hc h (ts_pos_lt cfg t hash s) hi hmem
    obtain ⟨_, hv, hget⟩ := ts_load hc h (ts_pos_lt cfg t hash s)
    have hjm := hc.spec.tagComplete _ (tagFull cfg.bits hash) hv (tagFull_lt_128 _ _) j hj
      (by rw [hget j hj, hjc, htag])
    have hil : i ∈ ts_lanes cfg t hash s := by
      simp only [ts_lanes, List.mem_map]
      exact ⟨j, hjm, hji⟩
    by_cases hs0 : s = 0
    · subst hs0; exact List.mem_append_left _ hil
    · exact List.mem_append_right _ (ts_lanes_sub_rest d 0 s (by omega) (by omega) i hil)

end IterHash

/-! ## Part C — the hash-dependent invariant of a `HashTable` (a MULTISET of elements)

`InvL` (Defs.lean) contains "keys are pairwise distinct", which is false for a `HashTable`
(`insert_unique` never looks). `TblInv` is `InvL` without that clause; everything below is the
reasoning of `InvLStep.lean` / `GrowLawful.lean` with the clause left out (it was only ever used to
re-establish itself). `H k` is the hash under which an element with key `k` was inserted — the
caller-supplied `hash` argument and what the `hasher` closure returns. -/

/-- The hash-dependent clauses: every stored element carries the tag of its hash and is reachable
    by the probe sequence of its hash. Depends on `mask`, `ctrl`, `slots` only. -/
structure TPart (cfg : Cfg) (H : Nat → Nat) (t : Raw) : Prop where
  tag : ∀ (i : Nat) (e : Elem), t.slots[i]?.join = some e → t.ctrlAt i = tagFull cfg.bits (H e.k)
  reach : ∀ (i : Nat) (e : Elem), t.slots[i]?.join = some e → Reachable cfg t (H e.k) i

/-- Table-level invariant of a `HashTable` whose elements were inserted with hash `H key`. -/
structure TblInv (cfg : Cfg) (H : Nat → Nat) (t : Raw) : Prop where
  inv : Inv cfg t
  layout : t.LayoutOk cfg
  tag : ∀ (i : Nat) (e : Elem), t.slots[i]?.join = some e → t.ctrlAt i = tagFull cfg.bits (H e.k)
  reach : ∀ (i : Nat) (e : Elem), t.slots[i]?.join = some e → Reachable cfg t (H e.k) i

theorem TblInv.tpart {H : Nat → Nat} {t : Raw} (h : TblInv cfg H t) : TPart cfg H t :=
  ⟨h.tag, h.reach⟩

theorem TblInv.tinv {H : Nat → Nat} {t : Raw} (h : TblInv cfg H t) : TInv cfg t := ⟨h.inv, h.layout⟩

theorem TblInv.of_tpart {H : Nat → Nat} {t : Raw} (h : TInv cfg t) (hL : TPart cfg H t) :
    TblInv cfg H t := ⟨h.1, h.2, hL.tag, hL.reach⟩

/-- A map's invariant is a table's. -/
theorem InvL.tblInv {H : Nat → Nat} {t : Raw} (h : InvL cfg H t) (hlo : t.LayoutOk cfg) :
    TblInv cfg H t := ⟨h.toInv, hlo, h.tag, h.reach⟩

theorem TblInv.new (hc : CfgOk cfg) (H : Nat → Nat) : TblInv cfg H (Raw.new cfg.W) := by
  have := TInv.new hc
  refine TblInv.of_tpart this ⟨?_, ?_⟩ <;>
  · intro i e he
    simp [Raw.new] at he

theorem TPart.congr {H : Nat → Nat} {t t' : Raw} (h : TPart cfg H t) (hm : t'.mask = t.mask)
    (hct : t'.ctrl = t.ctrl) (hs : t'.slots = t.slots) : TPart cfg H t' := by
  refine ⟨?_, ?_⟩
  · intro i e he
    rw [hs] at he
    simp only [Raw.ctrlAt, hct]
    exact h.tag i e he
  · intro i e he
    rw [hs] at he
    exact (Reachable_congr hm hct _ _).2 (h.reach i e he)

theorem TPart.of_elems_nil {H : Nat → Nat} {t : Raw} (h : t.elems = []) : TPart cfg H t := by
  refine ⟨?_, ?_⟩
  · intro i e he; rw [gl_elems_nil h] at he; cases he
  · intro i e he; rw [gl_elems_nil h] at he; cases he

/-- Writing a FULL byte into a special bucket `idx` that is reachable for the new element's hash
    keeps the hash-dependent clauses: windows can only lose EMPTY bytes. -/
theorem TPart.insert_at {H : Nat → Nat} {t t' : Raw}
    (h : Inv cfg t) (h' : Inv cfg t') (ha : t.alloc = true) (ha' : t'.alloc = true)
    (hL : TPart cfg H t) (e : Elem) {idx : Nat} (hlt : idx < t.buckets)
    (hr : Reachable cfg t (H e.k) idx) (hm : t'.mask = t.mask)
    (hsl : t'.slots = t.slots.setIfInBounds idx (some e))
    (hct : ∀ j, j < t.buckets →
      t'.ctrlAt j = if j = idx then tagFull cfg.bits (H e.k) else t.ctrlAt j) :
    TPart cfg H t' := by
  have hall := h.allocated ha
  have hbk : t'.buckets = t.buckets := by simp only [Raw.buckets_eq, hm]
  have htag := tagFull_lt cfg.bits (H e.k)
  have hmono : ∀ pos, pos < t.buckets → windowHasEmpty cfg t pos = false →
      windowHasEmpty cfg t' pos = false := by
    intro pos hpos hw
    cases hw' : windowHasEmpty cfg t' pos
    · rfl
    · have := windowHasEmpty_mono h h' ha ha' hm (fun k hk he => ?_) hpos hw'
      · rw [hw] at this; cases this
      · rw [hct k hk] at he
        split at he
        · rw [EMPTY] at he; omega
        · exact he
  have hslt : ∀ i e', t.slots[i]?.join = some e' → i < t.buckets := by
    intro i e' hs'
    have := slot_some_lt hs'
    rw [hall.2.2.2.1] at this; exact this
  have hkeep : ∀ hash i, Reachable cfg t hash i → Reachable cfg t' hash i := by
    rintro hash i ⟨s2, hs1, hs2, hs3⟩
    refine ⟨s2, by rw [hbk]; exact hs1, ?_, ?_⟩
    · rw [hm, window_congr hm]; exact hs2
    · intro s' hs'
      rw [hm]
      exact hmono _ (probePos_lt ..) (hs3 s' hs')
  refine ⟨?_, ?_⟩
  · intro i e' hs'
    rw [hsl] at hs'
    rcases slots_set_some hs' with ⟨rfl, rfl, _⟩ | ⟨hne, hs''⟩
    · rw [hct i hlt, if_pos rfl]
    · rw [hct i (hslt i e' hs''), if_neg hne]
      exact hL.tag i e' hs''
  · intro i e' hs'
    rw [hsl] at hs'
    rcases slots_set_some hs' with ⟨rfl, rfl, _⟩ | ⟨hne, hs''⟩
    · exact hkeep _ _ hr
    · exact hkeep _ _ (hL.reach i e' hs'')

/-- The slot `find_insert_slot` returns is reachable for the hash it was asked for. -/
theorem ts_findInsertSlot_reach (hc : CfgOk cfg) (hp : ProbeCovers cfg) {t : Raw} (h : Inv cfg t)
    {hash idx : Nat} (hs : findInsertSlot cfg t hash = .ok idx) :
    idx < t.buckets ∧ isSpecial (t.ctrlAt idx) = true ∧ Reachable cfg t hash idx := by
  obtain ⟨idx', s, hfs, hsn, hfull, hwin, hlt, hsp⟩ := findInsertSlot_first hc hp h hash
  rw [hs] at hfs
  cases hfs
  exact ⟨hlt, hsp, s, hsn, hwin, fun s' hs' => windowHasEmpty_false_of_full (hfull s' hs')⟩

/-- One insertion at the slot chosen by `find_insert_slot` (an equal element may already be
    stored). -/
theorem TPart.insert (hc : CfgOk cfg) (hp : ProbeCovers cfg) {H : Nat → Nat} {t t' : Raw}
    (h : Inv cfg t) (h' : Inv cfg t') (ha : t.alloc = true) (ha' : t'.alloc = true)
    (hL : TPart cfg H t) (e : Elem) {idx : Nat}
    (hs : findInsertSlot cfg t (H e.k) = .ok idx) (hm : t'.mask = t.mask)
    (hsl : t'.slots = t.slots.setIfInBounds idx (some e))
    (hct : ∀ j, j < t.buckets →
      t'.ctrlAt j = if j = idx then tagFull cfg.bits (H e.k) else t.ctrlAt j) :
    TPart cfg H t' := by
  obtain ⟨hlt, _, hr⟩ := ts_findInsertSlot_reach hc hp h hs
  exact TPart.insert_at h h' ha ha' hL e hlt hr hm hsl hct

/-! ### `insert_in_slot`, `remove`, payload writes -/

/-- **`insert_in_slot` at a reachable special bucket preserves `TblInv`** — duplicates allowed. -/
theorem insertInSlot_tblInv_at (hc : CfgOk cfg) (H : Nat → Nat) {t : Raw}
    (h : TblInv cfg H t) (ha : t.alloc = true) (e : Elem) {idx : Nat} (hlt : idx < t.buckets)
    (hsp : isSpecial (t.ctrlAt idx) = true) (hr : Reachable cfg t (H e.k) idx)
    (hg : t.ctrlAt idx = EMPTY → 0 < t.gl) :
    ∃ t', insertInSlot cfg t (H e.k) idx e = .ok t' ∧ TblInv cfg H t' ∧
      t'.slots = t.slots.setIfInBounds idx (some e) ∧ t'.mask = t.mask ∧
      t'.items = t.items + 1 ∧ List.Perm t'.elems (e :: t.elems) := by
  obtain ⟨t', hins, h', hm, hal, hit, hsl, hct, _⟩ :=
    insertInSlot_inv hc h.inv ha hlt hsp hg e (H e.k)
  obtain ⟨t'', b1, b2, _, _, _, b6, _, _⟩ := ag_insertInSlot hc h.tinv ha hlt hsp hg e (H e.k)
  rw [hins] at b1
  cases b1
  exact ⟨t', hins, TblInv.of_tpart b2
    (TPart.insert_at h.inv h' ha hal h.tpart e hlt hr hm hsl hct), hsl, hm, hit, b6⟩

/-- **`insert_in_slot` at the slot chosen by `find_insert_slot` preserves `TblInv`.** -/
theorem insertInSlot_tblInv (hc : CfgOk cfg) (hp : ProbeCovers cfg) (H : Nat → Nat) {t : Raw}
    (h : TblInv cfg H t) (ha : t.alloc = true) (e : Elem) {idx : Nat}
    (hs : findInsertSlot cfg t (H e.k) = .ok idx) (hg : t.ctrlAt idx = EMPTY → 0 < t.gl) :
    ∃ t', insertInSlot cfg t (H e.k) idx e = .ok t' ∧ TblInv cfg H t' ∧
      t'.slots = t.slots.setIfInBounds idx (some e) ∧ t'.mask = t.mask ∧
      t'.items = t.items + 1 ∧ List.Perm t'.elems (e :: t.elems) := by
  obtain ⟨hlt, hsp, hr⟩ := ts_findInsertSlot_reach hc hp h.inv hs
  exact insertInSlot_tblInv_at hc H h ha e hlt hsp hr hg

/-- **`remove` preserves `TblInv`** (tombstones keep windows). -/
theorem removeAt_tblInv (hc : CfgOk cfg) (H : Nat → Nat) {t : Raw} (h : TblInv cfg H t)
    {idx : Nat} (hi : idx < t.buckets) (hf : isFull (t.ctrlAt idx) = true) :
    ∃ e t', removeAt cfg t idx = .ok (e, t') ∧ t.slots[idx]?.join = some e ∧ TblInv cfg H t' ∧
      t'.slots = t.slots.setIfInBounds idx none ∧ t'.mask = t.mask ∧ t'.items + 1 = t.items ∧
      List.Perm (e :: t'.elems) t.elems := by
  have hinv := h.inv
  obtain ⟨e, t', hr, hse, h', hm, hal, hit, hsl, hoth, _, _⟩ := removeAt_inv hc hinv hi hf
  have hw := erase_keeps_windows hc hinv hi hf hr
  have ha := hinv.alloc_of_full hc hi hf
  have hall := hinv.allocated ha
  have hbk : t'.buckets = t.buckets := by simp only [Raw.buckets_eq, hm]
  have hslot : t.slots[idx]? = some (some e) := by
    have hi' : idx < t.slots.size := slot_some_lt hse
    rw [Array.getElem?_eq_getElem hi'] at hse ⊢
    simpa using hse
  refine ⟨e, t', hr, hse, TblInv.of_tpart (h.tinv.of_inv h' hm) ⟨?_, ?_⟩, hsl, hm, hit,
    elems_take_perm hslot hsl⟩
  · intro i e' hs
    rw [hsl] at hs
    obtain ⟨hne, hs'⟩ := slots_set_none hs
    have hlt : i < t.buckets := by
      have := slot_some_lt hs'
      rw [hall.2.2.2.1] at this; exact this
    rw [hoth i hlt hne]
    exact h.tag i e' hs'
  · intro i e' hs
    rw [hsl] at hs
    obtain ⟨hne, hs'⟩ := slots_set_none hs
    obtain ⟨s, hs1, hs2, hs3⟩ := h.reach i e' hs'
    refine ⟨s, by rw [hbk]; exact hs1, ?_, ?_⟩
    · rw [hm, window_congr hm]; exact hs2
    · intro s' hs'
      rw [hm, hw _ (probePos_lt ..)]
      exact hs3 s' hs'

/-- Overwriting a stored element by one with the same hash (e.g. a payload write through
    `&mut T`) preserves `TblInv`. -/
theorem slot_update_tblInv {H : Nat → Nat} {t : Raw} (h : TblInv cfg H t) {i : Nat} {e e' : Elem}
    (he : t.slots[i]?.join = some e) (hk : H e'.k = H e.k) :
    TblInv cfg H { t with slots := t.slots.setIfInBounds i (some e') } := by
  have hinv' := ag_inv_slot_replace h.inv he e'
  refine TblInv.of_tpart (h.tinv.of_inv hinv' rfl) ⟨?_, ?_⟩
  · intro j x hs
    have hs' : (t.slots.setIfInBounds i (some e'))[j]?.join = some x := hs
    show t.ctrlAt j = _
    rcases slots_set_some hs' with ⟨rfl, rfl, _⟩ | ⟨_, hs''⟩
    · rw [hk]; exact h.tag j e he
    · exact h.tag j x hs''
  · intro j x hs
    have hs' : (t.slots.setIfInBounds i (some e'))[j]?.join = some x := hs
    show Reachable cfg t _ j
    rcases slots_set_some hs' with ⟨rfl, rfl, _⟩ | ⟨_, hs''⟩
    · rw [hk]; exact h.reach j e he
    · exact h.reach j x hs''

theorem ts_setV_k (cfg : Cfg) (e : Elem) (nv : Nat) : (Table.setV cfg e nv).k = e.k := by
  unfold Table.setV; split <;> rfl

/-! ### growth: `resize_inner` -/

/-- The move loop of `resize_inner` keeps the hash-dependent clauses in the table under
    construction, whatever keys the old table holds. -/
theorem ts_resizeLoop_tpart (hc : CfgOk cfg) (hp : ProbeCovers cfg) (env : Env) (H : Nat → Nat)
    (hh : ∀ c k, env.hash c k = some (H k)) (old : Raw) :
    ∀ (idxs : List Nat) (new : Raw) (w : World) (n : Nat) (new' : Raw) (w' : World),
      ResizeInv cfg new n → n + idxs.length ≤ bucketMaskToCapacity new.mask →
      TPart cfg H new →
      resizeLoop cfg env old idxs new w = .ok (new', w') → TPart cfg H new' := by
  intro idxs
  induction idxs with
  | nil =>
    intro new w n new' w' _ _ hL hr
    simp only [resizeLoop, Res.ok.injEq, Prod.mk.injEq] at hr
    rw [← hr.1]; exact hL
  | cons i rest ih =>
    intro new w n new' w' h hle hL hr
    rw [List.length_cons] at hle
    cases hget : slotGet old i with
    | error f => simp only [resizeLoop, hget] at hr; cases hr
    | ok e =>
      have hhe := hh w.hc e.k
      obtain ⟨ni, oc, new1, new2, hprep, hput, hinv2, hmask, _⟩ :=
        resizeStep hc hp h (by omega) (H e.k) e
      simp only [resizeLoop, hget, World.hashCall, hhe, hprep, hput] at hr
      obtain ⟨hfind, hset⟩ := gl_prepareInsertSlot_eq hprep
      obtain ⟨_, hnew2⟩ := gl_slotPut_eq hput
      obtain ⟨f1, f2, f3⟩ := gl_setCtrl_frame hset
      have hall : new.IsAllocated cfg := h.inv.allocated h.alloc
      have hlt : ni < new.buckets := by
        obtain ⟨idx, hf, hlt, _⟩ := findInsertSlot_ok hc hp h.inv (H e.k)
        rw [findInsertSlot_patch, hfind] at hf
        cases hf; exact hlt
      obtain ⟨t1, he1, _, _, _, _, _, _, h7⟩ := setCtrl_ok hc hall hlt (tagFull cfg.bits (H e.k))
      rw [hset] at he1
      cases he1
      have hctn := ctrlAt_bucket hc hall hlt h7
      have hL2 : TPart cfg H new2 := by
        refine TPart.congr (t := new2.patch) ?_ rfl rfl rfl
        refine TPart.insert hc hp (t := new.patch) (t' := new2.patch) (idx := ni) h.inv hinv2.inv
          h.alloc hinv2.alloc (hL.congr rfl rfl rfl) e ?_ hmask ?_ ?_
        · rw [findInsertSlot_patch]; exact hfind
        · show new2.slots = new.slots.setIfInBounds ni (some e)
          rw [hnew2, ← f1]
        · intro j hj
          show new2.ctrlAt j = _
          rw [hnew2]
          exact hctn j hj
      exact ih new2 { w with hc := w.hc + 1 } (n + 1) new' w' hinv2 (by rw [hmask]; omega) hL2 hr

/-- **`resize_inner` re-establishes the hash-dependent clauses** for a multiset. -/
theorem ts_resizeInner_tpart (hc : CfgOk cfg) (hp : ProbeCovers cfg) (env : Env) (H : Nat → Nat)
    (hh : ∀ c k, env.hash c k = some (H k)) (capacity : Nat) (fb : Fallibility) (w w' : World)
    (h : Inv cfg w.t) (hcap : w.t.items ≤ capacity)
    (hr : resizeInner cfg env capacity fb w = .ok (.ok (), w')) : TPart cfg H w'.t := by
  have hfs := fallibleWithCapacity_spec hc env capacity fb w
  cases hfw : fallibleWithCapacity cfg env capacity fb w with
  | panic c w1 => simp only [resizeInner, hfw] at hr; cases hr
  | abort => simp only [resizeInner, hfw] at hr; cases hr
  | fault f => simp only [resizeInner, hfw] at hr; cases hr
  | ok pr =>
    obtain ⟨r, w1⟩ := pr
    cases r with
    | error e => simp only [resizeInner, hfw] at hr; cases hr
    | ok new =>
      rw [hfw] at hfs
      obtain ⟨hinv, hit, hel, _, hrest⟩ := hfs
      have ht : w1.t = w.t := by
        by_cases h0 : capacity = 0
        · rw [if_pos h0] at hrest; rw [hrest.2]
        · rw [if_neg h0] at hrest
          obtain ⟨_, _, _, _, _, _, l, _, hw1⟩ := hrest
          rw [hw1]
      have hfi := fullIndices_spec hc h
      simp only [resizeInner, hfw, ht, hfi] at hr
      cases hrl : resizeLoop cfg env w.t w.t.fullList new w1 with
      | panic c w2 => rw [hrl] at hr; cases hr
      | abort => rw [hrl] at hr; cases hr
      | fault f => rw [hrl] at hr; cases hr
      | ok pr2 =>
        obtain ⟨new1, w2⟩ := pr2
        rw [hrl] at hr
        simp only at hr
        have hL1 : TPart cfg H new1 := by
          by_cases h0 : capacity = 0
          · have hlen := fullList_length hc h
            have hnil : w.t.fullList = [] :=
              List.eq_nil_of_length_eq_zero (by rw [hlen]; omega)
            rw [hnil] at hrl
            simp only [resizeLoop, Res.ok.injEq, Prod.mk.injEq] at hrl
            rw [← hrl.1]
            exact TPart.of_elems_nil hel
          · rw [if_neg h0] at hrest
            obtain ⟨hal, hcg, hgl, _⟩ := hrest
            have hlen := fullList_length hc h
            exact ts_resizeLoop_tpart hc hp env H hh w.t w.t.fullList new w1 0 new1 w2
              (ResizeInv.init hinv hal hit hgl) (by omega) (TPart.of_elems_nil hel) hrl
        have hfin : w'.t = { new1 with gl := new1.gl - w.t.items, items := w.t.items } := by
          split at hr
          · cases hr
          · split at hr
            · cases hr; rfl
            · cases hfb : freeBuckets cfg w.t.mask
                { w2 with t := { new1 with gl := new1.gl - w.t.items, items := w.t.items } } with
              | ok w4 =>
                rw [hfb] at hr
                cases hr
                exact gl_freeBuckets_t hfb
              | panic c w4 => rw [hfb] at hr; cases hr
              | abort => rw [hfb] at hr; cases hr
              | fault f => rw [hfb] at hr; cases hr
        rw [hfin]
        exact hL1.congr rfl rfl rfl

/-! ### growth: `rehash_in_place` -/

/-- `LR` of GrowLawful.lean without the distinct-keys clause. -/
structure ts_LR (cfg : Cfg) (H : Nat → Nat) (t : Raw) : Prop where
  tag : ∀ (i : Nat) (e : Elem), t.slots[i]?.join = some e → isFull (t.ctrlAt i) = true →
    t.ctrlAt i = tagFull cfg.bits (H e.k)
  reach : ∀ (i : Nat) (e : Elem), t.slots[i]?.join = some e → isFull (t.ctrlAt i) = true →
    ∃ s, s < t.buckets ∧ i ∈ window cfg t (probePos cfg.W cfg.bits t.mask (H e.k) s).pos ∧
      ∀ s', s' < s → AllFull cfg t (probePos cfg.W cfg.bits t.mask (H e.k) s').pos

theorem ts_LR.step {H : Nat → Nat} {t t' : Raw} (hL : ts_LR cfg H t) (hm : t'.mask = t.mask)
    (hmono : ∀ pos, pos < t.buckets → AllFull cfg t pos → AllFull cfg t' pos)
    {d : Nat} {e : Elem}
    (hold : ∀ (j : Nat) (e' : Elem), t'.slots[j]?.join = some e' → isFull (t'.ctrlAt j) = true →
      (j = d ∧ e' = e) ∨
      (t.slots[j]?.join = some e' ∧ isFull (t.ctrlAt j) = true ∧ t'.ctrlAt j = t.ctrlAt j))
    (htag : t'.ctrlAt d = tagFull cfg.bits (H e.k))
    (hreach : ∃ s, s < t.buckets ∧
      d ∈ window cfg t (probePos cfg.W cfg.bits t.mask (H e.k) s).pos ∧
      ∀ s', s' < s → AllFull cfg t (probePos cfg.W cfg.bits t.mask (H e.k) s').pos) :
    ts_LR cfg H t' := by
  have hbk : t'.buckets = t.buckets := by simp only [Raw.buckets_eq, hm]
  refine ⟨?_, ?_⟩
  · intro j e' hs hf
    rcases hold j e' hs hf with ⟨rfl, rfl⟩ | ⟨h1, h2, h3⟩
    · exact htag
    · rw [h3]; exact hL.tag j e' h1 h2
  · intro j e' hs hf
    rcases hold j e' hs hf with ⟨rfl, rfl⟩ | ⟨h1, h2, h3⟩
    · obtain ⟨s, hs1, hs2, hs3⟩ := hreach
      refine ⟨s, by rw [hbk]; exact hs1, by rw [hm, window_congr hm]; exact hs2, fun s' hs' => ?_⟩
      rw [hm]; exact hmono _ (probePos_lt ..) (hs3 s' hs')
    · obtain ⟨s, hs1, hs2, hs3⟩ := hL.reach j e' h1 h2
      refine ⟨s, by rw [hbk]; exact hs1, by rw [hm, window_congr hm]; exact hs2, fun s' hs' => ?_⟩
      rw [hm]; exact hmono _ (probePos_lt ..) (hs3 s' hs')

/-- The inner loop of `rehash_in_place` keeps `ts_LR`. -/
theorem ts_rehashInner_lr (hc : CfgOk cfg) (hp : ProbeCovers cfg) (env : Env) (H : Nat → Nat)
    (hh : ∀ c k, env.hash c k = some (H k)) (i : Nat) :
    ∀ (fuel : Nat) (w w' : World), RInv cfg w.t → ts_LR cfg H w.t → i < w.t.buckets →
      w.t.ctrlAt i = DELETED → rehashInner cfg env i fuel w = .ok w' → ts_LR cfg H w'.t := by
  intro fuel
  induction fuel with
  | zero =>
    intro w w' _ _ _ _ hr
    simp only [rehashInner] at hr
    cases hr
  | succ fuel ih =>
    intro w w' h hL hi hd hr
    obtain ⟨e, hslot⟩ := h.slot_live hi (by rw [hd]; rfl)
    have hget : slotGet w.t i = .ok e := by simp only [slotGet, hslot]
    have hhe := hh w.hc e.k
    obtain ⟨ni, hfind, hni, hsp⟩ := h.finv.findInsertSlot_ok hc hp (H e.k)
    obtain ⟨s, hs, hwni, hwi, hfull⟩ := gl_dest_reach hc hp h hi hfind hni
    have hnfi : isFull (w.t.ctrlAt i) = false := by rw [hd]; rfl
    have hnfn : isFull (w.t.ctrlAt ni) = false := isFull_false_of_special hsp
    have hslt : ∀ (j : Nat) (x : Elem), w.t.slots[j]?.join = some x → j < w.t.buckets := by
      intro j x hj
      have := slot_some_lt hj
      rw [h.slots_size] at this; exact this
    by_cases hsame : isInSameGroup cfg.bits cfg.W w.t.mask i ni (H e.k) = true
    · obtain ⟨t', hset, hinv, hm, hit, hsl, hct⟩ := inner_same hc h hi hd (H e.k)
      simp only [rehashInner, hget, World.hashCall, hhe, hfind, hsame, if_true, hset] at hr
      cases hr
      show ts_LR cfg H t'
      refine hL.step (d := i) (e := e) hm ?_ ?_ ?_ ⟨s, hs, hwi hsame, hfull⟩
      · refine gl_mono_of_bytes hc h hinv hm (fun j hj hfj => ?_)
        rw [hct j hj, if_neg (by rintro rfl; rw [hnfi] at hfj; cases hfj)]
      · intro j x hsx hf
        rw [hsl] at hsx
        by_cases hji : j = i
        · left
          subst hji
          rw [hslot] at hsx
          simp only [Option.join_some, Option.some.injEq] at hsx
          exact ⟨rfl, hsx.symm⟩
        · right
          have hj := hslt j x hsx
          rw [hct j hj, if_neg hji] at hf ⊢
          exact ⟨hsx, hf, rfl⟩
      · rw [hct i hi, if_pos rfl]
    · have hne : ni ≠ i := by
        intro heq; rw [heq, isInSameGroup_self] at hsame; exact hsame rfl
      have hszn : ni < w.t.ctrl.size := by have := h.allocated.2.2.1; omega
      have hrd := ctrlRd_ok (t := w.t) hszn
      have hvn := h.struct.valid ni hszn
      rcases special_cases hvn hsp with hpe | hpd
      · obtain ⟨t1, t2, e', t3, t4, h1, h2, h3, h4, hinv, hm, hit, hperm, hct⟩ :=
          inner_move hc h hi hd hni hne hpe (H e.k)
        simp only [rehashInner, hget, World.hashCall, hhe, hfind, hsame, Bool.false_eq_true,
          if_false, hrd, h1, hpe, if_true, h2, h3, h4] at hr
        cases hr
        show ts_LR cfg H t4
        obtain ⟨f1, _, _⟩ := gl_setCtrl_frame h1
        obtain ⟨g1, _, _⟩ := gl_setCtrl_frame h2
        obtain ⟨hs3, ht3⟩ := gl_slotTake_eq h3
        obtain ⟨_, ht4⟩ := gl_slotPut_eq h4
        have hs2 : t2.slots = w.t.slots := g1.trans f1
        have hee : e' = e := by
          rw [hs2, hslot] at hs3
          simp only [Option.some.injEq] at hs3
          exact hs3.symm
        have hsl4 : t4.slots = (w.t.slots.setIfInBounds i none).setIfInBounds ni (some e) := by
          rw [ht4, ht3, hee]
          show (t2.slots.setIfInBounds i none).setIfInBounds ni (some e) = _
          rw [hs2]
        refine hL.step (d := ni) (e := e) hm ?_ ?_ ?_ ⟨s, hs, hwni, hfull⟩
        · refine gl_mono_of_bytes hc h hinv hm (fun j hj hfj => ?_)
          rw [hct j hj, if_neg (by rintro rfl; rw [hnfi] at hfj; cases hfj),
            if_neg (by rintro rfl; rw [hnfn] at hfj; cases hfj)]
        · intro j x hsx hf
          rw [hsl4] at hsx
          rcases slots_set_some hsx with ⟨hjn, hxe, _⟩ | ⟨hjn, hs'⟩
          · left; exact ⟨hjn, hxe⟩
          · obtain ⟨hji, hs''⟩ := slots_set_none hs'
            right
            have hj := hslt j x hs''
            rw [hct j hj, if_neg hji, if_neg hjn] at hf ⊢
            exact ⟨hs'', hf, rfl⟩
        · rw [hct ni hni, if_neg hne, if_pos rfl]
      · obtain ⟨t1, en, ei, h1, h2, h3, hinv, hm, hit, hperm, hct, hcnt⟩ :=
          inner_swap hc h hi hd hni hpd (H e.k)
        have hpne : ¬ (w.t.ctrlAt ni = EMPTY) := by rw [hpd]; decide
        simp only [rehashInner, hget, World.hashCall, hhe, hfind, hsame, Bool.false_eq_true,
          if_false, hrd, h1, hpne, h2, h3] at hr
        obtain ⟨f1, _, _⟩ := gl_setCtrl_frame h1
        have hsn : w.t.slots[ni]? = some (some en) := by rw [← f1]; exact gl_slotGet_eq h2
        have hee : ei = e := by
          have := gl_slotGet_eq h3
          rw [f1, hslot] at this
          simp only [Option.some.injEq] at this
          exact this.symm
        let t2 : Raw :=
          { t1 with slots := (t1.slots.setIfInBounds i (some en)).setIfInBounds ni (some ei) }
        have hsl2 : t2.slots = (w.t.slots.setIfInBounds i (some en)).setIfInBounds ni (some e) := by
          show (t1.slots.setIfInBounds i (some en)).setIfInBounds ni (some ei) = _
          rw [f1, hee]
        have hct2 : ∀ j, j < w.t.buckets → t2.ctrlAt j =
            if j = ni then tagFull cfg.bits (H e.k) else w.t.ctrlAt j := hct
        have hm2 : t2.mask = w.t.mask := hm
        have hb2 : t2.buckets = w.t.buckets := by simp only [Raw.buckets_eq, hm2]
        have hL2 : ts_LR cfg H t2 := by
          refine hL.step (d := ni) (e := e) hm2 ?_ ?_ ?_ ⟨s, hs, hwni, hfull⟩
          · refine gl_mono_of_bytes hc h hinv hm2 (fun j hj hfj => ?_)
            rw [hct2 j hj, if_neg (by rintro rfl; rw [hnfn] at hfj; cases hfj)]
          · intro j x hsx hf
            rw [hsl2] at hsx
            rcases slots_set_some hsx with ⟨hjn, hxe, _⟩ | ⟨hjn, hs'⟩
            · left; exact ⟨hjn, hxe⟩
            · rcases slots_set_some hs' with ⟨hji, _, _⟩ | ⟨hji, hs''⟩
              · exfalso
                rw [hct2 j (by rw [hji]; exact hi), if_neg hjn, hji, hnfi] at hf
                cases hf
              · right
                have hj := hslt j x hs''
                rw [hct2 j hj, if_neg hjn] at hf ⊢
                exact ⟨hs'', hf, rfl⟩
          · rw [hct2 ni hni, if_pos rfl]
        exact ih { w with hc := w.hc + 1, t := t2 } w' hinv hL2 (by rw [hb2]; exact hi)
          (by rw [hct2 i hi, if_neg (Ne.symm hne)]; exact hd) hr

/-- The outer loop of `rehash_in_place` keeps `ts_LR`. -/
theorem ts_rehashOuter_lr (hc : CfgOk cfg) (hp : ProbeCovers cfg) (env : Env) (H : Nat → Nat)
    (hh : ∀ c k, env.hash c k = some (H k)) :
    ∀ (fuel i : Nat) (w w' : World), RInv cfg w.t → ts_LR cfg H w.t → i + fuel = w.t.buckets →
      rehashOuter cfg env fuel i w = .ok w' → ts_LR cfg H w'.t := by
  intro fuel
  induction fuel with
  | zero =>
    intro i w w' _ hL _ hr
    simp only [rehashOuter, Res.ok.injEq] at hr
    rw [← hr]; exact hL
  | succ fuel ih =>
    intro i w w' h hL hif hr
    have hi : i < w.t.buckets := by omega
    have hsz : i < w.t.ctrl.size := by have := h.allocated.2.2.1; omega
    have hrd := ctrlRd_ok (t := w.t) hsz
    by_cases hd : w.t.ctrlAt i = DELETED
    · have hin := rehashInner_spec hc hp env i (w.t.buckets + 1) w h hi hd
        (by have := countCtrl_le w.t (· == DELETED); omega)
      cases hr1 : rehashInner cfg env i (w.t.buckets + 1) w with
      | ok w1 =>
        rw [hr1] at hin
        obtain ⟨hstep, _⟩ := hin
        simp only [rehashOuter, hrd, hd, if_true, hr1] at hr
        exact ih (i + 1) w1 w' hstep.inv
          (ts_rehashInner_lr hc hp env H hh i _ w w1 h hL hi hd hr1)
          (by rw [hstep.buckets]; omega) hr
      | panic c w2 => simp only [rehashOuter, hrd, hd, if_true, hr1] at hr; cases hr
      | abort => simp only [rehashOuter, hrd, hd, if_true, hr1] at hr; cases hr
      | fault f => simp only [rehashOuter, hrd, hd, if_true, hr1] at hr; cases hr
    · simp only [rehashOuter, hrd, hd, if_false] at hr
      exact ih (i + 1) w w' h hL (by omega) hr

theorem TPart.of_lr {H : Nat → Nat} {t : Raw} (h : Inv cfg t) (hL : ts_LR cfg H t) :
    TPart cfg H t := by
  have hfull : ∀ (i : Nat) (e : Elem), t.slots[i]?.join = some e → isFull (t.ctrlAt i) = true := by
    intro i e he
    have := (h.live i (slot_some_lt he)).1 (by rw [he]; rfl)
    exact this
  refine ⟨fun i e he => hL.tag i e he (hfull i e he), fun i e he => ?_⟩
  obtain ⟨s, hs1, hs2, hs3⟩ := hL.reach i e he (hfull i e he)
  exact ⟨s, hs1, hs2, fun s' hs' => windowHasEmpty_false_of_full (hs3 s' hs')⟩

/-- **`rehash_in_place` re-establishes the hash-dependent clauses** for a multiset. -/
theorem ts_rehashInPlace_tpart (hc : CfgOk cfg) (hp : ProbeCovers cfg) (env : Env) (H : Nat → Nat)
    (hh : ∀ c k, env.hash c k = some (H k)) (w w' : World) (h : Inv cfg w.t)
    (ha : w.t.alloc = true) (hr : rehashInPlace cfg env w = .ok w') : TPart cfg H w'.t := by
  have hspec := rehashInPlace_spec hc hp env w h ha
  rw [hr] at hspec
  obtain ⟨hinv', _⟩ := hspec
  obtain ⟨t1, hprep, hm1, hs1, hi1, _, _, _, hct1, hinv1⟩ :=
    prepareRehashInPlace_spec hc h ha
  have hall := h.allocated ha
  have hL1 : ts_LR cfg H t1 := by
    have hnf : ∀ (i : Nat) (e : Elem), t1.slots[i]?.join = some e →
        isFull (t1.ctrlAt i) = true → False := by
      intro i e he hf
      have hlt : i < w.t.buckets := by
        have := slot_some_lt he
        rw [hs1, hall.2.2.2.1] at this; exact this
      rw [hct1 i hlt] at hf
      split at hf <;> exact absurd hf (by decide)
    exact ⟨fun i e he hf => (hnf i e he hf).elim, fun i e he hf => (hnf i e he hf).elim⟩
  cases hro : rehashOuter cfg env t1.buckets 0 { w with t := t1 } with
  | ok w2 =>
    have hL2 := ts_rehashOuter_lr hc hp env H hh t1.buckets 0 { w with t := t1 } w2 hinv1 hL1
      (by simp) hro
    simp only [rehashInPlace, hprep, hro] at hr
    split at hr
    · cases hr
    · cases hr
      exact TPart.of_lr hinv' ⟨hL2.tag, hL2.reach⟩
  | panic c w2 => simp only [rehashInPlace, hprep, hro] at hr; cases hr
  | abort => simp only [rehashInPlace, hprep, hro] at hr; cases hr
  | fault f => simp only [rehashInPlace, hprep, hro] at hr; cases hr

theorem ts_reserveRehash_tpart (hc : CfgOk cfg) (hp : ProbeCovers cfg) (env : Env) (H : Nat → Nat)
    (hh : ∀ c k, env.hash c k = some (H k)) (additional : Nat) (fb : Fallibility) (w w' : World)
    (h : Inv cfg w.t) (hadd : 0 < additional)
    (hr : reserveRehash cfg env additional fb w = .ok (.ok (), w')) : TPart cfg H w'.t := by
  unfold reserveRehash at hr
  cases hca : checkedAdd cfg.bits w.t.items additional with
  | none =>
    rw [hca] at hr
    cases fb <;> simp [capacityOverflow] at hr
  | some newItems =>
    rw [hca] at hr
    simp only at hr
    have hni := gl_checkedAdd_some hca
    split at hr
    · rename_i hle
      have ha : w.t.alloc = true := by
        rcases h.geom with hsg | hal
        · exfalso
          rw [hsg.2.1] at hle
          simp [bucketMaskToCapacity] at hle
          omega
        · exact hal.1
      cases hrh : rehashInPlace cfg env w with
      | ok w1 =>
        rw [hrh] at hr
        simp only [Res.ok.injEq, Prod.mk.injEq, true_and] at hr
        rw [← hr]
        exact ts_rehashInPlace_tpart hc hp env H hh w w1 h ha hrh
      | panic c w1 => rw [hrh] at hr; cases hr
      | abort => rw [hrh] at hr; cases hr
      | fault f => rw [hrh] at hr; cases hr
    · exact ts_resizeInner_tpart hc hp env H hh _ fb w w' h
        (by have := Nat.le_max_left newItems (bucketMaskToCapacity w.t.mask + 1); omega) hr

/-- **`reserve` preserves `TblInv`** (hasher closure = `H` of the stored key). -/
theorem reserve_tblInv (hc : CfgOk cfg) (hp : ProbeCovers cfg) (env : Env) (H : Nat → Nat)
    (hh : ∀ c k, env.hash c k = some (H k)) (additional : Nat) (w w' : World)
    (h : TblInv cfg H w.t) (hr : reserve cfg env additional w = .ok w') : TblInv cfg H w'.t := by
  have hspec := reserve_spec hc hp env additional w h.tinv
  rw [hr] at hspec
  refine TblInv.of_tpart hspec.1 ?_
  unfold reserve at hr
  split at hr
  · rename_i hgt
    cases hrr : reserveRehash cfg env additional .infallible w with
    | ok pr =>
      obtain ⟨r, w1⟩ := pr
      rw [hrr] at hr
      cases r with
      | error e => cases hr
      | ok u =>
        cases u
        simp only [Res.ok.injEq] at hr
        rw [← hr]
        exact ts_reserveRehash_tpart hc hp env H hh additional .infallible w w1 h.inv
          (by omega) hrr
    | panic c w1 => rw [hrr] at hr; cases hr
    | abort => rw [hrr] at hr; cases hr
    | fault f => rw [hrr] at hr; cases hr
  · cases hr; exact h.tpart

/-- **`try_reserve` preserves `TblInv`** on success. -/
theorem tryReserve_tblInv (hc : CfgOk cfg) (hp : ProbeCovers cfg) (env : Env) (H : Nat → Nat)
    (hh : ∀ c k, env.hash c k = some (H k)) (additional : Nat) (w w' : World)
    (h : TblInv cfg H w.t) (hr : tryReserve cfg env additional w = .ok (.ok (), w')) :
    TblInv cfg H w'.t := by
  have hspec := tryReserve_spec hc hp env additional w h.tinv
  rw [hr] at hspec
  refine TblInv.of_tpart hspec.1 ?_
  unfold tryReserve at hr
  split at hr
  · rename_i hgt
    exact ts_reserveRehash_tpart hc hp env H hh additional .fallible w w' h.inv
      (by omega) hr
  · simp only [Res.ok.injEq, Prod.mk.injEq, true_and] at hr
    rw [← hr]; exact h.tpart

/-! ## Part D — look-ups and single-element updates of a `HashTable` -/

theorem ts_mem_elems_iff {t : Raw} {e : Elem} : e ∈ t.elems ↔ ∃ i : Nat, t.slots[i]?.join = some e := by
  constructor
  · intro h
    rw [Raw.elems, List.mem_filterMap] at h
    obtain ⟨o, ho, hoe⟩ := h
    obtain ⟨i, hi⟩ := List.getElem?_of_mem ho
    refine ⟨i, ?_⟩
    rw [Array.getElem?_toList] at hi
    rw [hi]
    simpa using hoe
  · rintro ⟨i, hi⟩
    exact ag_mem_elems hi

/-- A stored element cannot be missed by a closure that accepts it: if every tag-carrying lane of
    every window up to the first one with an EMPTY byte answered `false`, the closure rejected the
    element. (`lawful_no_miss` for arbitrary closures and multisets.) -/
theorem ts_no_miss (hc : CfgOk cfg) {env : Env} {H : Nat → Nat} {t : Raw} (h : TblInv cfg H t)
    {q i : Nat} {e : Elem} (he : t.slots[i]?.join = some e) (hyes : ∀ c, env.eq c q e = some true)
    {s' : Nat}
    (hE : windowHasEmpty cfg t (probePos cfg.W cfg.bits t.mask (H e.k) s').pos = true)
    (hmiss : ∀ s'', s'' ≤ s' → MissAt cfg env q (tagFull cfg.bits (H e.k)) t
      (probePos cfg.W cfg.bits t.mask (H e.k) s'').pos) : False := by
  obtain ⟨s, _, hmem, hno⟩ := h.reach i e he
  have hss : s ≤ s' := by
    refine Nat.le_of_not_lt fun hlt => ?_
    rw [hno s' hlt] at hE; cases hE
  have hi : i < t.buckets := h.inv.slot_lt he
  have hp : (probePos cfg.W cfg.bits t.mask (H e.k) s).pos < t.buckets := probePos_lt ..
  obtain ⟨j, hj, hji, hjc⟩ := window_lane hc h.inv hp hi hmem
  have htag := h.tag i e he
  obtain ⟨e', c, he', hc'⟩ := hmiss s hss j hj (hjc.trans htag)
  rw [hji, he] at he'; cases he'
  rw [hyes] at hc'; cases hc'

/-- **`find` returns a stored element that the closure accepts** (statement 1): if an element
    `e` inserted with hash `H e.k` is stored and the closure answers `true` on it (and does not
    panic), `find(H e.k, closure)` returns `Some` stored element on which the closure answered
    `true` — `e` itself when the closure accepts nothing else. The table is untouched. -/
theorem Table.find_finds_stored (hc : CfgOk cfg) (hp : ProbeCovers cfg) (env : Env) (H : Nat → Nat)
    (w : World) (h : TblInv cfg H w.t) {i : Nat} {e : Elem} (he : w.t.slots[i]?.join = some e)
    (q : Nat) (hyes : ∀ c, env.eq c q e = some true) (htot : ∀ c x, env.eq c q x ≠ none) :
    ∃ e' w', Table.findElem cfg env (H e.k) q w = .ok (some e', w') ∧ w'.t = w.t ∧
      w'.log = w.log ∧ e' ∈ w.t.elems ∧ (∃ c, env.eq c q e' = some true) ∧
      ((∀ c x, x ∈ w.t.elems → env.eq c q x = some true → x = e) → e' = e) := by
  rcases find_run hc hp env (H e.k) q w h.inv with
    ⟨idx, w', k1, k2, _, _, e', c, k5, k6⟩ | ⟨w', _, _, s', k4, k5⟩ | ⟨w', _, _, x, c, k3⟩
  · have k5' : w'.t.slots[idx]?.join = some e' := by rw [k2.t]; exact k5
    refine ⟨e', w', ?_, k2.t, k2.log, ag_mem_elems k5, ⟨c, k6⟩,
      fun huniq => huniq c e' (ag_mem_elems k5) k6⟩
    simp only [Table.findElem, k1, bind, Res.bind, slotGet_ok k5', liftE, pure]
  · exact (ts_no_miss hc h he hyes k4 k5).elim
  · exact absurd k3 (htot c x)

/-- `find` with the lawful closure `|x| x.key == q` and the hash of `q`: some stored element with
    key `q` if there is one, `None` otherwise. -/
theorem Table.find_lawful (hc : CfgOk cfg) (hp : ProbeCovers cfg) (env : Env) (H : Nat → Nat)
    (hl : Lawful env H) (q : Nat) (w : World) (h : TblInv cfg H w.t) :
    ∃ r w', Table.findElem cfg env (H q) q w = .ok (r, w') ∧ w'.t = w.t ∧ w'.log = w.log ∧
      (∀ x, r = some x → x ∈ w.t.elems ∧ x.k = q) ∧
      (r = none ↔ ∀ x ∈ w.t.elems, x.k ≠ q) := by
  rcases find_run hc hp env (H q) q w h.inv with
    ⟨idx, w', k1, k2, _, _, e', c, k5, k6⟩ | ⟨w', k1, k2, s', k4, k5⟩ | ⟨w', _, _, x, c, k3⟩
  · have k5' : w'.t.slots[idx]?.join = some e' := by rw [k2.t]; exact k5
    have hk := hl.eq_true k6
    refine ⟨some e', w', ?_, k2.t, k2.log, ?_, ⟨fun hn => (by cases hn), fun habs => ?_⟩⟩
    · simp only [Table.findElem, k1, bind, Res.bind, slotGet_ok k5', liftE, pure]
    · intro x hx; cases hx; exact ⟨ag_mem_elems k5, hk⟩
    · exact absurd hk (habs e' (ag_mem_elems k5))
  · refine ⟨none, w', ?_, k2.t, k2.log, fun x hx => (by cases hx), ⟨fun _ x hx hk => ?_, fun _ => rfl⟩⟩
    · simp only [Table.findElem, k1, bind, Res.bind, pure]
    · obtain ⟨i, hi⟩ := ts_mem_elems_iff.mp hx
      subst hk
      exact ts_no_miss hc h hi (fun c => by rw [hl.eq]; simp) k4 k5
  · exact absurd k3 hl.eq_ne_none

/-- **Nothing that is not stored is ever returned** (statement 2): for EVERY environment, under
    the structural invariant alone, whatever `find` returns is an element of the table as it is
    now — in particular never an element that has been removed. No fault; the table is untouched. -/
theorem Table.find_returns_stored (hc : CfgOk cfg) (hp : ProbeCovers cfg) (env : Env)
    (hash q : Nat) (w : World) (h : Inv cfg w.t) :
    match Table.findElem cfg env hash q w with
    | .ok (r, w') => w'.t = w.t ∧ w'.log = w.log ∧ ∀ x, r = some x → x ∈ w.t.elems
    | .panic c w' => c = "eq" ∧ w'.t = w.t ∧ w'.log = w.log
    | .abort => False
    | .fault _ => False := by
  rcases find_total hc hp env hash q w h with ⟨r, w', k1, k2, k3, _, k5⟩ | ⟨w', k1, k2, k3⟩
  · cases r with
    | none =>
      simp only [Table.findElem, k1, bind, Res.bind, pure]
      exact ⟨k2, k3, fun x hx => by cases hx⟩
    | some idx =>
      obtain ⟨_, _, x, hx⟩ := k5 idx rfl
      have hx' : w'.t.slots[idx]?.join = some x := by rw [k2]; exact hx
      simp only [Table.findElem, k1, bind, Res.bind, slotGet_ok hx', liftE, pure]
      refine ⟨k2, k3, fun y hy => ?_⟩
      cases hy
      exact ag_mem_elems hx
  · simp only [Table.findElem, k1, bind, Res.bind]
    exact ⟨trivial, k2, k3⟩

/-- `find_mut(hash, eq).map(|e| e.v = nv)`: for every environment, only the payload of the found
    element changes; `TblInv` and the element count are preserved. -/
theorem Table.findMut_spec (hc : CfgOk cfg) (hp : ProbeCovers cfg) (env : Env) (H : Nat → Nat)
    (hash q nv : Nat) (w : World) (h : TblInv cfg H w.t) :
    match Table.findMut cfg env hash q nv w with
    | .ok (r, w') => TblInv cfg H w'.t ∧ w'.log = w.log ∧ w'.t.items = w.t.items ∧
        (r = none → w'.t = w.t) ∧
        (∀ x, r = some x → ∃ i old, w.t.slots[i]?.join = some old ∧ x = Table.setV cfg old nv ∧
          w'.t = { w.t with slots := w.t.slots.setIfInBounds i (some x) })
    | .panic c w' => c = "eq" ∧ w'.t = w.t ∧ w'.log = w.log
    | .abort => False
    | .fault _ => False := by
  rcases find_total hc hp env hash q w h.inv with ⟨r, w', k1, k2, k3, _, k5⟩ | ⟨w', k1, k2, k3⟩
  · cases r with
    | none =>
      simp only [Table.findMut, k1, bind, Res.bind, pure]
      exact ⟨by rw [k2]; exact h, k3, by rw [k2], fun _ => k2, fun x hx => by cases hx⟩
    | some idx =>
      obtain ⟨_, _, x, hx⟩ := k5 idx rfl
      have hx' : w'.t.slots[idx]?.join = some x := by rw [k2]; exact hx
      simp only [Table.findMut, k1, bind, Res.bind, slotGet_ok hx', liftE, pure]
      have hupd := slot_update_tblInv h hx (e' := Table.setV cfg x nv)
        (by rw [ts_setV_k])
      refine ⟨by rw [k2]; exact hupd, k3, by rw [k2], fun hn => (by cases hn), fun y hy => ?_⟩
      cases hy
      exact ⟨idx, x, hx, rfl, by rw [k2]⟩
  · simp only [Table.findMut, k1, bind, Res.bind]
    exact ⟨trivial, k2, k3⟩

/-- `len()` counts stored elements, duplicates included (statement 3, first half). -/
theorem Table.len_eq_length (hc : CfgOk cfg) {t : Raw} (h : Inv cfg t) :
    t.items = t.elems.length := ag_items_eq_length hc h

/-- `RawTable::insert` keeps `TblInv` — no freshness requirement on the key. -/
theorem rawInsert_tblInv (hc : CfgOk cfg) (hp : ProbeCovers cfg) (env : Env) (H : Nat → Nat)
    (hh : ∀ c k, env.hash c k = some (H k)) (e : Elem) (w : World) (h : TblInv cfg H w.t)
    {idx : Nat} {w' : World} (hr : rawInsert cfg env (H e.k) e w = .ok (idx, w')) :
    TblInv cfg H w'.t ∧ w'.t.items = w.t.items + 1 ∧ List.Perm w'.t.elems (e :: w.t.elems) ∧
      idx < w'.t.buckets ∧ w'.t.slots[idx]? = some (some e) := by
  have hspec := rawInsert_spec hc hp env (H e.k) e w h.tinv
  rw [hr] at hspec
  obtain ⟨_, s2, s3, s4, s5, _⟩ := hspec
  refine ⟨?_, s2, s3, s4, s5⟩
  obtain ⟨slot, hfs, hlt, hsp⟩ := findInsertSlot_ok hc hp h.inv (H e.k)
  have hsz : slot < w.t.ctrl.size := by have := h.inv.buckets_le_size hc; omega
  unfold rawInsert at hr
  simp only [hfs, ctrlRd_ok hsz] at hr
  by_cases hbr : w.t.gl = 0 ∧ specialIsEmpty (w.t.ctrlAt slot) = true
  · rw [if_pos hbr] at hr
    have hres := reserve_spec hc hp env 1 w h.tinv
    cases hrv : reserve cfg env 1 w with
    | ok w1 =>
      rw [hrv] at hres hr
      obtain ⟨a1, _, _, _, a5, a6, _, _⟩ := hres
      have h1 := reserve_tblInv hc hp env H hh 1 w w1 h hrv
      obtain ⟨slot', hfs', _, _⟩ := findInsertSlot_ok hc hp a1.1 (H e.k)
      obtain ⟨t', b1, b2, _⟩ :=
        insertInSlot_tblInv hc hp H h1 (a6 (by omega)) e hfs' (fun _ => by omega)
      simp only [hfs', b1, Res.ok.injEq, Prod.mk.injEq] at hr
      rw [← hr.2]; exact b2
    | panic c w2 => rw [hrv] at hr; cases hr
    | abort => rw [hrv] at hr; cases hr
    | fault f => rw [hrv] at hr; cases hr
  · rw [if_neg hbr] at hr
    have hge : w.t.ctrlAt slot = EMPTY → 0 < w.t.gl := by
      intro he
      have : specialIsEmpty (w.t.ctrlAt slot) = true := by rw [he]; decide
      by_contra hn
      exact hbr ⟨by omega, this⟩
    have ha : w.t.alloc = true := by
      cases hal : w.t.alloc with
      | true => rfl
      | false =>
        exfalso
        have hs := ag_singleton_of_not_alloc h.inv hal
        have h0 : slot = 0 := by have := hs.2.1; simp only [Raw.buckets] at hlt; omega
        have hW : 0 < cfg.W := by rcases hc.W_cases with hW | hW <;> omega
        have hE : w.t.ctrlAt slot = EMPTY := by
          rw [h0]; simp [Raw.ctrlAt, hs.2.2.1, hW]
        have := hge hE
        have := hs.2.2.2.2.2
        omega
    obtain ⟨t', b1, b2, _⟩ := insertInSlot_tblInv hc hp H h ha e hfs hge
    simp only [b1, Res.ok.injEq, Prod.mk.injEq] at hr
    rw [← hr.2]; exact b2

/-- **`insert_unique(hash, value, hasher)`** (statement 3, second half): never a fault; on
    success the multiset of stored elements grows by exactly `value` — whether or not an equal
    element is already stored — `len()` grows by one and `TblInv` holds again. (`.panic`: the
    allocation size overflowed; `.abort`: the allocator refused.) -/
theorem Table.insertUnique_spec (hc : CfgOk cfg) (hp : ProbeCovers cfg) (env : Env) (H : Nat → Nat)
    (hh : ∀ c k, env.hash c k = some (H k)) (e : Elem) (w : World) (h : TblInv cfg H w.t) :
    match Table.insertUnique cfg env (H e.k) e w with
    | .ok w' => TblInv cfg H w'.t ∧ List.Perm w'.t.elems (e :: w.t.elems) ∧
        w'.t.items = w.t.items + 1 ∧ w'.t.elems.length = w.t.elems.length + 1
    | .panic _ _ => True
    | .abort => True
    | .fault _ => False := by
  have hspec := rawInsert_spec hc hp env (H e.k) e w h.tinv
  unfold Table.insertUnique
  cases hr : rawInsert cfg env (H e.k) e w with
  | ok pr =>
    obtain ⟨idx, w'⟩ := pr
    obtain ⟨a1, a2, a3, _, _⟩ := rawInsert_tblInv hc hp env H hh e w h hr
    simp only [Res.onPanic]
    exact ⟨a1, a3, a2, by rw [a3.length_eq]; rfl⟩
  | panic c w' => simp only [Res.onPanic]
  | abort => simp only [Res.onPanic]
  | fault f => rw [hr] at hspec; exact hspec.elim

/-! ### `find_entry` → `OccupiedEntry::remove` → `VacantEntry::insert` -/

/-- The bucket `find` returns lies in a probe window of `hash` before which no window contains
    an EMPTY byte. -/
theorem ts_findLoop_reach (hc : CfgOk cfg) (env : Env) (q hash : Nat) (t : Raw) (h : Inv cfg t) :
    ∀ (fuel s : Nat) (w : World) (idx : Nat) (w' : World), w.t = t →
    findLoop cfg env q (tagFull cfg.bits hash) fuel (probePos cfg.W cfg.bits t.mask hash s) w =
      .ok (some idx, w') →
    ∃ s2, s ≤ s2 ∧ idx ∈ window cfg t (probePos cfg.W cfg.bits t.mask hash s2).pos ∧
      ∀ s', s ≤ s' → s' < s2 →
        windowHasEmpty cfg t (probePos cfg.W cfg.bits t.mask hash s').pos = false := by
  intro fuel
  induction fuel with
  | zero => intro s w idx w' _ hr; simp [findLoop] at hr
  | succ fuel ih =>
    intro s w idx w' hw hr
    have hp : (probePos cfg.W cfg.bits t.mask hash s).pos < t.buckets := probePos_lt ..
    obtain ⟨hld, hv, hget⟩ := ts_load hc h hp
    have hemp := matchEmpty_isEmpty hc hv hget
    have hl : ∀ b ∈ cfg.ops.matchTag (ts_group cfg t (probePos cfg.W cfg.bits t.mask hash s).pos)
        (tagFull cfg.bits hash),
        b < cfg.W ∧ isFull (t.ctrlAt ((probePos cfg.W cfg.bits t.mask hash s).pos + b)) = true := by
      intro b hb
      obtain ⟨a1, a2, _⟩ := ts_lane_full hc h hp (tagFull_lt_128 _ _) hb
      exact ⟨a1, a2⟩
    simp only [findLoop, hw, hld] at hr
    rcases scanTag_run hc env q _ t h hp _ w hw hl with
      ⟨idx0, w0, k1, k2, ⟨b, hb, hidx⟩, _⟩ | ⟨w0, k1, k2, _⟩ | ⟨w0, k1, k2, _⟩
    · rw [k1] at hr
      simp only [Res.ok.injEq, Prod.mk.injEq, Option.some.injEq] at hr
      obtain ⟨rfl, _⟩ := hr
      refine ⟨s, Nat.le_refl _, ?_, fun s' h1 h2 => by omega⟩
      rw [mem_window_iff]
      exact ⟨b, (hl b hb).1, hidx.symm⟩
    · rw [k1] at hr
      simp only [hemp] at hr
      cases hE : windowHasEmpty cfg t (probePos cfg.W cfg.bits t.mask hash s).pos with
      | true => rw [hE] at hr; simp at hr
      | false =>
        rw [hE] at hr
        simp only [Bool.not_false, if_true] at hr
        have hw0 : w0.t = t := k2.t.trans hw
        rw [hw0] at hr
        have hnext : (probePos cfg.W cfg.bits t.mask hash s).moveNext cfg.W t.mask =
            probePos cfg.W cfg.bits t.mask hash (s + 1) := rfl
        rw [hnext] at hr
        obtain ⟨s2, a1, a2, a3⟩ := ih (s + 1) w0 idx w' hw0 hr
        refine ⟨s2, by omega, a2, fun s' h1 h2 => ?_⟩
        by_cases hs : s' = s
        · subst hs; exact hE
        · exact a3 s' (by omega) h2
    · rw [k1] at hr; cases hr

/-- A bucket found by `find(hash, _)` is reachable for `hash` — whatever the closure. -/
theorem ts_find_reach (hc : CfgOk cfg) (hp : ProbeCovers cfg) (env : Env) (hash q : Nat) (w : World)
    (h : Inv cfg w.t) {idx : Nat} {w' : World} (hr : find cfg env hash q w = .ok (some idx, w')) :
    Reachable cfg w.t hash idx := by
  obtain ⟨s2, _, a2, a3⟩ := ts_findLoop_reach hc env q hash w.t h (probeFuel w.t) 0 w idx w' rfl hr
  obtain ⟨s0, hs0, hE⟩ := exists_empty_step hc hp h hash
  refine ⟨s2, ?_, a2, fun s' hs' => a3 s' (Nat.zero_le _) hs'⟩
  by_contra hn
  have := a3 s0 (Nat.zero_le _) (by omega)
  rw [hE] at this; cases this

theorem ts_dropElemR (env : Env) (e : Elem) (w : World) :
    (∃ w', Table.dropElemR cfg env e w = .ok w' ∧ w'.t = w.t) ∨
    (∃ w', Table.dropElemR cfg env e w = .panic "drop" w' ∧ w'.t = w.t) := by
  unfold Table.dropElemR dropElem
  cases hn : cfg.needsDrop with
  | false => left; exact ⟨w, by simp, rfl⟩
  | true =>
    cases hd : env.dropPanics w.dc e with
    | false =>
      left
      exact ⟨{ w with dc := w.dc + 1, log := .dropV e.vid :: .dropK e.kid :: w.log }, by simp, rfl⟩
    | true =>
      right
      exact ⟨{ w with dc := w.dc + 1, log := .dropV e.vid :: .dropK e.kid :: w.log }, by simp, rfl⟩

/-- Replacing the element of a live slot. -/
theorem ts_elems_replace {t : Raw} {i : Nat} {old : Elem} (ne : Elem)
    (h : t.slots[i]? = some (some old)) :
    List.Perm (old :: Raw.elems { t with slots := t.slots.setIfInBounds i (some ne) })
      (ne :: t.elems) := by
  have hi : i < t.slots.size := by
    by_contra hn
    rw [Array.getElem?_eq_none (by omega)] at h
    cases h
  have h1 : List.Perm (old :: Raw.elems { t with slots := t.slots.setIfInBounds i none }) t.elems :=
    elems_take_perm h rfl
  have h2 := elems_put (t := { t with slots := t.slots.setIfInBounds i none }) (i := i) ne
    (by show (t.slots.setIfInBounds i none)[i]? = some none
        rw [Array.getElem?_setIfInBounds, if_pos rfl, if_pos hi])
  simp only [Array.setIfInBounds_setIfInBounds] at h2
  exact ((List.Perm.cons old h2).trans (List.Perm.swap ne old _)).trans (List.Perm.cons ne h1)

theorem ts_slot_of_join {t : Raw} {i : Nat} {e : Elem} (h : t.slots[i]?.join = some e) :
    t.slots[i]? = some (some e) := by
  have hi : i < t.slots.size := slot_some_lt h
  rw [Array.getElem?_eq_getElem hi] at h ⊢
  simpa using h

/-- **`find_entry(hash, eq)`, `OccupiedEntry::remove`, and re-insertion through the returned
    `VacantEntry`** (statement 4), for every closure: the removed element is returned; a new
    element (inserted with the same `hash`) lands in the SAME bucket, whose control byte is
    whatever `erase` left — EMPTY (then `growth_left` had just been credited) or DELETED; `TblInv`
    holds afterwards. Never a fault. -/
theorem Table.findEntryRemove_spec (hc : CfgOk cfg) (hp : ProbeCovers cfg) (env : Env)
    (H : Nat → Nat) (hash q : Nat) (re : Option Elem) (w : World) (h : TblInv cfg H w.t)
    (hre : ∀ ne, re = some ne → H ne.k = hash) :
    match Table.findEntryRemove cfg env hash q re w with
    | .ok (none, w') => w'.t = w.t
    | .ok (some old, w') =>
      ∃ idx, w.t.slots[idx]?.join = some old ∧ (∃ c, env.eq c q old = some true) ∧
        TblInv cfg H w'.t ∧ w'.t.mask = w.t.mask ∧
        (re = none → w'.t.slots = w.t.slots.setIfInBounds idx none ∧
          w'.t.items + 1 = w.t.items ∧ List.Perm (old :: w'.t.elems) w.t.elems) ∧
        (∀ ne, re = some ne → w'.t.slots = w.t.slots.setIfInBounds idx (some ne) ∧
          w'.t.items = w.t.items ∧ List.Perm (old :: w'.t.elems) (ne :: w.t.elems))
    | .panic c w' => (c = "eq" ∨ c = "drop") ∧ w'.t = w.t
    | .abort => False
    | .fault _ => False := by
  rcases find_run hc hp env hash q w h.inv with
    ⟨idx, w1, k1, k2, k3, k4, old0, c0, k5, k6⟩ | ⟨w1, k1, k2, _⟩ | ⟨w1, k1, k2, _⟩
  · -- occupied
    have hreach := ts_find_reach hc hp env hash q w h.inv k1
    obtain ⟨old, t1, r1, r2, r3, r4, r5, r6, r7, r8, r9, r10⟩ := removeAt_inv hc h.inv k3 k4
    obtain ⟨old', t1', q1, _, q3, _, _, _, q7⟩ := removeAt_tblInv hc H h k3 k4
    rw [r1] at q1
    simp only [Except.ok.injEq, Prod.mk.injEq] at q1
    obtain ⟨rfl, rfl⟩ := q1
    have hwin := erase_keeps_windows hc h.inv k3 k4 r1
    have hold : old = old0 := by rw [k5] at r2; exact (Option.some.inj r2).symm
    subst hold
    have hw1 : w1.t = w.t := k2.t
    cases re with
    | none =>
      simp only [Table.findEntryRemove, k1, Res.onPanic, hw1, r1]
      exact ⟨idx, r2, ⟨c0, k6⟩, q3, r4, fun _ => ⟨r7, r6, q7⟩, fun ne hne => by cases hne⟩
    | some ne =>
      have hk := hre ne rfl
      have ha := h.inv.alloc_of_full hc k3 k4
      have hbk : t1.buckets = w.t.buckets := by simp only [Raw.buckets_eq, r4]
      have hsp : isSpecial (t1.ctrlAt idx) = true := by
        rcases r9 with r9 | r9 <;> rw [r9] <;> decide
      have hr1 : Reachable cfg t1 (H ne.k) idx := by
        rw [hk]
        obtain ⟨s, hs1, hs2, hs3⟩ := hreach
        refine ⟨s, by rw [hbk]; exact hs1, by rw [r4, window_congr r4]; exact hs2, fun s' hs' => ?_⟩
        rw [r4, hwin _ (probePos_lt ..)]
        exact hs3 s' hs'
      have hg : t1.ctrlAt idx = EMPTY → 0 < t1.gl := by
        intro he; rw [r10, if_pos he]; omega
      obtain ⟨t2, b1, b2, b3, b4, b5, b6⟩ :=
        insertInSlot_tblInv_at hc H q3 (by rw [r5, ha]) ne (by rw [hbk]; exact k3) hsp hr1 hg
      rw [hk] at b1
      simp only [Table.findEntryRemove, k1, Res.onPanic, hw1, r1, b1]
      refine ⟨idx, r2, ⟨c0, k6⟩, b2, b4.trans r4, fun hn => (by cases hn), fun ne' hne' => ?_⟩
      cases hne'
      refine ⟨by rw [b3, r7, Array.setIfInBounds_setIfInBounds], by omega, ?_⟩
      exact ((List.Perm.cons old b6).trans (List.Perm.swap ne old _)).trans (List.Perm.cons ne q7)
  · -- vacant
    have hw1 : w1.t = w.t := k2.t
    cases re with
    | none =>
      simp only [Table.findEntryRemove, k1, Res.onPanic]
      exact hw1
    | some ne =>
      rcases ts_dropElemR (cfg := cfg) env ne w1 with ⟨w2, d1, d2⟩ | ⟨w2, d1, d2⟩
      · simp only [Table.findEntryRemove, k1, Res.onPanic, d1]
        exact d2.trans hw1
      · simp only [Table.findEntryRemove, k1, Res.onPanic, d1]
        exact ⟨.inr trivial, d2.trans hw1⟩
  · -- the closure unwound: the new element is dropped
    simp only [Table.findEntryRemove, k1, Res.onPanic]
    refine ⟨.inl trivial, ?_⟩
    cases re with
    | none => exact k2.t
    | some ne => simp only [dropElemQuiet_t]; exact k2.t

/-! ### `entry` -/

/-- **`HashTable::entry(hash, eq, hasher)`** (statement 5) = `reserve(1)`, then the search, for
    every closure: `Occupied(idx)` holds a stored element the closure accepted; `Vacant(slot)` is
    the slot `find_insert_slot(hash)` returns in the (possibly grown) table, there is room
    (`growth_left ≥ 1`), and the closure accepted no stored element that was inserted with `hash`.
    The multiset of elements is unchanged and `TblInv` holds. Never a fault. -/
theorem Table.entry_spec (hc : CfgOk cfg) (hp : ProbeCovers cfg) (env : Env) (H : Nat → Nat)
    (hh : ∀ c k, env.hash c k = some (H k)) (hash q : Nat) (w : World) (h : TblInv cfg H w.t) :
    match Table.entry cfg env hash q w with
    | .ok (.ok idx, w') =>
      TblInv cfg H w'.t ∧ List.Perm w'.t.elems w.t.elems ∧ w'.t.items = w.t.items ∧
      idx < w'.t.buckets ∧ ∃ x c, w'.t.slots[idx]?.join = some x ∧ env.eq c q x = some true
    | .ok (.error slot, w') =>
      TblInv cfg H w'.t ∧ List.Perm w'.t.elems w.t.elems ∧ w'.t.items = w.t.items ∧
      findInsertSlot cfg w'.t hash = .ok slot ∧ 0 < w'.t.gl ∧ w'.t.alloc = true ∧
      (∀ x ∈ w'.t.elems, H x.k = hash → ¬ ∀ c, env.eq c q x = some true)
    | .panic c _ => c = "capacity" ∨ c = "hash" ∨ c = "eq"
    | .abort => True
    | .fault _ => False := by
  unfold Table.entry findOrFindInsertSlot
  have hres := reserve_spec hc hp env 1 w h.tinv
  cases hr : reserve cfg env 1 w with
  | ok w1 =>
    rw [hr] at hres
    obtain ⟨a1, a2, a3, _, a5, a6, _, _⟩ := hres
    have h1 := reserve_tblInv hc hp env H hh 1 w w1 h hr
    simp only
    rcases fofis_run hc hp env hash q (tagFull cfg.bits hash) (tagFull_lt_128 _ _) w1 a1.1 with
      ⟨idx, w', k1, k2, k3, _, x, c, k5, k6⟩ | ⟨slot, w', k1, k2, k3, s', k4, k5⟩ | ⟨w', k1, _, _⟩
    · rw [k1]
      simp only [k2.t]
      exact ⟨h1, a3, a2, k3, x, c, k5, k6⟩
    · rw [k1]
      simp only [k2.t]
      refine ⟨h1, a3, a2, k3, by omega, a6 (by omega), ?_⟩
      intro x hx hk hyes
      obtain ⟨i, hi⟩ := ts_mem_elems_iff.mp hx
      subst hk
      exact ts_no_miss hc h1 hi hyes k4 k5
    · rw [k1]; exact .inr (.inr rfl)
  | panic c w' =>
    rw [hr] at hres
    rcases hres with ⟨hres, _⟩ | ⟨hres, _⟩
    · exact .inl hres
    · exact .inr (.inl hres)
  | abort => trivial
  | fault f => rw [hr] at hres; exact hres.elim

/-- `entry` with the lawful closure `|x| x.key == q` and the hash of `q`: `Occupied` iff some
    stored element has key `q` (then the entry is such an element), `Vacant` otherwise. -/
theorem Table.entry_lawful (hc : CfgOk cfg) (hp : ProbeCovers cfg) (env : Env) (H : Nat → Nat)
    (hl : Lawful env H) (q : Nat) (w : World) (h : TblInv cfg H w.t) :
    match Table.entry cfg env (H q) q w with
    | .ok (.ok idx, w') =>
      TblInv cfg H w'.t ∧ List.Perm w'.t.elems w.t.elems ∧
      ∃ x, w'.t.slots[idx]?.join = some x ∧ x.k = q ∧ x ∈ w.t.elems
    | .ok (.error slot, w') =>
      TblInv cfg H w'.t ∧ List.Perm w'.t.elems w.t.elems ∧
      findInsertSlot cfg w'.t (H q) = .ok slot ∧ ∀ x ∈ w.t.elems, x.k ≠ q
    | .panic _ _ => True
    | .abort => True
    | .fault _ => False := by
  have hspec := Table.entry_spec hc hp env H hl.hash (H q) q w h
  cases hr : Table.entry cfg env (H q) q w with
  | ok pr =>
    obtain ⟨r, w'⟩ := pr
    rw [hr] at hspec
    cases r with
    | ok idx =>
      obtain ⟨a1, a2, _, _, x, c, a5, a6⟩ := hspec
      exact ⟨a1, a2, x, a5, hl.eq_true a6, a2.mem_iff.mp (ag_mem_elems a5)⟩
    | error slot =>
      obtain ⟨a1, a2, _, a4, _, _, a7⟩ := hspec
      refine ⟨a1, a2, a4, fun x hx hk => ?_⟩
      subst hk
      exact a7 x (a2.mem_iff.mpr hx) rfl (fun c => by rw [hl.eq]; simp)
  | panic c w' => trivial
  | abort => trivial
  | fault f => rw [hr] at hspec; exact hspec.elim

theorem ts_dropElem_t (env : Env) (e : Elem) (w : World) : (dropElem cfg env e w).2.t = w.t := by
  unfold dropElem; split <;> rfl

theorem ts_entry_panic_ne_drop {c : String} (h : c = "capacity" ∨ c = "hash" ∨ c = "eq") :
    c ≠ "drop" := by
  rcases h with rfl | rfl | rfl <;> decide

/-- **`entry(..).insert(new)`** for a new element inserted with the entry's `hash`, and a closure
    that accepts only elements inserted with that hash (`hcl`; any sensible `eq`): Occupied ⇒ the
    accepted element is replaced in place, `len()` unchanged; Vacant ⇒ the element is added.
    `TblInv` is preserved, also when the replaced element's destructor panics. -/
theorem Table.entryInsert_spec (hc : CfgOk cfg) (hp : ProbeCovers cfg) (env : Env) (H : Nat → Nat)
    (hh : ∀ c k, env.hash c k = some (H k)) (hash q : Nat) (ne : Elem) (w : World)
    (h : TblInv cfg H w.t) (hne : H ne.k = hash)
    (hcl : ∀ c x, env.eq c q x = some true → H x.k = hash) :
    match Table.entryInsert cfg env hash q ne w with
    | .ok (true, w') =>
      TblInv cfg H w'.t ∧ w'.t.items = w.t.items ∧
      ∃ old, (∃ c, env.eq c q old = some true) ∧ List.Perm (old :: w'.t.elems) (ne :: w.t.elems)
    | .ok (false, w') =>
      TblInv cfg H w'.t ∧ w'.t.items = w.t.items + 1 ∧ List.Perm w'.t.elems (ne :: w.t.elems) ∧
      (∀ x ∈ w.t.elems, H x.k = hash → ¬ ∀ c, env.eq c q x = some true)
    | .panic c w' => c = "drop" → TblInv cfg H w'.t ∧ w'.t.items = w.t.items
    | .abort => True
    | .fault _ => False := by
  have hspec := Table.entry_spec hc hp env H hh hash q w h
  unfold Table.entryInsert
  cases hr : Table.entry cfg env hash q w with
  | ok pr =>
    obtain ⟨r, w1⟩ := pr
    rw [hr] at hspec
    cases r with
    | ok idx =>
      obtain ⟨a1, a2, a3, _, x, c, a5, a6⟩ := hspec
      simp only [Res.onPanic, slotGet_ok a5]
      have hupd := slot_update_tblInv a1 a5 (e' := ne) (by rw [hne, hcl c x a6])
      have hperm : List.Perm
          (x :: Raw.elems { w1.t with slots := w1.t.slots.setIfInBounds idx (some ne) })
          (ne :: w.t.elems) :=
        (ts_elems_replace ne (ts_slot_of_join a5)).trans (List.Perm.cons ne a2)
      have hdt := ts_dropElem_t (cfg := cfg) env x
        { w1 with t := { w1.t with slots := w1.t.slots.setIfInBounds idx (some ne) } }
      cases hd : dropElem cfg env x
          { w1 with t := { w1.t with slots := w1.t.slots.setIfInBounds idx (some ne) } } with
      | mk p w2 =>
        rw [hd] at hdt
        simp only at hdt
        cases p with
        | true =>
          simp only [if_true]
          intro _
          rw [hdt]; exact ⟨hupd, a3⟩
        | false =>
          simp only [Bool.false_eq_true, if_false]
          rw [hdt]
          exact ⟨hupd, a3, x, ⟨c, a6⟩, hperm⟩
    | error slot =>
      obtain ⟨a1, a2, a3, a4, a5, a6, a7⟩ := hspec
      simp only [Res.onPanic]
      rw [← hne] at a4
      obtain ⟨t', b1, b2, _, _, b5, b6⟩ := insertInSlot_tblInv hc hp H a1 a6 ne a4 (fun _ => a5)
      rw [hne] at b1
      simp only [b1]
      exact ⟨b2, by rw [b5, a3], b6.trans (List.Perm.cons ne a2),
        fun x hx => a7 x (a2.mem_iff.mpr hx)⟩
  | panic c w' =>
    rw [hr] at hspec
    simp only [Res.onPanic]
    intro hc'
    exact absurd hc' (ts_entry_panic_ne_drop hspec)
  | abort => simp only [Res.onPanic]
  | fault f => rw [hr] at hspec; exact hspec.elim

/-- **`entry(..).or_insert(new)`**: Occupied ⇒ nothing changes (the unused `new` is dropped);
    Vacant ⇒ the element is added. -/
theorem Table.entryOrInsert_spec (hc : CfgOk cfg) (hp : ProbeCovers cfg) (env : Env)
    (H : Nat → Nat) (hh : ∀ c k, env.hash c k = some (H k)) (hash q : Nat) (ne : Elem) (w : World)
    (h : TblInv cfg H w.t) (hne : H ne.k = hash) :
    match Table.entryOrInsert cfg env hash q ne w with
    | .ok (true, w') =>
      TblInv cfg H w'.t ∧ w'.t.items = w.t.items ∧ List.Perm w'.t.elems w.t.elems ∧
      ∃ x ∈ w.t.elems, ∃ c, env.eq c q x = some true
    | .ok (false, w') =>
      TblInv cfg H w'.t ∧ w'.t.items = w.t.items + 1 ∧ List.Perm w'.t.elems (ne :: w.t.elems) ∧
      (∀ x ∈ w.t.elems, H x.k = hash → ¬ ∀ c, env.eq c q x = some true)
    | .panic c w' => c = "drop" → TblInv cfg H w'.t ∧ List.Perm w'.t.elems w.t.elems
    | .abort => True
    | .fault _ => False := by
  have hspec := Table.entry_spec hc hp env H hh hash q w h
  unfold Table.entryOrInsert
  cases hr : Table.entry cfg env hash q w with
  | ok pr =>
    obtain ⟨r, w1⟩ := pr
    rw [hr] at hspec
    cases r with
    | ok idx =>
      obtain ⟨a1, a2, a3, _, x, c, a5, a6⟩ := hspec
      simp only [Res.onPanic]
      rcases ts_dropElemR (cfg := cfg) env ne w1 with ⟨w2, d1, d2⟩ | ⟨w2, d1, d2⟩
      · simp only [d1]
        rw [d2]
        exact ⟨a1, a3, a2, x, a2.mem_iff.mp (ag_mem_elems a5), c, a6⟩
      · simp only [d1]
        intro _
        rw [d2]; exact ⟨a1, a2⟩
    | error slot =>
      obtain ⟨a1, a2, a3, a4, a5, a6, a7⟩ := hspec
      simp only [Res.onPanic]
      rw [← hne] at a4
      obtain ⟨t', b1, b2, _, _, b5, b6⟩ := insertInSlot_tblInv hc hp H a1 a6 ne a4 (fun _ => a5)
      rw [hne] at b1
      simp only [b1]
      exact ⟨b2, by rw [b5, a3], b6.trans (List.Perm.cons ne a2),
        fun x hx => a7 x (a2.mem_iff.mpr hx)⟩
  | panic c w' =>
    rw [hr] at hspec
    simp only [Res.onPanic]
    intro hc'
    exact absurd hc' (ts_entry_panic_ne_drop hspec)
  | abort => simp only [Res.onPanic]
  | fault f => rw [hr] at hspec; exact hspec.elim

/-- **`entry(..).and_modify(|e| e.v = nv)`**: Occupied ⇒ only the payload of the accepted element
    changes; Vacant ⇒ the table is as `reserve(1)` left it. -/
theorem Table.entryAndModify_spec (hc : CfgOk cfg) (hp : ProbeCovers cfg) (env : Env)
    (H : Nat → Nat) (hh : ∀ c k, env.hash c k = some (H k)) (hash q nv : Nat) (w : World)
    (h : TblInv cfg H w.t) :
    match Table.entryAndModify cfg env hash q nv w with
    | .ok (true, w') =>
      TblInv cfg H w'.t ∧ w'.t.items = w.t.items ∧
      ∃ old, (∃ c, env.eq c q old = some true) ∧
        List.Perm (old :: w'.t.elems) (Table.setV cfg old nv :: w.t.elems)
    | .ok (false, w') =>
      TblInv cfg H w'.t ∧ w'.t.items = w.t.items ∧ List.Perm w'.t.elems w.t.elems
    | .panic _ _ => True
    | .abort => True
    | .fault _ => False := by
  have hspec := Table.entry_spec hc hp env H hh hash q w h
  unfold Table.entryAndModify
  cases hr : Table.entry cfg env hash q w with
  | ok pr =>
    obtain ⟨r, w1⟩ := pr
    rw [hr] at hspec
    cases r with
    | ok idx =>
      obtain ⟨a1, a2, a3, _, x, c, a5, a6⟩ := hspec
      simp only [bind, Res.bind, slotGet_ok a5, liftE, pure]
      have hupd := slot_update_tblInv a1 a5 (e' := Table.setV cfg x nv) (by rw [ts_setV_k])
      exact ⟨hupd, a3, x, ⟨c, a6⟩,
        (ts_elems_replace _ (ts_slot_of_join a5)).trans (List.Perm.cons _ a2)⟩
    | error slot =>
      obtain ⟨a1, a2, a3, _⟩ := hspec
      simp only [bind, Res.bind, pure]
      exact ⟨a1, a3, a2⟩
  | panic c w' => simp only [bind, Res.bind]
  | abort => simp only [bind, Res.bind]
  | fault f => rw [hr] at hspec; exact hspec.elim

/-! ### `get_many_mut` keeps the hash-dependent invariants; lawful closures -/

/-- Rewriting slot contents without changing which slots are live nor the hash of what they hold
    keeps `TblInv`. -/
theorem ts_tblInv_of_slots {H : Nat → Nat} {t : Raw} {s' : Array (Option Elem)}
    (h : TblInv cfg H t) (hinv' : Inv cfg { t with slots := s' })
    (hk : ∀ (i : Nat) (e' : Elem), s'[i]?.join = some e' →
      ∃ e, t.slots[i]?.join = some e ∧ H e'.k = H e.k) :
    TblInv cfg H { t with slots := s' } := by
  refine TblInv.of_tpart (h.tinv.of_inv hinv' rfl) ⟨?_, ?_⟩
  · intro i e' he'
    obtain ⟨e, he, hke⟩ := hk i e' he'
    show t.ctrlAt i = _
    rw [hke]; exact h.tag i e he
  · intro i e' he'
    obtain ⟨e, he, hke⟩ := hk i e' he'
    rw [hke]
    exact (Reachable_congr (cfg := cfg) (t := t) (t' := { t with slots := s' }) rfl rfl _ _).2
      (h.reach i e he)

/-- The same for `InvL` (keys unchanged per slot). -/
theorem ts_invL_of_slots {H : Nat → Nat} {t : Raw} {s' : Array (Option Elem)}
    (h : InvL cfg H t) (hinv' : Inv cfg { t with slots := s' })
    (hk : ∀ (i : Nat) (e' : Elem), s'[i]?.join = some e' →
      ∃ e, t.slots[i]?.join = some e ∧ e'.k = e.k) :
    InvL cfg H { t with slots := s' } := by
  refine ⟨hinv', ?_, ?_, ?_⟩
  · intro i e' he'
    obtain ⟨e, he, hke⟩ := hk i e' he'
    show t.ctrlAt i = _
    rw [hke]; exact h.tag i e he
  · intro i e' he'
    obtain ⟨e, he, hke⟩ := hk i e' he'
    rw [hke]
    exact (Reachable_congr (cfg := cfg) (t := t) (t' := { t with slots := s' }) rfl rfl _ _).2
      (h.reach i e he)
  · intro i j e1 e2 h1 h2 hkk
    obtain ⟨x1, hx1, hk1⟩ := hk i e1 h1
    obtain ⟨x2, hx2, hk2⟩ := hk j e2 h2
    exact h.nodup i j x1 x2 hx1 hx2 (by rw [← hk1, ← hk2]; exact hkk)

/-- After the writes of `get_many_mut` every slot holds what it held, up to the payload. -/
theorem ts_manyOk_keys {upd : Elem → Nat → Elem} (hupd : ∀ e nv, (upd e nv).k = e.k) {t : Raw}
    {idxs : List (Option Nat)} {rs : List (Option Elem)} {s' : Array (Option Elem)}
    (hm : ts_ManyOk upd t idxs rs s') :
    ∀ (i : Nat) (e' : Elem), s'[i]?.join = some e' → ∃ e, t.slots[i]?.join = some e ∧ e'.k = e.k := by
  intro i e' he'
  by_cases hi : i ∈ idxs.filterMap id
  · rw [List.mem_filterMap] at hi
    obtain ⟨o, ho, hoi⟩ := hi
    obtain ⟨j, hj⟩ := List.getElem?_of_mem ho
    have : o = some i := hoi
    subst this
    obtain ⟨e, a1, _, a3⟩ := hm.hit j i hj
    rw [a3] at he'
    cases he'
    exact ⟨e, a1, hupd _ _⟩
  · rw [hm.frame i hi] at he'
    exact ⟨e', he', rfl⟩

/-- `HashTable::get_many_mut` keeps `TblInv` (the writes go to payloads only). -/
theorem Table.getManyMut_tblInv {H : Nat → Nat} {t : Raw} (h : TblInv cfg H t)
    {idxs : List (Option Nat)} {rs : List (Option Elem)} {s' : Array (Option Elem)}
    (hm : ts_ManyOk (Table.setV cfg) t idxs rs s') (hinv' : Inv cfg { t with slots := s' }) :
    TblInv cfg H { t with slots := s' } := by
  refine ts_tblInv_of_slots h hinv' fun i e' he' => ?_
  obtain ⟨e, a1, a2⟩ := ts_manyOk_keys (ts_setV_k cfg) hm i e' he'
  exact ⟨e, a1, by rw [a2]⟩

/-- With a lawful hasher and closure under `InvL`, request `j` of `get_many_mut` resolves to the
    bucket holding key `ks[j]`, or to nothing if the key is absent. -/
theorem ts_foundBy_lawful (hc : CfgOk cfg) (hp : ProbeCovers cfg) (env : Env) (H : Nat → Nat)
    (hl : Lawful env H) {t : Raw} (h : InvL cfg H t) {ks hs : List Nat}
    {idxs : List (Option Nat)} (hlen : hs.length = ks.length)
    (hhs : ∀ (j k : Nat), ks[j]? = some k → hs[j]? = some (H k))
    (hf : ts_FoundBy cfg env false t (hs.zip ks) idxs) :
    idxs.length = ks.length ∧
    ∀ (j k : Nat), ks[j]? = some k → ∃ r, idxs[j]? = some r ∧
      (∀ idx, r = some idx ↔ ∃ e, t.slots[idx]?.join = some e ∧ e.k = k) ∧
      (r = none ↔ ∀ (i : Nat) (e : Elem), t.slots[i]?.join = some e → e.k ≠ k) := by
  have hl' : idxs.length = ks.length := by rw [hf.1, List.length_zip, hlen, Nat.min_self]
  refine ⟨hl', fun j k hj => ?_⟩
  have hjlt : j < ks.length := by
    by_contra hn
    rw [List.getElem?_eq_none (by omega)] at hj; cases hj
  have hr : idxs[j]? = some idxs[j] := List.getElem?_eq_getElem (by omega)
  have hz : (hs.zip ks)[j]? = some (H k, k) := by
    rw [List.getElem?_zip_eq_some]
    exact ⟨hhs j k hj, hj⟩
  obtain ⟨wj, wj', hwj, hfind⟩ := hf.2 j (H k, k) _ hz hr
  have hfind' : find cfg env (H k) k wj = .ok (idxs[j], wj') := by
    simpa [ts_findReq] using hfind
  obtain ⟨r', w', a1, _, _, a4, a5⟩ := find_spec hc hp env H hl k wj (hwj ▸ h)
  rw [hfind'] at a1
  simp only [Res.ok.injEq, Prod.mk.injEq] at a1
  obtain ⟨rfl, _⟩ := a1
  rw [hwj] at a4 a5
  exact ⟨_, hr, a4, a5⟩

/-- **`HashMap::get_many_mut` with a lawful hasher and `Eq`** (statement 8, last part): unless two
    requests name the same PRESENT key (then: `"duplicate keys found"`, nothing changed), the
    call returns one result per key in request order — a present key yields its own entry, an
    absent key `None` — the writes land in exactly the requested entries, entries of keys that
    were not requested are untouched, and `InvL` holds afterwards. -/
theorem Map.getManyMut_lawful (hc : CfgOk cfg) (hp : ProbeCovers cfg) (env : Env) (H : Nat → Nat)
    (hl : Lawful env H) (ks : List Nat) (w : World) (h : InvL cfg H w.t) :
    ∃ w1, w1.t = w.t ∧ w1.log = w.log ∧
    (((∃ (j1 j2 k : Nat), j1 < j2 ∧ ks[j1]? = some k ∧ ks[j2]? = some k ∧ ∃ e ∈ w.t.elems, e.k = k) ∧
        Map.getManyMut cfg env ks w = .panic "dup" w1) ∨
     ((¬ ∃ (j1 j2 k : Nat), j1 < j2 ∧ ks[j1]? = some k ∧ ks[j2]? = some k ∧ ∃ e ∈ w.t.elems, e.k = k) ∧
        ∃ rs s', Map.getManyMut cfg env ks w = .ok (rs, { w1 with t := { w.t with slots := s' } }) ∧
          rs.length = ks.length ∧
          (∀ (j k : Nat), ks[j]? = some k → (∀ e ∈ w.t.elems, e.k ≠ k) → rs[j]? = some none) ∧
          (∀ (j k i : Nat) (e : Elem), ks[j]? = some k → w.t.slots[i]?.join = some e → e.k = k →
            rs[j]? = some (some e) ∧ s'[i]?.join = some { e with v := e.v + 1000 * (j + 1) }) ∧
          (∀ (i : Nat) (e : Elem), w.t.slots[i]?.join = some e → e.k ∉ ks → s'[i]? = w.t.slots[i]?) ∧
          InvL cfg H { w.t with slots := s' })) := by
  rcases Map.getManyMut_spec hc hp env ks w h.toInv with
    ⟨c, w', _, (⟨_, c', k, hn⟩ | ⟨_, c', q, e, hn⟩), _, _⟩ |
    ⟨hs, idxs, w1, a1, a2, a3, a4, a5, a6, hcase⟩
  · rw [hl.hash] at hn; cases hn
  · exact absurd hn hl.eq_ne_none
  · have hhs : ∀ (j k : Nat), ks[j]? = some k → hs[j]? = some (H k) := by
      intro j k hj; rw [← a2 j k hj, hl.hash]
    obtain ⟨hlen, hres⟩ := ts_foundBy_lawful hc hp env H hl h a1 hhs a3
    -- duplicates among found buckets = duplicates among present keys
    have hdup : (∃ (j1 j2 i : Nat), j1 < j2 ∧ idxs[j1]? = some (some i) ∧ idxs[j2]? = some (some i)) ↔
        ∃ (j1 j2 k : Nat), j1 < j2 ∧ ks[j1]? = some k ∧ ks[j2]? = some k ∧ ∃ e ∈ w.t.elems, e.k = k := by
      constructor
      · rintro ⟨j1, j2, i, hlt, h1, h2⟩
        have hj1 : j1 < ks.length := by
          by_contra hn; rw [List.getElem?_eq_none (by omega)] at h1; cases h1
        have hj2 : j2 < ks.length := by
          by_contra hn; rw [List.getElem?_eq_none (by omega)] at h2; cases h2
        obtain ⟨r1, b1, b2, _⟩ := hres j1 ks[j1] (List.getElem?_eq_getElem hj1)
        obtain ⟨r2, c1, c2, _⟩ := hres j2 ks[j2] (List.getElem?_eq_getElem hj2)
        rw [h1] at b1; cases b1
        rw [h2] at c1; cases c1
        obtain ⟨e1, d1, d2⟩ := (b2 i).mp rfl
        obtain ⟨e2, f1, f2⟩ := (c2 i).mp rfl
        rw [d1] at f1; cases f1
        refine ⟨j1, j2, ks[j1], hlt, List.getElem?_eq_getElem hj1, ?_, e1, ag_mem_elems d1, d2⟩
        rw [List.getElem?_eq_getElem hj2, ← d2, f2]
      · rintro ⟨j1, j2, k, hlt, h1, h2, e, he, hk⟩
        obtain ⟨i, hi⟩ := ts_mem_elems_iff.mp he
        obtain ⟨r1, b1, b2, _⟩ := hres j1 k h1
        obtain ⟨r2, c1, c2, _⟩ := hres j2 k h2
        have e1 : r1 = some i := (b2 i).mpr ⟨e, hi, hk⟩
        have e2 : r2 = some i := (c2 i).mpr ⟨e, hi, hk⟩
        exact ⟨j1, j2, i, hlt, by rw [b1, e1], by rw [c1, e2]⟩
    refine ⟨w1, a5, a6, ?_⟩
    rcases hcase with ⟨hd, hrun⟩ | ⟨hnd, rs, s', hrun, hrl, hm, hinv'⟩
    · exact .inl ⟨hdup.mp hd, hrun⟩
    · right
      have hnodup : ¬ ∃ (j1 j2 i : Nat), j1 < j2 ∧ idxs[j1]? = some (some i) ∧
          idxs[j2]? = some (some i) := by
        intro hd; exact (ts_not_nodup_iff idxs).mpr hd hnd
      refine ⟨fun hd => hnodup (hdup.mpr hd), rs, s', hrun, hrl, ?_, ?_, ?_, ?_⟩
      · intro j k hj habs
        obtain ⟨r, b1, _, b3⟩ := hres j k hj
        have : r = none := b3.mpr fun i e he => habs e (ag_mem_elems he)
        subst this
        exact hm.miss j b1
      · intro j k i e hj he hk
        obtain ⟨r, b1, b2, _⟩ := hres j k hj
        have : r = some i := (b2 i).mpr ⟨e, he, hk⟩
        subst this
        obtain ⟨e', c1, c2, c3⟩ := hm.hit j i b1
        rw [he] at c1; cases c1
        exact ⟨c2, c3⟩
      · intro i e he hnk
        refine hm.frame i fun hmem => ?_
        rw [List.mem_filterMap] at hmem
        obtain ⟨o, ho, hoi⟩ := hmem
        have : o = some i := hoi
        subst this
        obtain ⟨j, hj⟩ := List.getElem?_of_mem ho
        have hjl : j < ks.length := by
          by_contra hn; rw [List.getElem?_eq_none (by omega)] at hj; cases hj
        obtain ⟨r, b1, b2, _⟩ := hres j ks[j] (List.getElem?_eq_getElem hjl)
        rw [hj] at b1; cases b1
        obtain ⟨e1, d1, d2⟩ := (b2 i).mp rfl
        rw [he] at d1; cases d1
        exact hnk (d2 ▸ List.getElem_mem hjl)
      · exact ts_invL_of_slots h hinv'
          (ts_manyOk_keys (upd := fun e nv => { e with v := nv }) (fun _ _ => rfl) hm)

/-! ### emptied tables, `shrink_to` -/

/-- A table without elements satisfies the hash-dependent clauses for every `H` — the state after
    `clear`, after a `drain` run to completion, of `HashTable::new()`. -/
theorem TblInv.of_elems_nil {H : Nat → Nat} {t : Raw} (h : TInv cfg t) (hel : t.elems = []) :
    TblInv cfg H t := TblInv.of_tpart h (TPart.of_elems_nil hel)

/-- **`shrink_to` preserves `TblInv`.** -/
theorem shrinkTo_tblInv (hc : CfgOk cfg) (hp : ProbeCovers cfg) (env : Env) (H : Nat → Nat)
    (hh : ∀ c k, env.hash c k = some (H k)) (m : Nat) (w w' : World) (h : TblInv cfg H w.t)
    (hr : shrinkTo cfg env m w = .ok w') : TblInv cfg H w'.t := by
  have hspec := shrinkTo_spec hc hp env m w h.tinv
  rw [hr] at hspec
  obtain ⟨a1, a2, _⟩ := hspec
  by_cases h0 : w.t.items = 0
  · have hel := ag_elems_nil hc h.inv h0
    rw [hel] at a2
    exact TblInv.of_elems_nil a1 a2.eq_nil
  · refine TblInv.of_tpart a1 ?_
    unfold shrinkTo at hr
    simp only at hr
    rw [if_neg (by omega)] at hr
    cases hcb : capacityToBuckets cfg.bits cfg.W cfg.size (max w.t.items m) with
    | none => rw [hcb] at hr; cases hr; exact h.tpart
    | some mb =>
      rw [hcb] at hr
      simp only at hr
      split at hr
      · try rw [if_neg h0] at hr
        cases hri : resizeInner cfg env (max w.t.items m) .infallible w with
        | ok pr =>
          obtain ⟨r, w1⟩ := pr
          rw [hri] at hr
          cases r with
          | error e => cases hr
          | ok u =>
            cases u
            simp only [Res.ok.injEq] at hr
            rw [← hr]
            exact ts_resizeInner_tpart hc hp env H hh _ .infallible w w1 h.inv
              (Nat.le_max_left _ _) hri
        | panic c w1 => rw [hri] at hr; cases hr
        | abort => rw [hri] at hr; cases hr
        | fault f => rw [hri] at hr; cases hr
      · cases hr; exact h.tpart

/-! ### `retain`, `extract_if`: every step is a payload write or a `remove`

Whatever the iterator yields, the table only ever changes by payload writes to live slots and by
`remove` of live buckets; both preserve `TblInv`. (That the loops never fault is
`retain_spec` / `extractIf_spec` of ApiBulk.lean.) -/

theorem ts_live_of_slotGet {t : Raw} (h : Inv cfg t) {idx : Nat} {e : Elem}
    (hg : slotGet t idx = .ok e) :
    t.slots[idx]?.join = some e ∧ idx < t.buckets ∧ isFull (t.ctrlAt idx) = true := by
  have he := gl_slots_join (gl_slotGet_eq hg)
  refine ⟨he, h.slot_lt he, ?_⟩
  exact (h.live idx (slot_some_lt he)).1 (by rw [he]; rfl)

/-- One visited element: payload write, then (if rejected) `remove`. -/
theorem ts_visit_tblInv (hc : CfgOk cfg) (H : Nat → Nat) {t : Raw} (h : TblInv cfg H t)
    {idx : Nat} {e : Elem} (hg : slotGet t idx = .ok e) (nv : Nat) :
    TblInv cfg H { t with slots := t.slots.setIfInBounds idx (some { e with v := nv }) } ∧
    ∃ x t2, removeAt cfg { t with slots := t.slots.setIfInBounds idx (some { e with v := nv }) } idx =
      .ok (x, t2) ∧ TblInv cfg H t2 := by
  obtain ⟨he, hlt, hf⟩ := ts_live_of_slotGet h.inv hg
  have h1 := slot_update_tblInv h he (e' := { e with v := nv }) rfl
  refine ⟨h1, ?_⟩
  obtain ⟨x, t2, r1, _, r3, _⟩ := removeAt_tblInv hc H h1 (idx := idx) hlt hf
  exact ⟨x, t2, r1, r3⟩

theorem ts_retainLoop_tblInv (hc : CfgOk cfg) (env : Env) (H : Nat → Nat) :
    ∀ (fuel : Nat) (it : RawIter) (w : World), TblInv cfg H w.t →
    match Map.retainLoop cfg env fuel it w with
    | .ok w' => TblInv cfg H w'.t
    | .panic _ w' => TblInv cfg H w'.t
    | .abort => True
    | .fault _ => True := by
  intro fuel
  induction fuel with
  | zero => intro it w _; simp [Map.retainLoop]
  | succ fuel ih =>
    intro it w h
    rw [Map.retainLoop]
    cases hn : it.next cfg w.t with
    | error f => trivial
    | ok pr =>
      obtain ⟨o, it'⟩ := pr
      cases o with
      | none => exact h
      | some idx =>
        simp only
        cases hg : slotGet w.t idx with
        | error f => trivial
        | ok e =>
          simp only
          cases hpred : env.pred w.pc e with
          | none => exact h
          | some pr2 =>
            obtain ⟨keep, nv⟩ := pr2
            obtain ⟨h1, x, t2, r1, r2⟩ := ts_visit_tblInv hc H h hg nv
            cases keep with
            | true =>
              simp only [if_true]
              exact ih it' _ h1
            | false =>
              simp only [Bool.false_eq_true, if_false, r1]
              have hdt := ts_dropElem_t (cfg := cfg) env x { w with pc := w.pc + 1, t := t2 }
              cases hd : dropElem cfg env x { w with pc := w.pc + 1, t := t2 } with
              | mk p w2 =>
                rw [hd] at hdt
                simp only at hdt
                cases p with
                | true => simp only [if_true]; rw [hdt]; exact r2
                | false =>
                  simp only [Bool.false_eq_true, if_false]
                  exact ih it' w2 (by rw [hdt]; exact r2)

/-- **`retain` preserves `TblInv`** on every exit (also when the predicate or a destructor
    unwinds). -/
theorem retain_tblInv (hc : CfgOk cfg) (env : Env) (H : Nat → Nat) (w : World)
    (h : TblInv cfg H w.t) :
    match Map.retain cfg env w with
    | .ok w' => TblInv cfg H w'.t
    | .panic _ w' => TblInv cfg H w'.t
    | .abort => True
    | .fault _ => True := by
  unfold Map.retain
  cases RawIter.new cfg w.t with
  | error f => trivial
  | ok it => exact ts_retainLoop_tblInv hc env H _ it w h

theorem ts_extractNext_tblInv (hc : CfgOk cfg) (env : Env) (H : Nat → Nat) :
    ∀ (fuel : Nat) (it : RawIter) (w : World), TblInv cfg H w.t →
    match Map.extractNext cfg env fuel it w with
    | .ok (_, _, w') => TblInv cfg H w'.t
    | .panic _ w' => TblInv cfg H w'.t
    | .abort => True
    | .fault _ => True := by
  intro fuel
  induction fuel with
  | zero => intro it w _; simp [Map.extractNext]
  | succ fuel ih =>
    intro it w h
    rw [Map.extractNext]
    cases hn : it.next cfg w.t with
    | error f => trivial
    | ok pr =>
      obtain ⟨o, it'⟩ := pr
      cases o with
      | none => exact h
      | some idx =>
        simp only
        cases hg : slotGet w.t idx with
        | error f => trivial
        | ok e =>
          simp only
          cases hpred : env.pred w.pc e with
          | none => exact h
          | some pr2 =>
            obtain ⟨take, nv⟩ := pr2
            obtain ⟨h1, x, t2, r1, r2⟩ := ts_visit_tblInv hc H h hg nv
            cases take with
            | true =>
              simp only [if_true, r1]
              exact r2
            | false =>
              simp only [Bool.false_eq_true, if_false]
              exact ih it' _ h1

theorem ts_extractIfLoop_tblInv (hc : CfgOk cfg) (env : Env) (H : Nat → Nat) :
    ∀ (k : Nat) (it : RawIter) (w : World) (acc : List Elem), TblInv cfg H w.t →
    match Map.extractIfLoop cfg env k it w acc with
    | .ok (_, w') => TblInv cfg H w'.t
    | .panic _ w' => TblInv cfg H w'.t
    | .abort => True
    | .fault _ => True := by
  intro k
  induction k with
  | zero => intro it w acc h; exact h
  | succ k ih =>
    intro it w acc h
    rw [Map.extractIfLoop]
    have hstep := ts_extractNext_tblInv hc env H (w.t.buckets + 2) it w h
    cases hr : Map.extractNext cfg env (w.t.buckets + 2) it w with
    | ok pr =>
      obtain ⟨o, it', w'⟩ := pr
      rw [hr] at hstep
      cases o with
      | none => exact hstep
      | some x => exact ih it' w' (x :: acc) hstep
    | panic c w' => rw [hr] at hstep; exact hstep
    | abort => trivial
    | fault f => trivial

/-- **`extract_if` (any number of `next` calls, then dropped) preserves `TblInv`.** -/
theorem extractIf_tblInv (hc : CfgOk cfg) (env : Env) (H : Nat → Nat) (k : Nat) (w : World)
    (h : TblInv cfg H w.t) :
    match Map.extractIf cfg env k w with
    | .ok (_, w') => TblInv cfg H w'.t
    | .panic _ w' => TblInv cfg H w'.t
    | .abort => True
    | .fault _ => True := by
  unfold Map.extractIf
  cases RawIter.new cfg w.t with
  | error f => trivial
  | ok it => exact ts_extractIfLoop_tblInv hc env H k it w [] h

/-! ## Part E — non-vacuity, and the zero-sized-element witness (defect F2) -/

/-- Portable scanner (`W = 8`), `usize` of 64 bits, 8-byte elements. -/
def tsCfg : Cfg := { ops := Generic.ops }
/-- The same with a zero-sized element type (`HashTable<()>`). -/
def tsCfgZst : Cfg := { ops := Generic.ops, size := 0, align := 1, needsDrop := false, zstDupFixed := false }

/-- 4 buckets (`< W`: real bytes, padding, mirror), buckets 0 and 1 full with tags 1 and 2. -/
def tsTwo (e0 e1 : Elem) : Raw :=
  { mask := 3
    ctrl := #[1, 2, 255, 255, 255, 255, 255, 255, 1, 2, 255, 255]
    slots := #[some e0, some e1, none, none]
    items := 2, gl := 1, alloc := true }

/-- Two requests: hash with tag 1 / home bucket 0, hash with tag 2 / home bucket 1. -/
def tsTwoReqs : List (Nat × Nat) := [(1 * 2 ^ 57 + 0, 0), (2 * 2 ^ 57 + 1, 0)]

/-- **Defect F2 of hashbrown 0.15.2, as modelled** (`Table.hasDup` compares
    `Bucket::as_non_null()`, one dangling pointer for every bucket of a zero-sized `T`):
    a valid 4-bucket `HashTable<()>` with two elements in DIFFERENT buckets (0 and 1); two requests
    (closure `|_, _| true`) resolve to exactly those two buckets; `get_many_mut` panics with
    "duplicate keys found". This is why `Table.getManyMut_spec_partial` assumes `cfg.size ≠ 0`. -/
theorem getManyMut_zst_defect_witness :
    invB tsCfgZst (tsTwo ⟨0, 0, 0, 0⟩ ⟨0, 0, 0, 0⟩) = true ∧
    (match Table.getManyLoop tsCfgZst glEnv true tsTwoReqs { t := tsTwo ⟨0, 0, 0, 0⟩ ⟨0, 0, 0, 0⟩ } [] with
     | .ok (idxs, _) => idxs == [some 0, some 1]
     | _ => false) = true ∧
    (match Table.getManyMut tsCfgZst glEnv true tsTwoReqs { t := tsTwo ⟨0, 0, 0, 0⟩ ⟨0, 0, 0, 0⟩ } with
     | .panic c w' => c == "dup" && w'.t.slots == (tsTwo ⟨0, 0, 0, 0⟩ ⟨0, 0, 0, 0⟩).slots
     | _ => false) = true := by
  refine ⟨by decide, by decide, by decide⟩

/-- The twin with 8-byte elements: the same table shape and requests return both entries, and the
    writes `v += 1000`, `v += 2000` land in buckets 0 and 1. -/
theorem getManyMut_sized_twin :
    invB tsCfg (tsTwo ⟨7, 1, 0, 70⟩ ⟨9, 2, 0, 90⟩) = true ∧
    (match Table.getManyMut tsCfg glEnv true tsTwoReqs { t := tsTwo ⟨7, 1, 0, 70⟩ ⟨9, 2, 0, 90⟩ } with
     | .ok (rs, w') =>
       rs == [some ⟨7, 1, 0, 70⟩, some ⟨9, 2, 0, 90⟩] &&
       w'.t.slots == #[some ⟨7, 1, 0, 1070⟩, some ⟨9, 2, 0, 2090⟩, none, none] &&
       invB tsCfg w'.t
     | _ => false) = true := by
  refine ⟨by decide, by decide⟩

/-- Two `insert_unique` of EQUAL elements (same key 5, same hash 5) into `HashTable::new()`. -/
def tsDupWorld : Option World :=
  match Table.insertUnique tsCfg glEnv 5 ⟨5, 1, 0, 10⟩ { t := Raw.new 8 } with
  | .ok w1 =>
    match Table.insertUnique tsCfg glEnv 5 ⟨5, 2, 0, 20⟩ w1 with
    | .ok w2 => some w2
    | _ => none
  | _ => none

/-- Duplicates are stored twice (buckets 1 and 2 of a 4-bucket table), `len() = 2`, and
    `iter_hash(5)` yields both buckets exactly once (the group loaded at home position 1 is
    bytes 1..8: buckets 1, 2, 3, four padding bytes, the mirror byte of bucket 0). -/
example :
    (match tsDupWorld with
     | some w => w.t.items == 2 && w.t.elems == [⟨5, 1, 0, 10⟩, ⟨5, 2, 0, 20⟩] &&
        invB tsCfg w.t &&
        (match Table.iterHash tsCfg w.t 5 with | .ok l => l == [1, 2] | _ => false) &&
        -- a look-up with the matching closure finds one of the two
        (match Table.findElem tsCfg glEnv 5 5 w with
         | .ok (some e, _) => e.k == 5
         | _ => false)
     | none => false) = true := by decide

/-- `iter_hash` from home bucket 3 of a 4-bucket table: the loaded group is bytes 3..10 = bucket 3,
    four padding bytes, then the MIRROR bytes of buckets 0, 1, 2 — each bucket decoded once. -/
example :
    (match Table.iterHash tsCfg
        { mask := 3, ctrl := #[0, 0, 255, 0, 255, 255, 255, 255, 0, 0, 255, 0]
          slots := #[some ⟨7, 1, 0, 0⟩, some ⟨11, 2, 0, 0⟩, none, some ⟨3, 3, 0, 0⟩]
          items := 3, gl := 0, alloc := true } 3 with
     | .ok l => l == [3, 0, 1]
     | _ => false) = true := by decide

/-- A lawful map with keys 1 and 2 in buckets 1 and 2 (`H k = k`). -/
def tsMapT : Raw :=
  { mask := 3
    ctrl := #[255, 0, 0, 255, 255, 255, 255, 255, 255, 0, 0, 255]
    slots := #[none, some ⟨1, 11, 21, 100⟩, some ⟨2, 12, 22, 200⟩, none]
    items := 2, gl := 1, alloc := true }

/-- `get_many_mut([2, 7, 1])`: results in request order (`7` absent ⇒ `None`), write `j` lands in
    the entry of key `ks[j]`; `get_many_mut([2, 7, 2])` panics. -/
example :
    invLB tsCfg (fun k => k) tsMapT = true ∧
    (match Map.getManyMut tsCfg glEnv [2, 7, 1] { t := tsMapT } with
     | .ok (rs, w') =>
       rs == [some ⟨2, 12, 22, 200⟩, none, some ⟨1, 11, 21, 100⟩] &&
       w'.t.slots == #[none, some ⟨1, 11, 21, 3100⟩, some ⟨2, 12, 22, 1200⟩, none] &&
       invLB tsCfg (fun k => k) w'.t
     | _ => false) = true ∧
    (match Map.getManyMut tsCfg glEnv [2, 7, 2] { t := tsMapT } with
     | .panic c w' => c == "dup" && w'.t.slots == tsMapT.slots
     | _ => false) = true := by
  refine ⟨by decide, by decide, by decide⟩

#print axioms Table.getManyMut_spec_partial
#print axioms Map.getManyMut_spec
#print axioms Map.getManyMut_lawful
#print axioms Table.getManyMut_tblInv
#print axioms getManyMut_zst_defect_witness
#print axioms getManyMut_sized_twin
#print axioms Table.iterHash_spec
#print axioms insertInSlot_tblInv
#print axioms removeAt_tblInv
#print axioms reserve_tblInv
#print axioms shrinkTo_tblInv
#print axioms retain_tblInv
#print axioms extractIf_tblInv
#print axioms tryReserve_tblInv
#print axioms Table.find_finds_stored
#print axioms Table.find_lawful
#print axioms Table.find_returns_stored
#print axioms Table.findMut_spec
#print axioms Table.insertUnique_spec
#print axioms Table.findEntryRemove_spec
#print axioms Table.entry_spec
#print axioms Table.entry_lawful
#print axioms Table.entryInsert_spec
#print axioms Table.entryOrInsert_spec
#print axioms Table.entryAndModify_spec

end Hb
