/-
Leaking (`mem::forget`) an iterator, drain, entry or guard object part-way through its use
(property C02, "… and including leaking any iterator, drain, entry or guard object part-way …").

For EVERY environment (arbitrary, call-number dependent, possibly panicking `Hash` / `Eq` / predicate /
`Drop`, an allocator that may refuse) and every world whose table satisfies the API invariant
`TInv cfg w.t` (`CfgOk cfg`; `GuardRuns cfg` where growth is involved) the table left behind when one
of the following objects is leaked satisfies `TInv cfg` with `items = elems.length` — so by
`stepX_safe` / `runX_safe_from` (`Hb/Proofs/HistoryX.lean`) every further history is safe — and the
leaked object owned nothing the table still stores (ledger: the identities handed to the caller and
the identities still stored are a permutation of what was stored before; nothing was dropped).

 1. `ExtractIf` leaked after `k` calls of `next`         : `forget_extractIf`, `forget_extractIf_nodup`
      (`ExtractIf` has no `Drop` impl: leaking it IS the state after `k` steps, `Map.extractIf`).
 2. borrowing iterators (`Iter`, `IterMut`, `Keys`, `Values`, `ValuesMut`, `set::Iter`,
    `table::Iter`, `table::IterMut`, `IterHash`, `IterHashMut`) leaked after any number of steps:
      `Forget.leakBorrow`, `forget_borrow` (the table is literally unchanged: the iterator methods take
      the table as a read-only argument and do not return it; the `n` steps never fault),
      `Forget.mutLoop`, `forget_iterMut` (writes through the yielded `&mut` references land in live
      slots, never fault, keep `TInv`; payload-only writes keep every identity),
      `Forget.iterHashN`, `forget_iterHash` (`n` steps of `RawIterHash::next`: a prefix of the full run).
 3. entry objects leaked right after creation           : `forget_entry_new` (`Map.entryLook`),
      `forget_entryRef_new` (`en_search`), `forget_rawEntryMut_new` (`Map.rawLook`): pure look-ups,
      table unchanged; `forget_rustcEntry_new` (`Map.rustcLook`), `forget_tableEntry_new`
      (`Table.entry`): `reserve(1)` ran first, the table is the valid table after `reserve(1)`, same
      elements; `forget_occupied_updated` (`OccupiedEntry` leaked after in-place updates / any chain on
      an occupied entry), `forget_vacant_inserted` (`VacantEntry::insert_entry` returning an
      `OccupiedEntry` that is leaked: the element is already stored).
 4. `IntoIter` / `IntoKeys` / `IntoValues` / set / table `IntoIter` leaked after `k` steps:
      `forget_intoIter` (the collection is gone; the `k` yielded elements are the caller's, nothing
      else was dropped or freed, the remaining elements sit untouched in the leaked block).
 5. The scope guards (`prepare_resize` guard, `rehash_in_place` guard, `clone_from_impl` guard,
    `clear` guard): REMARK, no theorem.  They are private `ScopeGuard` values living in a local of a
    method of `RawTableInner` / `RawTable`; no safe public function returns or stores one and no
    user callback receives one, so safe code cannot `mem::forget` them.  What happens when they RUN
    (unwinding) is covered by `reserve_spec`, `clear_spec`, `cloneFrom_spec` and the history
    theorems.
 6. `RawDrain` (`map::Drain`, `set::Drain`, `table::Drain`) leaked after `k` steps:
      `forget_drain` (monolithic `Map.drain … forget := true`), `forget_drain_own` (step-wise `IW.Own`).

Summary: `Forget.LeakOp`, `Forget.leakStep` (the world after one leak of 1–3/6) and
`leak_then_any_history_safe` (+ `leak_then_any_history_safe_from_new`).
-/
import Hb.Proofs.HistoryX
import Hb.Proofs.IterWrapSpec
namespace Hb

variable {cfg : Cfg}

/-! ## 0. small facts -/

theorem fg_good (hc : CfgOk cfg) {t : Raw} (h : TInv cfg t) :
    TInv cfg t ∧ t.items = t.elems.length := ⟨h, ag_items_eq_length hc h.1⟩

/-- Identity of the key object of an element. -/
def fg_kid (e : Elem) : Nat := e.kid

theorem fg_kid_of_ident (l l' : List Elem) (h : (l.map ab_ident).Perm (l'.map ab_ident)) :
    (l.map fg_kid).Perm (l'.map fg_kid) := by
  have := h.map (fun x : Nat × Nat × Nat => x.2.1)
  simp only [List.map_map, Function.comp_def, ab_ident] at this
  exact this

/-! ## 1. `ExtractIf` leaked after `k` × `next` -/

theorem fg_extract_perm (env : Env) (pc n : Nat) (l : List Elem) (hn : n ≤ l.length)
    (hlen : (retainKept env pc (l.take n)).length + (retainDropped env pc (l.take n)).length = n) :
    (((retainDropped env pc (l.take n) ++ l.drop n) ++ retainKept env pc (l.take n)).map
      ab_ident).Perm (l.map ab_ident) := by
  have hp := retain_partition env (l.take n) pc (by rw [hlen, List.length_take]; omega)
  have h2 : ((retainDropped env pc (l.take n) ++ l.drop n) ++ retainKept env pc (l.take n)).Perm
      ((retainKept env pc (l.take n) ++ retainDropped env pc (l.take n)) ++ l.drop n) := by
    refine List.Perm.trans List.perm_append_comm ?_
    rw [List.append_assoc]
  refine (h2.map ab_ident).trans ?_
  rw [List.map_append]
  refine (List.Perm.append_right _ hp).trans ?_
  rw [← List.map_append, List.take_append_drop]

/-- **1.** `extract_if()` with `next` called up to `k` times and the `ExtractIf` then LEAKED
    (`ExtractIf` has no `Drop` impl, so `Map.extractIf` — "`k` × `next`, then dropped" — is also the
    leaked state), for every environment: never a fault or abort; the table left behind is valid and
    `len` is the number of stored elements; nothing was dropped (log unchanged); the at most `k`
    elements handed out (`out`) and the elements still stored are, by identity, exactly the elements
    stored before — the caller owns `out`, the table the rest, nothing is owned twice.  The same when
    the predicate unwinds in the middle of a `next` (then `out` are the elements handed out by the
    earlier calls). -/
theorem forget_extractIf (hc : CfgOk cfg) (env : Env) (k : Nat) (w : World) (h : TInv cfg w.t) :
    match Map.extractIf cfg env k w with
    | .ok (out, w') => TInv cfg w'.t ∧ w'.t.items = w'.t.elems.length ∧ w'.log = w.log ∧
        out.length ≤ k ∧ ((w'.t.elems ++ out).map ab_ident).Perm (w.t.elems.map ab_ident)
    | .panic c w' => c = "pred" ∧ TInv cfg w'.t ∧ w'.t.items = w'.t.elems.length ∧ w'.log = w.log ∧
        ∃ out : List Elem, out.length < k ∧
          ((w'.t.elems ++ out).map ab_ident).Perm (w.t.elems.map ab_ident)
    | .abort => False
    | .fault _ => False := by
  have hs := extractIf_spec hc env k w h
  have hlen := ab_elems_length hc h.1
  generalize Map.extractIf cfg env k w = r at hs ⊢
  match r, hs with
  | .ok (out, w'), ⟨a1, a2, n, b1, b2, b3, _, b5, b6, _⟩ =>
    refine ⟨a1, ag_items_eq_length hc a1.1, a2, b6, ?_⟩
    rw [b3, b2]
    exact fg_extract_perm env w.pc n w.t.elems (by rw [hlen]; exact b1) (by rw [← b2]; exact b5)
  | .panic c w', ⟨c0, a1, a2, n, x, b1, _, b3, _, b5, b6⟩ =>
    refine ⟨c0, a1, ag_items_eq_length hc a1.1, a2, retainKept env w.pc (w.t.elems.take n), b6, ?_⟩
    rw [b3]
    have hn : n < w.t.elems.length := (List.getElem?_eq_some_iff.1 b1).1
    exact fg_extract_perm env w.pc n w.t.elems (by omega) b5
  | .abort, hs => exact hs
  | .fault _, hs => exact hs

/-- No double drop after a leaked `ExtractIf`: if the stored key objects were pairwise distinct, the
    key objects the caller got and the ones the table still stores are pairwise distinct (so whatever
    later drops the table's elements never drops one the caller owns). -/
theorem forget_extractIf_nodup (hc : CfgOk cfg) (env : Env) (k : Nat) (w : World) (h : TInv cfg w.t)
    (hnd : (w.t.elems.map fg_kid).Nodup) {out : List Elem} {w' : World}
    (hr : Map.extractIf cfg env k w = .ok (out, w')) :
    ((w'.t.elems ++ out).map fg_kid).Nodup := by
  have hs := forget_extractIf hc env k w h
  rw [hr] at hs
  exact (fg_kid_of_ident _ _ hs.2.2.2.2).nodup_iff.2 hnd

/-! ## 2. borrowing iterators leaked after any number of steps -/

namespace Forget
open IW

/-- `let mut it = c.iter(); it.next() × n; mem::forget(it)` for any borrowing iterator type `k`
    (`iter`, `iter_mut`, `keys`, `values`, `values_mut`, `HashSet::iter`, `HashTable::iter`,
    `HashTable::iter_mut`).  The iterator is a value of its own: `Wrap.new` / `Wrap.nextN` take the
    table as a read-only argument and return only items and the advanced iterator, so the world that
    remains when the iterator is forgotten is the world before. -/
def leakBorrow (cfg : Cfg) (k : Kind) (n : Nat) (w : World) :
    Except String (List (Option Item) × World) :=
  match Wrap.new cfg w.t k with
  | .error f => .error f
  | .ok it =>
    match it.nextN cfg w.t n with
    | .error f => .error f
    | .ok (items, _) => .ok (items, w)

/-- A write through a yielded `&mut` reference into bucket `i` (`*r = upd(*r)`): a checked access —
    writing to a bucket that holds no live element would be a fault. -/
def writeVia (t : Raw) (i : Nat) (upd : Elem → Elem) : Except String Raw :=
  match slotGet t i with
  | .error f => .error f
  | .ok e => .ok (Map.slotSet t i (upd e))

/-- What the caller does with the item one `next` returned: the `&mut`-yielding types (`IterMut`,
    `ValuesMut`, `table::IterMut`; `isClone = false`) allow a write through it. -/
def mutWrite (isClone : Bool) (t : Raw) : Option Item → Option (Elem → Elem) → Except String Raw
  | some x, some upd => if isClone then .ok t else writeVia t x.bucket upd
  | _, _ => .ok t

/-- `next`, optionally followed by a write through the yielded reference, once per entry of the
    list; afterwards the iterator is forgotten (its final state is returned only for the proof).
    Every `next` sees the table as the earlier writes left it. -/
def mutLoop (cfg : Cfg) :
    List (Option (Elem → Elem)) → Wrap → Raw → Except String (List (Option Item) × Wrap × Raw)
  | [], it, t => .ok ([], it, t)
  | u :: rest, it, t =>
    match it.next cfg t with
    | .error f => .error f
    | .ok (o, it') =>
      match mutWrite it.kind.isClone t o u with
      | .error f => .error f
      | .ok t' =>
        match mutLoop cfg rest it' t' with
        | .error f => .error f
        | .ok (os, it'', t'') => .ok (o :: os, it'', t'')

/-- Create the iterator, run `mutLoop`, forget the iterator. -/
def leakIterMut (cfg : Cfg) (k : Kind) (us : List (Option (Elem → Elem))) (w : World) :
    Except String (List (Option Item) × World) :=
  match Wrap.new cfg w.t k with
  | .error f => .error f
  | .ok it =>
    match mutLoop cfg us it w.t with
    | .error f => .error f
    | .ok (items, _, t') => .ok (items, { w with t := t' })

/-- `iter_hash(hash)` / `iter_hash_mut(hash)`, `next` × `n`, then forgotten: the bucket indices
    yielded (`RawIterHash.all` with fuel `n` makes exactly `n` calls of `next`, fewer if `None`
    comes earlier). The table is a read-only argument. -/
def iterHashN (cfg : Cfg) (t : Raw) (hash n : Nat) : Except String (List Nat) :=
  match RawIterHash.new cfg t hash with
  | .error f => .error f
  | .ok it => RawIterHash.all cfg t n it []

end Forget

open IW in
/-- **2a.** Any borrowing iterator leaked after `n` steps: the `n` calls never fault (they return
    the projections of the first `n` full buckets, then `None`s) and the world is exactly the world
    before — the iterator held no state of the table. -/
theorem forget_borrow (hc : CfgOk cfg) (k : Kind) (n : Nat) (w : World) (h : Inv cfg w.t) :
    Forget.leakBorrow cfg k n w =
      .ok (((wrapItems k w.t).take n).map some ++ List.replicate (n - w.t.items) none, w) := by
  obtain ⟨it, it', h1, h2, _⟩ := wrap_next_all hc h k n
  simp only [Forget.leakBorrow, h1, h2]

theorem fg_elems_ident_slotSet (hc : CfgOk cfg) {t : Raw} (h : Inv cfg t) {i : Nat} {e e' : Elem}
    (he : ab_slot t i = some e) (hid : ab_ident e' = ab_ident e) :
    (Map.slotSet t i e').elems.map ab_ident = t.elems.map ab_ident := by
  have h' : Inv cfg (Map.slotSet t i e') := ab_inv_set_payload h he e'
  rw [ab_elems_map hc h', ab_elems_map hc h,
    show (Map.slotSet t i e').fullList = t.fullList from ab_fullList_congr rfl rfl,
    List.map_map, List.map_map]
  apply List.map_congr_left
  intro j _
  simp only [Function.comp_def, ab_elem]
  rw [ab_slot_set t.slots (Map.slotSet t i e') i j (some e') rfl]
  by_cases hj : i = j
  · subst hj
    rw [if_pos ⟨rfl, ab_slot_lt he⟩, he]
    exact hid
  · rw [if_neg (fun hh => hj hh.1)]
    rfl

theorem fg_mutWrite (hc : CfgOk cfg) {t : Raw} (h : TInv cfg t) (b : Bool) (o : Option IW.Item)
    (u : Option (Elem → Elem)) (ho : ∀ x, o = some x → x.bucket ∈ t.fullList) :
    ∃ t', Forget.mutWrite b t o u = .ok t' ∧ TInv cfg t' ∧ t'.mask = t.mask ∧ t'.ctrl = t.ctrl ∧
      t'.items = t.items ∧
      ((∀ upd, u = some upd → ∀ e, ab_ident (upd e) = ab_ident e) →
        t'.elems.map ab_ident = t.elems.map ab_ident) := by
  have hsame : ∃ t', (Except.ok t : Except String Raw) = .ok t' ∧ TInv cfg t' ∧ t'.mask = t.mask ∧
      t'.ctrl = t.ctrl ∧ t'.items = t.items ∧
      ((∀ upd, u = some upd → ∀ e, ab_ident (upd e) = ab_ident e) →
        t'.elems.map ab_ident = t.elems.map ab_ident) := ⟨t, rfl, h, rfl, rfl, rfl, fun _ => rfl⟩
  cases o with
  | none => cases u <;> exact hsame
  | some x =>
    cases u with
    | none => exact hsame
    | some upd =>
      cases b with
      | true => exact hsame
      | false =>
        have he := h.1.ab_full hc (ho x rfl)
        refine ⟨Map.slotSet t x.bucket (upd (ab_elem t x.bucket)), ?_, en_slotSet_TInv h he _, rfl,
          rfl, rfl, fun hu => fg_elems_ident_slotSet hc h.1 he (hu upd rfl _)⟩
        simp only [Forget.mutWrite, Forget.writeVia, ab_slotGet he]
        rfl

open IW in
theorem fg_mutLoop (hc : CfgOk cfg) :
    ∀ (us : List (Option (Elem → Elem))) (it : Wrap) (t : Raw) (p : Nat), TInv cfg t →
      WrapOk cfg t it p →
      ∃ os it' t', Forget.mutLoop cfg us it t = .ok (os, it', t') ∧ TInv cfg t' ∧
        t'.mask = t.mask ∧ t'.ctrl = t.ctrl ∧ t'.items = t.items ∧ os.length = us.length ∧
        WrapOk cfg t' it' (p + us.length) ∧
        ((∀ u ∈ us, ∀ upd, u = some upd → ∀ e, ab_ident (upd e) = ab_ident e) →
          t'.elems.map ab_ident = t.elems.map ab_ident) := by
  intro us
  induction us with
  | nil => intro it t p h hw; exact ⟨[], it, t, rfl, h, rfl, rfl, rfl, rfl, hw, fun _ => rfl⟩
  | cons u rest ih =>
    intro it t p h hw
    obtain ⟨it1, a1, a2, a3, _⟩ := wrap_next_ok hc h.1 hw
    have ho : ∀ x, (wrapItems it.kind t)[p]? = some x → x.bucket ∈ t.fullList := by
      intro x hx
      rw [← wrapItems_buckets it.kind t]
      exact List.mem_map_of_mem (List.mem_of_getElem? hx)
    obtain ⟨t1, b1, b2, b3, b4, b5, b6⟩ := fg_mutWrite hc h it.kind.isClone _ u ho
    have hw1 : WrapOk cfg t1 it1 (p + 1) :=
      ⟨a3.ok.ab_congr b3 b4, by rw [ab_rem_congr b3 b4, a3.rem, ab_fullList_congr b3 b4]⟩
    obtain ⟨os, it', t', c1, c2, c3, c4, c5, c6, c7, c8⟩ := ih it1 t1 (p + 1) b2 hw1
    refine ⟨(wrapItems it.kind t)[p]? :: os, it', t', ?_, c2, c3.trans b3, c4.trans b4, c5.trans b5, by simp [c6],
      by rw [List.length_cons, ← Nat.add_assoc, Nat.add_right_comm]; exact c7, ?_⟩
    · simp only [Forget.mutLoop, a1, b1, c1]
    · intro hu
      rw [c8 (fun u' hu' => hu u' (List.mem_cons_of_mem _ hu')), b6 (hu u List.mem_cons_self)]

open IW in
/-- **2b.** `IterMut` / `ValuesMut` / `table::IterMut` (any borrowing type, in fact) used for any
    number of steps with ARBITRARY writes through the yielded references and then leaked: no `next`
    and no write ever faults (every write lands in a live slot), the table left behind is valid,
    `len` is the number of stored elements, the control bytes, `len` and the bucket layout are
    untouched; if the writes change payloads only (`ab_ident` kept — `*v = …` on a `&mut V`), every
    stored identity is still stored, in the same order. -/
theorem forget_iterMut (hc : CfgOk cfg) (k : Kind) (us : List (Option (Elem → Elem))) (w : World)
    (h : TInv cfg w.t) :
    ∃ items w', Forget.leakIterMut cfg k us w = .ok (items, w') ∧ items.length = us.length ∧
      TInv cfg w'.t ∧ w'.t.items = w'.t.elems.length ∧ w'.t.ctrl = w.t.ctrl ∧ w'.t.mask = w.t.mask ∧
      w'.t.items = w.t.items ∧ w'.log = w.log ∧
      ((∀ u ∈ us, ∀ upd, u = some upd → ∀ e, ab_ident (upd e) = ab_ident e) →
        w'.t.elems.map ab_ident = w.t.elems.map ab_ident) := by
  obtain ⟨it, h1, _, h3⟩ := wrap_new_ok hc h.1 k
  obtain ⟨os, it', t', c1, c2, c3, c4, c5, c6, _, c8⟩ := fg_mutLoop hc us it w.t 0 h h3
  refine ⟨os, { w with t := t' }, ?_, c6, c2, ag_items_eq_length hc c2.1, c4, c3, c5, rfl, c8⟩
  simp only [Forget.leakIterMut, h1, c1]

theorem fg_all_acc {t : Raw} : ∀ (F : Nat) (it : RawIterHash) (acc L : List Nat),
    RawIterHash.all cfg t F it acc = .ok L → acc.reverse <+: L := by
  intro F
  induction F with
  | zero =>
    intro it acc L h
    simp only [RawIterHash.all, Except.ok.injEq] at h
    rw [h]
  | succ F ih =>
    intro it acc L h
    rw [RawIterHash.all] at h
    cases hn : RawIterHash.next cfg t (probeFuel t) it with
    | error f => rw [hn] at h; cases h
    | ok q =>
      obtain ⟨o, it'⟩ := q
      rw [hn] at h
      cases o with
      | none => simp only [Except.ok.injEq] at h; rw [h]
      | some i =>
        have := ih it' (i :: acc) L h
        rw [List.reverse_cons] at this
        exact (List.prefix_append _ _).trans this

/-- A run of `RawIterHash.all` that ended with `None` before its fuel ran out: with any other fuel `f`
    the run yields the first `f` more buckets of the same list. -/
theorem fg_all_take {t : Raw} : ∀ (f F : Nat) (it : RawIterHash) (acc L : List Nat),
    RawIterHash.all cfg t F it acc = .ok L → L.length < acc.length + F →
    RawIterHash.all cfg t f it acc = .ok (L.take (acc.length + f)) := by
  intro f
  induction f with
  | zero =>
    intro F it acc L h _
    obtain ⟨r, hr⟩ := fg_all_acc F it acc L h
    rw [RawIterHash.all, ← hr, Nat.add_zero, ← List.length_reverse, List.take_left]
  | succ f ih =>
    intro F it acc L h hlt
    have hpre := fg_all_acc F it acc L h
    have hge : acc.length ≤ L.length := by
      have := hpre.length_le
      rwa [List.length_reverse] at this
    obtain ⟨F, rfl⟩ : ∃ F', F = F' + 1 := ⟨F - 1, by omega⟩
    rw [RawIterHash.all] at h ⊢
    cases hn : RawIterHash.next cfg t (probeFuel t) it with
    | error f => rw [hn] at h; cases h
    | ok q =>
      obtain ⟨o, it'⟩ := q
      rw [hn] at h
      cases o with
      | none =>
        simp only [Except.ok.injEq] at h
        simp only
        rw [← h, List.take_of_length_le (by rw [List.length_reverse]; omega)]
      | some i =>
        have := ih F it' (i :: acc) L h (by rw [List.length_cons]; omega)
        simp only
        rw [this, List.length_cons]
        congr 2
        omega

/-- **2c.** `IterHash` / `IterHashMut` leaked after `n` steps: the `n` calls of `next` never fault;
    what they yield is the first `n` buckets of what the full run yields (`Table.iterHash_spec`:
    pairwise distinct live full buckets); the table is only read. -/
theorem forget_iterHash (hc : CfgOk cfg) {t : Raw} (h : Inv cfg t) (hash n : Nat) :
    ∃ full, Table.iterHash cfg t hash = .ok full ∧
      Forget.iterHashN cfg t hash n = .ok (full.take n) ∧ full.Nodup ∧
      ∀ i ∈ full.take n,
        i < t.buckets ∧ isFull (t.ctrlAt i) = true ∧ ∃ e, t.slots[i]?.join = some e := by
  obtain ⟨full, a1, a2, a3, _⟩ := Table.iterHash_spec hc hc.probe h hash
  refine ⟨full, a1, ?_, a2, ?_⟩
  · unfold Table.iterHash at a1
    unfold Forget.iterHashN
    cases hnew : RawIterHash.new cfg t hash with
    | error f => rw [hnew] at a1; cases a1
    | ok it =>
      rw [hnew] at a1
      simp only at a1 ⊢
      have hlen : full.length ≤ t.buckets := by
        have hsub : full ⊆ List.range t.buckets := fun i hi => List.mem_range.mpr (a3 i hi).1
        have := (a2.subperm hsub).length_le
        rwa [List.length_range] at this
      have hb := h.buckets_le_size hc
      have := fg_all_take n _ it [] full a1 (by simp only [List.length_nil]; omega)
      simpa using this
  · intro i hi
    obtain ⟨c1, c2, c3, _⟩ := a3 i (List.mem_of_mem_take hi)
    exact ⟨c1, c2, c3⟩

/-! ## 3. entry objects leaked right after creation / after in-place updates -/

/-- **3a.** `map.entry(key)` and the `Entry` LEAKED before any method is called (`Map.entryLook` is
    the creation step): a pure look-up, the table is literally unchanged (hence still valid), on
    return and when `Hash` / `Eq` unwinds.  On the vacant side nothing at all is logged: the key
    object now lives in the leaked `VacantEntry` (never dropped, not stored — nothing owned twice);
    on the occupied side `entry()` itself has dropped the passed key before returning. Never a fault
    or abort. -/
theorem forget_entry_new (hc : CfgOk cfg) (env : Env) (k kid : Nat) (w : World) (h : TInv cfg w.t) :
    match Map.entryLook cfg env k kid w with
    | .ok ((_, r), w') => w'.t = w.t ∧ TInv cfg w'.t ∧ w'.t.items = w'.t.elems.length ∧
        (r = none → w'.log = w.log)
    | .panic _ w' => w'.t = w.t ∧ TInv cfg w'.t ∧ w'.t.items = w'.t.elems.length
    | .abort => False
    | .fault _ => False := by
  have hl := en_entryLook_total hc env k kid w h.1
  have hg := fg_good hc h
  generalize Map.entryLook cfg env k kid w = r at hl ⊢
  match r, hl with
  | .ok ((_, some idx), w'), ⟨a1, _⟩ => exact ⟨a1, by rw [a1]; exact hg.1, by rw [a1]; exact hg.2, fun hn => by cases hn⟩
  | .ok ((_, none), w'), ⟨a1, a2⟩ => exact ⟨a1, by rw [a1]; exact hg.1, by rw [a1]; exact hg.2, fun _ => a2⟩
  | .panic _ w', a1 => exact ⟨a1, by rw [a1]; exact hg.1, by rw [a1]; exact hg.2⟩
  | .abort, hl => exact hl
  | .fault _, hl => exact hl

/-- **3b.** `map.entry_ref(&key)` and the `EntryRef` leaked (`en_search` = hash + `find` is the
    creation step; no key object exists yet): table and log unchanged. -/
theorem forget_entryRef_new (hc : CfgOk cfg) (env : Env) (k : Nat) (w : World) (h : TInv cfg w.t) :
    match en_search cfg env k w with
    | .ok (_, _, w') => w'.t = w.t ∧ w'.log = w.log ∧ TInv cfg w'.t ∧ w'.t.items = w'.t.elems.length
    | .panic _ w' => w'.t = w.t ∧ w'.log = w.log ∧ TInv cfg w'.t ∧ w'.t.items = w'.t.elems.length
    | .abort => False
    | .fault _ => False := by
  have hg := fg_good hc h
  rcases en_search_total hc env k w h.1 with ⟨hv, r, w2, k1, k2, k3, _⟩ | ⟨c, w', k1, k2, k3⟩
  · rw [k1]; exact ⟨k2, k3, by rw [k2]; exact hg.1, by rw [k2]; exact hg.2⟩
  · rw [k1]; exact ⟨k2, k3, by rw [k2]; exact hg.1, by rw [k2]; exact hg.2⟩

/-- **3c.** `map.raw_entry_mut().from_key(..)` / `from_key_hashed_nocheck` / `from_hash` (ANY
    caller-supplied hash) and the `RawEntryMut` leaked (`Map.rawLook` is the creation step): table
    unchanged. -/
theorem forget_rawEntryMut_new (hc : CfgOk cfg) (env : Env) (mode : Map.RawMode) (ph k : Nat)
    (w : World) (h : TInv cfg w.t) :
    match Map.rawLook cfg env mode ph k w with
    | .ok (_, w') => w'.t = w.t ∧ TInv cfg w'.t ∧ w'.t.items = w'.t.elems.length
    | .panic _ w' => w'.t = w.t ∧ TInv cfg w'.t ∧ w'.t.items = w'.t.elems.length
    | .abort => False
    | .fault _ => False := by
  have hl := en_rawLook_total hc env mode ph k w h.1
  have hg := fg_good hc h
  generalize Map.rawLook cfg env mode ph k w = r at hl ⊢
  match r, hl with
  | .ok (some idx, w'), ⟨a1, _⟩ => exact ⟨a1, by rw [a1]; exact hg.1, by rw [a1]; exact hg.2⟩
  | .ok (none, w'), a1 => exact ⟨a1, by rw [a1]; exact hg.1, by rw [a1]; exact hg.2⟩
  | .panic _ w', a1 => exact ⟨a1, by rw [a1]; exact hg.1, by rw [a1]; exact hg.2⟩
  | .abort, hl => exact hl
  | .fault _, hl => exact hl

/-- **3d.** `map.rustc_entry(key)` and the `RustcEntry` leaked (`Map.rustcLook` is the creation
    step). Occupied: table unchanged. Vacant: `reserve(1)` has run BEFORE the entry was handed out,
    so the leaked state is the state after `reserve(1)`: a valid table holding the same elements
    (possibly in a new, larger block), with room for one more. If the hasher unwinds inside that
    `reserve(1)` the table is valid provided the unwind guard of `rehash_in_place` runs
    (`GuardRuns`, defect F1). `.abort` only if the allocator refuses the next request. -/
theorem forget_rustcEntry_new (hc : CfgOk cfg) (env : Env) (k kid : Nat) (w : World)
    (h : TInv cfg w.t) :
    match Map.rustcLook cfg env k kid w with
    | .ok ((_, some _), w') => w'.t = w.t ∧ TInv cfg w'.t ∧ w'.t.items = w'.t.elems.length
    | .ok ((_, none), w') => TInv cfg w'.t ∧ w'.t.items = w'.t.elems.length ∧
        List.Perm w'.t.elems w.t.elems ∧ w'.t.items = w.t.items ∧ 0 < w'.t.gl
    | .panic _ w' => GuardRuns cfg → TInv cfg w'.t ∧ w'.t.items = w'.t.elems.length
    | .abort => env.allocOk w.ac = false
    | .fault _ => False := by
  have hl := en_rustcLook_total hc env k kid w h
  have hab := hx_rustcLook_abort hc env k kid w h
  have hg := fg_good hc h
  generalize Map.rustcLook cfg env k kid w = r at hl hab ⊢
  match r, hl with
  | .ok ((_, some idx), w'), ⟨a1, _⟩ => exact ⟨a1, by rw [a1]; exact hg.1, by rw [a1]; exact hg.2⟩
  | .ok ((_, none), w'), ⟨a1, a2, a3, a4⟩ => exact ⟨a1, ag_items_eq_length hc a1.1, a3, a4, a2⟩
  | .panic _ w', a1 => exact fun hgr => fg_good hc (a1 hgr)
  | .abort, _ => exact hab rfl
  | .fault _, hl => exact hl

/-- **3e.** `table.entry(hash, eq, hasher)` of `HashTable` and the `Entry` leaked (`Table.entry` =
    `find_or_find_insert_slot`: `reserve(1)` FIRST, then the search): in both the occupied and the
    vacant case the leaked state is the state after `reserve(1)` — valid, same elements, nothing
    dropped (only allocator events logged). Unwinding: a capacity overflow or an `eq` panic leave a
    valid table unconditionally, a hasher panic inside `reserve(1)` under `GuardRuns`. -/
theorem forget_tableEntry_new (hc : CfgOk cfg) (env : Env) (hash q : Nat) (w : World)
    (h : TInv cfg w.t) :
    match Table.entry cfg env hash q w with
    | .ok (_, w') => TInv cfg w'.t ∧ w'.t.items = w'.t.elems.length ∧
        List.Perm w'.t.elems w.t.elems ∧ w'.t.items = w.t.items ∧ ∀ ev ∈ w'.log, AllocOnly w.log ev
    | .panic _ w' => GuardRuns cfg → TInv cfg w'.t ∧ w'.t.items = w'.t.elems.length
    | .abort => env.allocOk w.ac = false
    | .fault _ => False := by
  have hs := findOrFindInsertSlot_spec hc hc.probe env hash q w h
  have hex := hs_reserve_exact hc hc.probe env 1 w h
  have hab : Table.entry cfg env hash q w = .abort → env.allocOk w.ac = false := by
    intro ha
    unfold Table.entry findOrFindInsertSlot at ha
    cases hr : reserve cfg env 1 w with
    | abort => rw [hr] at hex; exact hex
    | ok w1 =>
      rw [hr] at ha
      simp only at ha
      rcases fofis_total hc hc.probe env hash q (tagFull cfg.bits hash) (tagFull_lt_128 cfg.bits hash)
          w1 (by have := reserve_spec hc hc.probe env 1 w h; rw [hr] at this; exact this.1.1) with
        ⟨_, _, k1, _⟩ | ⟨_, _, k1, _⟩ | ⟨_, k1, _⟩ <;> (rw [k1] at ha; cases ha)
    | panic c w' => rw [hr] at ha; cases ha
    | fault f => rw [hr] at ha; cases ha
  change match findOrFindInsertSlot cfg env hash q w with
    | .ok (_, w') => _ | .panic _ w' => _ | .abort => _ | .fault _ => _
  change findOrFindInsertSlot cfg env hash q w = .abort → _ at hab
  generalize findOrFindInsertSlot cfg env hash q w = r at hs hab ⊢
  match r, hs with
  | .ok (.ok idx, w'), ⟨a1, _, _, _, a5, a6, a7⟩ => exact ⟨a1, ag_items_eq_length hc a1.1, a5, a6, a7⟩
  | .ok (.error slot, w'), ⟨a1, _, _, _, _, _, a5, a6, a7⟩ =>
    exact ⟨a1, ag_items_eq_length hc a1.1, a5, a6, a7⟩
  | .panic c w', hs =>
    intro hgr
    rcases hs with ⟨_, rfl⟩ | ⟨_, _, hs⟩ | ⟨_, a1, _⟩
    · exact fg_good hc h
    · exact fg_good hc (hs hgr).1
    · exact fg_good hc a1
  | .abort, _ => exact hab rfl
  | .fault _, hs => exact hs

/-- **3f.** An `OccupiedEntry` (of `entry` / `entry_ref` / `rustc_entry`; `OccupiedEntry` has no
    drop glue, so leaking it or a reference obtained from it equals dropping it) after ANY method
    chain `c` on it — in particular the in-place updates `insert`, `get_mut`-style writes,
    `and_modify`: never a fault or abort, the table is valid afterwards (the in-place updates
    overwrite one live slot; see `forget_occupied_inplace` for the exact table). -/
theorem forget_occupied_updated (hc : CfgOk cfg) (env : Env) (idx : Nat) (c : Map.EChain) (w : World)
    (h : TInv cfg w.t) {old : Elem} (he : w.t.slots[idx]?.join = some old) :
    match Map.chainOcc cfg env idx c w with
    | .ok (_, w') => TInv cfg w'.t ∧ w'.t.items = w'.t.elems.length
    | .panic _ w' => TInv cfg w'.t ∧ w'.t.items = w'.t.elems.length
    | .abort => False
    | .fault _ => False := by
  have hs := hx_chainOcc_safe (A := False) hc env idx c w h he
  generalize Map.chainOcc cfg env idx c w = r at hs ⊢
  match r, hs with
  | .ok (_, w'), hs => exact fg_good hc hs
  | .panic _ w', hs => exact fg_good hc hs
  | .abort, hs => exact hs
  | .fault _, hs => exact hs

/-- The in-place updates through an `OccupiedEntry`, exactly: `OccupiedEntry::insert(v)` and
    `*entry.get_mut() = nv` overwrite the value half / payload of the one live slot `idx`; every
    other slot, the control bytes and `len` are untouched; the key object stays where it is. -/
theorem forget_occupied_inplace (hc : CfgOk cfg) (env : Env) (idx : Nat) (w : World)
    (h : TInv cfg w.t) {old : Elem} (he : w.t.slots[idx]?.join = some old) :
    (∀ vid v, Map.chainOcc cfg env idx (.occInsert vid v) w =
      .ok ((true, .val old.vid old.v),
        { w with t := Map.slotSet w.t idx { old with vid := vid, v := v } })) ∧
    (∀ nv, Map.chainOcc cfg env idx (.occGetMut nv) w =
      .ok ((true, .val old.vid nv), { w with t := Map.slotSet w.t idx { old with v := nv } })) ∧
    (∀ e', TInv cfg (Map.slotSet w.t idx e') ∧
      (Map.slotSet w.t idx e').items = (Map.slotSet w.t idx e').elems.length ∧
      (Map.slotSet w.t idx e').ctrl = w.t.ctrl ∧ (Map.slotSet w.t idx e').items = w.t.items ∧
      (ab_ident e' = ab_ident old →
        (Map.slotSet w.t idx e').elems.map ab_ident = w.t.elems.map ab_ident)) := by
  refine ⟨fun vid v => ?_, fun nv => ?_, fun e' => ?_⟩
  · simp only [Map.chainOcc, slotGet_ok he, liftE, rf_bind_ok]; rfl
  · simp only [Map.chainOcc, slotGet_ok he, liftE, rf_bind_ok]; rfl
  · have hT := en_slotSet_TInv h he e'
    exact ⟨hT, ag_items_eq_length hc hT.1, rfl, rfl, fun hid => fg_elems_ident_slotSet hc h.1 he hid⟩

/-- **3g.** `VacantEntry::insert_entry(v)` / `Entry::insert(v)` on a vacant entry return an
    `OccupiedEntry`; if that is leaked the element is ALREADY stored: the state is the state after
    `RawTable::insert` (`Map.insOwned`, which is what every vacant `insert` of `entry` /
    `entry_ref` / `raw_entry_mut` calls) — valid, the multiset of elements grew by exactly the new
    element, nothing dropped. If the hasher unwinds inside its `reserve(1)` the pair is dropped by
    the call and the table is valid under `GuardRuns`. -/
theorem forget_vacant_inserted (hc : CfgOk cfg) (hg : GuardRuns cfg) (env : Env) (hash : Nat)
    (e : Elem) (w : World) (h : TInv cfg w.t) :
    match Map.insOwned cfg env hash e w with
    | .ok (idx, w') => TInv cfg w'.t ∧ w'.t.items = w'.t.elems.length ∧
        List.Perm w'.t.elems (e :: w.t.elems) ∧ w'.t.slots[idx]? = some (some e) ∧
        ∀ ev ∈ w'.log, AllocOnly w.log ev
    | .panic _ w' => TInv cfg w'.t ∧ w'.t.items = w'.t.elems.length
    | .abort => env.allocOk w.ac = false
    | .fault _ => False := by
  have hs := hx_insOwned_safe hc hg env hash e w h
  have hr := rawInsert_spec hc hc.probe env hash e w h
  unfold Map.insOwned at hs ⊢
  generalize rawInsert cfg env hash e w = r at hs hr ⊢
  match r, hr with
  | .ok (idx, w'), ⟨a1, _, a3, _, a5, a6⟩ => exact ⟨a1, ag_items_eq_length hc a1.1, a3, a5, a6⟩
  | .panic _ w', _ => exact fg_good hc hs
  | .abort, _ => exact hs
  | .fault _, hr => exact hr

/-- The same for `RustcVacantEntry::insert` (`insert_no_grow`; there is room because `rustc_entry`
    ran `reserve(1)` — `forget_rustcEntry_new`) and `hash_table::VacantEntry::insert`
    (`insert_in_slot` into the slot found after `reserve(1)`). -/
theorem forget_vacant_inserted_noGrow (hc : CfgOk cfg) (hash : Nat) (e : Elem) (w : World)
    (h : TInv cfg w.t) (hgl : 0 < w.t.gl) :
    ∃ idx w', Map.insNoGrow cfg hash e w = .ok (idx, w') ∧ TInv cfg w'.t ∧
      w'.t.items = w'.t.elems.length ∧ List.Perm w'.t.elems (e :: w.t.elems) ∧
      w'.t.slots[idx]? = some (some e) ∧ w'.log = w.log := by
  obtain ⟨idx, t', hr, hT, _, _, hp, _, hs, _⟩ := insertNoGrow_spec hc hc.probe h hgl hash e
  exact ⟨idx, { w with t := t' }, by simp only [Map.insNoGrow, hr], hT, ag_items_eq_length hc hT.1,
    hp, hs, rfl⟩

/-! ## 4. / 6. owning iterators (`IntoIter`, `IntoKeys`, `IntoValues`, `Drain` and the set / table
    counterparts) leaked after `n` steps -/

namespace Forget
open IW

/-- `let mut it = c.into_iter()` (or `into_keys()`, `into_values()`, `drain()`, …; `kind`),
    `it.next()` × `n`, `mem::forget(it)`: the items yielded, the state of the forgotten iterator (kept
    only so that the ledger can talk about what was leaked) and the world.  No `Drop` runs. -/
def leakOwn (cfg : Cfg) (env : Env) (kind : OKind) (n : Nat) (w : World) :
    Res (List Item × Own × World) :=
  match Own.new cfg kind w with
  | .error f => .fault f
  | .ok (o, w0) => Own.nextN cfg env n o w0

end Forget

open IW in
/-- **4. / 6.** Any owning iterator leaked after `n` steps (for `IntoValues` the key destructors run
    by `next` are assumed not to panic, `KeyDropsQuiet`, as in `own_nextN_spec`; a panicking one
    unwinds out of `next` and drops — not leaks — the iterator, `intoValues_next_drops`).
    Never a fault, abort or panic. The first `min n len` elements were yielded and are the caller's.
    The collection the iterator was made from is the valid empty unallocated table (`into_iter`: the
    moved-from place; `drain`: the `NEW` put there for the duration — it stays, so the collection
    is usable and droppable). The log grew only by the halves of YIELDED pairs that `IntoKeys` /
    `IntoValues` drop (`stepEvs`): no stored element was dropped and nothing was freed, so nothing
    can be dropped twice or used after free — the other elements sit untouched in the leaked block
    (`o'.raw.held`), which holds exactly `elems.drop n`. -/
theorem forget_own (hc : CfgOk cfg) (env : Env) (kind : OKind) (n : Nat) (w : World)
    (h : TInv cfg w.t) (hq : KeyDropsQuiet env kind) :
    ∃ o' w', Forget.leakOwn cfg env kind n w = .ok ((ownItems kind w.t).take n, o', w') ∧
      ((ownItems kind w.t).take n).length = min n w.t.items ∧
      w'.t = Raw.new cfg.W ∧ TInv cfg w'.t ∧ w'.t.items = w'.t.elems.length ∧ w'.t.elems = [] ∧
      w'.log = stepEvs cfg kind (w.t.elems.take n) ++ w.log ∧
      o'.kind = kind ∧ ClearedOn w.t o'.raw.held (w.t.fullList.take n) ∧
      o'.raw.held.elems = w.t.elems.drop n := by
  obtain ⟨it, h1, h2⟩ := ownOk_new hc h.1
  have hnew : Own.new cfg kind w =
      .ok ({ kind := kind, raw := ⟨it, w.t⟩ }, { w with t := Raw.new cfg.W }) := by
    simp only [Own.new, RawOwn.new, h1]
  obtain ⟨r', a1, _, a3⟩ := own_nextN_spec hc h.1 env n { kind := kind, raw := ⟨it, w.t⟩ } 0
    { w with t := Raw.new cfg.W } [] hq h2
  simp only [List.drop_zero, Nat.zero_add] at a1 a3
  have hmap : (w.t.fullList.take n).map (ab_elem w.t) = w.t.elems.take n := by
    rw [ab_elems_map hc h.1, List.map_take]
  rw [hmap] at a1
  refine ⟨_, _, by simp only [Forget.leakOwn, hnew]; exact a1, ?_, ?_, ?_, ?_, ?_, ?_, rfl,
    a3.cleared, ?_⟩
  · rw [List.length_take, ownItems_length hc h.1]
  · rw [preWorld_t]
  · rw [preWorld_t]; exact TInv.new hc
  · rw [preWorld_t]; rfl
  · rw [preWorld_t]; rfl
  · rw [preWorld_log]
  · rw [ab_elems_cleared hc h.1 a3.cleared (List.take_append_drop n _).symm, ab_elems_map hc h.1,
      List.map_drop]

/-- **6.** `drain()`, `next` × `k`, `mem::forget(drain)` (`Map.drain … forget := true`; thin wrapper
    of `drain_forgotten` / `forgotten_drain_leaves_valid_empty`): never a fault, abort or panic; the
    first `min k len` elements were handed out; the collection is the valid empty unallocated table,
    nothing was dropped, nothing else in the world changed (the old block and the other elements are
    leaked with the `Drain`). -/
theorem forget_drain (hc : CfgOk cfg) (env : Env) (k : Nat) (w : World) (h : TInv cfg w.t) :
    Map.drain cfg env k true w = .ok (w.t.elems.take k, { w with t := Raw.new cfg.W }) ∧
      (w.t.elems.take k).length = min k w.t.items ∧
      TInv cfg (Raw.new cfg.W) ∧ (Raw.new cfg.W).items = (Raw.new cfg.W).elems.length ∧
      (Raw.new cfg.W).elems = [] := by
  have hs := drain_spec hc env k true w h
  generalize Map.drain cfg env k true w = r at hs ⊢
  match r, hs with
  | .ok (out, w'), ⟨a1, a2, a3, _⟩ =>
    rw [a1] at a2
    exact ⟨by rw [a1, a3 rfl], a2, TInv.new hc, rfl, rfl⟩
  | .panic c w', ⟨_, a2, _⟩ => cases a2
  | .abort, hs => exact hs.elim
  | .fault _, hs => exact hs.elim

/-! ## 7. summary: one leak, then any history -/

namespace Forget

/-- Forget the value a call returned, keep the world. -/
def world {α : Type} : Res (α × World) → Res World
  | .ok (_, w') => .ok w'
  | .panic c w' => .panic c w'
  | .abort => .abort
  | .fault f => .fault f

/-- One use of a leakable object of items 1–3 / 6 that ends with `mem::forget` of the object. -/
inductive LeakOp where
  /-- `extract_if(pred)`, `next` × `k`, forget -/
  | extractIf (k : Nat)
  /-- a borrowing iterator of the given type, `next` × `n`, forget -/
  | borrow (kind : IW.Kind) (n : Nat)
  /-- the same with a write through every yielded `&mut` for which an update is given -/
  | iterMut (kind : IW.Kind) (us : List (Option (Elem → Elem)))
  /-- `iter_hash(hash)` / `iter_hash_mut(hash)`, `next` × `n`, forget -/
  | iterHash (hash n : Nat)
  /-- `entry(key)`, forget the `Entry` -/
  | entryNew (k kid : Nat)
  /-- `entry_ref(&key)`, forget the `EntryRef` -/
  | entryRefNew (k : Nat)
  /-- `raw_entry_mut().from_*(..)`, forget the `RawEntryMut` -/
  | rawEntryNew (mode : Map.RawMode) (ph k : Nat)
  /-- `rustc_entry(key)`, forget the `RustcEntry` -/
  | rustcEntryNew (k kid : Nat)
  /-- `HashTable::entry(hash, eq, hasher)`, forget the `Entry` -/
  | tableEntryNew (hash q : Nat)
  /-- `entry(key)`; on `Occupied` the chain `c`, then forget the entry / the reference it returned;
      on `Vacant` forget the `VacantEntry` -/
  | occupied (k kid : Nat) (c : Map.EChain)
  /-- `entry(key)`; on `Vacant` `insert_entry(value)` and forget the returned `OccupiedEntry`; on
      `Occupied` forget the entry -/
  | vacantInserted (k kid vid v : Nat)
  /-- `drain()`, `next` × `k`, forget -/
  | drain (k : Nat)

/-- The world after the leak (`.panic`: a callback unwound before the object could be leaked). -/
def leakStep (cfg : Cfg) (env : Env) : LeakOp → World → Res World
  | .extractIf k, w => world (Map.extractIf cfg env k w)
  | .borrow kind n, w =>
    match leakBorrow cfg kind n w with
    | .error f => .fault f
    | .ok (_, w') => .ok w'
  | .iterMut kind us, w =>
    match leakIterMut cfg kind us w with
    | .error f => .fault f
    | .ok (_, w') => .ok w'
  | .iterHash hash n, w =>
    match iterHashN cfg w.t hash n with
    | .error f => .fault f
    | .ok _ => .ok w
  | .entryNew k kid, w => world (Map.entryLook cfg env k kid w)
  | .entryRefNew k, w => world ((en_search cfg env k w).bind fun x => .ok ((x.1, x.2.1), x.2.2))
  | .rawEntryNew mode ph k, w => world (Map.rawLook cfg env mode ph k w)
  | .rustcEntryNew k kid, w => world (Map.rustcLook cfg env k kid w)
  | .tableEntryNew hash q, w => world (Table.entry cfg env hash q w)
  | .occupied k kid c, w =>
    (Map.entryLook cfg env k kid w).bind fun x =>
      match x.1.2 with
      | some idx => world (Map.chainOcc cfg env idx c x.2)
      | none => .ok x.2
  | .vacantInserted k kid vid v, w =>
    (Map.entryLook cfg env k kid w).bind fun x =>
      match x.1.2 with
      | some _ => .ok x.2
      | none => world (Map.insOwned cfg env x.1.1 ⟨k, kid, vid, v⟩ x.2)
  | .drain k, w => world (Map.drain cfg env k true w)

end Forget

theorem fg_world_safe {A : Prop} {α : Type} {r : Res (α × World)} (h : hx_Safe cfg A (·.2) r) :
    hx_Safe cfg A id (Forget.world r) := by
  cases r with
  | ok a => obtain ⟨a, w'⟩ := a; exact h
  | panic c w' => exact h
  | abort => exact h
  | fault f => exact h

/-- The world a leak leaves behind has a valid table (never a fault; abort only if the allocator
    refuses a request). -/
theorem fg_leakStep_safe (hc : CfgOk cfg) (hg : GuardRuns cfg) (env : Env) (op : Forget.LeakOp)
    (w : World) (h : TInv cfg w.t) :
    hx_Safe cfg (∃ j, env.allocOk j = false) id (Forget.leakStep cfg env op w) := by
  cases op with
  | extractIf k =>
    apply fg_world_safe
    have hs := forget_extractIf hc env k w h
    generalize Map.extractIf cfg env k w = r at hs ⊢
    match r, hs with
    | .ok (_, _), hs => exact hs.1
    | .panic _ _, hs => exact hs.2.1
    | .abort, hs => exact hs.elim
    | .fault _, hs => exact hs
  | borrow kind n =>
    simp only [Forget.leakStep, forget_borrow hc kind n w h.1]
    exact h
  | iterMut kind us =>
    obtain ⟨items, w', a1, _, a3, _⟩ := forget_iterMut hc kind us w h
    simp only [Forget.leakStep, a1]
    exact a3
  | iterHash hash n =>
    obtain ⟨full, _, a2, _⟩ := forget_iterHash hc h.1 hash n
    simp only [Forget.leakStep, a2]
    exact h
  | entryNew k kid =>
    apply fg_world_safe
    have hs := forget_entry_new hc env k kid w h
    generalize Map.entryLook cfg env k kid w = r at hs ⊢
    match r, hs with
    | .ok (_, _), hs => exact hs.2.1
    | .panic _ _, hs => exact hs.2.1
    | .abort, hs => exact hs.elim
    | .fault _, hs => exact hs
  | entryRefNew k =>
    apply fg_world_safe
    have hs := forget_entryRef_new hc env k w h
    generalize en_search cfg env k w = r at hs ⊢
    match r, hs with
    | .ok (_, _, _), hs => exact hs.2.2.1
    | .panic _ _, hs => exact hs.2.2.1
    | .abort, hs => exact hs.elim
    | .fault _, hs => exact hs
  | rawEntryNew mode ph k =>
    apply fg_world_safe
    have hs := forget_rawEntryMut_new hc env mode ph k w h
    generalize Map.rawLook cfg env mode ph k w = r at hs ⊢
    match r, hs with
    | .ok (_, _), hs => exact hs.2.1
    | .panic _ _, hs => exact hs.2.1
    | .abort, hs => exact hs.elim
    | .fault _, hs => exact hs
  | rustcEntryNew k kid =>
    apply fg_world_safe
    have hs := forget_rustcEntry_new hc env k kid w h
    generalize Map.rustcLook cfg env k kid w = r at hs ⊢
    match r, hs with
    | .ok ((_, some _), _), hs => exact hs.2.1
    | .ok ((_, none), _), hs => exact hs.1
    | .panic _ _, hs => exact (hs hg).1
    | .abort, hs => exact ⟨_, hs⟩
    | .fault _, hs => exact hs
  | tableEntryNew hash q =>
    apply fg_world_safe
    have hs := forget_tableEntry_new hc env hash q w h
    generalize Table.entry cfg env hash q w = r at hs ⊢
    match r, hs with
    | .ok (_, _), hs => exact hs.1
    | .panic _ _, hs => exact (hs hg).1
    | .abort, hs => exact ⟨_, hs⟩
    | .fault _, hs => exact hs
  | occupied k kid c =>
    have hl := en_entryLook_total hc env k kid w h.1
    simp only [Forget.leakStep]
    generalize Map.entryLook cfg env k kid w = r at hl ⊢
    match r, hl with
    | .ok ((hv, some idx), w1), ⟨a1, e, a2⟩ =>
      exact fg_world_safe (hx_chainOcc_safe hc env idx c w1 (by rw [a1]; exact h) (by rw [a1]; exact a2))
    | .ok ((hv, none), w1), ⟨a1, _⟩ => show TInv cfg w1.t; rw [a1]; exact h
    | .panic _ w', a1 => show TInv cfg w'.t; rw [a1]; exact h
    | .abort, hl => exact hl.elim
    | .fault _, hl => exact hl
  | vacantInserted k kid vid v =>
    have hl := en_entryLook_total hc env k kid w h.1
    simp only [Forget.leakStep]
    generalize Map.entryLook cfg env k kid w = r at hl ⊢
    match r, hl with
    | .ok ((hv, some idx), w1), ⟨a1, _⟩ => show TInv cfg w1.t; rw [a1]; exact h
    | .ok ((hv, none), w1), ⟨a1, _⟩ =>
      exact fg_world_safe ((hx_insOwned_safe hc hg env hv _ w1 (by rw [a1]; exact h)).mono
        (fun ha => ⟨_, ha⟩))
    | .panic _ w', a1 => show TInv cfg w'.t; rw [a1]; exact h
    | .abort, hl => exact hl.elim
    | .fault _, hl => exact hl
  | drain k =>
    simp only [Forget.leakStep, (forget_drain hc env k w h).1]
    exact TInv.new hc

/-- What "the collection can be used and dropped normally" means: a valid table whose `len` is the
    number of stored elements, from which EVERY history of extended safe-API calls (`MapOpX`), run
    against ANY environment `env'`, never faults, keeps the table valid after every call that
    returns or unwinds, and is cut short only by `handle_alloc_error`. -/
def Forget.Usable (cfg : Cfg) (w' : World) : Prop :=
  TInv cfg w'.t ∧ w'.t.items = w'.t.elems.length ∧
  ∀ (env' : Env) (ops : List MapOpX),
    Map.runXFaults cfg env' ops w' = false ∧
    (∀ obs wf, Map.runX cfg env' ops w' = some (obs, wf) →
      TInv cfg wf.t ∧ wf.t.items = wf.t.elems.length) ∧
    ((∀ j, env'.allocOk j = true) → ∃ obs wf, Map.runX cfg env' ops w' = some (obs, wf))

theorem fg_usable (hc : CfgOk cfg) (hg : GuardRuns cfg) {w' : World} (h : TInv cfg w'.t) :
    Forget.Usable cfg w' :=
  ⟨h, ag_items_eq_length hc h.1, fun env' ops => runX_safe_from hc hg env' ops w' h⟩

/-- **Summary.** After leaking any of the objects of items 1–3 / 6 (`Forget.LeakOp`) from any valid
    table, for every environment: the leak itself never faults (it aborts only if the allocator
    refuses a request — `rustc_entry`, `HashTable::entry`, `insert_entry`), and the collection left
    behind — also when a callback unwound before the object could be leaked — is `Usable`: the
    continuation by ANY history of `MapOpX` calls never faults and keeps `TInv`. -/
theorem leak_then_any_history_safe (hc : CfgOk cfg) (hg : GuardRuns cfg) (env : Env)
    (op : Forget.LeakOp) (w : World) (h : TInv cfg w.t) :
    match Forget.leakStep cfg env op w with
    | .ok w' => Forget.Usable cfg w'
    | .panic _ w' => Forget.Usable cfg w'
    | .abort => ∃ j, env.allocOk j = false
    | .fault _ => False := by
  have hs := fg_leakStep_safe hc hg env op w h
  generalize Forget.leakStep cfg env op w = r at hs ⊢
  match r, hs with
  | .ok w', hs => exact fg_usable hc hg hs
  | .panic _ w', hs => exact fg_usable hc hg hs
  | .abort, hs => exact hs
  | .fault _, hs => exact hs

/-- Any number of leaks, one after the other (each from what the previous left behind, panics
    caught): still `Usable`, unless `handle_alloc_error` ended the program. -/
def Forget.leakRun (cfg : Cfg) (env : Env) : List Forget.LeakOp → World → Option World
  | [], w => some w
  | op :: rest, w =>
    match Forget.leakStep cfg env op w with
    | .ok w' => Forget.leakRun cfg env rest w'
    | .panic _ w' => Forget.leakRun cfg env rest w'
    | .abort => none
    | .fault _ => none

theorem leaks_then_any_history_safe (hc : CfgOk cfg) (hg : GuardRuns cfg) (env : Env) :
    ∀ (lops : List Forget.LeakOp) (w : World), TInv cfg w.t →
      (∀ wf, Forget.leakRun cfg env lops w = some wf → Forget.Usable cfg wf) ∧
      ((∀ j, env.allocOk j = true) → ∃ wf, Forget.leakRun cfg env lops w = some wf) := by
  intro lops
  induction lops with
  | nil =>
    intro w h
    refine ⟨fun wf hwf => ?_, fun _ => ⟨w, rfl⟩⟩
    simp only [Forget.leakRun, Option.some.injEq] at hwf
    rw [← hwf]; exact fg_usable hc hg h
  | cons op rest ih =>
    intro w h
    have hs := fg_leakStep_safe hc hg env op w h
    simp only [Forget.leakRun]
    generalize Forget.leakStep cfg env op w = r at hs ⊢
    match r, hs with
    | .ok w', hs => exact ih w' hs
    | .panic _ w', hs => exact ih w' hs
    | .abort, hs =>
      obtain ⟨j, hj⟩ : ∃ j, env.allocOk j = false := hs
      refine ⟨fun wf hwf => ?_, fun ha => ?_⟩
      · cases hwf
      · rw [ha] at hj; cases hj
    | .fault _, hs => exact hs.elim

#print axioms forget_extractIf
#print axioms forget_extractIf_nodup
#print axioms forget_borrow
#print axioms forget_iterMut
#print axioms forget_iterHash
#print axioms forget_entry_new
#print axioms forget_entryRef_new
#print axioms forget_rawEntryMut_new
#print axioms forget_rustcEntry_new
#print axioms forget_tableEntry_new
#print axioms forget_occupied_updated
#print axioms forget_occupied_inplace
#print axioms forget_vacant_inserted
#print axioms forget_vacant_inserted_noGrow
#print axioms forget_own
#print axioms forget_drain
#print axioms leak_then_any_history_safe
#print axioms leaks_then_any_history_safe

end Hb
