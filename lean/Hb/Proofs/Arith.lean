/-
Proofs about Layer 0 arithmetic (`Hb/Model/Arith.lean`): `capacity_to_buckets`,
`bucket_mask_to_capacity`, `TableLayout::calculate_layout_for`.
All statements are for unbounded `Nat` parameters.

NOTE on item 6 (`calculateLayoutFor_spec`): the statement as requested is false in the corner
`buckets + W = 0 ∧ ctrlAlign = 2 ^ bits`:
  `calculateLayoutFor 16 0 8 (2^16) 0 = some { size := 0, align := 65536, ctrlOffset := 0 }`
and `0 + (2^16 - 1) > isizeMax 16 = 32767` (the truncated subtraction `isizeMax - (ctrlAlign-1)` is
`0` and `len = 0` passes the check).  We therefore prove `calculateLayoutFor_spec_partial` with the
extra hypothesis `0 < buckets + W ∨ ctrlAlign ≤ 2 ^ (bits - 1)`; the counterexample is recorded as
`calculateLayoutFor_spec_counterexample`.
-/
import Hb.Model.Arith

namespace Hb

-- The requested statements carry hypotheses (`hb`, `hcap`, `1 ≤ m`, …) that some proofs do not need.
set_option linter.unusedVariables false

/-! ### 1. `nextPowerOfTwo` -/

theorem nextPowerOfTwo_spec (n : Nat) (h : 1 ≤ n) :
    ∃ k, nextPowerOfTwo n = 2 ^ k ∧ n ≤ 2 ^ k ∧ (1 < n → 2 ^ k < 2 * n) := by
  unfold nextPowerOfTwo
  by_cases h1 : n ≤ 1
  · exact ⟨0, by simp [h1], by omega, by omega⟩
  · refine ⟨Nat.log2 (n - 1) + 1, by simp [h1], ?_, ?_⟩
    · have := @Nat.lt_log2_self (n - 1)
      omega
    · intro _
      have := Nat.log2_self_le (n := n - 1) (by omega)
      rw [Nat.pow_succ]
      omega

/-- `nextPowerOfTwo n` is the least power of two `≥ n`. -/
theorem nextPowerOfTwo_le_of_le_pow (n j : Nat) (h : n ≤ 2 ^ j) : nextPowerOfTwo n ≤ 2 ^ j := by
  unfold nextPowerOfTwo
  split
  · exact Nat.one_le_two_pow
  · have : (n - 1).log2 < j := (Nat.log2_lt (by omega)).2 (by omega)
    exact Nat.pow_le_pow_right (by omega) this

/-! ### 2. `bucketMaskToCapacity` -/

theorem bucketMaskToCapacity_lt (m : Nat) (h : 1 ≤ m) : bucketMaskToCapacity m < m + 1 := by
  unfold bucketMaskToCapacity
  split <;> omega

theorem bucketMaskToCapacity_pow (k : Nat) (h : 3 ≤ k) :
    bucketMaskToCapacity (2 ^ k - 1) = 2 ^ k / 8 * 7 := by
  obtain ⟨j, rfl⟩ : ∃ j, k = j + 3 := ⟨k - 3, by omega⟩
  have e : 2 ^ (j + 3) = 8 * 2 ^ j := by rw [Nat.pow_add]; omega
  have hp : 0 < 2 ^ j := Nat.two_pow_pos j
  rw [e]
  unfold bucketMaskToCapacity
  split <;> omega

/-! ### 3–5. `capacityToBuckets` -/

theorem minCap_bounds (W size : Nat) : 3 ≤ minCap W size ∧ minCap W size ≤ 14 := by
  unfold minCap
  repeat' split
  all_goals omega

theorem two_pow_bits_ge (bits : Nat) (hb : 16 ≤ bits) : 65536 ≤ 2 ^ bits := by
  have := Nat.pow_le_pow_right (n := 2) (by omega) hb
  omega

theorem capacityToBuckets_spec (bits W size cap b : Nat) (hb : 16 ≤ bits) (hcap : cap ≠ 0)
    (h : capacityToBuckets bits W size cap = some b) :
    ∃ k, 2 ≤ k ∧ b = 2 ^ k ∧ cap ≤ bucketMaskToCapacity (b - 1) ∧
      bucketMaskToCapacity (b - 1) < b ∧ b < 2 ^ bits := by
  have hbits := two_pow_bits_ge bits hb
  unfold capacityToBuckets at h
  by_cases hc : cap < 15
  · rw [if_pos hc] at h
    have hmc := minCap_bounds W size
    generalize minCap W size = mc at h hmc
    simp only [Option.some.injEq] at h
    by_cases h4 : max mc cap < 4
    · rw [if_pos h4] at h
      subst h
      exact ⟨2, by omega, by decide, by simp [bucketMaskToCapacity]; omega,
        by simp [bucketMaskToCapacity], by omega⟩
    · rw [if_neg h4] at h
      by_cases h8 : max mc cap < 8
      · rw [if_pos h8] at h
        subst h
        exact ⟨3, by omega, by decide, by simp [bucketMaskToCapacity]; omega,
          by simp [bucketMaskToCapacity], by omega⟩
      · rw [if_neg h8] at h
        subst h
        exact ⟨4, by omega, by decide, by simp [bucketMaskToCapacity]; omega,
          by simp [bucketMaskToCapacity], by omega⟩
  · rw [if_neg hc] at h
    by_cases hm : cap * 8 < 2 ^ bits
    · simp only [checkedMul, if_pos hm, Option.some.injEq] at h
      obtain ⟨k, hk1, hk2, hk3⟩ := nextPowerOfTwo_spec (cap * 8 / 7) (by omega)
      have hk3 := hk3 (by omega)
      have hk4 : 4 ≤ k := by
        apply Classical.byContradiction
        intro hlt
        have := Nat.pow_le_pow_right (n := 2) (by omega) (show k ≤ 3 by omega)
        omega
      obtain ⟨j, rfl⟩ : ∃ j, k = j + 3 := ⟨k - 3, by omega⟩
      have e : 2 ^ (j + 3) = 8 * 2 ^ j := by rw [Nat.pow_add]; omega
      rw [e] at hk1 hk2 hk3
      rw [hk1] at h
      subst h
      refine ⟨j + 3, by omega, e.symm, ?_, ?_, by omega⟩
      · unfold bucketMaskToCapacity
        rw [if_neg (by omega)]
        omega
      · unfold bucketMaskToCapacity
        rw [if_neg (by omega)]
        omega
    · simp [checkedMul, if_neg hm] at h

theorem capacityToBuckets_none_iff (bits W size cap : Nat) (hb : 16 ≤ bits) :
    capacityToBuckets bits W size cap = none ↔ (15 ≤ cap ∧ 2 ^ bits ≤ cap * 8) := by
  unfold capacityToBuckets
  by_cases hc : cap < 15
  · rw [if_pos hc]
    simp
    omega
  · rw [if_neg hc]
    by_cases hm : cap * 8 < 2 ^ bits
    · simp only [checkedMul, if_pos hm]
      simp
      omega
    · simp only [checkedMul, if_neg hm]
      simp
      omega

theorem capacityToBuckets_minimal (bits W size cap b : Nat) (hc : 15 ≤ cap)
    (h : capacityToBuckets bits W size cap = some b) :
    ∀ j, cap * 8 / 7 ≤ 2 ^ j → b ≤ 2 ^ j := by
  intro j hj
  unfold capacityToBuckets at h
  rw [if_neg (by omega)] at h
  by_cases hm : cap * 8 < 2 ^ bits
  · simp only [checkedMul, if_pos hm, Option.some.injEq] at h
    subst h
    exact nextPowerOfTwo_le_of_le_pow _ _ hj
  · simp [checkedMul, if_neg hm] at h

/-! ### 6–7. `calculateLayoutFor` -/

theorem alignDown_mod (x a : Nat) : alignDown x a % a = 0 := by
  unfold alignDown
  exact Nat.sub_mod_eq_zero_of_mod_eq (Nat.mod_mod x a).symm

theorem alignDown_le (x a : Nat) : alignDown x a ≤ x := by
  unfold alignDown; omega

theorem le_alignDown_add (x a : Nat) (ha : 0 < a) : x ≤ alignDown (x + (a - 1)) a := by
  unfold alignDown
  have := Nat.mod_lt (x + (a - 1)) ha
  omega

/-- Unfolded form of a successful `calculateLayoutFor`. -/
theorem calculateLayoutFor_eq_some (bits W size ctrlAlign buckets : Nat) (l : Layout)
    (h : calculateLayoutFor bits W size ctrlAlign buckets = some l) :
    size * buckets < 2 ^ bits ∧ size * buckets + (ctrlAlign - 1) < 2 ^ bits ∧
    l.ctrlOffset = alignDown (size * buckets + (ctrlAlign - 1)) ctrlAlign ∧
    l.align = ctrlAlign ∧ l.size = l.ctrlOffset + (buckets + W) ∧ l.size < 2 ^ bits ∧
    l.size ≤ isizeMax bits - (ctrlAlign - 1) := by
  unfold calculateLayoutFor at h
  by_cases h1 : size * buckets < 2 ^ bits
  · simp only [checkedMul, if_pos h1] at h
    by_cases h2 : size * buckets + (ctrlAlign - 1) < 2 ^ bits
    · simp only [checkedAdd, if_pos h2] at h
      by_cases h3 : alignDown (size * buckets + (ctrlAlign - 1)) ctrlAlign + (buckets + W) < 2 ^ bits
      · simp only [if_pos h3] at h
        by_cases h4 : alignDown (size * buckets + (ctrlAlign - 1)) ctrlAlign + (buckets + W) >
            isizeMax bits - (ctrlAlign - 1)
        · simp [if_pos h4] at h
        · simp only [if_neg h4, Option.some.injEq] at h
          subst h
          exact ⟨h1, h2, rfl, rfl, rfl, h3, Nat.le_of_not_gt h4⟩
      · simp [if_neg h3] at h
    · simp [checkedAdd, if_neg h2] at h
  · simp [checkedMul, if_neg h1] at h

/-- Item 6 with the added hypothesis `hne` (see the header note: without it the statement fails
for `buckets + W = 0`, `ctrlAlign = 2 ^ bits`). -/
theorem calculateLayoutFor_spec_partial (bits W size ctrlAlign buckets : Nat) (l : Layout)
    (hb : 16 ≤ bits) (ha : ∃ a, ctrlAlign = 2 ^ a)
    (hne : 0 < buckets + W ∨ ctrlAlign ≤ 2 ^ (bits - 1))
    (h : calculateLayoutFor bits W size ctrlAlign buckets = some l) :
    l.align = ctrlAlign ∧ l.ctrlOffset % ctrlAlign = 0 ∧ size * buckets ≤ l.ctrlOffset ∧
    l.ctrlOffset < size * buckets + ctrlAlign ∧ l.size = l.ctrlOffset + buckets + W ∧
    l.size + (ctrlAlign - 1) ≤ isizeMax bits ∧ l.size < 2 ^ bits := by
  obtain ⟨a, rfl⟩ := ha
  have hpos : 0 < 2 ^ a := Nat.two_pow_pos a
  obtain ⟨h1, h2, h3, h4, h5, h6, h7⟩ := calculateLayoutFor_eq_some _ _ _ _ _ _ h
  have hmod := alignDown_mod (size * buckets + (2 ^ a - 1)) (2 ^ a)
  have hle := alignDown_le (size * buckets + (2 ^ a - 1)) (2 ^ a)
  have hge := le_alignDown_add (size * buckets) (2 ^ a) hpos
  rw [← h3] at hmod hle hge
  refine ⟨h4, hmod, hge, by omega, by omega, ?_, h6⟩
  rcases hne with hne | hne
  · omega
  · unfold isizeMax at *
    omega

/-- The corollary used in practice: `Group::WIDTH > 0`. -/
theorem calculateLayoutFor_spec_of_W_pos (bits W size ctrlAlign buckets : Nat) (l : Layout)
    (hb : 16 ≤ bits) (ha : ∃ a, ctrlAlign = 2 ^ a) (hW : 0 < W)
    (h : calculateLayoutFor bits W size ctrlAlign buckets = some l) :
    l.align = ctrlAlign ∧ l.ctrlOffset % ctrlAlign = 0 ∧ size * buckets ≤ l.ctrlOffset ∧
    l.ctrlOffset < size * buckets + ctrlAlign ∧ l.size = l.ctrlOffset + buckets + W ∧
    l.size + (ctrlAlign - 1) ≤ isizeMax bits ∧ l.size < 2 ^ bits :=
  calculateLayoutFor_spec_partial bits W size ctrlAlign buckets l hb ha (Or.inl (by omega)) h

/-- Counterexample to the unrestricted item 6. -/
theorem calculateLayoutFor_spec_counterexample :
    ∃ l, calculateLayoutFor 16 0 8 (2 ^ 16) 0 = some l ∧
      ¬ (l.size + (2 ^ 16 - 1) ≤ isizeMax 16) :=
  ⟨{ size := 0, align := 65536, ctrlOffset := 0 }, by decide, by decide⟩

theorem calculateLayoutFor_none_iff (bits W size ctrlAlign buckets : Nat) :
    calculateLayoutFor bits W size ctrlAlign buckets = none ↔
      (2 ^ bits ≤ size * buckets ∨ 2 ^ bits ≤ size * buckets + (ctrlAlign - 1) ∨
       2 ^ bits ≤ alignDown (size * buckets + (ctrlAlign - 1)) ctrlAlign + (buckets + W) ∨
       isizeMax bits - (ctrlAlign - 1) <
         alignDown (size * buckets + (ctrlAlign - 1)) ctrlAlign + (buckets + W)) := by
  unfold calculateLayoutFor
  by_cases h1 : size * buckets < 2 ^ bits
  · simp only [checkedMul, if_pos h1]
    by_cases h2 : size * buckets + (ctrlAlign - 1) < 2 ^ bits
    · simp only [checkedAdd, if_pos h2]
      by_cases h3 : alignDown (size * buckets + (ctrlAlign - 1)) ctrlAlign + (buckets + W) < 2 ^ bits
      · simp only [if_pos h3]
        split
        · simp; omega
        · simp; omega
      · simp only [if_neg h3]
        simp; omega
    · simp only [checkedAdd, if_neg h2]
      simp; omega
  · simp only [checkedMul, if_neg h1]
    simp; omega

/-! ### 8. `tableLayoutNew` -/

theorem tableLayoutNew_spec (W size align : Nat) :
    (tableLayoutNew W size align).1 = size ∧ W ≤ (tableLayoutNew W size align).2 ∧
    align ≤ (tableLayoutNew W size align).2 ∧
    ((tableLayoutNew W size align).2 = W ∨ (tableLayoutNew W size align).2 = align) := by
  unfold tableLayoutNew
  by_cases h : align > W
  · rw [if_pos h]; dsimp only; omega
  · rw [if_neg h]; dsimp only; omega

/-! ### 9. Element regions -/

/-- Element `i` occupies `[ctrlOffset - (i+1)*size, ctrlOffset - i*size)`.  For `i < j < buckets`
region `j` starts inside `[0, ctrlOffset)` and ends no later than region `i` starts. -/
theorem elem_regions_disjoint (bits W size ctrlAlign buckets : Nat) (l : Layout)
    (ha : ∃ a, ctrlAlign = 2 ^ a)
    (h : calculateLayoutFor bits W size ctrlAlign buckets = some l) :
    ∀ i j, i < j → j < buckets →
      (j + 1) * size ≤ l.ctrlOffset ∧
      l.ctrlOffset - (j + 1) * size + size ≤ l.ctrlOffset - (i + 1) * size := by
  intro i j hij hjb
  obtain ⟨a, rfl⟩ := ha
  have hpos : 0 < 2 ^ a := Nat.two_pow_pos a
  obtain ⟨_, _, h3, _⟩ := calculateLayoutFor_eq_some _ _ _ _ _ _ h
  have hge := le_alignDown_add (size * buckets) (2 ^ a) hpos
  rw [← h3] at hge
  have e1 : (j + 1) * size ≤ buckets * size := Nat.mul_le_mul_right size (by omega)
  have e2 : (i + 1 + 1) * size ≤ (j + 1) * size := Nat.mul_le_mul_right size (by omega)
  rw [Nat.succ_mul (i + 1) size] at e2
  rw [Nat.mul_comm buckets size] at e1
  omega

/-- Every element region lies inside `[0, ctrlOffset)` (the `i = j` companion of
`elem_regions_disjoint`). -/
theorem elem_region_inside (bits W size ctrlAlign buckets : Nat) (l : Layout)
    (ha : ∃ a, ctrlAlign = 2 ^ a)
    (h : calculateLayoutFor bits W size ctrlAlign buckets = some l) :
    ∀ i, i < buckets → (i + 1) * size ≤ l.ctrlOffset ∧
      l.ctrlOffset - (i + 1) * size + size = l.ctrlOffset - i * size := by
  intro i hib
  obtain ⟨a, rfl⟩ := ha
  have hpos : 0 < 2 ^ a := Nat.two_pow_pos a
  obtain ⟨_, _, h3, _⟩ := calculateLayoutFor_eq_some _ _ _ _ _ _ h
  have hge := le_alignDown_add (size * buckets) (2 ^ a) hpos
  rw [← h3] at hge
  have e1 : (i + 1) * size ≤ buckets * size := Nat.mul_le_mul_right size (by omega)
  rw [Nat.mul_comm buckets size] at e1
  have e2 : (i + 1) * size = i * size + size := Nat.succ_mul i size
  omega

theorem elem_aligned (bits W size ctrlAlign buckets align : Nat) (l : Layout)
    (hsz : size % align = 0) (hal : ctrlAlign % align = 0)
    (h : calculateLayoutFor bits W size ctrlAlign buckets = some l) :
    ∀ i, i < buckets → (l.ctrlOffset - (i + 1) * size) % align = 0 := by
  intro i _
  obtain ⟨_, _, h3, _⟩ := calculateLayoutFor_eq_some _ _ _ _ _ _ h
  have hmod := alignDown_mod (size * buckets + (ctrlAlign - 1)) ctrlAlign
  rw [← h3] at hmod
  have d1 : align ∣ l.ctrlOffset :=
    Nat.dvd_trans (Nat.dvd_of_mod_eq_zero hal) (Nat.dvd_of_mod_eq_zero hmod)
  have d2 : align ∣ (i + 1) * size :=
    Nat.dvd_trans (Nat.dvd_of_mod_eq_zero hsz) (Nat.dvd_mul_left size (i + 1))
  exact Nat.mod_eq_zero_of_dvd (Nat.dvd_sub d1 d2)

/-! ### 10. Non-vacuity -/

example : capacityToBuckets 64 16 8 28 = some 32 := by decide
example : (calculateLayoutFor 64 16 32 16 8).isSome := by decide
example : calculateLayoutFor 64 16 32 16 8 = some { size := 280, align := 16, ctrlOffset := 256 } := by
  decide
example : capacityToBuckets 64 16 8 (2 ^ 61) = none := by decide
example : capacityToBuckets 64 16 8 (2 ^ 61) = none :=
  (capacityToBuckets_none_iff 64 16 8 (2 ^ 61) (by omega)).2 (by omega)
example : capacityToBuckets 64 16 8 (2 ^ 61 - 1) = some (2 ^ 62) := by decide

#print axioms nextPowerOfTwo_spec
#print axioms capacityToBuckets_spec
#print axioms capacityToBuckets_none_iff
#print axioms capacityToBuckets_minimal
#print axioms calculateLayoutFor_spec_partial
#print axioms calculateLayoutFor_none_iff
#print axioms elem_regions_disjoint
#print axioms elem_aligned

end Hb
