/-
C13 — memory bound under churn: "for any interleaving of insertions and removals in which the number
of live elements never exceeds `n` and no capacity is explicitly reserved, the table's allocation
never exceeds a fixed multiple of the space needed for `n` elements: slots freed by removals are
reused or reclaimed in place instead of driving growth."

Why it holds (raw/mod.rs:2625 `reserve_rehash_inner`): the only growth path of `insert` is
`reserve(1)` → `reserve_rehash(1)`, which rehashes IN PLACE (same bucket count, tombstones cleared)
whenever `items + 1 ≤ full_capacity / 2` and otherwise resizes to
`capacity_to_buckets(full_capacity + 1)`, i.e. doubles. So a growth step from capacity `full`
implies `items ≥ full / 2`, and the new capacity is `≤ max 14 (2 * full) ≤ max 14 (4 * items)`.

Main results (all for EVERY environment: arbitrary call-number dependent hasher / `Eq` / `Drop` /
allocator, panics caught and the history continued; `GuardRuns cfg` = the F1 repair or drop glue,
needed only to keep the invariant across a hasher panic inside `rehash_in_place`):

* arithmetic core   `ch_grow_cap_le` (`≤ max 14 (2 * full)`), `ch_grow_cap_items` (`≤ max 14 (4 * items)`)
* `ch_reserveRehash_mask`, `ch_insert_mask`   which branch / what the new bucket count is
* `grow_step_bound_sharp`, `grow_step_bound`, `nongrow_step_mask`            (one call)
* `churn_bound`            `capacity ≤ max 14 (4 * peak)`, `peak = Map.runPeak` (max `len()` over the run)
* `churn_bound_buckets`    `buckets ≤ max 16 (32 * peak / 7)`
* `churn_bound_buckets_rel` `buckets ≤ 4 * capacity_to_buckets(n)` if `peak ≤ n`, `n ≥ 1`   — the multiple is 4
* `churn_bound_bytes`      `allocation_size() ≤ 4 * size(layout(with_capacity(n)))`, and `≤ size(layout(4 * b))`
* `tombstones_reclaimed`, `insert_no_growth_below_half`   reclaimed in place
* `churn_example_small`, `churn_example_reclaim`, `churn_example_bound`   evaluated 60-call workloads

Remark on the constant: `find_or_find_insert_slot` calls `reserve(1)` BEFORE searching, so an
`insert` that merely overwrites an existing key can grow a table with `growth_left = 0`. The bound
is not affected (`4 * items` with `items` taken before the call, no `+ 1` needed) because the
capacities `≥ 14` are even.
-/
import Hb.Proofs.ApiGrow
import Hb.Model.MapOps
namespace Hb

variable {cfg : Cfg}

/-! ### Arithmetic core -/

/-- `bucket_mask_to_capacity` is monotone. -/
theorem ch_bmc_mono {a b : Nat} (h : a ≤ b) : bucketMaskToCapacity a ≤ bucketMaskToCapacity b := by
  unfold bucketMaskToCapacity
  split <;> split <;> omega

/-- Geometry of the masks that occur: the singleton (`mask = 0`) or `mask + 1 = 2 ^ k`, `k ≥ 2`. -/
def ch_MaskOk (mask : Nat) : Prop := mask = 0 ∨ ∃ k, 2 ≤ k ∧ mask + 1 = 2 ^ k

/-- Small tables: a request below 15 yields at most 16 buckets, i.e. capacity at most 14. -/
theorem ch_ctb_small {bits W size cap b : Nat} (hcap : cap < 15)
    (h : capacityToBuckets bits W size cap = some b) : bucketMaskToCapacity (b - 1) ≤ 14 := by
  unfold capacityToBuckets at h
  rw [if_pos hcap] at h
  simp only [Option.some.injEq] at h
  subst h
  repeat' split
  all_goals simp [bucketMaskToCapacity]

/-- Doubling: growing a full table (`capacity_to_buckets(full_capacity + 1)`) at most doubles the
    capacity, except below the minimum sizes where it is at most 14. -/
theorem ch_grow_cap_le {bits W size mask b : Nat} (hm : ch_MaskOk mask)
    (h : capacityToBuckets bits W size (bucketMaskToCapacity mask + 1) = some b) :
    bucketMaskToCapacity (b - 1) ≤ max 14 (2 * bucketMaskToCapacity mask) := by
  by_cases hsm : bucketMaskToCapacity mask + 1 < 15
  · have := ch_ctb_small hsm h
    omega
  · have hk4 : ∃ k, 4 ≤ k ∧ mask + 1 = 2 ^ k := by
      rcases hm with h0 | ⟨k, hk, hk2⟩
      · subst h0; simp [bucketMaskToCapacity] at hsm
      · refine ⟨k, ?_, hk2⟩
        apply Classical.byContradiction
        intro hlt
        have : k = 2 ∨ k = 3 := by omega
        rcases this with rfl | rfl
        · have : mask = 3 := by omega
          subst this; simp [bucketMaskToCapacity] at hsm
        · have : mask = 7 := by omega
          subst this; simp [bucketMaskToCapacity] at hsm
    obtain ⟨k, hk, hk2⟩ := hk4
    obtain ⟨j, rfl⟩ : ∃ j, k = j + 4 := ⟨k - 4, by omega⟩
    have e : 2 ^ (j + 4) = 16 * 2 ^ j := by rw [Nat.pow_add]; omega
    have e' : 2 ^ (j + 4 + 1) = 32 * 2 ^ j := by rw [Nat.pow_succ, e]; omega
    have hp : 0 < 2 ^ j := Nat.two_pow_pos j
    have hfull : bucketMaskToCapacity mask = 14 * 2 ^ j := by
      unfold bucketMaskToCapacity
      rw [if_neg (by omega), hk2, e]
      omega
    rw [hfull] at h ⊢
    have hle := capacityToBuckets_minimal bits W size (14 * 2 ^ j + 1) b (by omega) h (j + 4 + 1)
      (by rw [e']; omega)
    rw [e'] at hle
    have := ch_bmc_mono (show b - 1 ≤ 32 * 2 ^ j - 1 by omega)
    have h2 : bucketMaskToCapacity (32 * 2 ^ j - 1) = 28 * 2 ^ j := by
      unfold bucketMaskToCapacity
      rw [if_neg (by omega)]
      omega
    omega

/-- If growth only happens when `items + 1 > full / 2`, the capacity after growth is at most
    `max 14 (4 * items)`. -/
theorem ch_grow_cap_items {bits W size mask b items : Nat} (hm : ch_MaskOk mask)
    (hgrow : ¬ items + 1 ≤ bucketMaskToCapacity mask / 2)
    (h : capacityToBuckets bits W size (bucketMaskToCapacity mask + 1) = some b) :
    bucketMaskToCapacity (b - 1) ≤ max 14 (4 * items) := by
  have h1 := ch_grow_cap_le hm h
  by_cases hsm : bucketMaskToCapacity mask + 1 < 15
  · have := ch_ctb_small hsm h
    omega
  · -- `full ≥ 14` is even
    have hev : bucketMaskToCapacity mask % 2 = 0 := by
      rcases hm with h0 | ⟨k, hk, hk2⟩
      · subst h0; simp [bucketMaskToCapacity] at hsm
      · by_cases hk4 : 4 ≤ k
        · obtain ⟨j, rfl⟩ : ∃ j, k = j + 4 := ⟨k - 4, by omega⟩
          have e : 2 ^ (j + 4) = 16 * 2 ^ j := by rw [Nat.pow_add]; omega
          have hp : 0 < 2 ^ j := Nat.two_pow_pos j
          unfold bucketMaskToCapacity
          rw [if_neg (by omega), hk2, e]
          omega
        · have : k = 2 ∨ k = 3 := by omega
          rcases this with rfl | rfl
          · have : mask = 3 := by omega
            subst this; simp [bucketMaskToCapacity] at hsm
          · have : mask = 7 := by omega
            subst this; simp [bucketMaskToCapacity] at hsm
    omega

/-! ### What one call can do to the bucket mask -/

theorem ch_items_le_full {t : Raw} (h : Inv cfg t) : t.items ≤ bucketMaskToCapacity t.mask := by
  rcases h.geom with hs | ha
  · have := hs.2.2.2.2.1; omega
  · have := h.count ha.1
    have := h.items_eq
    omega

theorem ch_maskOk {t : Raw} (h : Inv cfg t) : ch_MaskOk t.mask := by
  rcases h.geom with hs | ha
  · exact Or.inl hs.2.1
  · obtain ⟨k, hk, hk2⟩ := ha.2.1
    exact Or.inr ⟨k, hk, hk2⟩

/-- Effect of one call on the geometry: the bucket mask is unchanged, or the table was grown by
    `reserve_rehash(1)` through `resize_inner(full_capacity + 1)`, which only happens when
    `items + 1 > full_capacity / 2`. -/
def ch_MaskStep (cfg : Cfg) (t t' : Raw) : Prop :=
  t'.mask = t.mask ∨
  (¬ t.items + 1 ≤ bucketMaskToCapacity t.mask / 2 ∧
    capacityToBuckets cfg.bits cfg.W cfg.size (bucketMaskToCapacity t.mask + 1) = some t'.buckets)

theorem ch_MaskStep.of_mask_eq {t t1 t2 : Raw} (h : ch_MaskStep cfg t t1) (hm : t2.mask = t1.mask) :
    ch_MaskStep cfg t t2 := by
  rcases h with h | ⟨h1, h2⟩
  · exact Or.inl (hm.trans h)
  · exact Or.inr ⟨h1, by simpa only [Raw.buckets, hm] using h2⟩

theorem ch_MaskStep.refl (t : Raw) : ch_MaskStep cfg t t := Or.inl rfl

/-- The capacity after a `ch_MaskStep`. -/
theorem ch_maskStep_bound {t t' : Raw} (hinv : Inv cfg t) (h : ch_MaskStep cfg t t') :
    bucketMaskToCapacity t'.mask ≤
      max (bucketMaskToCapacity t.mask) (max 14 (4 * t.items)) := by
  rcases h with h | ⟨h1, h2⟩
  · rw [h]; omega
  · have := ch_grow_cap_items (ch_maskOk hinv) h1 h2
    have e : t'.buckets - 1 = t'.mask := by simp [Raw.buckets]
    rw [e] at this
    omega

/-- `reserve_rehash_inner(1)`: which branch is taken and what the new bucket count is. -/
theorem ch_reserveRehash_mask (hc : CfgOk cfg) (hp : ProbeCovers cfg) (env : Env)
    (fb : Fallibility) (w : World) (h : TInv cfg w.t) :
    match reserveRehash cfg env 1 fb w with
    | .ok (_, w') => ch_MaskStep cfg w.t w'.t
    | .panic _ w' => w'.t.mask = w.t.mask
    | .abort => True
    | .fault _ => False := by
  obtain ⟨hinv, hlo⟩ := h
  unfold reserveRehash
  cases hca : checkedAdd cfg.bits w.t.items 1 with
  | none => cases fb <;> simp [capacityOverflow, ch_MaskStep]
  | some newItems =>
    have hn := ag_checkedAdd_some hca
    subst hn
    simp only
    by_cases hbr : w.t.items + 1 ≤ bucketMaskToCapacity w.t.mask / 2
    · rw [if_pos hbr]
      have ha : w.t.alloc = true := by
        cases hal : w.t.alloc with
        | true => rfl
        | false =>
          have hs := ag_singleton_of_not_alloc hinv hal
          rw [hs.2.1] at hbr
          simp [bucketMaskToCapacity] at hbr
      have hsp := rehashInPlace_spec hc hp env w hinv ha
      cases hr : rehashInPlace cfg env w with
      | ok w' => rw [hr] at hsp; exact Or.inl hsp.2.1
      | panic c w' => rw [hr] at hsp; exact hsp.2.1
      | abort => trivial
      | fault f => rw [hr] at hsp; exact hsp.elim
    · rw [if_neg hbr]
      have hmax : max (w.t.items + 1) (bucketMaskToCapacity w.t.mask + 1) =
          bucketMaskToCapacity w.t.mask + 1 := by
        have := ch_items_le_full hinv; omega
      rw [hmax]
      have hsp := resizeInner_spec_partial hc hp env (bucketMaskToCapacity w.t.mask + 1) fb w
        hinv hlo (by have := ch_items_le_full hinv; omega)
      cases hr : resizeInner cfg env (bucketMaskToCapacity w.t.mask + 1) fb w with
      | ok pr =>
        obtain ⟨r, w'⟩ := pr
        rw [hr] at hsp
        cases r with
        | ok u =>
          cases u
          obtain ⟨_, _, _, _, _, a6, _⟩ := hsp
          rw [if_neg (by omega)] at a6
          exact Or.inr ⟨hbr, a6.2.1⟩
        | error e => exact Or.inl (by rw [hsp.2.1])
      | panic c w' =>
        rw [hr] at hsp
        rcases hsp with ⟨_, _, a⟩ | ⟨_, _, a, _⟩
        · rw [a]
        · show w'.t.mask = w.t.mask
          rw [a]
      | abort => trivial
      | fault f => rw [hr] at hsp; exact hsp.elim

/-- `RawTable::reserve(1)`. -/
theorem ch_reserve_mask (hc : CfgOk cfg) (hp : ProbeCovers cfg) (env : Env) (w : World)
    (h : TInv cfg w.t) :
    match reserve cfg env 1 w with
    | .ok w' => ch_MaskStep cfg w.t w'.t
    | .panic _ w' => w'.t.mask = w.t.mask
    | .abort => True
    | .fault _ => True := by
  unfold reserve
  by_cases hgt : 1 > w.t.gl
  · rw [if_pos hgt]
    have hsp := ch_reserveRehash_mask hc hp env .infallible w h
    cases hr : reserveRehash cfg env 1 .infallible w with
    | ok pr =>
      obtain ⟨r, w'⟩ := pr
      rw [hr] at hsp
      cases r with
      | ok u => cases u; exact hsp
      | error e => trivial
    | panic c w' => rw [hr] at hsp; exact hsp
    | abort => trivial
    | fault f => trivial
  · rw [if_neg hgt]
    exact Or.inl rfl

/-- `find_or_find_insert_slot`: `reserve(1)`, then a search that does not touch the table. -/
theorem ch_fofis_mask (hc : CfgOk cfg) (hp : ProbeCovers cfg) (env : Env) (hash q : Nat)
    (w : World) (h : TInv cfg w.t) :
    match findOrFindInsertSlot cfg env hash q w with
    | .ok (_, w') => ch_MaskStep cfg w.t w'.t
    | .panic _ w' => ch_MaskStep cfg w.t w'.t
    | .abort => True
    | .fault _ => True := by
  unfold findOrFindInsertSlot
  have hres := reserve_spec hc hp env 1 w h
  have hm := ch_reserve_mask hc hp env w h
  cases hr : reserve cfg env 1 w with
  | ok w1 =>
    rw [hr] at hres hm
    simp only
    rcases fofis_total hc hp env hash q (tagFull cfg.bits hash) (tagFull_lt_128 cfg.bits hash) w1
        hres.1.1 with ⟨idx, w', k1, k2, _⟩ | ⟨slot, w', k1, k2, _⟩ | ⟨w', k1, k2, _⟩
    · rw [k1]; exact hm.of_mask_eq (by rw [k2])
    · rw [k1]; exact hm.of_mask_eq (by rw [k2])
    · rw [k1]; exact hm.of_mask_eq (by rw [k2])
  | panic c w' => rw [hr] at hm; exact Or.inl hm
  | abort => trivial
  | fault f => trivial

/-- `HashMap::insert`: whatever the outcome (returned or unwound), the bucket mask changed only
    through the `reserve(1)` at the start. No assumption on the environment, none on `GuardRuns`. -/
theorem ch_insert_mask (hc : CfgOk cfg) (hp : ProbeCovers cfg) (env : Env) (e : Elem) (w : World)
    (h : TInv cfg w.t) :
    match Map.insert cfg env e w with
    | .ok (_, w') => ch_MaskStep cfg w.t w'.t
    | .panic _ w' => ch_MaskStep cfg w.t w'.t
    | .abort => True
    | .fault _ => True := by
  unfold Map.insert
  cases hh : env.hash w.hc e.k with
  | none =>
    simp only [ag_makeHash_none hh, bind, Res.bind, Res.onPanic]
    rw [dropElemQuiet_t]
    exact Or.inl rfl
  | some hv =>
    simp only [ag_makeHash_some hh, bind, Res.bind]
    have hf := findOrFindInsertSlot_spec hc hp env hv e.k { w with hc := w.hc + 1 } h
    have hm := ch_fofis_mask hc hp env hv e.k { w with hc := w.hc + 1 } h
    cases hr : findOrFindInsertSlot cfg env hv e.k { w with hc := w.hc + 1 } with
    | ok pr =>
      obtain ⟨r, w2⟩ := pr
      rw [hr] at hf hm
      have hm : ch_MaskStep cfg w.t w2.t := hm
      cases r with
      | ok idx =>
        obtain ⟨a1, a2, a3, ⟨old, a4⟩, a5, a6, a7⟩ := hf
        simp only [pure, Res.onPanic, slotGet_ok a4]
        obtain ⟨e', he'⟩ : ∃ e' : Elem, e' = { old with vid := e.vid, v := e.v } := ⟨_, rfl⟩
        rw [← he']
        obtain ⟨t2, ht2⟩ : ∃ t2 : Raw,
            t2 = { w2.t with slots := w2.t.slots.setIfInBounds idx (some e') } := ⟨_, rfl⟩
        rw [← ht2]
        have hm2 : t2.mask = w2.t.mask := by rw [ht2]
        rcases ag_dropKeyR (cfg := cfg) env e.kid { w2 with t := t2 } with
          ⟨w3, d1, d2, d3⟩ | ⟨w3, d1, d2, d3⟩
        · rw [d1]; exact hm.of_mask_eq (by rw [d2]; exact hm2)
        · rw [d1]; exact hm.of_mask_eq (by rw [d2]; exact hm2)
      | error slot =>
        obtain ⟨a1, a2, a3, a4, _, a6, a7, a8, a9⟩ := hf
        simp only [pure, Res.onPanic]
        obtain ⟨t', b1, b2, b3, _⟩ := ag_insertInSlot hc a1 a6 a2 a3 a4 e hv
        simp only [b1]
        exact hm.of_mask_eq b3
    | panic c w' =>
      rw [hr] at hm
      simp only [Res.onPanic]
      exact ch_MaskStep.of_mask_eq hm (by rw [dropElemQuiet_t])
    | abort => simp only [Res.onPanic]
    | fault f => simp only [Res.onPanic]

/-- `get` never changes the table. -/
theorem ch_get_mask (hc : CfgOk cfg) (hp : ProbeCovers cfg) (env : Env) (k : Nat) (w : World)
    (h : TInv cfg w.t) :
    match Map.get cfg env k w with
    | .ok (_, w') => w'.t.mask = w.t.mask
    | .panic _ w' => w'.t.mask = w.t.mask
    | .abort => True
    | .fault _ => True := by
  have := Map.get_inv hc hp env k w h
  cases hr : Map.get cfg env k w with
  | ok pr => obtain ⟨r, w'⟩ := pr; rw [hr] at this; exact congrArg Raw.mask this.1
  | panic c w' => rw [hr] at this; exact congrArg Raw.mask this.2.1
  | abort => trivial
  | fault f => trivial

/-- `get_mut` never changes the bucket mask. -/
theorem ch_getMut_mask (hc : CfgOk cfg) (hp : ProbeCovers cfg) (env : Env) (k nv : Nat)
    (w : World) (h : TInv cfg w.t) :
    match Map.getMut cfg env k nv w with
    | .ok (_, w') => w'.t.mask = w.t.mask
    | .panic _ w' => w'.t.mask = w.t.mask
    | .abort => True
    | .fault _ => True := by
  unfold Map.getMut
  rcases ag_getInner hc hp env k w h.1 with ⟨r, w', k1, k2, k3, k4⟩ | ⟨c, w', k1, k2, k3, k4⟩
  · simp only [k1, bind, Res.bind]
    cases r with
    | none => exact congrArg Raw.mask k2
    | some idx =>
      obtain ⟨_, _, x, hx⟩ := k4 idx rfl
      rw [← k2] at hx
      simp only [slotGet_ok hx, liftE, pure]
      exact congrArg Raw.mask k2
  · simp only [k1, bind, Res.bind]
    exact congrArg Raw.mask k2

/-- `remove_entry` never changes the bucket mask. -/
theorem ch_removeEntry_mask (hc : CfgOk cfg) (hp : ProbeCovers cfg) (env : Env) (k : Nat)
    (w : World) (h : TInv cfg w.t) :
    match Map.removeEntry cfg env k w with
    | .ok (_, w') => w'.t.mask = w.t.mask
    | .panic _ w' => w'.t.mask = w.t.mask
    | .abort => True
    | .fault _ => True := by
  have := Map.removeEntry_inv hc hp env k w h
  cases hr : Map.removeEntry cfg env k w with
  | ok pr =>
    obtain ⟨r, w'⟩ := pr
    rw [hr] at this
    cases r with
    | none => exact congrArg Raw.mask this.1
    | some x => exact this.2.2.2.2
  | panic c w' => rw [hr] at this; exact congrArg Raw.mask this.2.1
  | abort => trivial
  | fault f => trivial

/-- `remove` never changes the bucket mask. -/
theorem ch_remove_mask (hc : CfgOk cfg) (hp : ProbeCovers cfg) (env : Env) (k : Nat)
    (w : World) (h : TInv cfg w.t) :
    match Map.remove cfg env k w with
    | .ok (_, w') => w'.t.mask = w.t.mask
    | .panic _ w' => w'.t.mask = w.t.mask
    | .abort => True
    | .fault _ => True := by
  unfold Map.remove
  have hre := ch_removeEntry_mask hc hp env k w h
  cases hr : Map.removeEntry cfg env k w with
  | ok pr =>
    obtain ⟨r, w1⟩ := pr
    rw [hr] at hre
    simp only [bind, Res.bind]
    cases r with
    | none => exact hre
    | some x =>
      rcases ag_dropKeyR (cfg := cfg) env x.kid w1 with ⟨w2, d1, d2, d3⟩ | ⟨w2, d1, d2, d3⟩
      · simp only [d1, pure]
        rw [d2]; exact hre
      · simp only [d1]
        rw [d2]; exact hre
  | panic c w' =>
    rw [hr] at hre
    simp only [bind, Res.bind]
    exact hre
  | abort => simp only [bind, Res.bind]
  | fault f => simp only [bind, Res.bind]

/-! ### Theorem 1: one call -/

/-- Sharp form: after `HashMap::insert` (returned or unwound) the capacity is at most the larger of
    the old capacity and `max 14 (4 * len)` (`len` taken *before* the call). -/
theorem grow_step_bound_sharp (hc : CfgOk cfg) (hp : ProbeCovers cfg) (env : Env) (e : Elem)
    (w : World) (h : TInv cfg w.t) :
    match Map.insert cfg env e w with
    | .ok (_, w') =>
      bucketMaskToCapacity w'.t.mask ≤
        max (bucketMaskToCapacity w.t.mask) (max 14 (4 * w.t.items))
    | .panic _ w' =>
      bucketMaskToCapacity w'.t.mask ≤
        max (bucketMaskToCapacity w.t.mask) (max 14 (4 * w.t.items))
    | .abort => True
    | .fault _ => True := by
  have hm := ch_insert_mask hc hp env e w h
  cases hr : Map.insert cfg env e w with
  | ok pr => obtain ⟨r, w'⟩ := pr; rw [hr] at hm; exact ch_maskStep_bound h.1 hm
  | panic c w' => rw [hr] at hm; exact ch_maskStep_bound h.1 hm
  | abort => trivial
  | fault f => trivial

/-- Theorem 1 as requested. -/
theorem grow_step_bound (hc : CfgOk cfg) (hp : ProbeCovers cfg) (env : Env) (e : Elem)
    (w : World) (h : TInv cfg w.t) :
    (∀ r w', Map.insert cfg env e w = .ok (r, w') →
      bucketMaskToCapacity w'.t.mask ≤
        max (bucketMaskToCapacity w.t.mask) (max 14 (4 * (w.t.items + 1)))) ∧
    (∀ c w', Map.insert cfg env e w = .panic c w' →
      bucketMaskToCapacity w'.t.mask ≤
        max (bucketMaskToCapacity w.t.mask) (max 14 (4 * (w.t.items + 1)))) := by
  have hm := grow_step_bound_sharp hc hp env e w h
  constructor
  · intro r w' hr; rw [hr] at hm
    have hm : bucketMaskToCapacity w'.t.mask ≤ _ := hm
    omega
  · intro c w' hr; rw [hr] at hm
    have hm : bucketMaskToCapacity w'.t.mask ≤ _ := hm
    omega

/-- Look-ups and removals never change the bucket mask (hence never the allocation). -/
theorem nongrow_step_mask (hc : CfgOk cfg) (hp : ProbeCovers cfg) (env : Env) (w : World)
    (h : TInv cfg w.t) :
    (∀ k r w', Map.get cfg env k w = .ok (r, w') ∨ (∃ c, Map.get cfg env k w = .panic c w') →
      w'.t.mask = w.t.mask) ∧
    (∀ k nv r w', Map.getMut cfg env k nv w = .ok (r, w') ∨
      (∃ c, Map.getMut cfg env k nv w = .panic c w') → w'.t.mask = w.t.mask) ∧
    (∀ k r w', Map.removeEntry cfg env k w = .ok (r, w') ∨
      (∃ c, Map.removeEntry cfg env k w = .panic c w') → w'.t.mask = w.t.mask) ∧
    (∀ k r w', Map.remove cfg env k w = .ok (r, w') ∨
      (∃ c, Map.remove cfg env k w = .panic c w') → w'.t.mask = w.t.mask) := by
  refine ⟨?_, ?_, ?_, ?_⟩
  · intro k r w' hr
    have := ch_get_mask hc hp env k w h
    rcases hr with hr | ⟨c, hr⟩ <;> (rw [hr] at this; exact this)
  · intro k nv r w' hr
    have := ch_getMut_mask hc hp env k nv w h
    rcases hr with hr | ⟨c, hr⟩ <;> (rw [hr] at this; exact this)
  · intro k r w' hr
    have := ch_removeEntry_mask hc hp env k w h
    rcases hr with hr | ⟨c, hr⟩ <;> (rw [hr] at this; exact this)
  · intro k r w' hr
    have := ch_remove_mask hc hp env k w h
    rcases hr with hr | ⟨c, hr⟩ <;> (rw [hr] at this; exact this)

/-! ### Theorem 2: histories -/

/-- The operations of a churn workload: insertions, look-ups, removals. No `reserve`, `shrink_to`,
    `clear`, iterator-based removal. -/
def ChurnOp : MapOp → Prop
  | .insert _ => True
  | .get _ => True
  | .getMut _ _ => True
  | .remove _ => True
  | .removeEntry _ => True
  | _ => False

/-- Peak live size of a history: the maximum of `len()` over all the worlds the run goes through
    (start, after every call — returned or unwound —, end). -/
def Map.runPeak (cfg : Cfg) (env : Env) : List MapOp → World → Nat
  | [], w => w.t.items
  | op :: rest, w =>
    match Map.step cfg env op w with
    | .ok (_, w') => max w.t.items (Map.runPeak cfg env rest w')
    | .panic _ w' => max w.t.items (Map.runPeak cfg env rest w')
    | .abort => w.t.items
    | .fault _ => w.t.items

theorem Map.runPeak_ge_start (env : Env) (ops : List MapOp) (w : World) :
    w.t.items ≤ Map.runPeak cfg env ops w := by
  cases ops with
  | nil => exact Nat.le_refl _
  | cons op rest =>
    unfold Map.runPeak
    split <;> omega

/-- `runPeak` dominates `len()` at every intermediate point of the history. -/
theorem Map.runPeak_ge_prefix (env : Env) (pre post : List MapOp) (w0 wm : World)
    (obs : List Map.Obs) (hrun : Map.run cfg env pre w0 = some (obs, wm)) :
    wm.t.items ≤ Map.runPeak cfg env (pre ++ post) w0 := by
  induction pre generalizing w0 obs with
  | nil =>
    simp only [Map.run, Option.some.injEq, Prod.mk.injEq] at hrun
    rw [← hrun.2]
    exact Map.runPeak_ge_start env _ _
  | cons op rest ih =>
    simp only [Map.run] at hrun
    simp only [List.cons_append, Map.runPeak]
    cases hs : Map.step cfg env op w0 with
    | ok pr =>
      obtain ⟨r, w1⟩ := pr
      rw [hs] at hrun
      simp only [Option.map_eq_some_iff] at hrun
      obtain ⟨⟨os, wf⟩, hr, heq⟩ := hrun
      simp only [Prod.mk.injEq] at heq
      have := ih w1 os (by rw [hr, heq.2])
      simp only
      omega
    | panic c w1 =>
      rw [hs] at hrun
      simp only [Option.map_eq_some_iff] at hrun
      obtain ⟨⟨os, wf⟩, hr, heq⟩ := hrun
      simp only [Prod.mk.injEq] at heq
      have := ih w1 os (by rw [hr, heq.2])
      simp only
      omega
    | abort => rw [hs] at hrun; cases hrun
    | fault f => rw [hs] at hrun; cases hrun

/-- One churn call: invariant kept, mask changed at most by a `ch_MaskStep`. -/
theorem ch_step (hc : CfgOk cfg) (hp : ProbeCovers cfg) (hg : GuardRuns cfg) (env : Env)
    (op : MapOp) (hop : ChurnOp op) (w : World) (h : TInv cfg w.t) :
    match Map.step cfg env op w with
    | .ok (_, w') => TInv cfg w'.t ∧ ch_MaskStep cfg w.t w'.t
    | .panic _ w' => TInv cfg w'.t ∧ ch_MaskStep cfg w.t w'.t
    | .abort => True
    | .fault _ => False := by
  cases op with
  | insert e =>
    have h1 := Map.insert_inv hc hp env e w h
    have h2 := ch_insert_mask hc hp env e w h
    simp only [Map.step]
    cases hr : Map.insert cfg env e w with
    | ok pr =>
      obtain ⟨r, w'⟩ := pr
      rw [hr] at h1 h2
      refine ⟨?_, h2⟩
      cases r with
      | none => exact h1.1
      | some p => exact h1.1
    | panic c w' =>
      rw [hr] at h1 h2
      exact ⟨h1.2 (fun _ => hg), h2⟩
    | abort => trivial
    | fault f => rw [hr] at h1; exact h1
  | get k =>
    have h1 := Map.get_inv hc hp env k w h
    have h2 := ch_get_mask hc hp env k w h
    simp only [Map.step]
    cases hr : Map.get cfg env k w with
    | ok pr =>
      obtain ⟨r, w'⟩ := pr
      rw [hr] at h1 h2
      exact ⟨h1.2.2.1, Or.inl h2⟩
    | panic c w' =>
      rw [hr] at h1 h2
      exact ⟨h1.2.2.2, Or.inl h2⟩
    | abort => trivial
    | fault f => rw [hr] at h1; exact h1
  | getMut k nv =>
    have h1 := Map.getMut_inv hc hp env k nv w h
    have h2 := ch_getMut_mask hc hp env k nv w h
    simp only [Map.step]
    cases hr : Map.getMut cfg env k nv w with
    | ok pr =>
      obtain ⟨r, w'⟩ := pr
      rw [hr] at h1 h2
      exact ⟨h1.1, Or.inl h2⟩
    | panic c w' =>
      rw [hr] at h1 h2
      exact ⟨h1.2.2.2, Or.inl h2⟩
    | abort => trivial
    | fault f => rw [hr] at h1; exact h1
  | remove k =>
    have h1 := Map.remove_inv hc hp env k w h
    have h2 := ch_remove_mask hc hp env k w h
    simp only [Map.step]
    cases hr : Map.remove cfg env k w with
    | ok pr =>
      obtain ⟨r, w'⟩ := pr
      rw [hr] at h1 h2
      refine ⟨?_, Or.inl h2⟩
      cases r with
      | none => exact h1.2.2
      | some p => exact h1.1
    | panic c w' =>
      rw [hr] at h1 h2
      refine ⟨?_, Or.inl h2⟩
      rcases h1 with h1 | h1
      · exact h1.2.2.2
      · exact h1.2.1
    | abort => trivial
    | fault f => rw [hr] at h1; exact h1
  | removeEntry k =>
    have h1 := Map.removeEntry_inv hc hp env k w h
    have h2 := ch_removeEntry_mask hc hp env k w h
    simp only [Map.step]
    cases hr : Map.removeEntry cfg env k w with
    | ok pr =>
      obtain ⟨r, w'⟩ := pr
      rw [hr] at h1 h2
      refine ⟨?_, Or.inl h2⟩
      cases r with
      | none => exact h1.2.2
      | some p => exact h1.1
    | panic c w' =>
      rw [hr] at h1 h2
      exact ⟨h1.2.2.2, Or.inl h2⟩
    | abort => trivial
    | fault f => rw [hr] at h1; exact h1
  | clear => exact hop.elim
  | reserve n => exact hop.elim
  | tryReserve n => exact hop.elim
  | shrinkTo m => exact hop.elim
  | retain => exact hop.elim
  | extractIf n => exact hop.elim
  | drain n fg => exact hop.elim
  | iter p => exact hop.elim

/-- Induction behind `churn_bound`, from an arbitrary start. `P` is the peak "so far". -/
theorem ch_run_bound (hc : CfgOk cfg) (hp : ProbeCovers cfg) (hg : GuardRuns cfg) (env : Env)
    (ops : List MapOp) (hops : ∀ op ∈ ops, ChurnOp op) (w0 : World) (P : Nat)
    (h0 : TInv cfg w0.t) (hb : bucketMaskToCapacity w0.t.mask ≤ max 14 (4 * P))
    (obs : List Map.Obs) (w : World) (hrun : Map.run cfg env ops w0 = some (obs, w)) :
    TInv cfg w.t ∧
    bucketMaskToCapacity w.t.mask ≤ max 14 (4 * max P (Map.runPeak cfg env ops w0)) := by
  induction ops generalizing w0 P obs with
  | nil =>
    simp only [Map.run, Option.some.injEq, Prod.mk.injEq] at hrun
    rw [← hrun.2]
    exact ⟨h0, by omega⟩
  | cons op rest ih =>
    have hst := ch_step hc hp hg env op (hops op (List.mem_cons_self ..)) w0 h0
    have hrest : ∀ op ∈ rest, ChurnOp op := fun o ho => hops o (List.mem_cons_of_mem _ ho)
    simp only [Map.run] at hrun
    simp only [Map.runPeak]
    cases hs : Map.step cfg env op w0 with
    | ok pr =>
      obtain ⟨r, w1⟩ := pr
      rw [hs] at hrun hst
      simp only [Option.map_eq_some_iff] at hrun
      obtain ⟨⟨os, wf⟩, hr, heq⟩ := hrun
      simp only [Prod.mk.injEq] at heq
      have hb1 := ch_maskStep_bound h0.1 hst.2
      have := ih hrest w1 (max P w0.t.items) hst.1 (by omega) os (by rw [hr, heq.2])
      refine ⟨this.1, ?_⟩
      have h2 := this.2
      simp only
      omega
    | panic c w1 =>
      rw [hs] at hrun hst
      simp only [Option.map_eq_some_iff] at hrun
      obtain ⟨⟨os, wf⟩, hr, heq⟩ := hrun
      simp only [Prod.mk.injEq] at heq
      have hb1 := ch_maskStep_bound h0.1 hst.2
      have := ih hrest w1 (max P w0.t.items) hst.1 (by omega) os (by rw [hr, heq.2])
      refine ⟨this.1, ?_⟩
      have h2 := this.2
      simp only
      omega
    | abort => rw [hs] at hrun; cases hrun
    | fault f => rw [hs] at hrun; cases hrun

/-- **C13, capacity form.** From `HashMap::new()`, after any history of insertions, look-ups and
    removals (any hasher / `Eq` / `Drop` / allocator behaviour, panics included), the capacity
    backing the table is at most `max 14 (4 * peak)`, `peak` = the largest `len()` ever reached. -/
theorem churn_bound (hc : CfgOk cfg) (hp : ProbeCovers cfg) (hg : GuardRuns cfg) (env : Env)
    (ops : List MapOp) (hops : ∀ op ∈ ops, ChurnOp op) (w0 : World) (h0 : w0.t = Raw.new cfg.W)
    (obs : List Map.Obs) (w : World) (hrun : Map.run cfg env ops w0 = some (obs, w)) :
    TInv cfg w.t ∧
    bucketMaskToCapacity w.t.mask ≤ max 14 (4 * Map.runPeak cfg env ops w0) := by
  have hT : TInv cfg w0.t := by rw [h0]; exact TInv.new hc
  have hb : bucketMaskToCapacity w0.t.mask ≤ max 14 (4 * 0) := by
    rw [h0]; simp [Raw.new, bucketMaskToCapacity]
  have := ch_run_bound hc hp hg env ops hops w0 0 hT hb obs w hrun
  refine ⟨this.1, ?_⟩
  have h2 := this.2
  omega

/-- The same with the workload's bound `n` on the live size ("the number of live elements never
    exceeds `n`"). -/
theorem churn_bound_n (hc : CfgOk cfg) (hp : ProbeCovers cfg) (hg : GuardRuns cfg) (env : Env)
    (ops : List MapOp) (hops : ∀ op ∈ ops, ChurnOp op) (w0 : World) (h0 : w0.t = Raw.new cfg.W)
    (obs : List Map.Obs) (w : World) (hrun : Map.run cfg env ops w0 = some (obs, w))
    (n : Nat) (hn : Map.runPeak cfg env ops w0 ≤ n) :
    bucketMaskToCapacity w.t.mask ≤ max 14 (4 * n) := by
  have := (churn_bound hc hp hg env ops hops w0 h0 obs w hrun).2
  omega

/-! ### Bucket-count form -/

/-- From a capacity bound to a bucket-count bound. -/
theorem ch_buckets_of_cap {t : Raw} (h : Inv cfg t) {p : Nat}
    (hC : bucketMaskToCapacity t.mask ≤ max 14 (4 * p)) : t.buckets ≤ max 16 (32 * p / 7) := by
  rcases ch_maskOk h with h0 | ⟨k, hk, hk2⟩
  · simp only [Raw.buckets, h0]; omega
  · by_cases hk4 : 4 ≤ k
    · obtain ⟨j, rfl⟩ : ∃ j, k = j + 4 := ⟨k - 4, by omega⟩
      have e : 2 ^ (j + 4) = 16 * 2 ^ j := by rw [Nat.pow_add]; omega
      have hp : 0 < 2 ^ j := Nat.two_pow_pos j
      have hfull : bucketMaskToCapacity t.mask = 14 * 2 ^ j := by
        unfold bucketMaskToCapacity
        rw [if_neg (by omega), hk2, e]
        omega
      rw [hfull] at hC
      simp only [Raw.buckets, hk2, e]
      omega
    · have : k = 2 ∨ k = 3 := by omega
      simp only [Raw.buckets]
      rcases this with rfl | rfl <;> omega

/-- **C13, bucket-count form.** `buckets ≤ max 16 (32 * peak / 7)` (about `4.57 * peak`). -/
theorem churn_bound_buckets (hc : CfgOk cfg) (hp : ProbeCovers cfg) (hg : GuardRuns cfg)
    (env : Env) (ops : List MapOp) (hops : ∀ op ∈ ops, ChurnOp op) (w0 : World)
    (h0 : w0.t = Raw.new cfg.W) (obs : List Map.Obs) (w : World)
    (hrun : Map.run cfg env ops w0 = some (obs, w)) :
    w.t.buckets ≤ max 16 (32 * Map.runPeak cfg env ops w0 / 7) := by
  obtain ⟨hT, hb⟩ := churn_bound hc hp hg env ops hops w0 h0 obs w hrun
  exact ch_buckets_of_cap hT.1 hb

/-- Relative to what `n` elements need: `32 * n / 7 ≤ 4 * capacity_to_buckets(n)`. -/
theorem ch_rel_arith {bits W size n b : Nat} (hb : 16 ≤ bits) (hn : n ≠ 0)
    (h : capacityToBuckets bits W size n = some b) : max 16 (32 * n / 7) ≤ 4 * b := by
  obtain ⟨k, hk, hbk, hcap, _, _⟩ := capacityToBuckets_spec bits W size n b hb hn h
  by_cases hk4 : 4 ≤ k
  · obtain ⟨j, rfl⟩ : ∃ j, k = j + 4 := ⟨k - 4, by omega⟩
    have e : 2 ^ (j + 4) = 16 * 2 ^ j := by rw [Nat.pow_add]; omega
    have hp : 0 < 2 ^ j := Nat.two_pow_pos j
    rw [e] at hbk
    subst hbk
    unfold bucketMaskToCapacity at hcap
    rw [if_neg (by omega)] at hcap
    omega
  · have : k = 2 ∨ k = 3 := by omega
    rcases this with rfl | rfl
    · have : b = 4 := by omega
      subst this
      simp [bucketMaskToCapacity] at hcap
      omega
    · have : b = 8 := by omega
      subst this
      simp [bucketMaskToCapacity] at hcap
      omega

/-- **C13, relative form: the fixed multiple is 4.** If the live size never exceeds `n ≥ 1`, the
    table never has more than four times the buckets `with_capacity(n)` would allocate. -/
theorem churn_bound_buckets_rel (hc : CfgOk cfg) (hp : ProbeCovers cfg) (hg : GuardRuns cfg)
    (env : Env) (ops : List MapOp) (hops : ∀ op ∈ ops, ChurnOp op) (w0 : World)
    (h0 : w0.t = Raw.new cfg.W) (obs : List Map.Obs) (w : World)
    (hrun : Map.run cfg env ops w0 = some (obs, w))
    (n b : Nat) (hn : n ≠ 0) (hpk : Map.runPeak cfg env ops w0 ≤ n)
    (hb : capacityToBuckets cfg.bits cfg.W cfg.size n = some b) :
    w.t.buckets ≤ 4 * b := by
  have h1 := churn_bound_buckets hc hp hg env ops hops w0 h0 obs w hrun
  have h2 := ch_rel_arith hc.bits hn hb
  have : 32 * Map.runPeak cfg env ops w0 / 7 ≤ 32 * n / 7 :=
    Nat.div_le_div_right (Nat.mul_le_mul_left 32 hpk)
  omega

/-! ### Bytes form -/

theorem ch_alignDown_eq (x a : Nat) : alignDown x a = a * (x / a) := by
  unfold alignDown
  have := Nat.div_add_mod x a
  omega

theorem ch_alignDown_mono {x y : Nat} (a : Nat) (h : x ≤ y) : alignDown x a ≤ alignDown y a := by
  rw [ch_alignDown_eq, ch_alignDown_eq]
  exact Nat.mul_le_mul_left a (Nat.div_le_div_right h)

/-- `align_up(x) ≤ 4 * align_up(y)` when `x ≤ 4 * y`. -/
theorem ch_alignUp_le_mul {x y a : Nat} (ha : 0 < a) (h : x ≤ 4 * y) :
    alignDown (x + (a - 1)) a ≤ 4 * alignDown (y + (a - 1)) a := by
  have hy := le_alignDown_add y a ha
  rw [ch_alignDown_eq] at hy ⊢
  rw [ch_alignDown_eq]
  generalize (y + (a - 1)) / a = q at hy ⊢
  have hlt : (x + (a - 1)) / a < 4 * q + 1 := by
    apply Nat.div_lt_of_lt_mul
    rw [Nat.mul_add, Nat.mul_one]
    have : a * (4 * q) = 4 * (a * q) := Nat.mul_left_comm a 4 q
    omega
  calc a * ((x + (a - 1)) / a) ≤ a * (4 * q) := Nat.mul_le_mul_left a (by omega)
    _ = 4 * (a * q) := Nat.mul_left_comm a 4 q

/-- The size of the block is monotone in the bucket count. -/
theorem layout_size_mono {bits W size ca b1 b2 : Nat} {l1 l2 : Layout} (hb : b1 ≤ b2)
    (h1 : calculateLayoutFor bits W size ca b1 = some l1)
    (h2 : calculateLayoutFor bits W size ca b2 = some l2) : l1.size ≤ l2.size := by
  obtain ⟨_, _, a3, _, a5, _⟩ := calculateLayoutFor_eq_some _ _ _ _ _ _ h1
  obtain ⟨_, _, b3, _, b5, _⟩ := calculateLayoutFor_eq_some _ _ _ _ _ _ h2
  have hm : size * b1 ≤ size * b2 := Nat.mul_le_mul_left size hb
  have := ch_alignDown_mono ca (show size * b1 + (ca - 1) ≤ size * b2 + (ca - 1) by omega)
  omega

/-- A block of at most `4 * b` buckets is at most four times as large as a block of `b` buckets. -/
theorem ch_layout_size_le_mul {bits W size ca b1 b : Nat} {l1 l : Layout} (hca : 0 < ca)
    (hb : b1 ≤ 4 * b)
    (h1 : calculateLayoutFor bits W size ca b1 = some l1)
    (h2 : calculateLayoutFor bits W size ca b = some l) : l1.size ≤ 4 * l.size := by
  obtain ⟨_, _, a3, _, a5, _⟩ := calculateLayoutFor_eq_some _ _ _ _ _ _ h1
  obtain ⟨_, _, b3, _, b5, _⟩ := calculateLayoutFor_eq_some _ _ _ _ _ _ h2
  have hm : size * b1 ≤ 4 * (size * b) := by
    calc size * b1 ≤ size * (4 * b) := Nat.mul_le_mul_left size hb
      _ = 4 * (size * b) := Nat.mul_left_comm size 4 b
  have := ch_alignUp_le_mul hca hm
  omega

theorem ch_ctrlAlign_pos (hc : CfgOk cfg) : 0 < ctrlAlignOf cfg := by
  have := (tableLayoutNew_spec cfg.W cfg.size cfg.align).2.1
  have hW : cfg.W = 8 ∨ cfg.W = 16 := Inv.W_cases hc
  unfold ctrlAlignOf
  omega

/-- **C13, bytes form.** If the live size never exceeds `n ≥ 1`, `allocation_size()` is at most
    four times the size of the block `with_capacity(n)` allocates (`b` buckets, layout `l`);
    and at most the size of a block of `4 * b` buckets whenever that layout is computable. -/
theorem churn_bound_bytes (hc : CfgOk cfg) (hp : ProbeCovers cfg) (hg : GuardRuns cfg)
    (env : Env) (ops : List MapOp) (hops : ∀ op ∈ ops, ChurnOp op) (w0 : World)
    (h0 : w0.t = Raw.new cfg.W) (obs : List Map.Obs) (w : World)
    (hrun : Map.run cfg env ops w0 = some (obs, w))
    (n b : Nat) (hn : n ≠ 0) (hpk : Map.runPeak cfg env ops w0 ≤ n)
    (hb : capacityToBuckets cfg.bits cfg.W cfg.size n = some b) :
    ∃ s, allocationSize cfg w.t = .ok s ∧
      (∀ l, calculateLayoutFor cfg.bits cfg.W cfg.size (ctrlAlignOf cfg) b = some l →
        s ≤ 4 * l.size) ∧
      (∀ L, calculateLayoutFor cfg.bits cfg.W cfg.size (ctrlAlignOf cfg) (4 * b) = some L →
        s ≤ L.size) := by
  have hT := (churn_bound hc hp hg env ops hops w0 h0 obs w hrun).1
  have hbk := churn_bound_buckets_rel hc hp hg env ops hops w0 h0 obs w hrun n b hn hpk hb
  refine ⟨_, allocationSize_spec hT, ?_, ?_⟩
  · intro l hl
    cases ha : w.t.alloc with
    | false => simp
    | true =>
      simp only [if_true]
      have hlo := hT.2 ha
      cases hcl : calculateLayoutFor cfg.bits cfg.W cfg.size (ctrlAlignOf cfg) w.t.buckets with
      | none => rw [hcl] at hlo; cases hlo
      | some l1 =>
        rw [layoutOf_eq hcl]
        exact ch_layout_size_le_mul (ch_ctrlAlign_pos hc) hbk hcl hl
  · intro L hL
    cases ha : w.t.alloc with
    | false => simp
    | true =>
      simp only [if_true]
      have hlo := hT.2 ha
      cases hcl : calculateLayoutFor cfg.bits cfg.W cfg.size (ctrlAlignOf cfg) w.t.buckets with
      | none => rw [hcl] at hlo; cases hlo
      | some l1 =>
        rw [layoutOf_eq hcl]
        exact layout_size_mono hbk hcl hL

/-! ### Theorem 3: tombstones are reclaimed in place -/

/-- `reserve(1)` with no growth left but at most half the capacity in use (the rest of the
    capacity is eaten by tombstones): the table is rehashed in place — same bucket count, no
    allocator event, every `DELETED` byte gone, `growth_left` back to `capacity - len`. The only way
    out other than success is a panicking hasher, which also leaves the bucket count alone. -/
theorem tombstones_reclaimed (hc : CfgOk cfg) (hp : ProbeCovers cfg) (env : Env) (w : World)
    (h : TInv cfg w.t) (hgl : w.t.gl = 0)
    (hhalf : w.t.items + 1 ≤ bucketMaskToCapacity w.t.mask / 2) :
    match reserve cfg env 1 w with
    | .ok w' =>
      TInv cfg w'.t ∧ w'.t.mask = w.t.mask ∧ w'.t.items = w.t.items ∧
      w'.t.countCtrl (· == DELETED) = 0 ∧
      w'.t.gl = bucketMaskToCapacity w.t.mask - w.t.items ∧
      List.Perm w'.t.elems w.t.elems ∧ w'.log = w.log
    | .panic c w' => c = "hash" ∧ w'.t.mask = w.t.mask
    | .abort => False
    | .fault _ => False := by
  obtain ⟨hinv, hlo⟩ := h
  have ha : w.t.alloc = true := by
    cases hal : w.t.alloc with
    | true => rfl
    | false =>
      have hs := ag_singleton_of_not_alloc hinv hal
      rw [hs.2.1] at hhalf
      simp [bucketMaskToCapacity] at hhalf
  have hall := hinv.allocated ha
  have hca : checkedAdd cfg.bits w.t.items 1 = some (w.t.items + 1) := by
    unfold checkedAdd
    rw [if_pos]
    have h1 := hall.2.2.2.2
    have h2 : bucketMaskToCapacity w.t.mask ≤ w.t.mask + 1 := by
      unfold bucketMaskToCapacity; split <;> omega
    simp only [Raw.buckets] at h1
    omega
  have hsp := rehashInPlace_spec hc hp env w hinv ha
  simp only [reserve, hgl, show (1 > 0) = True from by simp, if_true, reserveRehash, hca,
    if_pos hhalf]
  cases hr : rehashInPlace cfg env w with
  | ok w' =>
    rw [hr] at hsp
    obtain ⟨a1, a2, a3, a4, a5, a6, a7⟩ := hsp
    exact ⟨⟨a1, hlo.of_eq a2 (ag_alloc_eq hinv a1 a2)⟩, a2, a3, a4, by omega, a6, a7⟩
  | panic c w' => rw [hr] at hsp; exact ⟨hsp.1, hsp.2.1⟩
  | abort => rw [hr] at hsp; exact hsp
  | fault f => rw [hr] at hsp; exact hsp

/-- At call level: an `insert` issued while at most half the capacity is in use never changes the
    bucket count (tombstones, if any are in the way, are reclaimed in place). -/
theorem insert_no_growth_below_half (hc : CfgOk cfg) (hp : ProbeCovers cfg) (env : Env) (e : Elem)
    (w : World) (h : TInv cfg w.t)
    (hhalf : w.t.items + 1 ≤ bucketMaskToCapacity w.t.mask / 2) :
    match Map.insert cfg env e w with
    | .ok (_, w') => w'.t.mask = w.t.mask
    | .panic _ w' => w'.t.mask = w.t.mask
    | .abort => True
    | .fault _ => True := by
  have hm := ch_insert_mask hc hp env e w h
  cases hr : Map.insert cfg env e w with
  | ok pr =>
    obtain ⟨r, w'⟩ := pr
    rw [hr] at hm
    rcases hm with hm | ⟨hm, _⟩
    · exact hm
    · exact absurd hhalf hm
  | panic c w' =>
    rw [hr] at hm
    rcases hm with hm | ⟨hm, _⟩
    · exact hm
    · exact absurd hhalf hm
  | abort => trivial
  | fault f => trivial

/-! ### Non-vacuity: evaluated churn workloads -/

instance : DecidablePred ChurnOp := fun op => by
  cases op <;> simp only [ChurnOp] <;> infer_instance

/-- Hasher = identity (so that sequential keys cluster), `Eq` on keys, allocator always succeeds,
    no panics. -/
def chEnv : Env :=
  { hash := fun _ k => some k
    eq := fun _ q e => some (q == e.k)
    clone := fun _ _ => none
    pred := fun _ _ => none
    allocOk := fun _ => true
    dropPanics := fun _ _ => false }

def chElem (k : Nat) : Elem := ⟨k, k, k, k⟩

/-- `(mask, len, growth_left, #DELETED)` at the end of a run. -/
def chSummary (cfg : Cfg) (env : Env) (ops : List MapOp) (w0 : World) :
    Option (Nat × Nat × Nat × Nat) :=
  (Map.run cfg env ops w0).map fun r =>
    (r.2.t.mask, r.2.t.items, r.2.t.gl, r.2.t.countCtrl (· == DELETED))

/-- 60 calls: `insert i; remove (i - 2)` for `i < 30`; live size ≤ 3. -/
def chOpsA : List MapOp :=
  (List.range 30).flatMap fun i => [MapOp.insert (chElem i), MapOp.remove (i - 2)]

/-- 60 calls, live size ≤ 9: fill to 8, slide a window of 8–9 keys (every removal leaves a
    tombstone), drop to 3 live keys, then slide a window of 3–4 keys. -/
def chOpsB : List MapOp :=
  (List.range 8).map (fun i => MapOp.insert (chElem i)) ++
  (List.range 5).flatMap (fun i => [MapOp.insert (chElem (8 + i)), MapOp.remove i]) ++
  (List.range 5).map (fun i => MapOp.remove (5 + i)) ++
  (List.range 18).flatMap (fun i => [MapOp.insert (chElem (13 + i)), MapOp.remove (10 + i)]) ++
  [MapOp.get 30]

/-- SSE2 group width, 60 calls with at most 3 live keys: the table stays at 4 buckets. -/
theorem churn_example_small :
    chOpsA.length = 60 ∧ (∀ op ∈ chOpsA, ChurnOp op) ∧
    Map.runPeak { ops := Sse2.ops } chEnv chOpsA { t := Raw.new 16 } = 3 ∧
    chSummary { ops := Sse2.ops } chEnv chOpsA { t := Raw.new 16 } = some (3, 2, 1, 0) := by
  refine ⟨by decide +kernel, by decide +kernel, by decide +kernel, by decide +kernel⟩

/-- Portable group width, 60 calls with at most 9 live keys. After 25 calls the 16-bucket table
    (capacity 14) holds 3 keys, 11 tombstones and has no growth left; the 26th call (an insertion)
    rehashes in place: same mask, no tombstone, `growth_left = 10`. At the end: still 16 buckets. -/
theorem churn_example_reclaim :
    chOpsB.length = 60 ∧ (∀ op ∈ chOpsB, ChurnOp op) ∧
    Map.runPeak { ops := Generic.ops } chEnv chOpsB { t := Raw.new 8 } = 9 ∧
    chSummary { ops := Generic.ops } chEnv (chOpsB.take 25) { t := Raw.new 8 } =
      some (15, 3, 0, 11) ∧
    chSummary { ops := Generic.ops } chEnv (chOpsB.take 26) { t := Raw.new 8 } =
      some (15, 4, 10, 0) ∧
    chSummary { ops := Generic.ops } chEnv chOpsB { t := Raw.new 8 } = some (15, 3, 11, 0) := by
  refine ⟨by decide +kernel, by decide +kernel, by decide +kernel, by decide +kernel,
    by decide +kernel, by decide +kernel⟩

/-- The hypotheses of `churn_bound` are satisfiable: instantiated on the second workload.
    `hs` is `generic_groupSpec` of `Hb/Proofs/Group.lean` (not imported here, to keep its
    `bv_decide` axioms out of this file). -/
theorem churn_example_bound (hs : GroupSpec Generic.ops) :
    ∀ obs w, Map.run { ops := Generic.ops } chEnv chOpsB { t := Raw.new 8 } = some (obs, w) →
      bucketMaskToCapacity w.t.mask ≤ 36 ∧ w.t.buckets ≤ 41 := by
  intro obs w hrun
  have hc : CfgOk { ops := Generic.ops } := ⟨hs, by decide⟩
  have hp : ProbeCovers { ops := Generic.ops } := probe_covers _ (Or.inl rfl)
  have hg : GuardRuns { ops := Generic.ops } := Or.inr rfl
  have hops := churn_example_reclaim.2.1
  have hpk := churn_example_reclaim.2.2.1
  have h1 := churn_bound hc hp hg chEnv chOpsB hops { t := Raw.new 8 } rfl obs w hrun
  have h2 := churn_bound_buckets hc hp hg chEnv chOpsB hops { t := Raw.new 8 } rfl obs w hrun
  rw [hpk] at h1 h2
  exact ⟨by have := h1.2; omega, by omega⟩

#print axioms ch_grow_cap_le
#print axioms ch_grow_cap_items
#print axioms ch_reserveRehash_mask
#print axioms ch_insert_mask
#print axioms grow_step_bound_sharp
#print axioms grow_step_bound
#print axioms nongrow_step_mask
#print axioms Map.runPeak_ge_prefix
#print axioms ch_run_bound
#print axioms churn_bound
#print axioms churn_bound_n
#print axioms churn_bound_buckets
#print axioms churn_bound_buckets_rel
#print axioms layout_size_mono
#print axioms churn_bound_bytes
#print axioms tombstones_reclaimed
#print axioms insert_no_growth_below_half
#print axioms churn_example_small
#print axioms churn_example_reclaim
#print axioms churn_example_bound

end Hb
