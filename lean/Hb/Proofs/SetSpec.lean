/-
`HashSet` semantics (property C07): look-ups in a second table, the lazy set-algebra iterators
(`union`, `intersection`, `difference`, `symmetric_difference`), their `size_hint`s, the predicates
(`is_subset`, `is_superset`, `is_disjoint`, `==`), for two tables `a b` that satisfy the lawful
invariant `InvL` (ANY history: the hypothesis is the invariant), every hash function `H`, every
layout, both scanners.
-/
import Hb.Model.Set
import Hb.Proofs.FindSpec
import Hb.Proofs.IterSpec
import Hb.Proofs.Resize
import Hb.Proofs.InvLStep
import Mathlib.Data.List.Nodup
import Mathlib.Data.List.Perm.Subperm
namespace Hb

variable {cfg : Cfg} {env : Env} {H : Nat → Nat}

/-- The keys stored in a table, in bucket order. -/
def keys (t : Raw) : List Nat := t.elems.map (·.k)

/-! ### the abstraction `elems` / `keys` -/

theorem ss_mem_elems {t : Raw} {e : Elem} : e ∈ t.elems ↔ ∃ i : Nat, t.slots[i]?.join = some e := by
  rw [Raw.elems, List.mem_filterMap]
  constructor
  · rintro ⟨o, ho, hoe⟩
    simp only [id] at hoe; subst hoe
    obtain ⟨i, hi⟩ := List.mem_iff_getElem?.mp ho
    rw [Array.getElem?_toList] at hi
    exact ⟨i, by rw [hi]; rfl⟩
  · rintro ⟨i, hi⟩
    refine ⟨some e, List.mem_iff_getElem?.mpr ⟨i, ?_⟩, rfl⟩
    rw [Array.getElem?_toList]; exact Option.join_eq_some_iff.mp hi

theorem ss_mem_keys {t : Raw} {k : Nat} :
    k ∈ keys t ↔ ∃ (i : Nat) (e : Elem), t.slots[i]?.join = some e ∧ e.k = k := by
  simp only [keys, List.mem_map, ss_mem_elems]
  constructor
  · rintro ⟨e, ⟨i, hi⟩, rfl⟩; exact ⟨i, e, hi, rfl⟩
  · rintro ⟨i, e, hi, rfl⟩; exact ⟨e, ⟨i, hi⟩, rfl⟩

/-- Under `InvL` the stored keys are pairwise distinct. -/
theorem ss_keys_nodup {t : Raw} (h : InvL cfg H t) : (keys t).Nodup := by
  rw [keys, elems_eq_fullList h.toInv, List.map_filterMap]
  apply List.Nodup.filterMap
  · intro i j k hi hj
    simp only [Option.mem_def, Option.map_eq_some_iff] at hi hj
    obtain ⟨e, he, rfl⟩ := hi
    obtain ⟨e2, he2, hk⟩ := hj
    exact h.nodup i j e e2 he he2 hk.symm
  · exact (fullList_sorted t).imp (fun h => Nat.ne_of_lt h)

theorem ss_elems_nodup {t : Raw} (h : InvL cfg H t) : t.elems.Nodup :=
  List.Nodup.of_map _ (ss_keys_nodup h)

/-- Every index of `fullList` holds a live element. -/
theorem ss_fullList_live (hc : CfgOk cfg) {t : Raw} (h : Inv cfg t) {i : Nat} (hi : i ∈ t.fullList) :
    ∃ e, t.slots[i]?.join = some e := by
  obtain ⟨hlt, hf⟩ := (mem_fullList t i).mp hi
  have hsz : i < t.slots.size := by
    rcases h.geom with hs | ha
    · exfalso
      have hm := hs.2.1
      have : i = 0 := by simp only [Raw.buckets, hm] at hlt; omega
      subst this
      have hW : 0 < cfg.W := by rcases Inv.W_cases hc with hW | hW <;> omega
      rw [Raw.ctrlAt, hs.2.2.1] at hf
      simp [hW, isFull, EMPTY] at hf
    · rw [ha.2.2.2.1]; exact hlt
  exact Option.isSome_iff_exists.mp ((h.live i hsz).2 hf)

theorem ss_items_eq_length (hc : CfgOk cfg) {t : Raw} (h : Inv cfg t) :
    t.items = t.elems.length := by
  rw [elems_eq_fullList h, ← fullList_length hc h]
  have : ∀ l : List Nat, (∀ i ∈ l, ∃ e, t.slots[i]?.join = some e) →
      l.length = (l.filterMap fun i => t.slots[i]?.join).length := by
    intro l
    induction l with
    | nil => intro _; rfl
    | cons i l ih =>
      intro hl
      obtain ⟨e, he⟩ := hl i List.mem_cons_self
      rw [List.filterMap_cons, he]
      simp only [List.length_cons]
      rw [ih (fun j hj => hl j (List.mem_cons_of_mem _ hj))]
  exact this _ (fun i hi => ss_fullList_live hc h hi)

theorem ss_items_eq_keys_length (hc : CfgOk cfg) {t : Raw} (h : Inv cfg t) :
    t.items = (keys t).length := by
  rw [keys, List.length_map]; exact ss_items_eq_length hc h

theorem ss_elems_nil (hc : CfgOk cfg) {t : Raw} (h : Inv cfg t) (h0 : t.items = 0) :
    t.elems = [] := by
  have := ss_items_eq_length hc h
  exact List.eq_nil_of_length_eq_zero (by omega)

/-! ### 1. `contains` on a table that is not the target -/

/-- **`t.contains(k)`** for a lawful environment: the answer is membership in the key set; the
    target table and the log are untouched; no fault, no panic. -/
theorem containsIn_spec (hc : CfgOk cfg) (hp : ProbeCovers cfg) (hl : Lawful env H) {t : Raw}
    (h : InvL cfg H t) (k : Nat) (w : World) :
    ∃ w', Set.containsIn cfg env t k w = .ok (decide (k ∈ keys t), w') ∧ w'.t = w.t ∧
      w'.log = w.log := by
  unfold Set.containsIn Map.getInner
  by_cases h0 : t.items = 0
  · have hnil := ss_elems_nil hc h.toInv h0
    simp only [h0, if_true]
    refine ⟨_, ?_, rfl, rfl⟩
    simp [keys, hnil]
  · obtain ⟨r, w', hf, _, hlog, hsome, hnone⟩ :=
      find_spec hc hp env H hl k { w with t := t, hc := w.hc + 1 } h
    simp only [h0, if_false, makeHash, World.hashCall, hl.hash, bind, Res.bind, hf]
    refine ⟨{ w' with t := w.t }, ?_, rfl, hlog⟩
    congr 2
    cases r with
    | none =>
      have := hnone.1 rfl
      simp only [Option.isSome_none, Bool.false_eq, decide_eq_false_iff_not, ss_mem_keys]
      rintro ⟨i, e, he, hk⟩
      exact this i e he hk
    | some idx =>
      obtain ⟨e, he, hk⟩ := (hsome idx).1 rfl
      simp only [Option.isSome_some, Bool.true_eq, decide_eq_true_eq, ss_mem_keys]
      exact ⟨idx, e, he, hk⟩

/-! ### 2. the iteration order -/

/-- **`t.iter()`** yields exactly the stored elements, each once, in bucket order. -/
theorem elemsOf_spec (hc : CfgOk cfg) {t : Raw} (h : Inv cfg t) :
    Set.elemsOf cfg t = .ok t.elems := by
  unfold Set.elemsOf
  rw [fullIndices_spec hc h]
  simp only
  rw [elems_eq_fullList h]
  have hl : ∀ i ∈ t.fullList, ∃ e, t.slots[i]?.join = some e :=
    fun i hi => ss_fullList_live hc h hi
  generalize t.fullList = l at hl ⊢
  induction l with
  | nil => rfl
  | cons i l ih =>
    obtain ⟨e, he⟩ := hl i List.mem_cons_self
    rw [List.foldr_cons, ih (fun j hj => hl j (List.mem_cons_of_mem _ hj)), slotGet_ok he,
      List.filterMap_cons, he]

/-! ### 3. driving the lazy iterators -/

theorem ss_yieldAll_cons (s : Set.Step) (rest : List Set.Step) (w : World) (acc : List Elem) :
    Set.yieldAll cfg env (s :: rest) w acc =
      match s.probe with
      | none => Set.yieldAll cfg env rest w (s.e :: acc)
      | some (t, want) =>
        match Set.containsIn cfg env t s.e.k w with
        | .ok (b, w') => Set.yieldAll cfg env rest w' (if b == want then s.e :: acc else acc)
        | .panic c w' => .panic c w'
        | .abort => .abort
        | .fault f => .fault f := by
  rfl

theorem ss_yieldAll_append (s2 : List Set.Step) :
    ∀ (s1 : List Set.Step) (w : World) (acc ys : List Elem) (w' : World),
      Set.yieldAll cfg env s1 w acc = .ok (ys, w') →
      Set.yieldAll cfg env (s1 ++ s2) w acc = Set.yieldAll cfg env s2 w' ys.reverse := by
  intro s1
  induction s1 with
  | nil =>
    intro w acc ys w' h
    simp only [Set.yieldAll, Res.ok.injEq, Prod.mk.injEq] at h
    obtain ⟨rfl, rfl⟩ := h
    simp
  | cons s rest ih =>
    intro w acc ys w' h
    rw [List.cons_append, ss_yieldAll_cons]
    rw [ss_yieldAll_cons] at h
    cases hpr : s.probe with
    | none =>
      rw [hpr] at h
      exact ih _ _ _ _ h
    | some tw =>
      obtain ⟨t, want⟩ := tw
      rw [hpr] at h
      simp only at h ⊢
      cases hci : Set.containsIn cfg env t s.e.k w with
      | ok r =>
        obtain ⟨b, w1⟩ := r
        rw [hci] at h
        exact ih _ _ _ _ h
      | panic c w1 => rw [hci] at h; cases h
      | abort => rw [hci] at h; cases h
      | fault f => rw [hci] at h; cases h

theorem ss_yieldAll_plain : ∀ (l : List Elem) (w : World) (acc : List Elem),
    Set.yieldAll cfg env (Set.plain l) w acc = .ok (acc.reverse ++ l, w) := by
  intro l
  induction l with
  | nil => intro w acc; simp [Set.plain, Set.yieldAll]
  | cons e l ih =>
    intro w acc
    have := ih w (e :: acc)
    simp only [Set.plain, List.map_cons] at this ⊢
    rw [ss_yieldAll_cons]
    simp only [this]
    simp

theorem ss_yieldAll_filtered (hc : CfgOk cfg) (hp : ProbeCovers cfg) (hl : Lawful env H) {t : Raw}
    (h : InvL cfg H t) (want : Bool) :
    ∀ (l : List Elem) (w : World) (acc : List Elem),
    ∃ w', Set.yieldAll cfg env (Set.filtered l t want) w acc =
        .ok (acc.reverse ++ l.filter (fun e => decide (e.k ∈ keys t) == want), w') ∧
      w'.t = w.t ∧ w'.log = w.log := by
  intro l
  induction l with
  | nil => intro w acc; exact ⟨w, by simp [Set.filtered, Set.yieldAll], rfl, rfl⟩
  | cons e l ih =>
    intro w acc
    obtain ⟨w1, h1, h2, h3⟩ := containsIn_spec hc hp hl h e.k w
    obtain ⟨w2, k1, k2, k3⟩ := ih w1 (if decide (e.k ∈ keys t) == want then e :: acc else acc)
    refine ⟨w2, ?_, k2.trans h2, k3.trans h3⟩
    simp only [Set.filtered, List.map_cons] at k1 ⊢
    rw [ss_yieldAll_cons]
    simp only [h1, k1]
    cases hb : (decide (e.k ∈ keys t) == want) <;> simp [hb]

/-! ### the mathematical results, as lists -/

/-- `a ∖ b`: the elements of `a` (in `a`'s bucket order) whose key is not in `b`. -/
def ss_diff (a b : Raw) : List Elem := a.elems.filter fun e => decide (e.k ∉ keys b)

/-- `a ∩ b` as the iterator yields it: the smaller set filtered by membership in the larger. -/
def ss_inter (a b : Raw) : List Elem :=
  if a.items ≤ b.items then a.elems.filter fun e => decide (e.k ∈ keys b)
  else b.elems.filter fun e => decide (e.k ∈ keys a)

/-- `a ∪ b` as the iterator yields it: the larger set, then what the smaller one adds. -/
def ss_union (a b : Raw) : List Elem :=
  if a.items ≤ b.items then b.elems ++ ss_diff a b else a.elems ++ ss_diff b a

/-- `a △ b` as the iterator yields it. -/
def ss_symdiff (a b : Raw) : List Elem := ss_diff a b ++ ss_diff b a

theorem ss_map_filter_k (l : List Elem) (p : Nat → Bool) :
    (l.filter fun e => p e.k).map (·.k) = (l.map (·.k)).filter p := by
  rw [List.filter_map]; rfl

theorem ss_diff_keys (a b : Raw) :
    (ss_diff a b).map (·.k) = (keys a).filter fun k => decide (k ∉ keys b) :=
  ss_map_filter_k a.elems fun k => decide (k ∉ keys b)

theorem ss_mem_diff_keys {a b : Raw} {k : Nat} :
    k ∈ (ss_diff a b).map (·.k) ↔ k ∈ keys a ∧ k ∉ keys b := by
  rw [ss_diff_keys]; simp

theorem ss_diff_nodup {a : Raw} (ha : InvL cfg H a) (b : Raw) : ((ss_diff a b).map (·.k)).Nodup := by
  rw [ss_diff_keys]; exact (ss_keys_nodup ha).filter _

theorem ss_inter_keys (a b : Raw) :
    (ss_inter a b).map (·.k) =
      if a.items ≤ b.items then (keys a).filter fun k => decide (k ∈ keys b)
      else (keys b).filter fun k => decide (k ∈ keys a) := by
  unfold ss_inter
  split
  · exact ss_map_filter_k a.elems fun k => decide (k ∈ keys b)
  · exact ss_map_filter_k b.elems fun k => decide (k ∈ keys a)

theorem ss_mem_inter_keys {a b : Raw} {k : Nat} :
    k ∈ (ss_inter a b).map (·.k) ↔ k ∈ keys a ∧ k ∈ keys b := by
  rw [ss_inter_keys]; split
  · simp
  · simp; tauto

theorem ss_inter_nodup {a b : Raw} (ha : InvL cfg H a) (hb : InvL cfg H b) :
    ((ss_inter a b).map (·.k)).Nodup := by
  rw [ss_inter_keys]; split
  · exact (ss_keys_nodup ha).filter _
  · exact (ss_keys_nodup hb).filter _

/-- Whichever side is iterated, the yielded keys are a permutation of `keys a` filtered by `b`. -/
theorem ss_inter_perm {a b : Raw} (ha : InvL cfg H a) (hb : InvL cfg H b) :
    ((ss_inter a b).map (·.k)).Perm ((keys a).filter fun k => decide (k ∈ keys b)) := by
  rw [List.perm_ext_iff_of_nodup (ss_inter_nodup ha hb) ((ss_keys_nodup ha).filter _)]
  intro k; rw [ss_mem_inter_keys]; simp

theorem ss_mem_union_keys {a b : Raw} {k : Nat} :
    k ∈ (ss_union a b).map (·.k) ↔ k ∈ keys a ∨ k ∈ keys b := by
  unfold ss_union
  split <;> rw [List.map_append, List.mem_append, ss_mem_diff_keys] <;> simp only [keys] <;> tauto

theorem ss_union_nodup {a b : Raw} (ha : InvL cfg H a) (hb : InvL cfg H b) :
    ((ss_union a b).map (·.k)).Nodup := by
  unfold ss_union
  split <;> rw [List.map_append, List.nodup_append]
  · refine ⟨ss_keys_nodup hb, ss_diff_nodup ha b, ?_⟩
    intro x hx y hy hxy
    subst hxy
    exact (ss_mem_diff_keys.mp hy).2 hx
  · refine ⟨ss_keys_nodup ha, ss_diff_nodup hb a, ?_⟩
    intro x hx y hy hxy
    subst hxy
    exact (ss_mem_diff_keys.mp hy).2 hx

theorem ss_mem_symdiff_keys {a b : Raw} {k : Nat} :
    k ∈ (ss_symdiff a b).map (·.k) ↔ (k ∈ keys a ∧ k ∉ keys b) ∨ (k ∈ keys b ∧ k ∉ keys a) := by
  rw [ss_symdiff, List.map_append, List.mem_append, ss_mem_diff_keys, ss_mem_diff_keys]

theorem ss_symdiff_nodup {a b : Raw} (ha : InvL cfg H a) (hb : InvL cfg H b) :
    ((ss_symdiff a b).map (·.k)).Nodup := by
  rw [ss_symdiff, List.map_append, List.nodup_append]
  refine ⟨ss_diff_nodup ha b, ss_diff_nodup hb a, ?_⟩
  intro x hx y hy hxy
  subst hxy
  exact (ss_mem_diff_keys.mp hy).2 (ss_mem_diff_keys.mp hx).1

/-! ### 3. the four lazy operations -/

theorem ss_filter_false (l : List Elem) (ks : List Nat) :
    (l.filter fun e => decide (e.k ∈ ks) == false) = l.filter fun e => decide (e.k ∉ ks) := by
  apply List.filter_congr; intro e _; simp

theorem ss_filter_true (l : List Elem) (ks : List Nat) :
    (l.filter fun e => decide (e.k ∈ ks) == true) = l.filter fun e => decide (e.k ∈ ks) := by
  apply List.filter_congr; intro e _; simp

/-- **`a.difference(b)`** (`w.t = a`) yields exactly the elements of `a` whose key is not in `b`, in
    `a`'s bucket order; nothing is modified, nothing panics or faults. -/
theorem difference_spec (hc : CfgOk cfg) (hp : ProbeCovers cfg) (hl : Lawful env H) {b : Raw}
    (w : World) (ha : InvL cfg H w.t) (hb : InvL cfg H b) :
    ∃ w', Set.difference cfg env b w = .ok (ss_diff w.t b, w') ∧ w'.t = w.t ∧ w'.log = w.log := by
  unfold Set.difference Set.lazyOp Set.differenceSteps
  rw [elemsOf_spec hc ha.toInv]
  obtain ⟨w', h1, h2, h3⟩ := ss_yieldAll_filtered hc hp hl hb false w.t.elems w []
  refine ⟨w', ?_, h2, h3⟩
  simp only [h1, ss_filter_false, ss_diff, List.reverse_nil, List.nil_append]

/-- **`a.intersection(b)`**: the smaller set is iterated and filtered by the larger one. -/
theorem intersection_spec (hc : CfgOk cfg) (hp : ProbeCovers cfg) (hl : Lawful env H) {b : Raw}
    (w : World) (ha : InvL cfg H w.t) (hb : InvL cfg H b) :
    ∃ w', Set.intersection cfg env b w = .ok (ss_inter w.t b, w') ∧ w'.t = w.t ∧
      w'.log = w.log := by
  unfold Set.intersection Set.lazyOp Set.intersectionSteps Set.smallerLarger ss_inter
  by_cases hle : w.t.items ≤ b.items
  · simp only [hle, if_true]
    rw [elemsOf_spec hc ha.toInv]
    obtain ⟨w', h1, h2, h3⟩ := ss_yieldAll_filtered hc hp hl hb true w.t.elems w []
    refine ⟨w', ?_, h2, h3⟩
    simp only [h1, ss_filter_true, List.reverse_nil, List.nil_append]
  · simp only [hle, if_false]
    rw [elemsOf_spec hc hb.toInv]
    obtain ⟨w', h1, h2, h3⟩ := ss_yieldAll_filtered hc hp hl ha true b.elems w []
    refine ⟨w', ?_, h2, h3⟩
    simp only [h1, ss_filter_true, List.reverse_nil, List.nil_append]

/-- **`a.union(b)`**: all of the larger set, then the elements of the smaller one not in it. -/
theorem union_spec (hc : CfgOk cfg) (hp : ProbeCovers cfg) (hl : Lawful env H) {b : Raw}
    (w : World) (ha : InvL cfg H w.t) (hb : InvL cfg H b) :
    ∃ w', Set.union cfg env b w = .ok (ss_union w.t b, w') ∧ w'.t = w.t ∧ w'.log = w.log := by
  unfold Set.union Set.lazyOp Set.unionSteps Set.differenceSteps Set.smallerLarger ss_union
  by_cases hle : w.t.items ≤ b.items
  · simp only [hle, if_true]
    rw [elemsOf_spec hc ha.toInv, elemsOf_spec hc hb.toInv]
    obtain ⟨w', h1, h2, h3⟩ := ss_yieldAll_filtered hc hp hl hb false w.t.elems w b.elems.reverse
    refine ⟨w', ?_, h2, h3⟩
    simp only
    rw [ss_yieldAll_append _ _ _ _ _ _ (ss_yieldAll_plain b.elems w [])]
    simp only [List.reverse_nil, List.nil_append, h1, ss_filter_false, ss_diff, List.reverse_reverse]
  · simp only [hle, if_false]
    rw [elemsOf_spec hc ha.toInv, elemsOf_spec hc hb.toInv]
    obtain ⟨w', h1, h2, h3⟩ := ss_yieldAll_filtered hc hp hl ha false b.elems w w.t.elems.reverse
    refine ⟨w', ?_, h2, h3⟩
    simp only
    rw [ss_yieldAll_append _ _ _ _ _ _ (ss_yieldAll_plain w.t.elems w [])]
    simp only [List.reverse_nil, List.nil_append, h1, ss_filter_false, ss_diff, List.reverse_reverse]

/-- **`a.symmetric_difference(b)`** = `a ∖ b` followed by `b ∖ a`. -/
theorem symmetricDifference_spec (hc : CfgOk cfg) (hp : ProbeCovers cfg) (hl : Lawful env H)
    {b : Raw} (w : World) (ha : InvL cfg H w.t) (hb : InvL cfg H b) :
    ∃ w', Set.symmetricDifference cfg env b w = .ok (ss_symdiff w.t b, w') ∧ w'.t = w.t ∧
      w'.log = w.log := by
  unfold Set.symmetricDifference Set.lazyOp Set.symmetricDifferenceSteps Set.differenceSteps
    ss_symdiff
  rw [elemsOf_spec hc ha.toInv, elemsOf_spec hc hb.toInv]
  obtain ⟨w1, h1, h2, h3⟩ := ss_yieldAll_filtered hc hp hl hb false w.t.elems w []
  obtain ⟨w2, k1, k2, k3⟩ := ss_yieldAll_filtered hc hp hl ha false b.elems w1
    (w.t.elems.filter fun e => decide (e.k ∈ keys b) == false).reverse
  refine ⟨w2, ?_, k2.trans h2, k3.trans h3⟩
  simp only
  simp only [List.reverse_nil, List.nil_append] at h1
  rw [ss_yieldAll_append _ _ _ _ _ _ h1, k1]
  simp only [ss_filter_false, ss_diff, List.reverse_reverse]

/-! ### 5. predicates -/

theorem ss_allIn_cons (t : Raw) (e : Elem) (rest : List Elem) (w : World) :
    Set.allIn cfg env t (e :: rest) w =
      match Set.containsIn cfg env t e.k w with
      | .ok (true, w') => Set.allIn cfg env t rest w'
      | .ok (false, w') => .ok (false, w')
      | .panic c w' => .panic c w'
      | .abort => .abort
      | .fault f => .fault f := by
  rfl

theorem ss_allIn (hc : CfgOk cfg) (hp : ProbeCovers cfg) (hl : Lawful env H) {t : Raw}
    (h : InvL cfg H t) : ∀ (xs : List Elem) (w : World),
    ∃ w', Set.allIn cfg env t xs w = .ok (xs.all (fun e => decide (e.k ∈ keys t)), w') ∧
      w'.t = w.t ∧ w'.log = w.log := by
  intro xs
  induction xs with
  | nil => intro w; exact ⟨w, rfl, rfl, rfl⟩
  | cons e rest ih =>
    intro w
    obtain ⟨w1, h1, h2, h3⟩ := containsIn_spec hc hp hl h e.k w
    rw [ss_allIn_cons, h1, List.all_cons]
    cases hd : decide (e.k ∈ keys t) with
    | false => exact ⟨w1, rfl, h2, h3⟩
    | true =>
      obtain ⟨w2, k1, k2, k3⟩ := ih w1
      exact ⟨w2, by simpa using k1, k2.trans h2, k3.trans h3⟩

theorem ss_yieldsAny_cons (s : Set.Step) (rest : List Set.Step) (w : World) :
    Set.yieldsAny cfg env (s :: rest) w =
      match s.probe with
      | none => .ok (true, w)
      | some (t, want) =>
        match Set.containsIn cfg env t s.e.k w with
        | .ok (b, w') => if b == want then .ok (true, w') else Set.yieldsAny cfg env rest w'
        | .panic c w' => .panic c w'
        | .abort => .abort
        | .fault f => .fault f := by
  rfl

theorem ss_yieldsAny_filtered (hc : CfgOk cfg) (hp : ProbeCovers cfg) (hl : Lawful env H) {t : Raw}
    (h : InvL cfg H t) (want : Bool) : ∀ (l : List Elem) (w : World),
    ∃ w', Set.yieldsAny cfg env (Set.filtered l t want) w =
        .ok (l.any (fun e => decide (e.k ∈ keys t) == want), w') ∧ w'.t = w.t ∧ w'.log = w.log := by
  intro l
  induction l with
  | nil => intro w; exact ⟨w, rfl, rfl, rfl⟩
  | cons e rest ih =>
    intro w
    obtain ⟨w1, h1, h2, h3⟩ := containsIn_spec hc hp hl h e.k w
    simp only [Set.filtered, List.map_cons] at ih ⊢
    rw [ss_yieldsAny_cons]
    simp only [h1, List.any_cons]
    cases hd : (decide (e.k ∈ keys t) == want) with
    | true => exact ⟨w1, by simp, h2, h3⟩
    | false =>
      obtain ⟨w2, k1, k2, k3⟩ := ih w1
      exact ⟨w2, by simpa using k1, k2.trans h2, k3.trans h3⟩

/-- A duplicate-free list contained in another list is no longer than it. -/
theorem ss_length_le_of_subset {l m : List Nat} (hn : l.Nodup) (hs : ∀ k ∈ l, k ∈ m) :
    l.length ≤ m.length :=
  (hn.subperm hs).length_le

/-- `a.is_subset(b)` as a function of two tables. -/
theorem ss_isSubsetOf (hc : CfgOk cfg) (hp : ProbeCovers cfg) (hl : Lawful env H) {a b : Raw}
    (ha : InvL cfg H a) (hb : InvL cfg H b) (w : World) :
    ∃ r w', Set.isSubsetOf cfg env a b w = .ok (r, w') ∧ w'.t = w.t ∧ w'.log = w.log ∧
      (r = true ↔ ∀ k ∈ keys a, k ∈ keys b) := by
  unfold Set.isSubsetOf
  by_cases hle : a.items ≤ b.items
  · rw [if_pos hle, elemsOf_spec hc ha.toInv]
    obtain ⟨w', h1, h2, h3⟩ := ss_allIn hc hp hl hb a.elems w
    refine ⟨_, w', h1, h2, h3, ?_⟩
    simp [keys]
  · rw [if_neg hle]
    refine ⟨false, w, rfl, rfl, rfl, ?_⟩
    simp only [Bool.false_eq_true, false_iff]
    intro hs
    have := ss_length_le_of_subset (ss_keys_nodup ha) hs
    rw [← ss_items_eq_keys_length hc ha.toInv, ← ss_items_eq_keys_length hc hb.toInv] at this
    exact hle this

/-- **`a.is_subset(b)`** (`w.t = a`) answers `keys a ⊆ keys b`. -/
theorem isSubset_spec (hc : CfgOk cfg) (hp : ProbeCovers cfg) (hl : Lawful env H) {b : Raw}
    (w : World) (ha : InvL cfg H w.t) (hb : InvL cfg H b) :
    ∃ r w', Set.isSubset cfg env b w = .ok (r, w') ∧ w'.t = w.t ∧ w'.log = w.log ∧
      (r = true ↔ ∀ k ∈ keys w.t, k ∈ keys b) :=
  ss_isSubsetOf hc hp hl ha hb w

/-- **`a.is_superset(b)`** (`w.t = a`) answers `keys b ⊆ keys a`. -/
theorem isSuperset_spec (hc : CfgOk cfg) (hp : ProbeCovers cfg) (hl : Lawful env H) {b : Raw}
    (w : World) (ha : InvL cfg H w.t) (hb : InvL cfg H b) :
    ∃ r w', Set.isSuperset cfg env b w = .ok (r, w') ∧ w'.t = w.t ∧ w'.log = w.log ∧
      (r = true ↔ ∀ k ∈ keys b, k ∈ keys w.t) :=
  ss_isSubsetOf hc hp hl hb ha w

/-- **`a.is_disjoint(b)`** (`w.t = a`) answers "no common key". -/
theorem isDisjoint_spec (hc : CfgOk cfg) (hp : ProbeCovers cfg) (hl : Lawful env H) {b : Raw}
    (w : World) (ha : InvL cfg H w.t) (hb : InvL cfg H b) :
    ∃ r w', Set.isDisjoint cfg env b w = .ok (r, w') ∧ w'.t = w.t ∧ w'.log = w.log ∧
      (r = true ↔ ∀ k ∈ keys w.t, k ∉ keys b) := by
  unfold Set.isDisjoint Set.intersectionSteps Set.smallerLarger
  by_cases hle : w.t.items ≤ b.items
  · simp only [hle, if_true]
    rw [elemsOf_spec hc ha.toInv]
    obtain ⟨w', h1, h2, h3⟩ := ss_yieldsAny_filtered hc hp hl hb true w.t.elems w
    refine ⟨!(w.t.elems.any fun e => decide (e.k ∈ keys b) == true), w',
      by simp only [h1, bind, Res.bind, pure], h2, h3, ?_⟩
    simp [keys]
  · simp only [hle, if_false]
    rw [elemsOf_spec hc hb.toInv]
    obtain ⟨w', h1, h2, h3⟩ := ss_yieldsAny_filtered hc hp hl ha true b.elems w
    refine ⟨!(b.elems.any fun e => decide (e.k ∈ keys w.t) == true), w',
      by simp only [h1, bind, Res.bind, pure], h2, h3, ?_⟩
    simp only [keys, Bool.not_eq_true', List.any_eq_false, beq_true, decide_eq_true_eq,
      List.mem_map, not_exists, not_and, forall_exists_index, and_imp, forall_apply_eq_imp_iff₂]
    constructor
    · intro h1 e he e' he' hk; exact h1 e' he' e he hk.symm
    · intro h1 e he e' he' hk; exact h1 e' he' e he hk.symm

/-- **`a == b`** (`w.t = a`) answers "same key set". -/
theorem setEq_spec (hc : CfgOk cfg) (hp : ProbeCovers cfg) (hl : Lawful env H) {b : Raw}
    (w : World) (ha : InvL cfg H w.t) (hb : InvL cfg H b) :
    ∃ r w', Set.setEq cfg env b w = .ok (r, w') ∧ w'.t = w.t ∧ w'.log = w.log ∧
      (r = true ↔ ∀ k, k ∈ keys w.t ↔ k ∈ keys b) := by
  unfold Set.setEq
  have hia := ss_items_eq_keys_length hc ha.toInv
  have hib := ss_items_eq_keys_length hc hb.toInv
  by_cases hne : w.t.items ≠ b.items
  · rw [if_pos hne]
    refine ⟨false, w, rfl, rfl, rfl, ?_⟩
    simp only [Bool.false_eq_true, false_iff]
    intro hs
    have := ((List.perm_ext_iff_of_nodup (ss_keys_nodup ha) (ss_keys_nodup hb)).mpr hs).length_eq
    omega
  · rw [if_neg hne, elemsOf_spec hc ha.toInv]
    obtain ⟨w', h1, h2, h3⟩ := ss_allIn hc hp hl hb w.t.elems w
    refine ⟨_, w', h1, h2, h3, ?_⟩
    have hsub : (w.t.elems.all fun e => decide (e.k ∈ keys b)) = true ↔ ∀ k ∈ keys w.t, k ∈ keys b := by
      simp [keys]
    rw [hsub]
    constructor
    · intro hs
      have hperm := ((ss_keys_nodup ha).subperm hs).perm_of_length_le (by omega)
      exact fun k => hperm.mem_iff
    · intro hs k hk; exact (hs k).mp hk

/-- **`a == b` ⇔ `b == a`.** -/
theorem setEq_symm (hc : CfgOk cfg) (hp : ProbeCovers cfg) (hl : Lawful env H) {a b : Raw}
    (ha : InvL cfg H a) (hb : InvL cfg H b) (w : World) :
    ∃ r w1 w2, Set.setEq cfg env b { w with t := a } = .ok (r, w1) ∧
      Set.setEq cfg env a { w with t := b } = .ok (r, w2) := by
  obtain ⟨r1, w1, h1, _, _, e1⟩ := setEq_spec hc hp hl (b := b) { w with t := a } ha hb
  obtain ⟨r2, w2, h2, _, _, e2⟩ := setEq_spec hc hp hl (b := a) { w with t := b } hb ha
  have : r1 = r2 := by
    rw [Bool.eq_iff_iff, e1, e2]
    exact ⟨fun h k => (h k).symm, fun h k => (h k).symm⟩
  subst this
  exact ⟨r1, w1, w2, h1, h2⟩

/-! ### 4. `size_hint` of the four iterators brackets the true count -/

theorem ss_len_filter_mem_le {l : List Nat} (hn : l.Nodup) (m : List Nat) :
    (l.filter fun k => decide (k ∈ m)).length ≤ m.length :=
  ss_length_le_of_subset (hn.filter _) (fun k hk => by simpa using (List.mem_filter.mp hk).2)

theorem ss_len_split (l m : List Nat) :
    l.length = (l.filter fun k => decide (k ∈ m)).length +
      (l.filter fun k => decide (k ∉ m)).length := by
  rw [List.length_eq_length_filter_add (fun k => decide (k ∈ m))]
  congr 2
  apply List.filter_congr; intro k _; simp

theorem ss_diff_length_bounds (hc : CfgOk cfg) {a b : Raw} (ha : InvL cfg H a) (hb : InvL cfg H b) :
    a.items - b.items ≤ (ss_diff a b).length ∧ (ss_diff a b).length ≤ a.items := by
  have h1 := ss_items_eq_keys_length hc ha.toInv
  have h2 := ss_items_eq_keys_length hc hb.toInv
  have h3 := ss_len_split (keys a) (keys b)
  have h4 := ss_len_filter_mem_le (ss_keys_nodup ha) (keys b)
  have h5 : (ss_diff a b).length = ((keys a).filter fun k => decide (k ∉ keys b)).length := by
    rw [← ss_diff_keys, List.length_map]
  omega

/-- **`difference().size_hint()`** is sound: `(a.len() ∸ b.len(), Some(a.len()))`. -/
theorem difference_sizeHint_sound (hc : CfgOk cfg) {a b : Raw} (ha : InvL cfg H a)
    (hb : InvL cfg H b) :
    (Set.differenceHint a b).1 ≤ (ss_diff a b).length ∧
      (ss_diff a b).length ≤ (Set.differenceHint a b).2 :=
  ss_diff_length_bounds hc ha hb

/-- **`intersection().size_hint()`** is sound: `(0, Some(min len))`. -/
theorem intersection_sizeHint_sound (hc : CfgOk cfg) {a b : Raw} (ha : InvL cfg H a)
    (hb : InvL cfg H b) :
    (Set.intersectionHint a b).1 ≤ (ss_inter a b).length ∧
      (ss_inter a b).length ≤ (Set.intersectionHint a b).2 := by
  refine ⟨Nat.zero_le _, ?_⟩
  unfold Set.intersectionHint Set.smallerLarger ss_inter
  split
  · rw [ss_items_eq_length hc ha.toInv]; exact List.length_filter_le _ _
  · rw [ss_items_eq_length hc hb.toInv]; exact List.length_filter_le _ _

/-- **`union().size_hint()`** is sound. -/
theorem union_sizeHint_sound (hc : CfgOk cfg) {a b : Raw} (ha : InvL cfg H a)
    (hb : InvL cfg H b) :
    (Set.unionHint a b).1 ≤ (ss_union a b).length ∧
      (ss_union a b).length ≤ (Set.unionHint a b).2 := by
  have h1 := ss_items_eq_length hc ha.toInv
  have h2 := ss_items_eq_length hc hb.toInv
  have h3 := ss_diff_length_bounds hc ha hb
  have h4 := ss_diff_length_bounds hc hb ha
  unfold Set.unionHint Set.smallerLarger Set.satSub ss_union
  by_cases hle : a.items ≤ b.items
  · simp only [hle, if_true, List.length_append]; omega
  · simp only [hle, if_false, List.length_append]; omega

/-- **`symmetric_difference().size_hint()`** is sound. -/
theorem symmetricDifference_sizeHint_sound (hc : CfgOk cfg) {a b : Raw} (ha : InvL cfg H a)
    (hb : InvL cfg H b) :
    (Set.symmetricDifferenceHint a b).1 ≤ (ss_symdiff a b).length ∧
      (ss_symdiff a b).length ≤ (Set.symmetricDifferenceHint a b).2 := by
  have h3 := ss_diff_length_bounds hc ha hb
  have h4 := ss_diff_length_bounds hc hb ha
  unfold Set.symmetricDifferenceHint Set.satSub ss_symdiff
  simp only [List.length_append]
  omega

/-! ### 7. single-set operations: helpers -/

/-- Overwriting a live slot with an element of the same key preserves `InvL` (only the key enters
    the hash-dependent clauses). -/
theorem ss_slot_replace_invL {t : Raw} (h : InvL cfg H t) {i : Nat} {e e' : Elem}
    (he : t.slots[i]?.join = some e) (hk : e'.k = e.k) :
    InvL cfg H { t with slots := t.slots.setIfInBounds i (some e') } := by
  have hinv := h.toInv
  refine ⟨⟨?_, hinv.valid, hinv.mirror, hinv.items_eq, hinv.count, ?_, hinv.smallClean⟩, ?_, ?_, ?_⟩
  · rcases hinv.geom with hs | hal
    · left
      obtain ⟨h1, h2, h3, h4, h5, h6⟩ := hs
      refine ⟨h1, h2, h3, ?_, h5, h6⟩
      show t.slots.setIfInBounds i _ = #[]
      rw [h4]; rfl
    · right
      obtain ⟨h1, h2, h3, h4, h5⟩ := hal
      refine ⟨h1, h2, h3, ?_, h5⟩
      show (t.slots.setIfInBounds i _).size = _
      rw [Array.size_setIfInBounds]; exact h4
  · intro j hj
    show ((t.slots.setIfInBounds i _)[j]?.join).isSome ↔ isFull (t.ctrlAt j) = true
    have hj' : j < t.slots.size := by
      have : j < (t.slots.setIfInBounds i (some e')).size := hj
      rw [Array.size_setIfInBounds] at this; exact this
    have hl := hinv.live j hj'
    rw [Array.getElem?_setIfInBounds]
    by_cases hij : i = j
    · subst hij
      rw [he] at hl
      rw [if_pos rfl, if_pos hj']
      exact hl
    · rw [if_neg hij]; exact hl
  · intro j x hs
    have hs' : (t.slots.setIfInBounds i (some e'))[j]?.join = some x := hs
    show t.ctrlAt j = _
    rcases slots_set_some hs' with ⟨rfl, rfl, _⟩ | ⟨_, hs''⟩
    · rw [hk]; exact h.tag j e he
    · exact h.tag j x hs''
  · intro j x hs
    have hs' : (t.slots.setIfInBounds i (some e'))[j]?.join = some x := hs
    show Reachable cfg t _ j
    rcases slots_set_some hs' with ⟨rfl, rfl, _⟩ | ⟨_, hs''⟩
    · rw [hk]; exact h.reach j e he
    · exact h.reach j x hs''
  · intro j1 j2 e1 e2 h1 h2 hkk
    have h1' : (t.slots.setIfInBounds i (some e'))[j1]?.join = some e1 := h1
    have h2' : (t.slots.setIfInBounds i (some e'))[j2]?.join = some e2 := h2
    rcases slots_set_some h1' with ⟨rfl, rfl, _⟩ | ⟨_, h1''⟩
    · rcases slots_set_some h2' with ⟨rfl, rfl, _⟩ | ⟨_, h2''⟩
      · rfl
      · exact h.nodup j1 j2 e e2 he h2'' (hk.symm.trans hkk)
    · rcases slots_set_some h2' with ⟨rfl, rfl, _⟩ | ⟨_, h2''⟩
      · exact h.nodup j1 j2 e1 e h1'' he (hkk.trans hk)
      · exact h.nodup j1 j2 e1 e2 h1'' h2'' hkk

theorem ss_mem_elems_set_some {t : Raw} {idx : Nat} (hi : idx < t.slots.size) (e x : Elem) :
    x ∈ Raw.elems { t with slots := t.slots.setIfInBounds idx (some e) } ↔
      x = e ∨ ∃ i : Nat, i ≠ idx ∧ t.slots[i]?.join = some x := by
  rw [ss_mem_elems]
  constructor
  · rintro ⟨i, hs⟩
    have hs' : (t.slots.setIfInBounds idx (some e))[i]?.join = some x := hs
    rcases slots_set_some hs' with ⟨_, rfl, _⟩ | ⟨hne, hs''⟩
    · exact Or.inl rfl
    · exact Or.inr ⟨i, hne, hs''⟩
  · rintro (rfl | ⟨i, hne, hs⟩)
    · refine ⟨idx, ?_⟩
      show (t.slots.setIfInBounds idx (some x))[idx]?.join = some x
      rw [Array.getElem?_setIfInBounds, if_pos rfl, if_pos hi]; rfl
    · refine ⟨i, ?_⟩
      show (t.slots.setIfInBounds idx (some e))[i]?.join = some x
      rw [Array.getElem?_setIfInBounds, if_neg (fun h => hne h.symm)]; exact hs

theorem ss_mem_elems_set_none {t : Raw} {idx : Nat} (x : Elem) :
    x ∈ Raw.elems { t with slots := t.slots.setIfInBounds idx none } ↔
      ∃ i : Nat, i ≠ idx ∧ t.slots[i]?.join = some x := by
  rw [ss_mem_elems]
  constructor
  · rintro ⟨i, hs⟩
    have hs' : (t.slots.setIfInBounds idx none)[i]?.join = some x := hs
    obtain ⟨hne, hs''⟩ := slots_set_none hs'
    exact ⟨i, hne, hs''⟩
  · rintro ⟨i, hne, hs⟩
    refine ⟨i, ?_⟩
    show (t.slots.setIfInBounds idx none)[i]?.join = some x
    rw [Array.getElem?_setIfInBounds, if_neg (fun h => hne h.symm)]; exact hs

/-- The elements stored in buckets other than the one holding `old`: those with another key. -/
theorem ss_others_of_live {t : Raw} (h : InvL cfg H t) {idx : Nat} {old : Elem}
    (ho : t.slots[idx]?.join = some old) (x : Elem) :
    (∃ i : Nat, i ≠ idx ∧ t.slots[i]?.join = some x) ↔ x ∈ t.elems ∧ x.k ≠ old.k := by
  constructor
  · rintro ⟨i, hne, hs⟩
    exact ⟨ss_mem_elems.mpr ⟨i, hs⟩, fun hk => hne (h.nodup i idx x old hs ho hk)⟩
  · rintro ⟨hx, hk⟩
    obtain ⟨i, hs⟩ := ss_mem_elems.mp hx
    refine ⟨i, ?_, hs⟩
    rintro rfl
    rw [ho] at hs; cases hs; exact hk rfl

theorem ss_others_of_dead {t : Raw} {idx : Nat} (ho : t.slots[idx]?.join = none) (x : Elem) :
    (∃ i : Nat, i ≠ idx ∧ t.slots[i]?.join = some x) ↔ x ∈ t.elems := by
  constructor
  · rintro ⟨i, _, hs⟩; exact ss_mem_elems.mpr ⟨i, hs⟩
  · intro hx
    obtain ⟨i, hs⟩ := ss_mem_elems.mp hx
    refine ⟨i, ?_, hs⟩
    rintro rfl
    rw [ho] at hs; cases hs

theorem ss_makeHash (hl : Lawful env H) (k : Nat) (w : World) :
    makeHash env k w = .ok (H k, { w with hc := w.hc + 1 }) := by
  simp only [makeHash, World.hashCall, hl.hash]

theorem ss_not_mem_keys {t : Raw} {k : Nat} :
    k ∉ keys t ↔ ∀ (i : Nat) (e : Elem), t.slots[i]?.join = some e → e.k ≠ k := by
  rw [ss_mem_keys]
  constructor
  · intro h i e he hk; exact h ⟨i, e, he, hk⟩
  · rintro h ⟨i, e, he, hk⟩; exact h i e he hk

theorem ss_key_unique {t : Raw} (h : InvL cfg H t) {x y : Elem} (hx : x ∈ t.elems)
    (hy : y ∈ t.elems) (hk : x.k = y.k) : x = y := by
  obtain ⟨i, hi⟩ := ss_mem_elems.mp hx
  obtain ⟨j, hj⟩ := ss_mem_elems.mp hy
  have := h.nodup i j x y hi hj hk
  subst this
  rw [hi] at hj; cases hj; rfl

/-- `get_inner` under a lawful environment. -/
theorem ss_getInner (hc : CfgOk cfg) (hp : ProbeCovers cfg) (hl : Lawful env H) (k : Nat)
    (w : World) (h : InvL cfg H w.t) :
    ∃ r w', Map.getInner cfg env k w = .ok (r, w') ∧ w'.t = w.t ∧ w'.log = w.log ∧
      (∀ idx, r = some idx → ∃ e, w.t.slots[idx]?.join = some e ∧ e.k = k) ∧
      (r = none → k ∉ keys w.t) := by
  unfold Map.getInner
  by_cases h0 : w.t.items = 0
  · rw [if_pos h0]
    refine ⟨none, w, rfl, rfl, rfl, (fun _ hn => by cases hn), fun _ => ?_⟩
    simp [keys, ss_elems_nil hc h.toInv h0]
  · rw [if_neg h0]
    obtain ⟨r, w', hf, ht, hlog, hsome, hnone⟩ :=
      find_spec hc hp env H hl k { w with hc := w.hc + 1 } h
    simp only [ss_makeHash hl, bind, Res.bind, hf]
    exact ⟨r, w', rfl, ht, hlog, fun idx hi => (hsome idx).1 hi,
      fun hn => ss_not_mem_keys.mpr (hnone.1 hn)⟩

/-- **`contains`**. -/
theorem contains_spec (hc : CfgOk cfg) (hp : ProbeCovers cfg) (hl : Lawful env H) (k : Nat)
    (w : World) (h : InvL cfg H w.t) :
    ∃ w', Set.contains cfg env k w = .ok (decide (k ∈ keys w.t), w') ∧ w'.t = w.t ∧
      w'.log = w.log := by
  obtain ⟨r, w', h1, h2, h3, h4, h5⟩ := ss_getInner hc hp hl k w h
  refine ⟨w', ?_, h2, h3⟩
  simp only [Set.contains, h1, bind, Res.bind, pure]
  congr 2
  cases r with
  | none => simpa using h5 rfl
  | some idx =>
    obtain ⟨e, he, hk⟩ := h4 idx rfl
    simpa using ss_mem_keys.mpr ⟨idx, e, he, hk⟩

/-- **`get`** returns the stored object with that key, if any. -/
theorem get_spec (hc : CfgOk cfg) (hp : ProbeCovers cfg) (hl : Lawful env H) (k : Nat)
    (w : World) (h : InvL cfg H w.t) :
    ∃ r w', Set.get cfg env k w = .ok (r, w') ∧ w'.t = w.t ∧ w'.log = w.log ∧
      (∀ e, r = some e → e ∈ w.t.elems ∧ e.k = k) ∧ (r = none → k ∉ keys w.t) := by
  obtain ⟨r, w', h1, h2, h3, h4, h5⟩ := ss_getInner hc hp hl k w h
  cases r with
  | none =>
    refine ⟨none, w', ?_, h2, h3, (fun _ hn => by cases hn), fun _ => h5 rfl⟩
    simp only [Set.get, Map.get, h1, bind, Res.bind, pure]
  | some idx =>
    obtain ⟨e, he, hk⟩ := h4 idx rfl
    refine ⟨some e, w', ?_, h2, h3, ?_, fun hn => by cases hn⟩
    · have he' : w'.t.slots[idx]?.join = some e := by rw [h2]; exact he
      simp only [Set.get, Map.get, h1, bind, Res.bind, pure, slotGet_ok he', liftE]
    · intro e' he'; cases he'; exact ⟨ss_mem_elems.mpr ⟨idx, he⟩, hk⟩

/-- **`take`** (= `remove_entry`): the stored object with key `k` is moved out; all other elements
    stay; `InvL` holds again. -/
theorem take_spec (hc : CfgOk cfg) (hp : ProbeCovers cfg) (hl : Lawful env H) (k : Nat)
    (w : World) (h : InvL cfg H w.t) :
    ∃ r w', Set.take cfg env k w = .ok (r, w') ∧ InvL cfg H w'.t ∧ w'.log = w.log ∧
      (∀ x, x ∈ w'.t.elems ↔ x ∈ w.t.elems ∧ x.k ≠ k) ∧
      (∀ e, r = some e → e ∈ w.t.elems ∧ e.k = k) ∧
      (r = none → k ∉ keys w.t ∧ w'.t = w.t) := by
  obtain ⟨r, w', hf, ht, hlog, hsome, hnone⟩ :=
    find_spec hc hp env H hl k { w with hc := w.hc + 1 } h
  cases r with
  | none =>
    have habs := ss_not_mem_keys.mpr (hnone.1 rfl)
    refine ⟨none, w', ?_, by rw [ht]; exact h, hlog, ?_, (fun _ hn => by cases hn),
      fun _ => ⟨habs, ht⟩⟩
    · simp only [Set.take, Map.removeEntry, ss_makeHash hl, bind, Res.bind, hf, pure]
    · intro x
      rw [ht]
      show x ∈ w.t.elems ↔ _
      constructor
      · intro hx; exact ⟨hx, fun hk => habs (by rw [← hk]; exact List.mem_map_of_mem hx)⟩
      · exact fun hx => hx.1
  | some idx =>
    obtain ⟨e, he, hk⟩ := (hsome idx).1 rfl
    have he : w.t.slots[idx]?.join = some e := he
    have hlt := h.toInv.slot_lt he
    have hfull : isFull (w.t.ctrlAt idx) = true := by
      have hsz : idx < w.t.slots.size := slot_some_lt he
      have := (h.toInv.live idx hsz).1 (by rw [he]; rfl)
      exact this
    obtain ⟨e', t', hr, he', hinv', hsl, _, _⟩ := removeAt_invL hc H h hlt hfull
    rw [he] at he'; cases he'
    have ht' : w'.t = w.t := ht
    refine ⟨some e, { w' with t := t' }, ?_, hinv', hlog, ?_, ?_, fun hn => by cases hn⟩
    · simp only [Set.take, Map.removeEntry, ss_makeHash hl, bind, Res.bind, hf, pure, ht', hr, liftE]
    · intro x
      show x ∈ t'.elems ↔ _
      have : t' = { t' with slots := w.t.slots.setIfInBounds idx none } := by rw [← hsl]
      rw [this]
      have := ss_mem_elems_set_none (t := { t' with slots := w.t.slots }) (idx := idx) x
      rw [this]
      rw [← hk]
      exact ss_others_of_live h he x
    · intro e'' he''; cases he''; exact ⟨ss_mem_elems.mpr ⟨idx, he⟩, hk⟩

theorem ss_dropKeyR (kid : Nat) (w : World) :
    (∃ w', dropKeyR cfg env kid w = .ok w' ∧ w'.t = w.t) ∨
    (∃ w', dropKeyR cfg env kid w = .panic "drop" w' ∧ w'.t = w.t) := by
  unfold dropKeyR dropKey
  cases hn : cfg.needsDrop with
  | false => left; exact ⟨w, by simp, rfl⟩
  | true =>
    cases hd : env.dropPanics w.dc ⟨0, kid, 0, 0⟩ with
    | false => left; exact ⟨{ w with dc := w.dc + 1, log := .dropK kid :: w.log }, by simp [hd], rfl⟩
    | true => right; exact ⟨{ w with dc := w.dc + 1, log := .dropK kid :: w.log }, by simp [hd], rfl⟩

/-- **`remove`**: reports whether the key was present; the stored object is dropped (its destructor
    may panic, after the element has left the table); all other elements stay. -/
theorem remove_spec (hc : CfgOk cfg) (hp : ProbeCovers cfg) (hl : Lawful env H) (k : Nat)
    (w : World) (h : InvL cfg H w.t) :
    ∃ w', (Set.remove cfg env k w = .ok (decide (k ∈ keys w.t), w') ∨
        (k ∈ keys w.t ∧ Set.remove cfg env k w = .panic "drop" w')) ∧
      InvL cfg H w'.t ∧ (∀ x, x ∈ w'.t.elems ↔ x ∈ w.t.elems ∧ x.k ≠ k) := by
  obtain ⟨r, w1, h1, h2, _, h4, h5, h6⟩ := take_spec hc hp hl k w h
  have h1' : Map.removeEntry cfg env k w = .ok (r, w1) := h1
  cases r with
  | none =>
    refine ⟨w1, Or.inl ?_, h2, h4⟩
    simp only [Set.remove, Map.remove, h1', bind, Res.bind, pure]
    have := (h6 rfl).1
    simp [this]
  | some e =>
    obtain ⟨he, hk⟩ := h5 e rfl
    have hmem : k ∈ keys w.t := by rw [← hk]; exact List.mem_map_of_mem he
    rcases ss_dropKeyR (cfg := cfg) (env := env) e.kid w1 with ⟨w2, d1, d2⟩ | ⟨w2, d1, d2⟩
    · refine ⟨w2, Or.inl ?_, by rw [d2]; exact h2, by rw [d2]; exact h4⟩
      simp only [Set.remove, Map.remove, h1', bind, Res.bind, pure, d1]
      simp [hmem]
    · refine ⟨w2, Or.inr ⟨hmem, ?_⟩, by rw [d2]; exact h2, by rw [d2]; exact h4⟩
      simp only [Set.remove, Map.remove, h1', bind, Res.bind, pure, d1]

/-! ### 7. operations that start with `reserve(1)` -/

/-- What the inserting operations need from the growth layer (`reserve(n)`), as a hypothesis: when
    it returns, the lawful invariant holds again, the contents are the same up to order, and there
    is room for `n` more elements. `LayoutOk` ("the layout of the table's own block is computable",
    `Resize.lean`) is the side condition under which the growth layer is proved not to fault; it
    only depends on `mask`/`alloc`, so every non-growing step preserves it. -/
def GrowthOk (cfg : Cfg) (env : Env) (H : Nat → Nat) : Prop :=
  ∀ n w w1, InvL cfg H w.t → w.t.LayoutOk cfg → reserve cfg env n w = .ok w1 →
    InvL cfg H w1.t ∧ w1.t.LayoutOk cfg ∧ w1.t.elems.Perm w.t.elems ∧ n ≤ w1.t.gl

/-- The `reserve(1)` that `find_or_find_insert_slot` performs at world `w` (after hashing) returned
    `w1`, in the way `GrowthOk` describes. -/
structure GrewTo (cfg : Cfg) (env : Env) (H : Nat → Nat) (w w1 : World) : Prop where
  run : reserve cfg env 1 { w with hc := w.hc + 1 } = .ok w1
  inv : InvL cfg H w1.t
  lay : w1.t.LayoutOk cfg
  same : ∀ x, x ∈ w1.t.elems ↔ x ∈ w.t.elems
  room : 0 < w1.t.gl

/-- No growth is needed when there is room: then `reserve(1)` is the identity. -/
theorem GrewTo.of_room {w : World} (h : InvL cfg H w.t) (hlay : w.t.LayoutOk cfg)
    (hgl : 0 < w.t.gl) : GrewTo cfg env H w { w with hc := w.hc + 1 } := by
  refine ⟨?_, h, hlay, fun _ => Iff.rfl, hgl⟩
  unfold reserve
  rw [if_neg]
  show ¬ 1 > w.t.gl
  omega

theorem GrewTo.of_growthOk {w w1 : World} (hres : GrowthOk cfg env H) (h : InvL cfg H w.t)
    (hlay : w.t.LayoutOk cfg)
    (hr : reserve cfg env 1 { w with hc := w.hc + 1 } = .ok w1) : GrewTo cfg env H w w1 := by
  obtain ⟨h1, h1', h2, h3⟩ := hres 1 { w with hc := w.hc + 1 } w1 h hlay hr
  exact ⟨hr, h1, h1', fun x => h2.mem_iff, h3⟩

/-- `LayoutOk` is preserved by every step that keeps the bucket count. -/
theorem ss_layoutOk_of_mask {t t' : Raw} (h : Inv cfg t) (h' : Inv cfg t') (hm : t'.mask = t.mask)
    (hlay : t.LayoutOk cfg) : t'.LayoutOk cfg := by
  have h1 := h.isEmptySingleton_eq
  have h2 := h'.isEmptySingleton_eq
  simp only [Raw.isEmptySingleton, hm] at h1 h2
  apply hlay.of_eq hm
  rw [h1] at h2
  cases ha : t.alloc <;> cases hb : t'.alloc <;> simp_all

theorem GrewTo.mem_keys {w w1 : World} (hg : GrewTo cfg env H w w1) (k : Nat) :
    k ∈ keys w1.t ↔ k ∈ keys w.t := by
  simp only [keys, List.mem_map, hg.same]

theorem ss_alloc_of_gl {t : Raw} (h : Inv cfg t) (hg : 0 < t.gl) : t.alloc = true := by
  rcases h.geom with hs | ha
  · have := hs.2.2.2.2.2; omega
  · exact ha.1

/-- `make_hash` + `find_or_find_insert_slot` once `reserve(1)` has returned. -/
theorem ss_search (hc : CfgOk cfg) (hp : ProbeCovers cfg) (hl : Lawful env H) (k : Nat)
    (owned : Option Elem) {w w1 : World} (hg : GrewTo cfg env H w w1) :
    ∃ r w2, Set.search cfg env k owned w = .ok (H k, r, w2) ∧ w2.t = w1.t ∧ w2.log = w1.log ∧
      (∀ idx, r = .ok idx → ∃ e, w1.t.slots[idx]?.join = some e ∧ e.k = k) ∧
      (∀ slot, r = .error slot → findInsertSlot cfg w1.t (H k) = .ok slot ∧ k ∉ keys w1.t) := by
  obtain ⟨r, w2, hf, ht, hlog, _, hok, herr⟩ := fofis_spec hc hp env H hl k w1 hg.inv
  refine ⟨r, w2, ?_, ht, hlog, fun idx hi => (hok idx).1 hi, fun slot hs => ?_⟩
  · unfold Set.search
    cases owned <;>
      simp only [ss_makeHash hl, bind, Res.bind, findOrFindInsertSlot, hg.run, hf, pure, Res.onPanic]
  · obtain ⟨h1, h2⟩ := (herr slot).1 hs
    exact ⟨h1, ss_not_mem_keys.mpr h2⟩

/-- `insert_in_slot` of a fresh key at the slot found by the search. -/
theorem ss_insertInSlot (hc : CfgOk cfg) (hp : ProbeCovers cfg) {t : Raw} (h : InvL cfg H t)
    (hgl : 0 < t.gl) (e : Elem) (hfresh : e.k ∉ keys t) {slot : Nat}
    (hs : findInsertSlot cfg t (H e.k) = .ok slot) :
    ∃ t', insertInSlot cfg t (H e.k) slot e = .ok t' ∧ InvL cfg H t' ∧
      (∀ x, x ∈ t'.elems ↔ x = e ∨ x ∈ t.elems) ∧ t'.items = t.items + 1 ∧ t'.mask = t.mask := by
  have ha := ss_alloc_of_gl h.toInv hgl
  obtain ⟨t', h1, h2, h3, h4, h5⟩ :=
    insertInSlot_invL hc hp H h ha e (ss_not_mem_keys.mp hfresh) hs (fun _ => hgl)
  refine ⟨t', h1, h2, ?_, h5, h4⟩
  obtain ⟨slot', hs', hlt, hsp⟩ := findInsertSlot_ok hc hp h.toInv (H e.k)
  rw [hs] at hs'; cases hs'
  have hsz : slot < t.slots.size := by rw [(h.toInv.allocated ha).2.2.2.1]; exact hlt
  have hdead : t.slots[slot]?.join = none := by
    have hl := h.toInv.live slot hsz
    cases hj : t.slots[slot]?.join with
    | none => rfl
    | some x =>
      rw [hj] at hl
      have := hl.1 rfl
      simp only [isSpecial, this, Bool.not_true] at hsp
      cases hsp
  intro x
  have : t' = { t' with slots := t.slots.setIfInBounds slot (some e) } := by rw [← h3]
  rw [this]
  rw [ss_mem_elems_set_some (t := { t' with slots := t.slots }) hsz e x]
  exact or_congr Iff.rfl (ss_others_of_dead hdead x)

theorem ss_mapInsert_eq (e : Elem) (w : World) :
    Map.insert cfg env e w =
      match Set.search cfg env e.k (some e) w with
      | .panic c w' => .panic c w'
      | .abort => .abort
      | .fault f => .fault f
      | .ok (_, .ok idx, w2) =>
        match slotGet w2.t idx with
        | .error f => .fault f
        | .ok old =>
          let t' := { w2.t with slots := w2.t.slots.setIfInBounds idx (some { old with vid := e.vid, v := e.v }) }
          match dropKeyR cfg env e.kid { w2 with t := t' } with
          | .ok w3 => .ok (some (old.vid, old.v), w3)
          | .panic c w' => .panic c w'
          | .abort => .abort
          | .fault f => .fault f
      | .ok (h, .error slot, w2) =>
        match insertInSlot cfg w2.t h slot e with
        | .error f => .fault f
        | .ok t' => .ok (none, { w2 with t := t' }) := by
  rfl

/-- **`insert`**, once `reserve(1)` has returned: an absent value is stored (`true`); for a present
    value the stored object stays (only the unit payload is rewritten), `false` is reported and the
    argument is dropped (its destructor may panic, with the table already in its final state). -/
theorem insert_spec_of_growth (hc : CfgOk cfg) (hp : ProbeCovers cfg) (hl : Lawful env H)
    (k kid : Nat) {w w1 : World} (hg : GrewTo cfg env H w w1) :
    (k ∉ keys w.t → ∃ w', Set.insert cfg env k kid w = .ok (true, w') ∧ InvL cfg H w'.t ∧
      ∀ x, x ∈ w'.t.elems ↔ x = Set.elemOf k kid ∨ x ∈ w.t.elems) ∧
    (k ∈ keys w.t → ∃ old w', old ∈ w.t.elems ∧ old.k = k ∧
      (Set.insert cfg env k kid w = .ok (false, w') ∨
        Set.insert cfg env k kid w = .panic "drop" w') ∧ InvL cfg H w'.t ∧
      ∀ x, x ∈ w'.t.elems ↔ x = { old with vid := 0, v := 0 } ∨ (x ∈ w.t.elems ∧ x.k ≠ k)) := by
  obtain ⟨r, w2, hs, ht, _, hok, herr⟩ := ss_search hc hp hl k (some (Set.elemOf k kid)) hg
  have hs' : Set.search cfg env (Set.elemOf k kid).k (some (Set.elemOf k kid)) w = .ok (H k, r, w2) := hs
  cases r with
  | error slot =>
    obtain ⟨hslot, habs⟩ := herr slot rfl
    refine ⟨fun _ => ?_, fun hk => absurd ((hg.mem_keys k).mpr hk) habs⟩
    obtain ⟨t', i1, i2, i3, _⟩ :=
      ss_insertInSlot hc hp hg.inv hg.room (Set.elemOf k kid) habs hslot
    refine ⟨{ w2 with t := t' }, ?_, i2, fun x => by rw [← hg.same]; exact i3 x⟩
    have i1' : insertInSlot cfg w2.t (H k) slot (Set.elemOf k kid) = .ok t' := by rw [ht]; exact i1
    simp only [Set.insert, ss_mapInsert_eq, hs', i1', bind, Res.bind, pure, Option.isNone_none]
  | ok idx =>
    obtain ⟨old, ho, hk⟩ := hok idx rfl
    have hpres : k ∈ keys w1.t := ss_mem_keys.mpr ⟨idx, old, ho, hk⟩
    refine ⟨fun habs => absurd ((hg.mem_keys k).mp hpres) habs, fun _ => ?_⟩
    have ho' : w2.t.slots[idx]?.join = some old := by rw [ht]; exact ho
    have hinv := value_update_invL hg.inv ho 0 0
    have hsz : idx < w1.t.slots.size := slot_some_lt ho
    have hel : ∀ x,
        x ∈ Raw.elems
          { w1.t with slots := w1.t.slots.setIfInBounds idx (some { old with vid := 0, v := 0 }) } ↔
        x = { old with vid := 0, v := 0 } ∨ (x ∈ w.t.elems ∧ x.k ≠ k) := by
      intro x
      rw [ss_mem_elems_set_some hsz, ss_others_of_live hg.inv ho x, hk, hg.same]
    rcases ss_dropKeyR (cfg := cfg) (env := env) kid
        { w2 with
          t := { w2.t with slots := w2.t.slots.setIfInBounds idx (some { old with vid := 0, v := 0 }) } }
      with ⟨w3, d1, d2⟩ | ⟨w3, d1, d2⟩
    · refine ⟨old, w3, (hg.same old).mp (ss_mem_elems.mpr ⟨idx, ho⟩), hk, Or.inl ?_, ?_, ?_⟩
      · simp only [Set.insert, ss_mapInsert_eq, hs', slotGet_ok ho', bind, Res.bind, pure]
        simp only [Set.elemOf, d1, Option.isNone_some]
      · rw [d2]; simp only [ht]; exact hinv
      · rw [d2]; simp only [ht]; exact hel
    · refine ⟨old, w3, (hg.same old).mp (ss_mem_elems.mpr ⟨idx, ho⟩), hk, Or.inr ?_, ?_, ?_⟩
      · simp only [Set.insert, ss_mapInsert_eq, hs', slotGet_ok ho', bind, Res.bind, pure]
        simp only [Set.elemOf, d1]
      · rw [d2]; simp only [ht]; exact hinv
      · rw [d2]; simp only [ht]; exact hel

/-- **`replace`**: the NEW object is stored, the old one (if any) is returned. -/
theorem replace_spec_of_growth (hc : CfgOk cfg) (hp : ProbeCovers cfg) (hl : Lawful env H)
    (e : Elem) {w w1 : World} (hg : GrewTo cfg env H w w1) :
    (e.k ∉ keys w.t → ∃ w', Set.replace cfg env e w = .ok (none, w') ∧ InvL cfg H w'.t ∧
      ∀ x, x ∈ w'.t.elems ↔ x = e ∨ x ∈ w.t.elems) ∧
    (e.k ∈ keys w.t → ∃ old w', old ∈ w.t.elems ∧ old.k = e.k ∧
      Set.replace cfg env e w = .ok (some old, w') ∧ InvL cfg H w'.t ∧
      ∀ x, x ∈ w'.t.elems ↔ x = e ∨ (x ∈ w.t.elems ∧ x.k ≠ e.k)) := by
  obtain ⟨r, w2, hs, ht, _, hok, herr⟩ := ss_search hc hp hl e.k (some e) hg
  cases r with
  | error slot =>
    obtain ⟨hslot, habs⟩ := herr slot rfl
    refine ⟨fun _ => ?_, fun hk => absurd ((hg.mem_keys e.k).mpr hk) habs⟩
    obtain ⟨t', i1, i2, i3, _⟩ := ss_insertInSlot hc hp hg.inv hg.room e habs hslot
    refine ⟨{ w2 with t := t' }, ?_, i2, fun x => by rw [← hg.same]; exact i3 x⟩
    have i1' : insertInSlot cfg w2.t (H e.k) slot e = .ok t' := by rw [ht]; exact i1
    simp only [Set.replace, hs, i1', bind, Res.bind, pure, liftE]
  | ok idx =>
    obtain ⟨old, ho, hk⟩ := hok idx rfl
    have hpres : e.k ∈ keys w1.t := ss_mem_keys.mpr ⟨idx, old, ho, hk⟩
    refine ⟨fun habs => absurd ((hg.mem_keys e.k).mp hpres) habs, fun _ => ?_⟩
    have ho' : w2.t.slots[idx]?.join = some old := by rw [ht]; exact ho
    have hsz : idx < w1.t.slots.size := slot_some_lt ho
    refine ⟨old, { w2 with t := { w2.t with slots := w2.t.slots.setIfInBounds idx (some e) } },
      (hg.same old).mp (ss_mem_elems.mpr ⟨idx, ho⟩), hk, ?_, ?_, ?_⟩
    · simp only [Set.replace, hs, slotGet_ok ho', bind, Res.bind, pure, liftE]
    · simp only [ht]; exact ss_slot_replace_invL hg.inv ho hk.symm
    · intro x
      simp only [ht]
      rw [ss_mem_elems_set_some hsz, ss_others_of_live hg.inv ho x, hk, hg.same]

/-- **`get_or_insert`**: a present value keeps the OLD object (which is returned; the argument is
    dropped), an absent one is stored. -/
theorem getOrInsert_spec_of_growth (hc : CfgOk cfg) (hp : ProbeCovers cfg) (hl : Lawful env H)
    (e : Elem) {w w1 : World} (hg : GrewTo cfg env H w w1) :
    (e.k ∉ keys w.t → ∃ w', Set.getOrInsert cfg env e w = .ok (e, w') ∧ InvL cfg H w'.t ∧
      ∀ x, x ∈ w'.t.elems ↔ x = e ∨ x ∈ w.t.elems) ∧
    (e.k ∈ keys w.t → ∃ old w', old ∈ w.t.elems ∧ old.k = e.k ∧
      (Set.getOrInsert cfg env e w = .ok (old, w') ∨
        Set.getOrInsert cfg env e w = .panic "drop" w') ∧ InvL cfg H w'.t ∧
      ∀ x, x ∈ w'.t.elems ↔ x ∈ w.t.elems) := by
  obtain ⟨r, w2, hs, ht, _, hok, herr⟩ := ss_search hc hp hl e.k (some e) hg
  cases r with
  | error slot =>
    obtain ⟨hslot, habs⟩ := herr slot rfl
    refine ⟨fun _ => ?_, fun hk => absurd ((hg.mem_keys e.k).mpr hk) habs⟩
    obtain ⟨t', i1, i2, i3, _⟩ := ss_insertInSlot hc hp hg.inv hg.room e habs hslot
    refine ⟨{ w2 with t := t' }, ?_, i2, fun x => by rw [← hg.same]; exact i3 x⟩
    have i1' : insertInSlot cfg w2.t (H e.k) slot e = .ok t' := by rw [ht]; exact i1
    simp only [Set.getOrInsert, hs, i1', bind, Res.bind, pure, liftE]
  | ok idx =>
    obtain ⟨old, ho, hk⟩ := hok idx rfl
    have hpres : e.k ∈ keys w1.t := ss_mem_keys.mpr ⟨idx, old, ho, hk⟩
    refine ⟨fun habs => absurd ((hg.mem_keys e.k).mp hpres) habs, fun _ => ?_⟩
    have ho' : w2.t.slots[idx]?.join = some old := by rw [ht]; exact ho
    rcases ss_dropKeyR (cfg := cfg) (env := env) e.kid w2 with ⟨w3, d1, d2⟩ | ⟨w3, d1, d2⟩
    · refine ⟨old, w3, (hg.same old).mp (ss_mem_elems.mpr ⟨idx, ho⟩), hk, Or.inl ?_, ?_, ?_⟩
      · simp only [Set.getOrInsert, hs, slotGet_ok ho', bind, Res.bind, pure, liftE, d1]
      · rw [d2, ht]; exact hg.inv
      · rw [d2, ht]; exact hg.same
    · refine ⟨old, w3, (hg.same old).mp (ss_mem_elems.mpr ⟨idx, ho⟩), hk, Or.inr ?_, ?_, ?_⟩
      · simp only [Set.getOrInsert, hs, slotGet_ok ho', bind, Res.bind, pure, liftE, d1]
      · rw [d2, ht]; exact hg.inv
      · rw [d2, ht]; exact hg.same

/-- **`get_or_insert_with(&k, |_| new(k2))`**: a present key returns the stored object; an absent
    key stores the closure's value if it is equivalent (`k2 = k`) and otherwise REFUSES: panic
    `"notequiv"`, nothing stored. -/
theorem getOrInsertWith_spec_of_growth (hc : CfgOk cfg) (hp : ProbeCovers cfg) (hl : Lawful env H)
    (k k2 kid2 : Nat) {w w1 : World} (hg : GrewTo cfg env H w w1) :
    (k ∈ keys w.t → ∃ old w', old ∈ w.t.elems ∧ old.k = k ∧
      Set.getOrInsertWith cfg env k k2 kid2 w = .ok (old, w') ∧ InvL cfg H w'.t ∧
      ∀ x, x ∈ w'.t.elems ↔ x ∈ w.t.elems) ∧
    (k ∉ keys w.t → k2 = k → ∃ w',
      Set.getOrInsertWith cfg env k k2 kid2 w = .ok (Set.elemOf k2 kid2, w') ∧ InvL cfg H w'.t ∧
      ∀ x, x ∈ w'.t.elems ↔ x = Set.elemOf k2 kid2 ∨ x ∈ w.t.elems) ∧
    (k ∉ keys w.t → k2 ≠ k → ∃ w',
      Set.getOrInsertWith cfg env k k2 kid2 w = .panic "notequiv" w' ∧ InvL cfg H w'.t ∧
      ∀ x, x ∈ w'.t.elems ↔ x ∈ w.t.elems) := by
  obtain ⟨r, w2, hs, ht, _, hok, herr⟩ := ss_search hc hp hl k none hg
  cases r with
  | ok idx =>
    obtain ⟨old, ho, hk⟩ := hok idx rfl
    have hpres : k ∈ keys w.t := (hg.mem_keys k).mp (ss_mem_keys.mpr ⟨idx, old, ho, hk⟩)
    refine ⟨fun _ => ?_, fun habs => absurd hpres habs, fun habs => absurd hpres habs⟩
    have ho' : w2.t.slots[idx]?.join = some old := by rw [ht]; exact ho
    refine ⟨old, w2, (hg.same old).mp (ss_mem_elems.mpr ⟨idx, ho⟩), hk, ?_, by rw [ht]; exact hg.inv,
      by rw [ht]; exact hg.same⟩
    simp only [Set.getOrInsertWith, hs, slotGet_ok ho', bind, Res.bind, pure, liftE]
  | error slot =>
    obtain ⟨hslot, habs⟩ := herr slot rfl
    refine ⟨fun hk => absurd ((hg.mem_keys k).mpr hk) habs, fun _ heq => ?_, fun _ hne => ?_⟩
    · subst heq
      obtain ⟨t', i1, i2, i3, _⟩ :=
        ss_insertInSlot hc hp hg.inv hg.room (Set.elemOf k2 kid2) habs hslot
      refine ⟨{ w2 with ec := w2.ec + 1, t := t' }, ?_, i2, fun x => by rw [← hg.same]; exact i3 x⟩
      have i1' : insertInSlot cfg w2.t (H k2) slot (Set.elemOf k2 kid2) = .ok t' := by
        rw [ht]; exact i1
      simp only [Set.getOrInsertWith, hs, bind, Res.bind, pure, liftE, hl.eq, Set.elemOf,
        beq_self_eq_true] at i1' ⊢
      simp only [i1']
    · have hne' : (k == k2) = false := by simpa using fun h => hne h.symm
      refine ⟨World.dropElemQuiet cfg { w2 with ec := w2.ec + 1 } (Set.elemOf k2 kid2), ?_, ?_, ?_⟩
      · simp only [Set.getOrInsertWith, hs, bind, Res.bind, pure, liftE, hl.eq, Set.elemOf, hne']
      · unfold World.dropElemQuiet; split <;> (simp only [ht]; exact hg.inv)
      · unfold World.dropElemQuiet; split <;> (simp only [ht]; exact hg.same)

/-! ### 6. assigning operator forms -/

/-- A lawful environment whose `Clone` never panics. -/
structure SetLawful (env : Env) (H : Nat → Nat) : Prop extends Lawful env H where
  clone : ∀ c e, ∃ ids, env.clone c e = some ids

theorem SetLawful.envOf_clone (hl : SetLawful env H) (c : Nat) (e : Elem) :
    ∃ kid, (Set.envOf env).clone c e = some (kid, 0) := by
  obtain ⟨⟨kid, vid⟩, h⟩ := hl.clone c e
  exact ⟨kid, by simp only [Set.envOf, h]⟩

/-- `RawTable::remove(bucket)` of a live bucket. -/
theorem ss_removeAt (hc : CfgOk cfg) {t : Raw} (h : InvL cfg H t) {idx : Nat} {old : Elem}
    (ho : t.slots[idx]?.join = some old) :
    ∃ t', removeAt cfg t idx = .ok (old, t') ∧ InvL cfg H t' ∧
      (∀ x, x ∈ t'.elems ↔ x ∈ t.elems ∧ x.k ≠ old.k) ∧ t'.mask = t.mask ∧
      (∀ j, j < t.buckets → j ≠ idx → t'.ctrlAt j = t.ctrlAt j) ∧
      isFull (t'.ctrlAt idx) = false ∧ t'.slots = t.slots.setIfInBounds idx none := by
  have hlt := h.toInv.slot_lt ho
  have hfull : isFull (t.ctrlAt idx) = true :=
    (h.toInv.live idx (slot_some_lt ho)).1 (by rw [ho]; rfl)
  obtain ⟨e', t', hr, he', hinv', hsl, hm, _⟩ := removeAt_invL hc H h hlt hfull
  obtain ⟨e2, t2, hr2, _, _, _, _, _, _, hoth, hc2, _⟩ := removeAt_inv hc h.toInv hlt hfull
  rw [hr] at hr2
  simp only [Except.ok.injEq, Prod.mk.injEq] at hr2
  obtain ⟨_, rfl⟩ := hr2
  rw [ho] at he'; cases he'
  refine ⟨t', hr, hinv', ?_, hm, hoth, ?_, hsl⟩
  · intro x
    have : t' = { t' with slots := t.slots.setIfInBounds idx none } := by rw [← hsl]
    rw [this, ss_mem_elems_set_none (t := { t' with slots := t.slots }) (idx := idx) x]
    exact ss_others_of_live h ho x
  · rcases hc2 with hc2 | hc2 <;> rw [hc2] <;> decide

theorem ss_dropElem_t (x : Elem) (w : World) : (dropElem cfg env x w).2.t = w.t := by
  unfold dropElem; split <;> rfl

/-- `HashMap::remove` under a lawful environment. -/
theorem ss_mapRemove (hc : CfgOk cfg) (hp : ProbeCovers cfg) (hl : Lawful env H) (k : Nat)
    (w : World) (h : InvL cfg H w.t) :
    ∃ w', ((∃ r, Map.remove cfg env k w = .ok (r, w')) ∨ Map.remove cfg env k w = .panic "drop" w') ∧
      InvL cfg H w'.t ∧ (∀ x, x ∈ w'.t.elems ↔ x ∈ w.t.elems ∧ x.k ≠ k) := by
  obtain ⟨r, w1, h1, h2, _, h4, h5, h6⟩ := take_spec hc hp hl k w h
  have h1' : Map.removeEntry cfg env k w = .ok (r, w1) := h1
  cases r with
  | none =>
    refine ⟨w1, Or.inl ⟨none, ?_⟩, h2, h4⟩
    simp only [Map.remove, h1', bind, Res.bind, pure]
  | some e =>
    rcases ss_dropKeyR (cfg := cfg) (env := env) e.kid w1 with ⟨w2, d1, d2⟩ | ⟨w2, d1, d2⟩
    · refine ⟨w2, Or.inl ⟨some (e.vid, e.v), ?_⟩, by rw [d2]; exact h2, by rw [d2]; exact h4⟩
      simp only [Map.remove, h1', bind, Res.bind, pure, d1]
    · refine ⟨w2, Or.inr ?_, by rw [d2]; exact h2, by rw [d2]; exact h4⟩
      simp only [Map.remove, h1', bind, Res.bind, d1]

theorem ss_removeAllLoop_cons (e : Elem) (rest : List Elem) (w : World) :
    Set.removeAllLoop cfg env (e :: rest) w =
      match Map.remove cfg env e.k w with
      | .ok (_, w') => Set.removeAllLoop cfg env rest w'
      | .panic c w' => .panic c w'
      | .abort => .abort
      | .fault f => .fault f := by
  rfl

/-- `for item in rhs { self.remove(item) }`: never faults; unless a destructor panics, exactly the
    elements whose key is not in `xs` remain. -/
theorem ss_removeAllLoop (hc : CfgOk cfg) (hp : ProbeCovers cfg) (hl : Lawful env H) :
    ∀ (xs : List Elem) (w : World), InvL cfg H w.t →
    ∃ w', InvL cfg H w'.t ∧
      ((Set.removeAllLoop cfg env xs w = .ok w' ∧
          ∀ x, x ∈ w'.t.elems ↔ x ∈ w.t.elems ∧ x.k ∉ xs.map (·.k)) ∨
        Set.removeAllLoop cfg env xs w = .panic "drop" w') := by
  intro xs
  induction xs with
  | nil => intro w h; exact ⟨w, h, Or.inl ⟨rfl, fun x => by simp⟩⟩
  | cons e rest ih =>
    intro w h
    obtain ⟨w1, hr, h1, h2⟩ := ss_mapRemove hc hp hl e.k w h
    rcases hr with ⟨r, hr⟩ | hr
    · obtain ⟨w', i1, i2⟩ := ih w1 h1
      refine ⟨w', i1, ?_⟩
      rw [ss_removeAllLoop_cons, hr]
      rcases i2 with ⟨i2, i3⟩ | i2
      · refine Or.inl ⟨i2, fun x => ?_⟩
        rw [i3, h2]
        simp only [List.map_cons, List.mem_cons, not_or]
        tauto
      · exact Or.inr i2
    · exact ⟨w1, h1, Or.inr (by rw [ss_removeAllLoop_cons, hr])⟩

/-- Either the `reserve(1)` of the search returns, or the search does not return normally. -/
theorem ss_search_cases (hl : Lawful env H) (k : Nat) (owned : Option Elem) (w : World) :
    (∃ wr, reserve cfg env 1 { w with hc := w.hc + 1 } = .ok wr) ∨
      ∀ x, Set.search cfg env k owned w ≠ .ok x := by
  cases hr : reserve cfg env 1 { w with hc := w.hc + 1 } with
  | ok wr => exact Or.inl ⟨wr, rfl⟩
  | panic c wr =>
    right; intro x
    unfold Set.search
    cases owned <;>
      simp [ss_makeHash hl, bind, Res.bind, findOrFindInsertSlot, hr, Res.onPanic]
  | abort =>
    right; intro x
    unfold Set.search
    cases owned <;>
      simp [ss_makeHash hl, bind, Res.bind, findOrFindInsertSlot, hr, Res.onPanic]
  | fault f =>
    right; intro x
    unfold Set.search
    cases owned <;>
      simp [ss_makeHash hl, bind, Res.bind, findOrFindInsertSlot, hr, Res.onPanic]

/-- `HashMap::insert` of an element with a fresh key, once `reserve(1)` has returned. -/
theorem ss_mapInsert_absent (hc : CfgOk cfg) (hp : ProbeCovers cfg) (hl : Lawful env H) (e : Elem)
    {w w1 : World} (hg : GrewTo cfg env H w w1) (habs : e.k ∉ keys w.t) :
    ∃ w', Map.insert cfg env e w = .ok (none, w') ∧ InvL cfg H w'.t ∧
      (∀ x, x ∈ w'.t.elems ↔ x = e ∨ x ∈ w.t.elems) ∧ w'.t.LayoutOk cfg := by
  obtain ⟨r, w2, hs, ht, _, hok, herr⟩ := ss_search hc hp hl e.k (some e) hg
  cases r with
  | ok idx =>
    obtain ⟨old, ho, hk⟩ := hok idx rfl
    exact absurd ((hg.mem_keys e.k).mp (ss_mem_keys.mpr ⟨idx, old, ho, hk⟩)) habs
  | error slot =>
    obtain ⟨hslot, habs1⟩ := herr slot rfl
    obtain ⟨t', i1, i2, i3, _, i5⟩ := ss_insertInSlot hc hp hg.inv hg.room e habs1 hslot
    refine ⟨{ w2 with t := t' }, ?_, i2, fun x => by rw [← hg.same]; exact i3 x,
      ss_layoutOk_of_mask hg.inv.toInv i2.toInv i5 hg.lay⟩
    have i1' : insertInSlot cfg w2.t (H e.k) slot e = .ok t' := by rw [ht]; exact i1
    simp only [ss_mapInsert_eq, hs, i1']

theorem ss_bitorAssignLoop_cons (e : Elem) (rest : List Elem) (w : World) :
    Set.bitorAssignLoop cfg env (e :: rest) w =
      match Map.getInner cfg env e.k w with
      | .ok (some _, w1) => Set.bitorAssignLoop cfg env rest w1
      | .ok (none, w1) =>
        let w2 := { w1 with cc := w1.cc + 1 }
        match (Set.envOf env).clone w1.cc e with
        | none => .panic "clone" w2
        | some (kid, _) =>
          match Map.insert cfg env { e with kid := kid } w2 with
          | .ok (_, w3) => Set.bitorAssignLoop cfg env rest w3
          | .panic c w' => .panic c w'
          | .abort => .abort
          | .fault f => .fault f
      | .panic c w' => .panic c w'
      | .abort => .abort
      | .fault f => .fault f := by
  rfl

/-- The loop of `a |= &b`: whenever it returns, `a`'s own objects are all still there and the key
    set is the union. -/
theorem ss_bitorAssignLoop (hc : CfgOk cfg) (hp : ProbeCovers cfg) (hl : SetLawful env H)
    (hres : GrowthOk cfg env H) :
    ∀ (xs : List Elem) (w w' : World), InvL cfg H w.t → w.t.LayoutOk cfg →
      Set.bitorAssignLoop cfg env xs w = .ok w' →
      InvL cfg H w'.t ∧ (∀ x, x ∈ w.t.elems → x ∈ w'.t.elems) ∧
        (∀ k, k ∈ keys w'.t ↔ k ∈ keys w.t ∨ k ∈ xs.map (·.k)) ∧ w'.t.LayoutOk cfg := by
  intro xs
  induction xs with
  | nil =>
    intro w w' h hlay hr
    simp only [Set.bitorAssignLoop, Res.ok.injEq] at hr
    subst hr
    exact ⟨h, fun _ hx => hx, fun k => by simp, hlay⟩
  | cons e rest ih =>
    intro w w' h hlay hr
    rw [ss_bitorAssignLoop_cons] at hr
    obtain ⟨r, w1, g1, g2, _, g4, g5⟩ := ss_getInner hc hp hl.toLawful e.k w h
    rw [g1] at hr
    cases r with
    | some idx =>
      obtain ⟨old, ho, hk⟩ := g4 idx rfl
      have hpres : e.k ∈ keys w.t := ss_mem_keys.mpr ⟨idx, old, ho, hk⟩
      obtain ⟨i1, i2, i3, i4⟩ := ih w1 w' (by rw [g2]; exact h) (by rw [g2]; exact hlay) hr
      rw [g2] at i2 i3
      refine ⟨i1, i2, fun k => ?_, i4⟩
      rw [i3, List.map_cons, List.mem_cons]
      constructor
      · rintro (hk' | hk')
        · exact Or.inl hk'
        · exact Or.inr (Or.inr hk')
      · rintro (hk' | rfl | hk')
        · exact Or.inl hk'
        · exact Or.inl hpres
        · exact Or.inr hk'
    | none =>
      have habs : e.k ∉ keys w.t := g5 rfl
      obtain ⟨kid, hcl⟩ := hl.envOf_clone w1.cc e
      simp only [hcl] at hr
      have h2 : InvL cfg H ({ w1 with cc := w1.cc + 1 } : World).t := by
        show InvL cfg H w1.t; rw [g2]; exact h
      rcases ss_search_cases (cfg := cfg) hl.toLawful ({ e with kid := kid } : Elem).k
          (some { e with kid := kid }) { w1 with cc := w1.cc + 1 } with ⟨wr, hwr⟩ | hno
      · have hlay2 : ({ w1 with cc := w1.cc + 1 } : World).t.LayoutOk cfg := by
          show w1.t.LayoutOk cfg; rw [g2]; exact hlay
        have hg := GrewTo.of_growthOk hres h2 hlay2 hwr
        have habs2 : ({ e with kid := kid } : Elem).k ∉ keys ({ w1 with cc := w1.cc + 1 } : World).t := by
          show e.k ∉ keys w1.t; rw [g2]; exact habs
        obtain ⟨w3, j1, j2, j3, j4⟩ :=
          ss_mapInsert_absent hc hp hl.toLawful { e with kid := kid } hg habs2
        rw [j1] at hr
        obtain ⟨i1, i2, i3, i4⟩ := ih w3 w' j2 j4 hr
        have j3' : ∀ x, x ∈ w3.t.elems ↔ x = { e with kid := kid } ∨ x ∈ w.t.elems := by
          intro x; rw [j3 x]; show _ ∨ x ∈ w1.t.elems ↔ _; rw [g2]
        refine ⟨i1, fun x hx => i2 x ((j3' x).mpr (Or.inr hx)), fun k => ?_, i4⟩
        rw [i3, List.map_cons, List.mem_cons]
        have hk3 : k ∈ keys w3.t ↔ k = e.k ∨ k ∈ keys w.t := by
          simp only [keys, List.mem_map, j3']
          constructor
          · rintro ⟨x, (rfl | hx), rfl⟩
            · exact Or.inl rfl
            · exact Or.inr ⟨x, hx, rfl⟩
          · rintro (rfl | ⟨x, hx, rfl⟩)
            · exact ⟨_, Or.inl rfl, rfl⟩
            · exact ⟨x, Or.inr hx, rfl⟩
        rw [hk3]; tauto
      · exfalso
        rw [ss_mapInsert_eq] at hr
        cases hsr : Set.search cfg env ({ e with kid := kid } : Elem).k (some { e with kid := kid })
            { w1 with cc := w1.cc + 1 } with
        | ok x => exact hno x hsr
        | panic c wp => rw [hsr] at hr; cases hr
        | abort => rw [hsr] at hr; cases hr
        | fault f => rw [hsr] at hr; cases hr

/-- **`a |= &b`** (`w.t = a`): whenever it returns, `InvL` holds again, every object of `a` is still
    stored, and the key set is `keys a ∪ keys b`. -/
theorem bitorAssign_spec_of_growth (hc : CfgOk cfg) (hp : ProbeCovers cfg) (hl : SetLawful env H)
    (hres : GrowthOk cfg env H) {b : Raw} (w w' : World) (ha : InvL cfg H w.t)
    (hlay : w.t.LayoutOk cfg) (hb : InvL cfg H b)
    (hr : Set.bitorAssign cfg env b w = .ok w') :
    InvL cfg H w'.t ∧ (∀ x, x ∈ w.t.elems → x ∈ w'.t.elems) ∧
      (∀ k, k ∈ keys w'.t ↔ k ∈ keys w.t ∨ k ∈ keys b) ∧ w'.t.LayoutOk cfg := by
  unfold Set.bitorAssign at hr
  rw [elemsOf_spec hc hb.toInv] at hr
  exact ss_bitorAssignLoop hc hp hl hres b.elems w w' ha hlay hr

/-- **`a -= &b`**, branch `b.len() < a.len()` (`for item in rhs { self.remove(item) }`) -/
theorem ss_subAssign_small (hc : CfgOk cfg) (hp : ProbeCovers cfg) (hl : Lawful env H) {b : Raw}
    (w : World) (ha : InvL cfg H w.t) (hb : InvL cfg H b) (hlt : b.items < w.t.items) :
    ∃ w', InvL cfg H w'.t ∧
      ((Set.subAssign cfg env b w = .ok w' ∧
          ∀ x, x ∈ w'.t.elems ↔ x ∈ w.t.elems ∧ x.k ∉ keys b) ∨
        Set.subAssign cfg env b w = .panic "drop" w') := by
  unfold Set.subAssign
  rw [if_pos hlt, elemsOf_spec hc hb.toInv]
  exact ss_removeAllLoop hc hp hl b.elems w ha

theorem ss_bitxorAssignLoop_cons (e : Elem) (rest : List Elem) (w : World) :
    Set.bitxorAssignLoop cfg env (e :: rest) w =
      match Set.search cfg env e.k none w with
      | .ok (_, .ok idx, w2) =>
        match removeAt cfg w2.t idx with
        | .error f => .fault f
        | .ok (x, t') =>
          let (dp, w3) := dropElem cfg env x { w2 with t := t' }
          if dp then .panic "drop" w3 else Set.bitxorAssignLoop cfg env rest w3
      | .ok (h, .error slot, w2) =>
        let w3 := { w2 with cc := w2.cc + 1 }
        match (Set.envOf env).clone w2.cc e with
        | none => .panic "clone" w3
        | some (kid, _) =>
          match insertInSlot cfg w3.t h slot { e with kid := kid } with
          | .error f => .fault f
          | .ok t' => Set.bitxorAssignLoop cfg env rest { w3 with t := t' }
      | .panic c w' => .panic c w'
      | .abort => .abort
      | .fault f => .fault f := by
  rfl

theorem ss_mem_keys_of_elems {t t0 : Raw} {P : Elem → Prop}
    (h : ∀ x, x ∈ t.elems ↔ x ∈ t0.elems ∧ P x) (k : Nat) :
    k ∈ keys t ↔ ∃ x ∈ t0.elems, P x ∧ x.k = k := by
  simp only [keys, List.mem_map, h]
  constructor
  · rintro ⟨x, ⟨hx, hp⟩, rfl⟩; exact ⟨x, hx, hp, rfl⟩
  · rintro ⟨x, hx, hp, rfl⟩; exact ⟨x, ⟨hx, hp⟩, rfl⟩

theorem ss_keys_remove {t t0 : Raw} {k0 : Nat}
    (h : ∀ x, x ∈ t.elems ↔ x ∈ t0.elems ∧ x.k ≠ k0) (k : Nat) :
    k ∈ keys t ↔ k ∈ keys t0 ∧ k ≠ k0 := by
  rw [ss_mem_keys_of_elems h]
  simp only [keys, List.mem_map]
  constructor
  · rintro ⟨x, hx, hp, rfl⟩; exact ⟨⟨x, hx, rfl⟩, hp⟩
  · rintro ⟨⟨x, hx, rfl⟩, hp⟩; exact ⟨x, hx, hp, rfl⟩

theorem ss_keys_add {t t0 : Raw} {e : Elem}
    (h : ∀ x, x ∈ t.elems ↔ x = e ∨ x ∈ t0.elems) (k : Nat) :
    k ∈ keys t ↔ k = e.k ∨ k ∈ keys t0 := by
  simp only [keys, List.mem_map, h]
  constructor
  · rintro ⟨x, (rfl | hx), rfl⟩
    · exact Or.inl rfl
    · exact Or.inr ⟨x, hx, rfl⟩
  · rintro (rfl | ⟨x, hx, rfl⟩)
    · exact ⟨_, Or.inl rfl, rfl⟩
    · exact ⟨x, Or.inr hx, rfl⟩

/-- The loop of `a ^= &b` over a list of pairwise distinct keys: whenever it returns, the key set
    is the symmetric difference. -/
theorem ss_bitxorAssignLoop (hc : CfgOk cfg) (hp : ProbeCovers cfg) (hl : SetLawful env H)
    (hres : GrowthOk cfg env H) :
    ∀ (xs : List Elem) (w w' : World), InvL cfg H w.t → w.t.LayoutOk cfg →
      (xs.map (·.k)).Nodup → Set.bitxorAssignLoop cfg env xs w = .ok w' →
      InvL cfg H w'.t ∧
        (∀ k, k ∈ keys w'.t ↔
          (k ∈ keys w.t ∧ k ∉ xs.map (·.k)) ∨ (k ∉ keys w.t ∧ k ∈ xs.map (·.k))) ∧
        w'.t.LayoutOk cfg := by
  intro xs
  induction xs with
  | nil =>
    intro w w' h hlay _ hr
    simp only [Set.bitxorAssignLoop, Res.ok.injEq] at hr
    subst hr
    exact ⟨h, fun k => by simp, hlay⟩
  | cons e rest ih =>
    intro w w' h hlay hnd hr
    rw [ss_bitxorAssignLoop_cons] at hr
    rw [List.map_cons, List.nodup_cons] at hnd
    obtain ⟨hfresh, hnd'⟩ := hnd
    rcases ss_search_cases (cfg := cfg) hl.toLawful e.k none w with ⟨wr, hwr⟩ | hno
    · have hg := GrewTo.of_growthOk hres h hlay hwr
      obtain ⟨r, w2, hs, ht, _, hok, herr⟩ := ss_search hc hp hl.toLawful e.k none hg
      rw [hs] at hr
      cases r with
      | ok idx =>
        obtain ⟨old, ho, hk⟩ := hok idx rfl
        obtain ⟨t', r1, r2, r3, r4, _⟩ := ss_removeAt hc hg.inv ho
        have rlay := ss_layoutOk_of_mask hg.inv.toInv r2.toInv r4 hg.lay
        have r1' : removeAt cfg w2.t idx = .ok (old, t') := by rw [ht]; exact r1
        simp only [r1'] at hr
        cases hd : dropElem cfg env old { w2 with t := t' } with
        | mk dp w3 =>
          have hw3 : w3.t = t' := by
            have := ss_dropElem_t (cfg := cfg) (env := env) old { w2 with t := t' }
            rw [hd] at this; exact this
          rw [hd] at hr
          cases dp with
          | true => simp at hr
          | false =>
            simp only [Bool.false_eq_true, if_false] at hr
            obtain ⟨i1, i2, i3⟩ := ih w3 w' (by rw [hw3]; exact r2) (by rw [hw3]; exact rlay) hnd' hr
            refine ⟨i1, fun k => ?_, i3⟩
            have hk3 : k ∈ keys w3.t ↔ k ∈ keys w.t ∧ k ≠ e.k := by
              rw [hw3]
              apply ss_keys_remove
              intro x; rw [r3 x, hg.same, hk]
            have hpres : e.k ∈ keys w.t :=
              (hg.mem_keys e.k).mp (ss_mem_keys.mpr ⟨idx, old, ho, hk⟩)
            rw [i2, hk3, List.map_cons, List.mem_cons]
            by_cases hke : k = e.k
            · subst hke; tauto
            · tauto
      | error slot =>
        obtain ⟨hslot, habs⟩ := herr slot rfl
        obtain ⟨kid, hcl⟩ := hl.envOf_clone w2.cc e
        simp only [hcl] at hr
        have habs' : ({ e with kid := kid } : Elem).k ∉ keys wr.t := habs
        obtain ⟨t', i1, i2, i3, _, i5⟩ :=
          ss_insertInSlot hc hp hg.inv hg.room { e with kid := kid } habs' hslot
        have ilay := ss_layoutOk_of_mask hg.inv.toInv i2.toInv i5 hg.lay
        have i1' : insertInSlot cfg ({ w2 with cc := w2.cc + 1 } : World).t (H e.k) slot
            { e with kid := kid } = .ok t' := by
          show insertInSlot cfg w2.t _ _ _ = _; rw [ht]; exact i1
        rw [i1'] at hr
        obtain ⟨j1, j2, j3⟩ := ih _ w' i2 ilay hnd' hr
        refine ⟨j1, fun k => ?_, j3⟩
        have hk3 : k ∈ keys t' ↔ k = e.k ∨ k ∈ keys w.t := by
          have := ss_keys_add (t := t') (t0 := w.t) (e := { e with kid := kid })
            (fun x => by rw [i3 x, hg.same]) k
          exact this
        have habsw : e.k ∉ keys w.t := fun hh => habs ((hg.mem_keys e.k).mpr hh)
        rw [j2]
        show (k ∈ keys t' ∧ _) ∨ (k ∉ keys t' ∧ _) ↔ _
        rw [hk3, List.map_cons, List.mem_cons]
        by_cases hke : k = e.k
        · subst hke; tauto
        · tauto
    · exfalso
      cases hsr : Set.search cfg env e.k none w with
      | ok x => exact hno x hsr
      | panic c wp => rw [hsr] at hr; cases hr
      | abort => rw [hsr] at hr; cases hr
      | fault f => rw [hsr] at hr; cases hr

/-- **`a ^= &b`** (`w.t = a`): whenever it returns, `InvL` holds again and the key set is the
    symmetric difference of the old key sets. -/
theorem bitxorAssign_spec_of_growth (hc : CfgOk cfg) (hp : ProbeCovers cfg) (hl : SetLawful env H)
    (hres : GrowthOk cfg env H) {b : Raw} (w w' : World) (ha : InvL cfg H w.t)
    (hlay : w.t.LayoutOk cfg) (hb : InvL cfg H b)
    (hr : Set.bitxorAssign cfg env b w = .ok w') :
    InvL cfg H w'.t ∧
      (∀ k, k ∈ keys w'.t ↔ (k ∈ keys w.t ∧ k ∉ keys b) ∨ (k ∉ keys w.t ∧ k ∈ keys b)) ∧
      w'.t.LayoutOk cfg := by
  unfold Set.bitxorAssign at hr
  rw [elemsOf_spec hc hb.toInv] at hr
  exact ss_bitxorAssignLoop hc hp hl hres b.elems w w' ha hlay (ss_keys_nodup hb) hr

/-! ### `retain` with a look-up in another table as predicate (`&=`, `-=`) -/

theorem ss_fullFrom_after_remove {t t' : Raw} {idx : Nat} (hm : t'.mask = t.mask)
    (hoth : ∀ j, j < t.buckets → j ≠ idx → t'.ctrlAt j = t.ctrlAt j)
    (hdead : isFull (t'.ctrlAt idx) = false) (a : Nat) :
    t'.fullFrom a = (t.fullFrom a).filter (fun i => decide (i ≠ idx)) := by
  have hb : t'.buckets = t.buckets := by simp only [Raw.buckets, hm]
  unfold Raw.fullFrom
  rw [hb, List.filter_filter]
  apply List.filter_congr
  intro i hi
  have hlt : i < t.buckets := by
    have := List.mem_range'_1.mp hi
    omega
  by_cases hii : i = idx
  · subst hii; simp [hdead]
  · simp [hii, hoth i hlt hii]

theorem ss_filter_ne_sorted {pre rem : List Nat} {idx : Nat}
    (hs : (pre ++ idx :: rem).Pairwise (· < ·)) :
    (pre ++ idx :: rem).filter (fun i => decide (i ≠ idx)) = pre ++ rem := by
  rw [List.pairwise_append] at hs
  obtain ⟨_, h2, h3⟩ := hs
  rw [List.pairwise_cons] at h2
  rw [List.filter_append, List.filter_cons]
  simp only [ne_eq, not_true_eq_false, decide_false, Bool.false_eq_true, if_false]
  rw [List.filter_eq_self.mpr, List.filter_eq_self.mpr]
  · intro a ha
    have := h2.1 a ha
    simp only [decide_eq_true_eq]; omega
  · intro a ha
    have := h3 a ha idx List.mem_cons_self
    simp only [decide_eq_true_eq]; omega

/-- After the bucket just yielded has been erased, the iterator is still in a good state for the
    new table and will yield the same buckets. -/
theorem ss_iterOk_after_remove {t t' : Raw} {it it' : RawIter} {idx : Nat}
    (hok : IterOk cfg t it) (hok' : IterOk cfg t it') (hrem : it.rem t = idx :: it'.rem t)
    (hm : t'.mask = t.mask) (hoth : ∀ j, j < t.buckets → j ≠ idx → t'.ctrlAt j = t.ctrlAt j)
    (hdead : isFull (t'.ctrlAt idx) = false) :
    IterOk cfg t' it' ∧ it'.rem t' = it'.rem t := by
  have hsorted := hok.rem_sorted
  rw [hrem, List.pairwise_cons] at hsorted
  have hnotin : ∀ j ∈ it'.rem t, decide (j ≠ idx) = true := by
    intro j hj
    have := hsorted.1 j hj
    simp only [decide_eq_true_eq]; omega
  have hremeq : it'.rem t' = it'.rem t := by
    simp only [RawIter.rem, RawIterRange.rem]
    rw [ss_fullFrom_after_remove hm hoth hdead]
    congr 1
    apply List.filter_eq_self.mpr
    intro j hj
    apply hnotin
    simp only [RawIter.rem, RawIterRange.rem, List.mem_append]
    exact Or.inr hj
  refine ⟨⟨⟨hok'.range.next_eq, hok'.range.dvd, ?_⟩, ?_⟩, hremeq⟩
  · obtain ⟨k0, hk0⟩ := hok.range.suffix
    have hk0' : t.fullList.drop k0 = idx :: it'.rem t := by
      rw [← hk0]; exact hrem
    obtain ⟨pre, hpre⟩ : ∃ pre, pre = t.fullList.take k0 := ⟨_, rfl⟩
    have hsplit : t.fullList = pre ++ idx :: it'.rem t := by
      rw [← hk0', hpre, List.take_append_drop]
    have hfl : t'.fullList = t.fullList.filter (fun i => decide (i ≠ idx)) := by
      rw [← fullFrom_zero, ← fullFrom_zero, ss_fullFrom_after_remove hm hoth hdead]
    refine ⟨pre.length, ?_⟩
    show it'.rem t' = _
    rw [hremeq, hfl, hsplit, ss_filter_ne_sorted (by rw [← hsplit]; exact fullList_sorted t),
      List.drop_left]
  · rw [hremeq]; exact hok'.items

theorem ss_retainByLoop_succ (p : Elem → World → Res (Bool × World)) (fuel : Nat) (it : RawIter)
    (w : World) :
    Set.retainByLoop cfg env p (fuel + 1) it w =
      match it.next cfg w.t with
      | .error f => .fault f
      | .ok (none, _) => .ok w
      | .ok (some idx, it') =>
        match slotGet w.t idx with
        | .error f => .fault f
        | .ok e =>
          match p e w with
          | .ok (true, w1) => Set.retainByLoop cfg env p fuel it' w1
          | .ok (false, w1) =>
            match removeAt cfg w1.t idx with
            | .error f => .fault f
            | .ok (x, t2) =>
              let (dp, w2) := dropElem cfg env x { w1 with t := t2 }
              if dp then .panic "drop" w2 else Set.retainByLoop cfg env p fuel it' w2
          | .panic c w' => .panic c w'
          | .abort => .abort
          | .fault f => .fault f := by
  rfl

/-- The `retain` loop with a predicate that answers `f` on keys and leaves the table alone: never
    faults; unless a destructor panics, of the elements still ahead of the iterator exactly those
    with `f` true survive (all others are untouched). -/
theorem ss_retainByLoop (hc : CfgOk cfg) (f : Nat → Bool) (p : Elem → World → Res (Bool × World))
    (hpspec : ∀ e w, ∃ w1, p e w = .ok (f e.k, w1) ∧ w1.t = w.t) :
    ∀ (fuel : Nat) (it : RawIter) (w : World), InvL cfg H w.t → IterOk cfg w.t it →
      (it.rem w.t).length < fuel →
      ∃ w', InvL cfg H w'.t ∧
        ((Set.retainByLoop cfg env p fuel it w = .ok w' ∧
            ∀ x, x ∈ w'.t.elems ↔ x ∈ w.t.elems ∧
              ((∃ i ∈ it.rem w.t, w.t.slots[i]?.join = some x) → f x.k = true)) ∨
          Set.retainByLoop cfg env p fuel it w = .panic "drop" w') := by
  intro fuel
  induction fuel with
  | zero => intro it w _ _ hlen; omega
  | succ fuel ih =>
    intro it w h hok hlen
    obtain ⟨it', hnext, hok', hrem'⟩ := rawIter_next_spec hc h.toInv it hok
    rw [ss_retainByLoop_succ, hnext]
    cases hrem : it.rem w.t with
    | nil =>
      refine ⟨w, h, Or.inl ⟨rfl, fun x => ?_⟩⟩
      simp
    | cons idx rest =>
      rw [hrem] at hrem' hlen
      simp only [List.head?_cons, List.tail_cons] at hrem' ⊢
      have hidx := hok.rem_full idx (by rw [hrem]; exact List.mem_cons_self)
      have hsz : idx < w.t.slots.size := by
        have ha := h.toInv.alloc_of_full hc hidx.1 hidx.2
        rw [(h.toInv.allocated ha).2.2.2.1]; exact hidx.1
      obtain ⟨e, he⟩ := Option.isSome_iff_exists.mp ((h.toInv.live idx hsz).2 hidx.2)
      obtain ⟨w1, hp1, ht1⟩ := hpspec e w
      have hsorted := hok.rem_sorted
      rw [hrem, List.pairwise_cons] at hsorted
      simp only [slotGet_ok he, hp1]
      cases hf : f e.k with
      | true =>
        simp only
        have hlen' : (it'.rem w1.t).length < fuel := by
          rw [ht1, hrem']; simp only [List.length_cons] at hlen; omega
        obtain ⟨w', i1, i2⟩ := ih it' w1 (by rw [ht1]; exact h) (by rw [ht1]; exact hok') hlen'
        refine ⟨w', i1, ?_⟩
        rcases i2 with ⟨i2, i3⟩ | i2
        · refine Or.inl ⟨i2, fun x => ?_⟩
          rw [i3, ht1, hrem']
          constructor
          · rintro ⟨hx, himp⟩
            refine ⟨hx, ?_⟩
            rintro ⟨i, hi, hs⟩
            rcases List.mem_cons.mp hi with rfl | hi
            · rw [he] at hs; cases hs; exact hf
            · exact himp ⟨i, hi, hs⟩
          · rintro ⟨hx, himp⟩
            exact ⟨hx, fun ⟨i, hi, hs⟩ => himp ⟨i, List.mem_cons_of_mem _ hi, hs⟩⟩
        · exact Or.inr i2
      | false =>
        simp only
        have he1 : w1.t.slots[idx]?.join = some e := by rw [ht1]; exact he
        obtain ⟨t', r1, r2, r3, r4, r5, r6, r7⟩ := ss_removeAt hc (by rw [ht1]; exact h) he1
        simp only [r1]
        cases hd : dropElem cfg env e { w1 with t := t' } with
        | mk dp w2 =>
          have hw2 : w2.t = t' := by
            have := ss_dropElem_t (cfg := cfg) (env := env) e { w1 with t := t' }
            rw [hd] at this; exact this
          cases dp with
          | true => exact ⟨w2, by rw [hw2]; exact r2, Or.inr (by simp)⟩
          | false =>
            simp only [Bool.false_eq_true, if_false]
            rw [ht1] at r3 r4 r5 r7
            obtain ⟨hokn, hremn⟩ := ss_iterOk_after_remove hok hok'
              (by rw [hrem, hrem']) r4 r5 r6
            have hlen' : (it'.rem w2.t).length < fuel := by
              rw [hw2, hremn, hrem']; simp only [List.length_cons] at hlen; omega
            obtain ⟨w', i1, i2⟩ := ih it' w2 (by rw [hw2]; exact r2) (by rw [hw2]; exact hokn) hlen'
            refine ⟨w', i1, ?_⟩
            rcases i2 with ⟨i2, i3⟩ | i2
            · refine Or.inl ⟨i2, fun x => ?_⟩
              rw [i3, hw2, hremn, hrem', r3, r7]
              constructor
              · rintro ⟨⟨hx, hne⟩, himp⟩
                refine ⟨hx, ?_⟩
                rintro ⟨i, hi, hs⟩
                rcases List.mem_cons.mp hi with rfl | hi
                · rw [he] at hs; cases hs; exact absurd rfl hne
                · refine himp ⟨i, hi, ?_⟩
                  have hne' : idx ≠ i := by have := hsorted.1 i hi; omega
                  rw [Array.getElem?_setIfInBounds, if_neg hne']; exact hs
              · rintro ⟨hx, himp⟩
                have hne : x.k ≠ e.k := by
                  intro hk
                  have hxe : x = e := ss_key_unique h hx (ss_mem_elems.mpr ⟨idx, he⟩) hk
                  subst hxe
                  have := himp ⟨idx, List.mem_cons_self, he⟩
                  rw [hf] at this; cases this
                refine ⟨⟨hx, hne⟩, ?_⟩
                rintro ⟨i, hi, hs⟩
                exact himp ⟨i, List.mem_cons_of_mem _ hi, (slots_set_none hs).2⟩
            · exact Or.inr i2

/-- `retain(|x| f(x))` where `f` is a look-up in another table. -/
theorem ss_retainBy (hc : CfgOk cfg) (f : Nat → Bool) (p : Elem → World → Res (Bool × World))
    (hpspec : ∀ e w, ∃ w1, p e w = .ok (f e.k, w1) ∧ w1.t = w.t) (w : World)
    (h : InvL cfg H w.t) :
    ∃ w', InvL cfg H w'.t ∧
      ((Set.retainBy cfg env p w = .ok w' ∧
          ∀ x, x ∈ w'.t.elems ↔ x ∈ w.t.elems ∧ f x.k = true) ∨
        Set.retainBy cfg env p w = .panic "drop" w') := by
  obtain ⟨it, hnew, hok, hrem⟩ := rawIter_new_spec hc h.toInv
  have hlen : (it.rem w.t).length < w.t.buckets + 2 := by
    rw [hrem]; have := fullList_length_le w.t; omega
  obtain ⟨w', i1, i2⟩ := ss_retainByLoop (env := env) hc f p hpspec _ it w h hok hlen
  refine ⟨w', i1, ?_⟩
  unfold Set.retainBy
  rw [hnew]
  rcases i2 with ⟨i2, i3⟩ | i2
  · refine Or.inl ⟨i2, fun x => ?_⟩
    rw [i3, hrem]
    constructor
    · rintro ⟨hx, himp⟩
      refine ⟨hx, himp ?_⟩
      obtain ⟨i, hi⟩ := ss_mem_elems.mp hx
      have hlt := h.toInv.slot_lt hi
      have hfull := (h.toInv.live i (slot_some_lt hi)).1 (by rw [hi]; rfl)
      exact ⟨i, (mem_fullList _ _).mpr ⟨hlt, hfull⟩, hi⟩
    · rintro ⟨hx, hfx⟩; exact ⟨hx, fun _ => hfx⟩
  · exact Or.inr i2

/-- **`a &= &b`** (`w.t = a`): never faults; unless a destructor panics, exactly the elements of `a`
    whose key is in `b` remain (`a`'s own objects), and `InvL` holds again. -/
theorem bitandAssign_spec (hc : CfgOk cfg) (hp : ProbeCovers cfg) (hl : Lawful env H) {b : Raw}
    (w : World) (ha : InvL cfg H w.t) (hb : InvL cfg H b) :
    ∃ w', InvL cfg H w'.t ∧
      ((Set.bitandAssign cfg env b w = .ok w' ∧
          ∀ x, x ∈ w'.t.elems ↔ x ∈ w.t.elems ∧ x.k ∈ keys b) ∨
        Set.bitandAssign cfg env b w = .panic "drop" w') := by
  have := ss_retainBy (env := env) hc (fun k => decide (k ∈ keys b))
    (fun e w => Set.containsIn cfg env b e.k w)
    (fun e w => by
      obtain ⟨w1, h1, h2, _⟩ := containsIn_spec hc hp hl hb e.k w
      exact ⟨w1, h1, h2⟩) w ha
  unfold Set.bitandAssign
  simpa only [decide_eq_true_eq] using this

/-- **`a -= &b`** (`w.t = a`), both strategies: never faults; unless a destructor panics, exactly
    the elements of `a` whose key is not in `b` remain, and `InvL` holds again. -/
theorem subAssign_spec (hc : CfgOk cfg) (hp : ProbeCovers cfg) (hl : Lawful env H) {b : Raw}
    (w : World) (ha : InvL cfg H w.t) (hb : InvL cfg H b) :
    ∃ w', InvL cfg H w'.t ∧
      ((Set.subAssign cfg env b w = .ok w' ∧
          ∀ x, x ∈ w'.t.elems ↔ x ∈ w.t.elems ∧ x.k ∉ keys b) ∨
        Set.subAssign cfg env b w = .panic "drop" w') := by
  by_cases hlt : b.items < w.t.items
  · exact ss_subAssign_small hc hp hl w ha hb hlt
  · have := ss_retainBy (env := env) hc (fun k => !decide (k ∈ keys b))
      (fun e w => do
        let (r, w') ← Set.containsIn cfg env b e.k w
        pure (!r, w'))
      (fun e w => by
        obtain ⟨w1, h1, h2, _⟩ := containsIn_spec hc hp hl hb e.k w
        exact ⟨w1, by simp only [h1, bind, Res.bind, pure], h2⟩) w ha
    unfold Set.subAssign
    rw [if_neg hlt]
    simpa only [Bool.not_eq_true', decide_eq_false_iff_not] using this

/-! ### operator forms producing a new set (`&a | &b`, `&`, `^`, `-`): `iter.cloned().collect()` -/

theorem ss_new_invL (hc : CfgOk cfg) : InvL cfg H (Raw.new cfg.W) := by
  refine ⟨Raw.new_inv hc, ?_, ?_, ?_⟩
  · intro i e he; simp [Raw.new] at he
  · intro i e he; simp [Raw.new] at he
  · intro i j e e2 he; simp [Raw.new] at he

theorem ss_new_keys (W : Nat) : keys (Raw.new W) = [] := by
  simp [keys, Raw.elems, Raw.new]

/-- `HashMap::insert` on key level, for a present or an absent key. -/
theorem ss_mapInsert_keys (hc : CfgOk cfg) (hp : ProbeCovers cfg) (hl : Lawful env H) (e : Elem)
    {w w1 : World} (hg : GrewTo cfg env H w w1) {r : Option (Nat × Nat)} {w' : World}
    (hr : Map.insert cfg env e w = .ok (r, w')) :
    InvL cfg H w'.t ∧ (∀ k, k ∈ keys w'.t ↔ k = e.k ∨ k ∈ keys w.t) ∧ w'.t.LayoutOk cfg := by
  by_cases habs : e.k ∈ keys w.t
  · obtain ⟨r0, w2, hs, ht, _, hok, herr⟩ := ss_search hc hp hl e.k (some e) hg
    cases r0 with
    | error slot => exact absurd ((hg.mem_keys e.k).mpr habs) (herr slot rfl).2
    | ok idx =>
      obtain ⟨old, ho, hk⟩ := hok idx rfl
      have ho' : w2.t.slots[idx]?.join = some old := by rw [ht]; exact ho
      have hinv := value_update_invL hg.inv ho e.vid e.v
      have hsz : idx < w1.t.slots.size := slot_some_lt ho
      rw [ss_mapInsert_eq, hs] at hr
      simp only [slotGet_ok ho'] at hr
      rcases ss_dropKeyR (cfg := cfg) (env := env) e.kid
          { w2 with
            t := { w2.t with
              slots := w2.t.slots.setIfInBounds idx (some { old with vid := e.vid, v := e.v }) } }
        with ⟨w3, d1, d2⟩ | ⟨w3, d1, d2⟩
      · rw [d1] at hr
        simp only [Res.ok.injEq, Prod.mk.injEq] at hr
        obtain ⟨_, rfl⟩ := hr
        rw [d2]
        simp only [ht]
        refine ⟨hinv, fun k => ?_, ss_layoutOk_of_mask hg.inv.toInv hinv.toInv rfl hg.lay⟩
        have hel : ∀ x, x ∈ Raw.elems { w1.t with
              slots := w1.t.slots.setIfInBounds idx (some { old with vid := e.vid, v := e.v }) } ↔
            x = { old with vid := e.vid, v := e.v } ∨ (x ∈ w.t.elems ∧ x.k ≠ e.k) := by
          intro x
          rw [ss_mem_elems_set_some hsz, ss_others_of_live hg.inv ho x, hk, hg.same]
        simp only [keys, List.mem_map, hel]
        constructor
        · rintro ⟨x, (rfl | ⟨hx, _⟩), rfl⟩
          · exact Or.inl hk
          · exact Or.inr ⟨x, hx, rfl⟩
        · rintro (rfl | ⟨x, hx, rfl⟩)
          · exact ⟨_, Or.inl rfl, hk⟩
          · by_cases hxe : x.k = e.k
            · exact ⟨_, Or.inl rfl, hk.trans hxe.symm⟩
            · exact ⟨x, Or.inr ⟨hx, hxe⟩, rfl⟩
      · rw [d1] at hr; cases hr
  · obtain ⟨w'', j1, j2, j3, j4⟩ := ss_mapInsert_absent hc hp hl e hg habs
    rw [j1] at hr
    simp only [Res.ok.injEq, Prod.mk.injEq] at hr
    obtain ⟨_, rfl⟩ := hr
    exact ⟨j2, ss_keys_add j3, j4⟩

/-- What a lazy iterator described by `ss` yields (pure version of `yieldAll`). -/
def ss_yield (ss : List Set.Step) : List Elem :=
  (ss.filter fun s =>
    match s.probe with
    | none => true
    | some (t, want) => decide (s.e.k ∈ keys t) == want).map (·.e)

theorem ss_yield_plain (l : List Elem) : ss_yield (Set.plain l) = l := by
  induction l with
  | nil => rfl
  | cons e l ih =>
    simp only [Set.plain, List.map_cons, ss_yield, List.filter_cons] at ih ⊢
    simp only [if_true, List.map_cons, ih]

theorem ss_yield_filtered (l : List Elem) (t : Raw) (want : Bool) :
    ss_yield (Set.filtered l t want) = l.filter fun e => decide (e.k ∈ keys t) == want := by
  induction l with
  | nil => rfl
  | cons e l ih =>
    simp only [Set.filtered, List.map_cons, ss_yield, List.filter_cons] at ih ⊢
    split <;> simp only [List.map_cons, ih]

theorem ss_yield_append (s1 s2 : List Set.Step) :
    ss_yield (s1 ++ s2) = ss_yield s1 ++ ss_yield s2 := by
  simp only [ss_yield, List.filter_append, List.map_append]

theorem ss_collectLoop_cons (s : Set.Step) (rest : List Set.Step) (w : World) :
    Set.collectLoop cfg env (s :: rest) w =
      (let cont (w : World) : Res World :=
        let w1 := { w with cc := w.cc + 1 }
        match (Set.envOf env).clone w.cc s.e with
        | none => .panic "clone" w1
        | some (kid, _) =>
          match Map.insert cfg env { s.e with kid := kid } w1 with
          | .ok (_, w2) => Set.collectLoop cfg env rest w2
          | .panic c w' => .panic c w'
          | .abort => .abort
          | .fault f => .fault f
      match s.probe with
      | none => cont w
      | some (t, want) =>
        match Set.containsIn cfg env t s.e.k w with
        | .ok (b, w') => if b == want then cont w' else Set.collectLoop cfg env rest w'
        | .panic c w' => .panic c w'
        | .abort => .abort
        | .fault f => .fault f) := by
  rfl

/-- One `insert(clone)` of the `collect` loop. -/
theorem ss_collect_step (hc : CfgOk cfg) (hp : ProbeCovers cfg) (hl : SetLawful env H)
    (hres : GrowthOk cfg env H) (e : Elem) (w : World) (h : InvL cfg H w.t)
    (hlay : w.t.LayoutOk cfg) {w' : World} {k : World → Res World}
    (hr : (match (Set.envOf env).clone w.cc e with
      | none => Res.panic "clone" { w with cc := w.cc + 1 }
      | some (kid, _) =>
        match Map.insert cfg env { e with kid := kid } { w with cc := w.cc + 1 } with
        | .ok (_, w2) => k w2
        | .panic c w' => .panic c w'
        | .abort => .abort
        | .fault f => .fault f) = .ok w') :
    ∃ w2, InvL cfg H w2.t ∧ (∀ q, q ∈ keys w2.t ↔ q = e.k ∨ q ∈ keys w.t) ∧ k w2 = .ok w' ∧
      w2.t.LayoutOk cfg := by
  obtain ⟨kid, hcl⟩ := hl.envOf_clone w.cc e
  simp only [hcl] at hr
  have h2 : InvL cfg H ({ w with cc := w.cc + 1 } : World).t := h
  rcases ss_search_cases (cfg := cfg) hl.toLawful ({ e with kid := kid } : Elem).k
      (some { e with kid := kid }) { w with cc := w.cc + 1 } with ⟨wr, hwr⟩ | hno
  · have hg := GrewTo.of_growthOk hres h2 hlay hwr
    cases hmi : Map.insert cfg env { e with kid := kid } { w with cc := w.cc + 1 } with
    | ok pr =>
      obtain ⟨r, w2⟩ := pr
      rw [hmi] at hr
      obtain ⟨j1, j2, j4⟩ := ss_mapInsert_keys hc hp hl.toLawful { e with kid := kid } hg hmi
      exact ⟨w2, j1, j2, hr, j4⟩
    | panic c wp => rw [hmi] at hr; cases hr
    | abort => rw [hmi] at hr; cases hr
    | fault f => rw [hmi] at hr; cases hr
  · exfalso
    rw [ss_mapInsert_eq] at hr
    cases hsr : Set.search cfg env ({ e with kid := kid } : Elem).k (some { e with kid := kid })
        { w with cc := w.cc + 1 } with
    | ok x => exact hno x hsr
    | panic c wp => rw [hsr] at hr; cases hr
    | abort => rw [hsr] at hr; cases hr
    | fault f => rw [hsr] at hr; cases hr

/-- The `for_each(|x| set.insert(x.clone()))` loop of `collect`: whenever it returns, the key set of
    the set being built has grown by exactly the keys the iterator yields. -/
theorem ss_collectLoop (hc : CfgOk cfg) (hp : ProbeCovers cfg) (hl : SetLawful env H)
    (hres : GrowthOk cfg env H) :
    ∀ (ss : List Set.Step),
      (∀ s ∈ ss, ∀ t want, s.probe = some (t, want) → InvL cfg H t) →
      ∀ (w w' : World), InvL cfg H w.t → w.t.LayoutOk cfg →
      Set.collectLoop cfg env ss w = .ok w' →
      InvL cfg H w'.t ∧ ∀ k, k ∈ keys w'.t ↔ k ∈ keys w.t ∨ k ∈ (ss_yield ss).map (·.k) := by
  intro ss
  induction ss with
  | nil =>
    intro _ w w' h _ hr
    simp only [Set.collectLoop, Res.ok.injEq] at hr
    subst hr
    exact ⟨h, fun k => by simp [ss_yield]⟩
  | cons s rest ih =>
    intro hss w w' h hlay hr
    have ih' := ih (fun s' hs' => hss s' (List.mem_cons_of_mem _ hs'))
    rw [ss_collectLoop_cons] at hr
    cases hpr : s.probe with
    | none =>
      simp only [hpr] at hr
      obtain ⟨w2, j1, j2, j3, j4⟩ := ss_collect_step hc hp hl hres s.e w h hlay hr
      obtain ⟨i1, i2⟩ := ih' w2 w' j1 j4 j3
      refine ⟨i1, fun k => ?_⟩
      rw [i2, j2]
      simp only [ss_yield, List.filter_cons, hpr, if_true, List.map_cons, List.mem_cons]
      tauto
    | some tw =>
      obtain ⟨t, want⟩ := tw
      simp only [hpr] at hr
      have ht := hss s List.mem_cons_self t want hpr
      obtain ⟨w1, c1, c2, _⟩ := containsIn_spec hc hp hl.toLawful ht s.e.k w
      simp only [c1] at hr
      have h1 : InvL cfg H w1.t := by rw [c2]; exact h
      have hlay1 : w1.t.LayoutOk cfg := by rw [c2]; exact hlay
      cases hb : (decide (s.e.k ∈ keys t) == want) with
      | true =>
        simp only [hb, if_true] at hr
        obtain ⟨w2, j1, j2, j3, j4⟩ := ss_collect_step hc hp hl hres s.e w1 h1 hlay1 hr
        obtain ⟨i1, i2⟩ := ih' w2 w' j1 j4 j3
        refine ⟨i1, fun k => ?_⟩
        rw [i2, j2, c2]
        simp only [ss_yield, List.filter_cons, hpr, hb, if_true, List.map_cons, List.mem_cons]
        tauto
      | false =>
        simp only [hb, Bool.false_eq_true, if_false] at hr
        obtain ⟨i1, i2⟩ := ih' w1 w' h1 hlay1 hr
        refine ⟨i1, fun k => ?_⟩
        rw [i2, c2]
        simp only [ss_yield, List.filter_cons, hpr, hb, Bool.false_eq_true, if_false]

/-- `iterator.cloned().collect()`: whenever it returns, the new set satisfies `InvL`, its key set is
    the set of keys the lazy iterator yields, and `self` is untouched. -/
theorem ss_collectOp (hc : CfgOk cfg) (hp : ProbeCovers cfg) (hl : SetLawful env H)
    (hres : GrowthOk cfg env H) (ss : List Set.Step)
    (hss : ∀ s ∈ ss, ∀ t want, s.probe = some (t, want) → InvL cfg H t) (lo : Nat) (w : World)
    {r : Raw} {w' : World} (hr : Set.collectOp cfg env (.ok ss) lo w = .ok (r, w')) :
    InvL cfg H r ∧ w'.t = w.t ∧ ∀ k, k ∈ keys r ↔ k ∈ (ss_yield ss).map (·.k) := by
  unfold Set.collectOp at hr
  simp only [bind, Res.bind] at hr
  cases hrs : Hb.reserve cfg env lo { w with t := Raw.new cfg.W } with
  | ok w1 =>
    rw [hrs] at hr
    simp only at hr
    obtain ⟨g1, g1', g2, _⟩ :=
      hres lo { w with t := Raw.new cfg.W } w1 (ss_new_invL hc) (Raw.new_layoutOk cfg) hrs
    cases hcl : Set.collectLoop cfg env ss w1 with
    | ok w2 =>
      rw [hcl] at hr
      simp only [Res.ok.injEq, Prod.mk.injEq] at hr
      obtain ⟨rfl, rfl⟩ := hr
      obtain ⟨i1, i2⟩ := ss_collectLoop hc hp hl hres ss hss w1 w2 g1 g1' hcl
      refine ⟨i1, rfl, fun k => ?_⟩
      rw [i2]
      have : k ∉ keys w1.t := by
        intro hk
        simp only [keys, List.mem_map] at hk
        obtain ⟨x, hx, _⟩ := hk
        have := g2.mem_iff.mp hx
        have hnil : Raw.elems (Raw.new cfg.W) = [] := by simp [Raw.elems, Raw.new]
        change x ∈ Raw.elems (Raw.new cfg.W) at this
        rw [hnil] at this; cases this
      tauto
    | panic c wp =>
      rw [hcl] at hr
      simp only at hr
      split at hr <;> cases hr
    | abort => rw [hcl] at hr; cases hr
    | fault f => rw [hcl] at hr; cases hr
  | panic c wp =>
    rw [hrs] at hr
    simp only at hr
    split at hr <;> cases hr
  | abort => rw [hrs] at hr; cases hr
  | fault f => rw [hrs] at hr; cases hr

/-- **`&a - &b`** builds a new set whose key set is `keys a ∖ keys b`; `a` is untouched. -/
theorem sub_spec_of_growth (hc : CfgOk cfg) (hp : ProbeCovers cfg) (hl : SetLawful env H)
    (hres : GrowthOk cfg env H) {b : Raw} (w : World) (ha : InvL cfg H w.t) (hb : InvL cfg H b)
    {r : Raw} {w' : World} (hr : Set.sub cfg env b w = .ok (r, w')) :
    InvL cfg H r ∧ w'.t = w.t ∧ ∀ k, k ∈ keys r ↔ k ∈ keys w.t ∧ k ∉ keys b := by
  unfold Set.sub Set.differenceSteps at hr
  rw [elemsOf_spec hc ha.toInv] at hr
  obtain ⟨h1, h2, h3⟩ := ss_collectOp hc hp hl hres _
    (fun s hs t want hpr => by
      simp only [Set.filtered, List.mem_map] at hs
      obtain ⟨e, _, rfl⟩ := hs
      cases hpr; exact hb) _ w hr
  refine ⟨h1, h2, fun k => ?_⟩
  rw [h3, ss_yield_filtered, ss_filter_false]
  exact ss_mem_diff_keys

/-- **`&a & &b`** builds a new set whose key set is `keys a ∩ keys b`. -/
theorem bitand_spec_of_growth (hc : CfgOk cfg) (hp : ProbeCovers cfg) (hl : SetLawful env H)
    (hres : GrowthOk cfg env H) {b : Raw} (w : World) (ha : InvL cfg H w.t) (hb : InvL cfg H b)
    {r : Raw} {w' : World} (hr : Set.bitand cfg env b w = .ok (r, w')) :
    InvL cfg H r ∧ w'.t = w.t ∧ ∀ k, k ∈ keys r ↔ k ∈ keys w.t ∧ k ∈ keys b := by
  unfold Set.bitand Set.intersectionSteps Set.smallerLarger at hr
  by_cases hle : w.t.items ≤ b.items
  · simp only [hle, if_true] at hr
    rw [elemsOf_spec hc ha.toInv] at hr
    obtain ⟨h1, h2, h3⟩ := ss_collectOp hc hp hl hres _
      (fun s hs t want hpr => by
        simp only [Set.filtered, List.mem_map] at hs
        obtain ⟨e, _, rfl⟩ := hs
        cases hpr; exact hb) _ w hr
    refine ⟨h1, h2, fun k => ?_⟩
    rw [h3, ss_yield_filtered, ss_filter_true, ss_map_filter_k _ (fun k => decide (k ∈ keys b))]
    simp [keys]
  · simp only [hle, if_false] at hr
    rw [elemsOf_spec hc hb.toInv] at hr
    obtain ⟨h1, h2, h3⟩ := ss_collectOp hc hp hl hres _
      (fun s hs t want hpr => by
        simp only [Set.filtered, List.mem_map] at hs
        obtain ⟨e, _, rfl⟩ := hs
        cases hpr; exact ha) _ w hr
    refine ⟨h1, h2, fun k => ?_⟩
    rw [h3, ss_yield_filtered, ss_filter_true, ss_map_filter_k _ (fun k => decide (k ∈ keys w.t))]
    simp [keys]; tauto

/-- **`&a | &b`** builds a new set whose key set is `keys a ∪ keys b`. -/
theorem bitor_spec_of_growth (hc : CfgOk cfg) (hp : ProbeCovers cfg) (hl : SetLawful env H)
    (hres : GrowthOk cfg env H) {b : Raw} (w : World) (ha : InvL cfg H w.t) (hb : InvL cfg H b)
    {r : Raw} {w' : World} (hr : Set.bitor cfg env b w = .ok (r, w')) :
    InvL cfg H r ∧ w'.t = w.t ∧ ∀ k, k ∈ keys r ↔ k ∈ keys w.t ∨ k ∈ keys b := by
  unfold Set.bitor Set.unionSteps Set.differenceSteps Set.smallerLarger at hr
  by_cases hle : w.t.items ≤ b.items
  · simp only [hle, if_true] at hr
    rw [elemsOf_spec hc ha.toInv, elemsOf_spec hc hb.toInv] at hr
    obtain ⟨h1, h2, h3⟩ := ss_collectOp hc hp hl hres _
      (fun s hs t want hpr => by
        rcases List.mem_append.mp hs with hs | hs
        · simp only [Set.plain, List.mem_map] at hs
          obtain ⟨e, _, rfl⟩ := hs
          cases hpr
        · simp only [Set.filtered, List.mem_map] at hs
          obtain ⟨e, _, rfl⟩ := hs
          cases hpr; exact hb) _ w hr
    refine ⟨h1, h2, fun k => ?_⟩
    rw [h3, ss_yield_append, ss_yield_plain, ss_yield_filtered, ss_filter_false, List.map_append,
      List.mem_append]
    have := ss_mem_diff_keys (a := w.t) (b := b) (k := k)
    simp only [ss_diff] at this
    rw [this]
    simp only [keys]; tauto
  · simp only [hle, if_false] at hr
    rw [elemsOf_spec hc ha.toInv, elemsOf_spec hc hb.toInv] at hr
    obtain ⟨h1, h2, h3⟩ := ss_collectOp hc hp hl hres _
      (fun s hs t want hpr => by
        rcases List.mem_append.mp hs with hs | hs
        · simp only [Set.plain, List.mem_map] at hs
          obtain ⟨e, _, rfl⟩ := hs
          cases hpr
        · simp only [Set.filtered, List.mem_map] at hs
          obtain ⟨e, _, rfl⟩ := hs
          cases hpr; exact ha) _ w hr
    refine ⟨h1, h2, fun k => ?_⟩
    rw [h3, ss_yield_append, ss_yield_plain, ss_yield_filtered, ss_filter_false, List.map_append,
      List.mem_append]
    have := ss_mem_diff_keys (a := b) (b := w.t) (k := k)
    simp only [ss_diff] at this
    rw [this]
    simp only [keys]; tauto

/-- **`&a ^ &b`** builds a new set whose key set is the symmetric difference. -/
theorem bitxor_spec_of_growth (hc : CfgOk cfg) (hp : ProbeCovers cfg) (hl : SetLawful env H)
    (hres : GrowthOk cfg env H) {b : Raw} (w : World) (ha : InvL cfg H w.t) (hb : InvL cfg H b)
    {r : Raw} {w' : World} (hr : Set.bitxor cfg env b w = .ok (r, w')) :
    InvL cfg H r ∧ w'.t = w.t ∧
      ∀ k, k ∈ keys r ↔ (k ∈ keys w.t ∧ k ∉ keys b) ∨ (k ∈ keys b ∧ k ∉ keys w.t) := by
  unfold Set.bitxor Set.symmetricDifferenceSteps Set.differenceSteps at hr
  rw [elemsOf_spec hc ha.toInv, elemsOf_spec hc hb.toInv] at hr
  obtain ⟨h1, h2, h3⟩ := ss_collectOp hc hp hl hres _
    (fun s hs t want hpr => by
      rcases List.mem_append.mp hs with hs | hs
      · simp only [Set.filtered, List.mem_map] at hs
        obtain ⟨e, _, rfl⟩ := hs
        cases hpr; exact hb
      · simp only [Set.filtered, List.mem_map] at hs
        obtain ⟨e, _, rfl⟩ := hs
        cases hpr; exact ha) _ w hr
  refine ⟨h1, h2, fun k => ?_⟩
  rw [h3, ss_yield_append, ss_yield_filtered, ss_yield_filtered, ss_filter_false, ss_filter_false]
  exact ss_mem_symdiff_keys

/-! ### 8. non-vacuity

`H k = k`, SSE2 scanner (`W = 16`). Table `ssA`: 16 buckets, keys 1, 2, 3, 21 with a tombstone
(`DELETED`) in bucket 3 that key 3 (home bucket 3) has been displaced past. Table `ssB`: 8 buckets
(smaller than a group: padding + mirror bytes), keys 2, 3, 10, 5, 7 with 10 displaced from its home
bucket 2 to bucket 4. (An 8-bucket table cannot carry a tombstone when `W = 16`: clause
`smallClean` of `Inv`; hence the 16-bucket table.) -/

def ssH : Nat → Nat := fun k => k

def ssEnv : Env :=
  { hash := fun _ k => some k, eq := fun _ q e => some (q == e.k),
    clone := fun c _ => some (1000 + c, 0), pred := fun _ _ => none, allocOk := fun _ => true,
    dropPanics := fun _ _ => false }

theorem ssEnv_lawful : SetLawful ssEnv ssH :=
  { hash := fun _ _ => rfl, eq := fun _ _ _ => rfl, clone := fun c _ => ⟨(1000 + c, 0), rfl⟩ }

def ssCfg : Cfg := { ops := Sse2.ops }

def ssA : Raw :=
  { mask := 15
    ctrl := #[255, 0, 0, 128, 0, 0, 255, 255, 255, 255, 255, 255, 255, 255, 255, 255,
              255, 0, 0, 128, 0, 0, 255, 255, 255, 255, 255, 255, 255, 255, 255, 255]
    slots := #[none, some ⟨1, 101, 0, 0⟩, some ⟨2, 102, 0, 0⟩, none, some ⟨3, 103, 0, 0⟩,
               some ⟨21, 121, 0, 0⟩, none, none, none, none, none, none, none, none, none, none]
    items := 4, gl := 9, alloc := true }

def ssB : Raw :=
  { mask := 7
    ctrl := #[255, 255, 0, 0, 0, 0, 255, 0, 255, 255, 255, 255, 255, 255, 255, 255,
              255, 255, 0, 0, 0, 0, 255, 0]
    slots := #[none, none, some ⟨2, 202, 0, 0⟩, some ⟨3, 203, 0, 0⟩, some ⟨10, 210, 0, 0⟩,
               some ⟨5, 205, 0, 0⟩, none, some ⟨7, 207, 0, 0⟩]
    items := 5, gl := 2, alloc := true }

/-- `(key, key object)` of the yielded elements (`none` if the operation did not return). -/
def ssOut (r : Res (List Elem × World)) : Option (List (Nat × Nat)) :=
  match r with
  | .ok (l, _) => some (l.map fun e => (e.k, e.kid))
  | _ => none

def ssAns (r : Res (Bool × World)) : Option Bool :=
  match r with
  | .ok (b, _) => some b
  | _ => none

/-- Keys of the target set after an assigning operator. -/
def ssKeys (r : Res World) : Option (List Nat) :=
  match r with
  | .ok w => some (keys w.t)
  | _ => none

/-- Keys of the set built by a non-assigning operator form. -/
def ssNew (r : Res (Raw × World)) : Option (List Nat) :=
  match r with
  | .ok (t, _) => some (keys t)
  | _ => none

example : invLB ssCfg ssH ssA = true := by decide +kernel
example : invLB ssCfg ssH ssB = true := by decide +kernel
example : ssOut (Set.union ssCfg ssEnv ssB { t := ssA }) =
    some [(2, 202), (3, 203), (10, 210), (5, 205), (7, 207), (1, 101), (21, 121)] := by
  decide +kernel
example : ssOut (Set.union ssCfg ssEnv ssA { t := ssB }) =
    some [(2, 202), (3, 203), (10, 210), (5, 205), (7, 207), (1, 101), (21, 121)] := by
  decide +kernel
example : ssOut (Set.intersection ssCfg ssEnv ssB { t := ssA }) = some [(2, 102), (3, 103)] := by
  decide +kernel
example : ssOut (Set.intersection ssCfg ssEnv ssA { t := ssB }) = some [(2, 102), (3, 103)] := by
  decide +kernel
example : ssOut (Set.difference ssCfg ssEnv ssB { t := ssA }) = some [(1, 101), (21, 121)] := by
  decide +kernel
example : ssOut (Set.difference ssCfg ssEnv ssA { t := ssB }) =
    some [(10, 210), (5, 205), (7, 207)] := by decide +kernel
example : ssOut (Set.symmetricDifference ssCfg ssEnv ssB { t := ssA }) =
    some [(1, 101), (21, 121), (10, 210), (5, 205), (7, 207)] := by decide +kernel
example : ssAns (Set.isSubset ssCfg ssEnv ssB { t := ssA }) = some false := by decide +kernel
example : ssAns (Set.isDisjoint ssCfg ssEnv ssB { t := ssA }) = some false := by decide +kernel
example : ssAns (Set.setEq ssCfg ssEnv ssA { t := ssA }) = some true := by decide +kernel
example : ssKeys (Set.bitandAssign ssCfg ssEnv ssB { t := ssA }) = some [2, 3] := by decide +kernel
example : ssKeys (Set.subAssign ssCfg ssEnv ssB { t := ssA }) = some [1, 21] := by decide +kernel
example : ssKeys (Set.bitorAssign ssCfg ssEnv ssB { t := ssA }) = some [1, 2, 3, 21, 5, 7, 10] := by
  decide +kernel
example : ssKeys (Set.bitxorAssign ssCfg ssEnv ssB { t := ssA }) = some [1, 21, 5, 7, 10] := by
  decide +kernel

example : ssNew (Set.bitor ssCfg ssEnv ssB { t := ssA }) = some [1, 2, 3, 10, 5, 21, 7] := by
  decide +kernel
example : ssNew (Set.bitand ssCfg ssEnv ssB { t := ssA }) = some [2, 3] := by decide +kernel
example : ssNew (Set.bitxor ssCfg ssEnv ssB { t := ssA }) = some [1, 10, 21, 5, 7] := by
  decide +kernel
example : ssNew (Set.sub ssCfg ssEnv ssB { t := ssA }) = some [1, 21] := by decide +kernel

#print axioms containsIn_spec
#print axioms elemsOf_spec
#print axioms difference_spec
#print axioms intersection_spec
#print axioms union_spec
#print axioms symmetricDifference_spec
#print axioms ss_inter_perm
#print axioms ss_union_nodup
#print axioms ss_symdiff_nodup
#print axioms difference_sizeHint_sound
#print axioms intersection_sizeHint_sound
#print axioms union_sizeHint_sound
#print axioms symmetricDifference_sizeHint_sound
#print axioms isSubset_spec
#print axioms isSuperset_spec
#print axioms isDisjoint_spec
#print axioms setEq_spec
#print axioms setEq_symm
#print axioms contains_spec
#print axioms get_spec
#print axioms take_spec
#print axioms remove_spec
#print axioms insert_spec_of_growth
#print axioms replace_spec_of_growth
#print axioms getOrInsert_spec_of_growth
#print axioms getOrInsertWith_spec_of_growth
#print axioms bitorAssign_spec_of_growth
#print axioms bitxorAssign_spec_of_growth
#print axioms bitandAssign_spec
#print axioms sub_spec_of_growth
#print axioms bitand_spec_of_growth
#print axioms bitor_spec_of_growth
#print axioms bitxor_spec_of_growth
#print axioms subAssign_spec

end Hb
