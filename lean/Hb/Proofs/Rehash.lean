/-
`rehash_in_place` (raw/mod.rs:2864): bulk conversion of the control bytes, the two loops, the unwind
guard.  Intermediate invariant `RInv`: like `Inv`, but a live slot is marked FULL *or* DELETED
("pending"), and `items` counts both.
-/
import Hb.Proofs.InvStep
import Hb.Proofs.FindSlot
import Hb.Proofs.Probe
namespace Hb

variable {cfg : Cfg} {t : Raw}

/-! ### 0. arrays -/

theorem size_foldl_set {α} (a : Array α) (b m : Nat) (f : Nat → α) :
    ((List.range m).foldl (fun c j => c.setIfInBounds (b + j) (f j)) a).size = a.size := by
  induction m with
  | zero => rfl
  | succ m ih =>
    rw [List.range_succ, List.foldl_append, List.foldl_cons, List.foldl_nil,
      Array.size_setIfInBounds, ih]

theorem getD_foldl_set (a : Array Nat) (b m : Nat) (f : Nat → Nat) (x : Nat) :
    ((List.range m).foldl (fun c j => c.setIfInBounds (b + j) (f j)) a).getD x 0 =
      if b ≤ x ∧ x < b + m ∧ x < a.size then f (x - b) else a.getD x 0 := by
  induction m with
  | zero =>
    have : ¬ (b ≤ x ∧ x < b + 0 ∧ x < a.size) := by omega
    rw [if_neg this]; rfl
  | succ m ih =>
    rw [List.range_succ, List.foldl_append, List.foldl_cons, List.foldl_nil,
      getD_setIfInBounds, ih, size_foldl_set]
    by_cases hx : b + m = x
    · subst hx
      by_cases hs : b + m < a.size
      · rw [if_pos ⟨rfl, hs⟩, if_pos ⟨by omega, by omega, hs⟩]
        congr 1; omega
      · rw [if_neg (by omega), if_neg (by omega), if_neg (by omega)]
    · rw [if_neg (by omega)]
      by_cases hc : b ≤ x ∧ x < b + m ∧ x < a.size
      · rw [if_pos hc, if_pos (by omega)]
      · rw [if_neg hc, if_neg (by omega)]

/-! ### 1. `prepare_rehash_in_place` -/

/-- Byte-wise effect of `convert_special_to_empty_and_full_to_deleted`. -/
def cvByte (c : Nat) : Nat := if isSpecial c then EMPTY else DELETED

theorem cvByte_valid (c : Nat) : ValidCtrl (cvByte c) := by
  unfold cvByte; split
  · exact Or.inr (Or.inr rfl)
  · exact Or.inr (Or.inl rfl)

theorem cvByte_eq (c : Nat) : cvByte c = if isFull c then DELETED else EMPTY := by
  unfold cvByte isSpecial; cases isFull c <;> rfl

theorem spec_convert_getD (g : List Nat) (j : Nat) (hj : j < g.length) :
    (Spec.convert g).getD j 0 = cvByte (g.getD j 0) := by
  simp [Spec.convert, cvByte, List.getD_eq_getElem?_getD, hj]

theorem conv_spec (hc : CfgOk cfg) (n : Nat) :
    ∀ (fuel i : Nat) (t : Raw), t.alloc = true → t.ctrl.size = n + cfg.W →
      (∀ j, j < t.ctrl.size → ValidCtrl (t.ctrlAt j)) → n < i + fuel →
      ∃ t1 i', prepareRehashInPlace.conv cfg cfg.W n fuel i t = .ok t1 ∧ t1.mask = t.mask ∧
        t1.slots = t.slots ∧ t1.items = t.items ∧ t1.gl = t.gl ∧ t1.alloc = true ∧
        t1.ctrl.size = t.ctrl.size ∧ n ≤ i' ∧ i ≤ i' ∧ (n ≤ i → i' = i) ∧ (i < n → i' < n + cfg.W) ∧
        i' % cfg.W = i % cfg.W ∧
        ∀ j, t1.ctrlAt j = if i ≤ j ∧ j < i' then cvByte (t.ctrlAt j) else t.ctrlAt j := by
  intro fuel
  induction fuel with
  | zero =>
    intro i t ha hsz hv hf
    refine ⟨t, i, rfl, rfl, rfl, rfl, rfl, ha, rfl, by omega, Nat.le_refl _, fun _ => rfl,
      fun h => by omega, rfl, fun j => ?_⟩
    rw [if_neg (by omega)]
  | succ fuel ih =>
    intro i t ha hsz hv hf
    by_cases hin : i < n
    · have hW : 0 < cfg.W := by rcases hc.W_cases with h | h <;> omega
      have hld := loadGroup_eq (t := t) (W := cfg.W) (pos := i) (by omega)
      have hvg : ValidGroup cfg.ops.W ((List.range cfg.W).map fun j => t.ctrlAt (i + j)) := by
        refine ⟨by simp [Cfg.W], ?_⟩
        intro b hb
        obtain ⟨j, hj, rfl⟩ := List.mem_map.mp hb
        have := List.mem_range.mp hj
        exact hv _ (by omega)
      have hcv := hc.spec.convert _ hvg
      -- the table after this group
      let t' : Raw := { t with ctrl := (List.range cfg.W).foldl (fun c j => c.setIfInBounds (i + j)
        ((Spec.convert ((List.range cfg.W).map fun j => t.ctrlAt (i + j))).getD j 0)) t.ctrl }
      have ht' : ∀ j, t'.ctrlAt j = if i ≤ j ∧ j < i + cfg.W then cvByte (t.ctrlAt j) else t.ctrlAt j := by
        intro j
        show Array.getD _ j 0 = _
        rw [getD_foldl_set]
        by_cases hj : i ≤ j ∧ j < i + cfg.W
        · rw [if_pos ⟨hj.1, hj.2, by omega⟩, if_pos hj, spec_convert_getD _ _ (by simp; omega),
            group_getD _ _ _ _ (by omega)]
          congr 2; omega
        · rw [if_neg (by omega), if_neg hj]; rfl
      have hsz' : t'.ctrl.size = n + cfg.W := by
        show Array.size _ = _
        rw [size_foldl_set]; exact hsz
      have hv' : ∀ j, j < t'.ctrl.size → ValidCtrl (t'.ctrlAt j) := by
        intro j hj
        rw [ht']
        split
        · exact cvByte_valid _
        · exact hv j (by omega)
      obtain ⟨t1, i', hrun, h1, h2, h3, h4, h5, h6, h7, h8, h9, h10, h11, h12⟩ :=
        ih (i + cfg.W) t' ha hsz' hv' (by omega)
      refine ⟨t1, i', ?_, h1, h2, h3, h4, h5, by rw [h6, hsz', hsz], h7, by omega,
        fun h => by omega, fun _ => ?_, ?_, fun j => ?_⟩
      · rw [prepareRehashInPlace.conv, if_pos hin, hld]
        dsimp only
        rw [if_neg (show ¬ ((!t.alloc) = true) by simp [ha]), hcv]
        exact hrun
      · by_cases hn : n ≤ i + cfg.W
        · rw [h9 hn]; omega
        · exact h10 (by omega)
      · rw [h11, Nat.add_mod_right]
      · rw [h12, ht']
        by_cases h1 : i ≤ j ∧ j < i + cfg.W
        · rw [if_neg (by omega), if_pos h1, if_pos (by omega)]
        · rw [if_neg h1]
          by_cases h2 : i + cfg.W ≤ j ∧ j < i'
          · rw [if_pos h2, if_pos (by omega)]
          · rw [if_neg h2, if_neg (by omega)]
    · refine ⟨t, i, ?_, rfl, rfl, rfl, rfl, ha, rfl, by omega, Nat.le_refl _, fun _ => rfl,
        fun h => by omega, rfl, fun j => ?_⟩
      · rw [prepareRehashInPlace.conv, if_neg hin]
      · rw [if_neg (by omega)]

/-! ### the intermediate invariant -/

/-- The bucket holds an element as far as `rehash_in_place` is concerned: FULL (already placed) or
    DELETED (pending). -/
def isLive (c : Nat) : Bool := isFull c || c == DELETED

theorem isLive_cvByte (c : Nat) : isLive (cvByte c) = isFull c := by
  rw [cvByte_eq]; cases isFull c <;> rfl

theorem isLive_of_lt {c : Nat} (h : c < 128) : isLive c = true := by
  simp [isLive, isFull_of_lt h]

theorem isLive_DELETED : isLive DELETED = true := by decide
theorem isLive_EMPTY : isLive EMPTY = false := by decide

/-- Invariant of the table between the steps of `rehash_in_place`. -/
structure RInv (cfg : Cfg) (t : Raw) : Prop where
  struct : StructInv cfg t
  alloc : t.alloc = true
  live : ∀ i, i < t.slots.size → ((t.slots[i]?.join).isSome ↔ isLive (t.ctrlAt i) = true)
  items_eq : t.items = t.countCtrl isLive
  cap : t.countCtrl isLive ≤ bucketMaskToCapacity t.mask

theorem countCtrl_congr {t t' : Raw} {p q : Nat → Bool} (hm : t'.mask = t.mask)
    (h : ∀ j, j < t.buckets → p (t'.ctrlAt j) = q (t.ctrlAt j)) : t'.countCtrl p = t.countCtrl q := by
  have hb : t'.buckets = t.buckets := by simp only [Raw.buckets_eq, hm]
  rw [Raw.countCtrl, Raw.countCtrl, hb]
  apply List.countP_congr
  intro x hx
  rw [h x (List.mem_range.mp hx)]

theorem countP_or_disjoint {α} (p q : α → Bool) (l : List α) (hd : ∀ a ∈ l, ¬ (p a = true ∧ q a = true)) :
    l.countP (fun a => p a || q a) = l.countP p + l.countP q := by
  induction l with
  | nil => rfl
  | cons a l ih =>
    have ih := ih (fun b hb => hd b (List.mem_cons_of_mem _ hb))
    have ha := hd a List.mem_cons_self
    simp only [List.countP_cons, ih]
    cases hp : p a <;> cases hq : q a <;> simp_all <;> omega

theorem countCtrl_isLive (t : Raw) :
    t.countCtrl isLive = t.countCtrl isFull + t.countCtrl (· == DELETED) := by
  simp only [Raw.countCtrl]
  refine countP_or_disjoint (fun i => isFull (t.ctrlAt i)) (fun i => t.ctrlAt i == DELETED) _ ?_
  rintro a _ ⟨h1, h2⟩
  rw [beq_iff_eq] at h2
  rw [h2] at h1
  exact absurd h1 (by decide)

theorem RInv.items_split (h : RInv cfg t) :
    t.items = t.countCtrl isFull + t.countCtrl (· == DELETED) := by
  rw [h.items_eq, countCtrl_isLive]

theorem RInv.allocated (h : RInv cfg t) : t.IsAllocated cfg := h.struct.allocated h.alloc

theorem IsAllocated.transfer {t t' : Raw} (ha : t.IsAllocated cfg) (hal : t'.alloc = true)
    (hm : t'.mask = t.mask) (hcs : t'.ctrl.size = t.ctrl.size) (hss : t'.slots.size = t.slots.size) :
    t'.IsAllocated cfg := by
  have hb : t'.buckets = t.buckets := by simp only [Raw.buckets_eq, hm]
  obtain ⟨_, h2, h3, h4, h5⟩ := ha
  exact ⟨hal, by rw [hb]; exact h2, by rw [hcs, hb]; exact h3, by rw [hss, hb]; exact h4,
    by rw [hb]; exact h5⟩

theorem rinv_of_converted (h : Inv cfg t) (ha : t.alloc = true) {tF : Raw} (hm : tF.mask = t.mask)
    (hs : tF.slots = t.slots) (hi : tF.items = t.items) (hal : tF.alloc = true)
    (hst : StructInv cfg tF) (hA : ∀ j, j < t.buckets → tF.ctrlAt j = cvByte (t.ctrlAt j)) :
    RInv cfg tF := by
  have hall := h.allocated ha
  have hcnt : tF.countCtrl isLive = t.countCtrl isFull :=
    countCtrl_congr hm (fun j hj => by rw [hA j hj, isLive_cvByte])
  refine ⟨hst, hal, ?_, ?_, ?_⟩
  · intro i hi'
    rw [hs] at hi' ⊢
    have hin : i < t.buckets := by rw [← hall.2.2.2.1]; exact hi'
    rw [hA i hin, isLive_cvByte]
    exact h.live i hi'
  · rw [hi, hcnt]; exact h.items_eq
  · rw [hcnt, hm]
    have := h.count ha
    omega

theorem prepareRehashInPlace_spec (hc : CfgOk cfg) (h : Inv cfg t) (ha : t.alloc = true) :
    ∃ t1, prepareRehashInPlace cfg t = .ok t1 ∧ t1.mask = t.mask ∧ t1.slots = t.slots ∧
      t1.items = t.items ∧ t1.gl = t.gl ∧ t1.alloc = true ∧ t1.ctrl.size = t.ctrl.size ∧
      (∀ j, j < t.buckets → t1.ctrlAt j = if isFull (t.ctrlAt j) then DELETED else EMPTY) ∧
      RInv cfg t1 := by
  have hall := h.allocated ha
  obtain ⟨_, hpow, hsz, hssz, hbits⟩ := hall
  obtain ⟨hWc, hgeo, _⟩ := Inv.alloc_geom hc h ha
  have hn : 0 < t.buckets := by simp [Raw.buckets]
  obtain ⟨tc, i', hrun, h1, h2, h3, h4, h5, h6, h7, _, _, h10, h11, h12⟩ :=
    conv_spec hc t.buckets (t.buckets + 1) 0 t ha hsz h.valid (by omega)
  have h10 := h10 hn
  rw [Nat.zero_mod] at h11
  have hvc : ∀ j, j < tc.ctrl.size → ValidCtrl (tc.ctrlAt j) := by
    intro j hj
    rw [h12]
    split
    · exact cvByte_valid _
    · exact h.valid j (by omega)
  have hmir := h.mirror ha
  by_cases hsm : t.buckets < cfg.W
  · -- single group, pad + mirror
    have hi' : i' = cfg.W := by
      rcases hWc with hW | hW <;> rw [hW] at h11 <;> omega
    subst hi'
    let tF : Raw := { tc with ctrl := (List.range t.buckets).foldl (fun c j => c.setIfInBounds (cfg.W + j) (tc.ctrl.getD j 0)) tc.ctrl }
    have hF : ∀ x, tF.ctrlAt x =
        if cfg.W ≤ x ∧ x < cfg.W + t.buckets then tc.ctrlAt (x - cfg.W) else tc.ctrlAt x := by
      intro x
      show Array.getD _ x 0 = _
      rw [getD_foldl_set]
      by_cases hx : cfg.W ≤ x ∧ x < cfg.W + t.buckets
      · rw [if_pos ⟨hx.1, hx.2, by omega⟩, if_pos hx]; rfl
      · rw [if_neg (by omega), if_neg hx]; rfl
    have hFsz : tF.ctrl.size = t.ctrl.size := by
      show Array.size _ = _
      rw [size_foldl_set, h6]
    have hA : ∀ j, j < cfg.W → tF.ctrlAt j = cvByte (t.ctrlAt j) := by
      intro j hj
      rw [hF, if_neg (by omega), h12, if_pos (by omega)]
    have hst : StructInv cfg tF := by
      have hallF : tF.IsAllocated cfg :=
        IsAllocated.transfer (h.allocated ha) h5 h1 hFsz (by show tc.slots.size = _; rw [h2])
      have hbF : tF.buckets = t.buckets := by rw [Raw.buckets_eq, Raw.buckets_eq]; exact congrArg (· + 1) h1
      refine ⟨Or.inr hallF, ?_, ?_⟩
      · intro x hx
        rw [hF]
        split
        · exact hvc _ (by omega)
        · exact hvc _ (by omega)
      · intro _
        rw [hbF]
        refine ⟨fun hle => by omega, fun _ => ⟨fun j hj1 hj2 => ?_, fun j hj => ?_⟩⟩
        · rw [hA j hj2, (hmir.2 hsm).1 j hj1 hj2]; rfl
        · rw [hF (cfg.W + j), if_pos (by omega), hF j, if_neg (by omega)]
          congr 1; omega
    refine ⟨tF, ?_, h1, h2, h3, h4, h5, hFsz, ?_, ?_⟩
    · simp only [prepareRehashInPlace, hrun]
      rw [if_pos hsm, if_pos (by omega)]
    · intro j hj
      rw [hA j (by omega), cvByte_eq]
    · exact rinv_of_converted h ha h1 h2 h3 h5 hst (fun j hj => hA j (by omega))
  · have hi' : i' = t.buckets := by
      rcases hgeo with ⟨_, hd⟩ | hg | ⟨hg, _⟩
      · have := Nat.mod_eq_zero_of_dvd hd
        rcases hWc with hW | hW <;> rw [hW] at h11 this <;> omega
      · rcases hWc with hW | hW <;> omega
      · omega
    subst hi'
    let tF : Raw := { tc with ctrl := (List.range cfg.W).foldl (fun c j => c.setIfInBounds (t.buckets + j) (tc.ctrl.getD j 0)) tc.ctrl }
    have hF : ∀ x, tF.ctrlAt x =
        if t.buckets ≤ x ∧ x < t.buckets + cfg.W then tc.ctrlAt (x - t.buckets) else tc.ctrlAt x := by
      intro x
      show Array.getD _ x 0 = _
      rw [getD_foldl_set]
      by_cases hx : t.buckets ≤ x ∧ x < t.buckets + cfg.W
      · rw [if_pos ⟨hx.1, hx.2, by omega⟩, if_pos hx]; rfl
      · rw [if_neg (by omega), if_neg hx]; rfl
    have hFsz : tF.ctrl.size = t.ctrl.size := by
      show Array.size _ = _
      rw [size_foldl_set, h6]
    have hA : ∀ j, j < t.buckets → tF.ctrlAt j = cvByte (t.ctrlAt j) := by
      intro j hj
      rw [hF, if_neg (by omega), h12, if_pos (by omega)]
    have hst : StructInv cfg tF := by
      have hallF : tF.IsAllocated cfg :=
        IsAllocated.transfer (h.allocated ha) h5 h1 hFsz (by show tc.slots.size = _; rw [h2])
      have hbF : tF.buckets = t.buckets := by rw [Raw.buckets_eq, Raw.buckets_eq]; exact congrArg (· + 1) h1
      refine ⟨Or.inr hallF, ?_, ?_⟩
      · intro x hx
        rw [hF]
        split
        · exact hvc _ (by omega)
        · exact hvc _ (by omega)
      · intro _
        rw [hbF]
        refine ⟨fun hle j hj => ?_, fun hlt => by omega⟩
        rw [hF (t.buckets + j), if_pos (by omega), hF j, if_neg (by omega)]
        congr 1; omega
    refine ⟨tF, ?_, h1, h2, h3, h4, h5, hFsz, ?_, ?_⟩
    · simp only [prepareRehashInPlace, hrun]
      rw [if_neg hsm, if_pos (by omega)]
    · intro j hj
      rw [hA j hj, cvByte_eq]
    · exact rinv_of_converted h ha h1 h2 h3 h5 hst hA

/-! ### 4. the defect of the 0.15.2 guard (F1) -/

/-- Element type without drop glue, guard as shipped in 0.15.2. -/
def f1Cfg : Cfg := { ops := Sse2.ops, needsDrop := false, guardAlways := false }
/-- Same, with the repaired guard. -/
def f1CfgFixed : Cfg := { ops := Sse2.ops, needsDrop := false, guardAlways := true }

def f1Elem (k : Nat) : Option Elem := some ⟨k, k, k, k⟩

/-- 16 buckets (capacity 14): 6 FULL, 8 DELETED (tombstones), `growth_left = 0`. -/
def f1Table : Raw :=
  { mask := 15
    ctrl := #[0, 0, 0, 0, 0, 0, 128, 128, 128, 128, 128, 128, 128, 128, 255, 255,
              0, 0, 0, 0, 0, 0, 128, 128, 128, 128, 128, 128, 128, 128, 255, 255]
    slots := #[f1Elem 0, f1Elem 1, f1Elem 2, f1Elem 3, f1Elem 4, f1Elem 5,
               none, none, none, none, none, none, none, none, none, none]
    items := 6, gl := 0, alloc := true }

/-- The hasher panics at its second call. -/
def f1Env : Env :=
  { hash := fun c k => if c = 1 then none else some k
    eq := fun _ _ _ => some false
    clone := fun _ _ => none
    pred := fun _ _ => none
    allocOk := fun _ => true
    dropPanics := fun _ _ => false }

/-- Outcome summary: `(class, invB, items, #FULL)` of a panic. -/
def panicSummary (cfg : Cfg) : Res World → Option (String × Bool × Nat × Nat)
  | .panic c w => some (c, invB cfg w.t, w.t.items, w.t.countCtrl isFull)
  | _ => none

/-- **F1.** With the guard of hashbrown 0.15.2 (pending buckets are reset only if the element type
    has drop glue), a hasher panic during `reserve(1)` → `rehash_in_place` of a well-formed table of
    `!needs_drop` elements leaves a table violating the invariant: `items = 6` but a single FULL
    control byte (the other five elements sit in buckets still marked DELETED). -/
theorem rehash_guard_defect_witness :
    invB f1Cfg f1Table = true ∧
    panicSummary f1Cfg (reserve f1Cfg f1Env 1 { t := f1Table }) = some ("hash", false, 6, 1) ∧
    panicSummary f1Cfg (rehashInPlace f1Cfg f1Env { t := f1Table }) = some ("hash", false, 6, 1) := by
  refine ⟨by decide, by decide, by decide⟩

/-- The twin: same table, same environment, repaired guard — the pending buckets are reset and the
    table is well-formed again (one element kept, five forgotten without destructor calls). -/
theorem rehash_guard_fixed_witness :
    panicSummary f1CfgFixed (reserve f1CfgFixed f1Env 1 { t := f1Table }) = some ("hash", true, 1, 1) ∧
    panicSummary f1CfgFixed (rehashInPlace f1CfgFixed f1Env { t := f1Table }) =
      some ("hash", true, 1, 1) := by
  refine ⟨by decide, by decide⟩

/-! ### 2. `find_insert_slot` needs only the structural invariant and an EMPTY bucket

The lemmas of `Hb.Proofs.FindSlot` assume `Inv`; in the middle of `rehash_in_place` the table
violates `Inv` (pending elements are marked DELETED, also in tables smaller than a group).  The
proofs only use the clauses below, so they are replayed under `FInv`. -/

structure FInv (cfg : Cfg) (t : Raw) : Prop where
  struct : StructInv cfg t
  alloc : t.alloc = true
  hasEmpty : ∃ i, i < t.buckets ∧ t.ctrlAt i = EMPTY

namespace FInv

theorem allocated (h : FInv cfg t) : t.IsAllocated cfg := h.struct.allocated h.alloc

theorem validAt (h : FInv cfg t) (i : Nat) : ValidCtrl (t.ctrlAt i) := by
  by_cases hi : i < t.ctrl.size
  · exact h.struct.valid i hi
  · have : t.ctrlAt i = 0 := by
      simp only [Raw.ctrlAt, Array.getD_eq_getD_getElem?]
      rw [Array.getElem?_eq_none (by omega)]; rfl
    rw [this]; left; omega

theorem pow (h : FInv cfg t) : ∃ k, t.buckets = 2 ^ k := by
  obtain ⟨k, _, hk⟩ := h.allocated.2.1; exact ⟨k, hk⟩

theorem and_mask (h : FInv cfg t) (x : Nat) : x &&& t.mask = x % t.buckets := by
  obtain ⟨k, hk⟩ := h.pow
  have : t.mask = 2 ^ k - 1 := by simp only [Raw.buckets] at hk; omega
  rw [this, Nat.and_two_pow_sub_one_eq_mod, hk]

theorem and_mask_lt (h : FInv cfg t) (x : Nat) : x &&& t.mask < t.buckets := by
  rw [h.and_mask]; exact Nat.mod_lt _ (by simp [Raw.buckets])

theorem size (h : FInv cfg t) : t.ctrl.size = t.buckets + cfg.W := h.allocated.2.2.1

theorem loadGroup (h : FInv cfg t) {pos : Nat} (hp : pos < t.buckets) :
    ∃ g, loadGroup cfg.W t pos = .ok g ∧ ValidGroup cfg.W g ∧
      ∀ j, j < cfg.W → g.getD j 0 = t.ctrlAt (pos + j) := by
  have hsz : pos + cfg.W ≤ t.ctrl.size := by have := h.size; omega
  refine ⟨(List.range cfg.W).map fun j => t.ctrl.getD (pos + j) 0, ?_, ⟨by simp, ?_⟩, ?_⟩
  · simp only [Hb.loadGroup, hsz, if_true]
  · intro b hb
    simp only [List.mem_map, List.mem_range] at hb
    obtain ⟨j, _, rfl⟩ := hb
    exact h.validAt (pos + j)
  · intro j hj
    simp [List.getD_eq_getElem?_getD, hj, Raw.ctrlAt]

theorem alloc_geom (hc : CfgOk cfg) (h : FInv cfg t) :
    (cfg.W = 8 ∨ cfg.W = 16) ∧
      ((cfg.W ≤ t.buckets ∧ cfg.W ∣ t.buckets) ∨ t.buckets = 4 ∨ (t.buckets = 8 ∧ cfg.W = 16)) := by
  obtain ⟨_, ⟨k, hk2, hk⟩, hsz, _⟩ := h.allocated
  refine ⟨hc.W_cases, ?_⟩
  rw [hk]
  have hW := hc.W_cases
  by_cases h4 : 4 ≤ k
  · left
    obtain ⟨d, rfl⟩ : ∃ d, k = d + 4 := ⟨k - 4, by omega⟩
    have : 2 ^ (d + 4) = 16 * 2 ^ d := by rw [Nat.pow_add]; omega
    rw [this]
    have := Nat.two_pow_pos d
    rcases hW with hW | hW <;> rw [hW]
    · exact ⟨by omega, ⟨2 * 2 ^ d, by omega⟩⟩
    · exact ⟨by omega, ⟨2 ^ d, by omega⟩⟩
  · have : k = 2 ∨ k = 3 := by omega
    rcases this with rfl | rfl
    · right; left; rfl
    · rcases hW with hW | hW
      · left; rw [hW]; exact ⟨by decide, ⟨1, by decide⟩⟩
      · right; right; exact ⟨rfl, hW⟩

theorem load_view (hc : CfgOk cfg) (h : FInv cfg t) {pos j : Nat} (hp : pos < t.buckets)
    (hj : j < cfg.W) :
    (cfg.W ≤ t.buckets → t.ctrlAt (pos + j) = t.ctrlAt ((pos + j) &&& t.mask)) ∧
    (t.buckets < cfg.W →
      (pos + j < t.buckets → (pos + j) &&& t.mask = pos + j) ∧
      (t.buckets ≤ pos + j → pos + j < cfg.W → t.ctrlAt (pos + j) = EMPTY) ∧
      (cfg.W ≤ pos + j → t.ctrlAt (pos + j) = t.ctrlAt (pos + j - cfg.W) ∧
        (pos + j) &&& t.mask = pos + j - cfg.W)) := by
  obtain ⟨hW, hg⟩ := h.alloc_geom hc
  have hm := h.struct.mirror h.alloc
  simp only [h.and_mask]
  refine ⟨fun hle => ?_, fun hlt => ⟨fun h1 => Nat.mod_eq_of_lt h1, fun h1 h2 => (hm.2 hlt).1 _ h1 h2, fun h1 => ?_⟩⟩
  · by_cases hlt : pos + j < t.buckets
    · rw [Nat.mod_eq_of_lt hlt]
    · have e : pos + j = t.buckets + (pos + j - t.buckets) := by omega
      have hm' : (pos + j) % t.buckets = pos + j - t.buckets := by
        rw [Nat.mod_eq_sub_mod (by omega), Nat.mod_eq_of_lt (by omega)]
      rw [hm', e, (hm.1 hle) _ (by omega)]; congr 1; omega
  · have hsub : pos + j - cfg.W < t.buckets := by omega
    have e : pos + j = cfg.W + (pos + j - cfg.W) := by omega
    refine ⟨?_, ?_⟩
    · conv => lhs; rw [e]
      exact (hm.2 hlt).2 _ hsub
    · generalize t.buckets = n at *
      generalize cfg.W = W at *
      rcases hg with hg | hg | ⟨hg, hW'⟩
      · omega
      · subst hg; rcases hW with hW | hW <;> subst hW <;> omega
      · subst hg; subst hW'; omega

theorem load_view' (hc : CfgOk cfg) (h : FInv cfg t) {pos j : Nat} (hp : pos < t.buckets)
    (hj : j < cfg.W) :
    t.ctrlAt (pos + j) = t.ctrlAt ((pos + j) &&& t.mask) ∨ t.ctrlAt (pos + j) = EMPTY := by
  have hv := h.load_view hc hp hj
  by_cases hle : cfg.W ≤ t.buckets
  · left; exact hv.1 hle
  · obtain ⟨h1, h2, h3⟩ := hv.2 (by omega)
    by_cases c1 : pos + j < t.buckets
    · left; rw [h1 c1]
    · by_cases c2 : pos + j < cfg.W
      · right; exact h2 (by omega) c2
      · left; obtain ⟨e1, e2⟩ := h3 (by omega); rw [e2, e1]

theorem fixInsertSlot_ok (hc : CfgOk cfg) (h : FInv cfg t) {pos j : Nat} (hp : pos < t.buckets)
    (hj : j < cfg.W) (hs : isSpecial (t.ctrlAt (pos + j)) = true) :
    ∃ idx, fixInsertSlot cfg t ((pos + j) &&& t.mask) = .ok idx ∧ idx < t.buckets ∧
      isSpecial (t.ctrlAt idx) = true := by
  have hlt := h.and_mask_lt (pos + j)
  have hrd := ctrlRd_ok (t := t) (i := (pos + j) &&& t.mask) (by have := h.size; omega)
  by_cases hf : isFull (t.ctrlAt ((pos + j) &&& t.mask)) = true
  · have hsmall : t.buckets < cfg.W := by
      refine Nat.lt_of_not_le fun hle => ?_
      have := (h.load_view hc hp hj).1 hle
      rw [this] at hs; simp [isSpecial, hf] at hs
    obtain ⟨i0, hi0, he0⟩ := h.hasEmpty
    obtain ⟨g, hg, hv, hget⟩ := h.loadGroup (pos := 0) (by simp [Raw.buckets])
    have hhead := matchSpecial_head hc hv
    cases hfind : (List.range cfg.W).find? fun i => isSpecial (g.getD i 0) with
    | none =>
      rw [List.find?_range_eq_none] at hfind
      have := hfind i0 (by omega)
      rw [hget i0 (by omega), Nat.zero_add, he0] at this
      simp [isSpecial_EMPTY] at this
    | some b =>
      have hfind' := hfind
      rw [List.find?_range_eq_some] at hfind
      obtain ⟨hb, hbW, hmin⟩ := hfind
      simp only [List.mem_range] at hbW
      have hbi : b ≤ i0 := by
        refine Nat.le_of_not_lt fun hlt' => ?_
        have := hmin i0 hlt'
        rw [hget i0 (by omega), Nat.zero_add, he0] at this
        simp [isSpecial_EMPTY] at this
      rw [hget b hbW, Nat.zero_add] at hb
      refine ⟨b, ?_, by omega, hb⟩
      rw [hfind'] at hhead
      simp only [fixInsertSlot, hrd, hf, if_true, hg, hhead]
  · refine ⟨(pos + j) &&& t.mask, ?_, hlt, by simp [isSpecial, hf]⟩
    simp only [fixInsertSlot, hrd, hf]
    rfl

theorem loop_stop (hc : CfgOk cfg) (h : FInv cfg t) {p : ProbeSeq} {g : List Nat} {b : Nat}
    (hp : p.pos < t.buckets) (hg : Hb.loadGroup cfg.W t p.pos = .ok g) (hv : ValidGroup cfg.W g)
    (hget : ∀ j, j < cfg.W → g.getD j 0 = t.ctrlAt (p.pos + j))
    (hfind : ((List.range cfg.W).find? fun i => isSpecial (g.getD i 0)) = some b) (fuel : Nat) :
    ∃ idx, findInsertSlotLoop cfg t (fuel + 1) p = .ok idx ∧ idx < t.buckets ∧
      isSpecial (t.ctrlAt idx) = true := by
  have hhead := matchSpecial_head hc hv
  rw [hfind] at hhead
  rw [List.find?_range_eq_some] at hfind
  obtain ⟨hb, hbW, _⟩ := hfind
  simp only [List.mem_range] at hbW
  rw [hget b hbW] at hb
  obtain ⟨idx, hfix, hlt, hsp⟩ := h.fixInsertSlot_ok hc hp hbW hb
  refine ⟨idx, ?_, hlt, hsp⟩
  simp only [findInsertSlotLoop, hg, findInsertSlotInGroup, hhead, hfix]

theorem loop_first (hc : CfgOk cfg) (h : FInv cfg t) (hash : Nat) :
    ∀ d s fuel, d < fuel →
      (∃ j, j < cfg.W ∧
        isSpecial (t.ctrlAt ((probePos cfg.W cfg.bits t.mask hash (s + d)).pos + j)) = true) →
      ∃ idx, findInsertSlotLoop cfg t fuel (probePos cfg.W cfg.bits t.mask hash s) = .ok idx ∧
        idx < t.buckets ∧ isSpecial (t.ctrlAt idx) = true := by
  intro d
  induction d with
  | zero =>
    intro s fuel hfuel hex
    obtain ⟨fuel, rfl⟩ : ∃ f, fuel = f + 1 := ⟨fuel - 1, by omega⟩
    have hp : (probePos cfg.W cfg.bits t.mask hash s).pos < t.buckets := probePos_lt ..
    obtain ⟨g, hg, hv, hget⟩ := h.loadGroup hp
    cases hfind : (List.range cfg.W).find? fun i => isSpecial (g.getD i 0) with
    | none =>
      exfalso
      rw [List.find?_range_eq_none] at hfind
      obtain ⟨j, hj, hsj⟩ := hex
      have := hfind j hj
      rw [hget j hj] at this
      rw [Nat.add_zero] at hsj
      simp [hsj] at this
    | some b => exact h.loop_stop hc hp hg hv hget hfind fuel
  | succ d ih =>
    intro s fuel hfuel hex
    obtain ⟨fuel, rfl⟩ : ∃ f, fuel = f + 1 := ⟨fuel - 1, by omega⟩
    have hp : (probePos cfg.W cfg.bits t.mask hash s).pos < t.buckets := probePos_lt ..
    obtain ⟨g, hg, hv, hget⟩ := h.loadGroup hp
    have hhead := matchSpecial_head hc hv
    cases hfind : (List.range cfg.W).find? fun i => isSpecial (g.getD i 0) with
    | none =>
      have hex' : ∃ j, j < cfg.W ∧
          isSpecial (t.ctrlAt ((probePos cfg.W cfg.bits t.mask hash (s + 1 + d)).pos + j)) = true := by
        rw [show s + 1 + d = s + (d + 1) by omega]; exact hex
      obtain ⟨idx, hrun, h5, h6⟩ := ih (s + 1) fuel (by omega) hex'
      refine ⟨idx, ?_, h5, h6⟩
      rw [hfind] at hhead
      simp only [findInsertSlotLoop, hg, findInsertSlotInGroup, hhead]
      exact hrun
    | some b => exact h.loop_stop hc hp hg hv hget hfind fuel

theorem exists_special_step (hc : CfgOk cfg) (hpc : ProbeCovers cfg) (h : FInv cfg t) (hash : Nat) :
    ∃ s, s < t.buckets ∧ ∃ j, j < cfg.W ∧
      isSpecial (t.ctrlAt ((probePos cfg.W cfg.bits t.mask hash s).pos + j)) = true := by
  obtain ⟨i0, hi0, he0⟩ := h.hasEmpty
  obtain ⟨s, hs, hmem⟩ := hpc t hash i0 h.pow hi0
  rw [mem_window_iff] at hmem
  obtain ⟨j, hj, hji⟩ := hmem
  have hn : 0 < t.buckets := by simp [Raw.buckets]
  have := Nat.div_le_self t.buckets cfg.W
  refine ⟨s, by omega, j, hj, ?_⟩
  have hp : (probePos cfg.W cfg.bits t.mask hash s).pos < t.buckets := probePos_lt ..
  rcases h.load_view' hc hp hj with hv | hv
  · rw [hv, hji, he0]; exact isSpecial_EMPTY
  · rw [hv]; exact isSpecial_EMPTY

/-- `find_insert_slot` returns a special real bucket. -/
theorem findInsertSlot_ok (hc : CfgOk cfg) (hp : ProbeCovers cfg) (h : FInv cfg t) (hash : Nat) :
    ∃ idx, findInsertSlot cfg t hash = .ok idx ∧ idx < t.buckets ∧
      isSpecial (t.ctrlAt idx) = true := by
  obtain ⟨s0, hs0, hex⟩ := h.exists_special_step hc hp hash
  have hex' : ∃ j, j < cfg.W ∧
      isSpecial (t.ctrlAt ((probePos cfg.W cfg.bits t.mask hash (0 + s0)).pos + j)) = true := by
    rw [Nat.zero_add]; exact hex
  exact h.loop_first hc hash s0 0 (probeFuel t)
    (by simp only [probeFuel, Raw.buckets] at *; omega) hex'

end FInv

/-! ### `RInv` gives `FInv` -/

theorem countCtrl_live_empty (hv : ∀ i, i < t.buckets → ValidCtrl (t.ctrlAt i)) :
    t.countCtrl isLive + t.countCtrl (· == EMPTY) = t.buckets := by
  rw [countCtrl_isLive]
  have := countP_partition3 (fun i => isFull (t.ctrlAt i)) (fun i => t.ctrlAt i == DELETED)
    (fun i => t.ctrlAt i == EMPTY) (List.range t.buckets)
    (fun a ha => validCtrl_tri (hv a (List.mem_range.mp ha)))
  simpa [Raw.countCtrl] using this

theorem RInv.finv (h : RInv cfg t) : FInv cfg t := by
  refine ⟨h.struct, h.alloc, ?_⟩
  have hsz := h.allocated.2.2.1
  have h2 := countCtrl_live_empty (t := t) (fun i hi => h.struct.valid i (by omega))
  have h3 := bucketMaskToCapacity_lt_buckets t.mask
  have h1 := h.cap
  have : 0 < t.countCtrl (· == EMPTY) := by simp only [Raw.buckets] at h2; omega
  simp only [Raw.countCtrl, List.countP_pos_iff, List.mem_range] at this
  obtain ⟨i, hi, he⟩ := this
  exact ⟨i, hi, by simpa using he⟩

end Hb
