/-
`rehash_in_place` (raw/mod.rs:2864): bulk conversion of the control bytes, the two loops, the unwind
guard.  Intermediate invariant `RInv`: like `Inv`, but a live slot is marked FULL *or* DELETED
("pending"), and `items` counts both.
-/
import Hb.Proofs.InvStep
import Hb.Proofs.FindSlot
import Hb.Proofs.Probe
namespace Hb

variable {cfg : Cfg} {t : Raw}

/-! ### 0. arrays -/

theorem size_foldl_set {α} (a : Array α) (b m : Nat) (f : Nat → α) :
    ((List.range m).foldl (fun c j => c.setIfInBounds (b + j) (f j)) a).size = a.size := by
  induction m with
  | zero => rfl
  | succ m ih =>
    rw [List.range_succ, List.foldl_append, List.foldl_cons, List.foldl_nil,
      Array.size_setIfInBounds, ih]

theorem getD_foldl_set (a : Array Nat) (b m : Nat) (f : Nat → Nat) (x : Nat) :
    ((List.range m).foldl (fun c j => c.setIfInBounds (b + j) (f j)) a).getD x 0 =
      if b ≤ x ∧ x < b + m ∧ x < a.size then f (x - b) else a.getD x 0 := by
  induction m with
  | zero =>
    have : ¬ (b ≤ x ∧ x < b + 0 ∧ x < a.size) := by omega
    rw [if_neg this]; rfl
  | succ m ih =>
    rw [List.range_succ, List.foldl_append, List.foldl_cons, List.foldl_nil,
      getD_setIfInBounds, ih, size_foldl_set]
    by_cases hx : b + m = x
    · subst hx
      by_cases hs : b + m < a.size
      · rw [if_pos ⟨rfl, hs⟩, if_pos ⟨by omega, by omega, hs⟩]
        congr 1; omega
      · rw [if_neg (by omega), if_neg (by omega), if_neg (by omega)]
    · rw [if_neg (by omega)]
      by_cases hc : b ≤ x ∧ x < b + m ∧ x < a.size
      · rw [if_pos hc, if_pos (by omega)]
      · rw [if_neg hc, if_neg (by omega)]

/-! ### 1. `prepare_rehash_in_place` -/

/-- Byte-wise effect of `convert_special_to_empty_and_full_to_deleted`. -/
def cvByte (c : Nat) : Nat := if isSpecial c then EMPTY else DELETED

theorem cvByte_valid (c : Nat) : ValidCtrl (cvByte c) := by
  unfold cvByte; split
  · exact Or.inr (Or.inr rfl)
  · exact Or.inr (Or.inl rfl)

theorem cvByte_eq (c : Nat) : cvByte c = if isFull c then DELETED else EMPTY := by
  unfold cvByte isSpecial; cases isFull c <;> rfl

theorem spec_convert_getD (g : List Nat) (j : Nat) (hj : j < g.length) :
    (Spec.convert g).getD j 0 = cvByte (g.getD j 0) := by
  simp [Spec.convert, cvByte, List.getD_eq_getElem?_getD, hj]

theorem conv_spec (hc : CfgOk cfg) (n : Nat) :
    ∀ (fuel i : Nat) (t : Raw), t.alloc = true → t.ctrl.size = n + cfg.W →
      (∀ j, j < t.ctrl.size → ValidCtrl (t.ctrlAt j)) → n < i + fuel →
      ∃ t1 i', prepareRehashInPlace.conv cfg cfg.W n fuel i t = .ok t1 ∧ t1.mask = t.mask ∧
        t1.slots = t.slots ∧ t1.items = t.items ∧ t1.gl = t.gl ∧ t1.alloc = true ∧
        t1.ctrl.size = t.ctrl.size ∧ n ≤ i' ∧ i ≤ i' ∧ (n ≤ i → i' = i) ∧ (i < n → i' < n + cfg.W) ∧
        i' % cfg.W = i % cfg.W ∧
        ∀ j, t1.ctrlAt j = if i ≤ j ∧ j < i' then cvByte (t.ctrlAt j) else t.ctrlAt j := by
  intro fuel
  induction fuel with
  | zero =>
    intro i t ha hsz hv hf
    refine ⟨t, i, rfl, rfl, rfl, rfl, rfl, ha, rfl, by omega, Nat.le_refl _, fun _ => rfl,
      fun h => by omega, rfl, fun j => ?_⟩
    rw [if_neg (by omega)]
  | succ fuel ih =>
    intro i t ha hsz hv hf
    by_cases hin : i < n
    · have hW : 0 < cfg.W := by rcases hc.W_cases with h | h <;> omega
      have hld := loadGroup_eq (t := t) (W := cfg.W) (pos := i) (by omega)
      have hvg : ValidGroup cfg.ops.W ((List.range cfg.W).map fun j => t.ctrlAt (i + j)) := by
        refine ⟨by simp [Cfg.W], ?_⟩
        intro b hb
        obtain ⟨j, hj, rfl⟩ := List.mem_map.mp hb
        have := List.mem_range.mp hj
        exact hv _ (by omega)
      have hcv := hc.spec.convert _ hvg
      -- the table after this group
      let t' : Raw := { t with ctrl := (List.range cfg.W).foldl (fun c j => c.setIfInBounds (i + j)
        ((Spec.convert ((List.range cfg.W).map fun j => t.ctrlAt (i + j))).getD j 0)) t.ctrl }
      have ht' : ∀ j, t'.ctrlAt j = if i ≤ j ∧ j < i + cfg.W then cvByte (t.ctrlAt j) else t.ctrlAt j := by
        intro j
        show Array.getD _ j 0 = _
        rw [getD_foldl_set]
        by_cases hj : i ≤ j ∧ j < i + cfg.W
        · rw [if_pos ⟨hj.1, hj.2, by omega⟩, if_pos hj, spec_convert_getD _ _ (by simp; omega),
            group_getD _ _ _ _ (by omega)]
          congr 2; omega
        · rw [if_neg (by omega), if_neg hj]; rfl
      have hsz' : t'.ctrl.size = n + cfg.W := by
        show Array.size _ = _
        rw [size_foldl_set]; exact hsz
      have hv' : ∀ j, j < t'.ctrl.size → ValidCtrl (t'.ctrlAt j) := by
        intro j hj
        rw [ht']
        split
        · exact cvByte_valid _
        · exact hv j (by omega)
      obtain ⟨t1, i', hrun, h1, h2, h3, h4, h5, h6, h7, h8, h9, h10, h11, h12⟩ :=
        ih (i + cfg.W) t' ha hsz' hv' (by omega)
      refine ⟨t1, i', ?_, h1, h2, h3, h4, h5, by rw [h6, hsz', hsz], h7, by omega,
        fun h => by omega, fun _ => ?_, ?_, fun j => ?_⟩
      · rw [prepareRehashInPlace.conv, if_pos hin, hld]
        dsimp only
        rw [if_neg (show ¬ ((!t.alloc) = true) by simp [ha]), hcv]
        exact hrun
      · by_cases hn : n ≤ i + cfg.W
        · rw [h9 hn]; omega
        · exact h10 (by omega)
      · rw [h11, Nat.add_mod_right]
      · rw [h12, ht']
        by_cases h1 : i ≤ j ∧ j < i + cfg.W
        · rw [if_neg (by omega), if_pos h1, if_pos (by omega)]
        · rw [if_neg h1]
          by_cases h2 : i + cfg.W ≤ j ∧ j < i'
          · rw [if_pos h2, if_pos (by omega)]
          · rw [if_neg h2, if_neg (by omega)]
    · refine ⟨t, i, ?_, rfl, rfl, rfl, rfl, ha, rfl, by omega, Nat.le_refl _, fun _ => rfl,
        fun h => by omega, rfl, fun j => ?_⟩
      · rw [prepareRehashInPlace.conv, if_neg hin]
      · rw [if_neg (by omega)]

/-! ### the intermediate invariant -/

/-- The bucket holds an element as far as `rehash_in_place` is concerned: FULL (already placed) or
    DELETED (pending). -/
def isLive (c : Nat) : Bool := isFull c || c == DELETED

theorem isLive_cvByte (c : Nat) : isLive (cvByte c) = isFull c := by
  rw [cvByte_eq]; cases isFull c <;> rfl

theorem isLive_of_lt {c : Nat} (h : c < 128) : isLive c = true := by
  simp [isLive, isFull_of_lt h]

theorem isLive_DELETED : isLive DELETED = true := by decide
theorem isLive_EMPTY : isLive EMPTY = false := by decide

/-- Invariant of the table between the steps of `rehash_in_place`. -/
structure RInv (cfg : Cfg) (t : Raw) : Prop where
  struct : StructInv cfg t
  alloc : t.alloc = true
  live : ∀ i, i < t.slots.size → ((t.slots[i]?.join).isSome ↔ isLive (t.ctrlAt i) = true)
  items_eq : t.items = t.countCtrl isLive
  cap : t.countCtrl isLive ≤ bucketMaskToCapacity t.mask

theorem countCtrl_congr {t t' : Raw} {p q : Nat → Bool} (hm : t'.mask = t.mask)
    (h : ∀ j, j < t.buckets → p (t'.ctrlAt j) = q (t.ctrlAt j)) : t'.countCtrl p = t.countCtrl q := by
  have hb : t'.buckets = t.buckets := by simp only [Raw.buckets_eq, hm]
  rw [Raw.countCtrl, Raw.countCtrl, hb]
  apply List.countP_congr
  intro x hx
  rw [h x (List.mem_range.mp hx)]

theorem countP_or_disjoint {α} (p q : α → Bool) (l : List α) (hd : ∀ a ∈ l, ¬ (p a = true ∧ q a = true)) :
    l.countP (fun a => p a || q a) = l.countP p + l.countP q := by
  induction l with
  | nil => rfl
  | cons a l ih =>
    have ih := ih (fun b hb => hd b (List.mem_cons_of_mem _ hb))
    have ha := hd a List.mem_cons_self
    simp only [List.countP_cons, ih]
    cases hp : p a <;> cases hq : q a <;> simp_all <;> omega

theorem countCtrl_isLive (t : Raw) :
    t.countCtrl isLive = t.countCtrl isFull + t.countCtrl (· == DELETED) := by
  simp only [Raw.countCtrl]
  refine countP_or_disjoint (fun i => isFull (t.ctrlAt i)) (fun i => t.ctrlAt i == DELETED) _ ?_
  rintro a _ ⟨h1, h2⟩
  rw [beq_iff_eq] at h2
  rw [h2] at h1
  exact absurd h1 (by decide)

theorem RInv.items_split (h : RInv cfg t) :
    t.items = t.countCtrl isFull + t.countCtrl (· == DELETED) := by
  rw [h.items_eq, countCtrl_isLive]

theorem RInv.allocated (h : RInv cfg t) : t.IsAllocated cfg := h.struct.allocated h.alloc

theorem IsAllocated.transfer {t t' : Raw} (ha : t.IsAllocated cfg) (hal : t'.alloc = true)
    (hm : t'.mask = t.mask) (hcs : t'.ctrl.size = t.ctrl.size) (hss : t'.slots.size = t.slots.size) :
    t'.IsAllocated cfg := by
  have hb : t'.buckets = t.buckets := by simp only [Raw.buckets_eq, hm]
  obtain ⟨_, h2, h3, h4, h5⟩ := ha
  exact ⟨hal, by rw [hb]; exact h2, by rw [hcs, hb]; exact h3, by rw [hss, hb]; exact h4,
    by rw [hb]; exact h5⟩

theorem rinv_of_converted (h : Inv cfg t) (ha : t.alloc = true) {tF : Raw} (hm : tF.mask = t.mask)
    (hs : tF.slots = t.slots) (hi : tF.items = t.items) (hal : tF.alloc = true)
    (hst : StructInv cfg tF) (hA : ∀ j, j < t.buckets → tF.ctrlAt j = cvByte (t.ctrlAt j)) :
    RInv cfg tF := by
  have hall := h.allocated ha
  have hcnt : tF.countCtrl isLive = t.countCtrl isFull :=
    countCtrl_congr hm (fun j hj => by rw [hA j hj, isLive_cvByte])
  refine ⟨hst, hal, ?_, ?_, ?_⟩
  · intro i hi'
    rw [hs] at hi' ⊢
    have hin : i < t.buckets := by rw [← hall.2.2.2.1]; exact hi'
    rw [hA i hin, isLive_cvByte]
    exact h.live i hi'
  · rw [hi, hcnt]; exact h.items_eq
  · rw [hcnt, hm]
    have := h.count ha
    omega

theorem prepareRehashInPlace_spec (hc : CfgOk cfg) (h : Inv cfg t) (ha : t.alloc = true) :
    ∃ t1, prepareRehashInPlace cfg t = .ok t1 ∧ t1.mask = t.mask ∧ t1.slots = t.slots ∧
      t1.items = t.items ∧ t1.gl = t.gl ∧ t1.alloc = true ∧ t1.ctrl.size = t.ctrl.size ∧
      (∀ j, j < t.buckets → t1.ctrlAt j = if isFull (t.ctrlAt j) then DELETED else EMPTY) ∧
      RInv cfg t1 := by
  have hall := h.allocated ha
  obtain ⟨_, hpow, hsz, hssz, hbits⟩ := hall
  obtain ⟨hWc, hgeo, _⟩ := Inv.alloc_geom hc h ha
  have hn : 0 < t.buckets := by simp [Raw.buckets]
  obtain ⟨tc, i', hrun, h1, h2, h3, h4, h5, h6, h7, _, _, h10, h11, h12⟩ :=
    conv_spec hc t.buckets (t.buckets + 1) 0 t ha hsz h.valid (by omega)
  have h10 := h10 hn
  rw [Nat.zero_mod] at h11
  have hvc : ∀ j, j < tc.ctrl.size → ValidCtrl (tc.ctrlAt j) := by
    intro j hj
    rw [h12]
    split
    · exact cvByte_valid _
    · exact h.valid j (by omega)
  have hmir := h.mirror ha
  by_cases hsm : t.buckets < cfg.W
  · -- single group, pad + mirror
    have hi' : i' = cfg.W := by
      rcases hWc with hW | hW <;> rw [hW] at h11 <;> omega
    subst hi'
    let tF : Raw := { tc with ctrl := (List.range t.buckets).foldl (fun c j => c.setIfInBounds (cfg.W + j) (tc.ctrl.getD j 0)) tc.ctrl }
    have hF : ∀ x, tF.ctrlAt x =
        if cfg.W ≤ x ∧ x < cfg.W + t.buckets then tc.ctrlAt (x - cfg.W) else tc.ctrlAt x := by
      intro x
      show Array.getD _ x 0 = _
      rw [getD_foldl_set]
      by_cases hx : cfg.W ≤ x ∧ x < cfg.W + t.buckets
      · rw [if_pos ⟨hx.1, hx.2, by omega⟩, if_pos hx]; rfl
      · rw [if_neg (by omega), if_neg hx]; rfl
    have hFsz : tF.ctrl.size = t.ctrl.size := by
      show Array.size _ = _
      rw [size_foldl_set, h6]
    have hA : ∀ j, j < cfg.W → tF.ctrlAt j = cvByte (t.ctrlAt j) := by
      intro j hj
      rw [hF, if_neg (by omega), h12, if_pos (by omega)]
    have hst : StructInv cfg tF := by
      have hallF : tF.IsAllocated cfg :=
        IsAllocated.transfer (h.allocated ha) h5 h1 hFsz (by show tc.slots.size = _; rw [h2])
      have hbF : tF.buckets = t.buckets := by rw [Raw.buckets_eq, Raw.buckets_eq]; exact congrArg (· + 1) h1
      refine ⟨Or.inr hallF, ?_, ?_⟩
      · intro x hx
        rw [hF]
        split
        · exact hvc _ (by omega)
        · exact hvc _ (by omega)
      · intro _
        rw [hbF]
        refine ⟨fun hle => by omega, fun _ => ⟨fun j hj1 hj2 => ?_, fun j hj => ?_⟩⟩
        · rw [hA j hj2, (hmir.2 hsm).1 j hj1 hj2]; rfl
        · rw [hF (cfg.W + j), if_pos (by omega), hF j, if_neg (by omega)]
          congr 1; omega
    refine ⟨tF, ?_, h1, h2, h3, h4, h5, hFsz, ?_, ?_⟩
    · simp only [prepareRehashInPlace, hrun]
      rw [if_pos hsm, if_pos (by omega)]
    · intro j hj
      rw [hA j (by omega), cvByte_eq]
    · exact rinv_of_converted h ha h1 h2 h3 h5 hst (fun j hj => hA j (by omega))
  · have hi' : i' = t.buckets := by
      rcases hgeo with ⟨_, hd⟩ | hg | ⟨hg, _⟩
      · have := Nat.mod_eq_zero_of_dvd hd
        rcases hWc with hW | hW <;> rw [hW] at h11 this <;> omega
      · rcases hWc with hW | hW <;> omega
      · omega
    subst hi'
    let tF : Raw := { tc with ctrl := (List.range cfg.W).foldl (fun c j => c.setIfInBounds (t.buckets + j) (tc.ctrl.getD j 0)) tc.ctrl }
    have hF : ∀ x, tF.ctrlAt x =
        if t.buckets ≤ x ∧ x < t.buckets + cfg.W then tc.ctrlAt (x - t.buckets) else tc.ctrlAt x := by
      intro x
      show Array.getD _ x 0 = _
      rw [getD_foldl_set]
      by_cases hx : t.buckets ≤ x ∧ x < t.buckets + cfg.W
      · rw [if_pos ⟨hx.1, hx.2, by omega⟩, if_pos hx]; rfl
      · rw [if_neg (by omega), if_neg hx]; rfl
    have hFsz : tF.ctrl.size = t.ctrl.size := by
      show Array.size _ = _
      rw [size_foldl_set, h6]
    have hA : ∀ j, j < t.buckets → tF.ctrlAt j = cvByte (t.ctrlAt j) := by
      intro j hj
      rw [hF, if_neg (by omega), h12, if_pos (by omega)]
    have hst : StructInv cfg tF := by
      have hallF : tF.IsAllocated cfg :=
        IsAllocated.transfer (h.allocated ha) h5 h1 hFsz (by show tc.slots.size = _; rw [h2])
      have hbF : tF.buckets = t.buckets := by rw [Raw.buckets_eq, Raw.buckets_eq]; exact congrArg (· + 1) h1
      refine ⟨Or.inr hallF, ?_, ?_⟩
      · intro x hx
        rw [hF]
        split
        · exact hvc _ (by omega)
        · exact hvc _ (by omega)
      · intro _
        rw [hbF]
        refine ⟨fun hle j hj => ?_, fun hlt => by omega⟩
        rw [hF (t.buckets + j), if_pos (by omega), hF j, if_neg (by omega)]
        congr 1; omega
    refine ⟨tF, ?_, h1, h2, h3, h4, h5, hFsz, ?_, ?_⟩
    · simp only [prepareRehashInPlace, hrun]
      rw [if_neg hsm, if_pos (by omega)]
    · intro j hj
      rw [hA j hj, cvByte_eq]
    · exact rinv_of_converted h ha h1 h2 h3 h5 hst hA

/-! ### 4. the defect of the 0.15.2 guard (F1) -/

/-- Element type without drop glue, guard as shipped in 0.15.2. -/
def f1Cfg : Cfg := { ops := Sse2.ops, needsDrop := false, guardAlways := false }
/-- Same, with the repaired guard. -/
def f1CfgFixed : Cfg := { ops := Sse2.ops, needsDrop := false, guardAlways := true }

def f1Elem (k : Nat) : Option Elem := some ⟨k, k, k, k⟩

/-- 16 buckets (capacity 14): 6 FULL, 8 DELETED (tombstones), `growth_left = 0`. -/
def f1Table : Raw :=
  { mask := 15
    ctrl := #[0, 0, 0, 0, 0, 0, 128, 128, 128, 128, 128, 128, 128, 128, 255, 255,
              0, 0, 0, 0, 0, 0, 128, 128, 128, 128, 128, 128, 128, 128, 255, 255]
    slots := #[f1Elem 0, f1Elem 1, f1Elem 2, f1Elem 3, f1Elem 4, f1Elem 5,
               none, none, none, none, none, none, none, none, none, none]
    items := 6, gl := 0, alloc := true }

/-- The hasher panics at its second call. -/
def f1Env : Env :=
  { hash := fun c k => if c = 1 then none else some k
    eq := fun _ _ _ => some false
    clone := fun _ _ => none
    pred := fun _ _ => none
    allocOk := fun _ => true
    dropPanics := fun _ _ => false }

/-- Outcome summary: `(class, invB, items, #FULL)` of a panic. -/
def panicSummary (cfg : Cfg) : Res World → Option (String × Bool × Nat × Nat)
  | .panic c w => some (c, invB cfg w.t, w.t.items, w.t.countCtrl isFull)
  | _ => none

/-- **F1.** With the guard of hashbrown 0.15.2 (pending buckets are reset only if the element type
    has drop glue), a hasher panic during `reserve(1)` → `rehash_in_place` of a well-formed table of
    `!needs_drop` elements leaves a table violating the invariant: `items = 6` but a single FULL
    control byte (the other five elements sit in buckets still marked DELETED). -/
theorem rehash_guard_defect_witness :
    invB f1Cfg f1Table = true ∧
    panicSummary f1Cfg (reserve f1Cfg f1Env 1 { t := f1Table }) = some ("hash", false, 6, 1) ∧
    panicSummary f1Cfg (rehashInPlace f1Cfg f1Env { t := f1Table }) = some ("hash", false, 6, 1) := by
  refine ⟨by decide, by decide, by decide⟩

/-- The twin: same table, same environment, repaired guard — the pending buckets are reset and the
    table is well-formed again (one element kept, five forgotten without destructor calls). -/
theorem rehash_guard_fixed_witness :
    panicSummary f1CfgFixed (reserve f1CfgFixed f1Env 1 { t := f1Table }) = some ("hash", true, 1, 1) ∧
    panicSummary f1CfgFixed (rehashInPlace f1CfgFixed f1Env { t := f1Table }) =
      some ("hash", true, 1, 1) := by
  refine ⟨by decide, by decide⟩

end Hb
