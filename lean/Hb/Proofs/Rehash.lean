/-
`rehash_in_place` (raw/mod.rs:2864): bulk conversion of the control bytes, the two loops, the unwind
guard.  Intermediate invariant `RInv`: like `Inv`, but a live slot is marked FULL *or* DELETED
("pending"), and `items` counts both.

Main results
* `prepareRehashInPlace_spec`  FULL ↦ DELETED, special ↦ EMPTY, mirror restored, `RInv` holds.
* `FInv.findInsertSlot_ok`     `find_insert_slot` under the structural invariant + an EMPTY bucket
                               (valid in the middle of a rehash, also for tables smaller than a group).
* `rehashGuard_spec`           the unwind guard never faults; what it leaves behind.
* `rehashInner_spec`, `rehashOuter_spec`  the loops (`RPost`: success, or hasher panic + guard).
* `rehashInPlace_spec`, `rehashInPlace_no_fault`, `rehashInPlace_panic_elems`.
* `rehash_guard_defect_witness` / `rehash_guard_fixed_witness`  F1, by evaluation.
-/
import Hb.Proofs.InvStep
import Hb.Proofs.FindSlot
import Hb.Proofs.Probe
namespace Hb

variable {cfg : Cfg} {t : Raw}

/-! ### 0. arrays -/

theorem size_foldl_set {α} (a : Array α) (b m : Nat) (f : Nat → α) :
    ((List.range m).foldl (fun c j => c.setIfInBounds (b + j) (f j)) a).size = a.size := by
  induction m with
  | zero => rfl
  | succ m ih =>
    rw [List.range_succ, List.foldl_append, List.foldl_cons, List.foldl_nil,
      Array.size_setIfInBounds, ih]

theorem getD_foldl_set (a : Array Nat) (b m : Nat) (f : Nat → Nat) (x : Nat) :
    ((List.range m).foldl (fun c j => c.setIfInBounds (b + j) (f j)) a).getD x 0 =
      if b ≤ x ∧ x < b + m ∧ x < a.size then f (x - b) else a.getD x 0 := by
  induction m with
  | zero =>
    have : ¬ (b ≤ x ∧ x < b + 0 ∧ x < a.size) := by omega
    rw [if_neg this]; rfl
  | succ m ih =>
    rw [List.range_succ, List.foldl_append, List.foldl_cons, List.foldl_nil,
      getD_setIfInBounds, ih, size_foldl_set]
    by_cases hx : b + m = x
    · subst hx
      by_cases hs : b + m < a.size
      · rw [if_pos ⟨rfl, hs⟩, if_pos ⟨by omega, by omega, hs⟩]
        congr 1; omega
      · rw [if_neg (by omega), if_neg (by omega), if_neg (by omega)]
    · rw [if_neg (by omega)]
      by_cases hc : b ≤ x ∧ x < b + m ∧ x < a.size
      · rw [if_pos hc, if_pos (by omega)]
      · rw [if_neg hc, if_neg (by omega)]

/-! ### 1. `prepare_rehash_in_place` -/

/-- Byte-wise effect of `convert_special_to_empty_and_full_to_deleted`. -/
def cvByte (c : Nat) : Nat := if isSpecial c then EMPTY else DELETED

theorem cvByte_valid (c : Nat) : ValidCtrl (cvByte c) := by
  unfold cvByte; split
  · exact Or.inr (Or.inr rfl)
  · exact Or.inr (Or.inl rfl)

theorem cvByte_eq (c : Nat) : cvByte c = if isFull c then DELETED else EMPTY := by
  unfold cvByte isSpecial; cases isFull c <;> rfl

theorem spec_convert_getD (g : List Nat) (j : Nat) (hj : j < g.length) :
    (Spec.convert g).getD j 0 = cvByte (g.getD j 0) := by
  simp [Spec.convert, cvByte, List.getD_eq_getElem?_getD, hj]

theorem conv_spec (hc : CfgOk cfg) (n : Nat) :
    ∀ (fuel i : Nat) (t : Raw), t.alloc = true → t.ctrl.size = n + cfg.W →
      (∀ j, j < t.ctrl.size → ValidCtrl (t.ctrlAt j)) → n < i + fuel →
      ∃ t1 i', prepareRehashInPlace.conv cfg cfg.W n fuel i t = .ok t1 ∧ t1.mask = t.mask ∧
        t1.slots = t.slots ∧ t1.items = t.items ∧ t1.gl = t.gl ∧ t1.alloc = true ∧
        t1.ctrl.size = t.ctrl.size ∧ n ≤ i' ∧ i ≤ i' ∧ (n ≤ i → i' = i) ∧ (i < n → i' < n + cfg.W) ∧
        i' % cfg.W = i % cfg.W ∧
        ∀ j, t1.ctrlAt j = if i ≤ j ∧ j < i' then cvByte (t.ctrlAt j) else t.ctrlAt j := by
  intro fuel
  induction fuel with
  | zero =>
    intro i t ha hsz hv hf
    refine ⟨t, i, rfl, rfl, rfl, rfl, rfl, ha, rfl, by omega, Nat.le_refl _, fun _ => rfl,
      fun h => by omega, rfl, fun j => ?_⟩
    rw [if_neg (by omega)]
  | succ fuel ih =>
    intro i t ha hsz hv hf
    by_cases hin : i < n
    · have hW : 0 < cfg.W := by rcases hc.W_cases with h | h <;> omega
      have hld := loadGroup_eq (t := t) (W := cfg.W) (pos := i) (by omega)
      have hvg : ValidGroup cfg.ops.W ((List.range cfg.W).map fun j => t.ctrlAt (i + j)) := by
        refine ⟨by simp [Cfg.W], ?_⟩
        intro b hb
        obtain ⟨j, hj, rfl⟩ := List.mem_map.mp hb
        have := List.mem_range.mp hj
        exact hv _ (by omega)
      have hcv := hc.spec.convert _ hvg
      -- the table after this group
      let t' : Raw := { t with ctrl := (List.range cfg.W).foldl (fun c j => c.setIfInBounds (i + j)
        ((Spec.convert ((List.range cfg.W).map fun j => t.ctrlAt (i + j))).getD j 0)) t.ctrl }
      have ht' : ∀ j, t'.ctrlAt j = if i ≤ j ∧ j < i + cfg.W then cvByte (t.ctrlAt j) else t.ctrlAt j := by
        intro j
        show Array.getD _ j 0 = _
        rw [getD_foldl_set]
        by_cases hj : i ≤ j ∧ j < i + cfg.W
        · rw [if_pos ⟨hj.1, hj.2, by omega⟩, if_pos hj, spec_convert_getD _ _ (by simp; omega),
            group_getD _ _ _ _ (by omega)]
          congr 2; omega
        · rw [if_neg (by omega), if_neg hj]; rfl
      have hsz' : t'.ctrl.size = n + cfg.W := by
        show Array.size _ = _
        rw [size_foldl_set]; exact hsz
      have hv' : ∀ j, j < t'.ctrl.size → ValidCtrl (t'.ctrlAt j) := by
        intro j hj
        rw [ht']
        split
        · exact cvByte_valid _
        · exact hv j (by omega)
      obtain ⟨t1, i', hrun, h1, h2, h3, h4, h5, h6, h7, h8, h9, h10, h11, h12⟩ :=
        ih (i + cfg.W) t' ha hsz' hv' (by omega)
      refine ⟨t1, i', ?_, h1, h2, h3, h4, h5, by rw [h6, hsz', hsz], h7, by omega,
        fun h => by omega, fun _ => ?_, ?_, fun j => ?_⟩
      · rw [prepareRehashInPlace.conv, if_pos hin, hld]
        dsimp only
        rw [if_neg (show ¬ ((!t.alloc) = true) by simp [ha]), hcv]
        exact hrun
      · by_cases hn : n ≤ i + cfg.W
        · rw [h9 hn]; omega
        · exact h10 (by omega)
      · rw [h11, Nat.add_mod_right]
      · rw [h12, ht']
        by_cases h1 : i ≤ j ∧ j < i + cfg.W
        · rw [if_neg (by omega), if_pos h1, if_pos (by omega)]
        · rw [if_neg h1]
          by_cases h2 : i + cfg.W ≤ j ∧ j < i'
          · rw [if_pos h2, if_pos (by omega)]
          · rw [if_neg h2, if_neg (by omega)]
    · refine ⟨t, i, ?_, rfl, rfl, rfl, rfl, ha, rfl, by omega, Nat.le_refl _, fun _ => rfl,
        fun h => by omega, rfl, fun j => ?_⟩
      · rw [prepareRehashInPlace.conv, if_neg hin]
      · rw [if_neg (by omega)]

/-! ### the intermediate invariant -/

/-- The bucket holds an element as far as `rehash_in_place` is concerned: FULL (already placed) or
    DELETED (pending). -/
def isLive (c : Nat) : Bool := isFull c || c == DELETED

theorem isLive_cvByte (c : Nat) : isLive (cvByte c) = isFull c := by
  rw [cvByte_eq]; cases isFull c <;> rfl

theorem isLive_of_lt {c : Nat} (h : c < 128) : isLive c = true := by
  simp [isLive, isFull_of_lt h]

theorem isLive_DELETED : isLive DELETED = true := by decide
theorem isLive_EMPTY : isLive EMPTY = false := by decide

/-- Invariant of the table between the steps of `rehash_in_place`. -/
structure RInv (cfg : Cfg) (t : Raw) : Prop where
  struct : StructInv cfg t
  alloc : t.alloc = true
  live : ∀ i, i < t.slots.size → ((t.slots[i]?.join).isSome ↔ isLive (t.ctrlAt i) = true)
  items_eq : t.items = t.countCtrl isLive
  cap : t.countCtrl isLive ≤ bucketMaskToCapacity t.mask

theorem countCtrl_congr {t t' : Raw} {p q : Nat → Bool} (hm : t'.mask = t.mask)
    (h : ∀ j, j < t.buckets → p (t'.ctrlAt j) = q (t.ctrlAt j)) : t'.countCtrl p = t.countCtrl q := by
  have hb : t'.buckets = t.buckets := by simp only [Raw.buckets_eq, hm]
  rw [Raw.countCtrl, Raw.countCtrl, hb]
  apply List.countP_congr
  intro x hx
  rw [h x (List.mem_range.mp hx)]

theorem countP_or_disjoint {α} (p q : α → Bool) (l : List α) (hd : ∀ a ∈ l, ¬ (p a = true ∧ q a = true)) :
    l.countP (fun a => p a || q a) = l.countP p + l.countP q := by
  induction l with
  | nil => rfl
  | cons a l ih =>
    have ih := ih (fun b hb => hd b (List.mem_cons_of_mem _ hb))
    have ha := hd a List.mem_cons_self
    simp only [List.countP_cons, ih]
    cases hp : p a <;> cases hq : q a <;> simp_all <;> omega

theorem countCtrl_isLive (t : Raw) :
    t.countCtrl isLive = t.countCtrl isFull + t.countCtrl (· == DELETED) := by
  simp only [Raw.countCtrl]
  refine countP_or_disjoint (fun i => isFull (t.ctrlAt i)) (fun i => t.ctrlAt i == DELETED) _ ?_
  rintro a _ ⟨h1, h2⟩
  rw [beq_iff_eq] at h2
  rw [h2] at h1
  exact absurd h1 (by decide)

theorem RInv.items_split (h : RInv cfg t) :
    t.items = t.countCtrl isFull + t.countCtrl (· == DELETED) := by
  rw [h.items_eq, countCtrl_isLive]

theorem RInv.allocated (h : RInv cfg t) : t.IsAllocated cfg := h.struct.allocated h.alloc

theorem IsAllocated.transfer {t t' : Raw} (ha : t.IsAllocated cfg) (hal : t'.alloc = true)
    (hm : t'.mask = t.mask) (hcs : t'.ctrl.size = t.ctrl.size) (hss : t'.slots.size = t.slots.size) :
    t'.IsAllocated cfg := by
  have hb : t'.buckets = t.buckets := by simp only [Raw.buckets_eq, hm]
  obtain ⟨_, h2, h3, h4, h5⟩ := ha
  exact ⟨hal, by rw [hb]; exact h2, by rw [hcs, hb]; exact h3, by rw [hss, hb]; exact h4,
    by rw [hb]; exact h5⟩

theorem rinv_of_converted (h : Inv cfg t) (ha : t.alloc = true) {tF : Raw} (hm : tF.mask = t.mask)
    (hs : tF.slots = t.slots) (hi : tF.items = t.items) (hal : tF.alloc = true)
    (hst : StructInv cfg tF) (hA : ∀ j, j < t.buckets → tF.ctrlAt j = cvByte (t.ctrlAt j)) :
    RInv cfg tF := by
  have hall := h.allocated ha
  have hcnt : tF.countCtrl isLive = t.countCtrl isFull :=
    countCtrl_congr hm (fun j hj => by rw [hA j hj, isLive_cvByte])
  refine ⟨hst, hal, ?_, ?_, ?_⟩
  · intro i hi'
    rw [hs] at hi' ⊢
    have hin : i < t.buckets := by rw [← hall.2.2.2.1]; exact hi'
    rw [hA i hin, isLive_cvByte]
    exact h.live i hi'
  · rw [hi, hcnt]; exact h.items_eq
  · rw [hcnt, hm]
    have := h.count ha
    omega

theorem prepareRehashInPlace_spec (hc : CfgOk cfg) (h : Inv cfg t) (ha : t.alloc = true) :
    ∃ t1, prepareRehashInPlace cfg t = .ok t1 ∧ t1.mask = t.mask ∧ t1.slots = t.slots ∧
      t1.items = t.items ∧ t1.gl = t.gl ∧ t1.alloc = true ∧ t1.ctrl.size = t.ctrl.size ∧
      (∀ j, j < t.buckets → t1.ctrlAt j = if isFull (t.ctrlAt j) then DELETED else EMPTY) ∧
      RInv cfg t1 := by
  have hall := h.allocated ha
  obtain ⟨_, hpow, hsz, hssz, hbits⟩ := hall
  obtain ⟨hWc, hgeo, _⟩ := Inv.alloc_geom hc h ha
  have hn : 0 < t.buckets := by simp [Raw.buckets]
  obtain ⟨tc, i', hrun, h1, h2, h3, h4, h5, h6, h7, _, _, h10, h11, h12⟩ :=
    conv_spec hc t.buckets (t.buckets + 1) 0 t ha hsz h.valid (by omega)
  have h10 := h10 hn
  rw [Nat.zero_mod] at h11
  have hvc : ∀ j, j < tc.ctrl.size → ValidCtrl (tc.ctrlAt j) := by
    intro j hj
    rw [h12]
    split
    · exact cvByte_valid _
    · exact h.valid j (by omega)
  have hmir := h.mirror ha
  by_cases hsm : t.buckets < cfg.W
  · -- single group, pad + mirror
    have hi' : i' = cfg.W := by
      rcases hWc with hW | hW <;> rw [hW] at h11 <;> omega
    subst hi'
    let tF : Raw := { tc with ctrl := (List.range t.buckets).foldl (fun c j => c.setIfInBounds (cfg.W + j) (tc.ctrl.getD j 0)) tc.ctrl }
    have hF : ∀ x, tF.ctrlAt x =
        if cfg.W ≤ x ∧ x < cfg.W + t.buckets then tc.ctrlAt (x - cfg.W) else tc.ctrlAt x := by
      intro x
      show Array.getD _ x 0 = _
      rw [getD_foldl_set]
      by_cases hx : cfg.W ≤ x ∧ x < cfg.W + t.buckets
      · rw [if_pos ⟨hx.1, hx.2, by omega⟩, if_pos hx]; rfl
      · rw [if_neg (by omega), if_neg hx]; rfl
    have hFsz : tF.ctrl.size = t.ctrl.size := by
      show Array.size _ = _
      rw [size_foldl_set, h6]
    have hA : ∀ j, j < cfg.W → tF.ctrlAt j = cvByte (t.ctrlAt j) := by
      intro j hj
      rw [hF, if_neg (by omega), h12, if_pos (by omega)]
    have hst : StructInv cfg tF := by
      have hallF : tF.IsAllocated cfg :=
        IsAllocated.transfer (h.allocated ha) h5 h1 hFsz (by show tc.slots.size = _; rw [h2])
      have hbF : tF.buckets = t.buckets := by rw [Raw.buckets_eq, Raw.buckets_eq]; exact congrArg (· + 1) h1
      refine ⟨Or.inr hallF, ?_, ?_⟩
      · intro x hx
        rw [hF]
        split
        · exact hvc _ (by omega)
        · exact hvc _ (by omega)
      · intro _
        rw [hbF]
        refine ⟨fun hle => by omega, fun _ => ⟨fun j hj1 hj2 => ?_, fun j hj => ?_⟩⟩
        · rw [hA j hj2, (hmir.2 hsm).1 j hj1 hj2]; rfl
        · rw [hF (cfg.W + j), if_pos (by omega), hF j, if_neg (by omega)]
          congr 1; omega
    refine ⟨tF, ?_, h1, h2, h3, h4, h5, hFsz, ?_, ?_⟩
    · simp only [prepareRehashInPlace, hrun]
      rw [if_pos hsm, if_pos (by omega)]
    · intro j hj
      rw [hA j (by omega), cvByte_eq]
    · exact rinv_of_converted h ha h1 h2 h3 h5 hst (fun j hj => hA j (by omega))
  · have hi' : i' = t.buckets := by
      rcases hgeo with ⟨_, hd⟩ | hg | ⟨hg, _⟩
      · have := Nat.mod_eq_zero_of_dvd hd
        rcases hWc with hW | hW <;> rw [hW] at h11 this <;> omega
      · rcases hWc with hW | hW <;> omega
      · omega
    subst hi'
    let tF : Raw := { tc with ctrl := (List.range cfg.W).foldl (fun c j => c.setIfInBounds (t.buckets + j) (tc.ctrl.getD j 0)) tc.ctrl }
    have hF : ∀ x, tF.ctrlAt x =
        if t.buckets ≤ x ∧ x < t.buckets + cfg.W then tc.ctrlAt (x - t.buckets) else tc.ctrlAt x := by
      intro x
      show Array.getD _ x 0 = _
      rw [getD_foldl_set]
      by_cases hx : t.buckets ≤ x ∧ x < t.buckets + cfg.W
      · rw [if_pos ⟨hx.1, hx.2, by omega⟩, if_pos hx]; rfl
      · rw [if_neg (by omega), if_neg hx]; rfl
    have hFsz : tF.ctrl.size = t.ctrl.size := by
      show Array.size _ = _
      rw [size_foldl_set, h6]
    have hA : ∀ j, j < t.buckets → tF.ctrlAt j = cvByte (t.ctrlAt j) := by
      intro j hj
      rw [hF, if_neg (by omega), h12, if_pos (by omega)]
    have hst : StructInv cfg tF := by
      have hallF : tF.IsAllocated cfg :=
        IsAllocated.transfer (h.allocated ha) h5 h1 hFsz (by show tc.slots.size = _; rw [h2])
      have hbF : tF.buckets = t.buckets := by rw [Raw.buckets_eq, Raw.buckets_eq]; exact congrArg (· + 1) h1
      refine ⟨Or.inr hallF, ?_, ?_⟩
      · intro x hx
        rw [hF]
        split
        · exact hvc _ (by omega)
        · exact hvc _ (by omega)
      · intro _
        rw [hbF]
        refine ⟨fun hle j hj => ?_, fun hlt => by omega⟩
        rw [hF (t.buckets + j), if_pos (by omega), hF j, if_neg (by omega)]
        congr 1; omega
    refine ⟨tF, ?_, h1, h2, h3, h4, h5, hFsz, ?_, ?_⟩
    · simp only [prepareRehashInPlace, hrun]
      rw [if_neg hsm, if_pos (by omega)]
    · intro j hj
      rw [hA j hj, cvByte_eq]
    · exact rinv_of_converted h ha h1 h2 h3 h5 hst hA

/-! ### 4. the defect of the 0.15.2 guard (F1) -/

/-- Element type without drop glue, guard as shipped in 0.15.2. -/
def f1Cfg : Cfg := { ops := Sse2.ops, needsDrop := false, guardAlways := false }
/-- Same, with the repaired guard. -/
def f1CfgFixed : Cfg := { ops := Sse2.ops, needsDrop := false, guardAlways := true }

def f1Elem (k : Nat) : Option Elem := some ⟨k, k, k, k⟩

/-- 16 buckets (capacity 14): 6 FULL, 8 DELETED (tombstones), `growth_left = 0`. -/
def f1Table : Raw :=
  { mask := 15
    ctrl := #[0, 0, 0, 0, 0, 0, 128, 128, 128, 128, 128, 128, 128, 128, 255, 255,
              0, 0, 0, 0, 0, 0, 128, 128, 128, 128, 128, 128, 128, 128, 255, 255]
    slots := #[f1Elem 0, f1Elem 1, f1Elem 2, f1Elem 3, f1Elem 4, f1Elem 5,
               none, none, none, none, none, none, none, none, none, none]
    items := 6, gl := 0, alloc := true }

/-- The hasher panics at its second call. -/
def f1Env : Env :=
  { hash := fun c k => if c = 1 then none else some k
    eq := fun _ _ _ => some false
    clone := fun _ _ => none
    pred := fun _ _ => none
    allocOk := fun _ => true
    dropPanics := fun _ _ => false }

/-- Outcome summary: `(class, invB, items, #FULL)` of a panic. -/
def panicSummary (cfg : Cfg) : Res World → Option (String × Bool × Nat × Nat)
  | .panic c w => some (c, invB cfg w.t, w.t.items, w.t.countCtrl isFull)
  | _ => none

/-- **F1.** With the guard of hashbrown 0.15.2 (pending buckets are reset only if the element type
    has drop glue), a hasher panic during `reserve(1)` → `rehash_in_place` of a well-formed table of
    `!needs_drop` elements leaves a table violating the invariant: `items = 6` but a single FULL
    control byte (the other five elements sit in buckets still marked DELETED). -/
theorem rehash_guard_defect_witness :
    invB f1Cfg f1Table = true ∧
    panicSummary f1Cfg (reserve f1Cfg f1Env 1 { t := f1Table }) = some ("hash", false, 6, 1) ∧
    panicSummary f1Cfg (rehashInPlace f1Cfg f1Env { t := f1Table }) = some ("hash", false, 6, 1) := by
  refine ⟨by decide, by decide, by decide⟩

/-- The twin: same table, same environment, repaired guard — the pending buckets are reset and the
    table is well-formed again (one element kept, five forgotten without destructor calls). -/
theorem rehash_guard_fixed_witness :
    panicSummary f1CfgFixed (reserve f1CfgFixed f1Env 1 { t := f1Table }) = some ("hash", true, 1, 1) ∧
    panicSummary f1CfgFixed (rehashInPlace f1CfgFixed f1Env { t := f1Table }) =
      some ("hash", true, 1, 1) := by
  refine ⟨by decide, by decide⟩

/-! ### 2. `find_insert_slot` needs only the structural invariant and an EMPTY bucket

The lemmas of `Hb.Proofs.FindSlot` assume `Inv`; in the middle of `rehash_in_place` the table
violates `Inv` (pending elements are marked DELETED, also in tables smaller than a group).  The
proofs only use the clauses below, so they are replayed under `FInv`. -/

structure FInv (cfg : Cfg) (t : Raw) : Prop where
  struct : StructInv cfg t
  alloc : t.alloc = true
  hasEmpty : ∃ i, i < t.buckets ∧ t.ctrlAt i = EMPTY

namespace FInv

theorem allocated (h : FInv cfg t) : t.IsAllocated cfg := h.struct.allocated h.alloc

theorem validAt (h : FInv cfg t) (i : Nat) : ValidCtrl (t.ctrlAt i) := by
  by_cases hi : i < t.ctrl.size
  · exact h.struct.valid i hi
  · have : t.ctrlAt i = 0 := by
      simp only [Raw.ctrlAt, Array.getD_eq_getD_getElem?]
      rw [Array.getElem?_eq_none (by omega)]; rfl
    rw [this]; left; omega

theorem pow (h : FInv cfg t) : ∃ k, t.buckets = 2 ^ k := by
  obtain ⟨k, _, hk⟩ := h.allocated.2.1; exact ⟨k, hk⟩

theorem and_mask (h : FInv cfg t) (x : Nat) : x &&& t.mask = x % t.buckets := by
  obtain ⟨k, hk⟩ := h.pow
  have : t.mask = 2 ^ k - 1 := by simp only [Raw.buckets] at hk; omega
  rw [this, Nat.and_two_pow_sub_one_eq_mod, hk]

theorem and_mask_lt (h : FInv cfg t) (x : Nat) : x &&& t.mask < t.buckets := by
  rw [h.and_mask]; exact Nat.mod_lt _ (by simp [Raw.buckets])

theorem size (h : FInv cfg t) : t.ctrl.size = t.buckets + cfg.W := h.allocated.2.2.1

theorem loadGroup (h : FInv cfg t) {pos : Nat} (hp : pos < t.buckets) :
    ∃ g, loadGroup cfg.W t pos = .ok g ∧ ValidGroup cfg.W g ∧
      ∀ j, j < cfg.W → g.getD j 0 = t.ctrlAt (pos + j) := by
  have hsz : pos + cfg.W ≤ t.ctrl.size := by have := h.size; omega
  refine ⟨(List.range cfg.W).map fun j => t.ctrl.getD (pos + j) 0, ?_, ⟨by simp, ?_⟩, ?_⟩
  · simp only [Hb.loadGroup, hsz, if_true]
  · intro b hb
    simp only [List.mem_map, List.mem_range] at hb
    obtain ⟨j, _, rfl⟩ := hb
    exact h.validAt (pos + j)
  · intro j hj
    simp [List.getD_eq_getElem?_getD, hj, Raw.ctrlAt]

theorem alloc_geom (hc : CfgOk cfg) (h : FInv cfg t) :
    (cfg.W = 8 ∨ cfg.W = 16) ∧
      ((cfg.W ≤ t.buckets ∧ cfg.W ∣ t.buckets) ∨ t.buckets = 4 ∨ (t.buckets = 8 ∧ cfg.W = 16)) := by
  obtain ⟨_, ⟨k, hk2, hk⟩, hsz, _⟩ := h.allocated
  refine ⟨hc.W_cases, ?_⟩
  rw [hk]
  have hW := hc.W_cases
  by_cases h4 : 4 ≤ k
  · left
    obtain ⟨d, rfl⟩ : ∃ d, k = d + 4 := ⟨k - 4, by omega⟩
    have : 2 ^ (d + 4) = 16 * 2 ^ d := by rw [Nat.pow_add]; omega
    rw [this]
    have := Nat.two_pow_pos d
    rcases hW with hW | hW <;> rw [hW]
    · exact ⟨by omega, ⟨2 * 2 ^ d, by omega⟩⟩
    · exact ⟨by omega, ⟨2 ^ d, by omega⟩⟩
  · have : k = 2 ∨ k = 3 := by omega
    rcases this with rfl | rfl
    · right; left; rfl
    · rcases hW with hW | hW
      · left; rw [hW]; exact ⟨by decide, ⟨1, by decide⟩⟩
      · right; right; exact ⟨rfl, hW⟩

theorem load_view (hc : CfgOk cfg) (h : FInv cfg t) {pos j : Nat} (hp : pos < t.buckets)
    (hj : j < cfg.W) :
    (cfg.W ≤ t.buckets → t.ctrlAt (pos + j) = t.ctrlAt ((pos + j) &&& t.mask)) ∧
    (t.buckets < cfg.W →
      (pos + j < t.buckets → (pos + j) &&& t.mask = pos + j) ∧
      (t.buckets ≤ pos + j → pos + j < cfg.W → t.ctrlAt (pos + j) = EMPTY) ∧
      (cfg.W ≤ pos + j → t.ctrlAt (pos + j) = t.ctrlAt (pos + j - cfg.W) ∧
        (pos + j) &&& t.mask = pos + j - cfg.W)) := by
  obtain ⟨hW, hg⟩ := h.alloc_geom hc
  have hm := h.struct.mirror h.alloc
  simp only [h.and_mask]
  refine ⟨fun hle => ?_, fun hlt => ⟨fun h1 => Nat.mod_eq_of_lt h1, fun h1 h2 => (hm.2 hlt).1 _ h1 h2, fun h1 => ?_⟩⟩
  · by_cases hlt : pos + j < t.buckets
    · rw [Nat.mod_eq_of_lt hlt]
    · have e : pos + j = t.buckets + (pos + j - t.buckets) := by omega
      have hm' : (pos + j) % t.buckets = pos + j - t.buckets := by
        rw [Nat.mod_eq_sub_mod (by omega), Nat.mod_eq_of_lt (by omega)]
      rw [hm', e, (hm.1 hle) _ (by omega)]; congr 1; omega
  · have hsub : pos + j - cfg.W < t.buckets := by omega
    have e : pos + j = cfg.W + (pos + j - cfg.W) := by omega
    refine ⟨?_, ?_⟩
    · conv => lhs; rw [e]
      exact (hm.2 hlt).2 _ hsub
    · generalize t.buckets = n at *
      generalize cfg.W = W at *
      rcases hg with hg | hg | ⟨hg, hW'⟩
      · omega
      · subst hg; rcases hW with hW | hW <;> subst hW <;> omega
      · subst hg; subst hW'; omega

theorem load_view' (hc : CfgOk cfg) (h : FInv cfg t) {pos j : Nat} (hp : pos < t.buckets)
    (hj : j < cfg.W) :
    t.ctrlAt (pos + j) = t.ctrlAt ((pos + j) &&& t.mask) ∨ t.ctrlAt (pos + j) = EMPTY := by
  have hv := h.load_view hc hp hj
  by_cases hle : cfg.W ≤ t.buckets
  · left; exact hv.1 hle
  · obtain ⟨h1, h2, h3⟩ := hv.2 (by omega)
    by_cases c1 : pos + j < t.buckets
    · left; rw [h1 c1]
    · by_cases c2 : pos + j < cfg.W
      · right; exact h2 (by omega) c2
      · left; obtain ⟨e1, e2⟩ := h3 (by omega); rw [e2, e1]

theorem fixInsertSlot_ok (hc : CfgOk cfg) (h : FInv cfg t) {pos j : Nat} (hp : pos < t.buckets)
    (hj : j < cfg.W) (hs : isSpecial (t.ctrlAt (pos + j)) = true) :
    ∃ idx, fixInsertSlot cfg t ((pos + j) &&& t.mask) = .ok idx ∧ idx < t.buckets ∧
      isSpecial (t.ctrlAt idx) = true := by
  have hlt := h.and_mask_lt (pos + j)
  have hrd := ctrlRd_ok (t := t) (i := (pos + j) &&& t.mask) (by have := h.size; omega)
  by_cases hf : isFull (t.ctrlAt ((pos + j) &&& t.mask)) = true
  · have hsmall : t.buckets < cfg.W := by
      refine Nat.lt_of_not_le fun hle => ?_
      have := (h.load_view hc hp hj).1 hle
      rw [this] at hs; simp [isSpecial, hf] at hs
    obtain ⟨i0, hi0, he0⟩ := h.hasEmpty
    obtain ⟨g, hg, hv, hget⟩ := h.loadGroup (pos := 0) (by simp [Raw.buckets])
    have hhead := matchSpecial_head hc hv
    cases hfind : (List.range cfg.W).find? fun i => isSpecial (g.getD i 0) with
    | none =>
      rw [List.find?_range_eq_none] at hfind
      have := hfind i0 (by omega)
      rw [hget i0 (by omega), Nat.zero_add, he0] at this
      simp [isSpecial_EMPTY] at this
    | some b =>
      have hfind' := hfind
      rw [List.find?_range_eq_some] at hfind
      obtain ⟨hb, hbW, hmin⟩ := hfind
      simp only [List.mem_range] at hbW
      have hbi : b ≤ i0 := by
        refine Nat.le_of_not_lt fun hlt' => ?_
        have := hmin i0 hlt'
        rw [hget i0 (by omega), Nat.zero_add, he0] at this
        simp [isSpecial_EMPTY] at this
      rw [hget b hbW, Nat.zero_add] at hb
      refine ⟨b, ?_, by omega, hb⟩
      rw [hfind'] at hhead
      simp only [fixInsertSlot, hrd, hf, if_true, hg, hhead]
  · refine ⟨(pos + j) &&& t.mask, ?_, hlt, by simp [isSpecial, hf]⟩
    simp only [fixInsertSlot, hrd, hf]
    rfl

theorem loop_stop (hc : CfgOk cfg) (h : FInv cfg t) {p : ProbeSeq} {g : List Nat} {b : Nat}
    (hp : p.pos < t.buckets) (hg : Hb.loadGroup cfg.W t p.pos = .ok g) (hv : ValidGroup cfg.W g)
    (hget : ∀ j, j < cfg.W → g.getD j 0 = t.ctrlAt (p.pos + j))
    (hfind : ((List.range cfg.W).find? fun i => isSpecial (g.getD i 0)) = some b) (fuel : Nat) :
    ∃ idx, findInsertSlotLoop cfg t (fuel + 1) p = .ok idx ∧ idx < t.buckets ∧
      isSpecial (t.ctrlAt idx) = true := by
  have hhead := matchSpecial_head hc hv
  rw [hfind] at hhead
  rw [List.find?_range_eq_some] at hfind
  obtain ⟨hb, hbW, _⟩ := hfind
  simp only [List.mem_range] at hbW
  rw [hget b hbW] at hb
  obtain ⟨idx, hfix, hlt, hsp⟩ := h.fixInsertSlot_ok hc hp hbW hb
  refine ⟨idx, ?_, hlt, hsp⟩
  simp only [findInsertSlotLoop, hg, findInsertSlotInGroup, hhead, hfix]

theorem loop_first (hc : CfgOk cfg) (h : FInv cfg t) (hash : Nat) :
    ∀ d s fuel, d < fuel →
      (∃ j, j < cfg.W ∧
        isSpecial (t.ctrlAt ((probePos cfg.W cfg.bits t.mask hash (s + d)).pos + j)) = true) →
      ∃ idx, findInsertSlotLoop cfg t fuel (probePos cfg.W cfg.bits t.mask hash s) = .ok idx ∧
        idx < t.buckets ∧ isSpecial (t.ctrlAt idx) = true := by
  intro d
  induction d with
  | zero =>
    intro s fuel hfuel hex
    obtain ⟨fuel, rfl⟩ : ∃ f, fuel = f + 1 := ⟨fuel - 1, by omega⟩
    have hp : (probePos cfg.W cfg.bits t.mask hash s).pos < t.buckets := probePos_lt ..
    obtain ⟨g, hg, hv, hget⟩ := h.loadGroup hp
    cases hfind : (List.range cfg.W).find? fun i => isSpecial (g.getD i 0) with
    | none =>
      exfalso
      rw [List.find?_range_eq_none] at hfind
      obtain ⟨j, hj, hsj⟩ := hex
      have := hfind j hj
      rw [hget j hj] at this
      rw [Nat.add_zero] at hsj
      simp [hsj] at this
    | some b => exact h.loop_stop hc hp hg hv hget hfind fuel
  | succ d ih =>
    intro s fuel hfuel hex
    obtain ⟨fuel, rfl⟩ : ∃ f, fuel = f + 1 := ⟨fuel - 1, by omega⟩
    have hp : (probePos cfg.W cfg.bits t.mask hash s).pos < t.buckets := probePos_lt ..
    obtain ⟨g, hg, hv, hget⟩ := h.loadGroup hp
    have hhead := matchSpecial_head hc hv
    cases hfind : (List.range cfg.W).find? fun i => isSpecial (g.getD i 0) with
    | none =>
      have hex' : ∃ j, j < cfg.W ∧
          isSpecial (t.ctrlAt ((probePos cfg.W cfg.bits t.mask hash (s + 1 + d)).pos + j)) = true := by
        rw [show s + 1 + d = s + (d + 1) by omega]; exact hex
      obtain ⟨idx, hrun, h5, h6⟩ := ih (s + 1) fuel (by omega) hex'
      refine ⟨idx, ?_, h5, h6⟩
      rw [hfind] at hhead
      simp only [findInsertSlotLoop, hg, findInsertSlotInGroup, hhead]
      exact hrun
    | some b => exact h.loop_stop hc hp hg hv hget hfind fuel

theorem exists_special_step (hc : CfgOk cfg) (hpc : ProbeCovers cfg) (h : FInv cfg t) (hash : Nat) :
    ∃ s, s < t.buckets ∧ ∃ j, j < cfg.W ∧
      isSpecial (t.ctrlAt ((probePos cfg.W cfg.bits t.mask hash s).pos + j)) = true := by
  obtain ⟨i0, hi0, he0⟩ := h.hasEmpty
  obtain ⟨s, hs, hmem⟩ := hpc t hash i0 h.pow hi0
  rw [mem_window_iff] at hmem
  obtain ⟨j, hj, hji⟩ := hmem
  have hn : 0 < t.buckets := by simp [Raw.buckets]
  have := Nat.div_le_self t.buckets cfg.W
  refine ⟨s, by omega, j, hj, ?_⟩
  have hp : (probePos cfg.W cfg.bits t.mask hash s).pos < t.buckets := probePos_lt ..
  rcases h.load_view' hc hp hj with hv | hv
  · rw [hv, hji, he0]; exact isSpecial_EMPTY
  · rw [hv]; exact isSpecial_EMPTY

/-- `find_insert_slot` returns a special real bucket. -/
theorem findInsertSlot_ok (hc : CfgOk cfg) (hp : ProbeCovers cfg) (h : FInv cfg t) (hash : Nat) :
    ∃ idx, findInsertSlot cfg t hash = .ok idx ∧ idx < t.buckets ∧
      isSpecial (t.ctrlAt idx) = true := by
  obtain ⟨s0, hs0, hex⟩ := h.exists_special_step hc hp hash
  have hex' : ∃ j, j < cfg.W ∧
      isSpecial (t.ctrlAt ((probePos cfg.W cfg.bits t.mask hash (0 + s0)).pos + j)) = true := by
    rw [Nat.zero_add]; exact hex
  exact h.loop_first hc hash s0 0 (probeFuel t)
    (by simp only [probeFuel, Raw.buckets] at *; omega) hex'

end FInv

/-! ### `RInv` gives `FInv` -/

theorem countCtrl_live_empty (hv : ∀ i, i < t.buckets → ValidCtrl (t.ctrlAt i)) :
    t.countCtrl isLive + t.countCtrl (· == EMPTY) = t.buckets := by
  rw [countCtrl_isLive]
  have := countP_partition3 (fun i => isFull (t.ctrlAt i)) (fun i => t.ctrlAt i == DELETED)
    (fun i => t.ctrlAt i == EMPTY) (List.range t.buckets)
    (fun a ha => validCtrl_tri (hv a (List.mem_range.mp ha)))
  simpa [Raw.countCtrl] using this

theorem RInv.finv (h : RInv cfg t) : FInv cfg t := by
  refine ⟨h.struct, h.alloc, ?_⟩
  have hsz := h.allocated.2.2.1
  have h2 := countCtrl_live_empty (t := t) (fun i hi => h.struct.valid i (by omega))
  have h3 := bucketMaskToCapacity_lt_buckets t.mask
  have h1 := h.cap
  have : 0 < t.countCtrl (· == EMPTY) := by simp only [Raw.buckets] at h2; omega
  simp only [Raw.countCtrl, List.countP_pos_iff, List.mem_range] at this
  obtain ⟨i, hi, he⟩ := this
  exact ⟨i, hi, by simpa using he⟩

/-! ### 3. the stored elements under slot moves -/

theorem elems_swap_perm {t t' : Raw} {i j : Nat} {a b : Option Elem} (hi : t.slots[i]? = some a)
    (hj : t.slots[j]? = some b)
    (h : t'.slots = (t.slots.setIfInBounds i b).setIfInBounds j a) :
    List.Perm t'.elems t.elems := by
  have hi' : i < t.slots.size := by
    by_contra hn; rw [Array.getElem?_eq_none (by omega)] at hi; cases hi
  have hj' : j < t.slots.size := by
    by_contra hn; rw [Array.getElem?_eq_none (by omega)] at hj; cases hj
  have ha : t.slots[i] = a := by
    rw [Array.getElem?_eq_getElem hi'] at hi; exact Option.some.inj hi
  have hb : t.slots[j] = b := by
    rw [Array.getElem?_eq_getElem hj'] at hj; exact Option.some.inj hj
  have hsw : t'.slots = t.slots.swap i j hi' hj' := by
    subst ha; subst hb
    rw [h, Array.swap_def]
    simp [Array.setIfInBounds, hi', hj']
  have := Array.swap_perm (xs := t.slots) hi' hj'
  rw [Array.perm_iff_toList_perm] at this
  rw [Raw.elems, Raw.elems, hsw]
  exact this.filterMap id

theorem elems_take_perm {t t' : Raw} {i : Nat} {e : Elem} (hi : t.slots[i]? = some (some e))
    (h : t'.slots = t.slots.setIfInBounds i none) :
    List.Perm (e :: t'.elems) t.elems := by
  have hi' : i < t.slots.size := by
    by_contra hn; rw [Array.getElem?_eq_none (by omega)] at hi; cases hi
  have he : t.slots.toList[i]'(by simpa using hi') = some e := by
    rw [Array.getElem?_eq_getElem hi'] at hi
    simpa using Option.some.inj hi
  have hl : i < t.slots.toList.length := by simpa using hi'
  have e1 : t.slots.toList = t.slots.toList.take i ++ some e :: t.slots.toList.drop (i + 1) := by
    rw [← he, List.getElem_cons_drop, List.take_append_drop]
  have e2 : t'.slots.toList = t.slots.toList.take i ++ none :: t.slots.toList.drop (i + 1) := by
    rw [h, Array.toList_setIfInBounds, List.set_eq_take_append_cons_drop, if_pos hl]
  rw [Raw.elems, Raw.elems, e2]
  conv => rhs; rw [e1]
  simp only [List.filterMap_append, List.filterMap_cons, id]
  exact List.perm_middle.symm

/-! ### 5. basic steps under `RInv` -/

theorem setCtrl_full (hc : CfgOk cfg) (h : StructInv cfg t) (ha : t.alloc = true) {i : Nat}
    (hi : i < t.buckets) {c : Nat} (hv : ValidCtrl c) :
    ∃ t', setCtrl cfg t i c = .ok t' ∧ StructInv cfg t' ∧ t'.mask = t.mask ∧ t'.slots = t.slots ∧
      t'.items = t.items ∧ t'.gl = t.gl ∧ t'.alloc = true ∧
      (∀ j, j < t.buckets → t'.ctrlAt j = if j = i then c else t.ctrlAt j) ∧
      (∀ p : Nat → Bool, t'.countCtrl p + (if p (t.ctrlAt i) then 1 else 0) =
        t.countCtrl p + (if p c then 1 else 0)) := by
  have hall := h.allocated ha
  obtain ⟨t', he, h1, h2, h3, h4, h5, h6, h7⟩ := setCtrl_ok hc hall hi c
  have hb := ctrlAt_bucket hc hall hi h7
  exact ⟨t', he, (h.update hc hall hi hv h1 (by rw [h5, ha]) (by rw [h2]) h6 h7).1, h1, h2, h3, h4,
    by rw [h5, ha], hb, fun p => countCtrl_set c h1 hi hb p⟩

theorem slot_cases (s : Array (Option Elem)) {i : Nat} (hi : i < s.size) :
    (s[i]? = some none ∧ (s[i]?.join).isSome = false) ∨
    (∃ e, s[i]? = some (some e) ∧ (s[i]?.join).isSome = true) := by
  rw [Array.getElem?_eq_getElem hi]
  cases s[i] with
  | none => left; exact ⟨rfl, rfl⟩
  | some e => right; exact ⟨e, rfl, rfl⟩

theorem RInv.slots_size (h : RInv cfg t) : t.slots.size = t.buckets := h.allocated.2.2.2.1

theorem RInv.slot_live (h : RInv cfg t) {i : Nat} (hi : i < t.buckets)
    (hl : isLive (t.ctrlAt i) = true) : ∃ e, t.slots[i]? = some (some e) := by
  have hi' : i < t.slots.size := by rw [h.slots_size]; exact hi
  rcases slot_cases t.slots hi' with ⟨_, h2⟩ | ⟨e, h1, _⟩
  · have := (h.live i hi').mpr hl
    rw [h2] at this; cases this
  · exact ⟨e, h1⟩

theorem RInv.slot_dead (h : RInv cfg t) {i : Nat} (hi : i < t.buckets)
    (hl : isLive (t.ctrlAt i) = false) : t.slots[i]? = some none := by
  have hi' : i < t.slots.size := by rw [h.slots_size]; exact hi
  rcases slot_cases t.slots hi' with ⟨h1, _⟩ | ⟨e, _, h2⟩
  · exact h1
  · have := (h.live i hi').mp h2
    rw [hl] at this; cases this

/-! ### `items` is the number of stored elements -/

theorem length_filterMap_range {α} (l : List (Option α)) :
    ∀ (q : Nat → Bool), (∀ i, i < l.length → (l[i]?.join).isSome = q i) →
      (l.filterMap id).length = (List.range l.length).countP q := by
  induction l with
  | nil => intro q _; rfl
  | cons a l ih =>
    intro q hq
    have h0 := hq 0 (by simp)
    have ih := ih (fun i => q (i + 1)) (fun i hi => by
      have := hq (i + 1) (by simp; omega)
      simpa using this)
    rw [List.length_cons, List.range_succ_eq_map, List.countP_cons, List.countP_map]
    simp only [List.getElem?_cons_zero, Option.join_some] at h0
    cases a with
    | none =>
      simp only [Option.isSome_none] at h0
      show (List.filterMap id l).length = _
      rw [ih, ← h0]
      simp [Function.comp_def]
    | some x =>
      simp only [Option.isSome_some] at h0
      show (List.filterMap id l).length + 1 = _
      rw [ih, ← h0]
      simp [Function.comp_def]

theorem RInv.items_eq_length (h : RInv cfg t) : t.items = t.elems.length := by
  rw [h.items_eq, Raw.elems, Raw.countCtrl,
    length_filterMap_range t.slots.toList (fun i => isLive (t.ctrlAt i))]
  · rw [Array.length_toList, h.slots_size]
  · intro i hi
    rw [Array.length_toList] at hi
    rw [Array.getElem?_toList]
    have := h.live i hi
    cases h1 : (t.slots[i]?.join).isSome <;> cases h2 : isLive (t.ctrlAt i) <;> simp_all

/-! ### from `RInv` back to `Inv` once no bucket is pending -/

theorem RInv.toInv (h : RInv cfg t) (hnd : ∀ j, j < t.buckets → t.ctrlAt j ≠ DELETED) :
    Inv cfg { t with gl := bucketMaskToCapacity t.mask - t.items } ∧
    t.countCtrl (· == DELETED) = 0 ∧ t.items ≤ bucketMaskToCapacity t.mask := by
  have hD : t.countCtrl (· == DELETED) = 0 :=
    countCtrl_eq_zero _ (fun j hj => by simpa using hnd j hj)
  have hF : t.countCtrl isFull = t.items := by
    have := h.items_split; omega
  have hcap : t.items ≤ bucketMaskToCapacity t.mask := by rw [h.items_eq]; exact h.cap
  refine ⟨⟨Or.inr h.allocated, h.struct.valid, h.struct.mirror, hF.symm, fun _ => ?_, ?_, fun _ => hD⟩,
    hD, hcap⟩
  · show bucketMaskToCapacity t.mask - t.items + t.countCtrl isFull + t.countCtrl (· == DELETED) =
      bucketMaskToCapacity t.mask
    omega
  · intro i hi
    show (t.slots[i]?.join).isSome ↔ isFull (t.ctrlAt i) = true
    rw [h.live i hi]
    have hin : i < t.buckets := by rw [← h.slots_size]; exact hi
    have := hnd i hin
    simp only [isLive, Bool.or_eq_true, beq_iff_eq]
    constructor
    · rintro (h1 | h1)
      · exact h1
      · exact absurd h1 this
    · exact Or.inl

/-! ### 6. the unwind guard -/

theorem StructInv.transfer {t t' : Raw} (h : StructInv cfg t) (ha : t.alloc = true)
    (hct : t'.ctrl = t.ctrl) (hm : t'.mask = t.mask) (hal : t'.alloc = true)
    (hss : t'.slots.size = t.slots.size) : StructInv cfg t' := by
  have hb : t'.buckets = t.buckets := by simp only [Raw.buckets_eq, hm]
  have hca : ∀ j, t'.ctrlAt j = t.ctrlAt j := fun j => by simp only [Raw.ctrlAt, hct]
  refine ⟨Or.inr (IsAllocated.transfer (h.allocated ha) hal hm (by rw [hct]) hss), ?_, ?_⟩
  · intro i hi
    rw [hca]; exact h.valid i (by rw [← hct]; exact hi)
  · intro _
    simp only [hca, hb]
    exact h.mirror ha

/-- Log entries written when the elements `ds` are dropped (last dropped first). -/
def dropEvs (cfg : Cfg) (ds : List Elem) : List Ev :=
  if cfg.needsDrop then ds.flatMap (fun e => [Ev.dropV e.vid, Ev.dropK e.kid]) else []

theorem dropEvs_nil (cfg : Cfg) : dropEvs cfg [] = [] := by
  unfold dropEvs; split <;> rfl

theorem dropEvs_append (cfg : Cfg) (a b : List Elem) :
    dropEvs cfg (a ++ b) = dropEvs cfg a ++ dropEvs cfg b := by
  unfold dropEvs; split
  · exact List.flatMap_append
  · rfl

theorem dropElemQuiet_t (w : World) (e : Elem) : (w.dropElemQuiet cfg e).t = w.t := by
  unfold World.dropElemQuiet; split <;> rfl

theorem dropElemQuiet_log (w : World) (e : Elem) :
    (w.dropElemQuiet cfg e).log = dropEvs cfg [e] ++ w.log := by
  unfold World.dropElemQuiet dropEvs; split <;> rfl

/-- One iteration of the guard at a pending bucket. -/
theorem guard_step (hc : CfgOk cfg) (h : RInv cfg t) {i : Nat} (hi : i < t.buckets)
    (hd : t.ctrlAt i = DELETED) :
    ∃ t1 e t2, setCtrl cfg t i EMPTY = .ok t1 ∧ slotTake t1 i = .ok (e, t2) ∧ t2.items ≠ 0 ∧
      RInv cfg { t2 with items := t2.items - 1 } ∧ t2.mask = t.mask ∧
      List.Perm (e :: t2.elems) t.elems ∧
      (∀ j, j < t.buckets → t2.ctrlAt j = if j = i then EMPTY else t.ctrlAt j) := by
  obtain ⟨t1, he, hst, h1, h2, h3, _, h5, h6, h7⟩ :=
    setCtrl_full hc h.struct h.alloc hi (c := EMPTY) (Or.inr (Or.inr rfl))
  obtain ⟨e, hslot⟩ := h.slot_live hi (by rw [hd]; rfl)
  have hcnt := h7 isLive
  rw [hd] at hcnt
  simp only [isLive_DELETED, isLive_EMPTY, if_true, Bool.false_eq_true, if_false] at hcnt
  have hpos := countCtrl_pos hi isLive (by rw [hd]; rfl)
  have hitems := h.items_eq
  refine ⟨t1, e, { t1 with slots := t1.slots.setIfInBounds i none }, he, ?_, ?_, ?_, h1, ?_, h6⟩
  · simp only [slotTake, h2, hslot]
  · show t1.items ≠ 0
    omega
  · have hst' : StructInv cfg
        { t1 with slots := t1.slots.setIfInBounds i none, items := t1.items - 1 } :=
      hst.transfer h5 rfl rfl h5 (by simp)
    refine ⟨hst', h5, ?_, ?_, ?_⟩
    · intro j hj
      have hj' : j < t.slots.size := by simpa [h2] using hj
      have hjn : j < t.buckets := by rw [← h.slots_size]; exact hj'
      show ((t1.slots.setIfInBounds i none)[j]?.join).isSome ↔ isLive (t1.ctrlAt j) = true
      rw [h2, Array.getElem?_setIfInBounds, h6 j hjn]
      by_cases hij : i = j
      · subst hij
        simp [hj', isLive_EMPTY]
      · rw [if_neg hij, if_neg (Ne.symm hij)]
        exact h.live j hj'
    · show t1.items - 1 = t1.countCtrl isLive
      omega
    · show t1.countCtrl isLive ≤ bucketMaskToCapacity t1.mask
      have := h.cap
      rw [h1]; omega
  · exact elems_take_perm (t' := { t1 with slots := t1.slots.setIfInBounds i none }) hslot
      (by simp only [h2])

theorem guard_go_spec (hc : CfgOk cfg) :
    ∀ (fuel i : Nat) (w : World), RInv cfg w.t → i + fuel = w.t.buckets →
      (∀ j, j < i → w.t.ctrlAt j ≠ DELETED) →
      ∃ w' ds, rehashGuard.go cfg i fuel w = .ok w' ∧ RInv cfg w'.t ∧ w'.t.mask = w.t.mask ∧
        (∀ j, j < w.t.buckets → w'.t.ctrlAt j ≠ DELETED) ∧
        List.Perm (w'.t.elems ++ ds) w.t.elems ∧ w'.log = dropEvs cfg ds ++ w.log := by
  intro fuel
  induction fuel with
  | zero =>
    intro i w h hif hlt
    refine ⟨w, [], rfl, h, rfl, fun j hj => hlt j (by omega), by simp, ?_⟩
    rw [dropEvs_nil]; rfl
  | succ fuel ih =>
    intro i w h hif hlt
    have hi : i < w.t.buckets := by omega
    have hsz : i < w.t.ctrl.size := by have := h.allocated.2.2.1; omega
    have hrd := ctrlRd_ok (t := w.t) hsz
    by_cases hd : w.t.ctrlAt i = DELETED
    · obtain ⟨t1, e, t2, hset, htake, hnz, hinv, hm, hperm, hct⟩ := guard_step hc h hi hd
      let w1 : World := ({ w with t := { t2 with items := t2.items - 1 } } : World).dropElemQuiet cfg e
      have hw1t : w1.t = { t2 with items := t2.items - 1 } := dropElemQuiet_t _ _
      have hw1l : w1.log = dropEvs cfg [e] ++ w.log := dropElemQuiet_log _ _
      have hb1 : w1.t.buckets = w.t.buckets := by rw [hw1t]; simp only [Raw.buckets_eq]; rw [hm]
      have hct1 : ∀ j, j < w.t.buckets → w1.t.ctrlAt j = if j = i then EMPTY else w.t.ctrlAt j := by
        intro j hj; rw [hw1t]; exact hct j hj
      obtain ⟨w', ds, hrun, hinv', hm', hnd, hperm', hlog⟩ := ih (i + 1) w1 (by rw [hw1t]; exact hinv)
        (by rw [hb1]; omega)
        (by
          intro j hj
          rw [hct1 j (by omega)]
          by_cases hji : j = i
          · rw [if_pos hji]; decide
          · rw [if_neg hji]; exact hlt j (by omega))
      refine ⟨w', ds ++ [e], ?_, hinv', ?_, ?_, ?_, ?_⟩
      · simp only [rehashGuard.go, hrd, hd, if_true, hset, htake, hnz, if_false]
        exact hrun
      · rw [hm', hw1t]; exact hm
      · intro j hj; exact hnd j (by rw [hb1]; exact hj)
      · have hp1 : List.Perm (w'.t.elems ++ ds) t2.elems := by
          have : w1.t.elems = t2.elems := by rw [hw1t]; rfl
          rw [← this]; exact hperm'
        have : List.Perm (w'.t.elems ++ (ds ++ [e])) (e :: t2.elems) := by
          rw [← List.append_assoc]
          exact (List.perm_append_singleton e _).trans (List.Perm.cons e hp1)
        exact this.trans hperm
      · rw [hlog, hw1l, dropEvs_append, List.append_assoc]
    · obtain ⟨w', ds, hrun, hinv', hm', hnd, hperm', hlog⟩ := ih (i + 1) w h (by omega)
        (by
          intro j hj
          by_cases hji : j = i
          · rw [hji]; exact hd
          · exact hlt j (by omega))
      refine ⟨w', ds, ?_, hinv', hm', hnd, hperm', hlog⟩
      simp only [rehashGuard.go, hrd, hd, if_false]
      exact hrun

/-- The guard never faults on a table satisfying `RInv`.  If it runs its loop (`needsDrop` or the
    repaired guard), the table left behind satisfies `Inv`, holds a sub-multiset of the elements,
    the others (`ds`) have been dropped exactly once; otherwise (0.15.2 and no drop glue) only
    `growth_left` is recomputed. -/
theorem rehashGuard_spec (hc : CfgOk cfg) (w : World) (h : RInv cfg w.t) :
    ∃ w2, rehashGuard cfg w = .ok w2 ∧ w2.t.mask = w.t.mask ∧
      ((cfg.needsDrop = true ∨ cfg.guardAlways = true) →
        Inv cfg w2.t ∧ w2.t.countCtrl (· == DELETED) = 0 ∧ w2.t.items = w2.t.elems.length ∧
        w2.t.items + w2.t.gl = bucketMaskToCapacity w.t.mask ∧
        ∃ ds, List.Perm (w2.t.elems ++ ds) w.t.elems ∧ w2.log = dropEvs cfg ds ++ w.log) ∧
      (¬ (cfg.needsDrop = true ∨ cfg.guardAlways = true) →
        w2 = { w with t := { w.t with gl := bucketMaskToCapacity w.t.mask - w.t.items } }) := by
  by_cases hrun : cfg.needsDrop = true ∨ cfg.guardAlways = true
  · have hrun' : (cfg.needsDrop || cfg.guardAlways) = true := by simpa using hrun
    obtain ⟨w', ds, hgo, hinv, hm, hnd, hperm, hlog⟩ :=
      guard_go_spec hc w.t.buckets 0 w h (by omega) (fun j hj => by omega)
    have hb : w'.t.buckets = w.t.buckets := by simp only [Raw.buckets_eq, hm]
    obtain ⟨hI, hD, hcap⟩ := hinv.toInv (fun j hj => hnd j (by rw [← hb]; exact hj))
    refine ⟨{ w' with t := { w'.t with gl := bucketMaskToCapacity w'.t.mask - w'.t.items } }, ?_, hm,
      fun _ => ⟨hI, hD, hinv.items_eq_length, ?_, ds, hperm, hlog⟩, fun hn => absurd hrun hn⟩
    · simp only [rehashGuard, hrun', if_true, hgo]
      rw [if_neg (by omega)]
    · show w'.t.items + (bucketMaskToCapacity w'.t.mask - w'.t.items) = _
      rw [← hm]; omega
  · have hrun' : (cfg.needsDrop || cfg.guardAlways) = false := by
      cases h1 : cfg.needsDrop <;> cases h2 : cfg.guardAlways <;> simp_all
    have hcap : w.t.items ≤ bucketMaskToCapacity w.t.mask := by rw [h.items_eq]; exact h.cap
    refine ⟨{ w with t := { w.t with gl := bucketMaskToCapacity w.t.mask - w.t.items } }, ?_, rfl,
      fun hr => absurd hr hrun, fun _ => rfl⟩
    simp only [rehashGuard, hrun', Bool.false_eq_true, if_false]
    rw [if_neg (by omega)]

/-! ### 7. the inner loop -/

/-- Progress of the rehash loops: invariant kept, same geometry and `items`, same elements up to
    order, no destructor ran. -/
structure RStep (cfg : Cfg) (w w' : World) : Prop where
  inv : RInv cfg w'.t
  mask : w'.t.mask = w.t.mask
  items : w'.t.items = w.t.items
  perm : List.Perm w'.t.elems w.t.elems
  log : w'.log = w.log

theorem RStep.trans {a b c : World} (h1 : RStep cfg a b) (h2 : RStep cfg b c) : RStep cfg a c :=
  ⟨h2.inv, h2.mask.trans h1.mask, h2.items.trans h1.items, h2.perm.trans h1.perm,
    h2.log.trans h1.log⟩

theorem RStep.buckets {a b : World} (h : RStep cfg a b) : b.t.buckets = a.t.buckets := by
  simp only [Raw.buckets_eq, h.mask]

/-- Outcome of a rehash loop started in `w`: success with `Q`, or a hasher panic after which the
    guard ran on a state `w1` reachable from `w`; never a fault, never an abort. -/
def RPost (cfg : Cfg) (w : World) (Q : World → Prop) : Res World → Prop
  | .ok w' => RStep cfg w w' ∧ Q w'
  | .panic c w2 => c = "hash" ∧ ∃ w1, RStep cfg w w1 ∧ rehashGuard cfg w1 = .ok w2
  | .abort => False
  | .fault _ => False

theorem RPost.trans {w w1 : World} {Q Q1 : World → Prop} {r : Res World} (hs : RStep cfg w w1)
    (hq : ∀ w', Q1 w' → Q w') (h : RPost cfg w1 Q1 r) : RPost cfg w Q r := by
  cases r with
  | ok w' => exact ⟨hs.trans h.1, hq _ h.2⟩
  | panic c w2 =>
    obtain ⟨hc, w3, h3, hg⟩ := h
    exact ⟨hc, w3, hs.trans h3, hg⟩
  | abort => exact h
  | fault f => exact h

theorem tag_facts (bits hash : Nat) :
    ValidCtrl (tagFull bits hash) ∧ isLive (tagFull bits hash) = true ∧
      tagFull bits hash ≠ DELETED ∧ (tagFull bits hash == DELETED) = false := by
  have := tagFull_lt bits hash
  refine ⟨Or.inl this, isLive_of_lt this, ?_, ?_⟩
  · rw [DELETED]; omega
  · simp only [DELETED, beq_eq_false_iff_ne, ne_eq]; omega

theorem delBeq_DELETED : ((DELETED == DELETED) = true) := by decide
theorem delBeq_EMPTY : ((EMPTY == DELETED) = false) := by decide

/-- Branch "already in the right group". -/
theorem inner_same (hc : CfgOk cfg) (h : RInv cfg t) {i : Nat} (hi : i < t.buckets)
    (hd : t.ctrlAt i = DELETED) (hash : Nat) :
    ∃ t', setCtrlHash cfg t i hash = .ok t' ∧ RInv cfg t' ∧ t'.mask = t.mask ∧ t'.items = t.items ∧
      t'.slots = t.slots ∧
      (∀ j, j < t.buckets → t'.ctrlAt j = if j = i then tagFull cfg.bits hash else t.ctrlAt j) := by
  obtain ⟨hv, hl, hne, hbq⟩ := tag_facts cfg.bits hash
  obtain ⟨t', he, hst, h1, h2, h3, _, h5, h6, h7⟩ := setCtrl_full hc h.struct h.alloc hi hv
  have hcnt := h7 isLive
  rw [hd] at hcnt
  simp only [isLive_DELETED, hl, if_true] at hcnt
  refine ⟨t', he, ⟨hst, h5, ?_, ?_, ?_⟩, h1, h3, h2, h6⟩
  · intro j hj
    rw [h2] at hj ⊢
    have hjn : j < t.buckets := by rw [← h.slots_size]; exact hj
    rw [h6 j hjn]
    by_cases hji : j = i
    · rw [if_pos hji, hl, h.live j hj, hji, hd]
      simp [isLive_DELETED]
    · rw [if_neg hji]; exact h.live j hj
  · rw [h3, h.items_eq]; omega
  · rw [h1]; have := h.cap; omega

/-- Branch "target bucket was EMPTY": move the element. -/
theorem inner_move (hc : CfgOk cfg) (h : RInv cfg t) {i ni : Nat} (hi : i < t.buckets)
    (hd : t.ctrlAt i = DELETED) (hni : ni < t.buckets) (hne : ni ≠ i) (hpe : t.ctrlAt ni = EMPTY)
    (hash : Nat) :
    ∃ t1 t2 e t3 t4, setCtrlHash cfg t ni hash = .ok t1 ∧ setCtrl cfg t1 i EMPTY = .ok t2 ∧
      slotTake t2 i = .ok (e, t3) ∧ slotPut t3 ni e = .ok t4 ∧ RInv cfg t4 ∧ t4.mask = t.mask ∧
      t4.items = t.items ∧ List.Perm t4.elems t.elems ∧
      (∀ j, j < t.buckets → t4.ctrlAt j =
        if j = i then EMPTY else if j = ni then tagFull cfg.bits hash else t.ctrlAt j) := by
  obtain ⟨hv, hl, _, _⟩ := tag_facts cfg.bits hash
  obtain ⟨t1, he1, hst1, a1, a2, a3, _, a5, a6, a7⟩ := setCtrl_full hc h.struct h.alloc hni hv
  have hb1 : t1.buckets = t.buckets := by simp only [Raw.buckets_eq, a1]
  obtain ⟨t2, he2, hst2, b1, b2, b3, _, b5, b6, b7⟩ :=
    setCtrl_full hc hst1 a5 (i := i) (by rw [hb1]; exact hi) (c := EMPTY) (Or.inr (Or.inr rfl))
  obtain ⟨e, hslot⟩ := h.slot_live hi (by rw [hd]; rfl)
  have hdead := h.slot_dead hni (by rw [hpe]; rfl)
  have hct : ∀ j, j < t.buckets → t2.ctrlAt j =
      if j = i then EMPTY else if j = ni then tagFull cfg.bits hash else t.ctrlAt j := by
    intro j hj
    rw [b6 j (by rw [hb1]; exact hj)]
    by_cases hji : j = i
    · rw [if_pos hji, if_pos hji]
    · rw [if_neg hji, if_neg hji, a6 j hj]
  have hc1 := a7 isLive
  have hc2 := b7 isLive
  rw [hpe] at hc1
  rw [a6 i hi, if_neg (Ne.symm hne), hd] at hc2
  simp only [isLive_DELETED, isLive_EMPTY, hl, if_true, Bool.false_eq_true, if_false] at hc1 hc2
  have hs2 : t2.slots = t.slots := by rw [b2, a2]
  have hslot3 : (t2.slots.setIfInBounds i none)[ni]? = some none := by
    rw [hs2, Array.getElem?_setIfInBounds, if_neg (Ne.symm hne)]; exact hdead
  let t4 : Raw := { t2 with slots := (t2.slots.setIfInBounds i none).setIfInBounds ni (some e) }
  refine ⟨t1, t2, e, { t2 with slots := t2.slots.setIfInBounds i none }, t4, he1, he2, ?_, ?_,
    ⟨hst2.transfer b5 rfl rfl b5 (by simp [t4]), b5, ?_, ?_, ?_⟩, b1.trans a1, b3.trans a3, ?_, hct⟩
  · simp only [slotTake, hs2, hslot]
  · simp only [slotPut, hslot3]
    rfl
  · intro j hj
    have hj' : j < t.slots.size := by simpa [t4, hs2] using hj
    have hjn : j < t.buckets := by rw [← h.slots_size]; exact hj'
    show (((t2.slots.setIfInBounds i none).setIfInBounds ni (some e))[j]?.join).isSome ↔
      isLive (t2.ctrlAt j) = true
    rw [hct j hjn, hs2, Array.getElem?_setIfInBounds, Array.getElem?_setIfInBounds]
    by_cases hjni : ni = j
    · subst hjni
      simp [hj', hne, hl]
    · rw [if_neg hjni]
      by_cases hji : i = j
      · subst hji
        simp [hj', isLive_EMPTY]
      · rw [if_neg hji, if_neg (Ne.symm hji), if_neg (Ne.symm hjni)]
        exact h.live j hj'
  · show t2.items = t2.countCtrl isLive
    rw [b3, a3, h.items_eq]; omega
  · show t2.countCtrl isLive ≤ bucketMaskToCapacity t2.mask
    rw [b1, a1]; have := h.cap; omega
  · exact elems_swap_perm (t' := t4) (i := i) (j := ni) hslot hdead (by simp only [t4, hs2])

/-- Branch "target bucket holds another pending element": swap, the element now in `i` is still
    pending. -/
theorem inner_swap (hc : CfgOk cfg) (h : RInv cfg t) {i ni : Nat} (hi : i < t.buckets)
    (hd : t.ctrlAt i = DELETED) (hni : ni < t.buckets) (hpd : t.ctrlAt ni = DELETED)
    (hash : Nat) :
    ∃ t1 en ei, setCtrlHash cfg t ni hash = .ok t1 ∧ slotGet t1 ni = .ok en ∧
      slotGet t1 i = .ok ei ∧
      RInv cfg { t1 with slots := (t1.slots.setIfInBounds i (some en)).setIfInBounds ni (some ei) } ∧
      t1.mask = t.mask ∧ t1.items = t.items ∧
      List.Perm (Raw.elems
        { t1 with slots := (t1.slots.setIfInBounds i (some en)).setIfInBounds ni (some ei) }) t.elems ∧
      (∀ j, j < t.buckets → t1.ctrlAt j = if j = ni then tagFull cfg.bits hash else t.ctrlAt j) ∧
      t1.countCtrl (· == DELETED) + 1 = t.countCtrl (· == DELETED) := by
  obtain ⟨hv, hl, _, hbq⟩ := tag_facts cfg.bits hash
  obtain ⟨t1, he1, hst1, a1, a2, a3, _, a5, a6, a7⟩ := setCtrl_full hc h.struct h.alloc hni hv
  obtain ⟨ei, hsi⟩ := h.slot_live hi (by rw [hd]; rfl)
  obtain ⟨en, hsn⟩ := h.slot_live hni (by rw [hpd]; rfl)
  have hc1 := a7 isLive
  have hc2 := a7 (· == DELETED)
  rw [hpd] at hc1 hc2
  simp only [isLive_DELETED, hl, delBeq_DELETED, hbq, if_true, Bool.false_eq_true, if_false] at hc1 hc2
  refine ⟨t1, en, ei, he1, ?_, ?_, ⟨hst1.transfer a5 rfl rfl a5 (by simp), a5, ?_, ?_, ?_⟩, a1, a3, ?_,
    a6, by omega⟩
  · simp only [slotGet, a2, hsn]
  · simp only [slotGet, a2, hsi]
  · intro j hj
    have hj' : j < t.slots.size := by simpa [a2] using hj
    have hjn : j < t.buckets := by rw [← h.slots_size]; exact hj'
    show (((t1.slots.setIfInBounds i (some en)).setIfInBounds ni (some ei))[j]?.join).isSome ↔
      isLive (t1.ctrlAt j) = true
    rw [a6 j hjn, a2, Array.getElem?_setIfInBounds, Array.getElem?_setIfInBounds]
    by_cases hjni : ni = j
    · subst hjni
      simp [hj', hl]
    · rw [if_neg hjni, if_neg (Ne.symm hjni)]
      by_cases hji : i = j
      · subst hji
        simp [hj', hd, isLive_DELETED]
      · rw [if_neg hji]
        exact h.live j hj'
  · show t1.items = t1.countCtrl isLive
    rw [a3, h.items_eq]; omega
  · show t1.countCtrl isLive ≤ bucketMaskToCapacity t1.mask
    rw [a1]; have := h.cap; omega
  · exact elems_swap_perm
      (t' := { t1 with slots := (t1.slots.setIfInBounds i (some en)).setIfInBounds ni (some ei) })
      (i := i) (j := ni) hsi hsn (by simp only [a2])

theorem isInSameGroup_self (bits W mask i hash : Nat) : isInSameGroup bits W mask i i hash = true := by
  simp [isInSameGroup]

theorem countCtrl_le (t : Raw) (p : Nat → Bool) : t.countCtrl p ≤ t.buckets := by
  have := List.countP_le_length (p := fun i => p (t.ctrlAt i)) (l := List.range t.buckets)
  simpa [Raw.countCtrl] using this

/-- Inner loop for the pending bucket `i`: with more fuel than pending buckets it terminates; on
    success bucket `i` is no longer pending and no new bucket became pending. -/
theorem rehashInner_spec (hc : CfgOk cfg) (hp : ProbeCovers cfg) (env : Env) (i : Nat) :
    ∀ (fuel : Nat) (w : World), RInv cfg w.t → i < w.t.buckets → w.t.ctrlAt i = DELETED →
      w.t.countCtrl (· == DELETED) < fuel →
      RPost cfg w (fun w' => ∀ j, j < w.t.buckets → w'.t.ctrlAt j = DELETED →
        w.t.ctrlAt j = DELETED ∧ j ≠ i) (rehashInner cfg env i fuel w) := by
  intro fuel
  induction fuel with
  | zero => intro w _ _ _ hf; omega
  | succ fuel ih =>
    intro w h hi hd hf
    obtain ⟨e, hslot⟩ := h.slot_live hi (by rw [hd]; rfl)
    have hget : slotGet w.t i = .ok e := by simp only [slotGet, hslot]
    have hrefl : RStep cfg w { w with hc := w.hc + 1 } := ⟨h, rfl, rfl, List.Perm.refl _, rfl⟩
    cases hh : env.hash w.hc e.k with
    | none =>
      obtain ⟨w2, hg, _⟩ := rehashGuard_spec hc { w with hc := w.hc + 1 } h
      simp only [rehashInner, hget, World.hashCall, hh, hg]
      exact ⟨rfl, _, hrefl, hg⟩
    | some hash =>
      obtain ⟨ni, hfind, hni, hsp⟩ := h.finv.findInsertSlot_ok hc hp hash
      obtain ⟨_, _, hnD, _⟩ := tag_facts cfg.bits hash
      by_cases hsame : isInSameGroup cfg.bits cfg.W w.t.mask i ni hash = true
      · obtain ⟨t', hset, hinv, hm, hit, hsl, hct⟩ := inner_same hc h hi hd hash
        simp only [rehashInner, hget, World.hashCall, hh, hfind, hsame, if_true, hset]
        refine ⟨⟨hinv, hm, hit, ?_, rfl⟩, ?_⟩
        · show List.Perm t'.elems w.t.elems
          rw [Raw.elems, Raw.elems, hsl]
        · intro j hj hjd
          show w.t.ctrlAt j = DELETED ∧ j ≠ i
          have hjd' : t'.ctrlAt j = DELETED := hjd
          rw [hct j hj] at hjd'
          by_cases hji : j = i
          · rw [if_pos hji] at hjd'; exact absurd hjd' hnD
          · rw [if_neg hji] at hjd'; exact ⟨hjd', hji⟩
      · have hne : ni ≠ i := by
          intro heq; rw [heq, isInSameGroup_self] at hsame; exact hsame rfl
        have hszn : ni < w.t.ctrl.size := by have := h.allocated.2.2.1; omega
        have hrd := ctrlRd_ok (t := w.t) hszn
        have hvn := h.struct.valid ni hszn
        rcases special_cases hvn hsp with hpe | hpd
        · obtain ⟨t1, t2, e', t3, t4, h1, h2, h3, h4, hinv, hm, hit, hperm, hct⟩ :=
            inner_move hc h hi hd hni hne hpe hash
          simp only [rehashInner, hget, World.hashCall, hh, hfind, hsame, Bool.false_eq_true,
            if_false, hrd, h1, hpe, if_true, h2, h3, h4]
          refine ⟨⟨hinv, hm, hit, hperm, rfl⟩, ?_⟩
          intro j hj hjd
          show w.t.ctrlAt j = DELETED ∧ j ≠ i
          have hjd' : t4.ctrlAt j = DELETED := hjd
          rw [hct j hj] at hjd'
          by_cases hji : j = i
          · rw [if_pos hji] at hjd'; exact absurd hjd' (by decide)
          · rw [if_neg hji] at hjd'
            by_cases hjn : j = ni
            · rw [if_pos hjn] at hjd'; exact absurd hjd' hnD
            · rw [if_neg hjn] at hjd'; exact ⟨hjd', hji⟩
        · obtain ⟨t1, en, ei, h1, h2, h3, hinv, hm, hit, hperm, hct, hcnt⟩ :=
            inner_swap hc h hi hd hni hpd hash
          have hpne : ¬ (w.t.ctrlAt ni = EMPTY) := by rw [hpd]; decide
          let w2 : World := { w with hc := w.hc + 1, t :=
            { t1 with slots := (t1.slots.setIfInBounds i (some en)).setIfInBounds ni (some ei) } }
          have hstep : RStep cfg w w2 := ⟨hinv, hm, hit, hperm, rfl⟩
          have hb2 : w2.t.buckets = w.t.buckets := hstep.buckets
          have hct2 : ∀ j, j < w.t.buckets → w2.t.ctrlAt j =
              if j = ni then tagFull cfg.bits hash else w.t.ctrlAt j := hct
          have hcnt2 : w2.t.countCtrl (· == DELETED) + 1 = w.t.countCtrl (· == DELETED) := hcnt
          have hrec := ih w2 hinv (by rw [hb2]; exact hi)
            (by rw [hct2 i hi, if_neg (Ne.symm hne)]; exact hd) (by omega)
          simp only [rehashInner, hget, World.hashCall, hh, hfind, hsame, Bool.false_eq_true,
            if_false, hrd, h1, hpne, h2, h3]
          refine RPost.trans hstep ?_ hrec
          intro w' hq j hj hjd
          obtain ⟨hq1, hq2⟩ := hq j (by rw [hb2]; exact hj) hjd
          rw [hct2 j hj] at hq1
          by_cases hjn : j = ni
          · rw [if_pos hjn] at hq1; exact absurd hq1 hnD
          · rw [if_neg hjn] at hq1; exact ⟨hq1, hq2⟩

/-! ### 8. the outer loop and `rehash_in_place` -/

theorem RStep.refl {w : World} (h : RInv cfg w.t) : RStep cfg w w :=
  ⟨h, rfl, rfl, List.Perm.refl _, rfl⟩

/-- Outer loop from bucket `i` on, nothing pending below `i`: on success nothing is pending. -/
theorem rehashOuter_spec (hc : CfgOk cfg) (hp : ProbeCovers cfg) (env : Env) :
    ∀ (fuel i : Nat) (w : World), RInv cfg w.t → i + fuel = w.t.buckets →
      (∀ j, j < i → w.t.ctrlAt j ≠ DELETED) →
      RPost cfg w (fun w' => ∀ j, j < w.t.buckets → w'.t.ctrlAt j ≠ DELETED)
        (rehashOuter cfg env fuel i w) := by
  intro fuel
  induction fuel with
  | zero =>
    intro i w h hif hlt
    exact ⟨RStep.refl h, fun j hj => hlt j (by omega)⟩
  | succ fuel ih =>
    intro i w h hif hlt
    have hi : i < w.t.buckets := by omega
    have hsz : i < w.t.ctrl.size := by have := h.allocated.2.2.1; omega
    have hrd := ctrlRd_ok (t := w.t) hsz
    by_cases hd : w.t.ctrlAt i = DELETED
    · have hin := rehashInner_spec hc hp env i (w.t.buckets + 1) w h hi hd
        (by have := countCtrl_le w.t (· == DELETED); omega)
      cases hr : rehashInner cfg env i (w.t.buckets + 1) w with
      | ok w' =>
        rw [hr] at hin
        obtain ⟨hstep, hq⟩ := hin
        have hb := hstep.buckets
        have hrec := ih (i + 1) w' hstep.inv (by rw [hb]; omega)
          (by
            intro j hj hjd
            obtain ⟨h1, h2⟩ := hq j (by omega) hjd
            exact hlt j (by omega) h1)
        simp only [rehashOuter, hrd, hd, if_true, hr]
        exact RPost.trans hstep (fun w'' hq'' j hj => hq'' j (by rw [hb]; exact hj)) hrec
      | panic c w2 =>
        rw [hr] at hin
        simp only [rehashOuter, hrd, hd, if_true, hr]
        exact hin
      | abort => rw [hr] at hin; exact hin.elim
      | fault f => rw [hr] at hin; exact hin.elim
    · have hrec := ih (i + 1) w h (by omega)
        (by
          intro j hj
          by_cases hji : j = i
          · rw [hji]; exact hd
          · exact hlt j (by omega))
      simp only [rehashOuter, hrd, hd, if_false]
      exact hrec

/-- **`rehash_in_place`.**  From a well-formed allocated table, for every environment: no undefined
    behaviour, no abort.  On success all tombstones are reclaimed, the elements are the same (up to
    bucket order), nothing was dropped or allocated.  On a hasher panic, if the guard loop runs
    (`needs_drop::<T>()`, or the repaired guard), the table is well-formed again and every element
    is either still stored or was dropped exactly once (`ds`); with the 0.15.2 guard and an element
    type without drop glue only `growth_left` is recomputed: nothing is lost, but the table is in
    general not well-formed (see `rehash_guard_defect_witness`). -/
theorem rehashInPlace_spec (hc : CfgOk cfg) (hp : ProbeCovers cfg) (env : Env) (w : World)
    (h : Inv cfg w.t) (ha : w.t.alloc = true) :
    match rehashInPlace cfg env w with
    | .ok w' =>
      Inv cfg w'.t ∧ w'.t.mask = w.t.mask ∧ w'.t.items = w.t.items ∧
      w'.t.countCtrl (· == DELETED) = 0 ∧
      w'.t.items + w'.t.gl = bucketMaskToCapacity w.t.mask ∧
      List.Perm w'.t.elems w.t.elems ∧ w'.log = w.log
    | .panic c w' =>
      c = "hash" ∧ w'.t.mask = w.t.mask ∧
      ((cfg.needsDrop = true ∨ cfg.guardAlways = true) →
        Inv cfg w'.t ∧ w'.t.countCtrl (· == DELETED) = 0 ∧ w'.t.items = w'.t.elems.length ∧
        w'.t.items + w'.t.gl = bucketMaskToCapacity w.t.mask ∧
        ∃ ds, List.Perm (w'.t.elems ++ ds) w.t.elems ∧ w'.log = dropEvs cfg ds ++ w.log) ∧
      (¬ (cfg.needsDrop = true ∨ cfg.guardAlways = true) →
        List.Perm w'.t.elems w.t.elems ∧ w'.log = w.log ∧ w'.t.items = w.t.items)
    | .abort => False
    | .fault _ => False := by
  obtain ⟨t1, hprep, hm1, hs1, hi1, _, _, _, _, hinv1⟩ := prepareRehashInPlace_spec hc h ha
  have hout := rehashOuter_spec hc hp env t1.buckets 0 { w with t := t1 } hinv1 (by simp)
    (fun j hj => by omega)
  have he1 : t1.elems = w.t.elems := by rw [Raw.elems, Raw.elems, hs1]
  cases hr : rehashOuter cfg env t1.buckets 0 { w with t := t1 } with
  | ok w' =>
    rw [hr] at hout
    obtain ⟨hstep, hq⟩ := hout
    obtain ⟨hI, hD, hcap⟩ := hstep.inv.toInv (fun j hj => hq j (by rw [← hstep.buckets]; exact hj))
    have hres : rehashInPlace cfg env w =
        .ok { w' with t := { w'.t with gl := bucketMaskToCapacity w'.t.mask - w'.t.items } } := by
      simp only [rehashInPlace, hprep, hr]
      rw [if_neg (by omega)]
    rw [hres]
    have hm : w'.t.mask = w.t.mask := hstep.mask.trans hm1
    refine ⟨hI, hm, hstep.items.trans hi1, hD, ?_, ?_, hstep.log⟩
    · show w'.t.items + (bucketMaskToCapacity w'.t.mask - w'.t.items) = _
      rw [← hm]; omega
    · show List.Perm w'.t.elems w.t.elems
      rw [← he1]; exact hstep.perm
  | panic c w2 =>
    rw [hr] at hout
    obtain ⟨hcl, w1, hstep, hg⟩ := hout
    have hres : rehashInPlace cfg env w = .panic c w2 := by
      simp only [rehashInPlace, hprep, hr]
    rw [hres]
    obtain ⟨w2', hg', hm2, hrun, hnorun⟩ := rehashGuard_spec hc w1 hstep.inv
    rw [hg] at hg'
    cases hg'
    have hm : w1.t.mask = w.t.mask := hstep.mask.trans hm1
    have hpe : List.Perm w1.t.elems w.t.elems := by rw [← he1]; exact hstep.perm
    refine ⟨hcl, hm2.trans hm, fun hrn => ?_, fun hrn => ?_⟩
    · obtain ⟨a1, a2, a3, a4, ds, a5, a6⟩ := hrun hrn
      refine ⟨a1, a2, a3, by rw [a4, hm], ds, a5.trans hpe, ?_⟩
      rw [a6, hstep.log]
    · have := hnorun hrn
      subst this
      exact ⟨hpe, hstep.log, hstep.items.trans hi1⟩
  | abort => rw [hr] at hout; exact hout.elim
  | fault f => rw [hr] at hout; exact hout.elim

theorem rehashInPlace_no_fault (hc : CfgOk cfg) (hp : ProbeCovers cfg) (env : Env) (w : World)
    (h : Inv cfg w.t) (ha : w.t.alloc = true) :
    (∀ f, rehashInPlace cfg env w ≠ .fault f) ∧ rehashInPlace cfg env w ≠ .abort := by
  have := rehashInPlace_spec hc hp env w h ha
  refine ⟨fun f hf => ?_, fun hf => ?_⟩ <;> rw [hf] at this <;> exact this

/-- The panic outcome with a running guard, element-wise: nothing new appears, every old element is
    kept or dropped (and the multiset count is exact: `w'.t.elems ++ ds` is a permutation of the
    old elements, so nothing is dropped twice or dropped and kept). -/
theorem rehashInPlace_panic_elems (hc : CfgOk cfg) (hp : ProbeCovers cfg) (env : Env) (w : World)
    (h : Inv cfg w.t) (ha : w.t.alloc = true) {c : String} {w' : World}
    (hr : rehashInPlace cfg env w = .panic c w')
    (hrun : cfg.needsDrop = true ∨ cfg.guardAlways = true) :
    c = "hash" ∧ Inv cfg w'.t ∧ w'.t.items = w'.t.elems.length ∧
    (∀ e, e ∈ w'.t.elems → e ∈ w.t.elems) ∧
    ∃ ds, (∀ e, e ∈ w.t.elems → e ∈ w'.t.elems ∨ e ∈ ds) ∧ (∀ e, e ∈ ds → e ∈ w.t.elems) ∧
      w'.t.elems.length + ds.length = w.t.elems.length ∧ w'.log = dropEvs cfg ds ++ w.log := by
  have := rehashInPlace_spec hc hp env w h ha
  rw [hr] at this
  obtain ⟨hcl, _, hrn, _⟩ := this
  obtain ⟨a1, _, a3, _, ds, a5, a6⟩ := hrn hrun
  refine ⟨hcl, a1, a3, fun e he => a5.subset (List.mem_append_left _ he), ds, fun e he => ?_,
    fun e he => a5.subset (List.mem_append_right _ he), ?_, a6⟩
  · exact List.mem_append.mp (a5.symm.subset he)
  · rw [← List.length_append]; exact a5.length_eq

#print axioms prepareRehashInPlace_spec
#print axioms rehashGuard_spec
#print axioms rehashInner_spec
#print axioms rehashOuter_spec
#print axioms rehashInPlace_spec
#print axioms rehashInPlace_panic_elems
#print axioms rehash_guard_defect_witness
#print axioms rehash_guard_fixed_witness

end Hb
