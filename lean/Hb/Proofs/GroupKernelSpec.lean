/-
`generic_groupSpec` re-derived from the kernel-only word-trick lemmas of
`Hb/Proofs/GroupKernel.lean` (`bv_*_k`, `mask_form_k`) instead of the `bv_decide` ones of
`Hb/Proofs/Group.lean`.  The derivation is the one of Group.lean §3–§4 with the lemma names
replaced; the helper lemmas of Group.lean that do not depend on `bv_decide` are reused.

Main results: `generic_groupSpec_k`, `generic_matchTag_false_positive_k` and the per-field versions
`generic_*_spec_k`, `generic_tagSorted_k`, `generic_tagComplete_k`, `generic_tagSound_k`.
Their axioms are a subset of `propext`, `Classical.choice`, `Quot.sound` (no `bv_decide` axiom).
The first section checks that each `_k` lemma has literally the type of its `bv_decide` twin.
-/
import Hb.Proofs.GroupKernel
namespace Hb

/-! ### the `_k` lemmas state exactly what the `bv_decide` lemmas state -/

example : type_of% @bv_matchEmpty := @bv_matchEmpty_k
example : type_of% @bv_matchSpecial := @bv_matchSpecial_k
example : type_of% @bv_matchFull := @bv_matchFull_k
example : type_of% @bv_convert := @bv_convert_k
example : type_of% @mask_form := @mask_form_k
example : type_of% @bv_tag_inMask := @bv_tag_inMask_k
example : type_of% @bv_tag_complete := @bv_tag_complete_k
example : type_of% @bv_tag_sound := @bv_tag_sound_k

/-! ### the portable scanner against the specification -/

namespace Generic

theorem matchEmptyWord_load_k (b0 b1 b2 b3 b4 b5 b6 b7 : Nat)
    (h : ∀ b ∈ [b0, b1, b2, b3, b4, b5, b6, b7], ValidCtrl b) :
    matchEmptyWord (load [b0, b1, b2, b3, b4, b5, b6, b7]) =
      maskOf (b0 == EMPTY) (b1 == EMPTY) (b2 == EMPTY) (b3 == EMPTY) (b4 == EMPTY) (b5 == EMPTY)
        (b6 == EMPTY) (b7 == EMPTY) := by
  have h0 := h b0 (by simp); have h1 := h b1 (by simp); have h2 := h b2 (by simp)
  have h3 := h b3 (by simp); have h4 := h b4 (by simp); have h5 := h b5 (by simp)
  have h6 := h b6 (by simp); have h7 := h b7 (by simp)
  rw [load_eq, bv_matchEmpty_k _ _ _ _ _ _ _ _ (vb_of_valid h0) (vb_of_valid h1) (vb_of_valid h2)
    (vb_of_valid h3) (vb_of_valid h4) (vb_of_valid h5) (vb_of_valid h6) (vb_of_valid h7),
    byte_beq_empty (valid_lt h0), byte_beq_empty (valid_lt h1), byte_beq_empty (valid_lt h2),
    byte_beq_empty (valid_lt h3), byte_beq_empty (valid_lt h4), byte_beq_empty (valid_lt h5),
    byte_beq_empty (valid_lt h6), byte_beq_empty (valid_lt h7)]

end Generic

theorem generic_matchEmpty_spec_k (g : List Nat) (h : ValidGroup 8 g) :
    Generic.ops.matchEmpty g = Spec.matchEmpty g := by
  obtain ⟨b0, b1, b2, b3, b4, b5, b6, b7, rfl⟩ := list8 g h.1
  show BitMask.lanes 64 8 (Generic.matchEmptyWord (Generic.load _)).toNat = _
  rw [Generic.matchEmptyWord_load_k _ _ _ _ _ _ _ _ h.2]
  exact (generic_mask (· == EMPTY) b0 b1 b2 b3 b4 b5 b6 b7).2

theorem generic_lz_spec_k (g : List Nat) (h : ValidGroup 8 g) :
    Generic.ops.emptyLeadingZeros g = Spec.emptyLeadingZeros g := by
  obtain ⟨b0, b1, b2, b3, b4, b5, b6, b7, rfl⟩ := list8 g h.1
  show BitMask.lz 64 (Generic.matchEmptyWord (Generic.load _)).toNat / 8 = _
  rw [Generic.matchEmptyWord_load_k _ _ _ _ _ _ _ _ h.2, maskOf_toNat,
    lz_spread _ (natOf_lt _ _ _ _ _ _ _ _)]
  exact lz_of_lanes 8 _ _ rfl (generic_mask (· == EMPTY) b0 b1 b2 b3 b4 b5 b6 b7).1

theorem generic_tz_spec_k (g : List Nat) (h : ValidGroup 8 g) :
    Generic.ops.emptyTrailingZeros g = Spec.emptyTrailingZeros g := by
  obtain ⟨b0, b1, b2, b3, b4, b5, b6, b7, rfl⟩ := list8 g h.1
  show BitMask.tz 64 (Generic.matchEmptyWord (Generic.load _)).toNat / 8 = _
  rw [Generic.matchEmptyWord_load_k _ _ _ _ _ _ _ _ h.2, maskOf_toNat,
    tz_spread _ (natOf_lt _ _ _ _ _ _ _ _)]
  exact tz_of_lanes 8 _ _ rfl (generic_mask (· == EMPTY) b0 b1 b2 b3 b4 b5 b6 b7).1

theorem generic_matchSpecial_spec_k (g : List Nat) (h : ValidGroup 8 g) :
    Generic.ops.matchSpecial g = Spec.matchSpecial g := by
  obtain ⟨b0, b1, b2, b3, b4, b5, b6, b7, rfl⟩ := list8 g h.1
  have h0 := valid_lt (h.2 b0 (by simp)); have h1 := valid_lt (h.2 b1 (by simp))
  have h2 := valid_lt (h.2 b2 (by simp)); have h3 := valid_lt (h.2 b3 (by simp))
  have h4 := valid_lt (h.2 b4 (by simp)); have h5 := valid_lt (h.2 b5 (by simp))
  have h6 := valid_lt (h.2 b6 (by simp)); have h7 := valid_lt (h.2 b7 (by simp))
  show BitMask.lanes 64 8 (Generic.matchSpecialWord (Generic.load _)).toNat = _
  rw [load_eq, bv_matchSpecial_k, byte_msb h0, byte_msb h1, byte_msb h2, byte_msb h3, byte_msb h4,
    byte_msb h5, byte_msb h6, byte_msb h7]
  exact (generic_mask isSpecial b0 b1 b2 b3 b4 b5 b6 b7).2

theorem generic_matchFull_spec_k (g : List Nat) (h : ValidGroup 8 g) :
    Generic.ops.matchFull g = Spec.matchFull g := by
  obtain ⟨b0, b1, b2, b3, b4, b5, b6, b7, rfl⟩ := list8 g h.1
  have h0 := valid_lt (h.2 b0 (by simp)); have h1 := valid_lt (h.2 b1 (by simp))
  have h2 := valid_lt (h.2 b2 (by simp)); have h3 := valid_lt (h.2 b3 (by simp))
  have h4 := valid_lt (h.2 b4 (by simp)); have h5 := valid_lt (h.2 b5 (by simp))
  have h6 := valid_lt (h.2 b6 (by simp)); have h7 := valid_lt (h.2 b7 (by simp))
  show BitMask.lanes 64 8 (Generic.matchFullWord (Generic.load _)).toNat = _
  rw [load_eq, bv_matchFull_k, byte_not_msb h0, byte_not_msb h1, byte_not_msb h2, byte_not_msb h3,
    byte_not_msb h4, byte_not_msb h5, byte_not_msb h6, byte_not_msb h7]
  exact (generic_mask isFull b0 b1 b2 b3 b4 b5 b6 b7).2

/-! ### convert -/

theorem generic_convert_spec_k (g : List Nat) (h : ValidGroup 8 g) :
    Generic.ops.convert g = Spec.convert g := by
  obtain ⟨b0, b1, b2, b3, b4, b5, b6, b7, rfl⟩ := list8 g h.1
  have h0 := valid_lt (h.2 b0 (by simp)); have h1 := valid_lt (h.2 b1 (by simp))
  have h2 := valid_lt (h.2 b2 (by simp)); have h3 := valid_lt (h.2 b3 (by simp))
  have h4 := valid_lt (h.2 b4 (by simp)); have h5 := valid_lt (h.2 b5 (by simp))
  have h6 := valid_lt (h.2 b6 (by simp)); have h7 := valid_lt (h.2 b7 (by simp))
  show Generic.store (Generic.convertWord (Generic.load _)) = _
  rw [load_eq, bv_convert_k, store_pack, conv_byte h0, conv_byte h1, conv_byte h2, conv_byte h3,
    conv_byte h4, conv_byte h5, conv_byte h6, conv_byte h7]
  rfl

/-! ### matchTag -/

theorem lanes_tagWord_k (c0 c1 c2 c3 c4 c5 c6 c7 t : BitVec 8) :
    BitMask.lanes 64 8 (tagWord c0 c1 c2 c3 c4 c5 c6 c7 t).toNat =
      (List.range 8).filter (fun i => (tagBits c0 c1 c2 c3 c4 c5 c6 c7 t).getD i false) := by
  have hm := mask_form_k _ (bv_tag_inMask_k c0 c1 c2 c3 c4 c5 c6 c7 t)
  have := lanes_maskOf ((tagWord c0 c1 c2 c3 c4 c5 c6 c7 t).getLsbD 7)
    ((tagWord c0 c1 c2 c3 c4 c5 c6 c7 t).getLsbD 15) ((tagWord c0 c1 c2 c3 c4 c5 c6 c7 t).getLsbD 23)
    ((tagWord c0 c1 c2 c3 c4 c5 c6 c7 t).getLsbD 31) ((tagWord c0 c1 c2 c3 c4 c5 c6 c7 t).getLsbD 39)
    ((tagWord c0 c1 c2 c3 c4 c5 c6 c7 t).getLsbD 47) ((tagWord c0 c1 c2 c3 c4 c5 c6 c7 t).getLsbD 55)
    ((tagWord c0 c1 c2 c3 c4 c5 c6 c7 t).getLsbD 63)
  rw [← hm] at this
  exact this

theorem tag_complete_list_k (c0 c1 c2 c3 c4 c5 c6 c7 t : BitVec 8) : ∀ i, i < 8 →
    [c0, c1, c2, c3, c4, c5, c6, c7].getD i 0#8 = t →
    (tagBits c0 c1 c2 c3 c4 c5 c6 c7 t).getD i false = true := by
  obtain ⟨h0, h1, h2, h3, h4, h5, h6, h7⟩ := bv_tag_complete_k c0 c1 c2 c3 c4 c5 c6 c7 t
  intro i hi
  match i, hi with
  | 0, _ => exact h0
  | 1, _ => exact h1
  | 2, _ => exact h2
  | 3, _ => exact h3
  | 4, _ => exact h4
  | 5, _ => exact h5
  | 6, _ => exact h6
  | 7, _ => exact h7

theorem tag_sound_list_k (c0 c1 c2 c3 c4 c5 c6 c7 t : BitVec 8) : ∀ i, i < 8 →
    (tagBits c0 c1 c2 c3 c4 c5 c6 c7 t).getD i false = true →
    [c0, c1, c2, c3, c4, c5, c6, c7].getD i 0#8 = t ∨
    ([c0, c1, c2, c3, c4, c5, c6, c7].getD i 0#8 = t ^^^ 1#8 ∧
      ∃ j, j < i ∧ [c0, c1, c2, c3, c4, c5, c6, c7].getD j 0#8 = t) := by
  obtain ⟨h0, h1, h2, h3, h4, h5, h6, h7⟩ := bv_tag_sound_k c0 c1 c2 c3 c4 c5 c6 c7 t
  intro i hi
  match i, hi with
  | 0, _ => exact fun hs => Or.inl (h0 hs)
  | 1, _ =>
    intro hs
    rcases h1 hs with h | ⟨a, h⟩
    · exact Or.inl h
    · exact Or.inr ⟨a, 0, by omega, h⟩
  | 2, _ =>
    intro hs
    rcases h2 hs with h | ⟨a, h | h⟩
    · exact Or.inl h
    · exact Or.inr ⟨a, 0, by omega, h⟩
    · exact Or.inr ⟨a, 1, by omega, h⟩
  | 3, _ =>
    intro hs
    rcases h3 hs with h | ⟨a, h | h | h⟩
    · exact Or.inl h
    · exact Or.inr ⟨a, 0, by omega, h⟩
    · exact Or.inr ⟨a, 1, by omega, h⟩
    · exact Or.inr ⟨a, 2, by omega, h⟩
  | 4, _ =>
    intro hs
    rcases h4 hs with h | ⟨a, h | h | h | h⟩
    · exact Or.inl h
    · exact Or.inr ⟨a, 0, by omega, h⟩
    · exact Or.inr ⟨a, 1, by omega, h⟩
    · exact Or.inr ⟨a, 2, by omega, h⟩
    · exact Or.inr ⟨a, 3, by omega, h⟩
  | 5, _ =>
    intro hs
    rcases h5 hs with h | ⟨a, h | h | h | h | h⟩
    · exact Or.inl h
    · exact Or.inr ⟨a, 0, by omega, h⟩
    · exact Or.inr ⟨a, 1, by omega, h⟩
    · exact Or.inr ⟨a, 2, by omega, h⟩
    · exact Or.inr ⟨a, 3, by omega, h⟩
    · exact Or.inr ⟨a, 4, by omega, h⟩
  | 6, _ =>
    intro hs
    rcases h6 hs with h | ⟨a, h | h | h | h | h | h⟩
    · exact Or.inl h
    · exact Or.inr ⟨a, 0, by omega, h⟩
    · exact Or.inr ⟨a, 1, by omega, h⟩
    · exact Or.inr ⟨a, 2, by omega, h⟩
    · exact Or.inr ⟨a, 3, by omega, h⟩
    · exact Or.inr ⟨a, 4, by omega, h⟩
    · exact Or.inr ⟨a, 5, by omega, h⟩
  | 7, _ =>
    intro hs
    rcases h7 hs with h | ⟨a, h | h | h | h | h | h | h⟩
    · exact Or.inl h
    · exact Or.inr ⟨a, 0, by omega, h⟩
    · exact Or.inr ⟨a, 1, by omega, h⟩
    · exact Or.inr ⟨a, 2, by omega, h⟩
    · exact Or.inr ⟨a, 3, by omega, h⟩
    · exact Or.inr ⟨a, 4, by omega, h⟩
    · exact Or.inr ⟨a, 5, by omega, h⟩
    · exact Or.inr ⟨a, 6, by omega, h⟩

/-- The lanes reported by the portable `match_tag`, as a filter on the lane bits. -/
theorem generic_matchTag_eq_k (b0 b1 b2 b3 b4 b5 b6 b7 t : Nat) :
    Generic.ops.matchTag [b0, b1, b2, b3, b4, b5, b6, b7] t =
      (List.range 8).filter (fun i => (tagBits (byte b0) (byte b1) (byte b2) (byte b3) (byte b4)
        (byte b5) (byte b6) (byte b7) (byte t)).getD i false) := by
  show BitMask.lanes 64 8 (Generic.matchTagWord (Generic.load _) t).toNat = _
  rw [load_eq, matchTagWord_pack, lanes_tagWord_k]

theorem generic_tagSorted_k (g : List Nat) (t : Nat) (h : ValidGroup 8 g) :
    (Generic.ops.matchTag g t).Pairwise (· < ·) := by
  obtain ⟨b0, b1, b2, b3, b4, b5, b6, b7, rfl⟩ := list8 g h.1
  rw [generic_matchTag_eq_k]
  exact List.Pairwise.filter _ List.pairwise_lt_range

theorem generic_tagComplete_k (g : List Nat) (t : Nat) (h : ValidGroup 8 g) :
    ∀ i, i < 8 → g.getD i 0 = t → i ∈ Generic.ops.matchTag g t := by
  obtain ⟨b0, b1, b2, b3, b4, b5, b6, b7, rfl⟩ := list8 g h.1
  intro i hi hb
  rw [generic_matchTag_eq_k, List.mem_filter]
  refine ⟨List.mem_range.2 hi, ?_⟩
  apply tag_complete_list_k _ _ _ _ _ _ _ _ _ i hi
  rw [bytes_getD _ _ _ _ _ _ _ _ i hi, hb]

theorem generic_tagSound_k (g : List Nat) (t : Nat) (h : ValidGroup 8 g) (ht : t < 128) :
    ∀ i ∈ Generic.ops.matchTag g t, i < 8 ∧
      (g.getD i 0 = t ∨ (g.getD i 0 = t ^^^ 1 ∧ ∃ j, j < i ∧ g.getD j 0 = t)) := by
  have hx : t ^^^ 1 < 256 :=
    Nat.lt_trans (Nat.xor_lt_two_pow (n := 7) ht (by decide)) (by decide)
  have hv := valid_getD h
  obtain ⟨b0, b1, b2, b3, b4, b5, b6, b7, rfl⟩ := list8 g h.1
  intro i hi
  rw [generic_matchTag_eq_k, List.mem_filter] at hi
  have hi8 := List.mem_range.1 hi.1
  refine ⟨hi8, ?_⟩
  rcases tag_sound_list_k _ _ _ _ _ _ _ _ _ i hi8 hi.2 with hc | ⟨hc, j, hj, hcj⟩
  · rw [bytes_getD _ _ _ _ _ _ _ _ i hi8] at hc
    exact Or.inl (byte_inj (valid_lt (hv i hi8)) (by omega) hc)
  · rw [bytes_getD _ _ _ _ _ _ _ _ i hi8, ← byte_xor_one] at hc
    rw [bytes_getD _ _ _ _ _ _ _ _ j (by omega)] at hcj
    exact Or.inr ⟨byte_inj (valid_lt (hv i hi8)) hx hc, j, hj,
      byte_inj (valid_lt (hv j (by omega))) (by omega) hcj⟩

/-! ### the `GroupSpec` structure and the false-positive theorem (C18), kernel-only -/

/-- The false positives of the portable `match_tag` (property C18): a reported lane that does not
    hold the tag holds `tag ^ 1`, and some lower lane holds the tag. -/
theorem generic_matchTag_false_positive_k : ∀ g t, ValidGroup 8 g → t < 128 →
    ∀ i ∈ Generic.ops.matchTag g t, g.getD i 0 ≠ t →
      (g.getD i 0 = t ^^^ 1 ∧ ∃ j, j < i ∧ g.getD j 0 = t) := by
  intro g t h ht i hi hne
  rcases (generic_tagSound_k g t h ht i hi).2 with h1 | h1
  · exact absurd h1 hne
  · exact h1

theorem generic_groupSpec_k : GroupSpec Generic.ops where
  width := Or.inl rfl
  matchEmpty := generic_matchEmpty_spec_k
  matchSpecial := generic_matchSpecial_spec_k
  matchFull := generic_matchFull_spec_k
  lz := generic_lz_spec_k
  tz := generic_tz_spec_k
  convert := generic_convert_spec_k
  tagSorted := fun g t h _ => generic_tagSorted_k g t h
  tagComplete := fun g t h _ => generic_tagComplete_k g t h
  tagSound := fun g t h ht => generic_tagSound_k g t h ht

example : type_of% @generic_groupSpec := @generic_groupSpec_k
example : type_of% @generic_matchTag_false_positive := @generic_matchTag_false_positive_k

end Hb

#print axioms Hb.generic_groupSpec_k
#print axioms Hb.generic_matchTag_false_positive_k
